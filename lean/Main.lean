import ESRVerif.Model.Partition
/-!
Line-protocol driver for the executable models: one operation per input line, one result line
per operation.  Used by harness/ correspondence checks (`.lake/build/bin/esrmodel < ops`).
-/
open ESR

def natArgs (xs : List String) : Option (List Nat) := xs.mapM String.toNat?

def handlePartition : List String → Option String
  | ["split", n, p, r] => do
      let [n, p, r] ← natArgs [n, p, r] | none
      match Partition.splitIdx n p r with
      | none => some "none"
      | some (a, b) => some s!"{a} {b}"
  | ["getfun", n, p, r] => do
      let [n, p, r] ← natArgs [n, p, r] | none
      let sl := Partition.getFunctionsSlice (List.range n) p r
      let first := match sl with | [] => "-" | a :: _ => toString a
      some s!"{Partition.dataStart n p r} {Partition.dataEnd n p r} {first} {sl.length}"
  | _ => none

def step (line : String) : String :=
  let toks := (line.trimAscii.toString.splitOn " ").filter (· ≠ "")
  match handlePartition toks with
  | some r => r
  | none => "bad-op"

partial def loop (h : IO.FS.Stream) (out : IO.FS.Stream) : IO Unit := do
  let line ← h.getLine
  if line.isEmpty then return ()
  out.putStrLn (step line)
  loop h out

def main : IO Unit := do
  let out ← IO.getStdout
  loop (← IO.getStdin) out
