import ESRVerif.Model.Partition
import ESRVerif.Props.C14
