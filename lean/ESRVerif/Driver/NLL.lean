import ESRVerif.Model.NLL
import ESRVerif.Generated.NLL
import ESRVerif.Driver.Util
/-!
Line protocol for the float64/complex128 instance of the likelihood interpreter.

`nll <PyClass> <N> y₁…y_N σ₁…σ_N ic₁…ic_N <K>`  where every number is the decimal 64-bit pattern
of a double and `<K>` describes what `eq_numpy(x,*a)` did:
  `R`                       it raised
  `S f <x>` / `S c <re> <im>`            it returned a float / complex scalar
  `V f <M> x₁…x_M` / `V c <M> re₁ im₁ …` it returned a float64 / complex128 vector of length M
Answer: `raise`, `nocls`, or `S <c> <re> <im>` / `V <n> (<c> <re> <im>)*` with bit patterns.
-/
namespace ESR.Driver.NLL
open ESR ESR.Driver ESR.NLL

def bits (s : String) : Option Float := s.toNat?.map (fun n => Float.ofBits n.toUInt64)

def takeFloats (n : Nat) (xs : List String) : Option (List CF × List String) :=
  if xs.length < n then none else do
    let fs ← (xs.take n).mapM bits
    some (fs.map CF.ofFloat, xs.drop n)

def takeComplex : Nat → List String → Option (List CF × List String)
  | 0, xs => some ([], xs)
  | n + 1, a :: b :: xs => do
    let re ← bits a
    let im ← bits b
    let (rest, tl) ← takeComplex n xs
    some (⟨re, im, true⟩ :: rest, tl)
  | _, _ => none

def parsePred : List String → Option (Pred CF)
  | ["R"] => some .raises
  | ["S", "f", x] => do some (.val (.scalar (CF.ofFloat (← bits x))))
  | ["S", "c", a, b] => do some (.val (.scalar ⟨← bits a, ← bits b, true⟩))
  | "V" :: "f" :: m :: xs => do
    let m ← m.toNat?
    let (v, tl) ← takeFloats m xs
    if tl.isEmpty then some (.val (.vec v)) else none
  | "V" :: "c" :: m :: xs => do
    let m ← m.toNat?
    let (v, tl) ← takeComplex m xs
    if tl.isEmpty then some (.val (.vec v)) else none
  | _ => none

def fmtCF (a : CF) : String :=
  s!"{if a.c then 1 else 0} {a.re.toBits} {(if a.c then a.im else 0.0).toBits}"

def fmtRes : Option (Arr CF) → String
  | none => "raise"
  | some (.scalar a) => "S " ++ fmtCF a
  | some (.vec xs) => joinSp (["V", toString xs.length] ++ xs.map fmtCF)

def handle : Handler
  | "nll" :: cls :: n :: rest => do
      let n ← n.toNat?
      let (y, r1) ← takeFloats n rest
      let (s, r2) ← takeFloats n r1
      let (ic, r3) ← takeFloats n r2
      let p ← parsePred r3
      match ESR.Gen.NLL.classes.lookup cls with
      | none => some "nocls"
      | some c => some (fmtRes (run c { yvar := y, yerr := s, invCov := ic, call := p }))
  | ["nllclasses"] => some (joinSp (ESR.Gen.NLL.classes.map (·.1)))
  | _ => none

end ESR.Driver.NLL
