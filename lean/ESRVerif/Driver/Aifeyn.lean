import ESRVerif.Model.Aifeyn
import ESRVerif.Driver.Util
/-!
Line-protocol ops of the tree code length model (labels and function strings contain no blanks):

* `aifeyn <n> l1..ln <m> p1..pm`            → `ok <float bits> <k> <nsym> <c1,..|->` | `err ValueError`
* `aifeyn_maxparam <n> f1..fn`              → `<max_param>` | `fuel`
* `aifeyn_countparams <maxp> <n> f1..fn`    → `c1,..` | `-`
* `aifeyn_pname <j>`                        → `a<j>`
* `aifeyn_tree2 <n0> .. <n1> .. <n2> .. <n> l1..ln` → `ok <bits> <len>` | `err ValueError` | `notmodelled` | `fuel`
                                              (`tree_to_aifeyn`)
* `aifeyn_single4 <n0> .. <n1> .. <n2> .. <n> l1..ln` → same format (`single_function`, steps (1) and (4))
* `aifeyn_writer <S> {<nf> f.. <nt> {<k> l..} <R> {<ne> {<k> l..}}}`
                                             → `<aifeyn_<n>.txt lines, ','>|<trees_<n>.txt lines, ';' (labels ',')>`
-/
namespace ESR.Driver.Aifeyn
open ESR ESR.Driver ESR.Aifeyn

/-- `<n> x1 .. xn rest` -/
def takeCounted : List String → Option (List String × List String)
  | [] => none
  | n :: rest => do
    let n ← n.toNat?
    if rest.length < n then none else some (rest.take n, rest.drop n)

/-- `<count> {item}` with a sub-parser per item -/
def takeMany {β} (item : List String → Option (β × List String)) : List String → Option (List β × List String)
  | [] => none
  | n :: rest => do
    let n ← n.toNat?
    let rec go : Nat → List String → List β → Option (List β × List String)
      | 0, r, acc => some (acc.reverse, r)
      | k + 1, r, acc => do
        let (x, r') ← item r
        go k r' (x :: acc)
    go n rest []

def bits (x : Float) : String := toString x.toBits.toNat

def errStr : Err → String
  | .valueError => "err ValueError"
  | .notModelled => "notmodelled"
  | .fuel => "fuel"

def parseShape (toks : List String) : Option (Shape × List String) := do
  let (funs, r) ← takeCounted toks
  let (trees, r) ← takeMany takeCounted r
  let (extra, r) ← takeMany (takeMany takeCounted) r
  some ({ allFun := funs, allTree := trees, extraByRank := extra }, r)

def fmtAifeynLine : Line Float → String
  | .code (.ok v) => bits v
  | .code (.error _) => "E"
  | .tree _ => "T"
  | .noParamList => "NP"

def fmtTreeLine : Line Float → String
  | .tree t => ",".intercalate t
  | .code _ => "C"
  | .noParamList => "NP"

def handle : Handler
  | "aifeyn" :: rest => do
      let (tree, r) ← takeCounted rest
      let (params, r) ← takeCounted r
      if !r.isEmpty then none
      match aifeyn floatOps tree params, codeLenOf tree params with
      | .ok v, some c => some s!"ok {bits v} {c.k} {c.n} {fmtNatList c.cs}"
      | .error e, none => some (errStr e)
      | .ok v, none => some s!"inconsistent ok {bits v} none"
      | .error e, some _ => some s!"inconsistent {errStr e} some"
  | "aifeyn_maxparam" :: rest => do
      let (funs, r) ← takeCounted rest
      if !r.isEmpty then none
      match getMaxParam funs with
      | some m => some (toString m)
      | none => some "fuel"
  | "aifeyn_countparams" :: maxp :: rest => do
      let maxp ← maxp.toNat?
      let (funs, r) ← takeCounted rest
      if !r.isEmpty then none
      some (fmtNatList (countParams funs maxp))
  | ["aifeyn_pname", j] => do
      let j ← j.toNat?
      some (pname j)
  | "aifeyn_tree2" :: rest => do
      let (b0, r) ← takeCounted rest
      let (b1, r) ← takeCounted r
      let (b2, r) ← takeCounted r
      let (labels, r) ← takeCounted r
      if !r.isEmpty then none
      match treeToAifeyn floatOps { nullary := b0, unary := b1, binary := b2 } labels with
      | .ok v => some s!"ok {bits v} {labels.length}"
      | .error e => some (errStr e)
  | "aifeyn_single4" :: rest => do
      let (b0, r) ← takeCounted rest
      let (b1, r) ← takeCounted r
      let (b2, r) ← takeCounted r
      let (labels, r) ← takeCounted r
      if !r.isEmpty then none
      match singleFunctionAifeyn floatOps { nullary := b0, unary := b1, binary := b2 } labels with
      | .ok v => some s!"ok {bits v} {labels.length}"
      | .error e => some (errStr e)
  | "aifeyn_writer" :: rest => do
      let (shapes, r) ← takeMany parseShape rest
      if !r.isEmpty then none
      let a := (catFile floatOps shapes "aifeyn").map fmtAifeynLine
      let t := (catFile floatOps shapes "trees").map fmtTreeLine
      some (",".intercalate a ++ "|" ++ ";".intercalate t)
  | _ => none

end ESR.Driver.Aifeyn
