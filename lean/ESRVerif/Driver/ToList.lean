import ESRVerif.Model.ToList
import ESRVerif.Model.ToListSelect
import ESRVerif.Driver.Util
/-!
Line protocol for the C18 model.

`tolist B0 B1 B2 NODE…`        → `ok <count> label…` | `err`
    NODE = `cls:k:flags:hexstr:num`, prefix order; `k = len(fun.args)`; a node with k > 2 is followed by the two
    terms of `fun.as_two_terms()`; flags ⊆ {n (is_number), s (is_symbol)} or `-`; hexstr = UTF-8 hex of str(fun)/name
    (`-` if empty); num = `-` | `o` | `r<p>/<q>` | `f<p>/<q>@<prec>`.
`tlrelabel RF MAXVAR B0 B1 B2 label…` → `ok label…` | `err`      (RF = 0/1; labels as returned by to_list)
`tlisfloat label`              → `1`/`0`        (`generator.is_float`)
`tleval B0 B1 B2 X A0 A1 A2 A3 label…` → bit pattern of `evalLabels` over `Float` | `err`
    (X, A0.. = 64-bit patterns of x, a0..a3; arities from `labelArity B (canon label)`; ties `opSem` to the oracle)
`tlselect B0 B1 B2 AE CK CAND | CAND | …` → `ok <idx> <complexity> <c> <ib> label…` | `err <c> <ib>`
    (`string_to_node`: AE = allow_eval, CK = check_ops (0/1); CAND = `none` (the parse raised) or the NODE tokens of the
    candidate tree, in index order; `<c>` = the counts before masking, comma-separated, `n` = NaN; `<ib>` = all_in_basis
    as 0/1 digits; `err` = ValueError of np.nanargmin)
`tlapi FN RF B0 B1 B2 CAND | CAND | …` → `ok label…` | `err`
    (the label list `fit_from_string` / `string_to_aifeyn` hand on: `string_to_node` with the flags of call site FN
    (`ESR.Gen.ToList.callSites`), `to_list`, relabelling with RF = replace_floats and the default `maxvar`)
-/
namespace ESR.Driver.ToList
open ESR ESR.Driver ESR.ToList

def strList (s : String) : List String := if s == "_" then [] else s.splitOn ","

def hexVal (c : Char) : Option Nat :=
  if c.isDigit then some (c.toNat - '0'.toNat)
  else if 'a' ≤ c ∧ c ≤ 'f' then some (c.toNat - 'a'.toNat + 10)
  else none

def unhex : List Char → Option (List Char)
  | [] => some []
  | a :: b :: rest => do
      let x ← hexVal a
      let y ← hexVal b
      let r ← unhex rest
      some (Char.ofNat (16 * x + y) :: r)
  | _ => none

def parseFrac (s : String) : Option (Int × Nat) :=
  match s.splitOn "/" with
  | [p, q] => do
      let p ← p.toInt?
      let q ← q.toNat?
      some (p, q)
  | _ => none

def parseNum (s : String) : Option NumVal :=
  if s == "-" then some .none
  else if s == "o" then some .other
  else match s.toList with
    | 'r' :: rest => (parseFrac (String.ofList rest)).map fun (p, q) => .rat p q
    | 'f' :: rest =>
      match (String.ofList rest).splitOn "@" with
      | [fr, pr] => do
          let (p, q) ← parseFrac fr
          let pr ← pr.toNat?
          some (.flt p q pr)
      | _ => none
    | _ => none

def parseNode (tok : String) : Option (Head × Nat) :=
  match tok.splitOn ":" with
  | [cls, k, flags, hx, num] => do
      let k ← k.toNat?
      let str ← if hx == "-" then some "" else (unhex hx.toList).map String.ofList
      let num ← parseNum num
      some ({ cls := cls, isNumber := flags.contains 'n', isSymbol := flags.contains 's', str := str, num := num }, k)
  | _ => none

/-- Parse one expression from the prefix token list. -/
partial def parseExpr : List String → Option (SymExpr × List String)
  | [] => none
  | tok :: rest => do
      let (h, k) ← parseNode tok
      if k == 0 then some (.atom h, rest)
      else if k == 1 then do
        let (a, r) ← parseExpr rest
        some (.app1 h a, r)
      else do
        let (a, r) ← parseExpr rest
        let (b, r') ← parseExpr r
        if k == 2 then some (.app2 h a b, r') else some (.appN h k a b, r')

/-- value of a numeric label over `Float` -/
def litFloat (s : String) : Float :=
  let one (cs : List Char) : Option Float :=
    match stripSign cs with
    | (neg, r) =>
      match parseUnsigned r with
      | some (m, e, []) =>
        let v := Float.ofScientific m (e < 0) e.natAbs
        some (if neg then -v else v)
      | _ => none
  match s.splitOn "/" with
  | [p, q] => match one p.toList, one q.toList with
    | some a, some b => a / b
    | _, _ => 0.0 / 0.0
  | _ => (one s.toList).getD (0.0 / 0.0)

def floatSem : Sem Float :=
  { add := (· + ·), mul := (· * ·), sub := (· - ·), div := (· / ·), pow := Float.pow,
    abs := Float.abs, sqrt := Float.sqrt, log := Float.log, inv := fun a => 1.0 / a,
    fn1 := fun name a =>
      if name = "exp" then Float.exp a else if name = "sin" then Float.sin a else if name = "cos" then Float.cos a
      else if name = "tan" then Float.tan a else if name = "tenexp" then Float.pow 10.0 a
      else if name = "log10_abs" then Float.log10 (Float.abs a) else 0.0 / 0.0,
    fn2 := fun _ _ _ => 0.0 / 0.0,
    ofRat := fun p q => Float.ofInt p / q.toFloat,
    lit := litFloat,
    const := fun _ => 0.0 / 0.0 }

/-- split the token list at `|` -/
def splitBar : List String → List (List String)
  | [] => [[]]
  | t :: ts =>
    match splitBar ts with
    | [] => [[t]]
    | g :: gs => if t == "|" then [] :: g :: gs else (t :: g) :: gs

/-- `none` (token list malformed) | `some none` (the parse raised) | `some (some e)` -/
def parseCand (toks : List String) : Option (Option SymExpr) :=
  if toks == ["none"] then some none
  else match parseExpr toks with
    | some (e, []) => some (some e)
    | _ => none

def fmtCounts (c : List (Option Nat)) : String :=
  ",".intercalate (c.map fun x => match x with | some n => toString n | none => "n")

def fmtBits (b : List Bool) : String := String.ofList (b.map fun x => if x then '1' else '0')

def bitsToFloat (s : String) : Option Float := s.toNat?.map fun n => Float.ofBits n.toUInt64

def handle : Handler
  | "tolist" :: b0 :: b1 :: b2 :: toks => do
      let B : Labeling.Basis := ⟨strList b0, strList b1, strList b2⟩
      match parseExpr toks with
      | some (e, []) =>
        match convert B e with
        | some l => some (joinSp ("ok" :: toString l.length :: l))
        | none => some "err"
      | _ => some "bad-tree"
  | "tlrelabel" :: rf :: mv :: b0 :: b1 :: b2 :: labels => do
      let B : Labeling.Basis := ⟨strList b0, strList b1, strList b2⟩
      let mv ← mv.toNat?
      match relabel B (rf == "1") mv labels with
      | some l => some (joinSp ("ok" :: l))
      | none => some "err"
  | "tleval" :: b0 :: b1 :: b2 :: x :: a0 :: a1 :: a2 :: a3 :: labels => do
      let B : Labeling.Basis := ⟨strList b0, strList b1, strList b2⟩
      let x ← bitsToFloat x
      let a0 ← bitsToFloat a0
      let a1 ← bitsToFloat a1
      let a2 ← bitsToFloat a2
      let a3 ← bitsToFloat a3
      let ρ : String → Float := fun n =>
        if n = "x" then x else if n = "a0" then a0 else if n = "a1" then a1 else if n = "a2" then a2
        else if n = "a3" then a3 else 0.0 / 0.0
      match labels.mapM (fun l => (labelArity B (canon l)).map fun k => (l, k)) with
      | none => some "err"
      | some al =>
        match evalLabels floatSem ρ al with
        | some v => some (toString v.toBits.toNat)
        | none => some "err"
  | ["tlisfloat", s] => some (if isFloatLabel s then "1" else "0")
  | "tlselect" :: b0 :: b1 :: b2 :: ae :: ck :: toks => do
      let B : Labeling.Basis := ⟨strList b0, strList b1, strList b2⟩
      match (splitBar toks).mapM parseCand with
      | none => some "bad-tree"
      | some es =>
        let ae := ae == "1"
        let ck := ck == "1"
        let tail := [fmtCounts (rawCounts B ae es), fmtBits (allInBasis B ae ck es)]
        match select B ae ck es with
        | none => some (joinSp ("err" :: tail))
        | some r =>
          match r.labels B with
          | some l => some (joinSp (["ok", toString r.idx, toString r.complexity] ++ tail ++ l))
          | none => some (joinSp ("no-labels" :: tail))
  | "tlapi" :: fn :: rf :: b0 :: b1 :: b2 :: toks => do
      let B : Labeling.Basis := ⟨strList b0, strList b1, strList b2⟩
      match ESR.Gen.ToList.callSites.find? (fun cs => cs.fn == fn), (splitBar toks).mapM parseCand with
      | some cs, some es =>
        match (select B cs.allowEval cs.checkOps es).bind (fun r => r.labels B) with
        | none => some "err"
        | some raw =>
          match relabel B (rf == "1") ESR.Gen.ToList.maxvarDefault raw with
          | some l => some (joinSp ("ok" :: l))
          | none => some "err"
      | none, _ => some "bad-call-site"
      | _, none => some "bad-tree"
  | _ => none

end ESR.Driver.ToList
