/-! Helpers shared by the line-protocol handlers (no Mathlib). -/
namespace ESR.Driver

def natArgs (xs : List String) : Option (List Nat) := xs.mapM String.toNat?

def intArg (s : String) : Option Int := s.toInt?

/-- A handler maps the tokens of one input line to one output line, or `none` if the op is not its own. -/
abbrev Handler := List String → Option String

def tokens (line : String) : List String :=
  (line.trimAscii.toString.splitOn " ").filter (· ≠ "")

def joinSp (xs : List String) : String := " ".intercalate xs

def fmtNatList (xs : List Nat) : String :=
  if xs.isEmpty then "-" else ",".intercalate (xs.map toString)

def parseNatList (s : String) : Option (List Nat) :=
  if s == "-" then some [] else (s.splitOn ",").mapM String.toNat?

end ESR.Driver
