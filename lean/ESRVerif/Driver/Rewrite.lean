import ESRVerif.Model.Rewrite
import ESRVerif.Driver.Util
/-! Line protocol for the C11 validator.
  `rwcert <unary,> <binary,> <a,labels> <b,labels>`  → `1` certified | `0` not certified | `bad-a` | `bad-b` (do not parse)
  `rwparse <unary,> <binary,> <labels>`              → `ok <arities>` | `bad`
  `rwnorm <unary,> <binary,> <labels>`               → normal form (debugging aid)
  `rwut <unary,> <binary,> <labels> <shape digits> <try_idx>` → model of update_tree:
        `none` | `err` | `one <labels> <shape>` | `many <labels>:<shape>;…`
  `rwpc <labels>`                                    → number of pow-set labels (termination measure)
  `rwcand <labels>`                                  → the candidate table of update_tree as its five parallel lists
        (model `UT.detectPar`): `special=<,> diff1=<,> diff2=<,> num1=<,> num2=<,>` (numbers `*k` `/k` `None`) | `err`
  `rwutp <unary,> <binary,> <labels> <shape digits> <try_idx>` → as `rwut`, computed by the parallel-list spelling
        `UT.updateTreePar` (proved equal to `updateTree` in Props/C11c; printed so that the executable agrees too)
Lists are comma separated, `_` is the empty list. -/
namespace ESR.Driver.Rewrite
open ESR ESR.Driver ESR.Rewrite

def strList (s : String) : List String := if s == "_" then [] else s.splitOn ","

def digits (s : String) : Option (List Nat) :=
  s.toList.mapM fun c => if c.isDigit then some (c.toNat - '0'.toNat) else none

def handle : Handler
  | ["rwcert", b1, b2, a, b] =>
      let B : Basis := ⟨strList b1, strList b2⟩
      match parsePrefix (strList a) B, parsePrefix (strList b) B with
      | none, _ => some "bad-a"
      | _, none => some "bad-b"
      | some _, some _ => some (if certEquiv (strList a) (strList b) B then "1" else "0")
  | ["rwparse", b1, b2, a] =>
      match parsePrefix (strList a) ⟨strList b1, strList b2⟩ with
      | none => some "bad"
      | some e => some ("ok " ++ String.join (e.arities.map toString))
  | ["rwnorm", b1, b2, a] =>
      match parsePrefix (strList a) ⟨strList b1, strList b2⟩ with
      | none => some "bad"
      | some e => some (((toString (repr (norm e))).replace "\n" " ").replace "  " " ")
  | ["rwut", b1, b2, a, sh, k] => do
      let k ← k.toNat?
      let S ← digits sh
      let fmt (L : List String) (S : List Nat) (sep : String) : String :=
        ",".intercalate L ++ sep ++ String.join (S.map toString)
      match UT.updateTree (strList a) S k ⟨strList b1, strList b2⟩ with
      | .none => some "none"
      | .error => some "err"
      | .one L S' => some ("one " ++ fmt L S' " ")
      | .many cs => some ("many " ++ ";".intercalate (cs.map fun c => fmt c.1 c.2 ":"))
  | ["rwcand", a] =>
      let ns (xs : List Nat) : String := if xs.isEmpty then "_" else ",".intercalate (xs.map toString)
      let nm (xs : List (Option UT.Num)) : String :=
        if xs.isEmpty then "_" else ",".intercalate (xs.map fun n => match n with
          | none => "None" | some n => n.op ++ toString n.k)
      match UT.detectPar (strList a) with
      | none => some "err"
      | some P => some ("special=" ++ ns P.special ++ " diff1=" ++ ns P.diff1 ++ " diff2=" ++ ns P.diff2
                        ++ " num1=" ++ nm P.num1 ++ " num2=" ++ nm P.num2)
  | ["rwutp", b1, b2, a, sh, k] => do
      let k ← k.toNat?
      let S ← digits sh
      let fmt (L : List String) (S : List Nat) (sep : String) : String :=
        ",".intercalate L ++ sep ++ String.join (S.map toString)
      match UT.updateTreePar (strList a) S k ⟨strList b1, strList b2⟩ with
      | .none => some "none"
      | .error => some "err"
      | .one L S' => some ("one " ++ fmt L S' " ")
      | .many cs => some ("many " ++ ";".intercalate (cs.map fun c => fmt c.1 c.2 ":"))
  | ["rwpc", a] => some (toString (UT.powCount (strList a)))
  | _ => none

end ESR.Driver.Rewrite
