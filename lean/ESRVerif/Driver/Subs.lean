import ESRVerif.Model.Subs
import ESRVerif.Driver.Util
/-!
Line-protocol ops of the Subs model (C17; strings travel hex-encoded, floats as 64-bit patterns).

  subs-tmpl <family> <j> <p> <q>      → hex(str({a_j: template}))            | none
  subs-pmap <k:v,k:v,…>                → hex(str({a_k: a_v, …}))
  subs-load <hexcell>                  → nan | err | hex(str(loaded dict))
  subs-loadfile <P> <hexfile>          → err | [cell;cell][…]…  (cell = nan | hex)
  subs-eval <hexterm> <bits>…          → bits of the parsed term at θ        | err
  subs-alldup <k>                      → hex … (get_all_dup(k))
  subs-cancel <k> <hexcell>…           → None | [] | hex …  (simplify_inv_subs on the strings)
-/
namespace ESR.Driver.Subs
open ESR ESR.Driver ESR.Subs

def hexDigit (n : Nat) : Char := if n < 10 then Char.ofNat (48 + n) else Char.ofNat (87 + n)

def hexEnc (s : List Char) : String :=
  if s.isEmpty then "-" else String.ofList (s.flatMap (fun c => [hexDigit (c.toNat / 16 % 16), hexDigit (c.toNat % 16)]))

def hexVal (c : Char) : Option Nat :=
  if '0' ≤ c ∧ c ≤ '9' then some (c.toNat - 48)
  else if 'a' ≤ c ∧ c ≤ 'f' then some (c.toNat - 87)
  else none

def hexDecGo : List Char → Option (List Char)
  | [] => some []
  | [_] => none
  | a :: b :: rest => do
    let x ← hexVal a
    let y ← hexVal b
    let r ← hexDecGo rest
    some (Char.ofNat (16 * x + y) :: r)

def hexDec (s : String) : Option (List Char) := if s == "-" then some [] else hexDecGo s.toList

def fmtEntry : Entry → String
  | .nan => "nan"
  | .map m => hexEnc (dumpMap m)

def parsePair (s : String) : Option (Nat × PTerm) :=
  match s.splitOn ":" with
  | [a, b] => do
    let k ← a.toNat?
    let v ← b.toNat?
    some (k, .param v)
  | _ => none

def handle : Handler
  | ["subs-tmpl", fam, j, p, q] => do
      let j ← j.toNat?
      let p ← p.toInt?
      let q ← q.toNat?
      match family fam j p q with
      | some t => some (hexEnc (dumpMap [(j, t)]))
      | none => some "none"
  | ["subs-pmap", spec] =>
      match (spec.splitOn ",").mapM parsePair with
      | some m => some (hexEnc (dumpMap m))
      | none => some "bad-args"
  | ["subs-load", cell] =>
      match hexDec cell with
      | none => some "bad-args"
      | some s => match loadCell s with
        | none => some "err"
        | some e => some (fmtEntry e)
  | ["subs-loadfile", p, file] =>
      match p.toNat?, hexDec file with
      | some p, some s => match loadFile p s with
        | none => some "err"
        | some rows => some (String.join (rows.map (fun row => "[" ++ ";".intercalate (row.map fmtEntry) ++ "]")) ++ ".")
      | _, _ => some "bad-args"
  | "subs-eval" :: term :: bits =>
      match hexDec term, bits.mapM String.toNat? with
      | some s, some bs =>
        match parseTerm s with
        | none => some "err"
        | some t =>
          let θ : Nat → Float := fun k => match bs[k]? with
            | some b => Float.ofBits (UInt64.ofNat b)
            | none => 0.0
          some (toString (eval floatOps θ t).toBits.toNat)
      | _, _ => some "bad-args"
  | ["subs-alldup", k] => do
      let k ← k.toNat?
      some (joinSp ((allDup k).map (fun m => hexEnc (dumpMap m))) ++ " .")
  | "subs-cancel" :: k :: cells =>
      match k.toNat?, cells.mapM hexDec with
      | some k, some cs =>
        let dup := (allDup k).map dumpMap
        match simplifyInvSubs dup (some cs) with
        | none => some "None"
        | some [] => some "[]"
        | some out => some (joinSp (out.map hexEnc))
      | _, _ => some "bad-args"
  | _ => none

end ESR.Driver.Subs
