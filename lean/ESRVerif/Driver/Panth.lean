import ESRVerif.Model.Panth
import ESRVerif.Driver.Util
/-!
Line protocol of the Pantheon grid/mask/cumulative-trapezoid model, instantiated at `Float`
(floats travel as decimal 64-bit patterns).

  panth_linspace <start> <stop> <num>            -> bits,bits,...            (numpy.linspace)
  panth_cumtrapz <xs> <ys>                       -> bits,...                 (scipy cumulative_trapezoid, as called)
  panth_muconst                                  -> bits                     (5*log10(c/Hfid/10pc) from the generated rational)
  panth_run <dz> <minnz> <start> <muconst> step* -> result;result;...
      step  C                                    clear_data                  -> c
            P/<zp1>/<x:h2,...>                   get_pred, numerical path    -> P/<mu>/<data_x>/<data_mask>   | err
            I/<zp1>/<x:F,...>                    get_pred, integrated=True   -> I/<mu>
      the table gives eq_numpy on every point it is evaluated at; a point missing from the table evaluates to NaN.
-/
namespace ESR.Driver.Panth
open ESR ESR.Driver ESR.Panth

local instance : NatCast Float := ⟨Float.ofNat⟩

def ofBits (s : String) : Option Float := s.toNat?.map (fun n => Float.ofBits (UInt64.ofNat n))

def bitsList (s : String) : Option (List Float) :=
  if s == "-" then some [] else (s.splitOn ",").mapM ofBits

def fmtBits (l : List Float) : String :=
  if l.isEmpty then "-" else ",".intercalate (l.map fun x => toString x.toBits.toNat)

/-- `int(np.ceil(x))`, `none` for nan/inf (Python raises) and for a negative count (linspace raises). -/
def ceilNat (x : Float) : Option Nat :=
  if x.isNaN || x.isInf then none
  else
    let c := x.ceil
    if c < 0 then none else some c.toUInt64.toNat

def table (s : String) : Option (List (UInt64 × Float)) :=
  if s == "-" then some [] else
  (s.splitOn ",").mapM fun e =>
    match e.splitOn ":" with
    | [a, b] => do
      let a ← a.toNat?
      let b ← ofBits b
      some (UInt64.ofNat a, b)
    | _ => none

def lookup (t : List (UInt64 × Float)) (x : Float) : Float :=
  match t.find? (fun p => p.1 == x.toBits) with
  | some p => p.2
  | none => 0.0 / 0.0

def runSteps (c : Cfg Float) : State Float → List String → Option (List String)
  | _, [] => some []
  | s, st :: rest =>
    match st.splitOn "/" with
    | ["C"] => (runSteps c (clearData s) rest).map ("c" :: ·)
    | ["P", z, t] => do
      let z ← bitsList z
      let t ← table t
      match getPred c s z (lookup t) with
      | none => (runSteps c s rest).map ("err" :: ·)
      | some (s', mu) =>
        let r := s!"P/{fmtBits mu}/{fmtBits (s'.dataX.getD [])}/{fmtNatList (s'.dataMask.getD [])}"
        (runSteps c s' rest).map (r :: ·)
    | ["I", z, t] => do
      let z ← bitsList z
      let t ← table t
      (runSteps c s rest).map (s!"I/{fmtBits (getPredIntegrated c z (lookup t))}" :: ·)
    | _ => none

def handle : Handler
  | ["panth_linspace", a, b, n] => do
      let a ← ofBits a
      let b ← ofBits b
      let n ← n.toNat?
      some (fmtBits (linspace a b n))
  | ["panth_cumtrapz", xs, ys] => do
      let xs ← bitsList xs
      let ys ← bitsList ys
      some (fmtBits (cumtrapz xs ys))
  | ["panth_muconst"] => some (fmtBits [Gen.Panth.muConst (α := Float) Float.log10])
  | "panth_run" :: dz :: nz :: st :: mc :: steps => do
      let dz ← ofBits dz
      let nz ← nz.toNat?
      let st ← ofBits st
      let mc ← ofBits mc
      let c : Cfg Float := { deltaZ := dz, minNz := nz, start := st, muConst := mc,
                             ceilNat := ceilNat, sqrt := Float.sqrt, log10 := Float.log10 }
      let out ← runSteps c {} steps
      some (";".intercalate out)
  | ["panth_shipped"] =>
      let c : Cfg Float := Cfg.shipped ceilNat Float.sqrt Float.log10
      some s!"{c.deltaZ.toBits.toNat} {c.minNz} {c.start.toBits.toNat} {c.muConst.toBits.toNat}"
  | _ => none

end ESR.Driver.Panth
