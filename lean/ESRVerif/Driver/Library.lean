import ESRVerif.Model.Library
import ESRVerif.Driver.Util
namespace ESR.Driver.Library
open ESR ESR.Driver ESR.Library

def strs (s : String) : List String := if s == "_" then [] else s.splitOn ","
def fmtS (l : List String) : String := if l.isEmpty then "_" else ",".intercalate l

def handle : Handler
  | ["lib-uniq", l] =>
      let l := strs l
      let us := uniqueKeys l
      some s!"{fmtS us} {fmtNatList (l.map (firstIndex us))}"
  | ["lib-match", a, b] => some (fmtNatList (matchIndexes (strs a) (strs b)))
  | ["lib-shuffle", perm, uniq, ms] => do
      let perm ← parseNatList perm
      let ms ← parseNatList ms
      let (u, m) := shuffleRemap perm (strs uniq) ms "?"
      some s!"{fmtS u} {fmtNatList m}"
  | ["lib-unmerge", nuniq, newFuns, f] => do
      let n ← nuniq.toNat?
      some (toString (unmergeMatch n (strs newFuns) f))
  | _ => none

end ESR.Driver.Library
