import ESRVerif.Model.Library
import ESRVerif.Model.Subs
import ESRVerif.Generated.Gather
import ESRVerif.Driver.Util
namespace ESR.Driver.Library
open ESR ESR.Driver ESR.Library

def strs (s : String) : List String := if s == "_" then [] else s.splitOn ","
def fmtS (l : List String) : String := if l.isEmpty then "_" else ",".intercalate l

/-! ### `lib-main`: duplicate_checker.main around do_sympy with a table-scripted CAS

names: strings without `,` `>` `|` or blanks whose `a<j>` substrings give the parameter count;
tokens: `nan` or an id — `n<i>`/`r<i>` ({ai: -ai}, {ai: 1/ai}), `s<i><j>`/`S<i><j>` (the two printed forms of a swap) are
self-inverse templates when their indices are below max_param, anything else is not;
chain: `N` (None), `E` ([]), or tokens joined by `+`;  round table: `name>name'>chain` joined by `,` (`_` = empty);
tables: round tables joined by `|` (`-` = none). -/

def hasParam (s : String) (j : Nat) : Bool := (s.splitOn ("a" ++ toString j)).length > 1

def parseTok (t : String) : Entry String := if t == "nan" then .nan else .map t

def parseChain (c : String) : OChain String :=
  if c == "N" then none else if c == "E" then some [] else some ((c.splitOn "+").map parseTok)

def fmtTok : Entry String → String
  | .nan => "nan"
  | .map t => t

def fmtRow (r : List (Entry String)) : String := if r.isEmpty then "E" else "+".intercalate (r.map fmtTok)
def fmtRows (rs : List (List (Entry String))) : String := if rs.isEmpty then "_" else ";".intercalate (rs.map fmtRow)

def digitAt (t : String) (k : Nat) : Option Nat := (t.toList[k]?).bind (fun c => (String.singleton c).toNat?)

def isDupTok (mp : Nat) (t : String) : Bool :=
  match t.toList.head? with
  | some 'n' | some 'r' => (digitAt t 1).any (· < mp) && t.length == 2
  | some 's' | some 'S' => (digitAt t 1).any (· < mp) && (digitAt t 2).any (· < mp) && t.length == 3
  | _ => false

abbrev Table := List (String × String × OChain String)

def parseTable (s : String) : Option Table :=
  if s == "_" then some [] else
  (s.splitOn ",").mapM (fun e => match e.splitOn ">" with
    | [a, b, c] => some (a, b, parseChain c)
    | _ => none)

def tableOracle (tables : List Table) (g : Nat) : Oracle String String :=
  pointwiseOracle (fun _ s => match (tables.getD g []).find? (·.1 == s) with
    | some (_, s', c) => (s', c)
    | none => (s, none))

def tokensOf (tables : List Table) : List String :=
  (tables.flatMap (fun t => t.flatMap (fun e => (e.2.2.getD []).filterMap (fun x => match x with
    | .map m => some m
    | .nan => none)))).eraseDups

def fmtRound (r : RoundOut String) : String :=
  s!"{if r.expandFun then 1 else 0}{if r.checkPerm then 1 else 0}:{fmtNatList r.idx}:{fmtRows r.subs}"

/-- `ranks = none`: `dupMain` (the whole-list scripted sympy_simplify of the one-rank runs); `ranks = some P`: `dupMainRanks`
with today's `make_changes` arithmetic (every rank scripts its own block, the real make_changes splices) -/
def runMain (ranks : Option Nat) (gen exOrig sympS tablesS permS : String) : Option String := do
  let symp ← if sympS == "_" then some [] else (sympS.splitOn ",").mapM (fun e => match e.splitOn ">" with
    | [a, b] => some (a, b)
    | _ => none)
  let tables ← if tablesS == "-" then some [] else (tablesS.splitOn "|").mapM parseTable
  let perm ← parseNatList permS
  let toks := tokensOf tables
  let cancel := fun (mp : Nat) (c : Option (List (Entry String))) =>
    ESR.Subs.simplifyInvSubs ((toks.filter (isDupTok mp)).map Entry.map) c
  let gen := strs gen
  let sympF := fun s => ((symp.find? (·.1 == s)).map (·.2)).getD s
  match (match ranks with
         | none => dupMain hasParam sympF (tableOracle tables) cancel "?" 64 (gen.length + 3) gen (strs exOrig) perm
         | some P => dupMainRanks ESR.Gen.Gather.makeChanges P hasParam sympF (tableOracle tables) cancel "?" 64
                       (gen.length + 3) gen (strs exOrig) perm) with
  | .error e => some s!"error:{e}"
  | .ok o =>
    let r := o.res
    some (joinSp [s!"ok mp={o.maxParam}", s!"alleq={fmtS o.allEq}", s!"nround={r.nround}",
      s!"fin={if r.finished then 1 else 0}", s!"fun={fmtS r.allFun}", s!"kexp={fmtS r.keysExpand}",
      s!"kfac={fmtS r.keysFactor}",
      s!"rounds={if r.rounds.isEmpty then "-" else "|".intercalate (r.rounds.map fmtRound)}",
      s!"uniq={fmtS o.uniq}", s!"match={fmtNatList o.matchIdx}", s!"inv={fmtRows o.invSubs}"])

def handle : Handler
  | ["lib-main", gen, exOrig, symp, tables, perm] => runMain none gen exOrig symp tables perm
  | ["lib-main-ranks", p, gen, exOrig, symp, tables, perm] => do
      let P ← p.toNat?
      runMain (some P) gen exOrig symp tables perm
  | ["lib-cas-ranks", p, i, names, table] => do
      -- one sympy_simplify call on P ranks: strings `names` (chains all None, as do_sympy passes them), one round table
      let P ← p.toNat?
      let i ← i.toNat?
      let tab ← parseTable table
      let f := strs names
      match casCallRanks ESR.Gen.Gather.makeChanges P (tableOracle [tab] 0) false false i f (f.map fun _ => none) with
      | none => some "raise"
      | some (f', t') => some s!"{fmtS f'} {";".intercalate (t'.map fun c => match c with
                                                                  | none => "N"
                                                                  | some r => fmtRow r)}"
  | ["lib-uniq", l] =>
      let l := strs l
      let us := uniqueKeys l
      some s!"{fmtS us} {fmtNatList (l.map (firstIndex us))}"
  | ["lib-match", a, b] => some (fmtNatList (matchIndexes (strs a) (strs b)))
  | ["lib-shuffle", perm, uniq, ms] => do
      let perm ← parseNatList perm
      let ms ← parseNatList ms
      let (u, m) := shuffleRemap perm (strs uniq) ms "?"
      some s!"{fmtS u} {fmtNatList m}"
  | ["lib-unmerge", nuniq, newFuns, f] => do
      let n ← nuniq.toNat?
      some (toString (unmergeMatch n (strs newFuns) f))
  | _ => none

end ESR.Driver.Library
