import ESRVerif.Model.Printer
import ESRVerif.Driver.Util
/-!
Line protocol for the printer model (C12).

`c12 <prefix expr>`      → `print⇥tok-ok⇥parse dump⇥parse=intended⇥precedence⇥coeffNeg⇥canonical`   (TAB separated)
`c12parse <text>`        → dump of `parseString text` (`~` stands for a blank)
`c12intended <prefix>`   → dump of `intended e`

prefix expr:  `I n` | `Q p q` | `F 0|1 mag` | `S name` | `f Abs|exp|log|sin e` | `P b e` | `A n t1..tn` | `M <num> n f1..fn`
-/
namespace ESR.Driver.Printer
open ESR ESR.Driver ESR.Printer

def readNum : List String → Option (Num × List String)
  | "I" :: n :: r => n.toInt?.map fun n => (Num.int n, r)
  | "Q" :: p :: q :: r => do
      let p ← p.toInt?
      let q ← q.toNat?
      some (Num.rat p q, r)
  | "F" :: s :: m :: r => some (Num.flt (s == "1") m, r)
  | _ => none

def readFn : String → Option Fn
  | "Abs" => some .Abs | "exp" => some .exp | "log" => some .log | "sin" => some .sin
  | _ => none

mutual
partial def readExpr : List String → Option (SExpr × List String)
  | "S" :: s :: r => some (.sym s, r)
  | "f" :: f :: r => do
      let f ← readFn f
      let (a, r) ← readExpr r
      some (.fn f a, r)
  | "P" :: r => do
      let (b, r) ← readExpr r
      let (e, r) ← readExpr r
      some (.pow b e, r)
  | "A" :: n :: r => do
      let n ← n.toNat?
      let (ts, r) ← readMany n r
      some (.add ts, r)
  | "M" :: r => do
      let (c, r) ← readNum r
      match r with
      | n :: r =>
        let n ← n.toNat?
        let (fs, r) ← readMany n r
        some (.mul c fs, r)
      | [] => none
  | toks => (readNum toks).map fun (n, r) => (.num n, r)
partial def readMany : Nat → List String → Option (List SExpr × List String)
  | 0, r => some ([], r)
  | n + 1, r => do
      let (e, r) ← readExpr r
      let (es, r) ← readMany n r
      some (e :: es, r)
end

def dumpOpt : Option PyAst → String
  | some a => a.dump
  | none => "none"

def handle : Handler
  | "c12" :: rest =>
    match readExpr rest with
    | some (e, []) =>
      let toks := pr e
      let s := render toks
      let tokOk := tokenize s == some toks
      let parsed := parseString s
      let same := parsed == some (intended e)
      some ("\t".intercalate [s, toString tokOk, dumpOpt parsed, toString same, toString (precedence e), toString (coeffNeg e), toString (canonical e)])
    | _ => some "bad-expr"
  | ["c12parse", text] => some (dumpOpt (parseString (text.replace "~" " ")))
  | "c12intended" :: rest =>
    match readExpr rest with
    | some (e, []) => some (intended e).dump
    | _ => some "bad-expr"
  | _ => none

end ESR.Driver.Printer
