import ESRVerif.Model.SingleFit
import ESRVerif.Driver.Optim
/-!
Line protocol for the single_function composition model (floats as decimal 64-bit patterns):

`singlefit <codelenBits> <aifeynBits> <maxParam> <nparam> <logOpt> <testSuccess> <prevSeen> <sympify> <hasA0>
           <xvarPresent> <nanflags> <directBits> <niterCsv> <nconvCsv> <call>*`      (fields 3.. exactly as op `optim`)
  the Fisher routine is the recording stand-in of the harness: it returns the `(theta, chi2)` it is handed and the
  parameter code length `<codelenBits>`; `<aifeynBits>` is the value the real aifeyn_complexity returned
→ `ret <nllBits> <dlBits> <paramBits,…> <handedChi2Bits> <handedParamBits,…>` | `raise ValueError` | `raise NameError`
  | `missing` | `unsupported` (max_param < nparam: count_params cannot yield that)
-/
namespace ESR.Driver.SingleFit
open ESR ESR.Driver ESR.Optim ESR.Gen.Optim ESR.SingleFit ESR.Driver.Optim

def handle : Handler
  | "singlefit" :: cl :: af :: mp :: np :: lo :: ts :: ps :: sy :: ha :: xv :: nf :: dn :: ni :: nc :: calls => do
      let cl ← float? cl
      let af ← float? af
      let [mp, np] ← natArgs [mp, np] | none
      let lo ← bool? lo
      let ts ← bool? ts
      let ps ← bool? ps
      let sy ← sympify? sy
      let ha ← bool? ha
      let xv ← bool? xv
      let nf ← (if nf == "-" then some [] else nf.toList.mapM (fun c => bool? (String.singleton c)))
      let dn ← float? dn
      let ni ← ints? ni
      let nc ← ints? nc
      let calls ← calls.mapM call?
      if mp < np then some "unsupported" else
      let cfg : Config Float := ⟨mp, np, lo, ts, ni, nc, ps, sy, ha, dn, xv, nf⟩
      let arr := calls.toArray
      let m := match findBranch np lo with | some b => b.calls.length | none => 1
      let script : Nat → Nat → Call Float := fun j c => arr.getD (j * m + c) .missing
      let convert : List Float → Float → Conv Float := fun θ chi2 => ⟨θ, chi2, cl⟩
      match singleFunction (fun a b => a + b) convert af cfg script, handed cfg script with
      | .ret nll dl params, some (θ, chi2) =>
        some s!"ret {nll.toBits.toNat} {dl.toBits.toNat} {fmtFloats "," params} {chi2.toBits.toNat} {fmtFloats "," θ}"
      | .ret _ _ _, none => some "inconsistent"
      | .valueError, _ => some "raise ValueError"
      | .nameError, _ => some "raise NameError"
      | .missing, _ => some "missing"
  | _ => none

end ESR.Driver.SingleFit
