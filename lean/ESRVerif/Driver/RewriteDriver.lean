import ESRVerif.Model.RewriteDriver
import ESRVerif.Model.RewriteSums
import ESRVerif.Driver.Util
/-! Line protocol for the model of `find_additional_trees` over scripted rewriters.
  `rwdrv <fuel> <root> <univ> <rw1> <rw2> <reject>`
      univ   : `labels:shape;labels:shape;…`  (labels comma separated, shape digits)
      rw1/2  : `i.k=none;i.k=err;i.k=one.c;i.k=many.c1.c2…`  (`many` alone = empty candidate list), `_` = empty table
      reject : `i.j;i.j`  pairs (parent, candidate) the cross-check refuses, `_` = none
    → `ok <passes1> <passes2> <labels:shape;…>` | `raises` | `nested` | `fuel` | `bad`
  `rwus <unary,> <binary,> <labels> <shape digits> <try_idx>` → model of update_sums:
        `none` | `err` | `one <labels> <shape>` | `many <labels>:<shape>;…` (`many` alone = `([], [], 0)`) | `unported <why>`
-/
namespace ESR.Driver.RewriteDriver
open ESR ESR.Driver ESR.Rewrite ESR.Rewrite.Drv

def strList (s : String) : List String := if s == "_" then [] else s.splitOn ","

def digits (s : String) : Option (List Nat) :=
  s.toList.mapM fun c => if c.isDigit then some (c.toNat - '0'.toNat) else none

def parseCand (s : String) : Option Cand :=
  match s.splitOn ":" with
  | [l, sh] => (digits sh).map (fun d => (strList l, d))
  | _ => none

def parseSOut (xs : List String) : Option SOut :=
  match xs with
  | ["none"] => some .none
  | ["err"] => some .err
  | ["one", c] => c.toNat?.map .one
  | "many" :: cs => (cs.mapM String.toNat?).map .many
  | _ => none

def parseRow (s : String) : Option ((Nat × Nat) × SOut) :=
  match s.splitOn "=" with
  | [key, val] =>
    match key.splitOn ".", parseSOut (val.splitOn ".") with
    | [i, k], some o => do
      let i ← i.toNat?
      let k ← k.toNat?
      pure ((i, k), o)
    | _, _ => none
  | _ => none

def parseTable (s : String) : Option (List ((Nat × Nat) × SOut)) :=
  if s == "_" then some [] else (s.splitOn ";").mapM parseRow

def parsePair (s : String) : Option (Nat × Nat) :=
  match s.splitOn "." with
  | [i, j] => do
    let i ← i.toNat?
    let j ← j.toNat?
    pure (i, j)
  | _ => none

def fmtCand (c : Cand) : String := ",".intercalate c.1 ++ ":" ++ String.join (c.2.map toString)

def handle : Handler
  | ["rwdrv", fuel, root, univ, rw1, rw2, rej] =>
    let r : Option String := do
      let fuel ← fuel.toNat?
      let root ← root.toNat?
      let univ ← (univ.splitOn ";").mapM parseCand
      let rw1 ← parseTable rw1
      let rw2 ← parseTable rw2
      let rej ← if rej == "_" then some [] else (rej.splitOn ";").mapM parsePair
      let s : Script := ⟨univ, rw1, rw2, rej⟩
      let inp := s.cand root
      match s.run fuel root with
      | .ok out =>
        let p1 := passes false (s.rewriter s.rw1) s.oracle fuel 0 [⟨inp.1, inp.2, 0⟩]
        let p2 := match phase1 (s.rewriter s.rw1) s.oracle fuel inp with
          | .ok st1 => passes true (s.rewriter s.rw2) s.oracle fuel 0 (resetTry st1)
          | _ => 0
        pure ("ok " ++ toString p1 ++ " " ++ toString p2 ++ " " ++ ";".intercalate (out.map fmtCand))
      | .raises => pure "raises"
      | .nested => pure "nested"
      | .fuel => pure "fuel"
    some (r.getD "bad")
  | ["rwus", b1, b2, a, sh, k] => do
      let k ← k.toNat?
      let S ← digits sh
      let fmt (L : List String) (S : List Nat) (sep : String) : String :=
        ",".intercalate L ++ sep ++ String.join (S.map toString)
      match US.updateSums (strList a) S k ⟨strList b1, strList b2⟩ with
      | .unported w => some ("unported " ++ w.replace " " "_")
      | .out .none => some "none"
      | .out .error => some "err"
      | .out (.one L S') => some ("one " ++ fmt L S' " ")
      | .out (.many cs) => some (if cs.isEmpty then "many" else "many " ++ ";".intercalate (cs.map fun c => fmt c.1 c.2 ":"))
  | _ => none

end ESR.Driver.RewriteDriver
