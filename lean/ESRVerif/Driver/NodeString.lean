import ESRVerif.Model.NodeString
import ESRVerif.Driver.Util
namespace ESR.Driver.NodeString
open ESR ESR.Driver ESR.NodeString

def leafOf (l : String) : LTree :=
  match l.toNat? with
  | some n => .int false n
  | none =>
    if l.startsWith "-" then
      match (l.drop 1).toString.toNat? with
      | some n => .int true n
      | none => .name l
    else .name l

/-- prefix labels + arities → tree (fuel = number of labels) -/
def build : Nat → List (String × Nat) → Option (LTree × List (String × Nat))
  | 0, _ => none
  | _, [] => none
  | fuel + 1, (l, a) :: rest =>
    match a with
    | 0 => some (leafOf l, rest)
    | 1 => do
      let (c, r1) ← build fuel rest
      some (.un l c, r1)
    | 2 => do
      let (x, r1) ← build fuel rest
      let (y, r2) ← build fuel r1
      some (.bin l x y, r2)
    | _ => none

def digits (s : String) : Option (List Nat) :=
  s.toList.mapM fun c => if c.isDigit then some (c.toNat - '0'.toNat) else none

/-- the number operations of `Float` (IEEE double; `Float.pow`, `Float.log` … are libm's, as Python's `math`) -/
def floatOps : Ops Float :=
  { add := (· + ·), mul := (· * ·), sub := (· - ·), div := (· / ·), rpow := Float.pow,
    abs := Float.abs, exp := Float.exp, log := Float.log, sin := Float.sin, sqrt := Float.sqrt,
    ofInt := Float.ofInt }

/-- `name:bits,name:bits,…` → valuation (a name that is not listed ↦ NaN) -/
def parseEnv (s : String) : Option (String → Float) := do
  let pairs ← (s.splitOn ",").mapM fun kv =>
    match kv.splitOn ":" with
    | [k, b] => b.toNat?.map fun n => (k, Float.ofBits n.toUInt64)
    | _ => none
  some fun n => ((pairs.find? fun p => p.1 == n).map (·.2)).getD (0.0 / 0.0)

/-
`nodestr L,L,… arities`          → `node_to_string` text and 1 iff the parser reads it back as `toPy`
`treeval L,L,… arities n:b,n:b…` → bit pattern of `evalTreeWith floatOps` (the evaluator of the C02b theorems, over
                                    `Float`) at the valuation | `nosem` (a label without ESR semantics) | `malformed`
-/
def handle : Handler
  | ["nodestr", labels, ar] => do
      let ls := labels.splitOn ","
      let ar ← digits ar
      if ls.length ≠ ar.length then none else
      match build (ls.length + 1) (ls.zip ar) with
      | some (t, []) =>
        let s := NodeString.toString t
        let ok := (ESR.Printer.parse (toks t)) == some (toPy t)
        some s!"{s} {if ok then 1 else 0}"
      | _ => some "malformed"
  | ["treeval", labels, ar, env] => do
      let ls := labels.splitOn ","
      let ar ← digits ar
      let ρ ← parseEnv env
      if ls.length ≠ ar.length then none else
      match build (ls.length + 1) (ls.zip ar) with
      | some (t, []) =>
        match evalTreeWith floatOps t ρ with
        | some v => some (toString v.toBits.toNat)
        | none => some "nosem"
      | _ => some "malformed"
  | _ => none

end ESR.Driver.NodeString
