import ESRVerif.Model.Optim
import ESRVerif.Driver.Util
/-!
Line protocol for the optimise_fun model (floats as decimal 64-bit patterns):

`optim <maxParam> <nparam> <logOpt> <testSuccess> <prevSeen> <sympify> <hasA0> <xvarPresent> <nanflags> <directBits>
       <niterCsv> <nconvCsv> <call>*`
  booleans 0/1; sympify ∈ ok|timeout|name|other; nanflags a 0/1 string or `-`;
  call = `T` | `N` | `E` | `o,<funBits>,<success>,<xBits>;<xBits>;…`  (flat, in the order the calls are made)
→ `ret <chi2Bits> <paramBits,…> <consumed> <exit>` | `raise ValueError` | `raise NameError <consumed>` | `missing`

`optimcalls <nparam> <logOpt>` → the `signs` argument of each minimize call of that arm, `|`-separated
`optimchi2 <signs> <xBits;…>` with signs `N` (None), `e` ([]) or a string over `+-n` → `<pBits;…>` | `raise`
-/
namespace ESR.Driver.Optim
open ESR ESR.Driver ESR.Optim ESR.Gen.Optim

def bool? : String → Option Bool
  | "0" => some false
  | "1" => some true
  | _ => none

def float? (s : String) : Option Float := s.toNat?.map (fun n => Float.ofBits n.toUInt64)

def floats? (sep : String) (s : String) : Option (List Float) :=
  if s == "-" then some [] else (s.splitOn sep).mapM (fun t => float? t)

def ints? (s : String) : Option (List Int) :=
  if s == "-" then some [] else (s.splitOn ",").mapM (fun t => t.toInt?)

def call? (s : String) : Option (Call Float) :=
  match s with
  | "T" => some .timeout
  | "N" => some .nameError
  | "E" => some .other
  | _ =>
    match s.splitOn "," with
    | ["o", f, su, xs] => do
      let f ← float? f
      let su ← bool? su
      let xs ← floats? ";" xs
      some (.ok xs f su)
    | _ => none

def sympify? : String → Option Sympify
  | "ok" => some .ok
  | "timeout" => some .timeout
  | "name" => some .nameError
  | "other" => some .other
  | _ => none

def fmtFloats (sep : String) (xs : List Float) : String :=
  if xs.isEmpty then "-" else sep.intercalate (xs.map (fun x => toString x.toBits.toNat))

def sign? : Char → Option Sign
  | '+' => some .pos
  | '-' => some .neg
  | 'n' => some .lin
  | _ => none

def fmtSigns : Option (List Sign) → String
  | none => "N"
  | some l => String.ofList (l.map (fun | .pos => '+' | .neg => '-' | .lin => 'n'))

def handle : Handler
  | "optim" :: mp :: np :: lo :: ts :: ps :: sy :: ha :: xv :: nf :: dn :: ni :: nc :: calls => do
      let [mp, np] ← natArgs [mp, np] | none
      let lo ← bool? lo
      let ts ← bool? ts
      let ps ← bool? ps
      let sy ← sympify? sy
      let ha ← bool? ha
      let xv ← bool? xv
      let nf ← (if nf == "-" then some [] else nf.toList.mapM (fun c => bool? (String.singleton c)))
      let dn ← float? dn
      let ni ← ints? ni
      let nc ← ints? nc
      let calls ← calls.mapM call?
      if mp < 2 then some "unsupported" else
      let cfg : Config Float := ⟨mp, np, lo, ts, ni, nc, ps, sy, ha, dn, xv, nf⟩
      let arr := calls.toArray
      let m := match findBranch np lo with | some b => b.calls.length | none => 1
      let script : Nat → Nat → Call Float := fun j c => arr.getD (j * m + c) .missing
      -- which way the model went (evidence only): early | done | conv | infLimit | timeout | nameError | other | missing
      let how : String := match pre cfg with
        | .early _ => "early"
        | .go br niter nconv => reprStr (runLoop cfg br niter nconv script).exit
      match optimiseFun cfg script with
      | (.ret chi2 params, n) => some s!"ret {chi2.toBits.toNat} {fmtFloats "," params} {n} {how}"
      | (.valueError, _) => some "raise ValueError"
      | (.nameError, n) => some s!"raise NameError {n}"
      | (.missing, _) => some "missing"
  | ["optimcalls", np, lo] => do
      let np ← np.toNat?
      let lo ← bool? lo
      match findBranch np lo with
      | none => some "none"
      | some b => some ("|".intercalate (b.calls.map fmtSigns))
  | ["optimchi2", signs, xs] => do
      let xs ← floats? ";" xs
      let sg ← (if signs == "N" then some none else if signs == "e" then some (some [])
                else (signs.toList.mapM sign?).map some)
      match chi2Params xs sg with
      | none => some "raise"
      | some p => some (fmtFloats ";" p)
  | _ => none

end ESR.Driver.Optim
