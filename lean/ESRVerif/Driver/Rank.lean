import ESRVerif.Model.Rank
import ESRVerif.Driver.Util
/-!
Line protocol for the `combine_DL.main` model (Float instance).

`rank <P> <U> <npar> <row>*`      → `ok <final rows>`  |  `err`
`rankmins <P> <U> <npar> <row>*`  → `ok <rows of combine_DL_comp / combine_DL_fcn_comp>` | `err`

`<row>` = `idx,nll,codelen,aifeyn[,param]*` with every float given as its 64-bit pattern in decimal; the variant
in line `j` of the table is called `v<j>`.  Output rows are `;`-separated, fields `,`-separated, floats as bits.
-/
namespace ESR.Driver.Rank
open ESR ESR.Driver ESR.Rank

def fbits (s : String) : Option Float := s.toNat?.map (fun n => Float.ofBits n.toUInt64)
def bitsOf (x : Float) : String := toString x.toBits.toNat

def parseRow (j : Nat) (s : String) : Option (Row Float) :=
  match (s.splitOn ",") with
  | i :: a :: b :: c :: ps => do
    let i ← i.toNat?
    let a ← fbits a
    let b ← fbits b
    let c ← fbits c
    let ps ← ps.mapM fbits
    some ⟨a, b, c, i, s!"v{j}", ps⟩
  | _ => none

def parseRows : Nat → List String → Option (List (Row Float))
  | _, [] => some []
  | j, s :: ss => do
    let r ← parseRow j s
    let rs ← parseRows (j + 1) ss
    some (r :: rs)

def parseTable (u npar : String) (rows : List String) : Option (Table Float) := do
  let u ← u.toNat?
  let npar ← npar.toNat?
  let rows ← parseRows 0 rows
  some ⟨u, npar, rows⟩

def fmtFinal (r : FinalRow Float) : String :=
  ",".intercalate ([toString r.rank, toString r.u, r.fcn, bitsOf r.dl, bitsOf r.prel, bitsOf r.nll,
    bitsOf r.codelen, bitsOf r.aifeyn] ++ r.params.map bitsOf)

def fmtMin (m : MinRow Float) : String :=
  ",".intercalate ([bitsOf m.dl, m.fcn, bitsOf m.nll, bitsOf m.codelen, bitsOf m.aifeyn] ++ m.params.map bitsOf)

def handle : Handler
  | "rank" :: p :: u :: npar :: rows => do
      let p ← p.toNat?
      let t ← parseTable u npar rows
      match Rank.main floatOps t p with
      | none => some "err"
      | some out => some ("ok " ++ ";".intercalate (out.map fmtFinal))
  | "rankmins" :: p :: u :: npar :: rows => do
      let p ← p.toNat?
      let t ← parseTable u npar rows
      if t.rows.length < 1 then some "err"      -- an EMPTY table raises at line 42 (one-row tables are fine since f575df7)
      else some ("ok " ++ ";".intercalate ((combined floatOps t p).map fmtMin))
  | _ => none

end ESR.Driver.Rank
