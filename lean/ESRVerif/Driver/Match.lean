import ESRVerif.Model.Match
import ESRVerif.Driver.Util
/-! Line protocol for `Model/Match.lean` (floats travel as 64-bit patterns, decimal). -/
namespace ESR.Driver.Match
open ESR ESR.Driver ESR.Match

def fOfBits (s : String) : Option Float := s.toNat?.map (fun n => Float.ofBits (UInt64.ofNat n))
def bitsOf (x : Float) : String := toString x.toBits.toNat

def parseFloats (s : String) : Option (List Float) :=
  if s == "-" then some [] else (s.splitOn ",").mapM fOfBits

def fmtFloats (xs : List Float) : String :=
  if xs.isEmpty then "-" else ",".intercalate (xs.map bitsOf)

/-- "mnm" -> [map, nan, map]; "-" -> [] -/
def parseShape (s : String) : Option (Chain Unit) :=
  if s == "-" then some [] else
    s.toList.mapM (fun c => if c == 'm' then some (Entry.map ()) else if c == 'n' then some Entry.nan else none)

def parseConv (s : String) : Option (Conv Float) :=
  if s == "R" then some .raised else
    match s.splitOn "/" with
    | ["O", p, f] => do
        let p ← parseFloats p
        let f ← parseFloats f
        some (.ok p f)
    | _ => none

def fmtConv : Conv Float → String
  | .raised => "R"
  | .ok p f => s!"O/{fmtFloats p}/{fmtFloats f}"

def maskIndex (m : List Bool) : Nat :=
  (m.zipIdx).foldl (fun acc (b, i) => if b then acc + 2 ^ i else acc) 0

/-- prefix term parser over '_'-separated tokens -/
partial def parseTerm : List String → Option (Term × List String)
  | [] => none
  | tok :: rest =>
    if tok.startsWith "v" then (tok.drop 1).toString.toNat?.map (fun i => (Term.var i, rest))
    else match tok with
    | "neg" => (parseTerm rest).map (fun (t, r) => (Term.neg t, r))
    | "inv" => (parseTerm rest).map (fun (t, r) => (Term.inv t, r))
    | "abs" => (parseTerm rest).map (fun (t, r) => (Term.abs t, r))
    | "sign" => (parseTerm rest).map (fun (t, r) => (Term.sign t, r))
    | "divn" => match rest with
        | n :: rest' => do
            let n ← n.toNat?
            let (t, r) ← parseTerm rest'
            some (Term.divn t n, r)
        | _ => none
    | "muln" => match rest with
        | n :: rest' => do
            let n ← n.toNat?
            let (t, r) ← parseTerm rest'
            some (Term.muln t n, r)
        | _ => none
    | "rpow" => match rest with
        | a :: b :: rest' => do
            let a ← a.toNat?
            let b ← b.toNat?
            let (t, r) ← parseTerm rest'
            some (Term.rpow t a b, r)
        | _ => none
    | "mul" => do
        let (a, r) ← parseTerm rest
        let (b, r') ← parseTerm r
        some (Term.mul a b, r')
    | _ => none

def parseMap (s : String) : Option (Nat → Term) :=
  if s == "e" then some (mapOf []) else do
    let kvs ← (s.splitOn "&").mapM (fun kv =>
      match kv.splitOn "=" with
      | [k, t] => do
          let k ← k.toNat?
          let (t, r) ← parseTerm (t.splitOn "_")
          if r.isEmpty then some (k, t) else none
      | _ => none)
    some (mapOf kvs)

def parseChain (s : String) : Option (List (Nat → Term)) :=
  if s == "-" then some [] else (s.splitOn ";").mapM parseMap

def branchName (b : Branch) : String :=
  match b with
  | .nllBad => "nllBad" | .noParams => "noParams" | .guard => "guard" | .convRaised => "convRaised"
  | .fishNonPos => "fishNonPos" | .shapeRaised => "shapeRaised" | .noSnap => "noSnap" | .snapAll => "snapAll"
  | .kZero => "kZero" | .snapSubset => "snapSubset" | .infNll => "infNll" | .nanNll => "nanNll"

def handle : Handler
  | ["match_row", nllU, nparams, maxParam, shape, conv, symOk, reval] => do
      let nllU ← fOfBits nllU
      let [nparams, maxParam, symOk] ← natArgs [nparams, maxParam, symOk] | none
      let chain ← parseShape shape
      let conv ← parseConv conv
      let tbl ← parseFloats reval
      let r : RowIn Float Unit := { nllU := nllU, nparams := nparams, maxParam := maxParam, chain := chain, conv := conv,
                                    symOk := symOk != 0, reval := fun m => tbl.getD (maskIndex m) (0.0 / 0.0) }
      match matchRow r with
      | none => some "crash"
      | some o => some s!"{branchName o.branch} {bitsOf o.nll} {bitsOf o.codelen} {fmtFloats o.params}"
  | ["match_guard", shape] => do
      let chain ← parseShape shape
      some (if guardFires chain then "1" else "0")
  | ["match_unflatten", n, k, row] => do
      let [n, k] ← natArgs [n, k] | none
      let row ← parseFloats row
      match unflatten (0.0 : Float) n k row with
      | none => some "none"
      | some M => some (fmtFloats ((List.range k).flatMap (fun i => (List.range k).map (fun j => M i j))))
  | ["match_flatten", n, k, mat] => do
      let [n, k] ← natArgs [n, k] | none
      let mat ← parseFloats mat
      some (fmtFloats (flatten (0.0 / 0.0 : Float) n k (fun i j => mat.getD (i * k + j) 0.0)))
  | ["match_compose", k, chain, theta] => do
      let k ← k.toNat?
      let chain ← parseChain chain
      let θ ← parseFloats theta
      let p := compose floatSem k chain
      some (fmtFloats (p.map (fun t => floatSem.eval t (fun i => θ.getD i 0.0))))
  | ["match_apply", k, chain, theta] => do
      let k ← k.toNat?
      let chain ← parseChain chain
      let θ ← parseFloats theta
      let f := applyChain floatSem chain (fun i => θ.getD i 0.0)
      some (fmtFloats ((List.range k).map f))
  | ["match_conv", k, shape, sameObj, conv] => do
      let [k, sameObj] ← natArgs [k, sameObj] | none
      let chain ← parseShape shape
      let conv ← parseConv conv
      some (fmtConv (convertParams k chain (sameObj != 0) conv))
  | _ => none

end ESR.Driver.Match
