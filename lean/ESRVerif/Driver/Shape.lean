import ESRVerif.Model.Shape
import ESRVerif.Model.ShapePtr
import ESRVerif.Model.Labeling
import ESRVerif.Driver.Util
namespace ESR.Driver.Shape
open ESR ESR.Driver ESR.Shape

def digits (s : String) : Option (List Nat) :=
  s.toList.mapM fun c => if c.isDigit then some (c.toNat - '0'.toNat) else none

def fmtDigits (l : List Nat) : String := String.join (l.map toString)

def fmtOpt (l : List (Option Nat)) : String :=
  if l.isEmpty then "-" else ",".intercalate (l.map fun | none => "n" | some k => toString k)

def strList (s : String) : List String := if s == "_" then [] else s.splitOn ","

def handle : Handler
  | ["ct", s] => do
      let s ← digits s
      match checkTree s with
      | .error => some "err"
      | .ok succ part pa le ri =>
        let p := match part with | none => "-" | some p => fmtDigits p
        some s!"{if succ then 1 else 0} {p} {fmtOpt pa} {fmtOpt le} {fmtOpt ri}"
  | ["ctp", s] => do          -- pointer-level model of check_tree (Model/ShapePtr.lean), same output format as `ct`
      let s ← digits s
      match checkTreePtr s with
      | none => some "fuel"
      | some .error => some "err"
      | some (.ok succ part pa le ri) =>
        let p := match part with | none => "-" | some p => fmtDigits p
        some s!"{if succ then 1 else 0} {p} {fmtOpt pa} {fmtOpt le} {fmtOpt ri}"
  | ["shapes", n] => do
      let n ← n.toNat?
      let sh := allowedShapes n
      some (if sh.isEmpty then "-" else ";".intercalate (sh.map fmtDigits))
  | ["valid", s] => do
      let s ← digits s
      some (if validShape s then "1" else "0")
  | ["label", s, b0, b1, b2] => do
      let s ← digits s
      let ts := Labeling.shapeToTrees s ⟨strList b0, strList b1, strList b2⟩
      some (if ts.isEmpty then "-" else ";".intercalate (ts.map fun t => ",".intercalate t))
  | ["wf", b0, b1, b2] =>     -- does the basis satisfy the hypothesis of `generate_nodup`?
      some (if (Labeling.Basis.mk (strList b0) (strList b1) (strList b2)).WellFormed then "1" else "0")
  | ["ntrees", n, b0, b1, b2] => do
      let n ← n.toNat?
      some (toString (Labeling.nTrees n ⟨strList b0, strList b1, strList b2⟩))
  | ["gen", n, b0, b1, b2] => do
      let n ← n.toNat?
      let ts := Labeling.generate n ⟨strList b0, strList b1, strList b2⟩
      some (if ts.isEmpty then "-" else ";".intercalate (ts.map fun t => ",".intercalate t))
  | _ => none

end ESR.Driver.Shape
