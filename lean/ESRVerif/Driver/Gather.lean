import ESRVerif.Model.Gather
import ESRVerif.Generated.Gather
import ESRVerif.Driver.Util
/-!
Line protocol for `Model/Gather` (index arithmetic taken from `ESR.Gen.Gather`, i.e. from today's source).
Lists are comma separated, `-` is the empty list, `N` is Python's `None`.

* `gather_mc <all_fun> <all_sym> <all_inv> <rank0> <rank1> …`   rank = `str_fun;sym_fun;inv_subs_fun`
      → `ok <all_fun'> <all_sym'> <all_inv'>` | `error`
* `gather_is <rank0> <rank1> …`                                  rank = `str_fun`            → `ok <all_fun>` | `error`
* `gather_ls <P> <nrows>`                                        → indices of the file rows in the order `load_subs` returns them
* `gather_cr <P> <flags 0/1 per shuffled item> <shufidx>`       → `ok <original indices flagged>` | `error`
-/
namespace ESR.Driver.Gather
open ESR ESR.Driver ESR.Gather

def strList (s : String) : List String :=
  if s == "-" then [] else s.splitOn ","

def fmtStrList (xs : List String) : String :=
  if xs.isEmpty then "-" else ",".intercalate xs

def optList (s : String) : List (Option String) :=
  (strList s).map fun t => if t == "N" then none else some t

def fmtOptList (xs : List (Option String)) : String :=
  fmtStrList (xs.map fun | none => "N" | some t => t)

def parseLocal (tok : String) : Option (Local String String) :=
  match tok.splitOn ";" with
  | [a, b, c] => some ⟨strList a, strList b, optList c⟩
  | _ => none

def handle : Handler
  | "gather_mc" :: af :: ay :: av :: ranks => do
      let loc ← ranks.mapM parseLocal
      match makeChanges ESR.Gen.Gather.makeChanges (strList af) (strList ay) (optList av) loc with
      | none => some "error"
      | some (f, y, v) => some s!"ok {fmtStrList f} {fmtStrList y} {fmtOptList v}"
  | "gather_is" :: ranks =>
      match initialSympifyGather (ranks.map strList) with
      | none => some "error"
      | some xs => some s!"ok {fmtOptList xs}"
  | ["gather_ls", p, n] => do
      let [p, n] ← natArgs [p, n] | none
      some (fmtNatList (loadSubs id (List.range n) p))
  | ["gather_cr", p, flags, shuf] => do
      let p ← p.toNat?
      let shuf ← parseNatList shuf
      let xs := (strList flags).map (· == "1")
      match flaggedIndices ESR.Gen.Gather.checkResults (fun a (_ : Nat) => a) xs (List.range xs.length) shuf p with
      | none => some "error"
      | some r => some s!"ok {fmtNatList r}"
  | _ => none

end ESR.Driver.Gather
