import ESRVerif.Model.Codelen
import ESRVerif.Driver.Util
/-!
Line protocol for `Model/Codelen` over IEEE doubles (exchanged as 64-bit patterns, comma separated):

`codelen_cp <maxParam> <θ> <F0> <nan | sel:<F'>> <nllIn> <v1=val1;v2=val2;...| ->`
   the last token tabulates `fop` at parameter vectors (each `v` is `b1:b2:..`); answers
   `ok <fallback 0|1> <branch> <k> <kept 0/1 string | -> <nll> <codelen> <params> <evals i.j;i;.. | ->`,
   `error <what>` or `missing <vector>` when the model asks `fop` at a vector that is not tabulated.
`codelen_flat <maxParam> <n> <H row-major>`  answers `<deriv>` or `error`.
-/
namespace ESR.Driver.Codelen
open ESR ESR.Driver ESR.Codelen

def bitsList (sep : String) (s : String) : Option (List UInt64) :=
  if s == "-" then some [] else (s.splitOn sep).mapM (fun t => t.toNat?.map UInt64.ofNat)

def floats (s : String) : Option (List Float) := (bitsList "," s).map (·.map Float.ofBits)

def fmtF (x : Float) : String := toString x.toBits.toNat

def fmtFs (xs : List Float) : String := if xs.isEmpty then "-" else ",".intercalate (xs.map fmtF)

def parseTable (s : String) : Option (List (List UInt64 × Float)) :=
  if s == "-" then some [] else
  (s.splitOn ";").mapM fun e =>
    match e.splitOn "=" with
    | [v, x] => do
        let v ← bitsList ":" v
        let x ← x.toNat?
        some (v, Float.ofBits (UInt64.ofNat x))
    | _ => none

def lookup (tab : List (List UInt64 × Float)) (v : List Float) : Option Float :=
  (tab.find? (fun e => e.1 == v.map Float.toBits)).map (·.2)

def branchName : Branch → String
  | .fallbackNan => "fallbackNan" | .badCurvature => "badCurvature" | .noSnap => "noSnap" | .snapAll => "snapAll"
  | .kZero => "kZero" | .searchSingle => "searchSingle" | .searchFound => "searchFound" | .searchNone => "searchNone"

def chunks (n : Nat) : Nat → List Float → List (List Float)
  | 0, _ => []
  | rows + 1, xs => xs.take n :: chunks n rows (xs.drop n)

def handle : Handler
  | ["codelen_cp", mp, th, f0, fb, nll, tab] => do
      let mp ← mp.toNat?
      let th ← floats th
      let f0 ← floats f0
      let fb ← (if fb == "nan" then some Fallback.notConsistent
                else if fb.startsWith "sel:" then (floats (fb.drop 4).toString).map Fallback.reselected else none)
      let [nll] ← floats nll | none
      let tab ← parseTable tab
      let fop := fun v => (lookup tab v).getD (0.0 / 0.0)
      let fbk := if needsFallback floatOps f0 then "1" else "0"
      match convertParams floatOps mp th f0 fb nll fop with
      | .error w => some s!"error {w.replace " " "_"}"
      | .ok o =>
        match o.evals.find? (fun idx => (lookup tab (zeroAt floatOps th idx)).isNone) with
        | some idx => some s!"missing {fmtNatList idx}"
        | none =>
          let kept := if o.kept.isEmpty then "-" else String.join (o.kept.map fun b => if b then "1" else "0")
          let evals := if o.evals.isEmpty then "-" else ";".intercalate (o.evals.map fun i => if i.isEmpty then "e" else ".".intercalate (i.map toString))
          some s!"ok {fbk} {branchName o.branch} {o.k} {kept} {fmtF o.nll} {fmtF o.codelen} {fmtFs o.params} {evals}"
  | ["codelen_flat", mp, n, h] => do
      let mp ← mp.toNat?
      let n ← n.toNat?
      let h ← floats h
      if h.length ≠ n * n then none else
      match flattenUpper floatOps mp (chunks n n h) with
      | none => some "error"
      | some d => some (fmtFs d)
  | _ => none

end ESR.Driver.Codelen
