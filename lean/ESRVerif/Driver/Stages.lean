import ESRVerif.Model.Stages
import ESRVerif.Driver.Util
/-!
Line protocol for `Model/Stages.lean` (values are text tokens: `nan`, `inf`, `-inf` or a decimal number).

  stfit <comp> <P> <tryInt> <f₀> … <f_{N-1}>        per function `o1|o2`, each `ok:<chi2>:<p₁,…>` | `ne` | `ra`
      → rows joined by `;`, a row is `chi2,p₁,…,p_k` (`-` for an empty file)
  stfis <mp> <P> <tryInt> <table> <f₀> … <f_{N-1}>   table rows `nll,p₁,…` joined by `;` (`-` = empty);
      per function `o1|o2`, each `ok:<p₁,…>/<nll>/<d₁,…>/<codelen>` | `ne` | `ra`
      → `none` (a rank raises) or rows joined by `;`, a row is `codelen,nll,p…#d…`
  stmaxparam <comp>
-/
namespace ESR.Driver.Stages
open ESR ESR.Driver ESR.Stages

def csv (s : String) : List String := if s == "" || s == "-" then [] else (s.splitOn ",").map (·)

def parseFit (s : String) : Option (Out (String × List String)) :=
  if s == "ne" then some .nameError
  else if s == "ra" then some .raises
  else match s.splitOn ":" with
    | ["ok", c, ps] => some (.ok (c, csv ps))
    | _ => none

def parsePair {β} (p : String → Option (Out β)) (s : String) : Option (Out β × Out β) :=
  match s.splitOn "|" with
  | [a, b] => do let x ← p a; let y ← p b; some (x, y)
  | _ => none

def parseConv (s : String) : Option (Out (Conv String)) :=
  if s == "ne" then some .nameError
  else if s == "ra" then some .raises
  else match s.splitOn ":" with
    | ["ok", v] =>
      match v.splitOn "/" with
      | [ps, nll, ds, cl] => some (.ok ⟨csv ps, nll, csv ds, cl⟩)
      | _ => none
    | _ => none

def isBad (s : String) : Bool := s == "nan" || s == "inf" || s == "-inf"

def fmtRows (rows : List String) : String := if rows.isEmpty then "-" else ";".intercalate rows

def handle : Handler
  | "stfit" :: comp :: p :: ti :: fs => do
      let [comp, p, ti] ← natArgs [comp, p, ti] | none
      let scr ← fs.mapM (parsePair parseFit)
      let idx := List.range scr.length
      let get (i : Nat) := scr.getD i (.raises, .raises)
      let rows := fitFile "nan" "0" (maxParam comp) (ti != 0) (fun i => (get i).1) (fun i => (get i).2) idx p
      some (fmtRows (rows.map (fun r => ",".intercalate (r.1 :: r.2))))
  | "stfis" :: mp :: p :: ti :: table :: fs => do
      let [mp, p, ti] ← natArgs [mp, p, ti] | none
      let scr ← fs.mapM (parsePair parseConv)
      let tab : List (String × List String) :=
        if table == "-" then [] else (table.splitOn ";").map (fun r => match csv r with | [] => ("", []) | a :: t => (a, t))
      let idx := List.range scr.length
      let get (i : Nat) := scr.getD i (.raises, .raises)
      match fisherFile "nan" "0" isBad mp (ti != 0) (fun i _ => (get i).1) (fun i _ => (get i).2) idx tab p with
      | none => some "none"
      | some rows => some (fmtRows (rows.map (fun c => ",".intercalate (codelenCols c) ++ "#" ++ ",".intercalate c.deriv)))
  | ["stmaxparam", comp] => do
      let [comp] ← natArgs [comp] | none
      some (toString (maxParam comp))
  | _ => none

end ESR.Driver.Stages
