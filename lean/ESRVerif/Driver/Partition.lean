import ESRVerif.Model.Partition
import ESRVerif.Generated.DirProto
import ESRVerif.Driver.Util
namespace ESR.Driver.Partition
open ESR ESR.Driver

/-- the directory operations rank `r` performs under protocol `p` of the regenerated table, as text
(`checkMkdir:<dir>` = `if not isdir(d): mkdir(d)`, `makedirsExistOk:<dir>` = `os.makedirs(d, exist_ok=True)`) -/
def protoLine (p : Gen.DirProto.Protocol) (r : Nat) : String :=
  let ops := if p.rank0Only && r != 0 then [] else
    p.steps.map (fun s => (match s.kind with | .checkMkdir => "checkMkdir:" | .makedirsExistOk => "makedirsExistOk:") ++ toString s.dir)
  String.intercalate " " ([p.name, if p.rank0Only then "1" else "0", if p.barrierAfter then "1" else "0"] ++ ops)

def handle : Handler
  | ["split", n, p, r] => do
      let [n, p, r] ← natArgs [n, p, r] | none
      match Partition.splitIdx n p r with
      | none => some "none"
      | some (a, b) => some s!"{a} {b}"
  | ["getfun", n, p, r] => do
      let [n, p, r] ← natArgs [n, p, r] | none
      let sl := Partition.getFunctionsSlice (List.range n) p r
      let first := match sl with | [] => "-" | a :: _ => toString a
      some s!"{Partition.dataStart n p r} {Partition.dataEnd n p r} {first} {sl.length}"
  | ["dirproto", i, r] => do
      -- protocol number i of Generated/DirProto.lean as seen by rank r: name rank0Only barrierAfter ops...
      let [i, r] ← natArgs [i, r] | none
      match Gen.DirProto.protocols[i]? with
      | none => some "none"
      | some p => some (protoLine p r)
  | _ => none

end ESR.Driver.Partition
