import ESRVerif.Model.Partition
import ESRVerif.Driver.Util
namespace ESR.Driver.Partition
open ESR ESR.Driver

def handle : Handler
  | ["split", n, p, r] => do
      let [n, p, r] ← natArgs [n, p, r] | none
      match Partition.splitIdx n p r with
      | none => some "none"
      | some (a, b) => some s!"{a} {b}"
  | ["getfun", n, p, r] => do
      let [n, p, r] ← natArgs [n, p, r] | none
      let sl := Partition.getFunctionsSlice (List.range n) p r
      let first := match sl with | [] => "-" | a :: _ => toString a
      some s!"{Partition.dataStart n p r} {Partition.dataEnd n p r} {first} {sl.length}"
  | _ => none

end ESR.Driver.Partition
