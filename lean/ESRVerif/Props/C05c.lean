import ESRVerif.Proofs.MatchFile
import ESRVerif.Props.C14
/-!
# C05 (row independence) — the output row of a function depends on nothing but its own line and its unique function's row

The transfer "unique function ↦ variant" can only be exact if it is a function of (the unique function's fit, the variant's
chain, the variant itself).  `Model/Match.lean` states the stage twice: `matchFile` (a map of `matchOne` over the rows) and
`matchLoop` (the loop as written, threading the tables `negloglike / params_meas / all_fish` through the iterations; an iteration can
change them exactly when some array it writes in place is not a fresh, row-local array).  The alias fact is REGENERATED from the
source on every run (`ESR.Gen.Match.snapPaths`: one entry per in-place write and origin reaching it): `rows_do_not_share_state`
is a `decide` over that table, and `matchStage_eq_matchFile` needs it.  The rest are the consequences the harness then checks on
the real `match.main` by metamorphic runs: permuting the functions, removing a function, adding variants of other (or the same)
unique functions, changing unrelated rows of the tables, and changing which rank owns a row (C14's tiling of `get_functions`)
permute / leave the output rows accordingly.
-/
namespace ESR.C05
open ESR.Match ESR.Gen.Match ESR.Partition

/-- Every array written in place inside the per-row loop of match.main (`p[Nsteps<1] = 0.`, `p[idx_] = 0.`, `p[~kept_mask] = 0.`,
`fish[Nsteps<1] = …`, `Nsteps[m] /= …`, …) is, on every path reaching the write, a fresh row-local array — never (a view of)
`params_meas`, `all_fish` or another table bound before the loop.  `decide` over the table regenerated from the current source. -/
theorem rows_do_not_share_state :
    snapTargetsFresh = true ∧ (snapPaths.filter (fun s => s.target == "p")).length ≥ 1 := by decide

variable {α τ φ : Type} [Num α]

/-- The loop as written (tables threaded through the iterations, with the regenerated alias fact) computes the map over rows,
whatever a write through a non-fresh array would have done. -/
theorem matchStage_eq_matchFile (spill : List (URow α) → FnIn τ φ → Option (RowOut α) → List (URow α))
    (C : Calc α τ φ) (mp : Nat) (U : List (URow α)) (fs : List (FnIn τ φ)) :
    matchStage spill C mp U fs = matchFile C mp U fs := by
  unfold matchStage
  rw [rows_do_not_share_state.1]
  exact matchLoop_fresh spill C mp U fs

/-- Output row `i` is a function of line `i` and of row `matches[i]` of the tables only: two libraries / table sets that agree there
give the same row, whatever the other functions, their order, and the other rows of the tables are. -/
theorem matchFile_row_local (C : Calc α τ φ) (mp : Nat) (U U' : List (URow α)) (fs fs' : List (FnIn τ φ)) (i j : Nat)
    (f : FnIn τ φ) (hi : fs[i]? = some f) (hj : fs'[j]? = some f) (hU : U[f.index]? = U'[f.index]?) :
    (matchFile C mp U fs)[i]? = (matchFile C mp U' fs')[j]? := by
  rw [matchFile_getElem?, matchFile_getElem?, hi, hj]
  simp [matchOne_congr C mp U U' f hU]

/-- Permuting the functions of the library (each with its match index and chain) permutes the output rows the same way. -/
theorem matchFile_perm (C : Calc α τ φ) (mp : Nat) (U : List (URow α)) (fs fs' : List (FnIn τ φ)) (h : fs.Perm fs') :
    (matchFile C mp U fs).Perm (matchFile C mp U fs') :=
  h.map _

/-- … pointwise: listing the functions in the order `σ` lists the output rows in the order `σ`. -/
theorem matchFile_reindex (C : Calc α τ φ) (mp : Nat) (U : List (URow α)) (fs : List (FnIn τ φ)) (σ : List Nat) :
    matchFile C mp U (σ.filterMap (fs[·]?)) = σ.filterMap ((matchFile C mp U fs)[·]?) := by
  induction σ with
  | nil => rfl
  | cons a σ ih =>
    have hg := matchFile_getElem? C mp U fs a
    cases h : fs[a]? with
    | none => rw [h] at hg; simp only [List.filterMap_cons, h, hg, Option.map_none]; exact ih
    | some f =>
      rw [h] at hg
      simp only [List.filterMap_cons, h, hg, Option.map_some]
      rw [← ih]; rfl

theorem matchFile_reverse (C : Calc α τ φ) (mp : Nat) (U : List (URow α)) (fs : List (FnIn τ φ)) :
    matchFile C mp U fs.reverse = (matchFile C mp U fs).reverse := by
  simp [matchFile]

/-- Removing a function removes its row and leaves every other row as it was. -/
theorem matchFile_remove (C : Calc α τ φ) (mp : Nat) (U : List (URow α)) (fs : List (FnIn τ φ)) (j : Nat) :
    matchFile C mp U (fs.eraseIdx j) = (matchFile C mp U fs).eraseIdx j :=
  matchFile_eraseIdx C mp U fs j

/-- Adding functions (before, between or after) leaves the rows of the others as they were. -/
theorem matchFile_add (C : Calc α τ φ) (mp : Nat) (U : List (URow α)) (fs gs hs : List (FnIn τ φ)) :
    matchFile C mp U (fs ++ gs ++ hs) = matchFile C mp U fs ++ matchFile C mp U gs ++ matchFile C mp U hs := by
  simp [matchFile_append]

/-- Which rank owns a row does not matter: every rank running the loop as written on the slice `get_functions` hands it, the
concatenation in rank order is the map over the whole file (C14's `getFunctions_tiles`). -/
theorem matchStage_ranks (spill : List (URow α) → FnIn τ φ → Option (RowOut α) → List (URow α))
    (C : Calc α τ φ) (mp : Nat) (U : List (URow α)) (fs : List (FnIn τ φ)) (P : Nat) (hP : 1 ≤ P) :
    (List.range P).flatMap (fun r => matchStage spill C mp U (getFunctionsSlice fs P r)) = matchFile C mp U fs := by
  simp only [matchStage_eq_matchFile]
  exact ESR.C14.stage_rows_aligned fs (matchOne C mp U) P hP

/-- … hence the same rows for any two rank counts. -/
theorem matchStage_rank_count_irrelevant (spill : List (URow α) → FnIn τ φ → Option (RowOut α) → List (URow α))
    (C : Calc α τ φ) (mp : Nat) (U : List (URow α)) (fs : List (FnIn τ φ)) (P Q : Nat) (hP : 1 ≤ P) (hQ : 1 ≤ Q) :
    (List.range P).flatMap (fun r => matchStage spill C mp U (getFunctionsSlice fs P r))
      = (List.range Q).flatMap (fun r => matchStage spill C mp U (getFunctionsSlice fs Q r)) := by
  rw [matchStage_ranks spill C mp U fs P hP, matchStage_ranks spill C mp U fs Q hQ]

/-! ## the alias fact is needed: with a snap target that is a view, a later row reads what an earlier row wrote -/

/-- a toy number type for the example below (only the decisions matter) -/
local instance : Num Nat where
  ofNat n := n
  add := (· + ·)
  mul := (· * ·)
  div := (· / ·)
  neg x := x
  abs x := x
  sqrt x := x
  log x := x
  lt a b := decide (a < b)
  le a b := decide (a ≤ b)
  ne a b := a != b
  isNaN _ := false
  isFinite _ := true
  nan := 0
  inf := 0

/-- `convert_params` of the toy example: the identity on an empty chain, and a reciprocal-like map that raises at 0 otherwise -/
def exCalc : Calc Nat Unit Unit :=
  { conv := fun p fish c => if c.isEmpty then .ok p (fish.take p.length) else if p.any (· == 0) then .raised else .ok p (fish.take p.length),
    symOk := fun _ => true, nllAt := fun _ _ => 7 }

def exU : List (URow Nat) := [⟨5, [1], [3]⟩]
def exId : FnIn Unit Unit := ⟨(), 0, 1, []⟩
def exRecip : FnIn Unit Unit := ⟨(), 0, 1, [Entry.map ()]⟩

/-- Non-vacuity of the hypothesis `snapTargetsFresh`: without it (`matchLoop false` with C05d's spill) the row of the second function
depends on whether the same-parameterisation variant was listed before it; with it the row is the same in both orders. -/
example :
    (matchLoop false spillSnapped exCalc 4 exU [exId, exRecip])[1]?.map (Option.map (·.branch)) = some (some .convRaised) ∧
    (matchLoop false spillSnapped exCalc 4 exU [exRecip, exId])[0]?.map (Option.map (·.branch)) = some (some .kZero) ∧
    (matchLoop true spillSnapped exCalc 4 exU [exId, exRecip])[1]?.map (Option.map (·.branch)) = some (some .kZero) := by
  decide

/-- the hypotheses of `matchFile_row_local` are satisfiable on a non-trivial case: the same function at different positions of two
different libraries, tables that differ elsewhere -/
example : (matchFile exCalc 4 exU [exId, exRecip])[1]? = (matchFile exCalc 4 (exU ++ [⟨9, [2], [8]⟩]) [exRecip])[0]? :=
  matchFile_row_local exCalc 4 exU (exU ++ [⟨9, [2], [8]⟩]) [exId, exRecip] [exRecip] 1 0 exRecip rfl rfl rfl

example : matchFile exCalc 4 exU ([0, 1].filterMap ([exRecip, exId][·]?)) ≠ [] := by decide

end ESR.C05
