import ESRVerif.Model.Stages
import ESRVerif.Props.C14
/-!
C14 (stage drivers) — "every stage output has exactly one row per function with row i referring to function i", for
the loops of `test_all.main` and `test_all_Fisher.main` as modelled in `Model/Stages.lean`, for EVERY number of
functions, every rank count `P ≥ 1` (incl. `P > N`) and every behaviour of the per-function routines (return, `NameError`,
any other exception, time-out), core Lean only.
-/
namespace ESR.C14c
open ESR.Partition ESR.Stages

variable {α φ : Type}

/-! ### stage 1 -/

/-- `negloglike_comp<c>.dat` written by `P` ranks: row `i` is the row of function `i`, whatever `P`. -/
theorem fitFile_eq (nan zero : α) (mp : Nat) (tryInt : Bool) (o1 o2 : φ → Out (α × List α)) (fs : List φ) (P : Nat) (hP : 1 ≤ P) :
    fitFile nan zero mp tryInt o1 o2 fs P = fs.map (fun f => fitRow nan zero mp tryInt (o1 f) (o2 f)) := by
  unfold fitFile fitRank
  exact ESR.C14.stage_rows_aligned fs _ P hP

theorem fitFile_length (nan zero : α) (mp : Nat) (tryInt : Bool) (o1 o2 : φ → Out (α × List α)) (fs : List φ) (P : Nat) (hP : 1 ≤ P) :
    (fitFile nan zero mp tryInt o1 o2 fs P).length = fs.length := by
  rw [fitFile_eq _ _ _ _ _ _ _ _ hP, List.length_map]

/-- the file does not depend on the number of ranks -/
theorem fitFile_rank_independent (nan zero : α) (mp : Nat) (tryInt : Bool) (o1 o2 : φ → Out (α × List α)) (fs : List φ)
    (P P' : Nat) (hP : 1 ≤ P) (hP' : 1 ≤ P') :
    fitFile nan zero mp tryInt o1 o2 fs P = fitFile nan zero mp tryInt o1 o2 fs P' := by
  rw [fitFile_eq _ _ _ _ _ _ _ _ hP, fitFile_eq _ _ _ _ _ _ _ _ hP']

/-- every row has `max_param` parameter columns (whatever the routine returned) -/
theorem fitRow_width (nan zero : α) (mp : Nat) (tryInt : Bool) (o1 o2 : Out (α × List α)) :
    (fitRow nan zero mp tryInt o1 o2).2.length = mp := by
  have hs : ∀ v : α × List α, (storeFit nan zero mp v).2.length = mp := by
    intro v
    unfold storeFit
    split
    · assumption
    · split <;> simp [badFit]
  unfold fitRow
  cases o1 with
  | ok v => exact hs v
  | nameError =>
    cases tryInt with
    | false => simp [badFit]
    | true =>
      cases o2 with
      | ok v => simpa using hs v
      | nameError => simp [badFit]
      | raises => simp [badFit]
  | raises => simp [badFit]

/-- a routine that returns a well-shaped result is reported as returned … -/
theorem fitRow_ok (nan zero : α) (mp : Nat) (tryInt : Bool) (v : α × List α) (o2 : Out (α × List α)) (hv : v.2.length = mp) :
    fitRow nan zero mp tryInt (.ok v) o2 = v := by
  simp [fitRow, storeFit, hv]

/-- … and a function whose fit raises (or times out) gets `nan, 0, …, 0` and disturbs no other row (`fitFile_eq`). -/
theorem fitRow_raises (nan zero : α) (mp : Nat) (tryInt : Bool) (o2 : Out (α × List α)) :
    fitRow nan zero mp tryInt .raises o2 = (nan, List.replicate mp zero) := rfl

/-- `NameError` is retried without integration exactly when `try_integration` was asked for -/
theorem fitRow_nameError (nan zero : α) (mp : Nat) (tryInt : Bool) (o2 : Out (α × List α)) :
    fitRow nan zero mp tryInt .nameError o2 =
      (if tryInt then (match o2 with | .ok v => storeFit nan zero mp v | _ => badFit nan zero mp) else badFit nan zero mp) := rfl

theorem maxParam_ge (comp : Nat) : 4 ≤ maxParam comp ∧ (comp - 1) / 2 ≤ maxParam comp := by
  unfold maxParam; omega

/-! ### stage 2 -/

theorem pySlice_zip {β γ} (xs : List β) (ys : List γ) (a b : Nat) :
    List.zip (pySlice xs a b) (pySlice ys a b) = pySlice (List.zip xs ys) a b := by
  unfold pySlice
  simp only [List.zip, List.take_zipWith, List.drop_zipWith]

theorem pySlice_length {β} (xs : List β) (a b : Nat) : (pySlice xs a b).length = min b xs.length - a := by
  unfold pySlice; simp

/-- no iteration lets an exception escape -/
def NoCrash (isBad : α → Bool) (tryInt : Bool) (o1 o2 : φ → α × List α → Out (Conv α)) (fs : List φ) (table : List (α × List α)) : Prop :=
  ∀ p ∈ List.zip fs table, fisherCrashes isBad tryInt p.2.1 (o1 p.1 p.2) (o2 p.1 p.2) = false

theorem mapM_some {β γ} (g : β → Option γ) (h : β → γ) (l : List β) (hg : ∀ x ∈ l, g x = some (h x)) :
    l.mapM g = some (l.map h) := by
  induction l with
  | nil => rfl
  | cons a l ih =>
    rw [List.mapM_cons, hg a (by simp), ih (fun x hx => hg x (by simp [hx]))]
    rfl

/-- rank `r` of a complete run: its rows are the rows of its slice of the zipped (function, stage-1 row) list -/
theorem fisherRank_eq (nan zero : α) (isBad : α → Bool) (mp : Nat) (tryInt : Bool)
    (o1 o2 : φ → α × List α → Out (Conv α)) (fs : List φ) (table : List (α × List α)) (P r : Nat)
    (h4 : 4 ≤ mp) (hlen : table.length = fs.length) (hne : fs ≠ []) (hc : NoCrash isBad tryInt o1 o2 fs table) :
    fisherRank nan zero isBad mp tryInt o1 o2 fs table P r =
      some ((getFunctionsSlice (List.zip fs table) P r).map
        (fun p => fisherRow nan zero isBad mp tryInt p.2.1 (o1 p.1 p.2) (o2 p.1 p.2))) := by
  unfold fisherRank
  have hz : List.zip (getFunctionsSlice fs P r) (pySlice table (dataStart fs.length P r) (dataEnd fs.length P r))
      = getFunctionsSlice (List.zip fs table) P r := by
    unfold getFunctionsSlice
    rw [pySlice_zip]
    simp [List.length_zip, hlen]
  have hl : ¬ (pySlice table (dataStart fs.length P r) (dataEnd fs.length P r)).length < (getFunctionsSlice fs P r).length := by
    unfold getFunctionsSlice
    rw [pySlice_length, pySlice_length, hlen]; omega
  have hw : ¬ derivWidth mp < 10 := by
    have : 4 * 5 ≤ mp * (mp + 1) := Nat.mul_le_mul h4 (by omega)
    unfold derivWidth; omega
  have he : table.isEmpty = false := by
    cases table with
    | nil => exact absurd (List.length_eq_zero_iff.mp hlen.symm) hne
    | cons _ _ => rfl
  simp only [he, Bool.false_eq_true, hw, hl, if_false, hz]
  have hmem : ∀ p ∈ getFunctionsSlice (List.zip fs table) P r, p ∈ List.zip fs table := by
    intro p hp
    unfold getFunctionsSlice pySlice at hp
    exact List.mem_of_mem_take (List.mem_of_mem_drop hp)
  have hany : (getFunctionsSlice (List.zip fs table) P r).any
      (fun p => fisherCrashes isBad tryInt p.2.1 (o1 p.1 p.2) (o2 p.1 p.2)) = false := by
    rw [List.any_eq_false]
    intro p hp
    simp [hc p (hmem p hp)]
  simp [hany]

/-- `codelen_comp<c>_deriv.dat` / `derivs_comp<c>.dat` written by `P` ranks from a stage-1 table with one row per
function: every rank completes and row `i` is computed from function `i` and stage-1 row `i` only, whatever `P`. -/
theorem fisherFile_eq (nan zero : α) (isBad : α → Bool) (mp : Nat) (tryInt : Bool)
    (o1 o2 : φ → α × List α → Out (Conv α)) (fs : List φ) (table : List (α × List α)) (P : Nat) (hP : 1 ≤ P)
    (h4 : 4 ≤ mp) (hlen : table.length = fs.length) (hne : fs ≠ []) (hc : NoCrash isBad tryInt o1 o2 fs table) :
    fisherFile nan zero isBad mp tryInt o1 o2 fs table P =
      some ((List.zip fs table).map (fun p => fisherRow nan zero isBad mp tryInt p.2.1 (o1 p.1 p.2) (o2 p.1 p.2))) := by
  unfold fisherFile
  rw [mapM_some _ (fun r => (getFunctionsSlice (List.zip fs table) P r).map
        (fun p => fisherRow nan zero isBad mp tryInt p.2.1 (o1 p.1 p.2) (o2 p.1 p.2)))
      _ (fun r _ => fisherRank_eq nan zero isBad mp tryInt o1 o2 fs table P r h4 hlen hne hc)]
  simp only [Option.map_some]
  congr 1
  rw [← List.flatMap_def]
  exact ESR.C14.stage_rows_aligned (List.zip fs table) _ P hP

theorem fisherFile_length (nan zero : α) (isBad : α → Bool) (mp : Nat) (tryInt : Bool)
    (o1 o2 : φ → α × List α → Out (Conv α)) (fs : List φ) (table : List (α × List α)) (P : Nat) (hP : 1 ≤ P)
    (h4 : 4 ≤ mp) (hlen : table.length = fs.length) (hne : fs ≠ []) (hc : NoCrash isBad tryInt o1 o2 fs table) :
    ∃ rows, fisherFile nan zero isBad mp tryInt o1 o2 fs table P = some rows ∧ rows.length = fs.length := by
  refine ⟨_, fisherFile_eq nan zero isBad mp tryInt o1 o2 fs table P hP h4 hlen hne hc, ?_⟩
  simp [List.length_zip, hlen]

/-- a function whose stage-1 likelihood is NaN or infinite is never given a finite parameter code length: its row is
`nan` with zero parameters and derivatives, and the routine is not even called -/
theorem fisherRow_bad (nan zero : α) (isBad : α → Bool) (mp : Nat) (tryInt : Bool) (nll : α) (o1 o2 : Out (Conv α))
    (h : isBad nll = true) :
    fisherRow nan zero isBad mp tryInt nll o1 o2 = ⟨List.replicate mp zero, nll, List.replicate (derivWidth mp) zero, nan⟩ := by
  simp [fisherRow, h, flatRow]

theorem fisherRow_ok (nan zero : α) (isBad : α → Bool) (mp : Nat) (tryInt : Bool) (nll : α) (v : Conv α) (o2 : Out (Conv α))
    (h : isBad nll = false) : fisherRow nan zero isBad mp tryInt nll (.ok v) o2 = v := by
  simp [fisherRow, h]

/-- a routine that raises leaves `codelen = 0`, zero parameters/derivatives and the stage-1 likelihood -/
theorem fisherRow_raises (nan zero : α) (isBad : α → Bool) (mp : Nat) (tryInt : Bool) (nll : α) (o2 : Out (Conv α))
    (h : isBad nll = false) : fisherRow nan zero isBad mp tryInt nll .raises o2 = flatRow zero mp nll zero := by
  simp [fisherRow, h]

/-- the only way an iteration can take the whole rank down: `NameError`, `try_integration` on, and the retry raising -/
theorem fisherCrashes_iff (isBad : α → Bool) (tryInt : Bool) (nll : α) (o1 o2 : Out (Conv α)) :
    fisherCrashes isBad tryInt nll o1 o2 = true ↔
      isBad nll = false ∧ o1 = .nameError ∧ tryInt = true ∧ (∀ v, o2 ≠ .ok v) := by
  unfold fisherCrashes
  cases hb : isBad nll <;> cases o1 <;> cases tryInt <;> cases o2 <;> simp

/-- without `try_integration` (the default) no behaviour of the routines can make a rank fail -/
theorem noCrash_of_no_integration (isBad : α → Bool) (o1 o2 : φ → α × List α → Out (Conv α)) (fs : List φ) (table : List (α × List α)) :
    NoCrash isBad false o1 o2 fs table := by
  intro p _
  unfold fisherCrashes
  cases isBad p.2.1 <;> cases o1 p.1 p.2 <;> simp

/-- F18 in the model: for an EMPTY function list (N = 0) the Fisher stage completes on NO rank count — `load_loglike`
reads the empty stage-1 file as an array of shape (1,0) and `data[:,0]` raises on every rank (the hypothesis `fs ≠ []`
of `fisherFile_eq` cannot be dropped) -/
theorem fisherFile_empty (nan zero : α) (isBad : α → Bool) (mp : Nat) (tryInt : Bool)
    (o1 o2 : φ → α × List α → Out (Conv α)) (fs : List φ) (P : Nat) (hP : 1 ≤ P) :
    fisherFile nan zero isBad mp tryInt o1 o2 fs [] P = none := by
  unfold fisherFile
  obtain ⟨k, rfl⟩ : ∃ k, P = k + 1 := ⟨P - 1, by omega⟩
  rw [List.range_succ_eq_map]
  simp [fisherRank]

/-- … while stage 1 does complete on an empty list (it writes an empty file), for every rank count -/
theorem fitFile_empty (nan zero : α) (mp : Nat) (tryInt : Bool) (o1 o2 : φ → Out (α × List α)) (P : Nat) (hP : 1 ≤ P) :
    fitFile nan zero mp tryInt o1 o2 ([] : List φ) P = [] := by
  rw [fitFile_eq _ _ _ _ _ _ _ _ hP]; rfl

/-! ### the two stages together -/

/-- Stage 2 run on `P₂` ranks over the file stage 1 wrote on `P₁` ranks: one row per function, row `i` computed from
function `i` and ITS OWN stage-1 row, for all `P₁, P₂ ≥ 1`. -/
theorem two_stages_rank_independent (nan zero : α) (isBad : α → Bool) (comp : Nat) (tryInt : Bool)
    (f1 f2 : φ → Out (α × List α)) (o1 o2 : φ → α × List α → Out (Conv α)) (fs : List φ) (P₁ P₂ : Nat)
    (h1 : 1 ≤ P₁) (h2 : 1 ≤ P₂) (hne : fs ≠ [])
    (hc : NoCrash isBad tryInt o1 o2 fs (fs.map (fun f => fitRow nan zero (maxParam comp) tryInt (f1 f) (f2 f)))) :
    fisherFile nan zero isBad (maxParam comp) tryInt o1 o2 fs (fitFile nan zero (maxParam comp) tryInt f1 f2 fs P₁) P₂ =
      some (fs.map (fun f =>
        let row := fitRow nan zero (maxParam comp) tryInt (f1 f) (f2 f)
        fisherRow nan zero isBad (maxParam comp) tryInt row.1 (o1 f row) (o2 f row))) := by
  rw [fitFile_eq _ _ _ _ _ _ _ _ h1]
  rw [fisherFile_eq nan zero isBad _ tryInt o1 o2 fs _ P₂ h2 (maxParam_ge comp).1 (by simp) hne hc]
  congr 1
  rw [List.zip_map_right, List.map_map]
  have hz : ∀ l : List φ, l.zip l = l.map (fun f => (f, f)) := by
    intro l
    induction l with
    | nil => rfl
    | cons a l ih => simp [ih]
  rw [hz, List.map_map]
  rfl

/-! ### non-vacuity: concrete runs of the model (3 functions, 5 ranks → surplus ranks; NameError retry; nan row) -/

example :
    fitFile "nan" "0" 4 true
      (fun f => if f = "f0" then .ok ("1.5", ["2", "0", "0", "0"]) else if f = "f1" then .nameError else .raises)
      (fun _ => .ok ("7", ["1", "1", "1", "1"])) ["f0", "f1", "f2"] 5
    = [("1.5", ["2", "0", "0", "0"]), ("7", ["1", "1", "1", "1"]), ("nan", ["0", "0", "0", "0"])] := by decide

example :
    (fisherFile "nan" "0" (fun s => s == "nan" || s == "inf") 4 false
      (fun f _ => if f = "f0" then .ok ⟨["2", "0", "0", "0"], "1.4", ["9"], "0.7"⟩ else .nameError)
      (fun _ _ => .raises) ["f0", "f1", "f2"] [("1.5", ["2", "1"]), ("3", ["1", "1"]), ("nan", ["0", "0"])] 2).map (List.map codelenCols)
    = some [["0.7", "1.4", "2", "0", "0", "0"], ["0", "3", "0", "0", "0", "0"], ["nan", "nan", "0", "0", "0", "0"]] := by
  decide

/-- a stage-1 table with fewer than four parameter columns (never written by `test_all.main`) stops every rank at line 308 -/
example : fisherFile "nan" "0" (fun s => s == "nan") 3 false (fun _ _ => .raises) (fun _ _ => .raises) ["f0"] [("1", ["1", "1", "1"])] 1 = none := by
  decide

/-- with `try_integration` a retry that raises takes the rank down (the Python has no handler around it) -/
example :
    fisherFile "nan" "0" (fun s => s == "nan") 4 true (fun _ _ => .nameError) (fun _ _ => .raises) ["f0"] [("1", ["1"])] 1 = none := by
  decide

end ESR.C14c
