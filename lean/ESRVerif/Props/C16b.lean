import ESRVerif.Model.MemState
import ESRVerif.Generated.MemState
import ESRVerif.Generated.Effects
/-!
C16 (in-memory part) — what a call computes does not depend on what earlier calls in the same process left in memory.

`Props/C16.lean` covers the files.  Here: every module-level object, default argument, class/function attribute, memo
and process-wide setting of the esr modules is a row of the table regenerated from today's source
(`ESR.Gen.MemState.rows`); a call is an arbitrary deterministic computation that reads and writes cells (`Prog`) within
what its row allows (`Conforms`).
-/
namespace ESR.C16
open ESR.MemState

/-! ### the general theorem (any table, any number of cells, histories of any length) -/

variable {init : Mem} {tbl : Nat → Cell → Acc} {E : Nat → Prop}

/-- no entry point of the family can change the cell -/
def Stable (tbl : Nat → Cell → Acc) (E : Nat → Prop) (c : Cell) : Prop := ∀ e, E e → (tbl e c).mutates = false

/-- A conforming call leaves every cell that no entry point may change at its import-time value. -/
theorem stable_preserved {e : Nat} (he : E e) {fresh : List Cell} {p : Prog} (hp : Conforms init (tbl e) fresh p) :
    ∀ m : Mem, (∀ c, Stable tbl E c → m c = init c) → ∀ c, Stable tbl E c → (run p m).2 c = init c := by
  induction hp with
  | ret => intro m hm c hc; exact hm c hc
  | rd _ _ ih => intro m hm c hc; exact ih (m _) m hm c hc
  | @wrReset fresh c' v k hmut _ ih =>
    intro m hm c hc
    apply ih (upd m c' v) _ c hc
    intro d hd
    have hne : d ≠ c' := by
      intro h; subst h
      have := hd e he
      rw [this] at hmut; exact absurd hmut (by decide)
    simp [upd, hne, hm d hd]
  | @wrIdem fresh c' v k _ hv _ ih =>
    intro m hm c hc
    apply ih (upd m c' v) _ c hc
    intro d hd
    by_cases h : d = c'
    · subst h; simp [upd, hv]
    · simp [upd, h, hm d hd]

/-- **Non-interference of one call.** Two runs of a conforming call from memories that agree on the cells the call has
already re-initialised and on the cells its row lets it look at give the same result, and leave the same value in every
cell on which the two memories agreed. -/
theorem call_noninterference {row : Cell → Acc} {fresh : List Cell} {p : Prog} (hp : Conforms init row fresh p) :
    ∀ m m' : Mem, (∀ c, (c ∈ fresh ∨ (row c).exposes = true) → m c = m' c) →
      (run p m).1 = (run p m').1 ∧ ∀ d, m d = m' d → (run p m).2 d = (run p m').2 d := by
  induction hp with
  | ret => intro m m' _; exact ⟨rfl, fun d hd => hd⟩
  | @rd fresh c k hc _ ih =>
    intro m m' h
    have hcc : m c = m' c := h c hc
    simp only [run]
    rw [← hcc]
    exact ih (m c) m m' h
  | @wrReset fresh c v k _ _ ih =>
    intro m m' h
    simp only [run]
    have h2 : ∀ d, (d ∈ c :: fresh ∨ (row d).exposes = true) → upd m c v d = upd m' c v d := by
      intro d hd
      by_cases hdc : d = c
      · simp [upd, hdc]
      · simp only [upd, hdc, if_false]
        rcases hd with hd | hd
        · rcases List.mem_cons.mp hd with h1 | h1
          · exact absurd h1 hdc
          · exact h d (Or.inl h1)
        · exact h d (Or.inr hd)
    refine ⟨(ih _ _ h2).1, ?_⟩
    intro d hd
    apply (ih _ _ h2).2
    by_cases hdc : d = c <;> simp [upd, hdc, hd]
  | @wrIdem fresh c v k _ _ _ ih =>
    intro m m' h
    simp only [run]
    have h2 : ∀ d, (d ∈ fresh ∨ (row d).exposes = true) → upd m c v d = upd m' c v d := by
      intro d hd
      by_cases hdc : d = c
      · simp [upd, hdc]
      · simp only [upd, hdc, if_false]; exact h d hd
    refine ⟨(ih _ _ h2).1, ?_⟩
    intro d hd
    apply (ih _ _ h2).2
    by_cases hdc : d = c <;> simp [upd, hdc, hd]

/-- after any history of conforming calls the cells nobody may change still hold their import-time values -/
theorem history_keeps_stable (hist : List (Nat × Prog)) (hh : ∀ ep ∈ hist, E ep.1 ∧ Conforms init (tbl ep.1) [] ep.2) :
    ∀ m : Mem, (∀ c, Stable tbl E c → m c = init c) → ∀ c, Stable tbl E c → runHist (hist.map (·.2)) m c = init c := by
  induction hist with
  | nil => intro m hm c hc; exact hm c hc
  | cons ep rest ih =>
    intro m hm c hc
    have h1 := hh ep (by simp)
    simp only [List.map_cons, runHist]
    apply ih (fun x hx => hh x (List.mem_cons_of_mem _ hx)) _ _ c hc
    exact stable_preserved (init := init) (tbl := tbl) (E := E) h1.1 h1.2 m hm

/-- the caller's preparation of the declared input cells (e.g. `np.random.seed(s)` before a fitting stage) -/
def prepare (inputs : List Cell) (s : Mem) (m : Mem) : Mem := fun c => if c ∈ inputs then s c else m c

/-- **History independence (memory).** Suppose that every cell some entry point looks at before re-initialising it is,
unless it is one of the declared `inputs`, changed by no entry point (`hsafe`: the table has no carried cell outside
`inputs`).  Then after ANY sequence `hist` of conforming calls (any entry points, arguments, files; no bound on the
length), a call whose declared inputs are prepared the same way returns what it returns in a fresh process, and leaves
the same value in every cell that nobody may change and in every declared input it does not touch. -/
theorem memory_history_independent (inputs : List Cell)
    (hsafe : ∀ c, c ∉ inputs → ∀ e, E e → (tbl e c).exposes = true → Stable tbl E c)
    (hist : List (Nat × Prog)) (hh : ∀ ep ∈ hist, E ep.1 ∧ Conforms init (tbl ep.1) [] ep.2)
    (e : Nat) (he : E e) (p : Prog) (hp : Conforms init (tbl e) [] p) (s : Mem) :
    (run p (prepare inputs s (runHist (hist.map (·.2)) init))).1 = (run p (prepare inputs s init)).1 ∧
    ∀ d, (d ∈ inputs ∨ Stable tbl E d) →
      (run p (prepare inputs s (runHist (hist.map (·.2)) init))).2 d = (run p (prepare inputs s init)).2 d := by
  have hst := history_keeps_stable (init := init) (tbl := tbl) (E := E) hist hh init (fun _ _ => rfl)
  have hag : ∀ d, (d ∈ inputs ∨ Stable tbl E d) →
      prepare inputs s (runHist (hist.map (·.2)) init) d = prepare inputs s init d := by
    intro d hd
    unfold prepare
    by_cases hin : d ∈ inputs
    · simp [hin]
    · simp only [hin, if_false]
      rcases hd with hd | hd
      · exact absurd hd hin
      · exact hst d hd
  have hni := call_noninterference (init := init) hp (prepare inputs s (runHist (hist.map (·.2)) init)) (prepare inputs s init)
    (by
      intro c hc
      rcases hc with hc | hc
      · simp at hc
      · by_cases hin : c ∈ inputs
        · exact hag c (Or.inl hin)
        · exact hag c (Or.inr (hsafe c hin e he hc)))
  exact ⟨hni.1, fun d hd => hni.2 d (hag d hd)⟩

theorem prepare_nil (s m : Mem) : prepare [] s m = m := by
  funext c; simp [prepare]

/-- with no declared input: the call returns exactly what it returns as the first call of a fresh process -/
theorem memory_history_independent_closed
    (hsafe : ∀ c, ∀ e, E e → (tbl e c).exposes = true → Stable tbl E c)
    (hist : List (Nat × Prog)) (hh : ∀ ep ∈ hist, E ep.1 ∧ Conforms init (tbl ep.1) [] ep.2)
    (e : Nat) (he : E e) (p : Prog) (hp : Conforms init (tbl e) [] p) :
    (run p (runHist (hist.map (·.2)) init)).1 = (run p init).1 := by
  have := (memory_history_independent (init := init) (tbl := tbl) (E := E) [] (fun c _ e he h => hsafe c e he h) hist hh e he p hp init).1
  simpa [prepare_nil] using this

/-! ### from the decidable check of a table to the hypothesis of the theorem -/

theorem table_safe (rows : List Row) (es : List Nat) (allowed : List String) (h : carried rows es = allowed) :
    ∀ c, c ∉ allowed → ∀ e, e ∈ es → (accOf rows e c).exposes = true → Stable (accOf rows) (· ∈ es) c := by
  intro c hc e he hex e' he'
  unfold accOf at hex ⊢
  cases hf : rows.find? (fun r => r.cell == c) with
  | none => simp [Acc.mutates]
  | some r =>
    simp only [hf] at hex ⊢
    have hmem : r ∈ rows := List.mem_of_find?_eq_some hf
    have hcell : r.cell = c := by
      have := List.find?_some hf
      simpa using this
    have hexp : r.exposed es = true := by
      unfold Row.exposed
      exact List.any_eq_true.mpr ⟨e, he, hex⟩
    cases hm : (r.at e').mutates with
    | false => rfl
    | true =>
      exfalso
      have hmut : r.mutated es = true := by
        unfold Row.mutated
        exact List.any_eq_true.mpr ⟨e', he', hm⟩
      apply hc
      rw [← h, ← hcell]
      unfold carried
      exact List.mem_map.mpr ⟨r, List.mem_filter.mpr ⟨hmem, by simp [hexp, hmut]⟩, rfl⟩

/-! ### the table regenerated from today's source -/
open ESR.Gen.MemState

/-- every row has one column per entry point and no cell is listed twice -/
theorem table_well_formed : wellFormed rows entries.length = true := by decide +kernel

/-- Cells through which a pipeline call (generation, Likelihood construction, fit, Fisher, match, combine) can see what an
earlier pipeline call did.  Each is there for a stated reason; anything else appearing here breaks `carried_pipeline`. -/
def declared : List (String × String) := [
  ("np.random", "declared input: the property fixes the random seed of the observed call (the caller seeds numpy's global generator before a fitting stage; generation seeds it itself and is `reset` in its own column)"),
  ("sympy.cache", "assumed result-neutral: sympy's internal memoisation of pure functions (cacheit); not ESR state, covered by the differential history runs only"),
  ("sys.recursionlimit", "assumed result-neutral: only ever raised (comp >= 8, test_all.get_functions/test_all_Fisher.main), never lowered; matters only to a computation nested deeper than the interpreter default of 1000 frames")]

/-- **No carried cell in the pipeline** beyond the declared ones: every other cell of every esr module (module-level
objects, default arguments, class and function attributes, memos, signal handlers, warning filters, printer settings,
os.environ, ...) is either never written after import or re-initialised by the same call before it is used. -/
theorem carried_pipeline : carried rows pipeline = declared.map (·.1) := by decide +kernel

/-- the same, entry point by entry point (columns: 0 generation, 1 Likelihood(), 2 fit, 3 Fisher, 4 match, 5 combine): numpy's
global generator is carried into the fit stage ONLY (generation seeds it itself); the two assumed-neutral process-wide
cells are consulted implicitly by everything.  These 13 pairs are all the (c) entries of the pipeline. -/
theorem carried_pairs_pipeline : carriedPairs rows pipeline =
    [("np.random", 2),
     ("sympy.cache", 0), ("sympy.cache", 1), ("sympy.cache", 2), ("sympy.cache", 3), ("sympy.cache", 4), ("sympy.cache", 5),
     ("sys.recursionlimit", 0), ("sys.recursionlimit", 1), ("sys.recursionlimit", 2), ("sys.recursionlimit", 3),
     ("sys.recursionlimit", 4), ("sys.recursionlimit", 5)] := by decide +kernel

/-- the same with the single-function API (fit_single.*) in the family: at most one more cell is carried over — the a<i>
keys of the shared sympy symbol table, which `string_to_node`→`string_to_expr` reads without (re)binding them first (the
pipeline stages bind them first: `locs_keys_written`).  `_partial`: for these entry points history independence is NOT
shown — with today's source `fit_from_string`/`string_to_aifeyn` do see whether an earlier call registered a<i> (the check
observes it each run: coverage.fit_single_api_probe); the property speaks about generation and the fitting stages only. -/
theorem carried_with_single_function_api_partial :
    (carried rows (pipeline ++ api)).all (· ∈ "esr.fitting.sympy_symbols.sympy_locs[a<i>]" :: declared.map (·.1)) = true := by
  decide +kernel

/-- the a<i> keys are re-bound by generation and by the match stage before they are read there (the function-level
version of this is `locs_keys_written` over Generated/Effects.lean) and untouched by the other pipeline calls -/
theorem sympy_locs_keys_reset_in_pipeline :
    ESR.Gen.Effects.locsReadBeforeWrite = [] ∧
    pipeline.map (fun e => accOf rows e "esr.fitting.sympy_symbols.sympy_locs[a<i>]") = [.reset, .none, .none, .none, .reset, .none] := by
  decide +kernel

/-- nothing but the a<i> keys of `sympy_locs` is ever stored into a module-level object, default argument, class or
function attribute of an esr module after import -/
theorem esr_objects_never_written :
    (rows.filter fun r => r.kind != "process" && r.mutated (pipeline ++ api)).map (·.cell) = ["esr.fitting.sympy_symbols.sympy_locs[a<i>]"] := by
  decide +kernel

/-- no default argument, class attribute, function attribute or memo is changed by any entry point -/
theorem no_mutated_default_or_attribute :
    (rows.filter fun r => (r.kind == "default" || r.kind == "class" || r.kind == "funcattr" || r.kind == "memo") && r.mutated (pipeline ++ api)) = [] := by
  decide +kernel

/-- numpy's global generator in the generation stage: seeded in the call before it is drawn from -/
theorem generation_seeds_before_drawing : accOf rows 0 "np.random" = .reset := by decide +kernel

/-- the SIGALRM handler and timer are installed by every `time_limit` before the alarm is armed -/
theorem alarm_handler_installed_before_use :
    (pipeline ++ api).all (fun e => !(accOf rows e "signal.SIGALRM").exposes && !(accOf rows e "signal.alarm").exposes) = true := by
  decide +kernel

/-- **The pipeline, concretely.** For the table regenerated from today's source: after any history of pipeline calls
that touch memory as the table says, a pipeline call whose numpy generator / sympy cache / recursion limit are set as in
the fresh process returns what it returns in a fresh process. -/
theorem pipeline_memory_history_independent (init : Mem)
    (hist : List (Nat × Prog)) (hh : ∀ ep ∈ hist, ep.1 ∈ pipeline ∧ Conforms init (accOf rows ep.1) [] ep.2)
    (e : Nat) (he : e ∈ pipeline) (p : Prog) (hp : Conforms init (accOf rows e) [] p) (s : Mem) :
    (run p (prepare (declared.map (·.1)) s (runHist (hist.map (·.2)) init))).1 = (run p (prepare (declared.map (·.1)) s init)).1 :=
  (memory_history_independent (init := init) (tbl := accOf rows) (E := (· ∈ pipeline)) (declared.map (·.1))
    (table_safe rows pipeline _ carried_pipeline) hist hh e he p hp s).1

/-! ### non-vacuity: a conforming call, and what a carried cell does -/

/-- seed, draw, return the draw: conforms to a `reset` row and its result ignores the generator state left behind -/
example : Conforms (fun _ => 0) (fun c => if c = "np.random" then .reset else .none) []
    (.wr "np.random" 1234 (.rd "np.random" fun v => .wr "np.random" (v + 1) (.ret v))) := by
  refine .wrReset (by decide) (.rd (Or.inl (by simp)) fun v => .wrReset (by decide) .ret)

example : (run (.wr "np.random" 1234 (.rd "np.random" fun v => .wr "np.random" (v + 1) (.ret v))) (fun _ => 77)).1 = 1234 := by
  decide

/-- a memo (`if k not in cache: cache[k] = load(); return cache[k]`): the second call returns what the first cached,
not what a fresh process computes — this is why an `rmw` row outside `declared` must break `carried_pipeline` -/
def memoCall (loaded : Val) : Prog := .rd "cache" fun v => if v = 0 then .wr "cache" loaded (.ret loaded) else .ret v

example : (run (memoCall 5) (runHist [memoCall 3] (fun _ => 0))).1 = 3 ∧ (run (memoCall 5) (fun _ => 0)).1 = 5 := by decide

example : carried [⟨"cache", "module", true, [.rmw]⟩, ⟨"rank", "module", false, [.ro]⟩, ⟨"rng", "process", true, [.reset]⟩] [0] = ["cache"] := by
  decide

example : countKind rows pipeline .c > 0 ∧ countKind rows pipeline .b > 0 ∧ countKind rows pipeline .a > 0 := by decide +kernel

end ESR.C16
