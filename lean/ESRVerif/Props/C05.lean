import ESRVerif.Proofs.Match
import Mathlib.LinearAlgebra.Matrix.NonsingularInverse
/-!
# C05 — fitted parameters transfer exactly from a unique function to its variants

Theorems over `Model/Match.lean` (one row of `esr/fitting/match.py:main`, the list-level part of
`simplifier.convert_params`, the triangular storage of the Hessian).  The guard on the loaded chain is the boolean AST
*regenerated from the source* (`ESR.Gen.Match.guard`); `guard_is_nan_test` is about that regenerated object, so a guard that
fires on anything but "some entry of the chain is not a mapping" makes this file fail to build.

What is *not* proved here (inputs of the model, checked against an independent chain-rule oracle on every run): that sympy's
`subs`/`jacobian`/`lambdify` satisfy `Sem.Lawful` and return the Jacobian, and that `np.linalg.inv` inverts.  That the Hessian of
`L∘p⁻¹` at a stationary point IS `J⁻ᵀ H J⁻¹` is proved in `Props/C05b.lean` (`fisher_matrix_of_variant`, `fisher_diag_monomial`);
`quadratic_form_transforms` and `monomial_fisher_diag` below are the algebraic part it uses.
-/
namespace ESR.C05
open ESR.Match ESR.Gen.Match

/-! ## order of composition (simplifier.py:1205-1207) -/

/-- Evaluating the composed array `id.subs(c₀).subs(c₁)…subs(c_m)` at θ equals applying the maps to θ with the LAST recorded map
first: `⟦c₀⟧ (⟦c₁⟧ (… ⟦c_m⟧ θ))`, for any term semantics with a lawful simultaneous substitution. -/
theorem compose_order {α : Type} (S : Sem α) (h : S.Lawful) (k : Nat) (chain : List (Nat → S.T)) (θ : Nat → α) :
    (compose S k chain).map (fun t => S.eval t θ) = (List.range k).map (applyChain S chain θ) := by
  unfold compose
  rw [foldl_subst_eval S h]
  simp [h.eval_var, Function.comp_def]

/-- the executable template language used by the correspondence satisfies the substitution law -/
theorem floatSem_compose_order (k : Nat) (chain : List (Nat → Term)) (θ : Nat → Float) :
    (compose floatSem k chain).map (fun t => floatSem.eval t θ) = (List.range k).map (applyChain floatSem chain θ) :=
  compose_order floatSem floatSem_lawful k chain θ

/-- the order matters and is the stated one: `[{a0: 1/a0}, {a0: a0/2}]` denotes θ ↦ 1/(θ/2) (not (1/θ)/2) -/
example : compose floatSem 1 [mapOf [(0, .inv (.var 0))], mapOf [(0, .divn (.var 0) 2)]] = [.inv (.divn (.var 0) 2)] := by
  rfl

/-! ## triangular storage: the Fisher stage's flatten and the matching stage's unflatten are inverse -/

/-- Python's `int(i*max_param - (i-1)*i/2)` is the position of the diagonal entry (i,i) in `np.triu_indices(n)` order. -/
theorem start_is_triu_position (n i : Nat) (h : i ≤ n) : startPy n i = rowStart n i := startPy_eq_rowStart n i h

/-- `unflatten n k (flatten n k H) i j = H i j` for a symmetric `H`, all `i j < k ≤ n` (entries beyond `k` are the NaN padding). -/
theorem unflatten_flatten {α : Type} (nanv zero : α) (n k : Nat) (H : Nat → Nat → α) (hk : k ≤ n)
    (hsym : ∀ i j, H i j = H j i) :
    ∃ M, unflatten zero n k (flatten nanv n k H) = some M ∧ ∀ i j, i < k → j < k → M i j = H i j := by
  obtain ⟨hlen, hent⟩ := flattenUpTo_spec nanv n k H hk k (Nat.le_refl _)
  rw [← flatten_eq] at hlen hent
  have hu : unflatten zero n k (flatten nanv n k H) = some (fun i j => if i < k ∧ j < k then
      ((flatten nanv n k H).getD (rowStart n (min i j) + (max i j - min i j)) zero) else zero) := by
    simp [unflatten, hlen]
  refine ⟨_, hu, ?_⟩
  intro i j hi hj
  simp only [hi, hj, and_self, if_true]
  rcases Nat.le_total i j with hij | hij
  · have := hent i j hi hij hj
    rw [Nat.min_eq_left hij, Nat.max_eq_right hij, List.getD_eq_getElem?_getD, this]; rfl
  · have := hent j i hj hij hi
    rw [Nat.min_eq_right hij, Nat.max_eq_left hij, List.getD_eq_getElem?_getD, this, hsym i j]; rfl

/-- a row whose length is not n(n+1)/2 makes numpy raise (match.py:99-102 then gives inf) -/
example : unflatten (0 : Nat) 4 2 [1, 2, 3] = none := by decide

example : (flatten (0 : Nat) 4 2 (fun i j => 10 * (min i j) + max i j + 1)) = [1, 2, 0, 0, 12, 0, 0, 0, 0, 0] := by decide

/-! ## the guard (match.py:90), as regenerated from the source -/

/-- The extracted guard fires exactly on chains that contain the unrecoverable marker. -/
theorem guard_is_nan_test {τ : Type} (c : Chain τ) : guardFires c = c.hasNan := by
  simp [guardFires, evalB, ESR.Gen.Match.guard, atomVal, Chain.hasNan]

example : guardFires [Entry.map (), Entry.nan, Entry.map ()] = true := by decide
example : guardFires [Entry.map (), Entry.map ()] = false := by decide
example : guardFires ([] : Chain Unit) = false := by decide

/-! ## unrecoverable transformations never get a finite code length -/

/-- For every number type whose NaN and +∞ are not finite: a row whose chain holds the nan marker (and whose function has a
parameter) never gets a finite code length — whatever the fit, the Fisher row, the result of `convert_params`. -/
theorem matchRow_unrecoverable_gen {α τ : Type} [Num α] (hnan : Num.isFinite (Num.nan : α) = false)
    (hinf : Num.isFinite (Num.inf : α) = false) (r : RowIn α τ) (o : RowOut α)
    (hc : r.chain.hasNan = true) (hk : 0 < r.nparams) (ho : matchRow r = some o) : Num.isFinite o.codelen = false := by
  unfold matchRow at ho
  dsimp only at ho
  by_cases h1 : (Num.isNaN r.nllU || Num.isInf r.nllU) = true
  · rw [if_pos h1] at ho
    cases ho; exact hnan
  · have hk' : ¬ r.nparams = 0 := by omega
    have hg : guardFires r.chain = true := by rw [guard_is_nan_test, hc]
    rw [if_neg h1, if_neg hk', if_pos hg] at ho
    cases ho; exact hinf

theorem matchRow_unrecoverable {τ : Type} (r : RowIn XR τ) (o : RowOut XR)
    (hc : r.chain.hasNan = true) (hk : 0 < r.nparams) (ho : matchRow r = some o) : Num.isFinite o.codelen = false :=
  matchRow_unrecoverable_gen rfl rfl r o hc hk ho

/-- a row with chain `[{…}, nan]` and two parameters -/
noncomputable def exUnrec : RowIn XR Unit :=
  { nllU := XR.fin 3, nparams := 2, maxParam := 4, chain := [Entry.map (), Entry.nan], conv := .raised, symOk := true,
    reval := fun _ => XR.fin 0 }

/-- non-vacuous: such a row exists and the model does produce an output for it -/
example : ∃ o, matchRow exUnrec = some o ∧ o.codelen = XR.pinf := by
  refine ⟨⟨XR.fin 3, XR.pinf, List.replicate 4 (XR.fin 0), .guard⟩, ?_, rfl⟩
  simp [matchRow, exUnrec, guard_is_nan_test, Chain.hasNan, Entry.isNan, Num.isInf]

/-! ## recoverable transformations -/

/-- hypotheses of the recoverable case: finite likelihood of the unique function, at least one parameter, no nan marker,
`convert_params` returned finite transformed parameters `p` and a positive finite transformed Fisher diagonal `fish`. -/
structure Recoverable {τ : Type} (r : RowIn XR τ) (nll : ℝ) (p fish : List ℝ) : Prop where
  nll_fin : r.nllU = XR.fin nll
  has_param : 0 < r.nparams
  no_nan : r.chain.hasNan = false
  conv_ok : r.conv = .ok (p.map XR.fin) (fish.map XR.fin)
  len_p : p.length = r.nparams
  len_f : fish.length = r.nparams
  fish_pos : ∀ f ∈ fish, 0 < f

/-- the real-number code length of match.py:211 over the kept parameters -/
noncomputable def codelenR (k : Nat) (fish p : List ℝ) : ℝ :=
  -(k : ℝ) / 2 * Real.log 3 + (List.zipWith (fun f x => 1 / 2 * Real.log f + Real.log |x|) fish p).sum

/-- No parameter below one precision step: the row carries the transformed parameters, the unique function's likelihood
and `−(k/2) ln 3 + Σ (½ ln F'ᵢᵢ + ln|pᵢ|)`, which is finite. -/
theorem matchRow_recoverable_nosnap {τ : Type} (r : RowIn XR τ) (nll : ℝ) (p fish : List ℝ) (h : Recoverable r nll p fish)
    (hs : (List.zipWith snapR p fish).any id = false) :
    matchRow r = some ⟨XR.fin nll, XR.fin (codelenR r.nparams fish p), pad r.maxParam (p.map XR.fin), .noSnap⟩ := by
  have hk' : ¬ r.nparams = 0 := by have := h.has_param; omega
  have hg : guardFires r.chain = false := by rw [guard_is_nan_test, h.no_nan]
  have hl : ¬ (p.map XR.fin).length ≠ (fish.map XR.fin).length := by simp [h.len_p, h.len_f]
  have hp0 : ∀ x ∈ p, x ≠ 0 := by
    have hkeep := keep_unsnapped_ne_zero p fish h.fish_pos
    have hall : (List.zipWith snapR p fish).map not = List.replicate p.length true := by
      apply List.ext_getElem
      · simp [h.len_p, h.len_f]
      · intro i h1 h2
        have : (List.zipWith snapR p fish)[i]'(by simpa using h1) = false := by
          have := List.any_eq_false.mp hs ((List.zipWith snapR p fish)[i]'(by simpa using h1)) (List.getElem_mem _)
          simpa using this
        rw [List.getElem_zipWith] at this
        simp [this]
    rw [hall, keep_all_true] at hkeep
    exact hkeep
  unfold matchRow
  simp only [h.nll_fin, XR.isNaN_fin, XR.isInf_fin, Bool.or_self, Bool.false_eq_true, if_false, hk', hg, h.conv_ok,
    fish_any_le_false fish h.fish_pos, hl, snapMask_fin p fish h.fish_pos, hs, Bool.not_false, if_true]
  rw [codelenFormula_fin r.nparams fish p h.fish_pos hp0]
  rfl

/-- Some parameter is below one precision step and the variant's likelihood at the snapped point is finite: the row carries
the transformed parameters with zeros exactly where `|pᵢ|·sqrt(F'ᵢᵢ/12) < 1`, the re-evaluated likelihood, and the formula
over the kept parameters only — finite (and 0 when nothing is kept). -/
theorem matchRow_recoverable_snap {τ : Type} (r : RowIn XR τ) (nll : ℝ) (p fish : List ℝ) (h : Recoverable r nll p fish)
    (hs : (List.zipWith snapR p fish).any id = true) (hsym : r.symOk = true) (v : ℝ)
    (hv : r.reval (List.zipWith snapR p fish) = XR.fin v) :
    let snap := List.zipWith snapR p fish
    let k' := r.nparams - snap.count true
    matchRow r = some (if k' = 0 then ⟨XR.fin v, XR.fin 0, List.replicate r.maxParam (XR.fin 0), .kZero⟩
      else ⟨XR.fin v, XR.fin (codelenR k' (keep (snap.map not) fish) (keep (snap.map not) p)),
            pad r.maxParam (zeroWhere snap (p.map XR.fin)), .snapAll⟩) := by
  intro snap k'
  have hk' : ¬ r.nparams = 0 := by have := h.has_param; omega
  have hg : guardFires r.chain = false := by rw [guard_is_nan_test, h.no_nan]
  have hl : ¬ (p.map XR.fin).length ≠ (fish.map XR.fin).length := by simp [h.len_p, h.len_f]
  unfold matchRow
  simp only [h.nll_fin, XR.isNaN_fin, XR.isInf_fin, Bool.or_self, Bool.false_eq_true, if_false, hk', hg, h.conv_ok,
    fish_any_le_false fish h.fish_pos, hl, snapMask_fin p fish h.fish_pos, hs, Bool.not_true, hsym, if_true, hv,
    XR.isFinite_fin, finish]
  by_cases hk0 : r.nparams - (List.zipWith snapR p fish).count true = 0
  · simp [k', snap, hk0]
  · simp only [k', snap, hk0, if_false]
    rw [keep_not_zeroWhere, keep_map, keep_map,
      codelenFormula_fin _ _ _ (fun f hf => h.fish_pos f (mem_keep _ _ _ hf)) (keep_unsnapped_ne_zero p fish h.fish_pos)]
    simp [codelenR]

/-- The remaining case: a parameter is below one precision step but the variant's likelihood at the snapped point is NOT finite
(e.g. `x/a0` at `a0 = 0`).  match.py then searches subsets of the snapped parameters (inner `break` only) and, failing that,
takes the parameter's own size as its precision.  Whatever the search finds, the code length is finite — provided no transformed
parameter is exactly 0 and the likelihood never returns NaN (C09). -/
theorem matchRow_recoverable_search {τ : Type} (r : RowIn XR τ) (nll : ℝ) (p fish : List ℝ) (h : Recoverable r nll p fish)
    (hs : (List.zipWith snapR p fish).any id = true) (hsym : r.symOk = true)
    (hnf : Num.isFinite (r.reval (List.zipWith snapR p fish)) = false)
    (hnn : ∀ m, Num.isNaN (r.reval m) = false) (hp0 : ∀ x ∈ p, x ≠ 0) :
    ∃ o, matchRow r = some o ∧ Num.isFinite o.codelen = true := by
  have hk' : ¬ r.nparams = 0 := by have := h.has_param; omega
  have hg : guardFires r.chain = false := by rw [guard_is_nan_test, h.no_nan]
  have hl : ¬ (p.map XR.fin).length ≠ (fish.map XR.fin).length := by simp [h.len_p, h.len_f]
  have hinit : LoopInv ⟨none, r.reval (List.zipWith snapR p fish), zeroWhere (List.zipWith snapR p fish) (p.map XR.fin)⟩
      (p.map XR.fin) r.reval ⟨none, r.reval (List.zipWith snapR p fish), zeroWhere (List.zipWith snapR p fish) (p.map XR.fin)⟩ :=
    ⟨(fun _ => rfl), (by intro i hi; cases hi)⟩
  obtain ⟨st, hst, hinv⟩ := outerLoop_inv _ (p.map XR.fin) r.reval
    ((List.range (p.map XR.fin).length).filter (fun i => (List.zipWith snapR p fish).getD i false))
    ((List.range (((List.range (p.map XR.fin).length).filter (fun i => (List.zipWith snapR p fish).getD i false)).length - 1)).reverse.map (· + 1))
    _ hinit
  unfold matchRow
  simp only [h.nll_fin, XR.isNaN_fin, XR.isInf_fin, Bool.or_self, Bool.false_eq_true, if_false, hk', hg, h.conv_ok,
    fish_any_le_false fish h.fish_pos, hl, snapMask_fin p fish h.fish_pos, hs, Bool.not_true, hsym, if_true, hnf, hst]
  by_cases hfin : Num.isFinite st.nll = true
  · -- a subset was found
    rw [if_pos hfin]
    cases hidx : st.idx with
    | none =>
      have := hinv.unbound hidx
      rw [this] at hfin
      simp [hnf] at hfin
    | some idx =>
      obtain ⟨hp, _⟩ := hinv.bound idx hidx
      simp only [finish]
      split
      · exact ⟨_, rfl, rfl⟩
      · refine ⟨_, rfl, ?_⟩
        simp only [hp, keep_not_zeroWhere, keep_map]
        rw [codelenFormula_fin _ _ _ (fun f hf => h.fish_pos f (mem_keep _ _ _ hf)) (fun x hx => hp0 x (mem_keep _ _ _ hx))]
        rfl
  · rw [if_neg hfin]
    have hnan : Num.isNaN st.nll = false := by
      cases hidx : st.idx with
      | none => rw [hinv.unbound hidx]; exact hnn _
      | some idx => rw [(hinv.bound idx hidx).2]; exact hnn _
    simp only [hnan, Bool.not_false, if_true]
    obtain ⟨fr, hpos, hlen, heq⟩ := infNll_fish_fin (List.zipWith snapR p fish) fish p h.fish_pos hp0
    refine ⟨_, rfl, ?_⟩
    simp only [heq]
    rw [codelenFormula_fin _ _ _ hpos hp0]
    rfl

/-- **Recoverable ⇒ finite.**  The unique function's likelihood is finite, `convert_params` returned finite transformed
parameters and a positive transformed Fisher diagonal (the map is regular at θ and F is positive definite), the chain has no nan
marker.  Then the row gets a finite code length in every branch of match.py:104-227.  `hsym`/`hnn` are facts about the other
stages (the variant's string parses — it was generated and sympified before; the likelihood classes never return NaN, C09);
`hp0` is needed only in the degenerate case where the likelihood at the snapped point is not finite. -/
theorem matchRow_recoverable {τ : Type} (r : RowIn XR τ) (nll : ℝ) (p fish : List ℝ) (h : Recoverable r nll p fish)
    (hsym : r.symOk = true) (hnn : ∀ m, Num.isNaN (r.reval m) = false)
    (hp0 : Num.isFinite (r.reval (List.zipWith snapR p fish)) = false → ∀ x ∈ p, x ≠ 0) :
    ∃ o, matchRow r = some o ∧ Num.isFinite o.codelen = true := by
  by_cases hs : (List.zipWith snapR p fish).any id = true
  · by_cases hf : Num.isFinite (r.reval (List.zipWith snapR p fish)) = true
    · obtain ⟨v, hv⟩ := (XR.isFinite_iff _).mp hf
      have := matchRow_recoverable_snap r nll p fish h hs hsym v hv
      simp only at this
      refine ⟨_, this, ?_⟩
      split <;> rfl
    · have hf' : Num.isFinite (r.reval (List.zipWith snapR p fish)) = false := by simpa using hf
      exact matchRow_recoverable_search r nll p fish h hs hsym hf' hnn (hp0 hf')
  · have hs' : (List.zipWith snapR p fish).any id = false := by simpa using hs
    exact ⟨_, matchRow_recoverable_nosnap r nll p fish h hs', rfl⟩

/-- the reported likelihood is the unique function's, unless a parameter snapped — then it is the re-evaluated one -/
theorem matchRow_nll {τ : Type} (r : RowIn XR τ) (nll : ℝ) (p fish : List ℝ) (h : Recoverable r nll p fish)
    (hsnap : (List.zipWith snapR p fish).any id = true →
      r.symOk = true ∧ ∃ v : ℝ, r.reval (List.zipWith snapR p fish) = XR.fin v) :
    ∃ o, matchRow r = some o ∧
      o.nll = if (List.zipWith snapR p fish).any id = true then r.reval (List.zipWith snapR p fish) else r.nllU := by
  by_cases hs : (List.zipWith snapR p fish).any id = true
  · obtain ⟨hsym, v, hv⟩ := hsnap hs
    have := matchRow_recoverable_snap r nll p fish h hs hsym v hv
    simp only at this
    refine ⟨_, this, ?_⟩
    rw [if_pos hs, hv]
    split <;> rfl
  · have hs' : (List.zipWith snapR p fish).any id = false := by simpa using hs
    refine ⟨_, matchRow_recoverable_nosnap r nll p fish h hs', ?_⟩
    rw [if_neg hs, h.nll_fin]

/-- the snapping rule in the property's words: parameter i is zeroed iff `|pᵢ|·sqrt(F'ᵢᵢ/12) < 1` -/
theorem snapped_iff (x f : ℝ) : snapR x f = true ↔ |x| * Real.sqrt (f / 12) < 1 := snapR_iff

/-- non-vacuous: one parameter, p = −2 from θ = 2 through `{a0: −a0}`, F' = 1400 (the F1 reproduction) -/
noncomputable def exRec : RowIn XR Unit :=
  { nllU := XR.fin (-4), nparams := 1, maxParam := 4, chain := [Entry.map ()], conv := .ok [XR.fin (-2)] [XR.fin 1400],
    symOk := true, reval := fun _ => XR.fin 0 }

example : Recoverable exRec (-4) [-2] [1400] where
  nll_fin := rfl
  has_param := by decide
  no_nan := by decide
  conv_ok := rfl
  len_p := rfl
  len_f := rfl
  fish_pos := by simp

/-! ## the tensor law of the Fisher matrix -/

open Matrix in
/-- `δθᵀ H δθ = (J δθ)ᵀ (J⁻ᵀ H J⁻¹) (J δθ)` for an invertible Jacobian: the quadratic form that defines the parameter
precision is the same in both parametrisations when the Fisher matrix is transformed as `simplifier.convert_params` does. -/
theorem quadratic_form_transforms {n : Type} [Fintype n] [DecidableEq n] (J H : Matrix n n ℝ) (hJ : IsUnit J.det) (v : n → ℝ) :
    (J *ᵥ v) ⬝ᵥ ((J⁻¹ᵀ * H * J⁻¹) *ᵥ (J *ᵥ v)) = v ⬝ᵥ (H *ᵥ v) := by
  have h1 : J⁻¹ *ᵥ (J *ᵥ v) = v := by rw [mulVec_mulVec, nonsing_inv_mul _ hJ, one_mulVec]
  rw [← mulVec_mulVec, ← mulVec_mulVec, h1, dotProduct_mulVec, vecMul_transpose, h1]

open Matrix in
/-- Closed form for the recorded templates: each maps ONE parameter to ONE parameter (`pᵢ = gᵢ(θ_{σ i})`), so the Jacobian is a
scaled permutation `J i j = dᵢ·[j = σ i]` with `dᵢ = gᵢ'(θ_{σ i}) ≠ 0`, and the transformed Fisher diagonal is
`F'ᵢᵢ = F_{σ i, σ i} / dᵢ²`. -/
theorem monomial_fisher_diag {n : Type} [Fintype n] [DecidableEq n] (σ : Equiv.Perm n) (d : n → ℝ) (hd : ∀ i, d i ≠ 0)
    (F : Matrix n n ℝ) (i : n) :
    let J : Matrix n n ℝ := Matrix.of fun i j => if j = σ i then d i else 0
    (J⁻¹ᵀ * F * J⁻¹) i i = F (σ i) (σ i) / (d i) ^ 2 := by
  intro J
  let K : Matrix n n ℝ := Matrix.of fun j i => if j = σ i then (d i)⁻¹ else 0
  have hJK : J * K = 1 := by
    ext a b
    simp only [J, K, Matrix.mul_apply, Matrix.of_apply, Matrix.one_apply]
    simp only [ite_mul, zero_mul, Finset.sum_ite_eq', Finset.mem_univ, if_true]
    by_cases hab : a = b
    · subst hab; simp [hd a]
    · have : ¬ σ a = σ b := fun h => hab (σ.injective h)
      simp [hab, this]
  have hinv : J⁻¹ = K := Matrix.inv_eq_right_inv hJK
  rw [hinv]
  simp only [K, Matrix.mul_apply, Matrix.transpose_apply, Matrix.of_apply]
  simp only [ite_mul, zero_mul, mul_ite, mul_zero, Finset.sum_ite_eq', Finset.mem_univ, if_true]
  field_simp

open Matrix in
/-- one parameter, `p = g(θ)`: `F' = F / g'(θ)²` (the quantity the reproduction of F1 uses) -/
example (F g' : ℝ) (h : g' ≠ 0) :
    ((Matrix.of fun (_ : Fin 1) (_ : Fin 1) => g')⁻¹ᵀ * (Matrix.of fun (_ : Fin 1) (_ : Fin 1) => F) * (Matrix.of fun (_ : Fin 1) (_ : Fin 1) => g')⁻¹) 0 0 = F / g' ^ 2 := by
  have := monomial_fisher_diag (n := Fin 1) (Equiv.refl _) (fun _ => g') (fun _ => h) (Matrix.of fun _ _ => F) 0
  simpa [Subsingleton.elim _ (0 : Fin 1)] using this

end ESR.C05
