/-
C18 / C20 — the formula-string API is a function of its arguments (no state carried between calls).

`Model/ToList*.lean` and `Model/SingleFit.lean` model `fit_from_string` / `string_to_aifeyn` as pure functions.  Here that is
an obligation on `esr/fitting/fit_single.py`, decided on the table regenerated from the source on every run
(Generated/StrApi.lean), plus a small model of the failure it excludes: a memo of parsed formulas that hands back the cached
list, which the relabelling / `replace_floats` pass then rewrites in place.
-/
import ESRVerif.Model.ApiState
import ESRVerif.Model.ToList
import ESRVerif.Generated.StrApi

namespace ESR.C18c

open ESR.ApiState

/-- On the current source: every cell that survives a call and that the string API changes is either changed by the labels
entry point it delegates to as well (not the string API's own state) or copy-guarded, and every list the string API rewrites
in place (the label list of the relabelling / `replace_floats` pass) is created in the same call on every path - never an
object reachable from a carried cell or from an argument. -/
theorem string_api_call_local : tableOk ESR.Gen.StrApi.cells ESR.Gen.StrApi.lists = true := by decide

/-- the obligation is not vacuous: the table names the rewritten label list of both entry points -/
example : (ESR.Gen.StrApi.lists.filter (·.name == "labels")).map (·.entry) = ["fit_from_string", "string_to_aifeyn"] := by decide

/-- a table with a written, unguarded memo cell and a label list taken from it is rejected -/
example : tableOk [⟨"fit_from_string", "esr.fitting.fit_single._parsed_strings", "module", .rmw, .none, false⟩]
    [⟨"fit_from_string", "labels", "string_to_labels() returns _parsed_strings[key]", false⟩] = false := by decide

/-- a memo that copies is accepted: the cell is written, but every read of it is copied before any in-place write -/
example : tableOk [⟨"fit_from_string", "esr.fitting.fit_single._parsed_strings", "module", .rmw, .none, true⟩]
    [⟨"fit_from_string", "labels", "string_to_labels() returns list(..)", true⟩] = true := by decide

theorem call_copy_fst (parse : Key → Labels) (rewrite : Bool → Labels → Labels) (m : Memo) (hm : m.clean parse) (k : Key) (rf : Bool) :
    (call .copy parse rewrite m k rf).1 = fresh parse rewrite k rf := by
  unfold call fresh
  cases h : m k with
  | none => simp
  | some l => simp [hm k l h]

theorem call_copy_clean (parse : Key → Labels) (rewrite : Bool → Labels → Labels) (m : Memo) (hm : m.clean parse) (k : Key) (rf : Bool) :
    (call .copy parse rewrite m k rf).2.clean parse := by
  intro k' l' h
  unfold call at h
  simp only [Memo.set] at h
  by_cases hk : k' = k
  · subst hk
    cases hmk : m k' with
    | none => simp [hmk] at h; exact h.symm
    | some l => simp [hmk] at h; rw [← h]; exact hm k' l hmk
  · simp [hk] at h
    exact hm k' l' h

theorem runHist_copy_clean (parse : Key → Labels) (rewrite : Bool → Labels → Labels) :
    ∀ (hist : List (Key × Bool)) (m : Memo), m.clean parse →
      (runHist .copy parse rewrite m hist).1 = hist.map (fun c => fresh parse rewrite c.1 c.2) := by
  intro hist
  induction hist with
  | nil => intro m _; rfl
  | cons c rest ih =>
    intro m hm
    obtain ⟨k, rf⟩ := c
    simp only [runHist, List.map_cons]
    rw [ih _ (call_copy_clean parse rewrite m hm k rf), call_copy_fst parse rewrite m hm k rf]

/-- With a memo that hands back a COPY, every history of calls in one process returns, call by call, what the same call
returns as the first call of a fresh process - for every parse function, every relabelling pass, every history. -/
theorem relabel_history_independent (parse : Key → Labels) (rewrite : Bool → Labels → Labels) (hist : List (Key × Bool)) :
    (runHist .copy parse rewrite Memo.empty hist).1 = hist.map (fun c => fresh parse rewrite c.1 c.2) :=
  runHist_copy_clean parse rewrite hist Memo.empty (by intro k l h; simp [Memo.empty] at h)

/-- the seed's formula and basis, and the relabelling pass of the hand model (Model/ToList.relabel, default maxvar) -/
def seedBasis : ESR.Labeling.Basis := ⟨["x", "a"], ["inv"], ["+", "*", "-", "/", "pow"]⟩
def seedParse : Key → Labels := fun _ => ["Add", "a0", "Mul", "0.500000000000000", "x"]
def seedRewrite (rf : Bool) (l : Labels) : Labels := (ESR.ToList.relabel seedBasis rf 20 l).getD []

/-- the hypotheses of `relabel_history_independent` on the seed's two-call history: with copies the second call returns
the labels of the formula -/
example : (runHist .copy seedParse seedRewrite Memo.empty [("a0 + 0.5*x", true), ("a0 + 0.5*x", false)]).1
    = [["+", "a0", "*", "a1", "x"], ["+", "a0", "*", "0.500000000000000", "x"]] := by decide

/-- With a memo that hands back the CACHED LIST ITSELF the statement is false: in the two-call history
`replace_floats=True` then `replace_floats=False` on "a0 + 0.5*x" the second call returns the float-replaced labels
`a0 + a1*x`, not the labels of the formula a fresh call returns. -/
theorem shared_list_leaks :
    (runHist .share seedParse seedRewrite Memo.empty [("a0 + 0.5*x", true), ("a0 + 0.5*x", false)]).1
      = [["+", "a0", "*", "a1", "x"], ["+", "a0", "*", "a1", "x"]]
    ∧ fresh seedParse seedRewrite "a0 + 0.5*x" false = ["+", "a0", "*", "0.500000000000000", "x"] := by decide

/-- the other order is unaffected (False then True), as the seed's description says -/
example : (runHist .share seedParse seedRewrite Memo.empty [("a0 + 0.5*x", false), ("a0 + 0.5*x", true)]).1
    = [fresh seedParse seedRewrite "a0 + 0.5*x" false, fresh seedParse seedRewrite "a0 + 0.5*x" true] := by decide

end ESR.C18c
