import ESRVerif.Proofs.Rank
import ESRVerif.Generated.Rank
/-!
C06 — final ranking: minimum over variants, ascending order, normalised probabilities.

Property theorems over `ESR.Rank.main` (model of `esr/fitting/combine_DL.py : main`) instantiated with the exact
extended reals `XR K` over any ordered field `K`; `E : K → K` stands for `exp` and only `∀ x, 0 < E x` is used.
All statements hold for any number of unique functions, variants per unique, parameters and ranks `P ≥ 1`.
-/
namespace ESR.C06
open ESR.Rank ESR.Rank.XR

variable {K : Type} [Field K] [LinearOrder K] [IsStrictOrderedRing K] (E : K → K)

/-- The rank count changes nothing (every operation set, not only exact arithmetic). -/
theorem ranks_irrelevant {α : Type} (o : Ops α) (t : Table α) (P P' : Nat) (hP : 1 ≤ P) (hP' : 1 ≤ P') :
    main o t P = main o t P' := by
  unfold main
  rw [combined_eq o t P hP, combined_eq o t P' hP']

/-- `main` returns a table exactly when the two `data[:,0]` reads succeed. -/
theorem defined_iff {α : Type} (o : Ops α) (t : Table α) (P : Nat) :
    (main o t P).isSome = true ↔ 1 ≤ t.rows.length ∧ 1 ≤ t.nUniq := by
  unfold main
  by_cases h1 : t.rows.length < 1
  · simp [h1]
  · by_cases h2 : t.nUniq < 1
    · simp [h1, h2]
    · simp [h1, h2]; omega

/-- Every unique function with a variant of non-NaN description length appears exactly once in the final
table, and nothing else appears. -/
theorem appears_once (t : Table (XR K)) (P : Nat) (hP : 1 ≤ P) (out : List (FinalRow (XR K)))
    (h : main (ops E) t P = some out) :
    (out.map (·.u)).Nodup ∧
    ∀ u, u ∈ out.map (·.u) ↔ (u < t.nUniq ∧ ∃ v ∈ variants t u, isNaN (dl (ops E) v) = false) := by
  obtain ⟨_, _, rfl⟩ := main_some E hP h
  have hu : (finalOf (ops E) t.npar (mins E t)).map (·.u) = (srt E t).map (·.2) := by
    rw [← finalOf_keys E t, List.map_map]; rfl
  rw [hu]
  refine ⟨srt_nodup E t, fun u => ?_⟩
  constructor
  · intro hm
    obtain ⟨k, hk, rfl⟩ := List.mem_map.mp hm
    obtain ⟨h1, h2, h3⟩ := (mem_srt E t k).mp hk
    refine ⟨h1, ?_⟩
    by_contra hno
    have hall : ∀ v ∈ variants t k.2, isNaN (dl (ops E) v) = true := by
      intro v hv
      cases hh : isNaN (dl (ops E) v)
      · exact absurd ⟨v, hv, hh⟩ hno
      · rfl
    rw [perUnique_allNaN E t k.2 hall] at h2
    rw [← h2] at h3
    simp [MinRow.allNaN, isNaN] at h3
  · rintro ⟨h1, hv⟩
    obtain ⟨h2, _⟩ := perUnique_some E t u hv
    exact List.mem_map.mpr ⟨((perUnique (ops E) t u).dl, u), (mem_srt E t _).mpr ⟨h1, rfl, h2⟩, rfl⟩

/-- The row of a unique function carries the smallest description length among its non-NaN variants (attained
by one of them); unless that is `+∞` the function string, the three terms and the parameters are those of the
FIRST variant attaining it. -/
theorem row_is_min (t : Table (XR K)) (P : Nat) (hP : 1 ≤ P) (out : List (FinalRow (XR K)))
    (h : main (ops E) t P = some out) (r : FinalRow (XR K)) (hr : r ∈ out) :
    isNaN r.dl = false ∧
    (∃ v ∈ variants t r.u, dl (ops E) v = r.dl) ∧
    (∀ v ∈ variants t r.u, isNaN (dl (ops E) v) = false → lt (dl (ops E) v) r.dl = false) ∧
    (r.dl ≠ pinf → ∃ k v, (variants t r.u)[k]? = some v ∧ dl (ops E) v = r.dl ∧
        r.fcn = v.fcn ∧ r.nll = v.nll ∧ r.codelen = v.codelen ∧ r.aifeyn = v.aifeyn ∧ r.params = v.params ∧
        ∀ (j : Nat) w, j < k → (variants t r.u)[j]? = some w → dl (ops E) w ≠ r.dl) := by
  obtain ⟨_, _, rfl⟩ := main_some E hP h
  obtain ⟨hk, f1, f2, f3, f4, f5⟩ := finalOf_mem E t r hr
  obtain ⟨_, hdl, hnn⟩ := (mem_srt E t _).mp hk
  simp only at hdl hnn
  have hex : ∃ v ∈ variants t r.u, isNaN (dl (ops E) v) = false := by
    by_contra hno
    have hall : ∀ v ∈ variants t r.u, isNaN (dl (ops E) v) = true := by
      intro v hv
      cases hh : isNaN (dl (ops E) v)
      · exact absurd ⟨v, hv, hh⟩ hno
      · rfl
    rw [perUnique_allNaN E t r.u hall] at hdl
    rw [← hdl] at hnn
    simp [MinRow.allNaN, isNaN] at hnn
  obtain ⟨_, p2, k, v, p3, p4, p5, p6, p7, p8, p9, p10⟩ := perUnique_some E t r.u hex
  rw [hdl] at p2 p4 p10
  have hmem := nanmin_mem E ((variants t r.u).map (dl (ops E))) (by rw [← p2]; exact hnn)
  rw [← p2] at hmem
  obtain ⟨v', hv', hv'd⟩ := List.mem_map.mp hmem
  refine ⟨hnn, ⟨v', hv', hv'd⟩, ?_, ?_⟩
  · intro w hw hwn
    rw [p2]
    exact nanmin_le E _ _ (List.mem_map.mpr ⟨w, hw, rfl⟩) hwn
  · intro hne
    have hvd : dl (ops E) v = r.dl := by
      cases hvn : isNaN (dl (ops E) v)
      · rw [replNaN_of_notNaN E hvn] at p4; exact p4
      · rw [replNaN_eq, hvn] at p4; simp at p4; exact absurd p4.symm hne
    refine ⟨k, v, p3, hvd, f1.trans p5, f2.trans p6, f3.trans p7, f4.trans p8, f5.trans p9, ?_⟩
    intro j w hj hw heq
    rcases p10 j w hj hw with hn | hl
    · rw [heq, hnn] at hn; cases hn
    · rw [heq, XR.lt_irrefl] at hl; cases hl

/-- Rows are in non-decreasing order of description length; rows with equal description length keep the order
of the unique-function file (the sort is stable); ranks are `0, 1, …, m-1`. -/
theorem sorted (t : Table (XR K)) (P : Nat) (hP : 1 ≤ P) (out : List (FinalRow (XR K)))
    (h : main (ops E) t P = some out) :
    out.Pairwise (fun a b => lt b.dl a.dl = false ∧ (lt a.dl b.dl = true ∨ (a.dl = b.dl ∧ a.u < b.u))) ∧
    out.map (·.rank) = List.range out.length := by
  obtain ⟨_, _, rfl⟩ := main_some E hP h
  constructor
  · have hs := srt_sorted E t
    rw [← finalOf_keys E t, List.pairwise_map] at hs
    refine hs.imp_of_mem ?_
    intro a b ha hb hab
    have hna := ((mem_srt E t _).mp (finalOf_mem E t a ha).1).2.2
    have hnb := ((mem_srt E t _).mp (finalOf_mem E t b hb).1).2.2
    simp only at hna hnb
    obtain ⟨h1, h2⟩ := hab
    simp only at h1 h2
    refine ⟨h1, ?_⟩
    rcases lt_or_eq_of_not_lt hna hnb h1 with hl | he
    · exact Or.inl hl
    · exact Or.inr ⟨he, h2 (by rw [he]; exact XR.lt_irrefl _)⟩
  · rw [finalOf_eq, mkRows_ranks, List.range_eq_range']

/-- Shape of the relative probabilities when some description length is finite (`hfin`) and none is `−∞`
(`hdom`, the excluded point of the design): with `DL₀` the first row's (finite) description length,
`Prel = w / Σw` where `w = 0` for a row whose likelihood `==` that of an earlier row (`dupSpec`, see
`dupSpec_getElem`) and `w = exp(-(DL - DL₀))` otherwise (`0` for `DL = +∞`), and `Σw > 0`.
The complementary case (no finite description length) is `prel_zero_if_none_finite`. -/
theorem prel_shape (hE : ∀ x, 0 < E x) (t : Table (XR K)) (P : Nat) (hP : 1 ≤ P)
    (out : List (FinalRow (XR K))) (h : main (ops E) t P = some out)
    (hdom : ∀ v ∈ t.rows, dl (ops E) v ≠ ninf) (hfin : ∃ r ∈ out, isFinite r.dl = true) :
    ∃ a0 S, (out.map (·.dl)).head? = some (fin a0) ∧ 0 < S ∧
      S = (List.zipWith (q E a0) (out.map (·.dl)) (dupSpec [] (out.map (·.nll)))).sum ∧
      out.map (·.prel) =
        (List.zipWith (q E a0) (out.map (·.dl)) (dupSpec [] (out.map (·.nll)))).map (fun w => fin (w / S)) := by
  obtain ⟨_, _, rfl⟩ := main_some E hP h
  obtain ⟨a0, ds, hds, hcase⟩ := head_finite E t hdom hfin
  have hlen : ((finalOf (ops E) t.npar (mins E t)).map (·.nll)).length = ds.length + 1 := by
    have := congrArg List.length hds
    simp only [List.length_map, List.length_cons] at this ⊢
    exact this
  obtain ⟨hpos, hp⟩ := prel_spec E hE a0 ds _ hlen hcase
  refine ⟨a0, _, by rw [hds]; rfl, ?_, rfl, ?_⟩
  · rw [hds]; exact hpos
  · rw [finalOf_prel, hds]; exact hp

/-- Relative probabilities are non-negative numbers — for every table, whatever mix of finite, infinite and
NaN entries (the guard `if np.sum(Prel) > 0` of line 164 is what makes this unconditional). -/
theorem prel_nonneg (hE : ∀ x, 0 < E x) (t : Table (XR K)) (P : Nat) (hP : 1 ≤ P)
    (out : List (FinalRow (XR K))) (h : main (ops E) t P = some out) :
    ∀ r ∈ out, ∃ p : K, r.prel = fin p ∧ 0 ≤ p := by
  obtain ⟨_, _, rfl⟩ := main_some E hP h
  intro r hr
  have : r.prel ∈ (finalOf (ops E) t.npar (mins E t)).map (·.prel) := List.mem_map.mpr ⟨r, hr, rfl⟩
  rw [finalOf_prel] at this
  exact prel_nonneg_all E hE _ _ _ this

/-- Relative probabilities sum to one whenever some description length is finite (and none is `−∞`). -/
theorem prel_sum_one (hE : ∀ x, 0 < E x) (t : Table (XR K)) (P : Nat) (hP : 1 ≤ P)
    (out : List (FinalRow (XR K))) (h : main (ops E) t P = some out)
    (hdom : ∀ v ∈ t.rows, dl (ops E) v ≠ ninf) (hfin : ∃ r ∈ out, isFinite r.dl = true) :
    ESR.Rank.sum (ops E) (out.map (·.prel)) = fin 1 := by
  obtain ⟨a0, S, _, hS, hSdef, hp⟩ := prel_shape E hE t P hP out h hdom hfin
  rw [hp]
  have : (List.zipWith (q E a0) (out.map (·.dl)) (dupSpec [] (out.map (·.nll)))).map (fun w => fin (w / S))
       = ((List.zipWith (q E a0) (out.map (·.dl)) (dupSpec [] (out.map (·.nll)))).map (fun w => w / S)).map fin := by
    rw [List.map_map]; rfl
  rw [this, sum_fin, sum_div, ← hSdef, div_self (ne_of_gt hS)]

/-- When no description length is finite, every relative probability is `0` (lines 162-165: all
un-normalised entries are zeroed, the sum is not `> 0`, the division is skipped). -/
theorem prel_zero_if_none_finite (t : Table (XR K)) (P : Nat) (hP : 1 ≤ P)
    (out : List (FinalRow (XR K))) (h : main (ops E) t P = some out)
    (hnone : ∀ r ∈ out, isFinite r.dl = false) :
    ∀ r ∈ out, r.prel = fin 0 := by
  obtain ⟨_, _, rfl⟩ := main_some E hP h
  have hall : ∀ d ∈ (finalOf (ops E) t.npar (mins E t)).map (·.dl), d = pinf ∨ d = ninf := by
    intro d hd
    obtain ⟨r, hr, rfl⟩ := List.mem_map.mp hd
    have hn := (finalOf_dl_attained E t r hr).1
    have hf := hnone r hr
    cases hd : r.dl with
    | fin b => rw [hd] at hf; simp [isFinite] at hf
    | pinf => exact Or.inl rfl
    | ninf => exact Or.inr rfl
    | nan => rw [hd] at hn; simp [isNaN] at hn
  intro r hr
  have : r.prel ∈ (finalOf (ops E) t.npar (mins E t)).map (·.prel) := List.mem_map.mpr ⟨r, hr, rfl⟩
  rw [finalOf_prel] at this
  exact prel_none_finite E _ _ hall _ this

/-- The statements of `combine_DL.main` that carry the ranking logic (regenerated from the source on every
run) are the ones the hand model was written against. -/
theorem source_shape_is_modelled : ESR.Gen.Rank.shape = ESR.Rank.modelledShape := by decide

/-- The real-number instance: `K = ℝ`, `E = Real.exp`. -/
theorem prel_sum_one_real (t : Table (XR ℝ)) (P : Nat) (hP : 1 ≤ P)
    (out : List (FinalRow (XR ℝ))) (h : main (ops Real.exp) t P = some out)
    (hdom : ∀ v ∈ t.rows, dl (ops Real.exp) v ≠ ninf) (hfin : ∃ r ∈ out, isFinite r.dl = true) :
    ESR.Rank.sum (ops Real.exp) (out.map (·.prel)) = fin 1 :=
  prel_sum_one Real.exp Real.exp_pos t P hP out h hdom hfin

/-! ### non-vacuity: a table with a tie between uniques, a tie within a unique, a repeated likelihood, a
`[NaN, +inf]` unique, an all-NaN unique and a unique without variants, on 2 and on 7 ranks (`K = ℚ`, and the
constant `1` for `exp`, which is all the theorems ask of it) -/

def exT : Table (XR ℚ) := ⟨5, 1, [
  ⟨fin 1, fin 2, fin 3, 0, "v0", [fin 5]⟩,
  ⟨nan, fin 1, fin 1, 1, "v1", [fin 0]⟩,
  ⟨pinf, fin 1, fin 1, 1, "v2", [fin 0]⟩,
  ⟨fin 1, fin 4, fin 1, 2, "v3", [fin 7]⟩,
  ⟨fin 3, fin 2, fin 1, 2, "v4", [fin 8]⟩,
  ⟨nan, fin 1, fin 1, 3, "v5", [fin 0]⟩,
  ⟨fin 9, fin (1/2), fin 1, 2, "v6", [fin 8]⟩]⟩

def exE : ℚ → ℚ := fun _ => 1

example : ∀ x, 0 < exE x := fun _ => by simp [exE]

example : ((main (ops exE) exT 2).getD []).map (fun r => (r.rank, r.u, r.fcn, r.dl))
    = [(0, 0, "v0", fin 6), (1, 2, "v3", fin 6), (2, 1, "v1", pinf)] := by decide +kernel

example : ((main (ops exE) exT 2).getD []).map (fun r => (r.prel, r.nll, r.params))
    = [(fin 1, fin 1, [fin 5]), (fin 0, fin 1, [fin 7]), (fin 0, nan, [fin 0])] := by decide +kernel

example : (main (ops exE) exT 7).isSome = true ∧ main (ops exE) exT 7 = main (ops exE) exT 2 :=
  ⟨by decide +kernel, ranks_irrelevant _ _ _ _ (by omega) (by omega)⟩

/-- the hypotheses of the `prel_*` theorems hold for this table … -/
example : ((main (ops exE) exT 2).getD []).any (fun r => isFinite r.dl) = true ∧
    exT.rows.all (fun v => decide (dl (ops exE) v ≠ ninf)) = true := by decide +kernel

/-- … and so does their conclusion -/
example : ESR.Rank.sum (ops exE) (((main (ops exE) exT 2).getD []).map (·.prel)) = fin 1 := by decide +kernel

/-- every description length `+inf` (the hypothesis of `prel_zero_if_none_finite` is satisfiable): all zero -/
example : ((main (ops exE) ⟨2, 0, [⟨pinf, fin 1, fin 1, 0, "v0", []⟩, ⟨fin 1, pinf, fin 1, 1, "v1", []⟩]⟩ 1).getD []).map
    (fun r => (r.dl, r.prel)) = [(pinf, fin 0), (pinf, fin 0)] := by decide +kernel

/-- no variant row, or no unique: `IndexError`; a single row / a single unique is an ordinary table (F16) -/
example : main (ops exE) ⟨2, 0, []⟩ 1 = none ∧
    main (ops exE) ⟨0, 0, [⟨fin 1, fin 1, fin 1, 0, "v0", []⟩, ⟨fin 1, fin 1, fin 1, 0, "v1", []⟩]⟩ 1 = none ∧
    (main (ops exE) ⟨1, 0, [⟨fin 1, fin 1, fin 1, 0, "v0", []⟩]⟩ 3).isSome = true := by
  refine ⟨rfl, rfl, ?_⟩; decide +kernel

end ESR.C06
