import ESRVerif.Proofs.Codelen
/-!
# C07 — parameter code length and zero-snapping follow the MDL formula

Theorems about `ESR.Codelen.postHessian` / `convertParams` (the hand model of
`esr/fitting/test_all_Fisher.py:convert_params` lines 110-239) instantiated at `xr`, the extended reals over ℝ.
The decision sites and the code-length expression are `ESR.Gen.Codelen.*`, regenerated from the source.

Conventions: `rows : List (ℝ × ℝ)` lists (θᵢ, Fᵢᵢ) for the `nparam` parameters (so θ and the curvature have the same
length by construction); `thetaX rows`, `fisherX rows` are the vectors handed to the model; `fop` is the likelihood
closure, `nllIn` the argument `negloglike`; `mp = max_param`.  `|θ|·√(F/12) < 1` is the property's snapping criterion.
-/
namespace ESR.C07
open ESR.Codelen ESR.Gen.Codelen

variable (rows : List (ℝ × ℝ)) (mp : Nat) (nllIn : XR ℝ) (fop : List (XR ℝ) → XR ℝ)

/-- parameters as reported when every below-threshold one is set to zero (`theta_ML[Nsteps<1] = 0.`) -/
noncomputable def snapped (rows : List (ℝ × ℝ)) : List (XR ℝ) :=
  rows.map (fun r => if |r.1| * Real.sqrt (r.2 / 12) < 1 then XR.fin 0 else XR.fin r.1)

/-- No Python error (`quit()` on k<0, unbound `idx`, tuple index, negative pad) is reachable on real parameters with
    positive finite curvature: the routine returns normally. -/
theorem no_python_error (hpos : ∀ r ∈ rows, 0 < r.2) (hlen : rows.length ≤ mp) :
    ∃ o, postHessian xr mp (thetaX rows) (fisherX rows) nllIn fop = .ok o := by
  obtain ⟨o, ho, _⟩ := post_spec rows hpos mp hlen nllIn fop
  exact ⟨o, ho⟩

/-- Provided the likelihood at the snapped parameters is finite, parameter i is kept iff it is not below the
    threshold: `kept i ↔ ¬ (|θᵢ|·√(Fᵢᵢ/12) < 1)` (as lists, position by position). -/
theorem kept_iff (hpos : ∀ r ∈ rows, 0 < r.2) (hlen : rows.length ≤ mp) (o : Out (XR ℝ))
    (h : postHessian xr mp (thetaX rows) (fisherX rows) nllIn fop = .ok o)
    (hfin : (∃ r ∈ rows, |r.1| * Real.sqrt (r.2 / 12) < 1) → xr.isFinite (fop (snapped rows)) = true) :
    o.kept = rows.map (fun r => decide (¬ (|r.1| * Real.sqrt (r.2 / 12) < 1))) := by
  have sp := spec_of_ok hpos hlen h
  have hk : rows.map keptB = rows.map (fun r => decide (¬ (|r.1| * Real.sqrt (r.2 / 12) < 1))) :=
    List.map_congr_left (fun r _ => keptB_eq' r)
  by_cases hany : (rows.map snapB).any id = true
  · have hex : ∃ r ∈ rows, |r.1| * Real.sqrt (r.2 / 12) < 1 := by
      simp only [List.any_map, List.any_eq_true, Function.comp, id] at hany
      obtain ⟨r, hr, hs⟩ := hany
      exact ⟨r, hr, by simpa [snapB_eq] using hs⟩
    have h2 := hfin hex
    rw [snapped, ← snappedX_eq] at h2
    rw [sp.snapfin hany h2, hk]
  · have hany' : (rows.map snapB).any id = false := by simpa using hany
    rw [sp.nosnap hany', ← hk]
    have : ∀ r ∈ rows, keptB r = true := by
      intro r hr
      have : snapB r = false := by
        simp only [List.any_map, List.any_eq_false, Function.comp, id] at hany'
        simpa using hany' r hr
      simp [keptB_eq, this]
    symm; rw [List.eq_replicate_iff]
    exact ⟨by simp, fun b hb => by obtain ⟨r, hr, rfl⟩ := List.mem_map.mp hb; exact this r hr⟩

/-- The reported parameters are θ with zeros exactly at the parameters that were not kept, padded with zeros to
    `max_param` (every branch, including the subset search and k = 0). -/
theorem params_carry_zeros (hpos : ∀ r ∈ rows, 0 < r.2) (hlen : rows.length ≤ mp) (o : Out (XR ℝ))
    (h : postHessian xr mp (thetaX rows) (fisherX rows) nllIn fop = .ok o) :
    o.kept.length = rows.length ∧
    o.params = List.zipWith (fun (b : Bool) (r : ℝ × ℝ) => if b then XR.fin r.1 else XR.fin 0) o.kept rows
                ++ List.replicate (mp - rows.length) (XR.fin 0) := by
  have sp := spec_of_ok hpos hlen h
  exact ⟨sp.kept_len, by rw [sp.params_eq, params_zipWith rows mp o.kept sp.kept_len]⟩

/-- The reported negative log-likelihood is the likelihood at the reported parameters, or nothing was snapped and
    it is the argument `negloglike` unchanged. -/
theorem nll_at_reported_or_unchanged (hpos : ∀ r ∈ rows, 0 < r.2) (hlen : rows.length ≤ mp) (o : Out (XR ℝ))
    (h : postHessian xr mp (thetaX rows) (fisherX rows) nllIn fop = .ok o) :
    o.nll = fop (o.params.take rows.length)
      ∨ (o.nll = nllIn ∧ o.kept = List.replicate rows.length true ∧ o.params.take rows.length = thetaX rows) := by
  have sp := spec_of_ok hpos hlen h
  have hl : (zeroWhere xr (o.kept.map not) (thetaX rows)).length = rows.length := by
    rw [length_zeroWhere xr _ _ (by simp [sp.kept_len])]; simp
  have htake : o.params.take rows.length = zeroWhere xr (o.kept.map not) (thetaX rows) := by
    rw [sp.params_eq]; conv_lhs => rw [← hl]
    exact take_pad xr mp _
  rcases sp.nll_eq with h1 | ⟨h1, h2⟩
  · left; rw [htake]; exact h1
  · right
    refine ⟨h1, h2, ?_⟩
    rw [htake, h2]
    have : (List.replicate rows.length true).map not = List.replicate (thetaX rows).length false := by simp
    rw [this, zeroWhere_replicate_false]

/-- With the caller's contract `negloglike = likelihood(theta_ML)`, the reported negative log-likelihood is the
    likelihood at the reported parameters in every branch. -/
theorem nll_at_reported (hpos : ∀ r ∈ rows, 0 < r.2) (hlen : rows.length ≤ mp) (o : Out (XR ℝ))
    (h : postHessian xr mp (thetaX rows) (fisherX rows) nllIn fop = .ok o) (hin : nllIn = fop (thetaX rows)) :
    o.nll = fop (o.params.take rows.length) := by
  rcases nll_at_reported_or_unchanged rows mp nllIn fop hpos hlen o h with h1 | ⟨h1, _, h3⟩
  · exact h1
  · rw [h1, h3, hin]

/-- The code length in every branch (incl. subset search and k = 0), as long as no kept parameter is exactly zero:
    `codelen = −(k/2)·ln 3 + Σ_{i kept} (½ ln Fᵢᵢ + ln|θᵢ|)` with `k = #kept`. -/
theorem codelen_formula_of_nonzero (hpos : ∀ r ∈ rows, 0 < r.2) (hlen : rows.length ≤ mp) (o : Out (XR ℝ))
    (h : postHessian xr mp (thetaX rows) (fisherX rows) nllIn fop = .ok o)
    (hnz : ∀ r ∈ select o.kept rows, r.1 ≠ 0) :
    o.k = (select o.kept rows).length ∧ o.k = o.kept.count true ∧
    o.codelen = XR.fin (-(o.k : ℝ) / 2 * Real.log 3
      + ((select o.kept rows).map (fun r => 1 / 2 * Real.log r.2 + Real.log |r.1|)).sum) := by
  have sp := spec_of_ok hpos hlen h
  have hk : o.k = (select o.kept rows).length := by rw [length_select _ _ sp.kept_len, sp.k_eq]
  refine ⟨hk, sp.k_eq, ?_⟩
  rcases sp.codelen_eq with h1 | ⟨h1, h2⟩
  · rw [h1, evalS_codelen o.k (select o.kept rows)
      (fun r hr => ⟨hpos r (mem_select _ _ _ hr), hnz r hr⟩)]
    rfl
  · have : select o.kept rows = [] := List.eq_nil_of_length_eq_zero (by rw [← hk, h1])
    rw [h2, this, h1]; simp

/-- **The MDL formula.**  Provided the likelihood at the snapped parameters is finite,
    `codelen = −(k/2)·ln 3 + Σ_{i : ¬(|θᵢ|√(Fᵢᵢ/12) < 1)} (½ ln Fᵢᵢ + ln|θᵢ|)`, `k` the number of such i. -/
theorem codelen_formula (hpos : ∀ r ∈ rows, 0 < r.2) (hlen : rows.length ≤ mp) (o : Out (XR ℝ))
    (h : postHessian xr mp (thetaX rows) (fisherX rows) nllIn fop = .ok o)
    (hfin : (∃ r ∈ rows, |r.1| * Real.sqrt (r.2 / 12) < 1) → xr.isFinite (fop (snapped rows)) = true) :
    let keptRows := rows.filter (fun r => decide (¬ (|r.1| * Real.sqrt (r.2 / 12) < 1)))
    o.k = keptRows.length ∧
    o.codelen = XR.fin (-(keptRows.length : ℝ) / 2 * Real.log 3
      + (keptRows.map (fun r => 1 / 2 * Real.log r.2 + Real.log |r.1|)).sum) := by
  intro keptRows
  have hk := kept_iff rows mp nllIn fop hpos hlen o h hfin
  have hsel : select o.kept rows = keptRows := by
    rw [hk]; exact select_map_self _ rows
  have hnz : ∀ r ∈ select o.kept rows, r.1 ≠ 0 := by
    rw [hsel]; intro r hr h0
    have := (List.mem_filter.mp hr).2
    simp [h0] at this
  obtain ⟨h1, _, h3⟩ := codelen_formula_of_nonzero rows mp nllIn fop hpos hlen o h hnz
  rw [hsel] at h1 h3
  exact ⟨h1, by rw [h3, h1]⟩

/-- k = 0: if no parameter is kept the code length is 0. -/
theorem k_zero (hpos : ∀ r ∈ rows, 0 < r.2) (hlen : rows.length ≤ mp) (o : Out (XR ℝ))
    (h : postHessian xr mp (thetaX rows) (fisherX rows) nllIn fop = .ok o) (hall : ∀ b ∈ o.kept, b = false) :
    o.k = 0 ∧ o.codelen = XR.fin 0 := by
  have hs : select o.kept rows = [] := select_all_false _ _ hall
  obtain ⟨h1, _, h3⟩ := codelen_formula_of_nonzero rows mp nllIn fop hpos hlen o h (by rw [hs]; simp)
  rw [hs] at h1 h3
  refine ⟨by simpa using h1, ?_⟩
  rw [h3, h1]; simp

/-- The subset-search branch (likelihood not finite at the snapped parameters): the three consistency clauses
    still hold, and (the search as written ends with the single-parameter pass) at most one parameter is dropped. -/
theorem partial_search_consistent (hpos : ∀ r ∈ rows, 0 < r.2) (hlen : rows.length ≤ mp) (o : Out (XR ℝ))
    (h : postHessian xr mp (thetaX rows) (fisherX rows) nllIn fop = .ok o)
    (hinf : xr.isFinite (fop (snapped rows)) = false) :
    (o.params = List.zipWith (fun (b : Bool) (r : ℝ × ℝ) => if b then XR.fin r.1 else XR.fin 0) o.kept rows
                ++ List.replicate (mp - rows.length) (XR.fin 0))
    ∧ (o.nll = fop (o.params.take rows.length) ∨ (o.nll = nllIn ∧ o.kept = List.replicate rows.length true))
    ∧ ((∀ r ∈ select o.kept rows, r.1 ≠ 0) →
        o.codelen = XR.fin (-(o.kept.count true : ℝ) / 2 * Real.log 3
          + ((select o.kept rows).map (fun r => 1 / 2 * Real.log r.2 + Real.log |r.1|)).sum))
    ∧ o.kept.count false ≤ 1 := by
  have sp := spec_of_ok hpos hlen h
  refine ⟨(params_carry_zeros rows mp nllIn fop hpos hlen o h).2, ?_, ?_, ?_⟩
  · rcases nll_at_reported_or_unchanged rows mp nllIn fop hpos hlen o h with h1 | ⟨h1, h2, _⟩
    · exact Or.inl h1
    · exact Or.inr ⟨h1, h2⟩
  · intro hnz
    obtain ⟨_, h2, h3⟩ := codelen_formula_of_nonzero rows mp nllIn fop hpos hlen o h hnz
    rw [h3, h2]
  · apply sp.search; rw [snappedX_eq]; exact hinf

/-- Non-positive or NaN curvature (after the fallback) gives NaN, for any parameter values and any likelihood. -/
theorem bad_curvature_nan (θ F : List (XR ℝ)) (hlen : F.length = θ.length)
    (hbad : ∃ f ∈ F, xr.le f (XR.fin 0) = true ∨ xr.isNaN f = true) :
    ∃ o, postHessian xr mp θ F nllIn fop = .ok o ∧ o.codelen = XR.nan ∧ o.nll = nllIn := by
  have hb : anyTest xr badTests F = true := by
    obtain ⟨f, hf, hc⟩ := hbad
    simp only [anyTest, List.any_eq_true]
    refine ⟨f, hf, ?_⟩
    rcases hc with hc | hc
    · exact ⟨.cmp .le 0 1, by simp [badTests], by simpa [testElem] using hc⟩
    · exact ⟨.isnan, by simp [badTests], by simpa [testElem] using hc⟩
  refine ⟨_, by simp [postHessian, hlen, hb]; rfl, rfl, rfl⟩

/-- The tests of line 180 are among those of line 121: bad curvature always enters the step-size fallback first
    (so lines 180-182 only guard what the fallback hands back). -/
theorem bad_implies_fallback {α : Type} (ops : NumOps α) (F : List α) (h : anyTest ops badTests F = true) :
    needsFallback ops F = true := by
  simp only [anyTest, needsFallback, List.any_eq_true] at *
  obtain ⟨f, hf, t, ht, hv⟩ := h
  refine ⟨f, hf, t, ?_, hv⟩
  revert ht; simp only [badTests, fallbackTests]; intro ht
  simp only [List.mem_cons, List.not_mem_nil, or_false] at ht ⊢
  rcases ht with rfl | rfl <;> simp

/-- Non-finite or non-positive curvature is never turned into a code length: line 121 fires; if the fallback finds
    no consistent step size the result is NaN, otherwise the code length is computed from the re-selected
    curvature only (to which `bad_curvature_nan` applies again). -/
theorem never_finite_on_nonfinite_curvature (θ F0 : List (XR ℝ))
    (hbad : ∃ f ∈ F0, xr.isFinite f = false ∨ xr.le f (XR.fin 0) = true) :
    needsFallback xr F0 = true
    ∧ (∃ o, convertParams xr mp θ F0 .notConsistent nllIn fop = .ok o ∧ o.codelen = XR.nan ∧ xr.isFinite o.codelen = false)
    ∧ (∀ F', convertParams xr mp θ F0 (.reselected F') nllIn fop = postHessian xr mp θ F' nllIn fop) := by
  have hf : needsFallback xr F0 = true := by
    obtain ⟨f, hf, hc⟩ := hbad
    simp only [needsFallback, anyTest, List.any_eq_true]
    refine ⟨f, hf, ?_⟩
    rcases hc with hc | hc
    · cases f with
      | fin r => simp at hc
      | pinf => exact ⟨.isinf, by simp [fallbackTests], rfl⟩
      | ninf => exact ⟨.isinf, by simp [fallbackTests], rfl⟩
      | nan => exact ⟨.isnan, by simp [fallbackTests], rfl⟩
    · exact ⟨.cmp .le 0 1, by simp [fallbackTests], by simpa [testElem] using hc⟩
  refine ⟨hf, ⟨_, by simp [convertParams, hf]; rfl, rfl, rfl⟩, fun F' => by simp [convertParams, hf]⟩

/-- Positive finite curvature never enters the fallback. -/
theorem good_curvature_no_fallback (hpos : ∀ r ∈ rows, 0 < r.2) (fb : Fallback (XR ℝ)) :
    convertParams xr mp (thetaX rows) (fisherX rows) fb nllIn fop
      = postHessian xr mp (thetaX rows) (fisherX rows) nllIn fop := by
  have : needsFallback xr (fisherX rows) = false := by
    simp only [needsFallback, anyTest, fisherX, List.any_map, List.any_eq_false]
    intro r hr
    simp [fallbackTests, testElem, not_le.mpr (hpos r hr)]
  simp [convertParams, this]

/-! ### obligations on the regenerated objects -/

/-- the extracted expressions are well formed (arrays only below `np.sum`, `Nsteps`/`Delta` element-wise) -/
theorem expr_well_typed :
    isScalar codelenExpr = true ∧ isElementwise nstepsExpr = true ∧ isElementwise deltaExpr = true
      ∧ isScalar kZeroCodelen = true := by decide

/-- the fallback grid is non-empty, every step is a negative power of ten (< 1) and every method is one numdifftools knows -/
theorem fallback_grid :
    dList ≠ [] ∧ (∀ h ∈ dList, h < 0) ∧ methodList ≠ [] ∧ (∀ m ∈ methodList, m ∈ ["central", "forward", "backward", "complex"]) := by
  decide

/-! ### non-vacuity: the hypotheses are satisfiable and the conclusions are as expected on a concrete case -/

/-- θ = (2, 1/100), F = (12, 12): thresholds |θ|·√(F/12) = 2 and 1/100 -/
private noncomputable def exRows : List (ℝ × ℝ) := [(2, 12), (1 / 100, 12)]

example : ∀ r ∈ exRows, 0 < r.2 := by simp [exRows]

example : ∃ o, postHessian xr 4 (thetaX exRows) (fisherX exRows) (XR.fin 7) (fun _ => XR.fin 5) = .ok o
    ∧ o.kept = [true, false]
    ∧ o.params = [XR.fin 2, XR.fin 0, XR.fin 0, XR.fin 0]
    ∧ o.nll = XR.fin 5
    ∧ o.codelen = XR.fin (-(1 : ℝ) / 2 * Real.log 3 + (1 / 2 * Real.log 12 + Real.log 2)) := by
  have hpos : ∀ r ∈ exRows, 0 < r.2 := by simp [exRows]
  obtain ⟨o, ho⟩ := no_python_error exRows 4 (XR.fin 7) (fun _ => XR.fin 5) hpos (by simp [exRows])
  have hk := kept_iff exRows 4 (XR.fin 7) (fun _ => XR.fin 5) hpos (by simp [exRows]) o ho (fun _ => rfl)
  have hkept : o.kept = [true, false] := by
    rw [hk]; simp [exRows]; norm_num
  have hp := (params_carry_zeros exRows 4 (XR.fin 7) (fun _ => XR.fin 5) hpos (by simp [exRows]) o ho).2
  have hn := nll_at_reported_or_unchanged exRows 4 (XR.fin 7) (fun _ => XR.fin 5) hpos (by simp [exRows]) o ho
  have hc := (codelen_formula exRows 4 (XR.fin 7) (fun _ => XR.fin 5) hpos (by simp [exRows]) o ho (fun _ => rfl)).2
  refine ⟨o, ho, hkept, ?_, ?_, ?_⟩
  · rw [hp, hkept]; simp [exRows]
  · rcases hn with h1 | ⟨_, h2, _⟩
    · exact h1
    · rw [hkept] at h2; simp [exRows] at h2
  · rw [hc]
    have hf : exRows.filter (fun r => decide (¬ (|r.1| * Real.sqrt (r.2 / 12) < 1))) = [(2, 12)] := by
      simp [exRows, List.filter_cons]; norm_num
    rw [hf]; simp

open Classical in
/-- the subset-search hypothesis is satisfiable: a likelihood that is infinite whenever the second parameter is 0 -/
example : ∃ o, postHessian xr 4 (thetaX exRows) (fisherX exRows) (XR.fin 7)
      (fun v => if v = [XR.fin 2, XR.fin 0] then XR.pinf else XR.fin 7) = .ok o
    ∧ o.kept.count false ≤ 1 := by
  have hpos : ∀ r ∈ exRows, 0 < r.2 := by simp [exRows]
  obtain ⟨o, ho⟩ := no_python_error exRows 4 (XR.fin 7)
    (fun v => if v = [XR.fin 2, XR.fin 0] then XR.pinf else XR.fin 7) hpos (by simp [exRows])
  refine ⟨o, ho, (partial_search_consistent exRows 4 _ _ hpos (by simp [exRows]) o ho ?_).2.2.2⟩
  have : snapped exRows = [XR.fin 2, XR.fin 0] := by
    simp [snapped, exRows]; norm_num
  rw [this]; simp

/-- bad curvature is satisfiable: F = (12, −1) -/
example : ∃ o, postHessian xr 4 [XR.fin 2, XR.fin 1] [XR.fin 12, XR.fin (-1)] (XR.fin 7) (fun _ => XR.fin 5) = .ok o
    ∧ o.codelen = XR.nan ∧ o.nll = XR.fin 7 :=
  bad_curvature_nan 4 _ _ _ _ rfl ⟨XR.fin (-1), by simp, Or.inl (by simp)⟩

end ESR.C07
