import ESRVerif.Model.SubsRows
import ESRVerif.Proofs.SubsRows
import ESRVerif.Props.C17
/-!
C17c — the per-row conversion of `load_subs` is atomic under a timeout.

`ESR.Gen.Subs.loadSubsRows` is the exception structure the translator reads off today's `load_subs`: whether the in-place
conversion of a row runs inside `with time_limit(..)`, what the `TimeoutException` handler puts the row back from, and the
sequence of in-place writes.  Model: `Model/SubsRows.lean` (fault before any in-place write of any cell, handler).
-/
namespace ESR.C17
open ESR.Subs ESR.SubsRows
open ESR.Gen.Subs (RowStmt RowConversion Restore loadSubsRows)

/-! ### the regenerated exception structure -/

/-- Today's `load_subs`: the in-place write sequence has the shape the model understands, and the row is never put back from an
alias of the list being rewritten.  (`decide` over the regenerated table.)  On today's source `timeLimited = false` as well,
which makes `loadRow_atomic` hold vacuously there: no alarm is ever pending inside `load_subs`, so nothing can interrupt the
loop — that fact is the third conjunct, and the dynamic check records `time_limited_sites: 0` for the same reason. -/
theorem loadSubsRows_shape :
    wf loadSubsRows.inPlace = true ∧ loadSubsRows.restoresFrom ≠ .alias ∧
    (loadSubsRows.timeLimited = true → loadSubsRows.restoresFrom = .snapshot) := by decide

/-! ### atomicity -/

/-- **loadRow_atomic.**  Whatever the fault point, a row's turn ends in one of: the row fully converted (exactly the outcome
without a fault), the row exactly as `csv.reader` delivered it (the original text), or — only when there is no handler at all —
the `TimeoutException` leaving `load_subs` (nothing read back).  PROVIDED the handler does not restore from an alias. -/
theorem loadRow_atomic (rc : RowConversion) (h : rc.restoresFrom ≠ .alias) (cells : List (List Char))
    (fault : Option (Nat × Nat)) :
    runRow rc cells fault = runRow rc cells none ∨
    runRow rc cells fault = .row (rawRow cells) ∨
    (rc.restoresFrom = .none ∧ rc.timeLimited = true ∧ runRow rc cells fault = .raised) := by
  cases fault with
  | none => exact Or.inl rfl
  | some jk =>
    obtain ⟨j, k⟩ := jk
    by_cases ht : rc.timeLimited = false
    · left; simp [runRow, ht]
    · have ht' : rc.timeLimited = true := by simpa using ht
      cases hp : runRowPrefix rc.inPlace (rawRow cells) j k with
      | none => left; simp [runRow, ht', hp]
      | some cur =>
        cases hr : rc.restoresFrom with
        | none => right; right; exact ⟨rfl, ht', by simp [runRow, ht', hp, hr]⟩
        | snapshot => right; left; simp [runRow, ht', hp, hr]
        | alias => exact absurd hr h

/-- The "fully converted" alternative is the round trip of the existing theorems: a row of recorded entries written with
`dumpEntry` and run through the in-place writes without a fault is that row (`load (dump m) = m`, cell by cell). -/
theorem loadRow_complete (rc : RowConversion) (hw : wf rc.inPlace = true) (row : List Entry)
    (hg : ∀ e ∈ row, TemplateEntry e) :
    runRow rc (row.map dumpEntry) none = .row (row.map .val) := by
  simp [runRow, runRowFull, optMap_runCell rc.inPlace hw row (fun e he => templateEntry_good e (hg e he))]

/-- `loadRow_atomic` for today's `load_subs` and rows of recorded entries: fully converted = the entries that were written. -/
theorem loadRow_atomic_generated (row : List Entry) (hg : ∀ e ∈ row, TemplateEntry e) (fault : Option (Nat × Nat)) :
    runRow loadSubsRows (row.map dumpEntry) fault = .row (row.map .val) ∨
    runRow loadSubsRows (row.map dumpEntry) fault = .row (rawRow (row.map dumpEntry)) := by
  have hs := loadSubsRows_shape
  rcases loadRow_atomic loadSubsRows hs.2.1 (row.map dumpEntry) fault with h | h | ⟨hn, ht, _⟩
  · left; rw [h]; exact loadRow_complete _ hs.1 row hg
  · right; exact h
  · have := hs.2.2 ht
    rw [hn] at this
    exact absurd this (by decide)

/-! ### non-vacuity and the seed -/

/-- the statement sequence of today's source -/
def canonical : List RowStmt := [.replace 1, .replace 1, .replace 1, .replace 1, .convert, .stringify]

/-- the row of the seed's demo: `{a0: -a0}; {a1: a1/7}; {a1: a0, a0: a1}` -/
def demoRow : List Entry := [.map [(0, negT 0)], .map [(1, scaleT 1 7 1)], .map [(1, .param 0), (0, .param 1)]]

-- non-vacuous instance of `loadRow_atomic`: time-limited, restored from a snapshot, interrupted in step 1 after the quote
-- insertion — the row comes back as its original text
example : runRow ⟨true, .snapshot, canonical⟩ (demoRow.map dumpEntry) (some (1, 4)) = .row (rawRow (demoRow.map dumpEntry)) := by
  decide +kernel
example : (⟨true, .snapshot, canonical⟩ : RowConversion).restoresFrom ≠ .alias := by decide
example : runRow ⟨true, .snapshot, canonical⟩ (demoRow.map dumpEntry) none = .row (demoRow.map .val) := by decide +kernel
example : wf canonical = true := by decide
-- the same sequence written as one in-place write of all four replaces, or with the replaces on a local (none in place)
example : wf [.replace 4, .convert, .stringify] = true ∧ wf [.convert] = true := by decide

/-- **alias_restore_is_not_atomic** (the seeded change, concrete): with `orig_subs = all_subs[i]` restored in the handler, a
timeout in step 1 after its quote insertion leaves step 0 converted, step 1 as the text `{'a1': 'a1/7'}` and step 2 raw —
neither the converted row nor the original text. -/
theorem alias_restore_is_not_atomic :
    ∃ fault,
      runRow ⟨true, .alias, canonical⟩ (demoRow.map dumpEntry) fault =
        .row [.val (.map [(0, negT 0)]), .text 4 "{'a1': 'a1/7'}".toList, .text 0 "{a1: a0, a0: a1}".toList] ∧
      runRow ⟨true, .alias, canonical⟩ (demoRow.map dumpEntry) fault ≠ runRow ⟨true, .alias, canonical⟩ (demoRow.map dumpEntry) none ∧
      runRow ⟨true, .alias, canonical⟩ (demoRow.map dumpEntry) fault ≠ .row (rawRow (demoRow.map dumpEntry)) :=
  ⟨some (1, 4), by decide +kernel, by decide +kernel, by decide +kernel⟩

end ESR.C17
