import ESRVerif.Props.C02
import ESRVerif.Proofs.NodeStringSem
import ESRVerif.Proofs.PrinterReal
/-!
C02 — every library function string denotes the tree on the same line (SEMANTIC link, first stage of the chain).

`Props/C02.lean` proves that the string `node_to_string` emits parses to the tree's own call/operator structure
`toPy t`.  Here: *evaluating* that structure under a symbol table regenerated from the source gives the value of the
tree under ESR's operator semantics, for trees of any depth.

Objects.
* `evalTree t ρ : Option α` — ESR's operator semantics (`Model/NodeString.lean`: `opSem1`, `opSem2`, `evalTreeWith`;
  hand-written after `harness/oracle_tree.py`, which is the evaluator run against the real code, and compared with it
  over `Float` on every run: driver op `treeval`).  `pow u v = |u|^v`, `sqrt_abs u = sqrt|u|`, `log_abs u = log|u|`,
  `log10_abs u = log|u|/log 10`, `tenexp u = 10^u`, `inv u = 1/u`, `square u = u*u`, `cube u = (u*u)*u`, `exp`, `sin`,
  `+ - * /`; a name is looked up in `ρ`, an integer literal denotes itself.
* `evalPy tbl ρ a` — C12's evaluator of a Python AST under a symbol table (`genTable` = `sympy_locs`,
  `fitTable` = locals of `Likelihood.run_sympify`, both regenerated from the source on every run).
* `t.Over V` (decidable) — every unary label of `t` is in `V.un`, every binary label in `V.bin`, every name in value
  position satisfies `V.leaf`:
  `genVocab`: un = inv square cube sqrt_abs log_abs log10_abs tenexp exp sin Abs, bin = + - * / pow,
              leaf s = `symOK genTable s` (the table does not bind `s` to a function: `x`, `a0`, `a1`, … qualify);
  `fitVocab`: un = inv square cube sqrt log exp sin Abs, bin = + - * / pow, leaf s = `symOK fitTable s`
  (the fitting table has no `sqrt_abs`/`log_abs`/`log10_abs`/`tenexp`; `renameFit` spells `sqrt_abs ↦ sqrt`,
  `log_abs ↦ log`).  The shipped bases use only labels of `genVocab`.
* `α` with `[RealLike α]`: real-number operations; the only law used is `ofInt (-n) = neg (ofInt n)` (negative
  integer literals).  The `…_real` theorems are the instance `ℝ` (`Real.rpow`, `Real.sqrt`, `Real.log`, `|·|`, …).

Definedness.  `RealLike` operations are total (`ℝ`: `x / 0 = 0`, `Real.log 0 = 0`, `0 ^ y` as `Real.rpow`), and BOTH
sides use the same total operations, so the equalities hold at EVERY valuation — in particular wherever the tree's
value is defined; `none` arises only from a label outside the vocabulary, which `Over` excludes
(`tree_value_defined_*`).  `evalTreeStrict` is the partial semantics that is undefined exactly at a zero denominator
(`inv 0`, `u / 0`), `log_abs 0`/`log10_abs 0`, and `pow 0 v` with `v` not non-negative — where `oracle_tree.evaluate`
raises; `*_strict` theorems state the result for it: whenever the strict value exists, the string evaluates to it.

Not covered here (C12 / the numeric conformance of the check): sympy's canonicaliser between this string and the
stored one (`hcanon`).
-/
namespace ESR.C02
open ESR.NodeString ESR.Printer ESR.SymTerm ESR.Gen.SymTab

variable {α : Type} [RealLike α]

/-! ### one operator -/

/-- each unary name the generation stage can read denotes, under `sympy_locs`, ESR's meaning of that label -/
theorem genTable_agrees_opSem (f : String) (hf : f ∈ genVocab.un) (v : α) :
    applyFn genTable f [v] = opSem1 (opsOf α) f v :=
  genTable_agrees_opSem1 f hf v

/-- `pow` under `sympy_locs` is `|u|^v` -/
theorem genTable_agrees_opSem_pow (u v : α) :
    applyFn genTable "pow" [u, v] = some (RealLike.rpow (RealLike.abs u) v) ∧
    opSem2 (opsOf α) "pow" u v = some (RealLike.rpow (RealLike.abs u) v) := by
  constructor
  · rw [genTable_agrees_pow]; simp [opSem2, opsOf]
  · simp [opSem2, opsOf]

/-- each unary name the fitting stage can read denotes, under `run_sympify`'s table, ESR's meaning of that label -/
theorem fitTable_agrees_opSem (f : String) (hf : f ∈ fitVocab.un) (v : α) :
    applyFn fitTable f [v] = opSem1 (opsOf α) f v :=
  fitTable_agrees_opSem1 f hf v

/-! ### whole trees, generation table -/

/-- **The tree's Python structure, evaluated with `sympy_locs`, is the value of the tree** — any depth, every
valuation (`none` never arises on either side, see `tree_value_defined_gen`). -/
theorem tree_string_same_value_gen (ρ : String → α) (t : LTree) (ht : t.Over genVocab) :
    evalPy genTable ρ (toPy t) = evalTree t ρ :=
  eval_toPy genReads ρ t ht

/-- a tree over the generation vocabulary has a value at every valuation (total arithmetic) -/
theorem tree_value_defined_gen (ρ : String → α) (t : LTree) (ht : t.Over genVocab) : ∃ v, evalTree t ρ = some v :=
  evalTree_isSome genVocab_total_un vocab_total_bin ρ t ht

/-- **`node_to_string`'s tokens, parsed by the Python grammar and evaluated with `sympy_locs`, give the value of
the tree** (composition with `nodeToString_roundtrip`) -/
theorem node_string_same_value_gen (ρ : String → α) (t : LTree) (ht : t.Over genVocab) :
    (parse (toks t)).bind (evalPy genTable ρ) = evalTree t ρ := by
  rw [nodeToString_roundtrip t]; exact tree_string_same_value_gen ρ t ht

/-- the STRING `node_to_string` returns is tokenised back to the model's tokens, when the names in value position
are identifiers -/
theorem tokenize_nodeToString_gen (t : LTree) (ht : t.Over genVocab) (hl : t.lexical = true) :
    tokenize (NodeString.toString t) = some (toks t) :=
  tokenize_render (toks t)
    (toks_tokOK (by decide) (by decide) t ht hl)
    (phrase_sepOK (toks_phrase t)).nf

/-- **string level, generation stage**: characters → tokens → grammar → `sympy_locs` gives the value of the tree -/
theorem node_string_same_value_gen_string (ρ : String → α) (t : LTree) (ht : t.Over genVocab)
    (hl : t.lexical = true) :
    (parseString (NodeString.toString t)).bind (evalPy genTable ρ) = evalTree t ρ := by
  simp only [parseString, tokenize_nodeToString_gen t ht hl, Option.bind_some]
  exact node_string_same_value_gen ρ t ht

/-- **at every valuation where the tree's value is defined in the strict sense** (no zero denominator, no `log 0`,
no `0` to a negative power) the string evaluates to that value -/
theorem node_string_same_value_gen_strict (ρ : String → α) (t : LTree) (ht : t.Over genVocab) (v : α)
    (hv : evalTreeStrict t ρ = some v) : (parse (toks t)).bind (evalPy genTable ρ) = some v := by
  rw [node_string_same_value_gen ρ t ht]; exact evalTreeStrict_le ρ t v hv

/-! ### whole trees, fitting table (its own sub-vocabulary) -/

/-- the tree's Python structure, evaluated with `run_sympify`'s table, is the value of the tree -/
theorem tree_string_same_value_fit (ρ : String → α) (t : LTree) (ht : t.Over fitVocab) :
    evalPy fitTable ρ (toPy t) = evalTree t ρ :=
  eval_toPy fitReads ρ t ht

theorem tree_value_defined_fit (ρ : String → α) (t : LTree) (ht : t.Over fitVocab) : ∃ v, evalTree t ρ = some v :=
  evalTree_isSome fitVocab_total_un vocab_total_bin ρ t ht

theorem node_string_same_value_fit (ρ : String → α) (t : LTree) (ht : t.Over fitVocab) :
    (parse (toks t)).bind (evalPy fitTable ρ) = evalTree t ρ := by
  rw [nodeToString_roundtrip t]; exact tree_string_same_value_fit ρ t ht

theorem node_string_same_value_fit_string (ρ : String → α) (t : LTree) (ht : t.Over fitVocab)
    (hl : t.lexical = true) :
    (parseString (NodeString.toString t)).bind (evalPy fitTable ρ) = evalTree t ρ := by
  have htok : tokenize (NodeString.toString t) = some (toks t) :=
    tokenize_render (toks t) (toks_tokOK (by decide) (by decide) t ht hl) (phrase_sepOK (toks_phrase t)).nf
  simp only [parseString, htok, Option.bind_some]
  exact node_string_same_value_fit ρ t ht

theorem node_string_same_value_fit_strict (ρ : String → α) (t : LTree) (ht : t.Over fitVocab) (v : α)
    (hv : evalTreeStrict t ρ = some v) : (parse (toks t)).bind (evalPy fitTable ρ) = some v := by
  rw [node_string_same_value_fit ρ t ht]; exact evalTreeStrict_le ρ t v hv

/-- **both stages**: a generation-stage tree whose labels have a fitting-stage spelling (`genFitVocab`: no
`log10_abs`, `tenexp`), written with that spelling (`sqrt_abs ↦ sqrt`, `log_abs ↦ log`), is read by the fitting
table as the same value the generation table reads from the original string -/
theorem stages_agree_on_tree (ρ : String → α) (t : LTree) (ht : t.Over genFitVocab) :
    (parse (toks (renameFit t))).bind (evalPy fitTable ρ) = (parse (toks t)).bind (evalPy genTable ρ) := by
  rw [node_string_same_value_fit ρ _ (renameFit_over t ht), node_string_same_value_gen ρ t (genFit_sub_gen t ht),
    evalTree_renameFit]

/-! ### over the real numbers (`realLike`: every law proved from Mathlib, no hypothesis about the numbers left) -/

theorem tree_string_same_value_gen_real (ρ : String → ℝ) (t : LTree) (ht : t.Over genVocab) :
    evalPy genTable ρ (toPy t) = evalTree t ρ :=
  tree_string_same_value_gen ρ t ht

theorem node_string_same_value_gen_real (ρ : String → ℝ) (t : LTree) (ht : t.Over genVocab) :
    (parse (toks t)).bind (evalPy genTable ρ) = evalTree t ρ :=
  node_string_same_value_gen ρ t ht

theorem node_string_same_value_gen_string_real (ρ : String → ℝ) (t : LTree) (ht : t.Over genVocab)
    (hl : t.lexical = true) :
    (parseString (NodeString.toString t)).bind (evalPy genTable ρ) = evalTree t ρ :=
  node_string_same_value_gen_string ρ t ht hl

theorem node_string_same_value_gen_strict_real (ρ : String → ℝ) (t : LTree) (ht : t.Over genVocab) (v : ℝ)
    (hv : evalTreeStrict t ρ = some v) : (parse (toks t)).bind (evalPy genTable ρ) = some v :=
  node_string_same_value_gen_strict ρ t ht v hv

theorem tree_string_same_value_fit_real (ρ : String → ℝ) (t : LTree) (ht : t.Over fitVocab) :
    evalPy fitTable ρ (toPy t) = evalTree t ρ :=
  tree_string_same_value_fit ρ t ht

theorem node_string_same_value_fit_real (ρ : String → ℝ) (t : LTree) (ht : t.Over fitVocab) :
    (parse (toks t)).bind (evalPy fitTable ρ) = evalTree t ρ :=
  node_string_same_value_fit ρ t ht

theorem node_string_same_value_fit_string_real (ρ : String → ℝ) (t : LTree) (ht : t.Over fitVocab)
    (hl : t.lexical = true) :
    (parseString (NodeString.toString t)).bind (evalPy fitTable ρ) = evalTree t ρ :=
  node_string_same_value_fit_string ρ t ht hl

theorem stages_agree_on_tree_real (ρ : String → ℝ) (t : LTree) (ht : t.Over genFitVocab) :
    (parse (toks (renameFit t))).bind (evalPy fitTable ρ) = (parse (toks t)).bind (evalPy genTable ρ) :=
  stages_agree_on_tree ρ t ht

/-- what the operator semantics is over `ℝ`, spelled with Mathlib's functions -/
theorem opSem_real (u v : ℝ) :
    opSem1 (opsOf ℝ) "inv" u = some (1 / u) ∧ opSem1 (opsOf ℝ) "square" u = some (u * u) ∧
    opSem1 (opsOf ℝ) "cube" u = some (u * u * u) ∧ opSem1 (opsOf ℝ) "sqrt_abs" u = some (Real.sqrt |u|) ∧
    opSem1 (opsOf ℝ) "log_abs" u = some (Real.log |u|) ∧
    opSem1 (opsOf ℝ) "log10_abs" u = some (Real.log |u| / Real.log 10) ∧
    opSem1 (opsOf ℝ) "tenexp" u = some ((10 : ℝ) ^ u) ∧ opSem1 (opsOf ℝ) "exp" u = some (Real.exp u) ∧
    opSem1 (opsOf ℝ) "sin" u = some (Real.sin u) ∧ opSem2 (opsOf ℝ) "pow" u v = some (|u| ^ v) ∧
    opSem2 (opsOf ℝ) "/" u v = some (u / v) := by
  simp [opSem1, opSem2, opsOf]

/-- **the vocabulary restriction is needed**: the label `sqrt` is not in `genVocab`, and cannot be — under
`sympy_locs` the string `sqrt(a0)` is sympy's own square root (no absolute value), which at `a0 = -4` is not ESR's
`sqrt|a0|` -/
theorem gen_sqrt_label_must_be_excluded :
    evalPy genTable (fun _ => (-4 : ℝ)) (toPy (.un "sqrt" (.name "a0"))) ≠ evalTree (.un "sqrt" (.name "a0")) (fun _ => (-4 : ℝ)) := by
  have h1 : Real.sqrt (-4 : ℝ) = 0 := Real.sqrt_eq_zero_of_nonpos (by norm_num)
  have h2 : 0 < Real.sqrt (4 : ℝ) := Real.sqrt_pos.mpr (by norm_num)
  simp [toPy, evalPy, symOK, applyFn, Table.find, genTable, builtin, opSem1, opsOf, h1]
  exact fun h => (ne_of_gt h2) h.symm

/-! ### non-vacuity -/

/-- `(inv(x))+(pow(a0,2))`, depth 2 -/
def tEx1 : LTree := .bin "+" (.un "inv" (.name "x")) (.bin "pow" (.name "a0") (.int false 2))
/-- `(sqrt_abs((x)-(a0)))*(log_abs(tenexp(a1)))` -/
def tEx2 : LTree := .bin "*" (.un "sqrt_abs" (.bin "-" (.name "x") (.name "a0"))) (.un "log_abs" (.un "tenexp" (.name "a1")))

example : tEx1.Over genVocab ∧ tEx1.Over fitVocab ∧ tEx1.lexical = true := by decide
example : tEx2.Over genVocab ∧ ¬ tEx2.Over fitVocab ∧ ¬ tEx2.Over genFitVocab := by decide
example : NodeString.toString tEx2 = "(sqrt_abs((x)-(a0)))*(log_abs(tenexp(a1)))" := by decide
/-- a name the table binds to a function is not a leaf of the vocabulary; an unknown operator is not in it -/
example : ¬ LTree.Over genVocab (.name "inv") ∧ ¬ LTree.Over genVocab (.un "sqrt" (.name "x")) ∧
    ¬ LTree.Over genVocab (.bin "pow_abs" (.name "x") (.name "x")) := by decide
/-- parameters of any index are leaves of both vocabularies -/
example : LTree.Over genVocab (.name "a17") ∧ LTree.Over fitVocab (.name "a17") ∧ LTree.Over genFitVocab (.name "x") := by
  decide

/-- a concrete valuation: x = 2, a0 = -3, everything else 1/2 -/
noncomputable def ρ1 : String → ℝ := fun s => if s = "x" then 2 else if s = "a0" then -3 else 1 / 2

/-- the value of `tEx1` at `ρ1` is `1/2 + |-3|^2 = 19/2` … -/
example : evalTree tEx1 ρ1 = some (19 / 2) := by
  simp [tEx1, opSem1, opSem2, opsOf, litInt, ρ1]
  norm_num
/-- … and that is what the STRING `(inv(x))+(pow(a0,2))` evaluates to under either table -/
example : (parseString "(inv(x))+(pow(a0,2))").bind (evalPy genTable ρ1) = some (19 / 2) := by
  have h := node_string_same_value_gen_string_real ρ1 tEx1 (by decide) (by decide)
  rw [show NodeString.toString tEx1 = "(inv(x))+(pow(a0,2))" by decide] at h
  rw [h]
  simp [tEx1, opSem1, opSem2, opsOf, litInt, ρ1]
  norm_num
/-- the strict value exists at `ρ1` (no singular operation is hit) and is the same number -/
example : evalTreeStrict tEx1 ρ1 = some (19 / 2) := by
  simp [tEx1, evalTreeStrict, strict1, strict2, opSem1, opSem2, opsOf, litInt, ρ1]
  norm_num
/-- at `x = 0` the strict value does not exist (`inv 0`), the total one is `0 + 9` by `x / 0 = 0` -/
example : evalTreeStrict tEx1 (fun s => if s = "x" then (0 : ℝ) else -3) = none := by
  simp [tEx1, evalTreeStrict, strict1]
/-- the laws have a finite model too: the theorem instantiates there with every hypothesis discharged -/
example : (parse (toks tEx2)).bind (@evalPy (Fin 3) modelF3 genTable (fun _ => 2)) =
    @evalTree (Fin 3) modelF3 tEx2 (fun _ => 2) :=
  @node_string_same_value_gen (Fin 3) modelF3 (fun _ => 2) tEx2 (by decide)

end ESR.C02
