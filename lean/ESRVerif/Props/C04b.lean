import ESRVerif.Props.C04
import ESRVerif.Props.C10
import ESRVerif.Props.C07
import ESRVerif.Props.C05
import ESRVerif.Model.Stages
import ESRVerif.Proofs.C04b
/-!
C04 (second half) — every row of the final table is reproducible.

"The likelihood of the reported function at the reported parameters equals the reported negative log-likelihood" is
followed through the four stages of the pipeline, each over the model and the theorems that already exist:

1. `stage1_row_reproducible`   — `test_all.optimise_fun` (C10 `params_reproduce_nll`, every row of the regenerated option
   table: all parameter-count classes, `log_opt` true and false) and the row `test_all.main` writes (`Stages.fitRow`);
2. `fisher_row_reproducible`   — `test_all_Fisher.convert_params` (C07 `nll_at_reported`);
3. `match_row_reproducible`    — `match.py` (C05 `matchRow_nll`, `matchRow_recoverable_snap/_nosnap`);
4. `final_row_reproducible`    — `combine_DL.main` (C06 `row_is_min`, 4th clause);
5. `every_final_row_reproducible_partial` — the composition; the stage models live over different number types (abstract
   `Optim.Num α`, `Codelen.XR ℝ`, `Match.XR`, `Rank.XR K`), so the links between them ("the next stage reads what the
   previous one wrote", "the likelihood evaluator is one function of (function, parameters, data)") are the named fields
   of `RowChain`.
6. `stage1_best_backtransform_needed` — a concrete run on which the real routine reproduces its value while the variant
   that back-transforms the best `x` with the LAST iteration's `mult_arr` (what aliasing `mult_arr_best = mult_arr` onto
   an array that is reset in place does) does not.

`Repro L n params nll` is the row predicate used throughout: the likelihood closure `L` at the first `n` reported
parameters gives the reported value.
-/
namespace ESR.C04

/-- the row `(params, nll)` is reproducible: the likelihood closure `L` (function and data fixed) at the first `n`
reported parameters (`n` = the function's parameter count; the rest of the row is zero padding) is the reported value -/
def Repro {β γ : Type} (L : List β → γ) (n : Nat) (params : List β) (nll : γ) : Prop := L (params.take n) = nll

instance {β γ : Type} [DecidableEq γ] (L : List β → γ) (n : Nat) (params : List β) (nll : γ) :
    Decidable (Repro L n params nll) := by unfold Repro; infer_instance

/-! ### stage 1: `test_all.optimise_fun` and the row `test_all.main` writes -/

section stage1
open ESR.Optim ESR.Gen.Optim
variable {α : Type} [Num α] [LawfulNum α]

/-- **Stage 1.**  For EVERY arm of the regenerated option table (`br ∈ branches`: every parameter-count class, `log_opt`
true and false) and every configuration that takes that arm: under `MinimiserSpec`, a returned pair `(chi2, params)`
with `chi2` below the `1e100` threshold is reproducible, and when the parameter vector has the row's width the row
`test_all.main` stores (`Stages.fitRow`, first attempt succeeded) is that very pair — so the row of the stage file is
reproducible. -/
theorem stage1_row_reproducible (nll : List α → α) :
    ∀ br ∈ branches, ∀ (cfg : Config α) (script : Nat → Nat → Call α) (niter nconv : Nat),
      pre cfg = .go br niter nconv → MinimiserSpec nll br cfg.nparam script → 1 ≤ cfg.nparam →
      cfg.nparam ≤ cfg.maxParam →
      ∀ (chi2 : α) (params : List α) (n : Nat), optimiseFun cfg script = (.ret chi2 params, n) →
        Num.lt chi2 (Num.const finalBack.big) = true →
        Repro nll cfg.nparam params chi2 ∧
        (params.length = cfg.maxParam → ∀ (nanv zero : α) (tryInt : Bool) (o2 : ESR.Stages.Out (α × List α)),
          ESR.Stages.fitRow nanv zero cfg.maxParam tryInt (.ok (chi2, params)) o2 = (chi2, params) ∧
          Repro nll cfg.nparam (ESR.Stages.fitRow nanv zero cfg.maxParam tryInt (.ok (chi2, params)) o2).2
            (ESR.Stages.fitRow nanv zero cfg.maxParam tryInt (.ok (chi2, params)) o2).1) := by
  intro br _ cfg script niter nconv hpre hm h1 hn chi2 params n hres hlt
  have hrep : nll (params.take cfg.nparam) = chi2 :=
    ESR.C10.params_reproduce_nll cfg script nll br niter nconv hpre hm h1 hn chi2 params n hres hlt
  refine ⟨hrep, ?_⟩
  intro hw nanv zero tryInt o2
  have hrow : ESR.Stages.fitRow nanv zero cfg.maxParam tryInt (.ok (chi2, params)) o2 = (chi2, params) := by
    simp [ESR.Stages.fitRow, ESR.Stages.storeFit, hw]
  exact ⟨hrow, by rw [hrow]; exact hrep⟩

/-- every (parameter-count class, `log_opt`) setting IS an arm of the table `stage1_row_reproducible` quantifies over -/
theorem stage1_covers_every_setting (c : NClass) (lo : Bool) : ∃ br ∈ branches, br.nclass = c ∧ br.logOpt = lo :=
  ESR.C10.branches_cover.2.2 c lo

end stage1

/-! non-vacuity of stage 1, with `log_opt = true` and with `log_opt = false` (C10's `cfgEx`, `nllEx`; the minimiser
returns `x = (2, 1)` and the objective there, for whichever arm is taken) -/

open ESR.Optim ESR.Gen.Optim in
/-- a minimiser that satisfies `MinimiserSpec` by construction, for any arm -/
def scriptFor (br : Branch) (_j c : Nat) : Call XH :=
  match chi2Fcn ESR.C10.nllEx [.fin 4, .fin 2] (br.calls.getD c none) with
  | some f => .ok [.fin 4, .fin 2] f true
  | none => .other

open ESR.Optim ESR.Gen.Optim in
theorem scriptFor_spec (br : Branch) : MinimiserSpec ESR.C10.nllEx br 2 (scriptFor br) where
  value := by
    intro j c x f s h
    unfold scriptFor at h
    split at h
    · next f' hf => cases h; exact hf
    · cases h
  arity := by
    intro j c x f s h
    unfold scriptFor at h
    split at h
    · cases h; rfl
    · cases h

open ESR.Optim ESR.Gen.Optim in
/-- the `log_opt = false` twin of `cfgEx` and the arm it takes -/
def cfgLin : Config XH := { ESR.C10.cfgEx with logOpt := false }

open ESR.Optim ESR.Gen.Optim in
def brLin : Branch := ⟨.two, false, true, [none], .single⟩

open ESR.Optim ESR.Gen.Optim in
/-- `log_opt = true`: all hypotheses of `stage1_row_reproducible` hold on `cfgEx` (four sign branches, two iterations),
the returned row is `(−100; −100, 10, 0, 0)` and it is reproducible -/
example : ESR.C10.brEx ∈ branches ∧ ESR.C10.brEx.logOpt = true ∧ pre ESR.C10.cfgEx = .go ESR.C10.brEx 2 1 ∧
    optimiseFun ESR.C10.cfgEx (scriptFor ESR.C10.brEx)
      = (.ret (.fin (-200)) [.fin (-200), .fin 20, .fin 0, .fin 0], 8) ∧
    Num.lt (XH.fin (-200)) (Num.const finalBack.big) = true ∧
    Repro ESR.C10.nllEx 2 [XH.fin (-200), .fin 20, .fin 0, .fin 0] (.fin (-200)) := by
  refine ⟨by decide, by decide, by decide, by decide, by decide, ?_⟩
  exact (stage1_row_reproducible ESR.C10.nllEx ESR.C10.brEx (by decide) ESR.C10.cfgEx (scriptFor ESR.C10.brEx) 2 1
    (by decide) (scriptFor_spec _) (by decide) (by decide) _ _ 8 (by decide) (by decide)).1

open ESR.Optim ESR.Gen.Optim in
/-- `log_opt = false`: the linear arm (one minimize call per iteration, no back-transformation), row `(2; 2, 1, 0, 0)` -/
example : brLin ∈ branches ∧ brLin.logOpt = false ∧ pre cfgLin = .go brLin 2 1 ∧
    optimiseFun cfgLin (scriptFor brLin) = (.ret (.fin 4) [.fin 4, .fin 2, .fin 0, .fin 0], 2) ∧
    Repro ESR.C10.nllEx 2 [XH.fin 4, .fin 2, .fin 0, .fin 0] (.fin 4) ∧
    ESR.Stages.fitRow XH.nan (XH.fin 0) 4 true (.ok (XH.fin 4, [XH.fin 4, .fin 2, .fin 0, .fin 0])) .raises
      = (XH.fin 4, [XH.fin 4, .fin 2, .fin 0, .fin 0]) := by
  refine ⟨by decide, by decide, by decide, by decide, ?_, by decide⟩
  exact (stage1_row_reproducible ESR.C10.nllEx brLin (by decide) cfgLin (scriptFor brLin) 2 1
    (by decide) (scriptFor_spec _) (by decide) (by decide) _ _ 2 (by decide) (by decide)).1

/-! ### why the back-transformation must use the sign vector OF THE BEST ITERATION -/

section needed
open ESR.Optim ESR.Gen.Optim

/-- a sign-sensitive likelihood: `|a0 − 1|` (so `+10^x` and `−10^x` differ) -/
def nllAbs (ps : List XH) : XH := XH.abs (XH.sub (ps.headD (.fin 0)) (.fin 2))

/-- 1 parameter, log_opt, Niter = 2, Nconv = 1 -/
def cfgOne : Config XH := ⟨4, 1, true, false, [2], [1], false, .ok, true, .fin 0, true, [false, true]⟩

/-- the 1-parameter log arm: `minimize` with '+' and with '-', guard chain `<`, `>`, else -/
def brOne : Branch := match findBranch 1 true with | some b => b | none => ⟨.one, true, false, [], .single⟩

/-- the `x` each minimize call returns: iteration 0 → (0, 0), iteration 1 → (1, 0); the value is the objective there,
so `MinimiserSpec` holds by construction.  Iteration 0: '+' gives |1−1| = 0, '−' gives |−1−1| = 2 → '+' wins with 0.
Iteration 1: '+' gives |10−1| = 9, '−' gives 2 → '−' wins with 2 (not kept: 2 > 0). -/
def xOne (j c : Nat) : List XH := match j, c with | 1, 0 => [.fin 2] | _, _ => [.fin 0]

def scriptOne (j c : Nat) : Call XH :=
  match chi2Fcn nllAbs (xOne j c) (brOne.calls.getD c none) with
  | some f => .ok (xOne j c) f true
  | none => .other

theorem scriptOne_spec : MinimiserSpec nllAbs brOne cfgOne.nparam scriptOne where
  value := by
    intro j c x f s h
    unfold scriptOne at h
    split at h
    · next f' hf => cases h; exact hf
    · cases h
  arity := by
    intro j c x f s h
    unfold scriptOne at h
    split at h
    · cases h; unfold xOne; split <;> rfl
    · cases h

/-- the result assigned to `res` in iteration `j` (and the `mult_arr` set with it) -/
def pickOne (j : Nat) : Option (Picked XH) :=
  pick (fun c => if c < brOne.calls.length then (scriptOne j c).res? else none) brOne.sel

/-- what the routine would return if `mult_arr_best` were the LAST iteration's `mult_arr` (an alias of an array that
is reset in place each iteration) instead of a copy taken when the best iterate was kept: the best value of iteration
0 and the back-transformation of ITS `x` with the `mult_arr` of iteration 1 -/
def seededOne : Option (XH × List XH) :=
  match pickOne 0, pickOne 1 with
  | some p0, some p1 =>
    (backParams finalBack brOne.flagThree cfgOne.maxParam ⟨p1.call, p0.res, p1.mult⟩).map (fun ps => (p0.res.f, ps))
  | _, _ => none

/-- **The best iteration's own sign vector is needed.**  On this run (all hypotheses of `stage1_row_reproducible` hold:
arm of the table, `MinimiserSpec`, value below the threshold): iteration 0 is the best (value 0, found in the '+'
branch), iteration 1 ends in the '−' branch with the larger value 2;
(a) the modelled routine returns `(0; +10^0, 0, 0, 0)`, which reproduces its value;
(b) the aliased variant returns `(0; −10^0, 0, 0, 0)`, whose likelihood is 2 ≠ 0: NOT reproducible. -/
theorem stage1_best_backtransform_needed :
    (brOne ∈ branches ∧ brOne.logOpt = true ∧ brOne.nclass = .one ∧ pre cfgOne = .go brOne 2 1 ∧
      (pickOne 0).map (fun p => (p.call, p.res.x, p.res.f, p.mult)) = some (0, [.fin 0], .fin 0, [1, 1]) ∧
      (pickOne 1).map (fun p => (p.call, p.res.x, p.res.f, p.mult)) = some (1, [.fin 0], .fin 4, [-1, 1]) ∧
      ((runLoop cfgOne brOne 2 1 scriptOne).st.best.map (fun p => (p.call, p.res.x, p.res.f, p.mult)))
        = some (0, [.fin 0], .fin 0, [1, 1])) ∧
    (optimiseFun cfgOne scriptOne = (.ret (.fin 0) [.fin 2, .fin 0, .fin 0, .fin 0], 4) ∧
      Repro nllAbs 1 [XH.fin 2, .fin 0, .fin 0, .fin 0] (.fin 0)) ∧
    (seededOne = some (.fin 0, [.fin (-2), .fin 0, .fin 0, .fin 0]) ∧
      ¬ Repro nllAbs 1 [XH.fin (-2), .fin 0, .fin 0, .fin 0] (.fin 0)) := by
  refine ⟨⟨by decide, by decide, by decide, by decide, by decide, by decide, by decide⟩, ⟨by decide, ?_⟩,
    by decide, by decide⟩
  exact (stage1_row_reproducible nllAbs brOne (by decide) cfgOne scriptOne 2 1 (by decide) scriptOne_spec
    (by decide) (by decide) _ _ 4 (by decide) (by decide)).1

end needed

/-! ### stage 2: `test_all_Fisher.convert_params` -/

section stage2
open ESR.Codelen ESR.Gen.Codelen

/-- **Stage 2.**  The Fisher stage reads the stage-1 row `(nllIn; params1)` (its first `rows.length` parameters are θ).
If that row is reproducible for the likelihood closure `fop`, so is the row `(o.nll; o.params)` the Fisher stage
writes — in every branch (nothing snapped, all snapped, subset search, k = 0). -/
theorem fisher_row_reproducible (rows : List (ℝ × ℝ)) (mp : Nat) (nllIn : XR ℝ) (fop : List (XR ℝ) → XR ℝ)
    (hpos : ∀ r ∈ rows, 0 < r.2) (hlen : rows.length ≤ mp) (o : Out (XR ℝ))
    (h : postHessian xr mp (thetaX rows) (fisherX rows) nllIn fop = .ok o)
    (params1 : List (XR ℝ)) (hθ : params1.take rows.length = thetaX rows)
    (h1 : Repro fop rows.length params1 nllIn) :
    Repro fop rows.length o.params o.nll := by
  unfold Repro at h1 ⊢
  rw [hθ] at h1
  exact (ESR.C07.nll_at_reported rows mp nllIn fop hpos hlen o h h1.symm).symm

/-- θ = (2, 1/100), F = (12, 12) (the second parameter snaps); any likelihood closure -/
noncomputable def fRows : List (ℝ × ℝ) := [(2, 12), (1 / 100, 12)]

/-- non-vacuous: the stage-1 row `(fop θ; θ)` is reproducible by construction, the routine returns, and the row it
returns is reproducible -/
example (fop : List (XR ℝ) → XR ℝ) : ∃ o,
    postHessian xr 4 (thetaX fRows) (fisherX fRows) (fop (thetaX fRows)) fop = .ok o ∧
    Repro fop fRows.length (thetaX fRows) (fop (thetaX fRows)) ∧ Repro fop fRows.length o.params o.nll := by
  have hpos : ∀ r ∈ fRows, 0 < r.2 := by simp [fRows]
  have hl : (thetaX fRows).take fRows.length = thetaX fRows := by simp [thetaX]
  have h1 : Repro fop fRows.length (thetaX fRows) (fop (thetaX fRows)) := by unfold Repro; rw [hl]
  obtain ⟨o, ho⟩ := ESR.C07.no_python_error fRows 4 (fop (thetaX fRows)) fop hpos (by simp [fRows])
  exact ⟨o, ho, h1, fisher_row_reproducible fRows 4 _ fop hpos (by simp [fRows]) o ho (thetaX fRows) hl h1⟩

end stage2

/-! ### stage 3: `match.py` -/

section stage3
open ESR.Match

/-- **Stage 3.**  `LikV` is the variant's likelihood closure, `LikU` the unique function's.  Hypotheses beyond C05's
`Recoverable`: `hU` — the unique function's row `(r.nllU; paramsU)` is reproducible (what stage 2 yields);
`hTransfer` — **transfer exactness**: the variant at the transferred parameters `p` has the likelihood of the unique
function at its own parameters (C05 `compose_order` + C03 soundness of the recorded map; assumed here by name);
`hReval` — the meaning of the model's oracle field `reval` (`f1(p)` with the masked entries set to zero), needed at
the snap mask only and only when a parameter snaps.
Then the match-stage row is reproducible for the VARIANT: its likelihood is either the re-evaluated one at the snapped
parameters or the unique function's (`matchRow_nll`), and in both cases it is `LikV` at the row's parameters. -/
theorem match_row_reproducible {τ : Type} (r : RowIn XR τ) (nll : ℝ) (p fish : List ℝ)
    (h : ESR.C05.Recoverable r nll p fish) (hmp : r.nparams ≤ r.maxParam)
    (hsnap : (List.zipWith snapR p fish).any id = true →
      r.symOk = true ∧ ∃ v : ℝ, r.reval (List.zipWith snapR p fish) = XR.fin v)
    {γ : Type} (LikU : List γ → XR) (LikV : List XR → XR) (nU : Nat) (paramsU : List γ)
    (hU : Repro LikU nU paramsU r.nllU)
    (hTransfer : LikV (p.map XR.fin) = LikU (paramsU.take nU))
    (hReval : (List.zipWith snapR p fish).any id = true → r.reval (List.zipWith snapR p fish) =
      LikV (zeroWhere (List.zipWith snapR p fish) (p.map XR.fin))) :
    ∃ o, matchRow r = some o ∧
      o.nll = (if (List.zipWith snapR p fish).any id = true then r.reval (List.zipWith snapR p fish) else r.nllU) ∧
      Repro LikV r.nparams o.params o.nll := by
  obtain ⟨o, ho, hn⟩ := ESR.C05.matchRow_nll r nll p fish h hsnap
  refine ⟨o, ho, hn, ?_⟩
  have hlp : (p.map XR.fin).length = r.nparams := by simp [h.len_p]
  unfold Repro
  by_cases hs : (List.zipWith snapR p fish).any id = true
  · obtain ⟨hsym, v, hv⟩ := hsnap hs
    have hrow := ESR.C05.matchRow_recoverable_snap r nll p fish h hs hsym v hv
    simp only at hrow
    rw [ho] at hrow
    have ho' := Option.some.inj hrow
    rw [hn, if_pos hs, hReval hs]
    have hzl : (zeroWhere (List.zipWith snapR p fish) (p.map XR.fin)).length = r.nparams := by
      simp [zeroWhere, h.len_p, h.len_f]
    by_cases hk0 : r.nparams - (List.zipWith snapR p fish).count true = 0
    · rw [if_pos hk0] at ho'
      have hsl : (List.zipWith snapR p fish).length = r.nparams := by simp [h.len_p, h.len_f]
      have hall : ∀ b ∈ List.zipWith snapR p fish, b = true := by
        have hc : (List.zipWith snapR p fish).count true = (List.zipWith snapR p fish).length := by
          have := List.count_le_length (a := true) (l := List.zipWith snapR p fish)
          omega
        intro b hb
        exact (List.count_eq_length.mp hc b hb).symm
      rw [zeroWhere_all_true _ _ (by rw [hsl, hlp]) hall, hlp, ho']
      simp [List.take_replicate, Nat.min_eq_left hmp]
    · rw [if_neg hk0] at ho'
      rw [ho']
      simp only
      conv_lhs => rw [← hzl]
      rw [take_pad_match]
  · have hs' : (List.zipWith snapR p fish).any id = false := by simpa using hs
    have hrow := ESR.C05.matchRow_recoverable_nosnap r nll p fish h hs'
    rw [ho] at hrow
    have ho' := Option.some.inj hrow
    rw [hn, if_neg hs, ← hU, ← hTransfer, ho']
    simp only
    conv_lhs => rw [← hlp]
    rw [take_pad_match]

/-- non-vacuous, no parameter snaps (C05's `exRec`: p = −2 from θ = 2 through `{a0: −a0}`, F' = 1400): unique
`L(θ) = θ − 6`, variant `L'(p) = −p − 6`, both −4 -/
example : ∃ o, matchRow ESR.C05.exRec = some o ∧ o.nll = XR.fin (-4) ∧
    Repro (fun l => match l with | [XR.fin x] => XR.fin (-x - 6) | _ => XR.fin 0) 1 o.params o.nll := by
  have hR : ESR.C05.Recoverable ESR.C05.exRec (-4) [-2] [1400] :=
    ⟨rfl, by decide, by decide, rfl, rfl, rfl, by simp⟩
  have hs : (List.zipWith snapR [(-2 : ℝ)] [(1400 : ℝ)]).any id = false := by
    have : snapR (-2) 1400 = false := by
      rw [Bool.eq_false_iff, Ne, snapR_iff]
      have h1 : (1 : ℝ) ≤ Real.sqrt (1400 / 12) := by
        rw [show (1 : ℝ) = Real.sqrt 1 by simp]; exact Real.sqrt_le_sqrt (by norm_num)
      have : |(-2 : ℝ)| = 2 := by norm_num
      rw [this]; nlinarith
    simp [this]
  obtain ⟨o, ho, hn, hr⟩ := match_row_reproducible ESR.C05.exRec (-4) [-2] [1400] hR (by decide)
    (fun hc => by rw [hs] at hc; cases hc)
    (fun l => match l with | [XR.fin x] => XR.fin (x - 6) | _ => XR.fin 0)
    (fun l => match l with | [XR.fin x] => XR.fin (-x - 6) | _ => XR.fin 0)
    1 [XR.fin 2, XR.fin 0, XR.fin 0, XR.fin 0]
    (by simp [Repro, ESR.C05.exRec]; norm_num) (by simp) (fun hc => by rw [hs] at hc; cases hc)
  refine ⟨o, ho, ?_, hr⟩
  rw [hn, hs]; rfl

/-- variant likelihood `L'(p) = p + 5` on one parameter -/
noncomputable def likSnap (l : List XR) : XR := match l with | [XR.fin x] => XR.fin (x + 5) | _ => XR.fin 0

/-- p = 1/100 with F' = 12: below one precision step, so it is snapped to 0 and the likelihood re-evaluated -/
noncomputable def exSnap : RowIn XR Unit :=
  { nllU := XR.fin (501 / 100), nparams := 1, maxParam := 4, chain := [Entry.map ()], conv := .ok [XR.fin (1 / 100)] [XR.fin 12],
    symOk := true, reval := fun m => likSnap (zeroWhere m [XR.fin (1 / 100)]) }

/-- non-vacuous, the parameter snaps: the row carries the RE-EVALUATED likelihood `L'(0) = 5` (not the unique's 5.01) and
zero parameters, and is reproducible -/
example : ∃ o, matchRow exSnap = some o ∧ o.nll = XR.fin 5 ∧ Repro likSnap 1 o.params o.nll := by
  have hR : ESR.C05.Recoverable exSnap (501 / 100) [1 / 100] [12] :=
    ⟨rfl, by decide, by decide, rfl, rfl, rfl, by simp⟩
  have h1 : snapR (1 / 100) 12 = true := by
    rw [snapR_iff]
    have : Real.sqrt (12 / 12) = 1 := by norm_num
    rw [this]; norm_num
  have hz : List.zipWith snapR [(1 / 100 : ℝ)] [(12 : ℝ)] = [true] := by
    rw [List.zipWith_cons_cons, h1]; rfl
  have hs : (List.zipWith snapR [(1 / 100 : ℝ)] [(12 : ℝ)]).any id = true := by rw [hz]; rfl
  have hv : exSnap.reval (List.zipWith snapR [(1 / 100 : ℝ)] [(12 : ℝ)]) = XR.fin 5 := by
    rw [hz]; simp [exSnap, zeroWhere, likSnap]
  obtain ⟨o, ho, hn, hr⟩ := match_row_reproducible exSnap (501 / 100) [1 / 100] [12] hR (by decide)
    (fun _ => ⟨rfl, 5, hv⟩) likSnap likSnap 1 [XR.fin (1 / 100), XR.fin 0, XR.fin 0, XR.fin 0]
    (by simp [Repro, exSnap, likSnap]; norm_num) (by simp) (fun _ => by simp [exSnap])
  refine ⟨o, ho, ?_, hr⟩
  rw [hn, if_pos hs, hv]

end stage3

/-! ### stage 4: `combine_DL.main` -/

section stage4
open ESR.Rank ESR.Rank.XR ESR.C06
variable {K : Type} [Field K] [LinearOrder K] [IsStrictOrderedRing K] (E : K → K)

/-- **Stage 4.**  `Lik` is ANY evaluator that is a function of (function string, parameter row) — the data are fixed.
If every variant row of the match table is reproducible for it, so is every row of the final table whose description
length is not `+∞`: such a row copies function, parameters and likelihood from one variant row. -/
theorem final_row_reproducible (Lik : String → List (XR K) → XR K) (t : Table (XR K)) (P : Nat) (hP : 1 ≤ P)
    (out : List (FinalRow (XR K))) (h : main (ops E) t P = some out)
    (hMatch : ∀ v ∈ t.rows, Lik v.fcn v.params = v.nll) :
    ∀ r ∈ out, r.dl ≠ pinf → Lik r.fcn r.params = r.nll := by
  intro r hr hfin
  obtain ⟨_, _, _, h4⟩ := row_is_min E t P hP out h r hr
  obtain ⟨k, v, hk, _, hf, hn, _, _, hp, _⟩ := h4 hfin
  have hv : v ∈ variants t r.u := List.mem_of_getElem? hk
  have hv' : v ∈ t.rows := (List.mem_filter.mp hv).1
  rw [hf, hn, hp]
  exact hMatch v hv'

/-- two variants of unique 0 (`a` wins with DL 10), one variant of unique 1 with an infinite code length; the
likelihood of every function is its first parameter -/
def exT2 : Table (XR ℚ) := ⟨2, 1, [
  ⟨fin 5, fin 2, fin 3, 0, "a", [fin 5]⟩,
  ⟨fin 7, fin 1, fin 3, 0, "b", [fin 7]⟩,
  ⟨fin 8, pinf, fin 1, 1, "c", [fin 8]⟩]⟩

def likHead (_ : String) (ps : List (XR ℚ)) : XR ℚ := ps.headD (fin 0)

example : ((main (ops exE) exT2 2).getD []).map (fun r => (r.fcn, r.dl, r.nll, r.params))
    = [("a", fin 10, fin 5, [fin 5]), ("c", pinf, fin 8, [fin 8])] := by decide +kernel

/-- non-vacuous: the hypotheses hold on `exT2`, which has a final row with a finite description length -/
example : ∃ out, main (ops exE) exT2 2 = some out ∧ ∀ r ∈ out, r.dl ≠ pinf → likHead r.fcn r.params = r.nll := by
  have hs : (main (ops exE) exT2 2).isSome = true := by decide +kernel
  obtain ⟨out, ho⟩ := Option.isSome_iff_exists.mp hs
  exact ⟨out, ho, final_row_reproducible exE likHead exT2 2 (by omega) out ho (by decide +kernel)⟩

end stage4

/-! ### the composition -/

section compose
variable {K : Type}

/-- Provenance of one variant row `v` of the match table: the four stage models, each over its own number type, and
the links between them.  WHAT IS ASSUMED (fields): stage 1 — the run of `optimise_fun` for the row's unique function
took an arm of the table, `hMin : MinimiserSpec`, returned `(chi2; params1)` below the threshold; stage 2 — the Fisher
stage read that row (`read1`, `hread1_*`), positive curvature, returned `o2`; stage 3 — the match stage read `o2`'s
likelihood (`read2`, `hread2_nll`), C05's `Recoverable`, `hTransfer` (transfer exactness), `hReval`; stage 4 — `v` is the
row written (`read3`, `hread3_*`).  `hLik12`, `hLik34` (with `hTransfer`) say that the likelihood evaluator is ONE function
of (function, parameters, data): the closures of the stages agree through the file reads. -/
structure RowChain (Lik : String → List (ESR.Rank.XR K) → ESR.Rank.XR K) (v : ESR.Rank.Row (ESR.Rank.XR K)) where
  /- stage 1 -/
  α : Type
  [num : ESR.Optim.Num α]
  [lawful : ESR.Optim.LawfulNum α]
  cfg : ESR.Optim.Config α
  script : Nat → Nat → ESR.Optim.Call α
  nll1 : List α → α
  br : ESR.Gen.Optim.Branch
  niter : Nat
  nconv : Nat
  hpre : ESR.Optim.pre cfg = .go br niter nconv
  hMin : ESR.Optim.MinimiserSpec nll1 br cfg.nparam script
  h1 : 1 ≤ cfg.nparam
  hn : cfg.nparam ≤ cfg.maxParam
  chi2 : α
  params1 : List α
  calls : Nat
  hres : ESR.Optim.optimiseFun cfg script = (.ret chi2 params1, calls)
  hlt : ESR.Optim.Num.lt chi2 (ESR.Optim.Num.const ESR.Gen.Optim.finalBack.big) = true
  /- stage 2 -/
  read1 : α → ESR.Codelen.XR ℝ
  rows : List (ℝ × ℝ)
  mp : Nat
  nllIn : ESR.Codelen.XR ℝ
  fop : List (ESR.Codelen.XR ℝ) → ESR.Codelen.XR ℝ
  hread1_nll : nllIn = read1 chi2
  hread1_par : ESR.Codelen.thetaX rows = (params1.take cfg.nparam).map read1
  hLik12 : ∀ l : List α, fop (l.map read1) = read1 (nll1 l)
  hpos : ∀ r ∈ rows, 0 < r.2
  hlen : rows.length ≤ mp
  o2 : ESR.Codelen.Out (ESR.Codelen.XR ℝ)
  h2 : ESR.Codelen.postHessian ESR.Codelen.xr mp (ESR.Codelen.thetaX rows) (ESR.Codelen.fisherX rows) nllIn fop = .ok o2
  /- stage 3 -/
  read2 : ESR.Codelen.XR ℝ → ESR.Match.XR
  τ : Type
  r : ESR.Match.RowIn ESR.Match.XR τ
  nllr : ℝ
  p : List ℝ
  fish : List ℝ
  hRec : ESR.C05.Recoverable r nllr p fish
  hmp : r.nparams ≤ r.maxParam
  hsnap : (List.zipWith ESR.Match.snapR p fish).any id = true →
    r.symOk = true ∧ ∃ x : ℝ, r.reval (List.zipWith ESR.Match.snapR p fish) = ESR.Match.XR.fin x
  LikV : List ESR.Match.XR → ESR.Match.XR
  hread2_nll : r.nllU = read2 o2.nll
  hTransfer : LikV (p.map ESR.Match.XR.fin) = read2 (fop (o2.params.take rows.length))
  hReval : (List.zipWith ESR.Match.snapR p fish).any id = true → r.reval (List.zipWith ESR.Match.snapR p fish) =
    LikV (ESR.Match.zeroWhere (List.zipWith ESR.Match.snapR p fish) (p.map ESR.Match.XR.fin))
  o3 : ESR.Match.RowOut ESR.Match.XR
  h3 : ESR.Match.matchRow r = some o3
  /- stage 4 -/
  read3 : ESR.Match.XR → ESR.Rank.XR K
  hread3_nll : v.nll = read3 o3.nll
  hread3_par : v.params = o3.params.map read3
  hLik34 : ∀ l : List ESR.Match.XR, Lik v.fcn (l.map read3) = read3 (LikV (l.take r.nparams))

attribute [instance] RowChain.num RowChain.lawful

/-- **One variant row, stages 1–3 chained.**  PROVED: the row is reproducible for `Lik`.  MISSING (the fields of
`RowChain`, see there): `MinimiserSpec`, the read links between the stage files, transfer exactness, and that the
closures of the stages are one evaluator. -/
theorem variant_row_reproducible_partial (Lik : String → List (ESR.Rank.XR K) → ESR.Rank.XR K)
    (v : ESR.Rank.Row (ESR.Rank.XR K)) (c : RowChain Lik v) : Lik v.fcn v.params = v.nll := by
  -- stage 1
  have s1 : Repro c.nll1 c.cfg.nparam c.params1 c.chi2 :=
    (stage1_row_reproducible c.nll1 c.br (ESR.Optim.pre_go c.hpre).1 c.cfg c.script c.niter c.nconv c.hpre c.hMin
      c.h1 c.hn c.chi2 c.params1 c.calls c.hres c.hlt).1
  -- stage 2
  have s1' : Repro c.fop c.rows.length (ESR.Codelen.thetaX c.rows) c.nllIn := by
    unfold Repro at s1 ⊢
    have : (ESR.Codelen.thetaX c.rows).take c.rows.length = ESR.Codelen.thetaX c.rows := by
      simp [ESR.Codelen.thetaX]
    rw [this, c.hread1_par, c.hLik12, s1, c.hread1_nll]
  have s2 : Repro c.fop c.rows.length c.o2.params c.o2.nll :=
    fisher_row_reproducible c.rows c.mp c.nllIn c.fop c.hpos c.hlen c.o2 c.h2 _
      (by simp [ESR.Codelen.thetaX]) s1'
  -- stage 3
  have hU : Repro (fun l => c.read2 (c.fop l)) c.rows.length c.o2.params c.r.nllU := by
    unfold Repro at s2 ⊢
    show c.read2 (c.fop _) = _
    rw [s2, c.hread2_nll]
  obtain ⟨o, ho, _, s3⟩ := match_row_reproducible c.r c.nllr c.p c.fish c.hRec c.hmp c.hsnap
    (fun l => c.read2 (c.fop l)) c.LikV c.rows.length c.o2.params hU c.hTransfer c.hReval
  rw [c.h3] at ho
  cases ho
  -- stage 4 reads the row
  unfold Repro at s3
  rw [c.hread3_par, c.hLik34, s3, c.hread3_nll]

variable [Field K] [LinearOrder K] [IsStrictOrderedRing K] (E : K → K)
open ESR.Rank ESR.Rank.XR in
/-- **Every final row with a finite description length is reproducible — partial.**  PROVED: `combine_DL.main` only
copies (function, parameters, likelihood) of variant rows (`final_row_reproducible`), and a variant row with a
`RowChain` is reproducible (`variant_row_reproducible_partial`: C10 → C07 → C05 chained).  MISSING, as hypothesis
`hChain`: every variant row of the match table has such a provenance — i.e. `hMin : MinimiserSpec` for its unique
function's fit, the links between the stage files, transfer exactness, and that the likelihood evaluator is a function
of (function, parameters, data) only (`Lik` here, `hLik12`/`hLik34` in the chain).  Rows outside this path (parameter-free
functions, rows reset by an exception handler, a best value ≥ 1e100 returned with zero parameters, the unrecoverable
branches of match.py) are not covered. -/
theorem every_final_row_reproducible_partial (Lik : String → List (XR K) → XR K) (t : Table (XR K)) (P : Nat)
    (hP : 1 ≤ P) (out : List (FinalRow (XR K))) (h : main (ops E) t P = some out)
    (hChain : ∀ v ∈ t.rows, Nonempty (RowChain Lik v)) :
    ∀ r ∈ out, r.dl ≠ pinf → Lik r.fcn r.params = r.nll :=
  final_row_reproducible E Lik t P hP out h
    (fun v hv => (hChain v hv).elim (variant_row_reproducible_partial Lik v))

/-! non-vacuity of the composition: C10's `cfgEx` run (`(−100; −100, 10, 0, 0)`, likelihood = first parameter) read by
the Fisher stage with curvature (12, 12) (nothing snaps), transferred by the identity map, written to a one-row table -/

noncomputable def rd1 : ESR.Optim.XH → ESR.Codelen.XR ℝ
  | .fin n => .fin ((n : ℝ) / 2) | .pinf => .pinf | .ninf => .ninf | .nan => .nan
noncomputable def rd2 : ESR.Codelen.XR ℝ → ESR.Match.XR
  | .fin x => .fin x | .pinf => .pinf | .ninf => .ninf | .nan => .nan
noncomputable def rd3 : ESR.Match.XR → ESR.Rank.XR ℝ
  | .fin x => .fin x | .pinf => .pinf | .ninf => .ninf | .nan => .nan
noncomputable def cRows : List (ℝ × ℝ) := [(-100, 12), (10, 12)]
noncomputable def headC (l : List (ESR.Codelen.XR ℝ)) : ESR.Codelen.XR ℝ := l.headD (.fin 0)
noncomputable def headM (l : List ESR.Match.XR) : ESR.Match.XR := l.headD (.fin 0)
noncomputable def likR (_ : String) (l : List (ESR.Rank.XR ℝ)) : ESR.Rank.XR ℝ := l.headD (.fin 0)
noncomputable def rEx : ESR.Match.RowIn ESR.Match.XR Unit :=
  { nllU := .fin (-100), nparams := 2, maxParam := 4, chain := [ESR.Match.Entry.map ()],
    conv := .ok [.fin (-100), .fin 10] [.fin 12, .fin 12], symOk := true, reval := fun _ => .fin 0 }
noncomputable def vEx : ESR.Rank.Row (ESR.Rank.XR ℝ) :=
  ⟨.fin (-100), .fin 0, .fin 0, 0, "f", [.fin (-100), .fin 10, .fin 0, .fin 0]⟩

theorem vEx_chain : Nonempty (RowChain likR vEx) := by
  have hpos : ∀ r ∈ cRows, 0 < r.2 := by simp [cRows]
  have hlen : cRows.length ≤ 4 := by simp [cRows]
  have hin : (ESR.Codelen.XR.fin (-100) : ESR.Codelen.XR ℝ) = headC (ESR.Codelen.thetaX cRows) := by
    simp [headC, ESR.Codelen.thetaX, cRows]
  obtain ⟨o2, h2⟩ := ESR.C07.no_python_error cRows 4 (.fin (-100)) headC hpos hlen
  have hk := ESR.C07.kept_iff cRows 4 (.fin (-100)) headC hpos hlen o2 h2 (by
    rintro ⟨r, hr, hlt⟩
    exfalso
    simp only [cRows, List.mem_cons, List.not_mem_nil, or_false] at hr
    rcases hr with rfl | rfl <;> norm_num at hlt)
  have hkept : o2.kept = [true, true] := by
    rw [hk]; simp [cRows]
  have hp := (ESR.C07.params_carry_zeros cRows 4 (.fin (-100)) headC hpos hlen o2 h2).2
  rw [hkept] at hp
  have hp' : o2.params = [.fin (-100), .fin 10, .fin 0, .fin 0] := by rw [hp]; simp [cRows]
  have hn := ESR.C07.nll_at_reported cRows 4 (.fin (-100)) headC hpos hlen o2 h2 hin
  have hn' : o2.nll = .fin (-100) := by rw [hn, hp']; simp [cRows, headC]
  have hs : (List.zipWith ESR.Match.snapR [(-100 : ℝ), 10] [(12 : ℝ), 12]).any id = false := by
    simp [snapR_big (-100) (by norm_num), snapR_big 10 (by norm_num)]
  have hR : ESR.C05.Recoverable rEx (-100) [-100, 10] [12, 12] :=
    ⟨rfl, by decide, by decide, rfl, rfl, rfl, by simp⟩
  have h3 := ESR.C05.matchRow_recoverable_nosnap rEx (-100) [-100, 10] [12, 12] hR hs
  exact ⟨{
    α := ESR.Optim.XH, cfg := ESR.C10.cfgEx, script := scriptFor ESR.C10.brEx, nll1 := ESR.C10.nllEx,
    br := ESR.C10.brEx, niter := 2, nconv := 1, hpre := (by decide), hMin := scriptFor_spec _,
    h1 := (by decide), hn := (by decide), chi2 := .fin (-200), params1 := [.fin (-200), .fin 20, .fin 0, .fin 0],
    calls := 8, hres := (by decide), hlt := (by decide),
    read1 := rd1, rows := cRows, mp := 4, nllIn := .fin (-100), fop := headC,
    hread1_nll := (by simp [rd1]; norm_num),
    hread1_par := (by simp [ESR.Codelen.thetaX, cRows, rd1, ESR.C10.cfgEx]; norm_num),
    hLik12 := (by intro l; cases l <;> simp [headC, ESR.C10.nllEx, rd1]),
    hpos := hpos, hlen := hlen, o2 := o2, h2 := h2,
    read2 := rd2, τ := Unit, r := rEx, nllr := -100, p := [-100, 10], fish := [12, 12], hRec := hR,
    hmp := (by decide), hsnap := fun hc => (by rw [hs] at hc; cases hc),
    LikV := headM,
    hread2_nll := (by rw [hn']; rfl),
    hTransfer := (by rw [hp']; simp [headM, headC, cRows, rd2]),
    hReval := fun hc => (by rw [hs] at hc; cases hc),
    o3 := _, h3 := h3,
    read3 := rd3,
    hread3_nll := (by simp [vEx, rd3]),
    hread3_par := (by simp [vEx, rd3, rEx, ESR.Match.pad]),
    hLik34 := by intro l; cases l <;> simp [likR, headM, rd3, rEx] }⟩

/-- … and a table made of that row has a final row, to which the composition applies -/
example : ∃ out, ESR.Rank.main (ESR.Rank.XR.ops Real.exp) ⟨1, 4, [vEx]⟩ 1 = some out ∧
    ∀ r ∈ out, r.dl ≠ ESR.Rank.XR.pinf → likR r.fcn r.params = r.nll := by
  have hs : (ESR.Rank.main (ESR.Rank.XR.ops Real.exp) ⟨1, 4, [vEx]⟩ 1).isSome = true :=
    (ESR.C06.defined_iff _ _ _).mpr ⟨by simp, by simp⟩
  obtain ⟨out, ho⟩ := Option.isSome_iff_exists.mp hs
  refine ⟨out, ho, every_final_row_reproducible_partial Real.exp likR _ 1 (by omega) out ho ?_⟩
  intro v hv
  simp only [List.mem_singleton] at hv
  subst hv
  exact vEx_chain

end compose

end ESR.C04
