import ESRVerif.Model.NodeString
import ESRVerif.Proofs.PrinterGrammar
/-!
C02 — every library function string denotes the tree on the same line (syntactic link).

`node_to_string` output, read by the Python expression grammar, is exactly the intended call/operator structure of
the tree, for trees of any depth: nothing is lost to precedence because every operand is parenthesised.
The later links of the chain (sympy's canonicaliser, the printer, the two symbol tables) are C12's theorems and the
numeric conformance run of this check.
-/
namespace ESR.C02
open ESR.NodeString ESR.Printer

theorem opTok_phrase_term {b : BinOp} {t u a c} (hb : b = .mul ∨ b = .div)
    (ht : Phrase .atom t a) (hu : Phrase .atom u c) : Phrase .expr (t ++ opTok b :: u) (.bin b a c) := by
  rcases hb with rfl | rfl
  · exact .ofTerm (.mul ht.atomTerm hu.atomFactor)
  · exact .ofTerm (.div ht.atomTerm hu.atomFactor)

theorem binOf_cases (op : String) (b : BinOp) (h : binOf op = some b) :
    b = .add ∨ b = .sub ∨ b = .mul ∨ b = .div := by
  unfold binOf at h
  split at h <;> simp at h <;> subst h <;> simp

/-- **The string is a phrase of the Python grammar with the intended structure**, at atom-or-looser level. -/
theorem toks_phrase (t : LTree) : Phrase .expr (toks t) (toPy t) := by
  induction t with
  | name s => exact (Phrase.name s).atomExpr
  | int neg n =>
    cases neg with
    | false => simpa [toks, toPy] using (Phrase.int n).atomExpr
    | true =>
      simp only [toks, toPy, if_true, List.singleton_append]
      exact (Phrase.neg (Phrase.int n).atomFactor).factorExpr
  | un f c ih => exact (Phrase.call1 f ih).atomExpr
  | bin op l r ihl ihr =>
    simp only [toks, toPy]
    cases hi : isInfix op with
    | none => exact (Phrase.call2 op ihl ihr).atomExpr
    | some b =>
      simp only []
      have hl := Phrase.paren ihl
      have hr := Phrase.paren ihr
      have hb : binOf op = some b := by
        unfold isInfix at hi; split at hi
        · exact hi
        · simp at hi
      rcases binOf_cases op b hb with rfl | rfl | rfl | rfl
      · exact .add hl.atomExpr hr.atomTerm
      · exact .sub hl.atomExpr hr.atomTerm
      · exact opTok_phrase_term (Or.inl rfl) hl hr
      · exact opTok_phrase_term (Or.inr rfl) hl hr

/-- **Round trip.** Parsing `node_to_string` of any labelled tree returns the tree's own call/operator structure. -/
theorem nodeToString_roundtrip (t : LTree) : parse (toks t) = some (toPy t) :=
  parse_complete' (toks_phrase t)

/-- The structure is the only reading: no other Python expression has the same tokens. -/
theorem nodeToString_unambiguous (t : LTree) (a : PyAst) (h : Phrase .expr (toks t) a) : a = toPy t := by
  have h1 := parse_complete' h
  rw [nodeToString_roundtrip] at h1
  exact (Option.some.inj h1).symm

/-- two trees with the same string are the same tree, up to the labels' spelling as names: the rendering
determines the Python structure -/
theorem toPy_of_same_tokens (t u : LTree) (h : toks t = toks u) : toPy t = toPy u := by
  have ht := nodeToString_roundtrip t
  rw [h, nodeToString_roundtrip] at ht
  exact (Option.some.inj ht).symm

/-- the infix list regenerated from the source is the one the proof handles (all four have a Python operator) -/
theorem infix_table : ESR.Gen.NodeString.infixOps.all (fun o => (binOf o).isSome) = true := by decide

/-! non-vacuity -/
example : NodeString.toString (LTree.bin "+" (.un "inv" (.name "x")) (.bin "pow" (.name "a0") (.int true 1)))
    = "(inv(x))+(pow(a0,-1))" := by decide
example : parse (toks (LTree.bin "-" (.name "x") (.bin "*" (.int false 2) (.name "a0"))))
    = some (.bin .sub (.name "x") (.bin .mul (.int 2) (.name "a0"))) := by decide

end ESR.C02
