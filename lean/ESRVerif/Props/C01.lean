import ESRVerif.Model.Shape
/-!
C01 — exhaustive, duplicate-free enumeration of tree shapes (part 1: shapes).
-/
namespace ESR.C01
open ESR.Shape

/-! ### the specification: `validShape s ↔ s is the prefix arity string of a tree` -/

theorem slots_pre_append (t : Tree) (rest : List Nat) (k : Nat) :
    slots (t.pre ++ rest) (k + 1) = slots rest k := by
  induction t generalizing rest k with
  | leaf => simp [Tree.pre, slots]
  | un c ih => simp [Tree.pre, slots, ih]
  | bin l r ihl ihr =>
    simp only [Tree.pre, List.cons_append, slots, List.append_assoc]
    simp only [Nat.add_one_ne_zero, if_false, Nat.add_sub_cancel]
    rw [ihl, ihr]

theorem slots_forest_of (ts : List Tree) (rest : List Nat) (k : Nat) :
    slots (ts.flatMap Tree.pre ++ rest) (ts.length + k) = slots rest k := by
  induction ts generalizing k with
  | nil => simp
  | cons t ts ih =>
    simp only [List.flatMap_cons, List.length_cons, List.append_assoc]
    have : ts.length + 1 + k = (ts.length + k) + 1 := by omega
    rw [this, slots_pre_append, ih]

theorem forest_of_slots (s : List Nat) (h : ∀ a ∈ s, a ≤ 2) (k : Nat) (hs : slots s k = some 0) :
    ∃ ts : List Tree, ts.length = k ∧ ts.flatMap Tree.pre = s := by
  induction s generalizing k with
  | nil =>
    simp only [slots, Option.some.injEq] at hs
    exact ⟨[], by simp [hs], rfl⟩
  | cons a as ih =>
    simp only [slots] at hs
    split at hs
    · simp at hs
    · rename_i hk
      have ha : a ≤ 2 := h a (by simp)
      obtain ⟨ts, hlen, hpre⟩ := ih (fun b hb => h b (by simp [hb])) _ hs
      match a, ha, ts, hlen, hpre with
      | 0, _, ts, hlen, hpre =>
        exact ⟨Tree.leaf :: ts, by simp [hlen]; omega, by simp [Tree.pre, hpre]⟩
      | 1, _, t :: ts, hlen, hpre =>
        refine ⟨Tree.un t :: ts, by simp at hlen ⊢; omega, ?_⟩
        simp [Tree.pre] at hpre ⊢; exact hpre
      | 1, _, [], hlen, _ => simp at hlen
      | 2, _, l :: r :: ts, hlen, hpre =>
        refine ⟨Tree.bin l r :: ts, by simp at hlen ⊢; omega, ?_⟩
        simp [Tree.pre] at hpre ⊢; exact hpre
      | 2, _, [_], hlen, _ => simp at hlen
      | 2, _, [], hlen, _ => simp at hlen

/-- A string of arities ≤ 2 is accepted by the slot counter iff it is the prefix form of a tree. -/
theorem validShape_iff_tree (s : List Nat) (h : ∀ a ∈ s, a ≤ 2) :
    validShape s = true ↔ ∃ t : Tree, t.pre = s := by
  unfold validShape
  simp only [beq_iff_eq]
  constructor
  · intro hs
    obtain ⟨ts, hlen, hpre⟩ := forest_of_slots s h 1 hs
    match ts, hlen with
    | [t], _ => exact ⟨t, by simpa using hpre⟩
  · rintro ⟨t, rfl⟩
    have := slots_pre_append t [] 0
    simpa [slots] using this

theorem pre_le_two (t : Tree) : ∀ a ∈ t.pre, a ≤ 2 := by
  induction t with
  | leaf => simp [Tree.pre]
  | un c ih => simp [Tree.pre]; exact ih
  | bin l r ihl ihr =>
    simp only [Tree.pre, List.mem_cons, List.mem_append]
    rintro a (rfl | h | h)
    · omega
    · exact ihl a h
    · exact ihr a h

theorem pre_length (t : Tree) : t.pre.length = t.size := by
  induction t with
  | leaf => rfl
  | un c ih => simp [Tree.pre, Tree.size, ih]; omega
  | bin l r ihl ihr => simp [Tree.pre, Tree.size, ihl, ihr]; omega


/-! ### `check_tree` decides validity -/

theorem stepNode_stack (a i : Nat) (st st' : St) (ha : a ≤ 2) (h : stepNode a i st = some st') :
    st'.stack.length + 1 = st.stack.length + a := by
  unfold stepNode at h
  split at h
  · rename_i h12
    simp only [Option.some.injEq] at h
    subst h
    rcases h12 with rfl | rfl <;> simp
  · have ha0 : a = 0 := by omega
    subst ha0
    split at h
    · simp at h
    · rename_i j rest hst
      simp only [Option.some.injEq] at h
      subst h
      simp [hst]

theorem stepNode_none (a i : Nat) (st : St) (h : stepNode a i st = none) :
    ¬ (a = 1 ∨ a = 2) ∧ st.stack = [] := by
  unfold stepNode at h
  split at h
  · simp at h
  · rename_i h12
    split at h
    · rename_i hst; exact ⟨h12, hst⟩
    · simp at h

/-- The loop tracks the slot counter: `need = |stack| + 1`. -/
theorem loop_slots (as : List Nat) (i : Nat) (st : St) (rest : List Nat) (hrest : rest ≠ [])
    (has : ∀ a ∈ as, a ≤ 2) :
    (∀ st', loop as i st = (st', none) →
        slots (as ++ rest) (st.stack.length + 1) = slots rest (st'.stack.length + 1)) ∧
    (∀ st' j, loop as i st = (st', some j) → slots (as ++ rest) (st.stack.length + 1) = none) := by
  induction as generalizing i st with
  | nil =>
    constructor
    · intro st' h; simp only [loop, Prod.mk.injEq, and_true] at h; subst h; rfl
    · intro st' j h; simp [loop] at h
  | cons a as ih =>
    have ha : a ≤ 2 := has a (by simp)
    have has' : ∀ b ∈ as, b ≤ 2 := fun b hb => has b (by simp [hb])
    simp only [loop, List.cons_append, slots, Nat.add_one_ne_zero, if_false, Nat.add_sub_cancel]
    cases hstep : stepNode a i st with
    | none =>
      obtain ⟨h12, hst⟩ := stepNode_none a i st hstep
      have ha0 : a = 0 := by omega
      constructor
      · intro st' h; simp at h
      · intro st' j _
        subst ha0
        simp only [hst, List.length_nil, Nat.add_zero]
        cases as with
        | nil => cases rest with
          | nil => exact absurd rfl hrest
          | cons r rs => simp [slots]
        | cons b bs => simp [slots]
    | some st1 =>
      have hlen := stepNode_stack a i st st1 ha hstep
      obtain ⟨ih1, ih2⟩ := ih (i + 1) st1 has'
      have heq : st.stack.length + a = st1.stack.length + 1 := by omega
      constructor
      · intro st' h; rw [heq]; exact ih1 st' h
      · intro st' j h; rw [heq]; exact ih2 st' j h

theorem dropLast_append_getLast (s : List Nat) (hs : s ≠ []) :
    s.dropLast ++ [s.getLast?.getD 0] = s := by
  have := List.dropLast_concat_getLast hs
  rw [List.getLast?_eq_some_getLast hs]
  simpa using this

/-- For strings of length ≥ 2 starting with a unary/binary node, `check_tree` succeeds iff the string is valid. -/
theorem checkTree_success (s : List Nat) (h : ∀ a ∈ s, a ≤ 2) (hlen : 2 ≤ s.length)
    (hhead : s.head? = some 1 ∨ s.head? = some 2) :
    (checkTree s).success = validShape s := by
  have hne : s ≠ [] := by intro h0; subst h0; simp at hlen
  have hsplit := dropLast_append_getLast s hne
  have hlast : s.getLast?.getD 0 ≤ 2 := by
    cases hl : s.getLast? with
    | none => simp
    | some a => simpa using h a (List.mem_of_getLast? hl)
  have hdl : ∀ a ∈ s.dropLast, a ≤ 2 := fun a ha => h a (List.dropLast_subset s ha)
  unfold checkTree validShape
  have h1 : ¬ s.length ≤ 1 := by omega
  have h2 : ¬ (s.head? ≠ some 1 ∧ s.head? ≠ some 2) := by
    rcases hhead with hh | hh <;> simp [hh]
  simp only [h1, h2, if_false, checkTreeMain]
  obtain ⟨l1, l2⟩ := loop_slots s.dropLast 0 (initSt s.length) [s.getLast?.getD 0] (by simp) hdl
  rw [hsplit] at l1 l2
  simp only [initSt, List.length_nil, Nat.zero_add] at l1 l2
  cases hloop : loop s.dropLast 0 (initSt s.length) with
  | mk st brk =>
    cases brk with
    | some j =>
      have := l2 st j hloop
      simp [Result.success, this]
    | none =>
      have := l1 st hloop
      simp only [Result.success, this, slots, Nat.add_one_ne_zero, if_false, Nat.add_sub_cancel]
      generalize s.getLast?.getD 0 = last at hlast ⊢
      cases hst : st.stack with
      | nil => match last, hlast with
        | 0, _ => simp
        | 1, _ => simp
        | 2, _ => simp
      | cons x xs => match last, hlast with
        | 0, _ => simp
        | 1, _ => simp
        | 2, _ => simp

/-! ### failed-prefix pruning is sound -/

theorem loop_break_prefix (as : List Nat) (i : Nat) (st st' : St) (j : Nat)
    (h : loop as i st = (st', some j)) :
    i ≤ j ∧ j - i < as.length ∧
    ∀ bs : List Nat, bs.take (j - i + 1) = as.take (j - i + 1) → loop bs i st = (st', some j) := by
  induction as generalizing i st with
  | nil => simp [loop] at h
  | cons a as ih =>
    simp only [loop] at h
    cases hstep : stepNode a i st with
    | none =>
      simp only [hstep, Prod.mk.injEq, Option.some.injEq] at h
      obtain ⟨rfl, rfl⟩ := h
      refine ⟨Nat.le_refl _, by simp, ?_⟩
      intro bs hbs
      simp only [Nat.sub_self, Nat.zero_add, List.take_succ_cons, List.take_zero] at hbs
      cases bs with
      | nil => simp at hbs
      | cons b bs =>
        simp only [List.take_succ_cons, List.take_zero, List.cons.injEq, and_true] at hbs
        subst hbs
        simp [loop, hstep]
    | some st1 =>
      simp only [hstep] at h
      obtain ⟨hle, hlt, hall⟩ := ih (i + 1) st1 h
      refine ⟨by omega, by simp; omega, ?_⟩
      intro bs hbs
      have hji : j - i + 1 = (j - (i + 1) + 1) + 1 := by omega
      rw [hji] at hbs
      cases bs with
      | nil => simp at hbs
      | cons b bs =>
        simp only [List.take_succ_cons, List.cons.injEq] at hbs
        obtain ⟨rfl, hbs⟩ := hbs
        simp only [loop, hstep]
        exact hall bs hbs

/-- If `check_tree s` fails reporting prefix `p`, every string of the same length that starts with `p` fails too. -/
theorem checkTree_fail_prefix (s s' p : List Nat) (pa le ri : List (Option Nat))
    (hs : checkTree s = .ok false (some p) pa le ri) (hp : p <+: s') (hlen : s'.length = s.length) :
    (checkTree s').success = false := by
  unfold checkTree at hs
  split at hs
  · simp at hs
  · rename_i hn1
    split at hs
    · simp at hs
    · rename_i hhead
      unfold checkTreeMain at hs
      cases hloop : loop s.dropLast 0 (initSt s.length) with
      | mk st brk =>
        simp only [hloop] at hs
        cases brk with
        | none =>
          simp only [Result.ok.injEq, Option.some.injEq] at hs
          obtain ⟨hsucc, rfl, _⟩ := hs
          have : s' = s := by
            obtain ⟨t, rfl⟩ := hp
            have : t = [] := by
              rw [List.length_append] at hlen
              exact List.eq_nil_of_length_eq_zero (by omega)
            simp [this]
          subst this
          unfold checkTree checkTreeMain
          simp only [hn1, hhead, if_false, hloop, Result.success]
          exact hsucc
        | some j =>
          simp only [Result.ok.injEq, Option.some.injEq] at hs
          obtain ⟨_, rfl, _⟩ := hs
          obtain ⟨_, hlt, hall⟩ := loop_break_prefix _ _ _ _ _ hloop
          simp only [Nat.sub_zero, List.length_dropLast] at hlt hall
          -- s' agrees with s on the first j+2 entries
          have htake : s'.take (j + 2) = s.take (j + 2) := by
            obtain ⟨t, rfl⟩ := hp
            have hl : (s.take (j + 2)).length = j + 2 := by simp; omega
            rw [List.take_append_of_le_length (by omega), List.take_of_length_le (by omega)]
          have hdl : s'.dropLast.take (j + 1) = s.dropLast.take (j + 1) := by
            rw [List.dropLast_eq_take, List.dropLast_eq_take, List.take_take, List.take_take]
            have e1 : min (j + 1) (s'.length - 1) = j + 1 := by omega
            have e2 : min (j + 1) (s.length - 1) = j + 1 := by omega
            rw [e1, e2]
            have := congrArg (List.take (j + 1)) htake
            simpa [List.take_take] using this
          have hloop' := hall s'.dropLast hdl
          have hhead' : s'.head? = s.head? := by
            have := congrArg List.head? htake
            simpa [List.head?_take] using this
          unfold checkTree checkTreeMain
          rw [hlen, hhead']
          simp only [hn1, hhead, if_false, hloop', Result.success]


/-! ### `get_allowed_shapes` returns exactly the valid shapes, in lexicographic order, once each -/

theorem mem_product {α} (al : List α) (n : Nat) (s : List α) :
    s ∈ product al n ↔ s.length = n ∧ ∀ a ∈ s, a ∈ al := by
  induction n generalizing s with
  | zero =>
    simp only [product, List.mem_singleton]
    constructor
    · rintro rfl; simp
    · rintro ⟨h, _⟩; exact List.eq_nil_of_length_eq_zero h
  | succ n ih =>
    simp only [product, List.mem_flatMap, List.mem_map]
    constructor
    · rintro ⟨a, ha, t, ht, rfl⟩
      obtain ⟨hl, hm⟩ := (ih t).mp ht
      refine ⟨by simp [hl], ?_⟩
      intro b hb
      rcases List.mem_cons.mp hb with rfl | hb
      · exact ha
      · exact hm b hb
    · rintro ⟨hl, hm⟩
      cases s with
      | nil => simp at hl
      | cons a t =>
        refine ⟨a, hm a (by simp), t, (ih t).mpr ⟨by simpa using hl, fun b hb => hm b (by simp [hb])⟩, rfl⟩

theorem product_nodup {α} (al : List α) (hal : al.Nodup) (n : Nat) : (product al n).Nodup := by
  induction n with
  | zero => simp [product]
  | succ n ih =>
    simp only [product]
    unfold List.Nodup
    rw [List.pairwise_flatMap]
    constructor
    · intro a _
      exact List.Pairwise.map _ (fun x y hxy h => hxy (by simpa using h)) ih
    · apply List.Pairwise.imp _ hal
      intro a b hab x hx y hy hxy
      simp only [List.mem_map] at hx hy
      obtain ⟨t, _, rfl⟩ := hx
      obtain ⟨t', _, rfl⟩ := hy
      simp only [List.cons.injEq] at hxy
      exact hab hxy.1

theorem slots_append (xs ys : List Nat) (k : Nat) : slots (xs ++ ys) k = (slots xs k).bind (slots ys) := by
  induction xs generalizing k with
  | nil => simp [slots]
  | cons a as ih =>
    simp only [List.cons_append, slots]
    split
    · simp
    · exact ih _

/-- The extracted pre-filter rules are the three the proof was written for. -/
theorem prefilters_expected : ESR.Gen.Shape.prefilters =
    [⟨1, .first, true, 0⟩, ⟨0, .last, false, 0⟩, ⟨1, .penult, true, 2⟩] := by decide

/-- Every pre-filter rule is a necessary condition for being a tree: the rules remove no valid shape. -/
theorem prefilters_necessary (s : List Nat) (hv : validShape s = true) :
    ESR.Gen.Shape.prefilters.all (fun r => Prefilter.holds r s) = true := by
  rw [prefilters_expected]
  unfold validShape at hv
  simp only [beq_iff_eq] at hv
  simp only [List.all_cons, List.all_nil, Bool.and_true, Bool.and_eq_true]
  refine ⟨?_, ?_, ?_⟩
  · -- first node is not nullary when len > 1
    unfold Prefilter.holds
    split
    · rename_i hl
      cases s with
      | nil => simp at hl
      | cons a as =>
        cases as with
        | nil => simp at hl
        | cons b bs =>
          simp only [List.head?_cons]
          cases a with
          | zero => simp [slots] at hv
          | succ a => simp
    · rfl
  · -- last node is nullary
    unfold Prefilter.holds
    split
    · have hrev : s = s.reverse.reverse := by simp
      cases hr : s.reverse with
      | nil => simp [hr] at hrev; subst hrev; simp [slots] at hv
      | cons l r =>
        rw [hr] at hrev
        simp only [List.reverse_cons] at hrev
        rw [hrev, slots_append] at hv
        simp only [List.head?_cons]
        cases hk : slots r.reverse 1 with
        | none => simp [hk] at hv
        | some k =>
          simp only [hk, Option.bind_some, slots] at hv
          split at hv
          · simp at hv
          · simp only [Option.some.injEq] at hv
            have : l = 0 := by omega
            simp [this]
    · rfl
  · -- penultimate node is not binary
    unfold Prefilter.holds
    split
    · rename_i hl
      have hrev : s = s.reverse.reverse := by simp
      cases hr : s.reverse with
      | nil => simp [hr] at hrev; subst hrev; simp at hl
      | cons l r =>
        cases r with
        | nil => rw [hr] at hrev; simp at hrev; subst hrev; simp at hl
        | cons p r =>
          rw [hr] at hrev
          simp only [List.reverse_cons, List.append_assoc, List.cons_append, List.nil_append] at hrev
          rw [hrev, slots_append] at hv
          simp only [List.tail_cons, List.head?_cons]
          cases hk : slots r.reverse 1 with
          | none => simp [hk] at hv
          | some k =>
            simp only [hk, Option.bind_some, slots] at hv
            split at hv
            · simp at hv
            · split at hv
              · simp at hv
              · simp only [Option.some.injEq] at hv
                have : p ≠ 2 := by omega
                simp [this]
    · rfl

theorem checkTree_part (s : List Nat) (hlen : 2 ≤ s.length)
    (hhead : s.head? = some 1 ∨ s.head? = some 2) :
    ∃ b p pa le ri, checkTree s = .ok b (some p) pa le ri ∧ p <+: s := by
  unfold checkTree
  have h1 : ¬ s.length ≤ 1 := by omega
  have h2 : ¬ (s.head? ≠ some 1 ∧ s.head? ≠ some 2) := by
    rcases hhead with hh | hh <;> simp [hh]
  simp only [h1, h2, if_false, checkTreeMain]
  cases loop s.dropLast 0 (initSt s.length) with
  | mk st brk =>
    cases brk with
    | some j => exact ⟨_, _, _, _, _, rfl, List.take_prefix _ _⟩
    | none => exact ⟨_, _, _, _, _, rfl, List.prefix_refl _⟩

theorem prefiltered_props (n : Nat) (hn : 2 ≤ n) (s : List Nat) (hs : s ∈ prefiltered n) :
    s.length = n ∧ (∀ a ∈ s, a ≤ 2) ∧ (s.head? = some 1 ∨ s.head? = some 2) := by
  unfold prefiltered at hs
  rw [List.mem_filter] at hs
  obtain ⟨hp, hf⟩ := hs
  obtain ⟨hl, hm⟩ := (mem_product _ _ _).mp hp
  have hle : ∀ a ∈ s, a ≤ 2 := by
    intro a ha
    have := hm a ha
    simp at this; omega
  refine ⟨hl, hle, ?_⟩
  rw [prefilters_expected] at hf
  simp only [List.all_cons, List.all_nil, Bool.and_true, Bool.and_eq_true] at hf
  have hf1 := hf.1
  unfold Prefilter.holds at hf1
  have : s.length > 1 := by omega
  simp only [this, if_true] at hf1
  cases s with
  | nil => simp at hl; omega
  | cons a as =>
    have ha := hle a (by simp)
    simp only [List.head?_cons, Option.some.injEq] at hf1 ⊢
    simp at hf1
    omega

/-- **Shapes.** `get_allowed_shapes(n)` is, as a list, the lexicographic enumeration of all arity strings
of length `n` filtered by tree validity: nothing missing, nothing extra, same order. -/
theorem allowedShapes_eq (n : Nat) (hn : 1 ≤ n) :
    allowedShapes n = (product [0, 1, 2] n).filter validShape := by
  rcases Nat.lt_or_ge n 2 with h1 | h2
  · have : n = 1 := by omega
    subst this; decide
  · unfold allowedShapes
    simp only []
    have key : ∀ s ∈ prefiltered n,
        (!((failedParts (prefiltered n)).any (fun p => p.isPrefixOf s))) = validShape s := by
      intro s hs
      obtain ⟨hl, hle, hhead⟩ := prefiltered_props n h2 s hs
      have hsucc := checkTree_success s hle (by omega) hhead
      cases hv : validShape s with
      | true =>
        simp only [Bool.not_eq_true', List.any_eq_false]
        intro p hp
        unfold failedParts at hp
        rw [List.mem_filterMap] at hp
        obtain ⟨s0, hs0, hm⟩ := hp
        split at hm
        · rename_i p' pa le ri hct
          simp only [Option.some.injEq] at hm
          subst hm
          intro hpre
          have hlen0 := (prefiltered_props n h2 s0 hs0).1
          have := checkTree_fail_prefix s0 s p' pa le ri hct (List.isPrefixOf_iff_prefix.mp hpre) (by omega)
          rw [hsucc, hv] at this
          exact absurd this (by simp)
        · simp at hm
      | false =>
        simp only [Bool.not_eq_false', List.any_eq_true]
        obtain ⟨b, p, pa, le, ri, hct, hpre⟩ := checkTree_part s (by omega) hhead
        have hb : b = false := by
          have : (checkTree s).success = b := by rw [hct]; rfl
          rw [← this, hsucc, hv]
        subst hb
        refine ⟨p, ?_, List.isPrefixOf_iff_prefix.mpr hpre⟩
        unfold failedParts
        rw [List.mem_filterMap]
        exact ⟨s, hs, by rw [hct]⟩
    rw [List.filter_congr key]
    unfold prefiltered
    rw [List.filter_filter]
    apply List.filter_congr
    intro s _
    cases hv : validShape s with
    | false => simp
    | true => simp [prefilters_necessary s hv]

/-- Membership form: a string is returned iff it has `n` entries and is the prefix form of a tree. -/
theorem mem_allowedShapes (n : Nat) (hn : 1 ≤ n) (s : List Nat) :
    s ∈ allowedShapes n ↔ s.length = n ∧ ∃ t : Tree, t.pre = s := by
  rw [allowedShapes_eq n hn, List.mem_filter, mem_product]
  constructor
  · rintro ⟨⟨hl, hm⟩, hv⟩
    have hle : ∀ a ∈ s, a ≤ 2 := by
      intro a ha; have := hm a ha; simp at this; omega
    exact ⟨hl, (validShape_iff_tree s hle).mp hv⟩
  · rintro ⟨hl, t, rfl⟩
    have hle := pre_le_two t
    refine ⟨⟨hl, ?_⟩, (validShape_iff_tree _ hle).mpr ⟨t, rfl⟩⟩
    intro a ha
    have := hle a ha
    simp; omega

/-- No shape is returned twice. -/
theorem allowedShapes_nodup (n : Nat) (hn : 1 ≤ n) : (allowedShapes n).Nodup := by
  rw [allowedShapes_eq n hn]
  exact List.Pairwise.filter _ (product_nodup _ (by decide) n)

/-- Every tree with `n` nodes has its shape in the list, exactly once. -/
theorem every_tree_once (t : Tree) : (allowedShapes t.size).count t.pre = 1 := by
  have hn : 1 ≤ t.size := by cases t <;> simp [Tree.size] <;> omega
  have hmem : t.pre ∈ allowedShapes t.size :=
    (mem_allowedShapes _ hn _).mpr ⟨pre_length t, t, rfl⟩
  rw [(allowedShapes_nodup _ hn).count]; simp [hmem]

/-! ### non-vacuity / sanity -/
example : allowedShapes 4 = [[1,1,1,0],[1,2,0,0],[2,0,1,0],[2,1,0,0]] := by decide
example : (allowedShapes 5).length = 9 ∧ (allowedShapes 6).length = 21 := by decide
example : (checkTree [2,0,0,0]).success = false ∧ (checkTree [2,0,0,0]).part = some [2,0,0,0] := by decide
example : (checkTree [1,0,0,0]).part = some [1,0,0] := by decide
example : validShape (Tree.bin (Tree.un .leaf) (Tree.bin .leaf .leaf)).pre = true := by decide

end ESR.C01
