import ESRVerif.Model.RewriteDriver
import ESRVerif.Proofs.RewriteDriver
import ESRVerif.Proofs.RewriteSums
import ESRVerif.Props.C11
/-!
C11 (continued) — the fixed-point driver `find_additional_trees` (generator.py l.1398-1488) over abstract
rewriters and an abstract cross-check oracle (`ESRVerif/Model/RewriteDriver.lean`, compared with the REAL driver
running over PRNG-scripted rewriters on every check run).

What the code guarantees, for ALL rewriters `rw1` (`update_tree`), `rw2` (`update_sums`), oracles `acc` (sympy
cross-check) and inputs:
* `driver_outputs_from_rewriters` — every emitted tree is reachable from the input by rewriter candidates, the
  phase-2 ones having passed the cross-check for the very tree they were derived from; the first one is the input;
* `driver_phase_order` — what phase 1 emitted is reachable by phase-1 steps alone and is a prefix of the result
  (`update_tree` is never applied to a sum rewrite);
* `driver_no_duplicates` — no label list is emitted twice (the code does guarantee this: `L not in new_labels` is
  evaluated against the growing list before every append);
* `driver_terminates` — if every reachable label list lies in a finite list `U`, each `while` loop makes at most
  `|U| + 1` passes (`fuel` = passes allowed): the de-duplicating worklist cannot run forever in a finite universe.
  NO measure that strictly decreases is evident from the code for phase 2 (`update_sums` rewrites `2*A + B` to
  `B + 2*A` and back; only the de-duplication stops that), hence the finite-universe form;
* `phase1_terminates_of_measure`, `phase1_terminates_updateTree` — for phase 1 the finite universe is COMPUTED from a
  decreasing measure and a bound on the useful try indices; instantiated with the list-level model of `update_tree`
  and `powCount` (`updateTree_decreases`).

`update_sums` (l.983-1395) is ported statement by statement in `ESRVerif/Model/RewriteSums.lean` (every branch; compared
with the real function on every call the real driver makes and on PRNG sum-centred trees with integer literals):
* `updateSums_alphabet` — labels of every candidate: input labels, `* + - 0 -1`, integer literals;
* `updateSums_sizes_bounded_partial` — plus a bound on the candidate's length by a function of the input length alone.
-/
namespace ESR.C11b
open ESR.Rewrite ESR.Rewrite.Drv ESR.Rewrite.UT

/-- **Every emitted tree comes from the rewriters.**  Whatever `update_tree`, `update_sums` and the sympy
cross-check do: each (labels, shape) the driver returns is the input or is obtained from it by a chain of candidates —
first of `rw1` only, then of `rw2`, each phase-2 candidate accepted by the oracle for the tree it was derived from — and
the first returned entry is the input itself. -/
theorem driver_outputs_from_rewriters (rw1 rw2 : Rewriter) (acc : Oracle) (fuel : Nat) (inp : Cand)
    (out : List Cand) (h : findAdditional rw1 rw2 acc fuel inp = .ok out) :
    (∀ c ∈ out, R2 rw1 rw2 acc inp c) ∧ [inp] <+: out := by
  obtain ⟨st1, st2, h1, h2, rfl⟩ := findAdditional_ok rw1 rw2 acc fuel inp out h
  have p1 := phase1_inv rw1 acc fuel inp st1 h1
  have p2 := phase2_inv rw1 rw2 acc fuel inp st1 st2 h1 h2
  exact ⟨p2.1.mem, List.IsPrefix.trans p1.2 p2.2⟩

/-- **Order of the two phases.**  The entries phase 1 emitted are reachable by `rw1` steps alone and form a prefix
of the final result: phase 2 only appends, and `rw1` is never applied to what phase 2 produced. -/
theorem driver_phase_order (rw1 rw2 : Rewriter) (acc : Oracle) (fuel : Nat) (inp : Cand)
    (out : List Cand) (h : findAdditional rw1 rw2 acc fuel inp = .ok out) :
    ∃ st1, phase1 rw1 acc fuel inp = .ok st1 ∧ (∀ c ∈ cands st1, R1 rw1 inp c) ∧ cands st1 <+: out := by
  obtain ⟨st1, st2, h1, h2, rfl⟩ := findAdditional_ok rw1 rw2 acc fuel inp out h
  exact ⟨st1, h1, (phase1_inv rw1 acc fuel inp st1 h1).1.mem, (phase2_inv rw1 rw2 acc fuel inp st1 st2 h1 h2).2⟩

/-- **No label list is emitted twice** (for any rewriters and oracle): the de-duplication test compares the
candidate's label list with every label list emitted so far, including those appended earlier in the same pass. -/
theorem driver_no_duplicates (rw1 rw2 : Rewriter) (acc : Oracle) (fuel : Nat) (inp : Cand)
    (out : List Cand) (h : findAdditional rw1 rw2 acc fuel inp = .ok out) :
    (out.map Prod.fst).Nodup := by
  obtain ⟨st1, st2, h1, h2, rfl⟩ := findAdditional_ok rw1 rw2 acc fuel inp out h
  exact (phase2_inv rw1 rw2 acc fuel inp st1 st2 h1 h2).1.nodup

/-- **Termination in a finite universe.**  Hypothesis (decidable for a finite `U` and rewriters with finitely many
useful try indices): every label list reachable from the input through rewriter candidates — phase-2 candidates only
if accepted — belongs to the list `U`.  Then `|U| + 2` units of fuel (= passes allowed per `while` loop, the last
pass being the one that adds nothing) are never exhausted: the driver returns or raises.  Neither the rewriters nor
the oracle need to terminate "by themselves" in any other sense; a rewriter that raises ends the driver too. -/
theorem driver_terminates (rw1 rw2 : Rewriter) (acc : Oracle) (inp : Cand) (U : List (List String))
    (hU : ∀ c, R2 rw1 rw2 acc inp c → c.1 ∈ U) (fuel : Nat) (hf : U.length + 2 ≤ fuel) :
    findAdditional rw1 rw2 acc fuel inp ≠ .fuel := by
  have hU1 : ∀ c, R1 rw1 inp c → c.1 ∈ U := fun c hc => hU c (.base hc)
  have n1 : phase1 rw1 acc fuel inp ≠ .fuel :=
    whileLoop_ne_fuel false rw1 acc (R1 rw1 inp) (R1_closed rw1 acc inp) U hU1 fuel 0 _
      (inv_singleton _ inp .root) (Nat.zero_le _) (by omega)
  unfold findAdditional
  split
  · rename_i st1 h1
    have i1 := (phase1_inv rw1 acc fuel inp st1 h1).1
    have i1' : Inv (R2 rw1 rw2 acc inp) (cands (resetTry st1)) := by
      rw [cands_resetTry]; exact ⟨fun c hc => .base (i1.mem c hc), i1.nodup⟩
    have n2 := whileLoop_ne_fuel true rw2 acc (R2 rw1 rw2 acc inp) (R2_closed rw1 rw2 acc inp) U hU fuel 0 _
      i1' (Nat.zero_le _) (by omega)
    split <;> simp_all
  · simp
  · simp
  · rename_i h; exact absurd h n1

/-- more fuel does not change a normal result: the value computed with enough fuel is THE result of the driver -/
theorem driver_fuel_irrelevant (rw1 rw2 : Rewriter) (acc : Oracle) (fuel : Nat) (inp : Cand) (out : List Cand)
    (h : findAdditional rw1 rw2 acc fuel inp = .ok out) :
    findAdditional rw1 rw2 acc (fuel + 1) inp = .ok out := by
  obtain ⟨st1, st2, h1, h2, rfl⟩ := findAdditional_ok rw1 rw2 acc fuel inp out h
  have e1 := whileLoop_fuel_mono false rw1 acc fuel 0 _ st1 h1
  have e2 := whileLoop_fuel_mono true rw2 acc fuel 0 _ st2 h2
  unfold findAdditional phase1
  rw [e1]; simp only []; rw [e2]; rfl

/-- **Phase 1 terminates when a measure drops and the useful try indices are bounded** — the finite universe is the
computed `closure`: hypotheses on the trees reachable from the input only. -/
theorem phase1_terminates_of_measure (rw1 : Rewriter) (acc : Oracle) (inp : Cand)
    (W : List String → Nat) (μ : List String → Nat)
    (hW : ∀ p, R1 rw1 inp p → ∀ k, W p.1 ≤ k → candsOf (rw1 p.1 p.2 k) = [])
    (hμ : ∀ p, R1 rw1 inp p → ∀ k c, c ∈ candsOf (rw1 p.1 p.2 k) → μ c.1 < μ p.1)
    (fuel : Nat) (hf : (closure rw1 W (μ inp.1) [inp]).length + 2 ≤ fuel) :
    phase1 rw1 acc fuel inp ≠ .fuel := by
  let U := (closure rw1 W (μ inp.1) [inp]).map Prod.fst
  have hU : ∀ c, R1 rw1 inp c → c.1 ∈ U := fun c hc =>
    List.mem_map_of_mem (reach_in_closure rw1 W μ inp hW hμ c hc)
  exact whileLoop_ne_fuel false rw1 acc (R1 rw1 inp) (R1_closed rw1 acc inp) U hU fuel 0 _
    (inv_singleton _ inp .root) (Nat.zero_le _) (by simpa [U] using hf)

/-- **Phase 1 over the model of the real `update_tree` terminates**, within `|closure| + 1` passes, provided the
trees reachable from the input keep pow-set labels and `log_abs` on unary nodes (`Consistent`, evaluated on every real
`update_tree` call by the check: `corr:consistent`).  The measure is `powCount`, the try-index bound `len(labels)`. -/
theorem phase1_terminates_updateTree (B : Basis) (acc : Oracle) (inp : Cand)
    (hcons : ∀ p, R1 (fun L S k => updateTree L S k B) inp p → Consistent p.1 p.2)
    (fuel : Nat)
    (hf : (closure (fun L S k => updateTree L S k B) List.length (powCount inp.1) [inp]).length + 2 ≤ fuel) :
    phase1 (fun L S k => updateTree L S k B) acc fuel inp ≠ .fuel :=
  phase1_terminates_of_measure _ acc inp List.length powCount
    (fun p _ k hk => updateTree_none_of_ge p.1 p.2 k B hk)
    (fun p hp k c hc => by
      rw [candsOf_eq] at hc
      exact updateTree_decreases p.1 p.2 k B (hcons p hp) c hc)
    fuel hf


/-! ### `update_sums` -/

/-- **Alphabet of `update_sums`.**  Every label of every candidate the list-level model of `update_sums` returns
— any tree, any `try_idx`, any basis, all branches of l.1148-1382 — is a label of the input, one of the five constants
the function writes (`*`, `+`, `-`, `0`, `-1`), or `str(k)` for an integer `k` (a collected multiplicity). -/
theorem updateSums_alphabet (L : List String) (S : List Nat) (k : Nat) (B : Basis) :
    ∀ c ∈ (US.updateSums L S k B).cands, ∀ l ∈ c.1, l ∈ L ∨ l ∈ US.consts ∨ ∃ z : Int, l = istr z :=
  fun c hc => US.updateSums_alphabet L S k B c hc

/-- **Sizes of `update_sums` outputs are bounded by the input** — alphabet as above and at most
`len + (len + 1)(2 len + 3)` labels, `len = len(labels)` (at most `len` distinct terms, each contributing at most two
slices of the input and `* k`).  So ONE step from a given tree has finitely many possible results up to the value of
the integer literals.
`_partial`, the stated gap to the hypothesis `hU` of `driver_terminates` for phase 2:
(1) this is a bound PER STEP; phase 2 re-feeds its outputs, and neither the length nor the literals are bounded along
a chain by this theorem (no constant works per step either: `(2*(x+(a0+a1))) + x` ↦ `(3*x + 2*a1) + 2*a0`, 9 ↦ 11
labels, see the example below; with `m` distinct terms under a product the growth is `2(m-2)`);
(2) it speaks about the model: on a tree violating the model's precondition (valid shape, `+ - * /` on binary nodes)
the model answers `unported` and the theorem says nothing — the check counts these calls (0 of all real calls).
The finite universe of phase 2 therefore stays a hypothesis; the check records, for every real run, that the driver
returned (time bound) and the largest length growth observed. -/
theorem updateSums_sizes_bounded_partial (L : List String) (S : List Nat) (k : Nat) (B : Basis) :
    ∀ c ∈ (US.updateSums L S k B).cands,
      (∀ l ∈ c.1, l ∈ L ∨ l ∈ US.consts ∨ ∃ z : Int, l = istr z) ∧
      c.1.length ≤ L.length + (L.length + 1) * (2 * L.length + 3) :=
  fun c hc => ⟨US.updateSums_alphabet L S k B c hc, US.updateSums_length L S k B c hc⟩

/-- `x + x` ↦ `2*x`; `(x + a0) - x` ↦ `a0` (twice: once per distinct term; the driver de-duplicates);
a sum without repeated terms ↦ `([], [], 0)` -/
example : US.updateSums ["+", "x", "x"] [2, 0, 0] 0 C11.kd = .out (.one ["*", "2", "x"] [2, 0, 0]) := by decide +kernel
example : US.updateSums ["-", "+", "x", "a0", "x"] [2, 2, 0, 0, 0] 0 C11.kd
    = .out (.many [(["a0"], [0]), (["a0"], [0])]) := by decide +kernel
example : US.updateSums ["+", "x", "a0"] [2, 0, 0] 0 C11.kd = .out (.many []) := by decide +kernel
/-- no constant bounds the growth of one step: 9 labels ↦ 11 labels -/
example : US.updateSums ["+", "*", "2", "+", "x", "+", "a0", "a1", "x"] [2, 2, 0, 2, 0, 2, 0, 0, 0] 0 C11.kd
    = .out (.many [(["+", "+", "*", "3", "x", "*", "2", "a1", "*", "2", "a0"], [2, 2, 2, 0, 0, 2, 0, 0, 2, 0, 0]),
                   (["+", "+", "*", "2", "a0", "*", "2", "a1", "*", "3", "x"], [2, 2, 2, 0, 0, 2, 0, 0, 2, 0, 0]),
                   (["+", "+", "*", "2", "a1", "*", "2", "a0", "*", "3", "x"], [2, 2, 2, 0, 0, 2, 0, 0, 2, 0, 0])]) := by
  decide +kernel
/-- no strictly decreasing measure for phase 2: `2*x + a0` ↦ `a0 + 2*x` ↦ `2*x + a0` (stopped only by de-duplication) -/
example : (["+", "a0", "*", "2", "x"], [2, 0, 2, 0, 0]) ∈ (US.updateSums ["+", "*", "2", "x", "a0"] [2, 2, 0, 0, 0] 0 C11.kd).cands ∧
    (["+", "*", "2", "x", "a0"], [2, 2, 0, 0, 0]) ∈ (US.updateSums ["+", "a0", "*", "2", "x"] [2, 0, 2, 0, 0] 0 C11.kd).cands := by
  decide +kernel

/-! ### the scripts of the correspondence satisfy the hypothesis of `driver_terminates` -/

/-- every scripted run of the correspondence harness is inside the finite universe `[] :: labels of the script`, so
`driver_terminates` applies to it: with `|universe| + 3` units of fuel the model never runs out (the real driver is
held to the same number of passes by the property oracle of the check). -/
theorem script_run_terminates (s : Script) (root fuel : Nat) (hf : s.univ.length + 3 ≤ fuel) :
    s.run fuel root ≠ .fuel := by
  unfold Script.run
  apply driver_terminates _ _ _ _ ([] :: s.univ.map Prod.fst) _ fuel (by simpa using hf)
  intro c hc
  induction hc with
  | base h1 =>
    induction h1 with
    | root => exact script_cand_mem s root
    | step k _ hc _ => exact script_rewriter_mem s _ _ _ k _ hc
  | step k _ hc _ _ => exact script_rewriter_mem s _ _ _ k _ hc

/-! ### non-vacuity -/

/-- a three-tree script: `x+x` is rewritten to `2*x` by the sum phase; the candidate `x` is refused by the
cross-check; `2*x` offers `x+x` again (a cycle), stopped by the de-duplication -/
def demo : Script :=
  ⟨[(["+", "x", "x"], [2, 0, 0]), (["*", "2", "x"], [2, 0, 0]), (["x"], [0])],
   [], [((0, 0), .many [1, 2]), ((1, 0), .one 0)], [(0, 2)]⟩

example : demo.run 6 0 = .ok [(["+", "x", "x"], [2, 0, 0]), (["*", "2", "x"], [2, 0, 0])] := by decide +kernel
-- too little fuel is reported as such, never as a result
example : demo.run 1 0 = .fuel := by decide +kernel
-- without the refusal the third tree is emitted as well
example : ({ demo with reject := [] } : Script).run 6 0
    = .ok [(["+", "x", "x"], [2, 0, 0]), (["*", "2", "x"], [2, 0, 0]), (["x"], [0])] := by decide +kernel

/-- phase 1 over the model of the real `update_tree`: `log_abs(sqrt_abs(inv x))` → `(log_abs x) / -2`, then nothing -/
example : phase1 (fun L S k => updateTree L S k C11.kd) (fun _ _ => true) 4
      (["log_abs", "sqrt_abs", "inv", "x"], [1, 1, 1, 0])
    = .ok [⟨["log_abs", "sqrt_abs", "inv", "x"], [1, 1, 1, 0], 2⟩, ⟨["/", "log_abs", "x", "-2"], [2, 1, 0, 0], 1⟩] := by
  decide +kernel

end ESR.C11b
