import ESRVerif.Proofs.NLL
import ESRVerif.Generated.NLL
/-!
C09 — likelihood classes compute the documented negative log-likelihood, never NaN.

Every theorem is about `ESR.Gen.NLL.{cc,mock,mse,gauss,poisson}`: the bodies of the five `negloglike`
methods (with the `get_pred` each class resolves to, and for CC/Mock the `inv_cov` initialiser)
as *regenerated from esr/fitting/likelihood.py on this run*, interpreted by `ESR.NLL.run` over
`V = Val ℝ` (`real r | pinf | ninf | nan | cplx`, IEEE propagation, exact finite arithmetic).

`cplx` marks an element with NON-ZERO IMAGINARY PART — exactly what `np.isreal` tests
(`imag == 0`).  A complex-dtype value whose imaginary part is zero is not a `cplx`; such
predictions are outside the property statement (covered by the float correspondence only).

What `eq_numpy(x,*a)` does is a black box `Env.call`: it raised, returned a scalar, or returned a
vector.  Data vectors and a vector prediction have one common length: they are the columns of one
list of rows (any equal-length vectors arise this way).
-/
namespace ESR.C09
open ESR.NLL ESR.NLL.Val ESR.Gen.NLL

/-! ### environments -/

/-- One data point with finite real entries: observation, error bar, model value `eq_numpy(x_i,*a)`. -/
structure Row where
  y : ℝ
  σ : ℝ
  f : ℝ

/-- Finite real data and a finite real vector prediction; `self.inv_cov` is what `__init__`
computes from `self.yerr` by the (regenerated) expression `icE` (`ccInvCov`/`mockInvCov`).  For MSE, Gauss
and Poisson, whose `negloglike` never reads `inv_cov`, the placeholder `.inf` is passed (it yields `[]`). -/
noncomputable def envVec (icE : Expr) (rows : List Row) : Env V where
  yvar := rows.map (fun r => real r.y)
  yerr := rows.map (fun r => real r.σ)
  invCov := invCovOf icE (rows.map (fun r => real r.σ))
  call := .val (.vec (rows.map (fun r => real r.f)))

/-- Same data, but the model function returned the scalar `c` (a function that ignores `x`). -/
noncomputable def envScalar (icE : Expr) (rows : List Row) (c : ℝ) : Env V where
  yvar := rows.map (fun r => real r.y)
  yerr := rows.map (fun r => real r.σ)
  invCov := invCovOf icE (rows.map (fun r => real r.σ))
  call := .val (.scalar (real c))

/-- One data point with arbitrary float64/complex entries (finite, ±inf, NaN, non-real). -/
structure VRow where
  y : V
  σ : V
  ic : V
  f : V

/-- Arbitrary equal-length data vectors and vector prediction. -/
def envV (rows : List VRow) : Env V where
  yvar := rows.map (·.y)
  yerr := rows.map (·.σ)
  invCov := rows.map (·.ic)
  call := .val (.vec (rows.map (·.f)))

/-- The data arrays are float64 (no element with an imaginary part). -/
def RealData (rows : List VRow) : Prop :=
  ∀ r ∈ rows, NumOps.isReal r.y = true ∧ NumOps.isReal r.σ = true ∧ NumOps.isReal r.ic = true

/-! ### the documented summands -/

noncomputable def gaussTerm (r : Row) : ℝ :=
  (r.y - r.f) ^ 2 / (2 * r.σ ^ 2) + Real.log (2 * Real.pi) / 2 + Real.log r.σ
noncomputable def poissonTerm (r : Row) : ℝ := r.f - r.y * Real.log r.f
noncomputable def ccTerm (r : Row) : ℝ := (Real.sqrt r.f - r.y) ^ 2 / (2 * r.σ ^ 2)
noncomputable def mseTerm (r : Row) : ℝ := (r.y - r.f) ^ 2

/-- unfolds the interpreter on a concrete (generated) class -/
macro "nll_unfold" : tactic => `(tactic|
  simp [run, cc, mock, mse, gauss, poisson, ccInvCov, mockInvCov, envVec, envScalar, invCovOf, predValue, runStmts,
    evalExpr, evalCond, evalB, cmpOp, setLoc, Env.data, Pred.toOption])

/-- closes `<generated arithmetic> = <documented arithmetic>` over ℝ (robust to re-association) -/
macro "nll_arith" : tactic => `(tactic|
  first | (field_simp; done) | ring | (field_simp; ring) | (ring_nf; done) | (field_simp; ring_nf; done))

set_option linter.unusedSimpArgs false
set_option linter.unusedVariables false
set_option linter.unnecessarySeqFocus false
set_option linter.unreachableTactic false
set_option linter.unusedTactic false

/-! ### documented formula on finite in-domain inputs

Hypotheses are exactly the domain on which the documented real formula is defined: error bars `σ > 0` (for
`ln σ` and `/σ²`), `f > 0` for Poisson (`ln f`), `f ≥ 0` for CC/Mock (`√f`), at least one data point for the
MSE mean.  Outside it the classes' behaviour is covered by `nll_never_nan` and the `+inf` theorems below. -/

/-- Gaussian: `Σ [(y−f)²/(2σ²) + ln(2π)/2 + ln σ]` for finite data, `σ > 0`, finite real predictions. -/
theorem gauss_formula (rows : List Row) (hσ : ∀ r ∈ rows, 0 < r.σ) :
    run gauss (envVec .inf rows) = some (.scalar (real ((rows.map gaussTerm).sum))) := by
  nll_unfold
  rw [sumList_congr_real rows _ gaussTerm]
  · simp
  · intro r hr
    have hs := hσ r hr
    have hne : r.σ ≠ 0 := ne_of_gt hs
    have h2pi : (0:ℝ) < 2 * Real.pi := by positivity
    have hpi2 : (0:ℝ) < Real.pi * 2 := by positivity
    simp [div_real, log_real, hs, hne, h2pi, hpi2, gaussTerm] <;> nll_arith

/-- Gaussian with a scalar prediction `c` (broadcast against the data). -/
theorem gauss_formula_scalar (rows : List Row) (c : ℝ) (hσ : ∀ r ∈ rows, 0 < r.σ) :
    run gauss (envScalar .inf rows c) =
      some (.scalar (real ((rows.map (fun r => gaussTerm { r with f := c })).sum))) := by
  nll_unfold
  rw [sumList_congr_real rows _ (fun r => gaussTerm { r with f := c })]
  · simp
  · intro r hr
    have hs := hσ r hr
    have hne : r.σ ≠ 0 := ne_of_gt hs
    have h2pi : (0:ℝ) < 2 * Real.pi := by positivity
    have hpi2 : (0:ℝ) < Real.pi * 2 := by positivity
    simp [div_real, log_real, hs, hne, h2pi, hpi2, gaussTerm] <;> nll_arith

/-- Poisson: `Σ [f − y ln f]` for finite data and finite positive predictions. -/
theorem poisson_formula (rows : List Row) (hf : ∀ r ∈ rows, 0 < r.f) :
    run poisson (envVec .inf rows) = some (.scalar (real ((rows.map poissonTerm).sum))) := by
  have hall : (rows.all fun r => decide (0 < r.f)) = true := by simpa [List.all_eq_true] using hf
  nll_unfold
  rw [sumList_congr_real rows _ poissonTerm]
  · simp [hall]
  · intro r hr
    have hp := hf r hr
    simp [log_real, hp, poissonTerm] <;> nll_arith

/-- Cosmic chronometers: `Σ (√f − y)²/(2σ²)` for finite data, `σ > 0`, finite predictions `f ≥ 0`
(`inv_cov` as `__init__` computes it from `yerr`). -/
theorem cc_formula (rows : List Row) (hσ : ∀ r ∈ rows, 0 < r.σ) (hf : ∀ r ∈ rows, 0 ≤ r.f) :
    run cc (envVec ccInvCov rows) = some (.scalar (real ((rows.map ccTerm).sum))) := by
  nll_unfold
  rw [sumList_congr_real rows _ ccTerm]
  · simp
  · intro r hr
    have hs := hσ r hr
    have hne : r.σ ≠ 0 := ne_of_gt hs
    have hp := hf r hr
    simp [div_real, sqrt_real, hs, hne, hp, ccTerm] <;> nll_arith

/-- Mock cosmic chronometers: same formula. -/
theorem mock_formula (rows : List Row) (hσ : ∀ r ∈ rows, 0 < r.σ) (hf : ∀ r ∈ rows, 0 ≤ r.f) :
    run mock (envVec mockInvCov rows) = some (.scalar (real ((rows.map ccTerm).sum))) := by
  nll_unfold
  rw [sumList_congr_real rows _ ccTerm]
  · simp
  · intro r hr
    have hs := hσ r hr
    have hne : r.σ ≠ 0 := ne_of_gt hs
    have hp := hf r hr
    simp [div_real, sqrt_real, hs, hne, hp, ccTerm] <;> nll_arith

/-- MSE: `mean (y−f)²` for finite data and predictions, at least one data point. -/
theorem mse_formula (rows : List Row) (hne : rows ≠ []) :
    run mse (envVec .inf rows) = some (.scalar (real ((rows.map mseTerm).sum / rows.length))) := by
  have hlen : (rows.length : ℝ) ≠ 0 := by
    simpa using hne
  nll_unfold
  simp only [Arr.mean, List.length_map]
  rw [sumList_congr_real rows _ mseTerm]
  · simp [div_real, hlen]
  · intro r hr
    simp [mseTerm] <;> nll_arith

/-- Poisson with a scalar prediction `c > 0`. -/
theorem poisson_formula_scalar (rows : List Row) (c : ℝ) (hc : 0 < c) :
    run poisson (envScalar .inf rows c) =
      some (.scalar (real ((rows.map (fun r => poissonTerm { r with f := c })).sum))) := by
  nll_unfold
  rw [sumList_congr_real rows _ (fun r => poissonTerm { r with f := c })]
  · simp [hc]
  · intro r hr
    simp [log_real, hc, poissonTerm] <;> nll_arith

/-- CC and Mock with a scalar prediction `c ≥ 0`. -/
theorem cc_mock_formula_scalar (rows : List Row) (c : ℝ) (hσ : ∀ r ∈ rows, 0 < r.σ) (hc : 0 ≤ c) :
    run cc (envScalar ccInvCov rows c) =
        some (.scalar (real ((rows.map (fun r => ccTerm { r with f := c })).sum))) ∧
    run mock (envScalar mockInvCov rows c) =
        some (.scalar (real ((rows.map (fun r => ccTerm { r with f := c })).sum))) := by
  constructor <;>
  · simp [run, cc, mock, ccInvCov, mockInvCov, envScalar, invCovOf, predValue, runStmts, evalExpr, evalCond, evalB,
      cmpOp, setLoc, Env.data, Pred.toOption, sqrt_real hc]
    rw [sumList_congr_real rows _ (fun r => ccTerm { r with f := c })]
    · simp
    · intro r hr
      have hs := hσ r hr
      have hne : r.σ ≠ 0 := ne_of_gt hs
      simp [div_real, hs, hne, ccTerm] <;> nll_arith

/-- MSE with a scalar prediction. -/
theorem mse_formula_scalar (rows : List Row) (c : ℝ) (hne : rows ≠ []) :
    run mse (envScalar .inf rows c) =
      some (.scalar (real ((rows.map (fun r => mseTerm { r with f := c })).sum / rows.length))) := by
  have hlen : (rows.length : ℝ) ≠ 0 := by
    simpa using hne
  nll_unfold
  simp only [Arr.mean, List.length_map]
  rw [sumList_congr_real rows _ (fun r => mseTerm { r with f := c })]
  · simp [div_real, hlen]
  · intro r hr
    simp [mseTerm] <;> nll_arith

/-! ### never NaN -/

/-- Whatever the data and whatever `eq_numpy` does, no class returns NaN (as a scalar, or inside a
returned array): every `return` is `np.inf` or a local guarded by `if np.isnan(·): return np.inf`. -/
theorem nll_never_nan (env : Env V) :
    ∀ cls ∈ [cc, mock, mse, gauss, poisson], ∀ v, run cls env = some v → v.hasNaN = false := by
  intro cls hcls v h
  have hall : ∀ c ∈ [cc, mock, mse, gauss, poisson], safeRet c.body = true := by decide
  have hs : safeRet cls.body = true := hall cls hcls
  exact runStmts_safe rfl env _ cls.body [] v hs h

/-! ### +inf on bad predictions -/

/-- If any element of what `eq_numpy` returned (scalar or vector) has a non-zero imaginary part,
every class returns `+inf` — for ANY data arrays (no arithmetic on the data is reached). -/
theorem nll_inf_on_complex (env : Env V) (a : Arr V) (hcall : env.call = .val a)
    (hc : a.anyNonReal = true) :
    ∀ cls ∈ [cc, mock, mse, gauss, poisson], run cls env = some (.scalar pinf) := by
  intro cls hcls
  simp only [List.mem_cons, List.not_mem_nil, or_false] at hcls
  rcases hcls with rfl | rfl | rfl | rfl | rfl <;>
    simp [run, cc, mock, mse, gauss, poisson, predValue, runStmts, evalExpr, evalCond, evalB, setLoc,
      Pred.toOption, hcall, hc]

/-- a float64 that is not `> 0`: NaN, −inf, or a finite real `≤ 0` -/
def NonPositive : V → Prop
  | .real r => r ≤ 0
  | .ninf => True
  | .nan => True
  | _ => False

/-- Poisson: if any element of the prediction (scalar or vector) is `≤ 0`, `−inf` or NaN the result is
`+inf`, for ANY data arrays. (`np.all(ypred > 0)`; a `>=` or a dropped test breaks this.) -/
theorem poisson_inf_on_nonpositive (env : Env V) (a : Arr V) (hcall : env.call = .val a)
    (hbad : ∃ x ∈ a.elems, NonPositive x) :
    run poisson env = some (.scalar pinf) := by
  have hlt : ∀ x : V, NonPositive x → NumOps.lt (real 0 : V) x = false := by
    intro x h
    cases x with
    | real r => simpa [NonPositive] using h
    | pinf => cases h
    | ninf => rfl
    | nan => rfl
    | cplx => cases h
  have hall : a.elems.all (fun x => NumOps.lt (real 0 : V) x) = false := by
    obtain ⟨x, hx, hnp⟩ := hbad
    rw [List.all_eq_false]
    exact ⟨x, hx, by simp [hlt x hnp]⟩
  simp [run, poisson, predValue, runStmts, evalExpr, evalCond, evalB, setLoc, Pred.toOption, hcall,
    map₂_scalar_right, all_map₁, cmpOp, hall]

/-- CC, Mock, MSE, Gauss: a NaN anywhere in a vector prediction gives `+inf`, whatever the (float64) data
are — finite, ±inf, NaN, zero error bars.  The NaN reaches `np.sum`/`np.mean` through every operation of the
regenerated formula and is caught by `if np.isnan(nll): return np.inf`. -/
theorem nll_inf_on_nan (rows : List VRow) (hd : RealData rows) (hnan : ∃ r ∈ rows, r.f = nan) :
    ∀ cls ∈ [cc, mock, mse, gauss], run cls (envV rows) = some (.scalar pinf) := by
  intro cls hcls
  by_cases hc : (Arr.vec (rows.map (·.f)) : Arr V).anyNonReal = true
  · refine nll_inf_on_complex (envV rows) _ rfl hc cls ?_
    simp only [List.mem_cons, List.not_mem_nil, or_false] at hcls ⊢
    tauto
  · have hreal : ∀ r ∈ rows, NumOps.isReal r.f = true := by
      intro r hr
      simp only [Arr.anyNonReal, List.any_map, List.any_eq_true, not_exists, not_and] at hc
      simpa using hc r hr
    have hall : (rows.all fun r => NumOps.isReal r.f) = true := by
      simpa [List.all_eq_true] using hreal
    obtain ⟨r0, hr0, hf0⟩ := hnan
    simp only [List.mem_cons, List.not_mem_nil, or_false] at hcls
    rcases hcls with rfl | rfl | rfl | rfl <;>
    · simp [run, cc, mock, mse, gauss, envV, predValue, runStmts, evalExpr, evalCond, evalB, setLoc, Env.data,
        Pred.toOption, hall, Arr.mean]
      rw [sumList_nan]
      · simp [nan_div]
      · intro x hx
        obtain ⟨r, hr, rfl⟩ := List.mem_map.mp hx
        obtain ⟨hy, hs, hi⟩ := hd r hr
        simp [hy, hs, hi, hreal r hr]
      · refine List.mem_map.mpr ⟨r0, hr0, ?_⟩
        obtain ⟨hy, hs, hi⟩ := hd r0 hr0
        simp [hf0, hy, hs, hi, nan_add, add_nan, nan_sub, sub_nan, nan_mul, mul_nan, nan_div, div_nan]

/-- The property's second sentence for vector predictions over float64 data: a prediction element that is
complex (non-zero imaginary part) or NaN makes every class return `+inf`; so does a non-positive element
for Poisson. -/
theorem nll_inf_on_bad (rows : List VRow) (hd : RealData rows) :
    ((∃ r ∈ rows, r.f = cplx ∨ r.f = nan) →
        ∀ cls ∈ [cc, mock, mse, gauss, poisson], run cls (envV rows) = some (.scalar pinf)) ∧
    ((∃ r ∈ rows, NonPositive r.f) → run poisson (envV rows) = some (.scalar pinf)) := by
  have hpois : (∃ r ∈ rows, NonPositive r.f) → run poisson (envV rows) = some (.scalar pinf) := by
    rintro ⟨r, hr, hnp⟩
    exact poisson_inf_on_nonpositive (envV rows) _ rfl ⟨r.f, by simpa [Arr.elems] using ⟨r, hr, rfl⟩, hnp⟩
  refine ⟨?_, hpois⟩
  rintro ⟨r, hr, hbad⟩ cls hcls
  rcases hbad with hcx | hn
  · refine nll_inf_on_complex (envV rows) _ rfl ?_ cls hcls
    simp only [Arr.anyNonReal, List.any_map, List.any_eq_true]
    exact ⟨r, hr, by simp [hcx]⟩
  · simp only [List.mem_cons, List.not_mem_nil, or_false] at hcls
    rcases hcls with h | h | h | h | h
    · exact nll_inf_on_nan rows hd ⟨r, hr, hn⟩ cls (by simp [h])
    · exact nll_inf_on_nan rows hd ⟨r, hr, hn⟩ cls (by simp [h])
    · exact nll_inf_on_nan rows hd ⟨r, hr, hn⟩ cls (by simp [h])
    · exact nll_inf_on_nan rows hd ⟨r, hr, hn⟩ cls (by simp [h])
    · rw [h]; exact hpois ⟨r, hr, by simp [hn, NonPositive]⟩

/-- Arbitrary data vectors and a SCALAR prediction `c` (a model function that ignores `x`). -/
def envVS (rows : List VRow) (c : V) : Env V where
  yvar := rows.map (·.y)
  yerr := rows.map (·.σ)
  invCov := rows.map (·.ic)
  call := .val (.scalar c)

/-- A scalar NaN prediction gives `+inf` as soon as there is at least one data point.
(With NO data `np.sum` of the empty array is 0 and the classes return 0, resp. `+inf` for MSE:
the statement's two sentences meet there; nothing is claimed for empty data.) -/
theorem nll_inf_on_nan_scalar (rows : List VRow) (hd : RealData rows) (hne : rows ≠ []) :
    ∀ cls ∈ [cc, mock, mse, gauss, poisson], run cls (envVS rows nan) = some (.scalar pinf) := by
  intro cls hcls
  obtain ⟨r0, hr0⟩ := List.exists_mem_of_ne_nil rows hne
  simp only [List.mem_cons, List.not_mem_nil, or_false] at hcls
  rcases hcls with rfl | rfl | rfl | rfl | rfl
  case inr.inr.inr.inr =>
    exact poisson_inf_on_nonpositive _ (.scalar nan) rfl ⟨nan, by simp [Arr.elems], by simp [NonPositive]⟩
  all_goals
    simp [run, cc, mock, mse, gauss, envVS, predValue, runStmts, evalExpr, evalCond, evalB, setLoc, Env.data,
      Pred.toOption, Arr.mean]
    rw [sumList_nan]
    · simp [nan_div]
    · intro x hx
      obtain ⟨r, hr, rfl⟩ := List.mem_map.mp hx
      obtain ⟨hy, hs, hi⟩ := hd r hr
      simp [hy, hs, hi]
    · refine List.mem_map.mpr ⟨r0, hr0, ?_⟩
      obtain ⟨hy, hs, hi⟩ := hd r0 hr0
      simp [hy, hs, hi, nan_add, add_nan, nan_sub, sub_nan, nan_mul, mul_nan, nan_div, div_nan]

/-! ### a raising model function -/

/-- `Likelihood.get_pred` (used by MSE, Gauss, Poisson) turns an exception of the model function into the
prediction `np.inf`: the result is the one for the scalar prediction `+inf` (hence, by `nll_never_nan`, not NaN). -/
theorem base_get_pred_fallback (env : Env V) (hcall : env.call = .raises) :
    ∀ cls ∈ [mse, gauss, poisson], run cls env = run cls { env with call := .val (.scalar pinf) } := by
  intro cls hcls
  simp only [List.mem_cons, List.not_mem_nil, or_false] at hcls
  rcases hcls with rfl | rfl | rfl <;>
    simp [run, mse, gauss, poisson, predValue, evalExpr, Pred.toOption, hcall, runStmts, evalCond, evalB, Env.data]

/-- `CCLikelihood/MockLikelihood.get_pred` have no handler: the exception escapes `negloglike`
(recorded as a fact about the code; the property statement does not speak about it). -/
theorem cc_get_pred_propagates (env : Env V) (hcall : env.call = .raises) :
    run cc env = none ∧ run mock env = none := by
  constructor <;> simp [run, cc, mock, predValue, evalExpr, Pred.toOption, hcall, runStmts]

/-- All five classes were recognised by the translator on this run (none silently missing). -/
theorem all_classes_translated :
    classes = [("CCLikelihood", cc), ("MockLikelihood", mock), ("MSE", mse), ("GaussLikelihood", gauss),
      ("PoissonLikelihood", poisson)] ∧ errors = [] := by
  constructor <;> rfl

/-! ### non-vacuity: the hypotheses hold on concrete, non-trivial inputs -/

/-- three data points, positive error bars -/
noncomputable def sampleRows : List Row := [⟨70, 2, 4900.5⟩, ⟨3 / 2, 1 / 4, 2⟩, ⟨-1, 3, 0⟩]

example : run gauss (envVec .inf sampleRows) = some (.scalar (real ((sampleRows.map gaussTerm).sum))) :=
  gauss_formula sampleRows (by intro r hr; simp [sampleRows] at hr; rcases hr with rfl | rfl | rfl <;> norm_num)

example : run cc (envVec ccInvCov sampleRows) = some (.scalar (real ((sampleRows.map ccTerm).sum))) :=
  cc_formula sampleRows
    (by intro r hr; simp [sampleRows] at hr; rcases hr with rfl | rfl | rfl <;> norm_num)
    (by intro r hr; simp [sampleRows] at hr; rcases hr with rfl | rfl | rfl <;> norm_num)

example : run poisson (envVec .inf [⟨3, 1, 5 / 2⟩, ⟨0, 1, 1 / 10⟩]) =
    some (.scalar (real (([⟨3, 1, 5 / 2⟩, ⟨0, 1, 1 / 10⟩] : List Row).map poissonTerm).sum)) :=
  poisson_formula _ (by intro r hr; simp at hr; rcases hr with rfl | rfl <;> norm_num)

example : run mse (envVec .inf sampleRows) = some (.scalar (real ((sampleRows.map mseTerm).sum / 3))) := by
  have := mse_formula sampleRows (by simp [sampleRows])
  simpa [sampleRows] using this

/-- the MSE value really is the mean: ((70−4900.5)² + (3/2−2)² + (−1−0)²)/3 -/
example : (sampleRows.map mseTerm).sum / 3 = ((70 - 4900.5) ^ 2 + (3 / 2 - 2) ^ 2 + (-1 - 0) ^ 2) / 3 := by
  simp [sampleRows, mseTerm]; ring

/-- float64 data containing an infinite observation and a zero error bar; one prediction is complex -/
noncomputable def badRows (bad : V) : List VRow := [⟨real 1, real 2, real (1 / 4), real 3⟩, ⟨pinf, real 0, pinf, bad⟩]

example : RealData (badRows cplx) := by
  intro r hr; simp [badRows] at hr; rcases hr with rfl | rfl <;> simp <;> rfl

example : run gauss (envV (badRows cplx)) = some (.scalar pinf) :=
  (nll_inf_on_bad (badRows cplx)
    (by intro r hr; simp [badRows] at hr; rcases hr with rfl | rfl <;> simp <;> rfl)).1
    ⟨⟨pinf, real 0, pinf, cplx⟩, by simp [badRows], Or.inl rfl⟩ gauss (by simp)

example : run mse (envV (badRows nan)) = some (.scalar pinf) :=
  (nll_inf_on_bad (badRows nan)
    (by intro r hr; simp [badRows] at hr; rcases hr with rfl | rfl <;> simp <;> rfl)).1
    ⟨⟨pinf, real 0, pinf, nan⟩, by simp [badRows], Or.inr rfl⟩ mse (by simp)

example : run poisson (envV (badRows (real 0))) = some (.scalar pinf) :=
  (nll_inf_on_bad (badRows (real 0))
    (by intro r hr; simp [badRows] at hr; rcases hr with rfl | rfl <;> simp <;> rfl)).2
    ⟨⟨pinf, real 0, pinf, real 0⟩, by simp [badRows], by simp [NonPositive]⟩

/-- `nll_never_nan` is not vacuous: the run above returns a value, and that value is not NaN -/
example : ∃ v, run gauss (envVec .inf sampleRows) = some v ∧ v.hasNaN = false :=
  ⟨_, gauss_formula sampleRows (by intro r hr; simp [sampleRows] at hr; rcases hr with rfl | rfl | rfl <;> norm_num), rfl⟩

end ESR.C09
