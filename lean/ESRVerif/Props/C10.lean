import ESRVerif.Proofs.Optim
/-!
C10 — parameter optimisation reaches the maximum-likelihood point on well-posed fits.

Theorems over the model `ESRVerif/Model/Optim.lean` of `test_all.chi2_fcn` / `test_all.optimise_fun`, with the sign
table, comparison operators and constants REGENERATED from the source (`ESRVerif/Generated/Optim.lean`).
scipy's minimiser is an oracle (`script`); what is needed from it is the named hypothesis `MinimiserSpec`
(returned `fun` = objective at returned `x`).  That BFGS numerically *reaches* the optimum is not provable here:
`reaches_optimum_partial` carries it as the hypothesis `hreach` and the harness samples it on the real code against
the closed-form weighted-least-squares minimum.

Numbers: any type with the operations `Num` and the laws `LawfulNum` (strict order with NaN, ±inf, multiplication
by ±1); true of IEEE doubles, rounding is not modelled.
-/
namespace ESR.C10
open ESR.Optim ESR.Gen.Optim

variable {α : Type} [Num α] [LawfulNum α]

/-! ### obligations on the generated tables (decided over the whole table) -/

/-- Every row of the regenerated sign table passes the decidable consistency condition, for the final
    back-transformation and for the one in the TimeoutException handler. -/
theorem table_rows_ok : signTable.all (fun t => rowOK finalBack t && rowOK timeoutBack t) = true := by decide

/-- Every arm's selector compares all of the arm's minimize results and takes the one that won. -/
theorem table_selectors_ok : branches.all selOK = true := by decide

/-- The comparisons that guard keeping the best iterate and the back-transformation are `<`, and the timeout
    handler uses the same threshold as the normal exit. -/
theorem loop_operators : loopSpec.keepCmp = .lt ∧ finalBack.cmp = .lt ∧ timeoutBack = finalBack := by decide

/-! ### the property theorems -/

/-- **The parameters reported are the ones whose likelihood was minimised.**  For every row of the generated table
    (arm, `choose`/guard outcome → result taken, `signs` passed in that minimize call, `mult_arr`) and every start
    vector `x` of the arm's arity: the back-transformation of `x` by that row, cut to the parameters, is exactly the
    parameter vector chi2_fcn hands to the likelihood for that row's `signs`. -/
theorem chi2_backtransform_consistent (nll : List α → α) (maxParam : Nat) :
    ∀ t ∈ signTable, ∀ B ∈ [finalBack, timeoutBack], ∀ (x : List α) (f : α) (s : Bool),
      arityOK t x.length → x.length ≤ maxParam →
      ∃ ps, backParams B t.flagThree maxParam ⟨t.row.resCall, ⟨x, f, s⟩, t.row.mult⟩ = some ps ∧
        chi2Fcn nll x t.signs = some (nll (ps.take x.length)) := by
  intro t ht B hB x f s hk hmax
  have h := List.all_eq_true.mp table_rows_ok t ht
  simp only [Bool.and_eq_true] at h
  simp only [List.mem_cons, List.mem_nil_iff, or_false] at hB
  rcases hB with rfl | rfl
  · exact row_consistent _ t h.1 nll maxParam x f s hk hmax
  · exact row_consistent _ t h.2 nll maxParam x f s hk hmax

/-- **All sign patterns are tried.**  Every pattern in {+,−}^k, k = 1, 2, is the `signs` of a row of the log-space
    arms, and every (parameter-count class, log_opt) has an arm. -/
theorem branches_cover :
    (∀ s0 ∈ [Sign.pos, Sign.neg], ∃ t ∈ signTable, t.nclass = .one ∧ t.logOpt = true ∧ t.signs = some [s0]) ∧
    (∀ s0 ∈ [Sign.pos, Sign.neg], ∀ s1 ∈ [Sign.pos, Sign.neg],
        ∃ t ∈ signTable, t.nclass = .two ∧ t.logOpt = true ∧ t.signs = some [s0, s1]) ∧
    (∀ (c : NClass) (lo : Bool), ∃ b ∈ branches, b.nclass = c ∧ b.logOpt = lo) := by
  refine ⟨by decide, by decide, ?_⟩
  intro c lo
  cases c <;> cases lo <;> decide

/-- **Within one iteration the best sign branch is taken**: no minimize result of the iteration has a smaller `fun`
    than the one assigned to `res` (results free of NaN; for the 1-parameter guard chain NaN-freeness is not used). -/
theorem branch_pick_minimal (br : Branch) (hbr : br ∈ branches) (get : Nat → Option (Res α))
    (hnan : ∀ c r, get c = some r → Num.isNaN r.f = false) (p : Picked α) (hp : pick get br.sel = some p) :
    ∀ c r, c < br.calls.length → get c = some r → Num.lt r.f p.res.f = false :=
  pick_minimal_of_selOK br (List.all_eq_true.mp table_selectors_ok br hbr) get hnan p hp

/-- **The loop returns the minimum.**  When the loop ends normally (Niter exhausted, converged, or 50×inf), the
    returned chi2 is the loop's best value, no examined result (`seen`: the per-iteration results that reached the
    keep test, line 264) has a smaller `fun`, and either nothing was kept (chi2 = +inf, zero parameters) or chi2 is
    the `fun` of an examined result and the parameters are the back-transformation of THAT result's `x` (zero
    parameters in the quirk case chi2 ≥ 1e100). -/
theorem loop_returns_min (cfg : Config α) (script : Nat → Nat → Call α) (br : Branch) (niter nconv : Nat)
    (hpre : pre cfg = .go br niter nconv)
    (hexit : (runLoop cfg br niter nconv script).exit = .done ∨ (runLoop cfg br niter nconv script).exit = .conv ∨
      (runLoop cfg br niter nconv script).exit = .infLimit)
    (hx : ∀ p ∈ (runLoop cfg br niter nconv script).seen, p.res.x.length ≤ cfg.maxParam) :
    ∃ chi2 params, optimiseFun cfg script = (.ret chi2 params, (runLoop cfg br niter nconv script).consumed) ∧
      chi2 = (runLoop cfg br niter nconv script).st.chi2Min ∧
      (∀ q ∈ (runLoop cfg br niter nconv script).seen, Num.lt q.res.f chi2 = false) ∧
      (((runLoop cfg br niter nconv script).st.best = none ∧ chi2 = Num.posInf ∧ params = zeros cfg.maxParam) ∨
       (∃ p ∈ (runLoop cfg br niter nconv script).seen, (runLoop cfg br niter nconv script).st.best = some p ∧
          chi2 = p.res.f ∧
          ((Num.lt chi2 (Num.const finalBack.big) = true ∧
              backParams finalBack br.flagThree cfg.maxParam p = some params) ∨
           (Num.lt chi2 (Num.const finalBack.big) = false ∧ params = zeros cfg.maxParam)))) := by
  obtain ⟨hk, hf, _⟩ := loop_operators
  have hopt : optimiseFun cfg script = (finish br cfg.maxParam (runLoop cfg br niter nconv script),
      (runLoop cfg br niter nconv script).consumed) := by
    unfold optimiseFun; rw [hpre]
  rw [hopt]
  have hinv := loop_inv loopSpec hk br cfg.testSuccess nconv script niter 0 St.init [] Inv.init
  simp only [List.nil_append] at hinv
  change Inv (runLoop cfg br niter nconv script).st (runLoop cfg br niter nconv script).seen at hinv
  generalize runLoop cfg br niter nconv script = o at *
  obtain ⟨hmin, hbest⟩ := hinv
  have hfin : finish br cfg.maxParam o =
      if evalCmp finalBack.cmp o.st.chi2Min (Num.const finalBack.big) then
        match o.st.best with
        | none => .nameError
        | some p =>
          match backParams finalBack br.flagThree cfg.maxParam p with
          | none => .ret Num.nan (zeros cfg.maxParam)
          | some ps => .ret o.st.chi2Min ps
      else .ret o.st.chi2Min (zeros cfg.maxParam) := by
    unfold finish
    rcases hexit with h | h | h <;> (rw [h]; rfl)
  rcases hbest with ⟨hb, hc⟩ | ⟨p, hp, hb, hc⟩
  · have hlt : Num.lt o.st.chi2Min (Num.const finalBack.big) = false := by
      rw [hc]; exact LawfulNum.posInf_not_lt _
    refine ⟨o.st.chi2Min, zeros cfg.maxParam, ?_, rfl, hmin, Or.inl ⟨hb, hc, rfl⟩⟩
    rw [hfin, hf]
    simp only [evalCmp, hlt, Bool.false_eq_true, if_false]
  · by_cases hlt : Num.lt o.st.chi2Min (Num.const finalBack.big) = true
    · obtain ⟨ps, hps⟩ := backParams_some finalBack br.flagThree cfg.maxParam p (hx p hp)
      refine ⟨o.st.chi2Min, ps, ?_, rfl, hmin, Or.inr ⟨p, hp, hb, hc, Or.inl ⟨hlt, hps⟩⟩⟩
      rw [hfin, hf]
      simp only [evalCmp, hlt, if_true, hb, hps]
    · have hlt' : Num.lt o.st.chi2Min (Num.const finalBack.big) = false := by simpa using hlt
      refine ⟨o.st.chi2Min, zeros cfg.maxParam, ?_, rfl, hmin, Or.inr ⟨p, hp, hb, hc, Or.inr ⟨hlt', rfl⟩⟩⟩
      rw [hfin, hf]
      simp only [evalCmp, hlt', Bool.false_eq_true, if_false]

/-- **Returned parameters reproduce the returned NLL** (under `MinimiserSpec`: every minimize result has
    `fun` = chi2_fcn at its `x` with the `signs` of that call).  Whatever way the routine ends (normal exit or the
    TimeoutException handler), if it returns a value below the 1e100 threshold then plugging the first `nparam`
    returned parameters into the likelihood gives exactly the returned value.  (`1 ≤ nparam` is what count_params
    yields for a string containing "a0"; at or above the threshold the code returns zero parameters.) -/
theorem params_reproduce_nll (cfg : Config α) (script : Nat → Nat → Call α) (nll : List α → α) (br : Branch)
    (niter nconv : Nat) (hpre : pre cfg = .go br niter nconv) (hm : MinimiserSpec nll br cfg.nparam script)
    (h1 : 1 ≤ cfg.nparam) (hn : cfg.nparam ≤ cfg.maxParam) (chi2 : α) (params : List α) (n : Nat)
    (hres : optimiseFun cfg script = (.ret chi2 params, n))
    (hlt : Num.lt chi2 (Num.const finalBack.big) = true) :
    nll (params.take cfg.nparam) = chi2 := by
  obtain ⟨hk, hf, hto⟩ := loop_operators
  have hopt : optimiseFun cfg script = (finish br cfg.maxParam (runLoop cfg br niter nconv script),
      (runLoop cfg br niter nconv script).consumed) := by
    unfold optimiseFun; rw [hpre]
  rw [hopt] at hres
  have hinv := loop_inv loopSpec hk br cfg.testSuccess nconv script niter 0 St.init [] Inv.init
  simp only [List.nil_append] at hinv
  change Inv (runLoop cfg br niter nconv script).st (runLoop cfg br niter nconv script).seen at hinv
  have hrows : ∀ t ∈ signTable, rowOK finalBack t = true := by
    intro t ht
    have h := List.all_eq_true.mp table_rows_ok t ht
    simp only [Bool.and_eq_true] at h
    exact h.1
  have core := fun p hp ps hb =>
    reproduce_core finalBack hrows cfg script nll br niter nconv hpre hm h1 hn p hp ps hb
  generalize runLoop cfg br niter nconv script = o at *
  have hfr := (Prod.mk.inj hres).1
  have hnan : chi2 ≠ Num.nan := by
    intro h; rw [h, LawfulNum.nan_not_lt] at hlt; cases hlt
  -- the two successful shapes of `finish` share this step
  have good : ∀ p, o.st.best = some p → ∀ ps, backParams finalBack br.flagThree cfg.maxParam p = some ps →
      chi2 = o.st.chi2Min → params = ps → nll (params.take cfg.nparam) = chi2 := by
    intro p hb ps hps hc hpp
    obtain ⟨_, hbest⟩ := hinv
    rcases hbest with ⟨hb', _⟩ | ⟨p', hp', hb', hc'⟩
    · rw [hb] at hb'; cases hb'
    · rw [hb] at hb'; cases hb'
      rw [hpp, hc, hc']
      exact core p hp' ps hps
  unfold finish at hfr
  rw [hto] at hfr
  cases hex : o.exit <;> rw [hex] at hfr <;> simp only at hfr
  case missing => cases hfr
  case nameError => cases hfr
  case other => simp only [Result.ret.injEq] at hfr; exact absurd hfr.1.symm hnan
  all_goals
    split at hfr
    · cases hb : o.st.best with
      | none =>
        simp only [hb] at hfr
        first
          | (simp only [Result.ret.injEq] at hfr; exact absurd hfr.1.symm hnan)
          | cases hfr
      | some p =>
        simp only [hb] at hfr
        cases hps : backParams finalBack br.flagThree cfg.maxParam p with
        | none =>
          simp only [hps, Result.ret.injEq] at hfr
          exact absurd hfr.1.symm hnan
        | some ps =>
          simp only [hps, Result.ret.injEq] at hfr
          exact good p hb ps hps hfr.1.symm hfr.2.symm
    · next hge =>
      simp only [Result.ret.injEq] at hfr
      first
        | exact absurd hfr.1.symm hnan
        | (rw [hf] at hge
           simp only [evalCmp] at hge
           rw [hfr.1] at hge
           exact absurd hlt hge)

/-- **Reaching the optimum — partial.**  MISSING (not provable here, conformance-sampled by the harness): the
    hypothesis `hreach`, i.e. that in some iteration the loop actually examined, scipy's BFGS from its PRNG start
    delivered a value within `bound` (= closed-form minimum + ε).  Given that, the returned chi2 is ≤ `bound`:
    early stopping and branch selection never discard it. -/
theorem reaches_optimum_partial (cfg : Config α) (script : Nat → Nat → Call α) (br : Branch) (niter nconv : Nat)
    (hpre : pre cfg = .go br niter nconv)
    (hexit : (runLoop cfg br niter nconv script).exit = .done ∨ (runLoop cfg br niter nconv script).exit = .conv ∨
      (runLoop cfg br niter nconv script).exit = .infLimit)
    (hx : ∀ p ∈ (runLoop cfg br niter nconv script).seen, p.res.x.length ≤ cfg.maxParam)
    (bound : α)
    (hreach : ∃ p ∈ (runLoop cfg br niter nconv script).seen,
      Num.isNaN p.res.f = false ∧ Num.lt bound p.res.f = false) :
    ∃ chi2 params n, optimiseFun cfg script = (.ret chi2 params, n) ∧ Num.lt bound chi2 = false := by
  obtain ⟨chi2, params, hres, _, hmin, _⟩ := loop_returns_min cfg script br niter nconv hpre hexit hx
  refine ⟨chi2, params, _, hres, ?_⟩
  obtain ⟨p, hp, hnan, hle⟩ := hreach
  cases h : Num.lt bound chi2 with
  | false => rfl
  | true =>
    rcases LawfulNum.lt_cotrans bound p.res.f chi2 h hnan with h' | h'
    · rw [hle] at h'; cases h'
    · rw [hmin p hp] at h'; cases h'

omit [LawfulNum α] in
/-- **Parameter-free functions are evaluated directly**: no "a0" in the string → the likelihood of the function
    itself with an empty parameter list, zero parameters, and not a single minimize call — whatever the oracle. -/
theorem no_param_direct (cfg : Config α) (script : Nat → Nat → Call α) (hprev : cfg.prevSeen = false)
    (hit : (iterCounts cfg.nparam cfg.niterParams cfg.nconvParams).isSome) (hsym : cfg.sympify = .ok)
    (hA : cfg.hasA0 = false) :
    optimiseFun cfg script = (.ret cfg.directNLL (zeros cfg.maxParam), 0) := by
  unfold optimiseFun pre
  cases hi : iterCounts cfg.nparam cfg.niterParams cfg.nconvParams with
  | none => rw [hi] at hit; cases hit
  | some nn => simp [hprev, hsym, hA]

omit [LawfulNum α] in
/-- **Functions that are NaN on the data are reported as +infinity**: if for every sign pattern of unit parameters
    the function has a NaN on the data (or the likelihood has no `xvar`), the result is (+inf, zeros) and no
    minimize call is made. -/
theorem nan_on_data_is_inf (cfg : Config α) (script : Nat → Nat → Call α) (hprev : cfg.prevSeen = false)
    (hit : (iterCounts cfg.nparam cfg.niterParams cfg.nconvParams).isSome) (hsym : cfg.sympify = .ok)
    (hA : cfg.hasA0 = true) (hbad : cfg.xvarPresent = false ∨ ∀ b ∈ cfg.nanOnData, b = true) :
    optimiseFun cfg script = (.ret Num.posInf (zeros cfg.maxParam), 0) := by
  unfold optimiseFun pre
  cases hi : iterCounts cfg.nparam cfg.niterParams cfg.nconvParams with
  | none => rw [hi] at hit; cases hit
  | some nn =>
    have hb : (!cfg.xvarPresent || cfg.nanOnData.all id) = true := by
      rcases hbad with h | h
      · simp [h]
      · simp only [Bool.or_eq_true, List.all_eq_true, id]; exact Or.inr h
    simp [hprev, hsym, hA, hb]

/-! ### non-vacuity: concrete instances of the hypotheses (exact half-integer arithmetic `XH`) -/

/-- the table really contains the mixed-sign row: signs ['-','+'] ↔ mult_arr = [-1, 1] -/
example : ∃ t ∈ signTable, t.nclass = .two ∧ t.signs = some [.neg, .pos] ∧ t.row.mult = [-1, 1] := by decide

/-- 2 parameters, log_opt, Niter = 2, Nconv = 1 -/
def cfgEx : Config XH := ⟨4, 2, true, false, [2], [1], false, .ok, true, .fin 0, true, [false, true, true, true]⟩

/-- two iterations of four sign branches: (10, 3, 15, 20) then (10, 10, 3.5, 10); x = (2, 1) throughout -/
def scriptEx (j c : Nat) : Call XH :=
  .ok [.fin 4, .fin 2] (match j, c with
    | 0, 0 => .fin 20 | 0, 1 => .fin 6 | 0, 2 => .fin 30 | 0, 3 => .fin 40
    | 1, 2 => .fin 7 | _, _ => .fin 20) true

/-- the (−,+) branch of iteration 0 wins with NLL 3; parameters are (−10², +10¹, 0, 0); 8 minimize calls -/
example : optimiseFun cfgEx scriptEx = (.ret (.fin 6) [.fin (-200), .fin 20, .fin 0, .fin 0], 8) := by decide

/-- a likelihood (NLL = first parameter) and a minimiser that satisfies `MinimiserSpec` by construction -/
def nllEx (ps : List XH) : XH := ps.headD (.fin 0)

def brEx : Branch := match findBranch 2 true with | some b => b | none => ⟨.two, true, false, [], .single⟩

def scriptSpec (_j c : Nat) : Call XH :=
  match chi2Fcn nllEx [.fin 4, .fin 2] (brEx.calls.getD c none) with
  | some f => .ok [.fin 4, .fin 2] f true
  | none => .other

example : pre cfgEx = .go brEx 2 1 := by decide

example : MinimiserSpec nllEx brEx cfgEx.nparam scriptSpec where
  value := by
    intro j c x f s h
    unfold scriptSpec at h
    split at h
    · next f' hf => cases h; exact hf
    · cases h
  arity := by
    intro j c x f s h
    unfold scriptSpec at h
    split at h
    · cases h; rfl
    · cases h

/-- on that instance: the most negative first parameter (−100) is found in a '-' branch and reproduced -/
example : optimiseFun cfgEx scriptSpec = (.ret (.fin (-200)) [.fin (-200), .fin 20, .fin 0, .fin 0], 8)
    ∧ nllEx ([XH.fin (-200), .fin 20, .fin 0, .fin 0].take 2) = .fin (-200) := by decide

/-- the parameter-free and NaN-on-data paths on concrete configurations -/
example : optimiseFun ({ cfgEx with hasA0 := false, nparam := 0, directNLL := .fin 9 } : Config XH) scriptEx
    = (.ret (.fin 9) [.fin 0, .fin 0, .fin 0, .fin 0], 0) := by decide

example : optimiseFun ({ cfgEx with nanOnData := [true, true, true, true] } : Config XH) scriptEx
    = (.ret .pinf [.fin 0, .fin 0, .fin 0, .fin 0], 0) := by decide

/-- fifty infinities end the loop early with +inf and zero parameters (default Niter/Nconv) -/
example : optimiseFun ({ cfgEx with niterParams := niterDefault, nconvParams := nconvDefault } : Config XH)
    (fun _ _ => .ok [.fin 0, .fin 0] .pinf true) = (.ret .pinf [.fin 0, .fin 0, .fin 0, .fin 0], 200) := by decide

end ESR.C10
