import ESRVerif.Model.Aifeyn
import ESRVerif.Proofs.Aifeyn
import Std.Data.String.ToNat
/-!
C08 — the tree code length equals `k ln n + Σ_j ln|c_j|` and stays aligned with the tree list.

`aifeyn` is the interpretation of the expression *generated from the source* of `aifeyn_complexity`
(`ESR.Gen.Aifeyn.ret` etc.), `ln` is abstract (`LnOps α`, no laws), so every equality below is an equality of
expression trees with an exact `Nat` counting part.  Core Lean only.
-/
namespace ESR.C08
open ESR.Aifeyn

/-! ### the formula -/

/-- **Formula.** For every label list `tree` and `param_list = params`, every notion `isParam` of "free
parameter" that agrees with `params` on the tree's labels (parameters used are listed), every duplicate-free
enumeration `syms` of the labels that are neither parameters nor integers, and `cs` the values of the integer
labels in order:
`aifeyn_complexity(tree, params) = k·ln n + Σ_j ln c'_j` with `k = len(tree)`,
`n = |syms| + [some label is a parameter or an integer]` and `c'_j = |c_j|`, 0 counted as 1. -/
theorem aifeyn_spec {α} (o : LnOps α) (tree params : List String)
    (isParam : String → Bool) (hp : ∀ l ∈ tree, (isParam l = true ↔ l ∈ params))
    (syms : List String) (hnd : syms.Nodup)
    (hsyms : ∀ x, x ∈ syms ↔ (x ∈ tree ∧ isParam x = false ∧ isIntLabel x = false))
    (cs : List Int) (hcs : (tree.filter isIntLabel).map pyInt = cs.map some) :
    aifeyn o tree params = .ok (CodeLen.eval o
      { k := tree.length,
        n := syms.length + (tree.any (fun l => isParam l || isIntLabel l)).toNat,
        cs := cs.map absOne }) := by
  have hc : ∀ l ∈ tree, params.contains l = isParam l := by
    intro l hl
    have := hp l hl
    cases h1 : params.contains l <;> cases h2 : isParam l <;> simp_all
  have e1 : (distinct (tree.filter (fun l => !params.contains l && !isIntLabel l))).length = syms.length := by
    apply length_distinct_eq _ _ hnd
    intro x
    rw [hsyms, List.mem_filter]
    constructor
    · intro ⟨hx, h1, h2⟩
      exact ⟨hx, by rw [hc x hx, h1, h2]; rfl⟩
    · intro ⟨hx, h⟩
      rw [hc x hx] at h
      cases h1 : isParam x <;> cases h2 : isIntLabel x <;> simp_all
  have e2 : tree.any (fun l => params.contains l || isIntLabel l) = tree.any (fun l => isParam l || isIntLabel l) :=
    any_congr_mem _ _ tree (fun x hx => by rw [hc x hx])
  rw [aifeyn_eq_codeLen]
  unfold codeLenOf
  rw [mapM_option_of_map pyInt _ cs hcs, e1, e2]
  rfl

/-- The integer test of the code, character by character: `tt.lstrip("-").isdigit()` holds exactly for
`m ≥ 0` minus signs followed by a non-empty run of decimal digits (so `"-"` alone is an operator,
and multi-digit / negative literals are integers). -/
theorem isIntLabel_iff (s : String) :
    isIntLabel s = true ↔
      ∃ (m : Nat) (ds : List Char), s.toList = List.replicate m '-' ++ ds ∧ ds ≠ [] ∧ ∀ c ∈ ds, c.isDigit = true := by
  unfold isIntLabel stripIsDigit isDigitStr pyLstrip
  have hfun : (fun c : Char => ['-'].contains c) = (fun c => c == '-') := by
    funext c; simp only [List.contains_cons, List.contains_nil, Bool.or_false]
  have hstrip : ∀ (l : List Char), ∃ m, l = List.replicate m '-' ++ l.dropWhile (fun c => c == '-') := by
    intro l
    induction l with
    | nil => exact ⟨0, rfl⟩
    | cons c cs ih =>
      by_cases hc : (c == '-') = true
      · obtain ⟨m, hm⟩ := ih
        refine ⟨m + 1, ?_⟩
        have hc' : c = '-' := by simpa using hc
        rw [List.dropWhile_cons_of_pos (p := fun c => c == '-') hc, List.replicate_succ, List.cons_append, ← hm, hc']
      · refine ⟨0, ?_⟩
        rw [List.dropWhile_cons_of_neg (p := fun c => c == '-') hc]; rfl
  have hdrop : ∀ (m : Nat) (ds : List Char), ds ≠ [] → (∀ c ∈ ds, c.isDigit = true) →
      (List.replicate m '-' ++ ds).dropWhile (fun c => c == '-') = ds := by
    intro m ds hne hd
    induction m with
    | zero =>
      cases ds with
      | nil => exact absurd rfl hne
      | cons d ds' =>
        have hdd : d.isDigit = true := hd d List.mem_cons_self
        have hneg : ¬ ((d == '-') = true) := by
          intro h
          have : d = '-' := by simpa using h
          subst this; revert hdd; decide
        simp only [List.replicate_zero, List.nil_append]
        rw [List.dropWhile_cons_of_neg (p := fun c => c == '-') hneg]
    | succ m ih =>
      rw [List.replicate_succ, List.cons_append, List.dropWhile_cons_of_pos (p := fun c => c == '-') (by decide)]
      exact ih
  have htl : ("-" : String).toList = ['-'] := by decide
  rw [htl, hfun]
  constructor
  · intro h
    obtain ⟨m, hm⟩ := hstrip s.toList
    refine ⟨m, _, hm, ?_, ?_⟩
    · intro he; rw [he] at h; simp at h
    · intro c hc
      have := (Bool.and_eq_true _ _).mp h
      exact List.all_eq_true.mp this.2 c hc
  · intro ⟨m, ds, hs, hne, hd⟩
    rw [hs, hdrop m ds hne hd]
    have h1 : ds.isEmpty = false := by cases ds with | nil => exact absurd rfl hne | cons _ _ => rfl
    simp [h1, List.all_eq_true.mpr hd]

/-- `int(tt)` on the strings that pass the test: digits ↦ their value, one minus ↦ the negative, two or more
minus signs ↦ Python raises `ValueError` (the model's `none`). -/
theorem pyInt_spec (s : String) (ds : List Char) (hne : ds ≠ []) (hd : ∀ c ∈ ds, c.isDigit = true) :
    (s.toList = ds → pyInt s = some (digitsVal ds : Int)) ∧
    (s.toList = '-' :: ds → pyInt s = some (-(digitsVal ds : Int))) ∧
    (∀ m, s.toList = '-' :: '-' :: List.replicate m '-' ++ ds → pyInt s = none) := by
  have hdig : isDigitStr ds = true := by
    unfold isDigitStr
    have h1 : ds.isEmpty = false := by cases ds with | nil => exact absurd rfl hne | cons _ _ => rfl
    simp [h1, List.all_eq_true.mpr hd]
  obtain ⟨d, ds', rfl⟩ : ∃ d ds', ds = d :: ds' := by
    cases ds with | nil => exact absurd rfl hne | cons d ds' => exact ⟨d, ds', rfl⟩
  have hdd : d.isDigit = true := hd d List.mem_cons_self
  have hm : d ≠ '-' := by intro h; subst h; revert hdd; decide
  have hp : d ≠ '+' := by intro h; subst h; revert hdd; decide
  refine ⟨?_, ?_, ?_⟩
  · intro h
    unfold pyInt
    rw [h]
    split
    · rename_i heq; cases heq; exact absurd rfl hm
    · rename_i heq; cases heq; exact absurd rfl hp
    · simp [hdig]
  · intro h
    unfold pyInt
    rw [h]
    simp [hdig]
  · intro m h
    unfold pyInt
    rw [h]
    have : isDigitStr ('-' :: (List.replicate m '-' ++ d :: ds')) = false := by
      unfold isDigitStr
      simp only [List.isEmpty_cons, Bool.not_false, Bool.true_and, List.all_cons]
      have : Char.isDigit '-' = false := by decide
      simp [this]
    simp [this]

/-! ### renaming parameters -/

/-- **Renaming.** Any renaming `σ` of labels that fixes everything outside `param_list` and maps listed
parameters to listed parameters leaves the code length unchanged (injectivity is not even needed: all
parameters count as one symbol).  `hni`: parameter names are not integer literals. -/
theorem aifeyn_rename {α} (o : LnOps α) (tree params : List String) (σ : String → String)
    (hfix : ∀ l ∈ tree, l ∉ params → σ l = l)
    (hin : ∀ l ∈ tree, l ∈ params → σ l ∈ params)
    (hni : ∀ p ∈ params, isIntLabel p = false) :
    aifeyn o (tree.map σ) params = aifeyn o tree params := by
  have hcont : ∀ l ∈ tree, params.contains (σ l) = params.contains l := by
    intro l hl
    by_cases h : l ∈ params
    · have h' := hin l hl h
      simp [h, h']
    · rw [hfix l hl h]
  have hint : ∀ l ∈ tree, isIntLabel (σ l) = isIntLabel l := by
    intro l hl
    by_cases h : l ∈ params
    · rw [hni _ (hin l hl h), hni _ h]
    · rw [hfix l hl h]
  have hfixInt : ∀ l ∈ tree, isIntLabel l = true → σ l = l := by
    intro l hl hi
    apply hfix l hl
    intro h
    rw [hni _ h] at hi
    cases hi
  rw [aifeyn_eq_codeLen, aifeyn_eq_codeLen]
  have : codeLenOf (tree.map σ) params = codeLenOf tree params := by
    unfold codeLenOf
    rw [filter_map_fix isIntLabel σ tree hint hfixInt]
    rw [filter_map_fix (fun l => !params.contains l && !isIntLabel l) σ tree
      (fun x hx => by rw [hcont x hx, hint x hx])
      (fun x hx hq => by
        apply hfix x hx
        intro h
        have : params.contains x = true := by simp [h]
        rw [this] at hq
        simp at hq)]
    rw [any_map_congr (fun l => params.contains l || isIntLabel l) σ tree
      (fun x hx => by rw [hcont x hx, hint x hx])]
    rw [List.length_map]
  rw [this]

/-! ### the single-tree API -/

/-- The parameter predicate of `tree_to_aifeyn` (`l.startswith('a') and l[1:].isdigit()`), character by
character: the letter `a` followed by at least one ASCII decimal digit. -/
theorem isParamLike_iff (s : String) :
    isParamLike s = true ↔ ∃ ds : List Char, s.toList = 'a' :: ds ∧ ds ≠ [] ∧ ∀ c ∈ ds, c.isDigit = true := by
  unfold isParamLike
  constructor
  · intro h
    split at h
    · rename_i ds heq
      refine ⟨ds, heq, ?_, ?_⟩
      · intro he; rw [he] at h; simp [isDigitStr] at h
      · intro c hc
        have := (Bool.and_eq_true _ _).mp h
        exact List.all_eq_true.mp this.2 c hc
    · cases h
  · intro ⟨ds, hs, hne, hd⟩
    rw [hs]
    have h1 : ds.isEmpty = false := by cases ds with | nil => exact absurd rfl hne | cons _ _ => rfl
    simp [isDigitStr, h1, List.all_eq_true.mpr hd]

/-- every canonical name `'a%i' % j` is a parameter label -/
theorem isParamLike_pname (j : Nat) : isParamLike (pname j) = true := by
  rw [isParamLike_iff]
  refine ⟨Nat.toDigits 10 j, ?_, Nat.toDigits_ne_nil, ?_⟩
  · have h : (toString j : String) = Nat.repr j := rfl
    have ha : ("a" : String).toList = ['a'] := by decide
    simp only [pname, String.toList_append, h, Nat.toList_repr, ha, List.cons_append, List.nil_append]
  · intro c hc
    exact Nat.isDigit_of_mem_toDigits (by omega) (by omega) hc

/-- **Single-tree API = the formula**, for *any* parameter names (gapped, permuted, `a007`): every value
returned by `tree_to_aifeyn(labels, basis)` is `k·ln n + Σ ln c'_j` where the free parameters are exactly the
labels `a<digits>` of the tree (all counted as one symbol together with the integers). -/
theorem single_api_spec {α} (o : LnOps α) (b : Basis) (labels : List String) (v : α)
    (hv : treeToAifeyn o b labels = .ok v)
    (syms : List String) (hnd : syms.Nodup)
    (hsyms : ∀ x, x ∈ syms ↔ (x ∈ labels ∧ isParamLike x = false ∧ isIntLabel x = false))
    (cs : List Int) (hcs : (labels.filter isIntLabel).map pyInt = cs.map some) :
    v = CodeLen.eval o
      { k := labels.length,
        n := syms.length + (labels.any (fun l => isParamLike l || isIntLabel l)).toNat,
        cs := cs.map absOne } := by
  unfold treeToAifeyn at hv
  split at hv
  · cases hv
  · rw [aifeyn_spec o labels (labels.filter isParamLike) isParamLike
      (fun l hl => by rw [List.mem_filter]; exact ⟨fun h => ⟨hl, h⟩, fun h => h.2⟩) syms hnd hsyms cs hcs] at hv
    cases hv
    rfl

/-- every parameter label of the tree is in `params` -/
def ParamsListed (labels params : List String) : Prop := ∀ l ∈ labels, isParamLike l = true → l ∈ params

/-- the labels of the tree that are in `params` are parameter labels -/
def OnlyParamsListed (labels params : List String) : Prop := ∀ l ∈ labels, l ∈ params → isParamLike l = true

/-- **Single-tree API = stored value.** Every value returned by `tree_to_aifeyn(labels, basis)` equals
`aifeyn_complexity(labels, params)` for any `param_list` that lists the tree's parameter labels and, among the
tree's labels, only those — no condition on the names being consecutive. -/
theorem single_api_agrees {α} (o : LnOps α) (b : Basis) (labels params : List String) (v : α)
    (hl : ParamsListed labels params) (hp : OnlyParamsListed labels params)
    (hv : treeToAifeyn o b labels = .ok v) :
    aifeyn o labels params = .ok v := by
  unfold treeToAifeyn at hv
  split at hv
  · cases hv
  · rw [← hv, aifeyn_eq_codeLen, aifeyn_eq_codeLen,
      codeLenOf_congr_params labels params (labels.filter isParamLike)]
    intro l hl'
    rw [List.mem_filter]
    exact ⟨fun h => ⟨hl', hp l hl' h⟩, fun h => hl l hl' h.2⟩

/-- … in particular the value the generation pipeline stores, `aifeyn_complexity(labels, ['a0',…,'a(K-1)'])`,
as soon as `K` is large enough to list the tree's parameter labels. -/
theorem single_api_agrees_pipeline {α} (o : LnOps α) (b : Basis) (labels : List String) (K : Nat) (v : α)
    (hK : ParamsListed labels (paramList K))
    (hv : treeToAifeyn o b labels = .ok v) :
    aifeyn o labels (paramList K) = .ok v := by
  apply single_api_agrees o b labels (paramList K) v hK _ hv
  intro l _ hm
  obtain ⟨j, _, hj⟩ := (mem_paramList l K).mp hm
  rw [← hj]
  exact isParamLike_pname j

/-- The parameter labels present are exactly `a0 … a(m-1)` for some `m` (no gaps, canonical spelling). -/
def Gapless (labels : List String) : Prop :=
  ∃ m, (∀ j, j < m → pname j ∈ labels) ∧ (∀ l ∈ labels, isParamLike l = true → ∃ j, j < m ∧ pname j = l)

/-- **`single_function`, step (4).** `single_function` still derives `param_list` from `get_max_param` of the
printed function (`['a%i'%j for j in range(max_param)]`).  For label lists without gaps in the parameter names
this is the same value as `tree_to_aifeyn` (hence the formula, by `single_api_spec`).  With gaps it is not —
see the example for `["+", "a0", "a2"]` below; `single_function`'s optimiser assumes consecutive names. -/
theorem single_function_agrees {α} (o : LnOps α) (b : Basis) (labels : List String) (v : α)
    (hg : Gapless labels)
    (hv : singleFunctionAifeyn o b labels = .ok v) :
    treeToAifeyn o b labels = .ok v := by
  unfold singleFunctionAifeyn at hv
  unfold treeToAifeyn
  split at hv
  · cases hv
  · split at hv
    · cases hv
    · rename_i M hM
      obtain ⟨m, hall, hlt⟩ := hg
      have hspec := firstMissing_spec _ _ _ _ hM
      have hmM : m ≤ M := by
        apply Classical.byContradiction
        intro hn
        have hin := hall M (by omega)
        have : (labels.any (pyIn (pname M))) = true :=
          List.any_eq_true.mpr ⟨pname M, hin, pyIn_self _⟩
        rw [this] at hspec
        exact Bool.noConfusion hspec.2
      show aifeyn o labels (labels.filter isParamLike) = .ok v
      rw [← hv, aifeyn_eq_codeLen, aifeyn_eq_codeLen,
        codeLenOf_congr_params labels (labels.filter isParamLike) (paramList M)]
      intro l hl
      rw [List.mem_filter, mem_paramList]
      constructor
      · intro ⟨_, hpl⟩
        obtain ⟨j, hj, hjl⟩ := hlt l hl hpl
        exact ⟨j, by omega, hjl⟩
      · intro ⟨j, _, hj⟩
        exact ⟨hl, by rw [← hj]; exact isParamLike_pname j⟩

/-! ### alignment of `aifeyn_<n>.txt` with `trees_<n>.txt` -/

/-- Every file the writer loop appends to is truncated by rank 0 before the loop (generated tables, decided
over the whole table). -/
theorem writer_files_cleared : ∀ w ∈ Gen.Aifeyn.writes, w.file ∈ Gen.Aifeyn.cleared := by decide

/-- **Alignment.** For any list of shapes, any rank count (the extras of a shape are the concatenation of
the per-rank chunks in rank order), the code-length file and the tree file produced by the writer loop and
the two `cat` commands are the images of *one* list — originals of every shape, then rewritten trees of
every shape — under "code length with that shape's `param_list`" and "the tree itself".
Hence they have equal length and line `i` of one belongs to line `i` of the other. -/
theorem aifeyn_file_aligned {α} (o : LnOps α) (shapes : List Shape) :
    catFile o shapes "aifeyn" =
      (taggedTrees shapes).map (fun tp => match tp.2 with
        | some pl => Line.code (aifeyn o tp.1 pl)
        | none => Line.noParamList)
    ∧ catFile o shapes "trees" = (taggedTrees shapes).map (fun tp => (Line.tree tp.1 : Line α)) := by
  have hc1 : Gen.Aifeyn.cats.lookup "aifeyn" = some ["orig_aifeyn", "extra_aifeyn"] := by decide
  have hc2 : Gen.Aifeyn.cats.lookup "trees" = some ["orig_trees", "extra_trees"] := by decide
  have hw1 : Gen.Aifeyn.writes.filter (fun w => w.file == "orig_aifeyn") = [⟨"orig_aifeyn", .allTree, .aifeyn⟩] := by decide
  have hw2 : Gen.Aifeyn.writes.filter (fun w => w.file == "extra_aifeyn") = [⟨"extra_aifeyn", .extraTree, .aifeyn⟩] := by decide
  have hw3 : Gen.Aifeyn.writes.filter (fun w => w.file == "orig_trees") = [⟨"orig_trees", .allTree, .treeStr⟩] := by decide
  have hw4 : Gen.Aifeyn.writes.filter (fun w => w.file == "extra_trees") = [⟨"extra_trees", .extraTree, .treeStr⟩] := by decide
  constructor
  · unfold catFile
    rw [hc1]
    simp only [List.flatMap_cons, List.flatMap_nil, List.append_nil, fileAfter, hw1, hw2, blockLines, Shape.src,
      taggedTrees, List.map_append, List.map_flatMap, List.map_map]
    congr 1
  · unfold catFile
    rw [hc2]
    simp only [List.flatMap_cons, List.flatMap_nil, List.append_nil, fileAfter, hw3, hw4, blockLines, Shape.src,
      taggedTrees, List.map_append, List.map_flatMap, List.map_map]
    rfl

/-- Line-wise form: same number of lines, and line `i` of the code-length file is the code length of
line `i` of the tree file. -/
theorem aifeyn_file_line {α} (o : LnOps α) (shapes : List Shape) :
    (catFile o shapes "aifeyn").length = (catFile o shapes "trees").length ∧
    ∀ i (h : i < (taggedTrees shapes).length),
      (catFile o shapes "trees")[i]? = some (Line.tree ((taggedTrees shapes)[i]).1) ∧
      (catFile o shapes "aifeyn")[i]? = some (match ((taggedTrees shapes)[i]).2 with
        | some pl => Line.code (aifeyn o ((taggedTrees shapes)[i]).1 pl)
        | none => Line.noParamList) := by
  obtain ⟨h1, h2⟩ := aifeyn_file_aligned o shapes
  rw [h1, h2]
  refine ⟨by simp, ?_⟩
  intro i h
  simp [List.getElem?_map, List.getElem?_eq_getElem h]

/-! ### non-vacuity: concrete cases (free expression trees, decided by evaluation) -/

def coreMaths : Basis := ⟨["x", "a"], ["inv"], ["+", "*", "-", "/", "pow"]⟩

/-- `pow(a1 - 12, -3) * (0 + a0)`-like label list: two parameters (permuted), integers 12, -3, 0,
the operator `-` is not an integer: k = 9, n = |{*,pow,-,+}| + 1 = 5, c = 12, 3, 1. -/
example : aifeyn symOps ["*", "pow", "-", "a1", "12", "-3", "+", "0", "a0"] ["a0", "a1"]
    = .ok (CodeLen.eval symOps ⟨9, 5, [12, 3, 1]⟩) := by decide

/-- the hypotheses of `aifeyn_spec` are satisfiable on that tree -/
example : aifeyn symOps ["*", "pow", "-", "a1", "12", "-3", "+", "0", "a0"] ["a0", "a1"]
    = .ok (CodeLen.eval symOps ⟨9, 4 + 1, [12, 3, 1]⟩) :=
  aifeyn_spec symOps _ _ (fun l => l == "a0" || l == "a1") (by decide) ["*", "pow", "-", "+"] (by decide)
    (by
      intro x
      constructor
      · intro hx
        have : x = "*" ∨ x = "pow" ∨ x = "-" ∨ x = "+" := by simpa using hx
        rcases this with h | h | h | h <;> subst h <;> decide
      · intro ⟨hx, h1, h2⟩
        have : x = "*" ∨ x = "pow" ∨ x = "-" ∨ x = "a1" ∨ x = "12" ∨ x = "-3" ∨ x = "+" ∨ x = "0" ∨ x = "a0" := by
          simpa using hx
        rcases this with h | h | h | h | h | h | h | h | h <;> subst h <;> first | decide | (exfalso; revert h1 h2; decide))
    [12, -3, 0] (by decide)

/-- `int("--5")` raises -/
example : aifeyn symOps ["inv", "--5"] [] = .error .valueError := by decide

/-- renaming `a0 ↔ a1` (hypotheses of `aifeyn_rename` hold) -/
example : aifeyn symOps (["+", "a0", "*", "a1", "x"].map (fun l => if l == "a0" then "a1" else if l == "a1" then "a0" else l)) ["a0", "a1"]
    = aifeyn symOps ["+", "a0", "*", "a1", "x"] ["a0", "a1"] :=
  aifeyn_rename symOps _ _ _ (by decide) (by decide) (by decide)

/-- a gapless tree in the single-tree API: value returned, equal to the pipeline's and to `single_function`'s -/
example : treeToAifeyn symOps coreMaths ["+", "a1", "*", "a0", "2"] = .ok (CodeLen.eval symOps ⟨5, 3, [2]⟩)
    ∧ aifeyn symOps ["+", "a1", "*", "a0", "2"] (paramList 3) = .ok (CodeLen.eval symOps ⟨5, 3, [2]⟩)
    ∧ singleFunctionAifeyn symOps coreMaths ["+", "a1", "*", "a0", "2"] = .ok (CodeLen.eval symOps ⟨5, 3, [2]⟩) := by
  decide

example : Gapless ["+", "a1", "*", "a0", "2"] := by
  refine ⟨2, ?_, ?_⟩
  · intro j hj
    have : j = 0 ∨ j = 1 := by omega
    rcases this with h | h <;> subst h <;> decide
  · intro l hl hp
    have : l = "+" ∨ l = "a1" ∨ l = "*" ∨ l = "a0" ∨ l = "2" := by simpa using hl
    rcases this with h | h | h | h | h <;> subst h
    · exact absurd hp (by decide)
    · exact ⟨1, by omega, by decide⟩
    · exact absurd hp (by decide)
    · exact ⟨0, by omega, by decide⟩
    · exact absurd hp (by decide)

example : ParamsListed ["+", "a0", "a2"] (paramList 3) ∧ OnlyParamsListed ["+", "a0", "a2"] (paramList 3) := by
  constructor
  · intro l hl _
    have : l = "+" ∨ l = "a0" ∨ l = "a2" := by simpa using hl
    rcases this with h | h | h <;> subst h <;> first | decide | (exfalso; revert ‹isParamLike "+" = true›; decide)
  · intro l hl _
    have : l = "+" ∨ l = "a0" ∨ l = "a2" := by simpa using hl
    rcases this with h | h | h <;> subst h <;> first | decide | (exfalso; revert ‹"+" ∈ paramList 3›; decide)

/-- **Gapped parameter names now agree with the formula** (the F5 defect, fixed in /repo bda8ceb): for
`["+", "a0", "a2"]` the single-tree API returns `3·ln 2` — both parameters are one symbol — which is the value
`aifeyn_complexity` gives with both parameters listed. -/
theorem gapped_names_agree :
    treeToAifeyn symOps coreMaths ["+", "a0", "a2"] = .ok (CodeLen.eval symOps ⟨3, 2, []⟩)
    ∧ aifeyn symOps ["+", "a0", "a2"] (paramList 3) = .ok (CodeLen.eval symOps ⟨3, 2, []⟩)
    ∧ treeToAifeyn symOps coreMaths ["*", "a10", "pow", "a3", "-2"] = .ok (CodeLen.eval symOps ⟨5, 3, [2]⟩) := by
  decide

/-- The OLD rule (`param_list` from `get_max_param`, still used by `single_function`) counts `a2` as an
operator on the same labels: `n = 3`.  So `Gapless` cannot be dropped from `single_function_agrees`, and a
regression of the fix would break `single_api_spec`. -/
example : singleFunctionAifeyn symOps coreMaths ["+", "a0", "a2"] = .ok (CodeLen.eval symOps ⟨3, 3, []⟩)
    ∧ CodeLen.eval symOps ⟨3, 3, []⟩ ≠ CodeLen.eval symOps ⟨3, 2, []⟩ := by decide

/-- alignment on a concrete library: two shapes, extras coming from two ranks, integers in the extras -/
example : catFile symOps
    [⟨["inv(x)", "inv(a0)"], [["inv", "x"], ["inv", "a0"]], [[], [["0"]]]⟩,
     ⟨["(x)+(x)", "(x)+(a0)", "(a0)+(x)", "(a0)+(a1)"], [["+", "x", "x"], ["+", "x", "a0"], ["+", "a0", "x"], ["+", "a0", "a1"]],
      [[["*", "2", "x"]], [["a0"]]]⟩] "aifeyn"
    = [.code (.ok (CodeLen.eval symOps ⟨2, 2, []⟩)), .code (.ok (CodeLen.eval symOps ⟨2, 2, []⟩)),
       .code (.ok (CodeLen.eval symOps ⟨3, 2, []⟩)), .code (.ok (CodeLen.eval symOps ⟨3, 3, []⟩)),
       .code (.ok (CodeLen.eval symOps ⟨3, 3, []⟩)), .code (.ok (CodeLen.eval symOps ⟨3, 2, []⟩)),
       .code (.ok (CodeLen.eval symOps ⟨1, 1, [1]⟩)),
       .code (.ok (CodeLen.eval symOps ⟨3, 3, [2]⟩)), .code (.ok (CodeLen.eval symOps ⟨1, 1, []⟩))] := by
  decide

end ESR.C08
