import ESRVerif.Props.C19b
import ESRVerif.Proofs.PanthAnalytic
/-!
C19c — the ANALYTIC branch of `PanthLikelihood.get_pred` (`integrated=True`, likelihood.py l.236) and what makes it correct.

`run_sympify(try_integration=True)` hands `1 / sqrt(eq)` to `sympy.integrate` and returns the result unprocessed
(regenerated, fail closed: `Gen.Panth.sympifyIntegrand`; any wrapping of the call - `.subs(..)`, `posify`, ... - is rejected
by the extractor); `get_pred` then forms `dL = eq_numpy(zp1, *a) − eq_numpy(1, *a)` (regenerated: `Gen.Panth.analytic`) and the
same `mu` as the numerical branch.  Over ℝ, `P = eq_numpy(·, *a)` the lambdified antiderivative expression, `G` the integrand:

* `AntiderivativeContract G P b` — `∀ x ∈ [1, b], HasDerivAt P (G x) x`.  This is the CONTRACT OF `sympy.integrate`
  (third party) for the parameter values at hand.  It is NOT proved; `harness/props/c19.py` checks it on every run on the
  antiderivative expressions the real `run_sympify` produced, for parameter values of both signs.
* `analytic_dL_eq_integral` — contract + `G` continuous on `[1, b]` ⟹ `Gen.Panth.analytic P z = ∫₁^z G` (Mathlib FTC-2).
* `analytic_mu_eq_defining_integral` — … hence `getPredIntegrated` returns `5 log10 (z ∫₁^z G) + mu_const` for every data point.
* `analytic_path_agrees_with_numeric_partial` — for `H² = F` C² and positive on `[1, hi]` (real square root), shipped grid:
  `|dL_numeric i − dL_analytic i| ≤ ζ h² (zp1 i − 1)/12`, the quadrature bound of `dL_error_le_smooth_positive_real`.
  `_partial`: the contract is a hypothesis the property does not grant.
* `analytic_negated_of_negated_contract`, `analytic_dL_neg_of_negated_contract`, `posified_antiderivative_negates` — the
  contract is NEEDED, in exactly the way the seeded change C19c breaks it: an `P` with `P' = −G` (posified integration of
  `H² = (a x)²` returns `log x / a`, whose derivative is `−1/√((a x)²)` for `a < 0`) makes the analytic branch return MINUS
  the integral, a negative `dL` (so `log10` is undefined: the real code returns nan) although `H²` is smooth and positive.
* `sympify_integrand_eq_get_pred_integrand` — the integrand handed to `sympy.integrate` is the integrand the numerical branch
  evaluates on its grid (both regenerated).
-/
namespace ESR.C19
open ESR.Panth ESR.Gen

/-- The contract of `sympy.integrate` on `[1, b]` for the parameter values at hand: the returned expression `P`
(as a function of `x`) is differentiable with derivative the integrand `G` at every point of the integration range. -/
def AntiderivativeContract (G P : ℝ → ℝ) (b : ℝ) : Prop :=
  ∀ x ∈ Set.Icc (1 : ℝ) b, HasDerivAt P (G x) x

/-- `run_sympify` integrates the very integrand the numerical branch of `get_pred` evaluates (l.318 vs l.249/251). -/
theorem sympify_integrand_eq_get_pred_integrand {α : Type} [Add α] [Sub α] [Mul α] [Div α] [NatCast α]
    (sqrt F : α → α) (x : α) : Gen.Panth.sympifyIntegrand sqrt F x = Gen.Panth.integrand sqrt F x := rfl

/-- The regenerated analytic branch over ℝ: upper limit `z`, lower limit the literal 1 (= `Gen.Panth.intStart`). -/
theorem analytic_eq_sub (P : ℝ → ℝ) (z : ℝ) :
    Gen.Panth.analytic P z = P z - P ((Gen.Panth.intStart : ℕ) : ℝ) := by
  simp [Gen.Panth.analytic, Gen.Panth.intStart]

/-- Under the contract (and continuity of the integrand) the analytic branch's `dL` IS the defining integral. -/
theorem analytic_dL_eq_integral (G P : ℝ → ℝ) (b z : ℝ) (hz : z ∈ Set.Icc (1 : ℝ) b)
    (hP : AntiderivativeContract G P b) (hG : ContinuousOn G (Set.Icc 1 b)) :
    Gen.Panth.analytic P z = ∫ t in (1 : ℝ)..z, G t := by
  rw [← antideriv_sub_eq_integral hz hP hG]
  simp [Gen.Panth.analytic]

/-- … and the distance moduli `get_pred(zp1, a, P, integrated=True)` returns are
`5 log10 (zp1_i · ∫₁^{zp1_i} G) + mu_const`, for any sample in `[1, b]` (sorted or not, duplicates). -/
theorem analytic_mu_eq_defining_integral (c : Cfg ℝ) (zp1 : List ℝ) (G P : ℝ → ℝ) (b : ℝ)
    (hz : ∀ z ∈ zp1, z ∈ Set.Icc (1 : ℝ) b) (hP : AntiderivativeContract G P b) (hG : ContinuousOn G (Set.Icc 1 b)) :
    getPredIntegrated c zp1 P = zp1.map (fun z => 5 * c.log10 ((∫ t in (1 : ℝ)..z, G t) * z) + c.muConst) := by
  rw [analytic_formula]
  apply List.map_congr_left
  intro z hzm
  rw [antideriv_sub_eq_integral (hz z hzm) hP hG]

/-- A twice continuously differentiable positive `H²` gives an integrand `1/√(H²)` continuous on `[1, hi]`. -/
theorem integrand_continuousOn (F : ℝ → ℝ) (hi : ℝ) (hF : ∀ t ∈ Set.Icc (1 : ℝ) hi, ContDiffAt ℝ 2 F t)
    (hpos : ∀ t ∈ Set.Icc (1 : ℝ) hi, 0 < F t) : ContinuousOn (fun t => 1 / Real.sqrt (F t)) (Set.Icc 1 hi) :=
  fun t ht => (integrand_contDiffAt F t (hF t ht) (hpos t ht)).continuousAt.continuousWithinAt

/-- The analytic path agrees with the numerical path within the quadrature bound of the grid.  Hypotheses of
`dL_error_le_smooth_positive_real` (all granted by the property) plus the contract of `sympy.integrate`
(`_partial`: NOT granted by the property, third-party; checked at run time on the real antiderivative expressions). -/
theorem analytic_path_agrees_with_numeric_partial (ceilNat : ℝ → Option Nat) (lg : ℝ → ℝ) (zp1 g : List ℝ) (m : List Nat)
    (F P : ℝ → ℝ) (lo hi ζ : ℝ)
    (hg : grid (Cfg.shipped ceilNat Real.sqrt lg) zp1 = some g) (hm : mask g zp1 = some m)
    (hlo : minL zp1 = some lo) (hhi : maxL zp1 = some hi)
    (hz : ∀ z ∈ zp1, 1 ≤ z) (hceil : ∀ x n, ceilNat x = some n → x ≤ n)
    (hF : ∀ t ∈ Set.Icc (1 : ℝ) hi, ContDiffAt ℝ 2 F t) (hpos : ∀ t ∈ Set.Icc (1 : ℝ) hi, 0 < F t)
    (hζ : ∀ t ∈ Set.Icc (1 : ℝ) hi, |deriv (deriv (fun t => 1 / Real.sqrt (F t))) t| ≤ ζ)
    (hP : AntiderivativeContract (fun t => 1 / Real.sqrt (F t)) P hi) :
    ∃ sel, dLNumeric (Cfg.shipped ceilNat Real.sqrt lg) g m F = some sel ∧ sel.length = zp1.length ∧
      ∀ i (hi' : i < zp1.length), ∃ s, sel[i]? = some s ∧
        |s - Gen.Panth.analytic P zp1[i]| ≤ ζ * (max ((lo - 1) / 9) (1 / 25)) ^ 2 * (zp1[i] - 1) / 12 := by
  obtain ⟨sel, h1, h2, h3⟩ := dL_error_le_smooth_positive_real ceilNat lg zp1 g m F lo hi ζ hg hm hlo hhi hz hceil hF hpos hζ
  refine ⟨sel, h1, h2, fun i hi' => ?_⟩
  obtain ⟨s, e1, e2⟩ := h3 i hi'
  refine ⟨s, e1, ?_⟩
  have hmem : zp1[i] ∈ Set.Icc (1 : ℝ) hi :=
    ⟨hz _ (List.getElem_mem hi'), (maxL_spec hhi).2 _ (List.getElem_mem hi')⟩
  rw [analytic_dL_eq_integral (fun t => 1 / Real.sqrt (F t)) P hi zp1[i] hmem hP (integrand_continuousOn F hi hF hpos)]
  exact e2

/-! ### the contract is needed -/

/-- If the expression has derivative `−G` instead of `G` (the contract fails by a sign), the analytic branch returns
MINUS the defining integral. -/
theorem analytic_negated_of_negated_contract (G P : ℝ → ℝ) (b z : ℝ) (hz : z ∈ Set.Icc (1 : ℝ) b)
    (hP : AntiderivativeContract (fun x => -G x) P b) (hG : ContinuousOn G (Set.Icc 1 b)) :
    Gen.Panth.analytic P z = -∫ t in (1 : ℝ)..z, G t := by
  rw [analytic_dL_eq_integral (fun x => -G x) P b z hz hP hG.neg, intervalIntegral.integral_neg]

/-- … which is negative for a positive integrand and `z > 1`: `log10` of it is undefined (nan in the real code), whereas the
numerical branch stays within the quadrature bound of the positive integral. -/
theorem analytic_dL_neg_of_negated_contract (G P : ℝ → ℝ) (b z : ℝ) (hz : z ∈ Set.Icc (1 : ℝ) b) (hz1 : 1 < z)
    (hP : AntiderivativeContract (fun x => -G x) P b) (hG : ContinuousOn G (Set.Icc 1 b))
    (hpos : ∀ t ∈ Set.Icc (1 : ℝ) b, 0 < G t) : Gen.Panth.analytic P z < 0 := by
  rw [analytic_negated_of_negated_contract G P b z hz hP hG]
  exact neg_neg_of_pos (integral_pos_of_pos hz hz1 hG hpos)

/-- The seeded change C19c on `H² = square(a0*x)`: posified integration returns `log x / a`, and for `a < 0` the analytic
branch gives MINUS `∫₁^z dx/√((a x)²)` — although `H²` is smooth and positive. -/
theorem posified_antiderivative_negates (a b z : ℝ) (ha : a < 0) (hz : z ∈ Set.Icc (1 : ℝ) b) :
    Gen.Panth.analytic (fun x => Real.log x / a) z = -∫ t in (1 : ℝ)..z, 1 / Real.sqrt ((a * t) ^ 2) :=
  analytic_negated_of_negated_contract (fun t => 1 / Real.sqrt ((a * t) ^ 2)) _ b z hz
    (fun x hx => log_div_hasDerivAt_neg a x ha (by linarith [hx.1])) (inv_sqrt_sq_continuousOn a b ha.ne)

/-- … while the antiderivative of the unchanged tree, `log x / |a|`, satisfies the contract for either sign of `a`. -/
theorem unposified_antiderivative_contract (a b : ℝ) (ha : a ≠ 0) :
    AntiderivativeContract (fun t => 1 / Real.sqrt ((a * t) ^ 2)) (fun x => Real.log x / |a|) b :=
  fun x hx => log_div_abs_hasDerivAt a x ha (by linarith [hx.1])

/-! ### non-vacuity -/

-- hypotheses of `analytic_dL_eq_integral` / `analytic_mu_eq_defining_integral` at a NEGATIVE parameter value, a0 = −70,
-- unsorted sample with a duplicate in [1, 3]
example : AntiderivativeContract (fun t => 1 / Real.sqrt (((-70 : ℝ) * t) ^ 2)) (fun x => Real.log x / |(-70 : ℝ)|) 3 ∧
    ContinuousOn (fun t : ℝ => 1 / Real.sqrt (((-70 : ℝ) * t) ^ 2)) (Set.Icc 1 3) ∧
    ∀ z ∈ ([5/4, 6/5, 5/4] : List ℝ), z ∈ Set.Icc (1 : ℝ) 3 := by
  refine ⟨unposified_antiderivative_contract (-70) 3 (by norm_num), inv_sqrt_sq_continuousOn (-70) 3 (by norm_num), ?_⟩
  intro z hz
  simp only [List.mem_cons, List.not_mem_nil, or_false] at hz
  rcases hz with rfl | rfl | rfl <;> constructor <;> norm_num

-- hypotheses of `analytic_negated_of_negated_contract` / `analytic_dL_neg_of_negated_contract` (the seeded situation)
example : AntiderivativeContract (fun x => -(1 / Real.sqrt (((-70 : ℝ) * x) ^ 2))) (fun x => Real.log x / (-70 : ℝ)) 3 ∧
    (∀ t ∈ Set.Icc (1 : ℝ) 3, 0 < 1 / Real.sqrt (((-70 : ℝ) * t) ^ 2)) := by
  refine ⟨fun x hx => log_div_hasDerivAt_neg (-70) x (by norm_num) (by linarith [hx.1]), ?_⟩
  intro t ht
  rw [sqrt_sq_mul (-70) t (by linarith [ht.1])]
  have : 0 < |(-70 : ℝ)| * t := mul_pos (by norm_num) (by linarith [ht.1])
  positivity

-- hypotheses of `analytic_path_agrees_with_numeric_partial` hold together: shipped constants, real ceiling and square
-- root, sample [5/4, 6/5, 5/4] (unsorted, duplicate), `H² = 1` (the function `1` of the run-time family), antiderivative `x`, ζ = 0
example : ∃ g m, grid (Cfg.shipped ceilR Real.sqrt id) [5/4, 6/5, 5/4] = some g ∧ mask g [5/4, 6/5, 5/4] = some m ∧
    minL ([5/4, 6/5, 5/4] : List ℝ) = some (6/5) ∧ maxL ([5/4, 6/5, 5/4] : List ℝ) = some (5/4) ∧
    (∀ z ∈ ([5/4, 6/5, 5/4] : List ℝ), (1 : ℝ) ≤ z) ∧
    (∀ t ∈ Set.Icc (1 : ℝ) (5/4), ContDiffAt ℝ 2 (fun _ : ℝ => (1 : ℝ)) t) ∧ (∀ t ∈ Set.Icc (1 : ℝ) (5/4), (0 : ℝ) < (fun _ : ℝ => (1 : ℝ)) t) ∧
    (∀ t ∈ Set.Icc (1 : ℝ) (5/4), |deriv (deriv (fun t => 1 / Real.sqrt ((fun _ : ℝ => (1 : ℝ)) t))) t| ≤ 0) ∧
    AntiderivativeContract (fun t => 1 / Real.sqrt ((fun _ : ℝ => (1 : ℝ)) t)) (fun x => x) (5/4) := by
  have hz : ∀ z ∈ ([5/4, 6/5, 5/4] : List ℝ), (1 : ℝ) ≤ z := by
    intro z hz
    simp only [List.mem_cons, List.not_mem_nil, or_false] at hz
    rcases hz with rfl | rfl | rfl <;> norm_num
  have hlo : minL ([5/4, 6/5, 5/4] : List ℝ) = some (6/5) := by
    simp only [minL, List.foldl_cons, List.foldl_nil]; norm_num
  have hhi : maxL ([5/4, 6/5, 5/4] : List ℝ) = some (5/4) := by
    simp only [maxL, List.foldl_cons, List.foldl_nil]; norm_num
  obtain ⟨g, hg⟩ := grid_defined (Cfg.shipped ceilR Real.sqrt id) [5/4, 6/5, 5/4] (by simp) (fun x => rfl)
  obtain ⟨m, hm, _, _⟩ := mask_correct (Cfg.shipped ceilR Real.sqrt id) _ g hg
  refine ⟨g, m, hg, hm, hlo, hhi, hz, fun t _ => contDiffAt_const, fun t _ => one_pos, ?_, ?_⟩
  · intro t _
    simp
  · intro x _
    have h : HasDerivAt (fun x : ℝ => x) 1 x := hasDerivAt_id' x
    simpa using h

end ESR.C19
