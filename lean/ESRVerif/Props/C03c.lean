import ESRVerif.Proofs.LibraryRanks
/-!
C03 / C13 (the do_sympy driver on P ranks) — **the library does not depend on the number of ranks, and is sound on any
number of ranks.**

`Model/Library` (section `Ranks`) runs one call of `sympy_simplify` the way the code does on `P` ranks: every rank slices
its `split_idx` block out of the unique strings and their chains (`rankBlock`), runs the CAS on the block, and
`make_changes` — `Model/Gather.makeChanges` with the index arithmetic `ESR.Gen.Gather.makeChanges` that the extractor reads from
today's source — splices the per-rank lists back into the broadcast lists; `roundRanks`/`loopRanks`/`doSympyRanks`/
`dupMainRanks` are `round`/`loop`/`doSympy`/`dupMain` with that call.  Proved here for every list length (incl. 0) and every
`P ≥ 1` (incl. more ranks than items; a surplus rank has an empty block and writes nothing):

* `casCallRanks_eq`, `makeChangesRanks_eq` — one call on `P` ranks is the call without ranks (`seqCall`);
* `roundRanks_eq_round`, `doSympyRanks_eq_doSympy` — all rounds, both loops, any fuel;
* `doSympyRanks_sound` — `doSympy_sound` transported: sound per-item CAS steps give a sound library on any number of ranks;
* `library_files_rank_independent` — the returned strings, the round count, every round file and the four library files
  are the same lists for all `P, Q ≥ 1`;
* `perItem_needed` — the hypothesis `PerItem` (C13's `hpure`: the CAS answer for an item depends on that item only, not on
  its block neighbours) cannot be dropped.

`PerItem` is a HYPOTHESIS on the CAS pass.  The real `sympy_simplify` is per-item in its substitution passes; its two
"is the sign-flipped / permuted form already in the list" passes look the WHOLE broadcast `all_fun` up (not the block), and
are not covered by this model (`Model/Library` header).  The scripted CAS of the correspondence runs is per-item by
construction (`pointwise_perItem`).
-/
namespace ESR.C03c
open ESR.Library ESR.Partition ESR.Gather ESR.C03

variable {μ : Type}

/-- the index arithmetic of `make_changes` as read from the source today -/
abbrev mc : MakeChangesDesc := ESR.Gen.Gather.makeChanges

/-- **One `sympy_simplify` call on `P` ranks equals the call without ranks** for a per-item CAS pass: every rank works on
its `split_idx` block, `make_changes` puts the blocks back in rank order — for every `P ≥ 1`, also `P` larger than the
number of items and for an empty list. -/
theorem casCallRanks_eq (cas : Oracle String μ) (hpure : PerItem cas) (P : Nat) (hP : 1 ≤ P) (e c : Bool) (i : Nat)
    (f : List String) (t : List (OChain μ)) (hl : f.length = t.length) :
    casCallRanks mc P cas e c i f t = some (seqCall cas e c i f t) := by
  obtain ⟨g, hg⟩ := hpure
  exact casCallRanks_itemwise mc ESR.C13b.generated_makeChanges_sound g cas hg P hP e c i f t hl

/-- in particular the call is the same on any two rank counts -/
theorem casCallRanks_rank_independent (cas : Oracle String μ) (hpure : PerItem cas) (P Q : Nat) (hP : 1 ≤ P) (hQ : 1 ≤ Q)
    (e c : Bool) (i : Nat) (f : List String) (t : List (OChain μ)) (hl : f.length = t.length) :
    casCallRanks mc P cas e c i f t = casCallRanks mc Q cas e c i f t := by
  rw [casCallRanks_eq cas hpure P hP e c i f t hl, casCallRanks_eq cas hpure Q hQ e c i f t hl]

/-- **`make_changes` on `P` ranks.** When the ranks pass the `split_idx` blocks of whole lists `f'`, `t'` (whatever they
are), every rank ends with `f'` and, position by position, `t'` where the string changed and the old chain elsewhere. -/
theorem makeChangesRanks_eq (f f' : List String) (t t' : List (OChain μ)) (P : Nat) (hP : 1 ≤ P)
    (hf : f'.length = f.length) (ht : t.length = f.length) (ht' : t'.length = f.length) :
    makeChanges mc f f t ((List.range P).map fun r =>
        ({ str := blockSlice f' P r, sym := blockSlice f' P r, inv := blockSlice t' P r } : Local String (List (Entry μ))))
      = some (f', mergeChanged f f' f f', mergeChanged f f' t t') := by
  have hlen : BlockLengths f.length ((List.range P).map fun r =>
      ({ str := blockSlice f' P r, sym := blockSlice f' P r, inv := blockSlice t' P r } : Local String (List (Entry μ)))) := by
    intro r h
    have hr : r < P := by simpa using h
    simp only [List.getElem_map, List.getElem_range, List.length_map, List.length_range, true_and]
    rw [length_blockSlice f' P r hP hr, length_blockSlice t' P r hP hr, hf, ht']
    exact ⟨rfl, rfl⟩
  rw [makeChanges_of_sound f _ mc ESR.C13b.generated_makeChanges_sound f t (by simpa using hP) rfl ht hlen]
  have h1 := flatten_blocks_map f' id P hP
  have h2 := flatten_blocks_map t' id P hP
  simp only [List.map_id] at h1 h2
  simp only [List.map_map, Function.comp_def, h1, h2]

/-- **One round on `P` ranks is the round.** -/
theorem roundRanks_eq_round (simps : Nat → Oracle String μ) (hpure : ∀ g, PerItem (simps g)) (P : Nat) (hP : 1 ≤ P)
    (np : String → Nat) (maxParam : Nat) (dflt : String) (e : Bool) (st : St String μ) :
    roundRanks mc P simps np maxParam dflt e st = round (fun g => seqCall (simps g)) np maxParam dflt e st :=
  roundRanks_eq mc ESR.C13b.generated_makeChanges_sound P hP simps hpure np maxParam dflt e st

/-- **do_sympy on `P` ranks is do_sympy**: all rounds of both loops, any fuel; same `none` (= raised) cases. -/
theorem doSympyRanks_eq_doSympy (simps : Nat → Oracle String μ) (hpure : ∀ g, PerItem (simps g)) (P : Nat) (hP : 1 ≤ P)
    (np : String → Nat) (maxParam : Nat) (dflt : String) (fuel : Nat) (allFun symKeys : List String) :
    doSympyRanks mc P simps np maxParam dflt fuel allFun symKeys
      = doSympy (fun g => seqCall (simps g)) np maxParam dflt fuel allFun symKeys :=
  doSympyRanks_eq mc ESR.C13b.generated_makeChanges_sound P hP simps hpure np maxParam dflt fuel allFun symKeys

/-- **The library is sound on any number of ranks** (`doSympy_sound` transported): if every per-item CAS answer is a sound
rewrite then, for every `P ≥ 1` and however many rounds the loops make, the round files rank 0 wrote recombine to one chain
per function and every function is `Sound` w.r.t. the string it ends with and that chain. -/
theorem doSympyRanks_sound {Θ V : Type} (den : String → Θ → V) (np : String → Nat) (ap : μ → Θ → Θ)
    (simps : Nat → Oracle String μ) (hs : ∀ g, OracleSound den np ap (simps g)) (hpure : ∀ g, PerItem (simps g))
    (P : Nat) (hP : 1 ≤ P) (npc : String → Nat) (maxParam : Nat) (d : String) (fuel : Nat)
    (allFun symKeys : List String) (res : Result String μ)
    (h : doSympyRanks mc P simps npc maxParam d fuel allFun symKeys = some res) :
    ∃ chains, combine allFun.length (res.rounds.map (fun r => (r.idx, r.subs))) = some chains ∧
      chains.length = allFun.length ∧ res.allFun.length = allFun.length ∧
      ∀ i, i < allFun.length →
        (uniqueKeys res.allFun).getD (firstIndex (uniqueKeys res.allFun) (res.allFun.getD i d)) d = res.allFun.getD i d ∧
        Sound den np ap (allFun.getD i d) (res.allFun.getD i d) (chains.getD i []) := by
  rw [doSympyRanks_eq_doSympy simps hpure P hP] at h
  exact doSympy_sound den np ap _ (fun g => seqCall_sound den np ap (simps g) (hs g)) npc maxParam d fuel allFun symKeys res h

/-- **The library files do not depend on the rank count**: do_sympy's result (returned strings, round count, every round
file, the dict keys handed to expand_or_factor) and everything duplicate_checker.main writes from it (all_equations,
unique_equations, matches, inv_subs) are the same for all `P, Q ≥ 1`. -/
theorem library_files_rank_independent (simps : Nat → Oracle String μ) (hpure : ∀ g, PerItem (simps g)) (P Q : Nat)
    (hP : 1 ≤ P) (hQ : 1 ≤ Q) (has : String → Nat → Bool) (symp : String → String)
    (cancel : Nat → Option (List (Entry μ)) → Option (List (Entry μ))) (dflt : String) (fuelMP fuel : Nat)
    (gen exOrig : List String) (perm : List Nat) :
    (∀ np maxParam allFun symKeys, doSympyRanks mc P simps np maxParam dflt fuel allFun symKeys
        = doSympyRanks mc Q simps np maxParam dflt fuel allFun symKeys) ∧
    dupMainRanks mc P has symp simps cancel dflt fuelMP fuel gen exOrig perm
      = dupMainRanks mc Q has symp simps cancel dflt fuelMP fuel gen exOrig perm := by
  have hd := ESR.C13b.generated_makeChanges_sound
  refine ⟨fun np maxParam allFun symKeys => ?_, ?_⟩
  · rw [doSympyRanks_eq_doSympy simps hpure P hP, doSympyRanks_eq_doSympy simps hpure Q hQ]
  · rw [dupMainRanks_eq mc hd P hP has symp simps hpure, dupMainRanks_eq mc hd Q hQ has symp simps hpure]

/-! ### `PerItem` cannot be dropped -/

-- instance search runs out of depth on the nested Option/List/Prod types of the concrete runs below
instance decPair : DecidableEq (List String × List (OChain Unit)) := inferInstance
instance decTriple : DecidableEq (List String × List String × List (Option (List (Entry Unit)))) := inferInstance

/-- a CAS pass that looks at its block neighbours: every string of the block is merged into the block's first string
(what a rank-local dedup does) -/
def blockHead : Oracle String Unit := fun _ _ _ f t => (f.map (fun _ => f.headD "?"), t)

/-- **Without `PerItem` the rank count shows**: with `blockHead` two functions are merged on one rank and kept apart on
two ranks — in one call and in the library do_sympy returns. -/
theorem perItem_needed :
    casCallRanks mc 1 blockHead false false 1 ["a0", "b0"] [none, none]
      ≠ casCallRanks mc 2 blockHead false false 1 ["a0", "b0"] [none, none] ∧
    (doSympyRanks mc 1 (fun _ => blockHead) (fun _ => 1) 1 "?" 5 ["a0", "b0"] ["a0", "b0"]).map (·.allFun)
      ≠ (doSympyRanks mc 2 (fun _ => blockHead) (fun _ => 1) 1 "?" 5 ["a0", "b0"] ["a0", "b0"]).map (·.allFun) := by
  constructor <;> decide

/-! ### non-vacuity: concrete runs -/

/-- a per-item CAS in the form of the correspondence runs' scripted one -/
def exCas : Oracle String Unit := pointwiseOracle (fun _ s => if s = "-a0" then ("a0", some [.map ()]) else
  if s = "a0+0" then ("a0", some []) else (s, if s = "x" then some [.nan] else none))

example : PerItem exCas := pointwise_perItem _

/-- 5 items on 1, 2, 3 and 7 (> 5) ranks; 0 items on 3 ranks: the same lists; a chain returned with an unchanged string
(`x`) is not taken over by make_changes, on any rank count -/
example : (List.map (fun P => casCallRanks mc P exCas false true 1 ["-a0", "q", "a0+0", "x", "-a0"] [none, none, none, none, none])
    [1, 2, 3, 7]) = List.replicate 4 (some (["a0", "q", "a0", "x", "a0"], [some [.map ()], none, some [], none, some [.map ()]])) := by
  decide
example : casCallRanks mc 3 exCas false true 1 [] [] = some ([], []) := by decide
example : seqCall exCas false true 1 ["-a0", "x"] [none, none] = (["a0", "x"], [some [.map ()], none]) := by decide

/-- `makeChangesRanks_eq` on 3 strings, 2 and 5 ranks -/
example : (makeChanges mc ["a", "b", "c"] ["a", "b", "c"] [none, none, some [Entry.map ()]] ((List.range 5).map fun r =>
      ({ str := blockSlice ["a", "B", "C"] 5 r, sym := blockSlice ["a", "B", "C"] 5 r,
         inv := blockSlice [some [], some [.nan], none] 5 r } : Local String (List (Entry Unit)))))
    = some (["a", "B", "C"], ["a", "B", "C"], [none, some [.nan], none]) := by decide

/-- the worked example of Props/C03b (5 functions, 4 rounds) on 1, 2, 3 and 6 ranks: hypotheses of
`doSympyRanks_eq_doSympy` / `doSympyRanks_sound` hold (`exSimps g` is pointwise, and sound by the example there) and the
run is the one-rank run -/
example : ∀ g, PerItem (exSimps g) := fun g => pointwise_perItem _

example : (List.map (fun P => (doSympyRanks mc P exSimps exNp 2 "?" 10 ["-a0", "a0", "x", "a0*a1", "-a0"] ["-a0", "a0", "x", "a0*a1"]).map
    (fun r => (r.allFun, r.nround, r.finished))) [1, 2, 3, 6]) = List.replicate 4 (some (["a0", "a0", "x", "a0", "a0"], 4, true)) := by
  decide

example : (doSympyRanks mc 3 exSimps exNp 2 "?" 10 ["-a0", "a0", "x", "a0*a1", "-a0"] ["-a0", "a0", "x", "a0*a1"]).map (·.rounds.map (fun o => (o.idx, o.subs)))
    = exRun.map (·.rounds.map (fun o => (o.idx, o.subs))) := by decide

/-- a KeyError of the one-rank run is a KeyError on 3 ranks -/
example : (doSympyRanks mc 3 exSimps exNp 2 "?" 10 ["-a0", "x"] ["x"]).isNone = true := by decide

end ESR.C03c
