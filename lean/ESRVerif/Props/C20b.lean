import ESRVerif.Proofs.FisherMatch
/-!
# C20 (second part) — the two copies of the zero-snapping / code-length logic coincide on an own-unique tree

`fit_single.single_function` gets its likelihood term and parameter code length from ONE call of the Fisher-stage routine
`test_all_Fisher.convert_params` (Props/C20.lean).  The library pipeline reports, for the same tree, the row that
`match.main` computes — a SECOND implementation of the same decision logic (match.py:104-227).  For a tree that is its own
unique function the recorded chain of substitutions is empty and the transfer is the identity, so C20 needs

    "Fisher stage, then matching stage on the identity chain"  =  "Fisher stage".

## the data flow between the two stages (read off the source; modelled as is)

`match.main` reads, for row `i` with `index = matches[i]`:

* `negloglike[index]`, `params_meas[index,:]` from `negloglike_comp<n>.dat` through `test_all_Fisher.load_loglike`
  (match.py:50).  That file is written by `test_all.main` (the optimiser).  It is **not** the Fisher stage's output: the
  Fisher stage writes its reported parameters / likelihood / code length to `codelen_comp<n>_deriv.dat`, which no stage
  reads.  So the matching stage starts from the same raw `(θ, nll)` the Fisher stage was handed, and re-derives the zeros;
* `all_fish[index,:]` from `derivs_comp<n>.dat` (match.py:56): the `deriv` output of the Fisher stage — the upper triangle
  of the Hessian the Fisher stage finally used (after a step-size fallback: the re-selected one).  This is the only
  quantity that flows from the Fisher stage into the matching stage; `identity_conv_reads_fisher_diag` shows that what
  `simplifier.convert_params` extracts from it at the identity chain is exactly the Fisher stage's `Fisher_diag`;
* the likelihood closure is rebuilt from the tree's own string (match.py:37-41,132-140) — the same function of the
  parameters as the Fisher stage's closure (`fop`).

Numbers: the Fisher-stage model runs over `Codelen.XR ℝ` (`xr`), the matching-stage model over `Match.XR`; both are
`fin r | +∞ | −∞ | NaN` over ℝ.  `toM` translates; `translation_commutes` shows it commutes with every operation either
model uses, so "equal up to `toM`" is equality of the extended reals.
-/
namespace ESR.C20b
open ESR.FisherMatch
open ESR.Codelen (xr thetaX fisherX snapB keptB snappedX termR)

/-- the pairs of branches on which the two routines can meet under `hfin` -/
def sameBranch : Codelen.Branch → Match.Branch → Prop
  | .noSnap, .noSnap => True
  | .snapAll, .snapAll => True
  | .kZero, .kZero => True
  | _, _ => False

/-- **The two copies coincide on the identity chain.**

`rows` lists `(θᵢ, Fᵢᵢ)`: the raw fitted parameters of the tree (row of `negloglike_comp`) and the diagonal of the Hessian
the Fisher stage used (positive, finite: `hpos`); `nll` the raw fitted likelihood; `fop` the likelihood oracle; `mp` =
`max_param`.  `o` is what the Fisher-stage routine returns (hence what `single_function` uses).  Hypothesis forced by the
proof: `hfin` — if some parameter is below one precision step, the likelihood at the snapped parameters is finite.  (It
holds for every tree of C20's quantifier: a function linear in its parameters has a finite Gaussian likelihood at every
parameter vector.)  Then the matching stage's row for the tree — chain `[]`, the same `(θ, nll)`, Fisher diagonal read back
from `derivs`, the same oracle — carries exactly the Fisher stage's reported parameters (zeros included, padded), its
likelihood and its code length, and both routines took the corresponding branch.

Where `hfin` fails the statement is FALSE, in the model (`hfin_needed`) and in the real code (evidence key
`excluded_point_witness`): `match.py` alone has the "infinite nll" branch (lines 180-195, `fish[Nsteps<1] = 12/p**2`),
`test_all_Fisher.convert_params` restores the parameters and keeps the measured curvature. -/
theorem fisher_vs_match_identity_chain {τ : Type} (rows : List (ℝ × ℝ)) (hpos : ∀ r ∈ rows, 0 < r.2) (hne : rows ≠ [])
    (mp : Nat) (hlen : rows.length ≤ mp) (nll : ℝ) (fop : List CX → CX) (o : Codelen.Out CX)
    (hF : Codelen.postHessian xr mp (thetaX rows) (fisherX rows) (.fin nll) fop = .ok o)
    (hfin : (∃ r ∈ rows, |r.1| * Real.sqrt (r.2 / 12) < 1) → xr.isFinite (fop (C07.snapped rows)) = true) :
    ∃ m, Match.matchRow (identityRow τ rows mp nll fop) = some m
      ∧ m.params = o.params.map toM ∧ m.nll = toM o.nll ∧ m.codelen = toM o.codelen
      ∧ sameBranch o.branch m.branch := by
  have hrec := identityRow_recoverable τ rows hpos hne mp nll fop
  by_cases hany : (rows.map snapB).any id = true
  · -- some parameter is below one precision step
    have hex : ∃ r ∈ rows, |r.1| * Real.sqrt (r.2 / 12) < 1 := by
      simp only [List.any_map, List.any_eq_true, Function.comp, id] at hany
      obtain ⟨r, hr, hs⟩ := hany
      exact ⟨r, hr, by simpa [Codelen.snapB_eq] using hs⟩
    have h2 := hfin hex
    rw [C07.snapped, ← Codelen.snappedX_eq] at h2
    obtain ⟨v, hv⟩ := (Codelen.xr_isFinite_iff _).mp h2
    rw [post_snapfin rows mp (.fin nll) fop hpos hlen hany v hv] at hF
    have hs : (List.zipWith Match.snapR (rows.map Prod.fst) (rows.map Prod.snd)).any id = true := by
      rw [zipWith_snapR]; exact hany
    have hrv : (identityRow τ rows mp nll fop).reval (List.zipWith Match.snapR (rows.map Prod.fst) (rows.map Prod.snd))
        = Match.XR.fin v := by
      rw [zipWith_snapR]
      show toM (fop (snappedX rows)) = _
      rw [hv]; rfl
    have hm := C05.matchRow_recoverable_snap _ nll _ _ hrec hs rfl v hrv
    simp only [zipWith_snapR] at hm
    have hn : (identityRow τ rows mp nll fop).nparams = rows.length := rfl
    have hmp : (identityRow τ rows mp nll fop).maxParam = mp := rfl
    rw [hn, hmp] at hm
    refine ⟨_, hm, ?_⟩
    by_cases hk0 : rows.length - (rows.map snapB).count true = 0
    · rw [if_pos hk0] at hF ⊢
      cases hF
      exact ⟨by simp, rfl, rfl, trivial⟩
    · rw [if_neg hk0] at hF ⊢
      cases hF
      refine ⟨?_, rfl, ?_, trivial⟩
      · show Match.pad mp (Match.zeroWhere (rows.map snapB) ((rows.map Prod.fst).map Match.XR.fin))
            = (Codelen.pad xr mp (snappedX rows)).map toM
        rw [pad_toM, snappedX, thetaX_eq, zeroWhere_toM]
      · show Match.XR.fin (C05.codelenR _ (Match.keep ((rows.map snapB).map not) (rows.map Prod.snd))
              (Match.keep ((rows.map snapB).map not) (rows.map Prod.fst))) = toM (Codelen.XR.fin _)
        rw [← Codelen.map_keptB, keep_eq_select, keep_eq_select, Codelen.select_map_right, Codelen.select_map_right,
          codelenR_rows]
        rfl
  · -- nothing is below one precision step
    have hany' : (rows.map snapB).any id = false := by simpa using hany
    rw [post_nosnap rows mp (.fin nll) fop hpos hlen hany'] at hF
    cases hF
    have hs : (List.zipWith Match.snapR (rows.map Prod.fst) (rows.map Prod.snd)).any id = false := by
      rw [zipWith_snapR]; exact hany'
    have hm := C05.matchRow_recoverable_nosnap _ nll _ _ hrec hs
    refine ⟨_, hm, ?_, rfl, ?_, trivial⟩
    · show Match.pad mp ((rows.map Prod.fst).map Match.XR.fin) = (Codelen.pad xr mp (thetaX rows)).map toM
      rw [pad_toM, thetaX_toM]
    · show Match.XR.fin (C05.codelenR rows.length (rows.map Prod.snd) (rows.map Prod.fst)) = toM (Codelen.XR.fin _)
      rw [codelenR_rows]; rfl

/-- **`hfin` cannot be dropped.**  One parameter, below one precision step (`|θ|·√(F/12) < 1`, θ ≠ 0), and a likelihood
that is +∞ once that parameter is set to 0 (e.g. `log(a0·x)`, `x/a0`).  Both routines restore θ and keep the fitted
likelihood, but the Fisher stage keeps the measured curvature `F` (line 215-218: the one-element search loop is empty)
while the matching stage replaces it by `12/θ²` (match.py:180-183).  The pipeline row's parameter code length is then
STRICTLY larger than the single-tree API's, by `½·ln(12/(θ²F))`.  Outside C20's quantifier (a function linear in its
parameters has no such pole); the real routines show the same difference (evidence key `excluded_point_witness`). -/
theorem hfin_needed {τ : Type} (r : ℝ × ℝ) (hpos : 0 < r.2) (h0 : r.1 ≠ 0) (hs : |r.1| * Real.sqrt (r.2 / 12) < 1)
    (mp : Nat) (hmp : 1 ≤ mp) (nll : ℝ) (fop : List CX → CX) (hinf : fop [.fin 0] = .pinf) :
    xr.isFinite (fop (C07.snapped [r])) = false
    ∧ ∃ o m a b, Codelen.postHessian xr mp (thetaX [r]) (fisherX [r]) (.fin nll) fop = .ok o
      ∧ Match.matchRow (identityRow τ [r] mp nll fop) = some m
      ∧ m.params = o.params.map toM ∧ m.nll = toM o.nll
      ∧ o.codelen = .fin b ∧ m.codelen = .fin a ∧ b < a ∧ a - b = 1 / 2 * Real.log (12 / (r.1 * r.1 * r.2)) := by
  have hsb : snapB r = true := by rw [Codelen.snapB_eq]; simpa using hs
  have hlt := snap_curvature_lt r hpos h0 hsb
  have hxx : 0 < r.1 * r.1 := mul_self_pos.mpr h0
  refine ⟨by simp only [C07.snapped, List.map_cons, List.map_nil, if_pos hs, hinf]; rfl, _, _, _, _, post_single_inf r mp (.fin nll) fop hpos hmp hsb h0 hinf,
    matchRow_single_inf τ r mp nll fop hpos hsb h0 hinf, ?_, rfl, rfl, rfl, ?_, ?_⟩
  · simp [Codelen.pad, Match.pad]
  · have := Real.log_lt_log hpos hlt
    simp only [termR]; linarith
  · have h1 : (12 : ℝ) / (r.1 * r.1 * r.2) = 12 / (r.1 * r.1) / r.2 := by rw [div_div]
    rw [h1, Real.log_div (by positivity) hpos.ne']
    simp only [termR]; ring

open Classical in
/-- the hypotheses of `hfin_needed` are satisfiable: θ = 1/100, F = 12, a likelihood with a pole at 0 -/
example : ∃ o m a b, Codelen.postHessian xr 4 (thetaX [((1 : ℝ) / 100, (12 : ℝ))]) (fisherX [((1 : ℝ) / 100, (12 : ℝ))]) (.fin 7)
      (fun v => if v = [.fin 0] then .pinf else .fin 7) = .ok o
    ∧ Match.matchRow (identityRow Unit [((1 : ℝ) / 100, (12 : ℝ))] 4 7 (fun v => if v = [.fin 0] then .pinf else .fin 7)) = some m
    ∧ o.codelen = .fin b ∧ m.codelen = .fin a ∧ b < a := by
  obtain ⟨_, o, m, a, b, h1, h2, _, _, h5, h6, h7, _⟩ := hfin_needed (τ := Unit) ((1 : ℝ) / 100, (12 : ℝ)) (by norm_num) (by norm_num)
    (by norm_num) 4 (by decide) 7 (fun v => if v = [.fin 0] then .pinf else .fin 7) (by simp)
  exact ⟨o, m, a, b, h1, h2, h5, h6, h7⟩

/-- The same through the routine's entry (lines 110-239): with positive finite curvature the step-size fallback is not
entered, whatever its outcome would have been. -/
theorem fisher_vs_match_identity_chain_entry {τ : Type} (rows : List (ℝ × ℝ)) (hpos : ∀ r ∈ rows, 0 < r.2)
    (hne : rows ≠ []) (mp : Nat) (hlen : rows.length ≤ mp) (nll : ℝ) (fop : List CX → CX) (fb : Codelen.Fallback CX)
    (o : Codelen.Out CX)
    (hF : Codelen.convertParams xr mp (thetaX rows) (fisherX rows) fb (.fin nll) fop = .ok o)
    (hfin : (∃ r ∈ rows, |r.1| * Real.sqrt (r.2 / 12) < 1) → xr.isFinite (fop (C07.snapped rows)) = true) :
    ∃ m, Match.matchRow (identityRow τ rows mp nll fop) = some m
      ∧ m.params = o.params.map toM ∧ m.nll = toM o.nll ∧ m.codelen = toM o.codelen := by
  rw [C07.good_curvature_no_fallback rows mp (.fin nll) fop hpos fb] at hF
  obtain ⟨m, h1, h2, h3, h4, _⟩ := fisher_vs_match_identity_chain (τ := τ) rows hpos hne mp hlen nll fop o hF hfin
  exact ⟨m, h1, h2, h3, h4⟩

/-- **What flows from the Fisher stage into the matching stage.**  The Fisher stage stores the Hessian `H` it used as
`deriv` (test_all_Fisher.py:80,116-118: `Match.flatten`); at the identity chain `simplifier.convert_params` rebuilds the
symmetric matrix (simplifier.py:1195-1198: `Match.unflatten`) and — the Jacobian being the identity — returns its diagonal.
That diagonal is `Hᵢᵢ`, the Fisher stage's `Fisher_diag`, for all `k ≤ max_param` parameters. -/
theorem identity_conv_reads_fisher_diag {α : Type} (nanv zero : α) (n k : Nat) (H : Nat → Nat → α) (hk : k ≤ n)
    (hsym : ∀ i j, H i j = H j i) :
    ∃ M, Match.unflatten zero n k (Match.flatten nanv n k H) = some M
      ∧ (List.range k).map (fun i => M i i) = (List.range k).map (fun i => H i i) := by
  obtain ⟨M, hM, hent⟩ := C05.unflatten_flatten nanv zero n k H hk hsym
  refine ⟨M, hM, ?_⟩
  apply List.map_congr_left
  intro i hi
  have := List.mem_range.mp hi
  exact hent i i this this

/-- the translation between the two number structures is a bijection that commutes with every operation the two models
apply (`<` except at (+∞,+∞), which neither routine evaluates: the right operand is always the literal 1) -/
theorem translation_commutes :
    (∀ a, toC (toM a) = a) ∧ (∀ a, toM (toC a) = a)
    ∧ (∀ a b, toM (xr.add a b) = Match.Num.add (toM a) (toM b))
    ∧ (∀ a b, toM (xr.mul a b) = Match.Num.mul (toM a) (toM b))
    ∧ (∀ a b, toM (xr.div a b) = Match.Num.div (toM a) (toM b))
    ∧ (∀ a, toM (xr.neg a) = Match.Num.neg (toM a))
    ∧ (∀ a, toM (xr.abs a) = Match.Num.abs (toM a))
    ∧ (∀ a, toM (xr.sqrt a) = Match.Num.sqrt (toM a))
    ∧ (∀ a, toM (xr.log a) = Match.Num.log (toM a))
    ∧ (∀ a b, ¬ (a = .pinf ∧ b = .pinf) → xr.lt a b = Match.Num.lt (toM a) (toM b))
    ∧ (∀ a b, xr.le a b = Match.Num.le (toM a) (toM b))
    ∧ (∀ a, xr.isNaN a = Match.Num.isNaN (toM a))
    ∧ (∀ a, xr.isInf a = Match.Num.isInf (toM a))
    ∧ (∀ a, xr.isFinite a = Match.Num.isFinite (toM a))
    ∧ (∀ n d : Nat, d ≠ 0 → toM (xr.ofRat (n : Int) d) = (Match.Num.ofRat (n, d) : MX))
    ∧ toM xr.nan = (Match.Num.nan : MX) :=
  ⟨toC_toM, toM_toC, toM_add, toM_mul, toM_div, toM_neg, toM_abs, toM_sqrt, toM_log, toM_lt, toM_le, toM_isNaN,
    toM_isInf, toM_isFinite, toM_ofRat, toM_nan⟩

/-- the numeric literals of the two copies denote the same numbers (each side regenerated from its own source file):
`12.` of `Delta`, the threshold `1`, `-k/2.`, `math.log(3.)`, `0.5*np.log(fish)` -/
theorem constants_agree :
    toM (xr.ofRat 12 1) = (Match.Num.ofRat ESR.Gen.Match.deltaNum : MX)
    ∧ toM (xr.ofRat 1 1) = (Match.Num.ofRat ESR.Gen.Match.snapThreshold : MX)
    ∧ toM (xr.ofRat 2 1) = (Match.Num.ofRat ESR.Gen.Match.codelenDiv : MX)
    ∧ toM (xr.ofRat 3 1) = (Match.Num.ofRat ESR.Gen.Match.codelenLogArg : MX)
    ∧ toM (xr.ofRat 1 2) = (Match.Num.ofRat ESR.Gen.Match.fisherWeight : MX)
    ∧ ESR.Gen.Codelen.nstepsExpr = .div (.abs .theta) (.sqrt (.div (.lit 12 1) .fisher))
    ∧ ESR.Gen.Codelen.snapTest = .cmp .lt 1 1
    ∧ ESR.Gen.Codelen.codelenExpr = .add (.mul (.div (.neg .k) (.lit 2 1)) (.log (.lit 3 1)))
        (.sum (.add (.mul (.lit 1 2) (.log .fisher)) (.log (.abs .theta)))) := by
  refine ⟨toM_ofRat 12 1 (by decide), toM_ofRat 1 1 (by decide), toM_ofRat 2 1 (by decide), toM_ofRat 3 1 (by decide),
    toM_ofRat 1 2 (by decide), rfl, rfl, rfl⟩

/-! ### non-vacuity -/

/-- θ = (2, 1/100), F = (12, 12): the second parameter is below one precision step; likelihood 5 at the snapped point -/
private noncomputable def exRows : List (ℝ × ℝ) := [(2, 12), (1 / 100, 12)]

example : ∃ o m, Codelen.postHessian xr 4 (thetaX exRows) (fisherX exRows) (.fin 7) (fun _ => .fin 5) = .ok o
    ∧ Match.matchRow (identityRow Unit exRows 4 7 (fun _ => .fin 5)) = some m
    ∧ m.params = o.params.map toM ∧ m.nll = toM o.nll ∧ m.codelen = toM o.codelen
    ∧ m.params = [.fin 2, .fin 0, .fin 0, .fin 0] ∧ m.nll = .fin 5 := by
  have hpos : ∀ r ∈ exRows, 0 < r.2 := by simp [exRows]
  obtain ⟨o, ho⟩ := C07.no_python_error exRows 4 (.fin 7) (fun _ => .fin 5) hpos (by simp [exRows])
  obtain ⟨m, hm, h1, h2, h3, _⟩ := fisher_vs_match_identity_chain (τ := Unit) exRows hpos (by simp [exRows]) 4
    (by simp [exRows]) 7 (fun _ => .fin 5) o ho (fun _ => rfl)
  have hk := C07.kept_iff exRows 4 (.fin 7) (fun _ => .fin 5) hpos (by simp [exRows]) o ho (fun _ => rfl)
  have hkept : o.kept = [true, false] := by
    rw [hk]; simp [exRows]; norm_num
  have hp := (C07.params_carry_zeros exRows 4 (.fin 7) (fun _ => .fin 5) hpos (by simp [exRows]) o ho).2
  have hn := C07.nll_at_reported_or_unchanged exRows 4 (.fin 7) (fun _ => .fin 5) hpos (by simp [exRows]) o ho
  refine ⟨o, m, ho, hm, h1, h2, h3, ?_, ?_⟩
  · rw [h1, hp, hkept]; simp [exRows]
  · rw [h2]
    rcases hn with h | ⟨_, h, _⟩
    · rw [h]; rfl
    · rw [hkept] at h; simp [exRows] at h

end ESR.C20b
