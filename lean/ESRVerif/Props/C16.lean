import ESRVerif.Model.Effects
import ESRVerif.Generated.Effects
import ESRVerif.Proofs.Effects
/-!
C16 — results do not depend on earlier runs.
-/
namespace ESR.C16
open ESR.Effects

theorem upd_agree (s s' : Store) (fresh : List String) (f : String) (v : List Val)
    (h : ∀ g ∈ fresh, s g = s' g) : ∀ g ∈ f :: fresh, upd s f v g = upd s' f v g := by
  intro g hg
  unfold upd
  by_cases hgf : g = f
  · simp [hgf]
  · simp only [hgf, if_false]
    rcases List.mem_cons.mp hg with h1 | h1
    · exact absurd h1 hgf
    · exact h g h1

/-- **Non-interference.** If every read/append of a stage is of a file the stage itself has already written or
removed (`safe`), then two runs started from ANY two persistent states (left by arbitrary earlier runs) read the same
values and leave the same content in every file they touched. Unbounded in the number of statements and files. -/
theorem history_independent (prog : List Stmt) (fresh : List String) (s s' : Store) (env : List (List Val))
    (hsafe : safe fresh (prog.map (·.eff)) = true) (hagree : ∀ g ∈ fresh, s g = s' g) :
    (exec prog s env).2 = (exec prog s' env).2 ∧
    ∀ g, (g ∈ fresh ∨ g ∈ (prog.map (·.eff.file))) → (exec prog s env).1 g = (exec prog s' env).1 g := by
  induction prog generalizing fresh s s' env with
  | nil =>
    refine ⟨rfl, ?_⟩
    intro g hg
    rcases hg with h | h
    · exact hagree g h
    · simp at h
  | cons st rest ih =>
    simp only [List.map_cons, safe] at hsafe
    cases hacc : st.eff.acc with
    | w =>
      simp only [hacc] at hsafe
      have := ih (st.eff.file :: fresh) (upd s st.eff.file (st.content env)) (upd s' st.eff.file (st.content env)) env
        hsafe (upd_agree s s' fresh _ _ hagree)
      simp only [exec, hacc]
      refine ⟨this.1, ?_⟩
      intro g hg
      apply this.2
      rcases hg with h | h
      · exact Or.inl (List.mem_cons_of_mem _ h)
      · simp only [List.map_cons, List.mem_cons] at h
        rcases h with h | h
        · exact Or.inl (by simp [h])
        · exact Or.inr h
    | rm =>
      simp only [hacc] at hsafe
      have := ih (st.eff.file :: fresh) (upd s st.eff.file []) (upd s' st.eff.file []) env
        hsafe (upd_agree s s' fresh _ _ hagree)
      simp only [exec, hacc]
      refine ⟨this.1, ?_⟩
      intro g hg
      apply this.2
      rcases hg with h | h
      · exact Or.inl (List.mem_cons_of_mem _ h)
      · simp only [List.map_cons, List.mem_cons] at h
        rcases h with h | h
        · exact Or.inl (by simp [h])
        · exact Or.inr h
    | a =>
      simp only [hacc, Bool.and_eq_true] at hsafe
      have hmem : st.eff.file ∈ fresh := by simpa using hsafe.1
      have heq : s st.eff.file = s' st.eff.file := hagree _ hmem
      have hag : ∀ g ∈ fresh, upd s st.eff.file (s st.eff.file ++ st.content env) g
          = upd s' st.eff.file (s' st.eff.file ++ st.content env) g := by
        intro g hg
        unfold upd
        by_cases hgf : g = st.eff.file
        · simp [hgf, heq]
        · simp [hgf, hagree g hg]
      have := ih fresh _ _ env hsafe.2 hag
      simp only [exec, hacc]
      refine ⟨this.1, ?_⟩
      intro g hg
      apply this.2
      rcases hg with h | h
      · exact Or.inl h
      · simp only [List.map_cons, List.mem_cons] at h
        rcases h with h | h
        · exact Or.inl (h ▸ hmem)
        · exact Or.inr h
    | r =>
      simp only [hacc, Bool.and_eq_true] at hsafe
      have hmem : st.eff.file ∈ fresh := by simpa using hsafe.1
      have heq : s st.eff.file = s' st.eff.file := hagree _ hmem
      have := ih fresh s s' (env ++ [s st.eff.file]) hsafe.2 hagree
      simp only [exec, hacc]
      rw [← heq]
      refine ⟨this.1, ?_⟩
      intro g hg
      apply this.2
      rcases hg with h | h
      · exact Or.inl h
      · simp only [List.map_cons, List.mem_cons] at h
        rcases h with h | h
        · exact Or.inl (h ▸ hmem)
        · exact Or.inr h

/-- From an arbitrary earlier state versus a fresh (empty) directory: same files, same bytes. -/
theorem same_as_fresh_run (prog : List Stmt) (s : Store) (hsafe : safe [] (prog.map (·.eff)) = true) :
    ∀ g ∈ prog.map (·.eff.file), (exec prog s []).1 g = (exec prog (fun _ => []) []).1 g := by
  intro g hg
  exact (history_independent prog [] s (fun _ => []) [] hsafe (by simp)).2 g (Or.inr hg)

/-! ### the effect summaries regenerated from today's source -/

/-- generation (duplicate_checker.main and everything it calls, in execution order): no file of the library
directory is read or appended to before this same run has written/truncated it -/
theorem generation_no_read_before_write : safe [] ESR.Gen.Effects.generation = true := by decide +kernel

/-- Each fitting stage reads, besides files it has itself (over)written, only its declared inputs: the library files
and the outputs of the previous stage.  With `history_independent` (started with `fresh :=` those inputs): given the same
inputs a stage leaves the same bytes whatever else earlier runs left in the output and temporary directories. -/
theorem fit_stage_reads_only_inputs :
    safe ["all_equations_#.txt", "unique_equations_#.txt"] ESR.Gen.Effects.fitStage = true := by decide +kernel

theorem fisher_stage_reads_only_inputs :
    safe ["all_equations_#.txt", "unique_equations_#.txt", "negloglike_comp#.dat"] ESR.Gen.Effects.fisherStage = true := by
  decide +kernel

theorem match_stage_reads_only_inputs :
    safe ["all_equations_#.txt", "negloglike_comp#.dat", "inv_subs_#.txt", "matches_#.txt", "derivs_comp#.dat"]
      ESR.Gen.Effects.matchStage = true := by decide +kernel

theorem combine_stage_reads_only_inputs :
    safe ["unique_equations_#.txt", "all_equations_#.txt", "codelen_matches_comp#.dat", "#.txt"]
      ESR.Gen.Effects.combineStage = true := by decide +kernel

/-- the shuffles are seeded inside the stage, right before they are drawn -/
theorem shuffles_seeded : ESR.Gen.Effects.unseededShuffles = [] := by decide +kernel

/-- every key a stage reads from the shared sympy symbol table is either static or (re)written by that call -/
theorem locs_keys_written : ESR.Gen.Effects.locsReadBeforeWrite = [] := by decide +kernel

/-! ### every execution of the stage (loops that run zero times or skip indices, open modes chosen at run time) -/

/-- **Truncation dominates every read/append on every path.**  If the structured summary passes `safeAll` (decided in Lean on
the regenerated table), then on EVERY execution of the stage — every loop body run any number of times including zero, a loop
that is not `for v in range(e)` skipping any index, every run-time choice of an open mode taken either way — each file read or
appended to has been truncated, written or removed earlier in that same execution. -/
theorem truncation_dominates_every_execution (prog : Prog) (fresh : List String) (h : safeAll fresh prog = true) :
    ∀ runs : List (List IterChoice), safe fresh (trace prog runs) = true :=
  safe_trace prog fresh h

/-- `history_independent` for every execution of a structured stage: whatever path the stage takes, two runs from any two
persistent states (agreeing on `fresh`, the declared inputs) read the same values and leave the same bytes. -/
theorem history_independent_every_execution (prog : Prog) (fresh : List String) (h : safeAll fresh prog = true)
    (runs : List (List IterChoice)) (stmts : List Stmt) (hst : stmts.map (·.eff) = trace prog runs)
    (s s' : Store) (env : List (List Val)) (hagree : ∀ g ∈ fresh, s g = s' g) :
    (exec stmts s env).2 = (exec stmts s' env).2 ∧
    ∀ g, (g ∈ fresh ∨ g ∈ (stmts.map (·.eff.file))) → (exec stmts s env).1 g = (exec stmts s' env).1 g :=
  history_independent stmts fresh s s' env (hst ▸ truncation_dominates_every_execution prog fresh h runs) hagree

/-- **The truncation is needed on the path taken** (why a conditional truncation is not enough).  Take any execution of a
stage in which the file `p` is appended to but no truncating open / write / remove of `p` happens — e.g. its only truncation is
`open(p, 'w' if i == 0 else 'a')` inside a loop and this execution never visits `i = 0`.  Then whatever the stage writes,
there are two initial persistent states (an empty directory, and one where an earlier run left something in `p`) after which
`p` holds different bytes; and the dominance check rejects the summary (`safeAll [] prog = false`). -/
theorem append_after_conditional_truncate_depends_on_history (prog : Prog) (runs : List (List IterChoice)) (p : String)
    (stmts : List Stmt) (hst : stmts.map (·.eff) = trace prog runs)
    (hnotrunc : ∀ e ∈ trace prog runs, e.file = p → e.acc.isWrite = false)
    (happend : ∃ e ∈ trace prog runs, e.file = p ∧ e.acc = .a) :
    (∃ s s' : Store, (exec stmts s []).1 p ≠ (exec stmts s' []).1 p) ∧ safeAll [] prog = false := by
  constructor
  · have hno : ∀ st ∈ stmts, st.eff.file = p → st.eff.acc.isWrite = false := by
      intro st hm
      exact hnotrunc st.eff (hst ▸ List.mem_map_of_mem hm)
    let n := ((exec stmts (fun _ => []) []).1 p).length
    refine ⟨fun _ => List.replicate (n + 1) 0, fun _ => [], ?_⟩
    obtain ⟨suf, hs⟩ := exec_keeps_prefix p stmts (fun _ => List.replicate (n + 1) 0) [] hno
    intro heq
    have hlen := congrArg List.length heq
    rw [hs] at hlen
    simp only [List.length_append, List.length_replicate] at hlen
    omega
  · cases hsa : safeAll [] prog with
    | false => rfl
    | true =>
      have h1 := truncation_dominates_every_execution prog [] hsa runs
      have h2 := unsafe_of_untruncated_append p (trace prog runs) [] (by simp) hnotrunc happend
      rw [h1] at h2
      exact absurd h2 (by decide)

/-- files of a numbered family written by one loop of the stage and read back, member by member, by a later loop over the
same count (`inv_subs_<n>_round_<k>`: written in round `k` of `do_sympy`, read by `load_subs` for `k < nround`).  That the later
loop reads only members the earlier one wrote is a fact about the DATA (the round count), not about the order of statements:
it is declared here and checked on every run by the audit trace (exact file names, `trace:read-before-write`). -/
def roundFamilies : List String := ["inv_idx_#_round_#.txt", "inv_subs_#_round_#.txt"]

/-- generation, every execution: apart from the declared round families, no file of the library directory is read or appended
to on ANY path through duplicate_checker.main — zero topologies, skipped topologies, either arm of a run-time open mode —
before that same execution has truncated/written it. -/
theorem generation_truncation_dominates_every_execution :
    safeAll roundFamilies ESR.Gen.Effects.generationProg = true := by decide +kernel

/-- the appends of the topology loop start from files emptied on every path (nothing declared is involved) -/
theorem generation_appends_dominated :
    safeAll [] (ESR.Gen.Effects.generationProg.take 2) = true ∧
    (ESR.Gen.Effects.generationProg.drop 2).all (fun b => match b with
      | .straight ops | .loop _ ops => ops.all (fun g => g.eff.acc != .a && g.alt != .a)) = true := by decide +kernel

/-- the structured summary lists the same effects as the flat one (conditional modes flattened to their weakest arm) -/
theorem generation_prog_flattens :
    (ESR.Gen.Effects.generationProg.flatMap (fun b => match b with
      | .straight ops | .loop _ ops => ops.map (GEff.weak none))) = ESR.Gen.Effects.generation := by decide +kernel

/-- With `history_independent_every_execution`: every execution of the generation stage leaves the same bytes from any two
persistent states that agree on the declared round families.  Partial: the property grants no such agreement; that the
round files read are the ones this run wrote is observed (audit trace), not proved. -/
theorem generation_history_independent_every_execution_partial (runs : List (List IterChoice)) (stmts : List Stmt)
    (hst : stmts.map (·.eff) = trace ESR.Gen.Effects.generationProg runs) (s s' : Store)
    (hagree : ∀ g ∈ roundFamilies, s g = s' g) :
    ∀ g ∈ stmts.map (·.eff.file), (exec stmts s []).1 g = (exec stmts s' []).1 g := by
  intro g hg
  exact (history_independent_every_execution _ _ generation_truncation_dominates_every_execution runs stmts hst s s' []
    hagree).2 g (Or.inr hg)

/-! non-vacuity -/

/-- the shape of generate_equations today: truncate outside the loop, append inside -/
def shapeHead : Prog := [.straight [⟨⟨"g", 1, "orig_trees", .w⟩, .always, .w⟩],
  .loop false [⟨⟨"g", 2, "orig_trees", .a⟩, .always, .a⟩], .straight [⟨⟨"g", 3, "orig_trees", .r⟩, .always, .r⟩]]
/-- truncation moved into the loop, tied to index 0, loop over a run-time selection of indices -/
def shapeTied (skips : Bool) : Prog := [.loop skips [⟨⟨"g", 2, "orig_trees", .w⟩, .firstIteration, .a⟩]]

example : safeAll [] shapeHead = true := by decide
example : safeAll [] (shapeTied true) = false := by decide
/-- `for i in range(n)` with `'w' if i == 0 else 'a'` is fine as far as the appends go (the first executed iteration truncates) -/
example : safeAll [] (shapeTied false) = true := by decide
/-- … but a read after that loop is not dominated (the loop may not run) -/
example : safeAll [] (shapeTied false ++ [.straight [⟨⟨"g", 3, "orig_trees", .r⟩, .always, .r⟩]]) = false := by decide
/-- two iterations, neither with index 0: both append -/
example : trace (shapeTied true) [[⟨false, []⟩, ⟨false, []⟩]] = [⟨"g", 2, "orig_trees", .a⟩, ⟨"g", 2, "orig_trees", .a⟩] := by decide
example : trace (shapeTied false) [[⟨false, []⟩, ⟨false, []⟩]] = [⟨"g", 2, "orig_trees", .w⟩, ⟨"g", 2, "orig_trees", .a⟩] := by decide
/-- the hypotheses of `append_after_conditional_truncate_depends_on_history` hold for that execution -/
example : (∀ e ∈ trace (shapeTied true) [[⟨false, []⟩]], e.file = "orig_trees" → e.acc.isWrite = false) ∧
    (∃ e ∈ trace (shapeTied true) [[⟨false, []⟩]], e.file = "orig_trees" ∧ e.acc = .a) := by decide
/-- and its conclusion, concretely: left-over content survives -/
example : (exec [⟨⟨"g", 2, "orig_trees", .a⟩, fun _ => [7]⟩] (fun _ => [1]) []).1 "orig_trees" ≠
    (exec [⟨⟨"g", 2, "orig_trees", .a⟩, fun _ => [7]⟩] (fun _ => []) []).1 "orig_trees" := by decide
/-- the hypotheses of `history_independent_every_execution` are satisfiable with a loop that really runs -/
example : safeAll [] shapeHead = true ∧ (trace shapeHead [[], [⟨true, []⟩, ⟨false, []⟩]]).length = 4 := by decide

example : safe [] [⟨"f", 1, "orig_trees", .w⟩, ⟨"f", 2, "orig_trees", .a⟩, ⟨"f", 3, "orig_trees", .r⟩] = true := by decide
example : safe [] [⟨"f", 2, "orig_trees", .a⟩] = false := by decide
example : (exec [⟨⟨"f", 1, "t", .a⟩, fun _ => [7]⟩] (fun _ => [1]) []).1 "t" = [1, 7] := by decide

end ESR.C16
