import ESRVerif.Model.Effects
import ESRVerif.Generated.Effects
/-!
C16 — results do not depend on earlier runs.
-/
namespace ESR.C16
open ESR.Effects

theorem upd_agree (s s' : Store) (fresh : List String) (f : String) (v : List Val)
    (h : ∀ g ∈ fresh, s g = s' g) : ∀ g ∈ f :: fresh, upd s f v g = upd s' f v g := by
  intro g hg
  unfold upd
  by_cases hgf : g = f
  · simp [hgf]
  · simp only [hgf, if_false]
    rcases List.mem_cons.mp hg with h1 | h1
    · exact absurd h1 hgf
    · exact h g h1

/-- **Non-interference.** If every read/append of a stage is of a file the stage itself has already written or
removed (`safe`), then two runs started from ANY two persistent states (left by arbitrary earlier runs) read the same
values and leave the same content in every file they touched. Unbounded in the number of statements and files. -/
theorem history_independent (prog : List Stmt) (fresh : List String) (s s' : Store) (env : List (List Val))
    (hsafe : safe fresh (prog.map (·.eff)) = true) (hagree : ∀ g ∈ fresh, s g = s' g) :
    (exec prog s env).2 = (exec prog s' env).2 ∧
    ∀ g, (g ∈ fresh ∨ g ∈ (prog.map (·.eff.file))) → (exec prog s env).1 g = (exec prog s' env).1 g := by
  induction prog generalizing fresh s s' env with
  | nil =>
    refine ⟨rfl, ?_⟩
    intro g hg
    rcases hg with h | h
    · exact hagree g h
    · simp at h
  | cons st rest ih =>
    simp only [List.map_cons, safe] at hsafe
    cases hacc : st.eff.acc with
    | w =>
      simp only [hacc] at hsafe
      have := ih (st.eff.file :: fresh) (upd s st.eff.file (st.content env)) (upd s' st.eff.file (st.content env)) env
        hsafe (upd_agree s s' fresh _ _ hagree)
      simp only [exec, hacc]
      refine ⟨this.1, ?_⟩
      intro g hg
      apply this.2
      rcases hg with h | h
      · exact Or.inl (List.mem_cons_of_mem _ h)
      · simp only [List.map_cons, List.mem_cons] at h
        rcases h with h | h
        · exact Or.inl (by simp [h])
        · exact Or.inr h
    | rm =>
      simp only [hacc] at hsafe
      have := ih (st.eff.file :: fresh) (upd s st.eff.file []) (upd s' st.eff.file []) env
        hsafe (upd_agree s s' fresh _ _ hagree)
      simp only [exec, hacc]
      refine ⟨this.1, ?_⟩
      intro g hg
      apply this.2
      rcases hg with h | h
      · exact Or.inl (List.mem_cons_of_mem _ h)
      · simp only [List.map_cons, List.mem_cons] at h
        rcases h with h | h
        · exact Or.inl (by simp [h])
        · exact Or.inr h
    | a =>
      simp only [hacc, Bool.and_eq_true] at hsafe
      have hmem : st.eff.file ∈ fresh := by simpa using hsafe.1
      have heq : s st.eff.file = s' st.eff.file := hagree _ hmem
      have hag : ∀ g ∈ fresh, upd s st.eff.file (s st.eff.file ++ st.content env) g
          = upd s' st.eff.file (s' st.eff.file ++ st.content env) g := by
        intro g hg
        unfold upd
        by_cases hgf : g = st.eff.file
        · simp [hgf, heq]
        · simp [hgf, hagree g hg]
      have := ih fresh _ _ env hsafe.2 hag
      simp only [exec, hacc]
      refine ⟨this.1, ?_⟩
      intro g hg
      apply this.2
      rcases hg with h | h
      · exact Or.inl h
      · simp only [List.map_cons, List.mem_cons] at h
        rcases h with h | h
        · exact Or.inl (h ▸ hmem)
        · exact Or.inr h
    | r =>
      simp only [hacc, Bool.and_eq_true] at hsafe
      have hmem : st.eff.file ∈ fresh := by simpa using hsafe.1
      have heq : s st.eff.file = s' st.eff.file := hagree _ hmem
      have := ih fresh s s' (env ++ [s st.eff.file]) hsafe.2 hagree
      simp only [exec, hacc]
      rw [← heq]
      refine ⟨this.1, ?_⟩
      intro g hg
      apply this.2
      rcases hg with h | h
      · exact Or.inl h
      · simp only [List.map_cons, List.mem_cons] at h
        rcases h with h | h
        · exact Or.inl (h ▸ hmem)
        · exact Or.inr h

/-- From an arbitrary earlier state versus a fresh (empty) directory: same files, same bytes. -/
theorem same_as_fresh_run (prog : List Stmt) (s : Store) (hsafe : safe [] (prog.map (·.eff)) = true) :
    ∀ g ∈ prog.map (·.eff.file), (exec prog s []).1 g = (exec prog (fun _ => []) []).1 g := by
  intro g hg
  exact (history_independent prog [] s (fun _ => []) [] hsafe (by simp)).2 g (Or.inr hg)

/-! ### the effect summaries regenerated from today's source -/

/-- generation (duplicate_checker.main and everything it calls, in execution order): no file of the library
directory is read or appended to before this same run has written/truncated it -/
theorem generation_no_read_before_write : safe [] ESR.Gen.Effects.generation = true := by decide +kernel

/-- Each fitting stage reads, besides files it has itself (over)written, only its declared inputs: the library files
and the outputs of the previous stage.  With `history_independent` (started with `fresh :=` those inputs): given the same
inputs a stage leaves the same bytes whatever else earlier runs left in the output and temporary directories. -/
theorem fit_stage_reads_only_inputs :
    safe ["all_equations_#.txt", "unique_equations_#.txt"] ESR.Gen.Effects.fitStage = true := by decide +kernel

theorem fisher_stage_reads_only_inputs :
    safe ["all_equations_#.txt", "unique_equations_#.txt", "negloglike_comp#.dat"] ESR.Gen.Effects.fisherStage = true := by
  decide +kernel

theorem match_stage_reads_only_inputs :
    safe ["all_equations_#.txt", "negloglike_comp#.dat", "inv_subs_#.txt", "matches_#.txt", "derivs_comp#.dat"]
      ESR.Gen.Effects.matchStage = true := by decide +kernel

theorem combine_stage_reads_only_inputs :
    safe ["unique_equations_#.txt", "all_equations_#.txt", "codelen_matches_comp#.dat", "#.txt"]
      ESR.Gen.Effects.combineStage = true := by decide +kernel

/-- the shuffles are seeded inside the stage, right before they are drawn -/
theorem shuffles_seeded : ESR.Gen.Effects.unseededShuffles = [] := by decide +kernel

/-- every key a stage reads from the shared sympy symbol table is either static or (re)written by that call -/
theorem locs_keys_written : ESR.Gen.Effects.locsReadBeforeWrite = [] := by decide +kernel

/-! non-vacuity -/
example : safe [] [⟨"f", 1, "orig_trees", .w⟩, ⟨"f", 2, "orig_trees", .a⟩, ⟨"f", 3, "orig_trees", .r⟩] = true := by decide
example : safe [] [⟨"f", 2, "orig_trees", .a⟩] = false := by decide
example : (exec [⟨⟨"f", 1, "t", .a⟩, fun _ => [7]⟩] (fun _ => [1]) []).1 "t" = [1, 7] := by decide

end ESR.C16
