import ESRVerif.Model.FisherLoop
import ESRVerif.Props.C14c
/-!
# C07 (row and call independence of the Fisher stage)

`convert_params` snaps the parameter vector it is handed IN PLACE, and `main` hands it a view of the stage-1 table.  The alias table
`ESR.Gen.FisherAlias.fisherWrites` is regenerated from the source on every run (one entry per array written in place, origin and call site).
What is shared today, precisely: the snap of line 193 writes `params_proc[i,:nparam]`, the row's OWN stage-1 slot; no other row reads it
(inside the loop `params_proc` occurs only as `params_proc[i, …]`), nothing reads it after the loop, and the ONLY later reader is the
second attempt of the SAME row (`except NameError:` + `try_integration`), which is handed the same object (`retryReadsSlot`).
Hence the loop as written is a map over (function, stage-1 row) — with the retry computed from the slot as the first attempt left it —
and C14's tiling gives the permutation / removal / rank-count corollaries that the harness checks on the real `main`.
-/
namespace ESR.C07c
open ESR.Stages ESR.Partition ESR.FisherLoop ESR.Gen.FisherAlias

/-- Every array written in place by the Fisher stage is new inside the call or the row's own stage-1 slot; the slot table is read
inside the loop only as row `i` and not at all after the loop; and the snap is in the table (non-vacuity: an in-place write to
`theta_ML` is listed).  `decide` over the table regenerated from the current source. -/
theorem fisher_rows_do_not_share_state :
    fisherWritesRowLocal = true ∧ slotReadByOtherRows = false ∧ slotReadAfterLoop = false ∧
      (fisherWrites.filter (fun w => w.target == "theta_ML")).length ≥ 1 := by decide

variable {α φ : Type}

/-- one iteration of the loop as written yields the row `Model/Stages.fisherRow` yields on the outcomes `o1Of`, `o2Of` -/
theorem rowStep_fst (nan zero : α) (isBad : α → Bool) (mp : Nat) (tryInt rr : Bool) (r1 r2 : Routine α φ) (f : φ) (row : α × List α) :
    (rowStep nan zero isBad mp tryInt rr r1 r2 f row).1 =
      fisherRow nan zero isBad mp tryInt row.1 (o1Of r1 f row) (o2Of rr r1 r2 f row) := by
  unfold rowStep fisherRow o1Of o2Of
  cases isBad row.1 <;> simp only [Bool.false_eq_true, if_false, if_true]
  cases h : (r1 f row.1 row.2).out <;> simp only []
  cases tryInt <;> simp only [Bool.false_eq_true, if_false, if_true]
  cases (r2 f row.1 (retryInput rr r1 f row)).out <;> rfl

/-- a loop whose in-place writes stay in the row's own slot is the map over the rows still to come -/
theorem fisherLoop_rowLocal (spill : List (α × List α) → Nat → List α → List (α × List α))
    (nan zero : α) (isBad : α → Bool) (mp : Nat) (tryInt rr : Bool) (r1 r2 : Routine α φ)
    (fs : List φ) (i : Nat) (T : List (α × List α)) (hlen : fs.length ≤ (T.drop i).length) :
    fisherLoop true spill nan zero isBad mp tryInt rr r1 r2 i T fs =
      (List.zip fs (T.drop i)).map (fun p => (rowStep nan zero isBad mp tryInt rr r1 r2 p.1 p.2).1) := by
  induction fs generalizing i T with
  | nil => simp [fisherLoop]
  | cons f fs ih =>
    have hi : i < T.length := by
      simp only [List.length_cons, List.length_drop] at hlen; omega
    have hd : T.drop i = T[i] :: T.drop (i + 1) := List.drop_eq_getElem_cons hi
    unfold fisherLoop
    rw [List.getElem?_eq_getElem hi]
    simp only [if_true]
    rw [ih (i + 1) _ (by
      rw [List.drop_set_of_lt (by omega)]
      simp only [List.length_cons, List.length_drop] at hlen ⊢; omega)]
    rw [List.drop_set_of_lt (by omega), hd]
    rfl

/-- **The loop as written with in-place snapping equals the map over rows**: under the regenerated alias facts every output row of a
rank is `fisherRow` of its own function and its own stage-1 row — the retry being computed on the slot as the first attempt left it
(`o2Of retryReadsSlot`) — whatever a write through a shared array would have done (`spill`). -/
theorem fisherStage_eq_fisherFile (spill : List (α × List α) → Nat → List α → List (α × List α))
    (nan zero : α) (isBad : α → Bool) (mp : Nat) (tryInt : Bool) (r1 r2 : Routine α φ)
    (T : List (α × List α)) (fs : List φ) (hlen : fs.length ≤ T.length) :
    fisherStage spill nan zero isBad mp tryInt r1 r2 T fs =
      (List.zip fs T).map (fun p => fisherRow nan zero isBad mp tryInt p.2.1 (o1Of r1 p.1 p.2) (o2Of retryReadsSlot r1 r2 p.1 p.2)) := by
  unfold fisherStage
  rw [fisher_rows_do_not_share_state.1, fisher_rows_do_not_share_state.2.1]
  simp only [Bool.not_false, Bool.and_self]
  rw [fisherLoop_rowLocal spill nan zero isBad mp tryInt _ r1 r2 fs 0 T (by simpa using hlen)]
  simp only [List.drop_zero]
  exact List.map_congr_left (fun p _ => rowStep_fst nan zero isBad mp tryInt _ r1 r2 p.1 p.2)

/-- … over `P` ranks (each running the loop as written on the slice `get_functions` / `load_loglike` hand it): the concatenation in rank
order is the map over the whole library, i.e. `Model/Stages.fisherFile` on the outcomes of the loop as written (C14c `fisherFile_eq`). -/
theorem fisherStage_ranks (spill : List (α × List α) → Nat → List α → List (α × List α))
    (nan zero : α) (isBad : α → Bool) (mp : Nat) (tryInt : Bool) (r1 r2 : Routine α φ)
    (T : List (α × List α)) (fs : List φ) (P : Nat) (hP : 1 ≤ P) (h4 : 4 ≤ mp) (hlen : T.length = fs.length) (hne : fs ≠ [])
    (hc : ESR.C14c.NoCrash isBad tryInt (o1Of r1) (o2Of retryReadsSlot r1 r2) fs T) :
    fisherFile nan zero isBad mp tryInt (o1Of r1) (o2Of retryReadsSlot r1 r2) fs T P
      = some ((List.range P).flatMap (fun r => fisherStage spill nan zero isBad mp tryInt r1 r2
          (pySlice T (dataStart fs.length P r) (dataEnd fs.length P r)) (getFunctionsSlice fs P r))) := by
  rw [ESR.C14c.fisherFile_eq nan zero isBad mp tryInt _ _ fs T P hP h4 hlen hne hc]
  congr 1
  have hz : ∀ r, List.zip (getFunctionsSlice fs P r) (pySlice T (dataStart fs.length P r) (dataEnd fs.length P r))
      = getFunctionsSlice (List.zip fs T) P r := by
    intro r
    unfold getFunctionsSlice
    rw [ESR.C14c.pySlice_zip]
    simp [List.length_zip, hlen]
  have hl : ∀ r, (getFunctionsSlice fs P r).length ≤ (pySlice T (dataStart fs.length P r) (dataEnd fs.length P r)).length := by
    intro r
    unfold getFunctionsSlice
    rw [ESR.C14c.pySlice_length, ESR.C14c.pySlice_length, hlen]; omega
  rw [← ESR.C14.stage_rows_aligned (List.zip fs T) _ P hP]
  congr 1
  funext r
  rw [fisherStage_eq_fisherFile spill nan zero isBad mp tryInt r1 r2 _ _ (hl r), hz r]

/-- the file does not depend on the number of ranks -/
theorem fisherStage_rank_count_irrelevant (nan zero : α) (isBad : α → Bool) (mp : Nat) (tryInt : Bool) (r1 r2 : Routine α φ)
    (T : List (α × List α)) (fs : List φ) (P Q : Nat) (hP : 1 ≤ P) (hQ : 1 ≤ Q) (h4 : 4 ≤ mp) (hlen : T.length = fs.length) (hne : fs ≠ [])
    (hc : ESR.C14c.NoCrash isBad tryInt (o1Of r1) (o2Of retryReadsSlot r1 r2) fs T) :
    fisherFile nan zero isBad mp tryInt (o1Of r1) (o2Of retryReadsSlot r1 r2) fs T P =
      fisherFile nan zero isBad mp tryInt (o1Of r1) (o2Of retryReadsSlot r1 r2) fs T Q := by
  rw [ESR.C14c.fisherFile_eq nan zero isBad mp tryInt _ _ fs T P hP h4 hlen hne hc,
      ESR.C14c.fisherFile_eq nan zero isBad mp tryInt _ _ fs T Q hQ h4 hlen hne hc]

/-- the map over rows that the stage is (one rank; `fisherStage_eq_fisherFile`) -/
def rowsOf (nan zero : α) (isBad : α → Bool) (mp : Nat) (tryInt : Bool) (r1 r2 : Routine α φ) (L : List (φ × (α × List α))) : List (Conv α) :=
  L.map (fun p => fisherRow nan zero isBad mp tryInt p.2.1 (o1Of r1 p.1 p.2) (o2Of retryReadsSlot r1 r2 p.1 p.2))

/-- permuting the (function, stage-1 row) pairs permutes the output rows the same way -/
theorem rows_perm (nan zero : α) (isBad : α → Bool) (mp : Nat) (tryInt : Bool) (r1 r2 : Routine α φ)
    (L L' : List (φ × (α × List α))) (h : L.Perm L') :
    (rowsOf nan zero isBad mp tryInt r1 r2 L).Perm (rowsOf nan zero isBad mp tryInt r1 r2 L') := h.map _

theorem rows_reverse (nan zero : α) (isBad : α → Bool) (mp : Nat) (tryInt : Bool) (r1 r2 : Routine α φ) (L : List (φ × (α × List α))) :
    rowsOf nan zero isBad mp tryInt r1 r2 L.reverse = (rowsOf nan zero isBad mp tryInt r1 r2 L).reverse := by
  simp [rowsOf]

/-- removing a function (with its stage-1 row) removes its output row and leaves every other row as it was -/
theorem rows_remove (nan zero : α) (isBad : α → Bool) (mp : Nat) (tryInt : Bool) (r1 r2 : Routine α φ) (L : List (φ × (α × List α))) (j : Nat) :
    rowsOf nan zero isBad mp tryInt r1 r2 (L.eraseIdx j) = (rowsOf nan zero isBad mp tryInt r1 r2 L).eraseIdx j := by
  unfold rowsOf
  induction L generalizing j with
  | nil => simp
  | cons a L ih =>
    cases j with
    | zero => simp
    | succ j => simp [List.eraseIdx_cons_succ, ih]

/-- output row `i` depends on function `i` and stage-1 row `i` only -/
theorem rows_local (nan zero : α) (isBad : α → Bool) (mp : Nat) (tryInt : Bool) (r1 r2 : Routine α φ)
    (L L' : List (φ × (α × List α))) (i j : Nat) (h : L[i]? = L'[j]?) :
    (rowsOf nan zero isBad mp tryInt r1 r2 L)[i]? = (rowsOf nan zero isBad mp tryInt r1 r2 L')[j]? := by
  simp [rowsOf, h]

/-! ## what the retry computes -/

/-- After a `NameError` with `try_integration` the row is the result of the SECOND routine on the slot AS THE FIRST ATTEMPT LEFT IT
(today: `retryReadsSlot = true`), not on the stage-1 values. -/
theorem retry_computes (nan zero : α) (isBad : α → Bool) (mp : Nat) (rr : Bool) (r1 r2 : Routine α φ) (f : φ) (row : α × List α) (v : Conv α)
    (hb : isBad row.1 = false) (h1 : (r1 f row.1 row.2).out = .nameError)
    (h2 : (r2 f row.1 (if rr then (r1 f row.1 row.2).slot else row.2)).out = .ok v) :
    (rowStep nan zero isBad mp true rr r1 r2 f row).1 = v := by
  simp only [rowStep, hb, h1, retryInput]
  simp only [Bool.false_eq_true, if_false, if_true, h2]

/-- If the first attempt raises before it writes (the slot is as it found it — the case for every `NameError` that the lambdified
function itself raises: the first likelihood evaluation, line 107, precedes the snap, line 193), the retry is a fresh call. -/
theorem retry_fresh_of_slot_untouched (nan zero : α) (isBad : α → Bool) (mp : Nat) (tryInt : Bool) (r1 r2 : Routine α φ) (f : φ) (row : α × List α)
    (hs : (r1 f row.1 row.2).slot = row.2) :
    (rowStep nan zero isBad mp tryInt true r1 r2 f row).1 = (rowStep nan zero isBad mp tryInt false r1 r2 f row).1 := by
  simp [rowStep, retryInput, hs]

/-! ## the facts are needed -/

/-- toy routines over `Nat`: the slot is `[θ]`; the routine "snaps" `θ < 5` to `0` in place; the first routine then raises `NameError`,
the second returns `codelen = 100 + θ` of whatever it was handed -/
def exR1 : Routine Nat Unit := fun _ _ s => ⟨.nameError, s.map (fun t => if t < 5 then 0 else t)⟩
def exR2 : Routine Nat Unit := fun _ nll s => ⟨.ok ⟨s, nll, [], 100 + s.sum⟩, s⟩
def exOk : Routine Nat Unit := fun _ nll s => ⟨.ok ⟨s, nll, [], 100 + s.sum⟩, s.map (fun t => if t < 5 then 0 else t)⟩

/-- `fisherWritesRowLocal` is needed: with a write that lands in the next row (`fisherLoop false spillNext`) the second function's row
depends on what was listed before it; with the own-slot write it does not. -/
example :
    ((fisherLoop false spillNext 0 0 (fun _ => false) 4 false true exOk exOk 0 [(7, [3]), (7, [9])] [(), ()]).map (·.codelen) = [103, 100]) ∧
    ((fisherLoop true spillNext 0 0 (fun _ => false) 4 false true exOk exOk 0 [(7, [3]), (7, [9])] [(), ()]).map (·.codelen) = [103, 109]) ∧
    ((fisherLoop true spillNext 0 0 (fun _ => false) 4 false true exOk exOk 0 [(7, [9])] [()]).map (·.codelen) = [109]) := by decide

/-- `retryReadsSlot` matters: a first attempt that snaps and then raises `NameError` makes the retry see `0` instead of `3` -/
example :
    (rowStep 0 0 (fun _ => false) 4 true true exR1 exR2 () (7, [3])).1.codelen = 100 ∧
    (rowStep 0 0 (fun _ => false) 4 true false exR1 exR2 () (7, [3])).1.codelen = 103 := by decide

/-- the hypotheses of `fisherStage_ranks` are satisfiable: 3 functions, 2 ranks, one NameError + retry -/
example : fisherFile 0 0 (fun _ => false) 4 true (o1Of exR1) (o2Of retryReadsSlot exR1 exR2) [(), (), ()] [(7, [3]), (7, [9]), (7, [4])] 2
    = some ((List.range 2).flatMap (fun r => fisherStage spillNext 0 0 (fun _ => false) 4 true exR1 exR2
        (pySlice [(7, [3]), (7, [9]), (7, [4])] (dataStart 3 2 r) (dataEnd 3 2 r)) (getFunctionsSlice [(), (), ()] 2 r))) :=
  fisherStage_ranks spillNext 0 0 (fun _ => false) 4 true exR1 exR2 _ _ 2 (by decide) (by decide) rfl (by decide)
    (by intro p hp; simp [ESR.Stages.fisherCrashes, o1Of, o2Of, exR1, exR2])

example : rowsOf 0 0 (fun _ => false) 4 true exR1 exR2 ([((), (7, [3])), ((), (7, [9]))].eraseIdx 0) ≠ [] := by decide

end ESR.C07c
