import ESRVerif.Model.Library
/-!
C03 — merging duplicates never changes a function: the bookkeeping is sound given sound rewrite steps.

The CAS steps (sympy's subs/expand/factor/equals inside `sympy_simplify` and `check_results`) are a hypothesis
(`StepSound`), sampled numerically on every run by `harness/oracle_lib.py`; everything ESR itself does with the
results — first-occurrence indexing, propagation to all functions through the match index, composition order of the
chains, the shuffle and its remap, un-merging — is proved here, for libraries of any size.
-/
namespace ESR.C03
open ESR.Library

variable {σ : Type} [DecidableEq σ]

/-! ### get_unique_indexes -/

theorem mem_uniqueKeys (l : List σ) (v : σ) : v ∈ uniqueKeys l ↔ v ∈ l := by
  induction l with
  | nil => simp [uniqueKeys]
  | cons x xs ih =>
    simp only [uniqueKeys, List.mem_cons, List.mem_filter, ih]
    constructor
    · rintro (h | ⟨h, _⟩)
      · exact Or.inl h
      · exact Or.inr h
    · rintro (h | h)
      · exact Or.inl h
      · by_cases hv : v = x
        · exact Or.inl hv
        · exact Or.inr ⟨h, by simpa using hv⟩

/-- Unique entries are pairwise distinct. -/
theorem uniqueKeys_nodup (l : List σ) : (uniqueKeys l).Nodup := by
  induction l with
  | nil => simp [uniqueKeys]
  | cons x xs ih =>
    simp only [uniqueKeys, List.nodup_cons]
    refine ⟨by simp, List.Pairwise.filter _ ih⟩

/-- Every function is assigned exactly one entry of the unique list, and that entry is its own string. -/
theorem match_total (l : List σ) (v : σ) (hv : v ∈ l) (dflt : σ) :
    firstIndex (uniqueKeys l) v < (uniqueKeys l).length ∧ (uniqueKeys l).getD (firstIndex (uniqueKeys l) v) dflt = v := by
  have hm : v ∈ uniqueKeys l := (mem_uniqueKeys l v).mpr hv
  unfold firstIndex
  have hlt : (uniqueKeys l).findIdx (· = v) < (uniqueKeys l).length :=
    List.findIdx_lt_length_of_exists ⟨v, hm, by simp⟩
  refine ⟨hlt, ?_⟩
  have := List.findIdx_getElem (xs := uniqueKeys l) (p := (· = v)) (w := hlt)
  simp only [List.getD_eq_getElem?_getD, List.getElem?_eq_getElem hlt, Option.getD_some]
  simpa using this

/-- `get_match_indexes`: every rewritten tree's original is found at its FIRST occurrence, and the string there is
the original's. -/
theorem matchIndexes_spec (a : List σ) (f : σ) (hf : f ∈ a) (dflt : σ) :
    a.findIdx (· = f) < a.length ∧ a.getD (a.findIdx (· = f)) dflt = f ∧
    ∀ j, j < a.findIdx (· = f) → a.getD j dflt ≠ f := by
  have hlt : a.findIdx (· = f) < a.length := List.findIdx_lt_length_of_exists ⟨f, hf, by simp⟩
  refine ⟨hlt, ?_, ?_⟩
  · have := List.findIdx_getElem (xs := a) (p := (· = f)) (w := hlt)
    simp only [List.getD_eq_getElem?_getD, List.getElem?_eq_getElem hlt, Option.getD_some]
    simpa using this
  · intro j hj
    have hjl : j < a.length := by omega
    have := List.not_of_lt_findIdx hj
    simp only [List.getD_eq_getElem?_getD, List.getElem?_eq_getElem hjl, Option.getD_some]
    simpa using this

theorem matchIndexes_length (a b : List σ) : (matchIndexes a b).length = b.length := by
  simp [matchIndexes]

/-! ### soundness of the (function, unique, chain) triple and its preservation -/

section Sound
variable {μ Θ V : Type}

/-- the parameter transformation denoted by a chain: `p = id.subs(c₀).subs(c₁)…`, i.e. the LAST recorded map is
applied first (C05 `compose_order`) -/
def chainMap (ap : μ → Θ → Θ) : List (Entry μ) → Θ → Θ
  | [] => id
  | .map m :: rest => fun θ => ap m (chainMap ap rest θ)
  | .nan :: rest => chainMap ap rest

def hasNan : List (Entry μ) → Bool
  | [] => false
  | .nan :: _ => true
  | .map _ :: rest => hasNan rest

theorem hasNan_append (c a : List (Entry μ)) : hasNan (c ++ a) = (hasNan c || hasNan a) := by
  induction c with
  | nil => simp [hasNan]
  | cons e rest ih => cases e <;> simp [hasNan, ih]

theorem chainMap_append (ap : μ → Θ → Θ) (c a : List (Entry μ)) (θ : Θ) :
    chainMap ap (c ++ a) θ = chainMap ap c (chainMap ap a θ) := by
  induction c with
  | nil => rfl
  | cons e rest ih => cases e <;> simp [chainMap, ih]

/-- The C03 statement for one function: merging never raises the parameter count, and either the chain is marked
unrecoverable and the unique has strictly fewer parameters, or substituting the transformation into the original
gives exactly the unique, pointwise. -/
def Sound (den : σ → Θ → V) (np : σ → Nat) (ap : μ → Θ → Θ) (orig u : σ) (c : List (Entry μ)) : Prop :=
  np u ≤ np orig ∧ (if hasNan c then np u < np orig else ∀ θ, den orig (chainMap ap c θ) = den u θ)

/-- What one CAS rewrite of a unique must satisfy (the hypothesis on sympy; sampled numerically on every run):
rewriting `u` into `u'` recording `a` is itself a sound triple. -/
abbrev StepSound (den : σ → Θ → V) (np : σ → Nat) (ap : μ → Θ → Θ) (u u' : σ) (a : List (Entry μ)) : Prop :=
  Sound den np ap u u' a

omit [DecidableEq σ] in
/-- Every function is soundly merged into itself with the empty chain (initial state, and un-merged functions). -/
theorem sound_refl (den : σ → Θ → V) (np : σ → Nat) (ap : μ → Θ → Θ) (f : σ) : Sound den np ap f f [] := by
  simp [Sound, hasNan, chainMap]

omit [DecidableEq σ] in
/-- **Propagation is sound.** If function `orig` is soundly merged into unique `u` with chain `c`, and the
simplifier soundly rewrites `u` into `u'` recording `a`, then `orig` with the extended chain `c ++ a` (what
do_sympy step (3) stores) is soundly merged into `u'`. -/
theorem propagate_sound (den : σ → Θ → V) (np : σ → Nat) (ap : μ → Θ → Θ) (orig u u' : σ)
    (c a : List (Entry μ)) (h : Sound den np ap orig u c) (hs : StepSound den np ap u u' a) :
    Sound den np ap orig u' (c ++ a) := by
  obtain ⟨h1, h2⟩ := h
  obtain ⟨s1, s2⟩ := hs
  refine ⟨Nat.le_trans s1 h1, ?_⟩
  rw [hasNan_append]
  cases hc : hasNan c <;> cases ha : hasNan a <;> simp only [hc, ha, Bool.or_false, Bool.or_true, Bool.or_self,
    if_true, if_false, Bool.false_eq_true] at *
  · intro θ
    rw [chainMap_append, h2, s2]
  · exact Nat.lt_of_lt_of_le s2 h1
  · exact Nat.lt_of_le_of_lt s1 h2
  · exact Nat.lt_of_le_of_lt s1 h2

/-- a sequence of rewrites of the current unique, each sound w.r.t. the previous one -/
def RoundsSound (den : σ → Θ → V) (np : σ → Nat) (ap : μ → Θ → Θ) : σ → List (σ × List (Entry μ)) → Prop
  | _, [] => True
  | u, (u', a) :: rest => StepSound den np ap u u' a ∧ RoundsSound den np ap u' rest

def finalUnique (u : σ) : List (σ × List (Entry μ)) → σ
  | [] => u
  | (u', _) :: rest => finalUnique u' rest

omit [DecidableEq σ] in
/-- **Rounds.** Any number of simplification rounds (the two fixed-point loops of do_sympy, of unbounded length),
each rewriting the current unique soundly, leaves the function soundly merged into the final unique with the
concatenation of everything recorded. -/
theorem rounds_sound (den : σ → Θ → V) (np : σ → Nat) (ap : μ → Θ → Θ) (orig : σ)
    (steps : List (σ × List (Entry μ))) (u : σ) (c : List (Entry μ)) (h : Sound den np ap orig u c)
    (hs : RoundsSound den np ap u steps) :
    Sound den np ap orig (finalUnique u steps) (c ++ (steps.map (·.2)).flatten) := by
  induction steps generalizing u c with
  | nil => simpa [finalUnique] using h
  | cons s rest ih =>
    obtain ⟨u', a⟩ := s
    obtain ⟨h0, hrest⟩ := hs
    have h1 := propagate_sound den np ap orig u u' c a h h0
    have := ih u' (c ++ a) h1 hrest
    simpa [finalUnique, List.append_assoc] using this

end Sound

/-! ### shuffle and remap -/

/-- **The shuffle keeps every match pointing at the same string.** `perm` is the shuffled index list (a
duplicate-free list containing every old index that is used). -/
theorem shuffle_remap_correct (perm : List Nat) (uniq : List σ) (m : Nat) (dflt : σ) (hm : m ∈ perm) :
    (shuffleRemap perm uniq [m] dflt).1.getD ((shuffleRemap perm uniq [m] dflt).2.headD 0) dflt = uniq.getD m dflt := by
  simp only [shuffleRemap, List.map_cons, List.map_nil, List.headD_cons]
  have hlt : perm.findIdx (· = m) < perm.length := List.findIdx_lt_length_of_exists ⟨m, hm, by simp⟩
  have hget := List.findIdx_getElem (xs := perm) (p := (· = m)) (w := hlt)
  simp only [decide_eq_true_eq] at hget
  simp only [List.getD_eq_getElem?_getD, List.getElem?_map, List.getElem?_eq_getElem hlt, Option.map_some,
    Option.getD_some, hget]

/-- Un-merged functions point at their own string after the old uniques. -/
theorem unmerge_points_to_self (uniq newFuns : List σ) (f : σ) (hf : f ∈ newFuns) (dflt : σ) :
    (uniq ++ uniqueKeys newFuns).getD (unmergeMatch uniq.length newFuns f) dflt = f := by
  unfold unmergeMatch
  obtain ⟨hlt, hget⟩ := match_total newFuns f hf dflt
  simp only [List.getD_eq_getElem?_getD] at hget ⊢
  rw [List.getElem?_append_right (by omega)]
  simpa using hget

/-! non-vacuity -/
example : uniqueKeys ["x", "a0", "x", "a0*x", "a0"] = ["x", "a0", "a0*x"] := by decide
example : matchIndexes ["x", "a0", "x", "a0*x"] ["a0*x", "x"] = [3, 0] := by decide
example : shuffleRemap [2, 0, 1] ["x", "a0", "a0*x"] [0, 1, 0, 2] "?" = (["a0*x", "x", "a0"], [1, 2, 1, 0]) := by decide
example : Sound (fun (s : String) (θ : Int) => if s = "-a0" then -θ else θ) (fun _ => 1) (fun (_ : Unit) θ => -θ)
    "-a0" "a0" [.map ()] := by
  simp [Sound, hasNan, chainMap]

end ESR.C03
