import ESRVerif.Model.Rewrite
import ESRVerif.Proofs.Rewrite
import ESRVerif.Proofs.RewriteCand
/-!
C11 — candidate selection of `update_tree` (generator.py l.601-694).

`update_tree` collects one candidate substitution per "site" (an exp-set label next to a run of pow-set labels) in
FIVE parallel lists `special_idx`, `diff1_idx`, `diff2_idx`, `num1`, `num2`, and `try_idx` indexes all five.
The model has both spellings: `UT.specials` (a list of records, one per site) and `UT.detectPar` (the five lists,
statement by statement as the Python appends to / overwrites them).  Proved here, for ALL label lists, shapes, bases
and try indices:

* `parallel_lists_aligned` — the five lists are exactly the columns of the record list: same length, and row `k`
  of each list belongs to the SAME site.  (`detectPar_eq_specials` is the equation.)
* `candidate_from_its_site` — the `k`-th candidate's five components are the ones the detection computes at the
  site `special_idx[k]` (index, both run lengths, both numbers), the sites come in strictly increasing index order.
* `updateTreePar_eq_updateTree` — selecting row `try_idx` of the five lists and splicing is the record model.
* `updateTree_candidate_local` — the result for `try_idx = k` is a function of candidate `k` alone:
  `updateTree L S k B = outOf L S B sp` for the `k`-th record `sp`; `selectOut_local` / `selectOut_filter`: in any
  other candidate list (other candidates changed, removed, reordered) a retained candidate gives the same result at
  its new position.
* `updateTree_all_try_indices` — for every try index: the result is `none` beyond the last candidate; every
  returned candidate has strictly fewer pow-set labels, and (basis with `+` and `-`) a valid shape.
Not proved here: that each splice of `outOf` denotes the same real function as its input (the five output families
are certified per emitted tree by `certEquiv`, whose soundness is `C11.certEquiv_sound`).
-/
namespace ESR.C11c
open ESR.Rewrite ESR.Rewrite.UT ESR.Shape

/-- **The five parallel lists are the columns of the record list.** -/
theorem detectPar_eq_specials (L : List String) : detectPar L = (specials L).map Par.ofRecords := by
  unfold detectPar specials
  have h := foldPar_records L (List.range L.length) [] List.nodup_range (by simp)
  simp only [List.nil_append] at h
  exact h

/-- **Alignment invariant.**  After the detection loop the five lists have the same length and, for every
`k`, `special_idx[k]`, `diff1_idx[k]`, `diff2_idx[k]`, `num1[k]`, `num2[k]` are the five fields of ONE record: the
`k`-th site found. -/
theorem parallel_lists_aligned (L : List String) (P : Par) (h : detectPar L = some P) :
    ∃ sps, specials L = some sps ∧
      P.special.length = sps.length ∧ P.diff1.length = sps.length ∧ P.diff2.length = sps.length ∧
      P.num1.length = sps.length ∧ P.num2.length = sps.length ∧
      ∀ k, P.row k = sps[k]? := by
  rw [detectPar_eq_specials] at h
  cases hs : specials L with
  | none => simp [hs] at h
  | some sps =>
    simp only [hs, Option.map_some, Option.some.injEq] at h
    subst h
    exact ⟨sps, rfl, by simp [Par.ofRecords], by simp [Par.ofRecords], by simp [Par.ofRecords],
      by simp [Par.ofRecords], by simp [Par.ofRecords], row_ofRecords sps⟩

/-- the records of `specialsFrom L is` carry indices of `is`, in the order of `is` -/
theorem specialsFrom_indices (L : List String) (is : List Nat) (sps : List Special)
    (h : specialsFrom L is = some sps) : (sps.map (·.i)).Sublist is := by
  induction is generalizing sps with
  | nil => simp [specialsFrom] at h; subst h; simp
  | cons i is ih =>
    unfold specialsFrom at h
    split at h
    · cases h
    · rename_i r hr
      split at h
      · cases h
      · rename_i rest hrest
        simp only [Option.some.injEq] at h
        subst h
        cases r with
        | none => exact (ih rest hrest).cons i
        | some sp =>
          simp only [List.map_cons]
          rw [detectAt_i L i sp hr]
          exact (ih rest hrest).cons_cons i

/-- **Every candidate is computed from its own site.**  The `k`-th record is what the detection computes AT index
`special_idx[k]` — its run lengths and numbers are those of that site and of no other — and the sites are listed in
strictly increasing index order (so no site appears twice). -/
theorem candidate_from_its_site (L : List String) (sps : List Special) (h : specials L = some sps) :
    (∀ (k : Nat) (sp : Special), sps[k]? = some sp → sp.i < L.length ∧ detectAt L sp.i = some (some sp)) ∧
    (sps.map (·.i)).Pairwise (· < ·) := by
  refine ⟨?_, ?_⟩
  · intro k sp hk
    obtain ⟨i, hi, hd⟩ := specialsFrom_mem L _ sps sp h (List.mem_of_getElem? hk)
    have := detectAt_i L i sp hd
    subst this
    exact ⟨by simpa using hi, hd⟩
  · exact List.pairwise_lt_range.sublist (specialsFrom_indices L _ sps h)

/-- **The Python spelling (five lists, each indexed by `try_idx`) equals the record model.** -/
theorem updateTreePar_eq_updateTree (L : List String) (S : List Nat) (k : Nat) (B : Basis) :
    updateTreePar L S k B = updateTree L S k B := by
  unfold updateTreePar updateTree
  rw [detectPar_eq_specials]
  cases specials L with
  | none => rfl
  | some sps =>
    simp only [Option.map_some, row_ofRecords]
    have hl : (Par.ofRecords sps).special.length = sps.length := by simp [Par.ofRecords]
    rw [hl]
    by_cases hk : k < sps.length
    · simp only [hk, if_true]
      rw [List.getElem?_eq_getElem hk]
      rfl
    · simp only [hk, if_false]
      rw [List.getElem?_eq_none (by omega)]

/-- **`updateTree L S k B` depends on candidate `k` only**: it is the splice `outOf` of the `k`-th record, and
`none` (`(None, None, 0)`) when there is no `k`-th candidate. -/
theorem updateTree_candidate_local (L : List String) (S : List Nat) (k : Nat) (B : Basis) (sps : List Special)
    (h : specials L = some sps) : updateTree L S k B = selectOut L S B sps k := by
  unfold updateTree selectOut
  rw [h]
  simp only
  cases sps[k]? with
  | none => rfl
  | some sp => rfl

/-- changing, removing or reordering OTHER candidates leaves the result for a retained candidate unchanged: if the
candidate at position `k'` of another list is the candidate at position `k` of this one, the results coincide -/
theorem selectOut_local (L : List String) (S : List Nat) (B : Basis) (sps sps' : List Special) (k k' : Nat)
    (h : sps'[k']? = sps[k]?) : selectOut L S B sps' k' = selectOut L S B sps k := by
  unfold selectOut
  rw [h]

/-- filtering the candidate list (dropping the candidates that fail a test `p`): a retained candidate, at its new
position, is spliced exactly as `update_tree` splices it at its old position -/
theorem selectOut_filter (L : List String) (S : List Nat) (k : Nat) (B : Basis) (sps : List Special)
    (h : specials L = some sps) (p : Special → Bool) (sp : Special) (hk : sps[k]? = some sp) (hp : p sp = true) :
    ∃ k', (sps.filter p)[k']? = some sp ∧ selectOut L S B (sps.filter p) k' = updateTree L S k B := by
  have hm : sp ∈ sps.filter p := List.mem_filter.mpr ⟨List.mem_of_getElem? hk, hp⟩
  obtain ⟨k', hk'⟩ := List.getElem?_of_mem hm
  refine ⟨k', hk', ?_⟩
  rw [updateTree_candidate_local L S k B sps h]
  exact selectOut_local L S B sps (sps.filter p) k k' (by rw [hk', hk])

/-- **For every try index**: beyond the last candidate the result is `(None, None, 0)`; every returned candidate has
strictly fewer pow-set labels than the input (labels consistent with the shape); with `+` and `-` in the basis and a
well-formed input (`WF`), every returned shape is a valid prefix shape of the length of its label list's shape. -/
theorem updateTree_all_try_indices (L : List String) (S : List Nat) (B : Basis) (sps : List Special)
    (h : specials L = some sps) :
    (∀ k, sps.length ≤ k → updateTree L S k B = .none) ∧
    (Consistent L S → ∀ k, ∀ c ∈ (updateTree L S k B).cands, powCount c.1 < powCount L) ∧
    (WF L S → inB2 B "+" = true ∧ inB2 B "-" = true →
      ∀ k, ∀ c ∈ (updateTree L S k B).cands, validShape c.2 = true) := by
  refine ⟨?_, ?_, ?_⟩
  · intro k hk
    rw [updateTree_candidate_local L S k B sps h]
    unfold selectOut
    rw [List.getElem?_eq_none hk]
  · intro hc k
    exact updateTree_decreases L S k B hc
  · intro hw hB k
    exact updateTree_validShape L S k B hw hB

/-! ### non-vacuity -/

/-- the input of the seeded change C11c: two `log_abs` sites with runs of different lengths, the first folding to
`/2`, the second to `*4` -/
def twoSites : List String := ["log_abs", "sqrt_abs", "log_abs", "square", "square", "x"]

example : detectPar twoSites
    = some ⟨[0, 2], [1, 2], [0, 0], [some ⟨"/", 2⟩, some ⟨"*", 4⟩], [none, none]⟩ := by decide +kernel

example : (specials twoSites).map (fun sps => sps.map (·.i)) = some [0, 2] := by decide +kernel

/-- over a basis without `/` candidate 0 cannot be written and candidate 1 is spliced with ITS OWN run length 2:
`log|sqrt|4·log|x|||` -/
example : updateTree twoSites [1, 1, 1, 1, 1, 0] 0 ⟨["sqrt_abs", "square", "log_abs"], ["+", "*", "-"]⟩ = .none ∧
    (updateTree twoSites [1, 1, 1, 1, 1, 0] 1 ⟨["sqrt_abs", "square", "log_abs"], ["+", "*", "-"]⟩).cands
      = [(["log_abs", "sqrt_abs", "*", "log_abs", "x", "4"], [1, 1, 2, 1, 0, 0])] := by
  constructor <;> decide +kernel

/-- a `pow_abs` site with runs on both sides and a shared-run `log_abs … exp` pair: the overwrite statements
(`diff2_idx[-1] = …`, `num2[-1] = …`) keep the lists aligned -/
example : detectPar ["inv", "pow_abs", "square", "x", "x"]
    = some ⟨[1], [1], [1], [some ⟨"*", 2⟩], [some ⟨"*", -1⟩]⟩ := by decide +kernel
example : detectPar ["log_abs", "square", "exp", "x"]
    = some ⟨[0, 2], [1, 0], [0, 1], [some ⟨"*", 2⟩, none], [none, some ⟨"*", 2⟩]⟩ := by decide +kernel

/-- `selectOut_filter` on the C11c input: dropping the unusable candidate 0 leaves candidate 1's splice unchanged -/
example : selectOut twoSites [1, 1, 1, 1, 1, 0] ⟨["sqrt_abs", "square", "log_abs"], ["+", "*", "-"]⟩
      (((specials twoSites).getD []).filter (fun sp => sp.n1 != some ⟨"/", 2⟩)) 0
    = updateTree twoSites [1, 1, 1, 1, 1, 0] 1 ⟨["sqrt_abs", "square", "log_abs"], ["+", "*", "-"]⟩ := by
  decide +kernel

end ESR.C11c
