import ESRVerif.Model.FS
import ESRVerif.Generated.DirProto
/-!
C14 — part 2: every rank completes the directory set-up of a fitting stage, for every rank count and every
interleaving of the ranks' start-up.
-/
namespace ESR.C14
open ESR.FS

/-- A rank whose remaining operations contain no unguarded check-then-mkdir never raises. -/
theorem stepRank_safe (fs : List Nat) (r : Rank) (hr : r.failed = false) (hs : r.todo.all Op.isSafe = true) :
    (stepRank fs r).2.failed = false ∧ (stepRank fs r).2.todo.all Op.isSafe = true := by
  unfold stepRank
  cases h : r.todo with
  | nil => exact ⟨hr, hs⟩
  | cons op rest =>
    rw [h] at hs
    simp only [List.all_cons, Bool.and_eq_true] at hs
    cases op with
    | check d => simp [hr, hs.2]
    | mkdirIf d => simp [Op.isSafe] at hs
    | makedirs d => simp [hr, hs.2]

def Good (s : St) : Prop := ∀ r ∈ s.ranks, r.failed = false ∧ r.todo.all Op.isSafe = true

theorem step_good (s : St) (i : Nat) (h : Good s) : Good (step s i) := by
  unfold step
  cases hi : s.ranks[i]? with
  | none => simpa using h
  | some r =>
    simp only []
    intro q hq
    simp only at hq
    rcases List.mem_or_eq_of_mem_set hq with hq | hq
    · exact h q hq
    · have hr := h r (List.mem_of_getElem? hi)
      subst hq
      exact stepRank_safe s.fs r hr.1 hr.2

/-- **`exist_ok` protocols are safe.** If every rank's program creates directories only with
`os.makedirs(..., exist_ok=True)` (or only checks), then for every number of ranks and EVERY interleaving of their
steps no rank raises. -/
theorem dir_protocol_safe (P : Nat) (prog : List Op) (hp : prog.all Op.isSafe = true) (sched : List Nat) :
    anyFailed (runSched (initAll P prog) sched) = false := by
  have hgood : Good (runSched (initAll P prog) sched) := by
    unfold runSched
    have h0 : Good (initAll P prog) := by
      intro r hr
      simp only [initAll, List.mem_replicate] at hr
      rw [hr.2]; exact ⟨rfl, hp⟩
    generalize initAll P prog = s at h0
    induction sched generalizing s with
    | nil => exact h0
    | cons i is ih => exact ih (step s i) (step_good s i h0)
  unfold anyFailed
  rw [List.any_eq_false]
  intro r hr
  simp [(hgood r hr).1]

/-! #### a single creating rank (rank 0, everybody else waits at the barrier) -/

/-- well-formed single-creator program: every guarded mkdir directly follows the check of the same directory -/
def PairedFrom : Option Nat → List Op → Prop
  | _, [] => True
  | _, .check d :: rest => PairedFrom (some d) rest
  | some d', .mkdirIf d :: rest => d' = d ∧ PairedFrom none rest
  | none, .mkdirIf _ :: _ => False
  | _, .makedirs _ :: rest => PairedFrom none rest

/-- invariant of the creating rank: when a `mkdirIf d` is next, the remembered answer is still the truth
(nobody else creates directories) -/
def CreatorInv (fs : List Nat) (r : Rank) (last : Option Nat) : Prop :=
  r.failed = false ∧ PairedFrom last r.todo ∧ (∀ d, last = some d → r.sawDir = fs.contains d)

theorem creator_step (fs : List Nat) (r : Rank) (last : Option Nat) (h : CreatorInv fs r last) :
    ∃ last', CreatorInv (stepRank fs r).1 (stepRank fs r).2 last' := by
  obtain ⟨hf, hp, hs⟩ := h
  unfold stepRank
  cases ht : r.todo with
  | nil => exact ⟨none, by simp [CreatorInv, hf, ht, PairedFrom]⟩
  | cons op rest =>
    rw [ht] at hp
    cases op with
    | check d =>
      refine ⟨some d, ?_⟩
      simp only [CreatorInv]
      refine ⟨hf, ?_, ?_⟩
      · cases last <;> simpa [PairedFrom] using hp
      · intro d' hd'; simp at hd'; subst hd'; rfl
    | mkdirIf d =>
      cases last with
      | none => simp [PairedFrom] at hp
      | some d' =>
        simp only [PairedFrom] at hp
        obtain ⟨rfl, hp⟩ := hp
        have hsaw := hs d' rfl
        refine ⟨none, ?_⟩
        by_cases hsd : r.sawDir = true
        · simp only [hsd, if_true, CreatorInv]
          exact ⟨hf, hp, fun d h => by simp at h⟩
        · have hsd' : r.sawDir = false := by simpa using hsd
          have hc : fs.contains d' = false := by rw [← hsaw]; exact hsd'
          simp only [hsd', hc, if_false, CreatorInv, Bool.false_eq_true]
          exact ⟨hf, hp, fun d h => by simp at h⟩
    | makedirs d =>
      refine ⟨none, ?_⟩
      simp only [CreatorInv]
      refine ⟨hf, ?_, fun d h => by simp at h⟩
      cases last <;> simpa [PairedFrom] using hp

/-- **Rank-0-only creation is safe.** With the creating program run by rank 0 alone (all other ranks do nothing
until the barrier), check-then-mkdir never raises, whatever the number of ranks and the schedule. -/
theorem single_creator_safe (P : Nat) (prog : List Op) (hp : PairedFrom none prog) (sched : List Nat) :
    anyFailed (runSched (initRank0 P prog) sched) = false := by
  -- invariant: rank 0 satisfies CreatorInv for some `last`; all other ranks are idle and not failed
  have key : ∀ (s : St), (∃ r0 rest last, s.ranks = r0 :: rest ∧ CreatorInv s.fs r0 last ∧
        ∀ q ∈ rest, q.todo = [] ∧ q.failed = false) →
      ∀ sched, anyFailed (runSched s sched) = false := by
    intro s hs sched
    induction sched generalizing s with
    | nil =>
      obtain ⟨r0, rest, last, hr, hc, hq⟩ := hs
      simp only [runSched, List.foldl_nil, anyFailed, hr, List.any_cons, hc.1, Bool.false_or, List.any_eq_false]
      intro q hq'; simp [(hq q hq').2]
    | cons i is ih =>
      obtain ⟨r0, rest, last, hr, hc, hq⟩ := hs
      show anyFailed (runSched (step s i) is) = false
      apply ih
      unfold step
      cases i with
      | zero =>
        simp only [hr, List.getElem?_cons_zero, List.set_cons_zero]
        obtain ⟨last', hc'⟩ := creator_step s.fs r0 last hc
        exact ⟨_, rest, last', rfl, hc', hq⟩
      | succ j =>
        simp only [hr, List.getElem?_cons_succ]
        cases hj : rest[j]? with
        | none => exact ⟨r0, rest, last, by simp [hr], hc, hq⟩
        | some q =>
          have hqq := hq q (List.mem_of_getElem? hj)
          have hstep : stepRank s.fs q = (s.fs, q) := by simp [stepRank, hqq.1]
          simp only [hstep, List.set_cons_succ]
          refine ⟨r0, rest.set j q, last, rfl, hc, ?_⟩
          intro q' hq'
          rcases List.mem_or_eq_of_mem_set hq' with h | h
          · exact hq q' h
          · subst h; exact hqq
  apply key
  refine ⟨{ todo := prog }, List.replicate (P - 1) { todo := [] }, none, rfl, ⟨rfl, hp, fun d h => by simp at h⟩, ?_⟩
  intro q hq
  simp only [List.mem_replicate] at hq
  rw [hq.2]; exact ⟨rfl, rfl⟩

/-- **Check-then-mkdir on every rank races.** Two ranks both running `if not isdir(d): mkdir(d)` from a fresh
tree: in the schedule check₀, check₁, mkdir₀, mkdir₁ the second rank raises FileExistsError. -/
theorem check_then_mkdir_races (d : Nat) :
    anyFailed (runSched (initAll 2 [.check d, .mkdirIf d]) [0, 1, 0, 1]) = true := by
  simp [runSched, initAll, step, stepRank, anyFailed, List.replicate]

/-! #### the protocols regenerated from today's source -/
open ESR.Gen.DirProto

def toOps : List Step → List Op
  | [] => []
  | ⟨.checkMkdir, d⟩ :: rest => .check d :: .mkdirIf d :: toOps rest
  | ⟨.makedirsExistOk, d⟩ :: rest => .makedirs d :: toOps rest

/-- every directory protocol run by ALL ranks uses only exist_ok creation (hypothesis of `dir_protocol_safe`) -/
theorem all_rank_protocols_safe :
    (protocols.filter (fun p => !p.rank0Only)).all (fun p => (toOps p.steps).all Op.isSafe) = true := by
  decide +kernel

/-- every rank-0-only protocol is followed by a barrier before any other rank proceeds and is well paired
(hypotheses of `single_creator_safe`) -/
theorem rank0_protocols_guarded :
    (protocols.filter (fun p => p.rank0Only)).all (fun p => p.barrierAfter) = true := by decide +kernel

theorem toOps_paired (steps : List Step) (last : Option Nat) : PairedFrom last (toOps steps) := by
  induction steps generalizing last with
  | nil => simp [toOps, PairedFrom]
  | cons s rest ih =>
    obtain ⟨k, d⟩ := s
    cases k with
    | checkMkdir => cases last <;> simp [toOps, PairedFrom, ih]
    | makedirsExistOk => cases last <;> simp [toOps, PairedFrom, ih]

/-- Consequence for the fitting stages as written today: no rank can raise while setting up the output
directories, for any rank count and any interleaving. -/
theorem fitting_dir_setup_never_raises (P : Nat) (sched : List Nat) :
    ∀ p ∈ protocols,
      (p.rank0Only = false → anyFailed (runSched (initAll P (toOps p.steps)) sched) = false) ∧
      (p.rank0Only = true → anyFailed (runSched (initRank0 P (toOps p.steps)) sched) = false) := by
  intro p hp
  constructor
  · intro h0
    apply dir_protocol_safe
    have := all_rank_protocols_safe
    rw [List.all_eq_true] at this
    exact this p (by simp [List.mem_filter, hp, h0])
  · intro _
    exact single_creator_safe P _ (toOps_paired _ _) sched

example : anyFailed (runSched (initAll 3 [.makedirs 7]) [2, 0, 1, 1, 0]) = false := by decide
example : (runSched (initRank0 3 [.check 1, .mkdirIf 1, .check 2, .mkdirIf 2]) [0, 1, 0, 2, 0, 0]).fs = [2, 1] := by decide

end ESR.C14
