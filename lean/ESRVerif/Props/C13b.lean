import ESRVerif.Model.Gather
import ESRVerif.Generated.Gather
import ESRVerif.Proofs.Gather
import ESRVerif.Props.C14
/-!
C13 (second part) — the scatter/gather steps of the duplicate-checking stage give the same lists for every rank count.

`Model/Gather.lean` runs `make_changes`, the gather of `initial_sympify`, `load_subs` and the flagged-index bookkeeping
of `check_results` the way the code does: per rank, with `split_idx` blocks, gathered offsets and in-place writes.  The index
arithmetic itself (`start_idx`, `imin`, the offset added to a local flagged index) is not hand-written: it is the term
`ESR.Gen.Gather.makeChanges` / `checkResults` that `harness/extractors/gather.py` reads from today's source, and the first
two theorems establish what the others need from it.  All statements hold for every list length `N` (incl. 0) and every
`P ≥ 1` (incl. `P > N`); the right-hand sides do not mention `P`.
-/
namespace ESR.C13b
open ESR.Gather ESR.Partition

/-- **Tie to the source.** In `make_changes` as it stands every rank contributes the size of its `split_idx` block,
compares `str_fun[i]` with `all_fun[block start + i]`, rank 0 turns the gathered sizes into `cumsum([0] + sizes)`, and
rank `i`'s changes are shifted by `start_idx[i]`.  (`start_idx[i+1]`, a dropped leading 0, `rank*len(...)` … fail here.) -/
theorem generated_makeChanges_sound : ESR.Gen.Gather.makeChanges.Sound := by
  refine ⟨?_, ?_, ?_, rfl⟩
  · intro N P r L _
    have hm := ESR.C14.divPoint_mono N P r
    by_cases h : divPoint N P r < divPoint N P (r + 1)
    · simp [ESR.Gen.Gather.makeChanges, Ix.eval, splitIdx_nonempty h, natOf]
      all_goals omega
    · simp [ESR.Gen.Gather.makeChanges, Ix.eval, splitIdx_empty h, natOf]
      all_goals omega
  · intro N P r L _
    by_cases h : divPoint N P r < divPoint N P (r + 1)
    · exact ⟨divPoint N P r, by simp [ESR.Gen.Gather.makeChanges, Ix.eval, splitIdx_nonempty h, natOf], fun _ => rfl⟩
    · -- a rank without a block compares nothing: any base that evaluates will do
      have he : ∃ m, (ESR.Gen.Gather.makeChanges.cmpBase.eval ⟨N, r, P, L⟩).bind natOf = some m := by
        simp [ESR.Gen.Gather.makeChanges, Ix.eval, splitIdx_empty h, natOf]
      obtain ⟨m, hm'⟩ := he
      exact ⟨m, hm', fun h' => absurd h' h⟩
  · intro xs
    simp [ESR.Gen.Gather.makeChanges, applySteps, PStep.apply, cumsum, cumsumFrom]

/-- **Tie to the source.** In `check_results` as it stands the slice scattered to rank `r` is its `split_idx` block (empty for a
rank without work) and the offset added to a local flagged index is the start of that block. -/
theorem generated_checkResults_sound : ESR.Gen.Gather.checkResults.Sound := by
  refine ⟨?_, ?_⟩
  · intro N P r
    have hm := ESR.C14.divPoint_mono N P r
    by_cases h : divPoint N P r < divPoint N P (r + 1)
    · refine ⟨divPoint N P r, divPoint N P (r + 1), ?_, ?_, fun _ => ⟨rfl, rfl⟩, fun h' => absurd h h'⟩
      · simp [ESR.Gen.Gather.checkResults, Ix.eval, splitIdx_nonempty h, natOf]
      · simp [ESR.Gen.Gather.checkResults, Ix.eval, splitIdx_nonempty h, natOf]
        all_goals omega
    · -- a rank without a block: any empty slice (`hi ≤ lo`) will do
      have he : ∃ lo hi, (ESR.Gen.Gather.checkResults.sliceLo.eval ⟨N, r, P, 0⟩).bind natOf = some lo ∧
          (ESR.Gen.Gather.checkResults.sliceHi.eval ⟨N, r, P, 0⟩).bind natOf = some hi ∧ hi ≤ lo := by
        simp [ESR.Gen.Gather.checkResults, Ix.eval, splitIdx_empty h, natOf]
        all_goals omega
      obtain ⟨lo, hi, h1, h2, h3⟩ := he
      exact ⟨lo, hi, h1, h2, fun h' => absurd h' h, fun _ => h3⟩
  · intro N P r L _
    by_cases h : divPoint N P r < divPoint N P (r + 1)
    · exact ⟨divPoint N P r, by simp [ESR.Gen.Gather.checkResults, Ix.eval, splitIdx_nonempty h, natOf], fun _ => rfl⟩
    · -- a rank without a block flags nothing: any offset that evaluates will do
      have he : ∃ m, (ESR.Gen.Gather.checkResults.offset.eval ⟨N, r, P, L⟩).bind natOf = some m := by
        simp [ESR.Gen.Gather.checkResults, Ix.eval, splitIdx_empty h, natOf]
      obtain ⟨m, hm'⟩ := he
      exact ⟨m, hm', fun h' => absurd h' h⟩

/-! ### make_changes -/

variable {σ ι : Type}

/-- **`make_changes` writes the per-rank results in rank order.** If every rank passes lists of the length of its `split_idx`
block, then after the gathered, offset, in-place updates `all_fun` is the concatenation of the ranks' `str_fun` in rank order,
and `all_sym` / `all_inv_subs` carry the owner's entry exactly where the function string changed and the old entry elsewhere —
for every `N` and every `P ≥ 1` (ranks beyond the data pass empty lists and write nothing). -/
theorem makeChanges_eq_concat (allFun : List String) (allSym : List σ) (allInv : List (Option ι))
    (loc : List (Local σ ι)) (hP : 1 ≤ loc.length)
    (hsym : allSym.length = allFun.length) (hinv : allInv.length = allFun.length)
    (hlen : BlockLengths allFun.length loc) :
    makeChanges ESR.Gen.Gather.makeChanges allFun allSym allInv loc = some (
      (loc.map Local.str).flatten,
      mergeChanged allFun (loc.map Local.str).flatten allSym (loc.map Local.sym).flatten,
      mergeChanged allFun (loc.map Local.str).flatten allInv (loc.map Local.inv).flatten) :=
  makeChanges_of_sound allFun loc ESR.Gen.Gather.makeChanges generated_makeChanges_sound allSym allInv hP hsym hinv hlen

/-- Hence, when the owner of each function applies a per-item rewrite `g` to its block, the updated `all_fun` is `all_fun.map g`
whatever the number of ranks. -/
theorem makeChanges_owner_map (g : String → String) (allFun : List String) (allSym : List σ) (allInv : List (Option ι))
    (loc : List (Local σ ι)) (hP : 1 ≤ loc.length)
    (hsym : allSym.length = allFun.length) (hinv : allInv.length = allFun.length)
    (hstr : ∀ r (h : r < loc.length), loc[r].str = (blockSlice allFun loc.length r).map g)
    (hl : ∀ r (h : r < loc.length), loc[r].sym.length = loc[r].str.length ∧ loc[r].inv.length = loc[r].str.length) :
    (makeChanges ESR.Gen.Gather.makeChanges allFun allSym allInv loc).map (·.1) = some (allFun.map g) := by
  have hlen : BlockLengths allFun.length loc := by
    intro r h
    refine ⟨?_, hl r h⟩
    have hle := divPoint_le_total allFun.length loc.length (r + 1) hP (by omega)
    rw [hstr r h, List.length_map]
    unfold blockSlice block
    rw [length_pySlice, Nat.min_eq_left hle]
  rw [makeChanges_eq_concat allFun allSym allInv loc hP hsym hinv hlen, Option.map_some]
  congr 1
  have hmap : loc.map Local.str = (List.range loc.length).map (fun r => (blockSlice allFun loc.length r).map g) := by
    apply List.ext_getElem (by simp)
    intro r h1 h2
    simp only [List.length_map] at h1
    simp [hstr r h1]
  have h := congrArg (List.map g) (ESR.C14.blocks_tile allFun loc.length hP)
  rw [List.map_flatMap, List.flatMap_def] at h
  rw [hmap]; exact h

/-- The result of `make_changes` does not depend on how many ranks did the work: two rank counts whose per-rank lists
concatenate to the same lists produce the same triple. -/
theorem makeChanges_rank_count_irrelevant (allFun : List String) (allSym : List σ) (allInv : List (Option ι))
    (loc₁ loc₂ : List (Local σ ι)) (h₁ : 1 ≤ loc₁.length) (h₂ : 1 ≤ loc₂.length)
    (hsym : allSym.length = allFun.length) (hinv : allInv.length = allFun.length)
    (hl₁ : BlockLengths allFun.length loc₁) (hl₂ : BlockLengths allFun.length loc₂)
    (hs : (loc₁.map Local.str).flatten = (loc₂.map Local.str).flatten)
    (hy : (loc₁.map Local.sym).flatten = (loc₂.map Local.sym).flatten)
    (hv : (loc₁.map Local.inv).flatten = (loc₂.map Local.inv).flatten) :
    makeChanges ESR.Gen.Gather.makeChanges allFun allSym allInv loc₁
      = makeChanges ESR.Gen.Gather.makeChanges allFun allSym allInv loc₂ := by
  rw [makeChanges_eq_concat allFun allSym allInv loc₁ h₁ hsym hinv hl₁,
    makeChanges_eq_concat allFun allSym allInv loc₂ h₂ hsym hinv hl₂, hs, hy, hv]

/-! ### initial_sympify -/

/-- **The gather of `initial_sympify`.** Whatever lists the ranks hold, `start_idx = cumsum([0] + lengths)` and the slice
assignments `all_fun[start_idx[r]:start_idx[r+1]] = bcast(str_fun, root=r)` leave no `None` and give the concatenation in
rank order. -/
theorem initialSympify_gather {α : Type} (loc : List (List α)) :
    initialSympifyGather loc = some (loc.flatten.map some) :=
  initialSympifyGather_eq loc

/-- With each rank sympifying its `split_idx` block item by item, every rank ends up with `all_fun.map g`, for every `P ≥ 1`. -/
theorem initialSympify_rank_count_irrelevant {α β : Type} (xs : List α) (g : α → β) (P : Nat) (hP : 1 ≤ P) :
    initialSympifyGather ((List.range P).map fun r => (blockSlice xs P r).map g) = some ((xs.map g).map some) := by
  rw [initialSympify_gather]
  have h := congrArg (List.map g) (ESR.C14.blocks_tile xs P hP)
  rw [List.map_flatMap, List.flatMap_def] at h
  rw [h]

/-! ### load_subs -/

/-- **`load_subs` returns the file's rows, transformed, in file order** — `np.array_split` blocks scattered, transformed on each
rank, gathered and chained — for every `P ≥ 1`, including more ranks than rows and an empty file. -/
theorem loadSubs_scatter_gather {α β : Type} (t : α → β) (subs : List α) (P : Nat) (hP : 1 ≤ P) :
    loadSubs t subs P = subs.map t := by
  unfold loadSubs
  have hmap : ((List.range P).map fun r => (loadSubsBlock subs P r).map t)
      = (List.range P).map fun r => (blockSlice subs P r).map t := by
    apply List.map_congr_left
    intro r hr
    rw [loadSubsBlock_eq subs P r hP (List.mem_range.mp hr)]
  have h := congrArg (List.map t) (ESR.C14.blocks_tile subs P hP)
  rw [List.map_flatMap, List.flatMap_def] at h
  rw [hmap]; exact h

theorem loadSubs_rank_count_irrelevant {α β : Type} (t : α → β) (subs : List α) (P Q : Nat) (hP : 1 ≤ P) (hQ : 1 ≤ Q) :
    loadSubs t subs P = loadSubs t subs Q := by
  rw [loadSubs_scatter_gather t subs P hP, loadSubs_scatter_gather t subs Q hQ]

/-! ### check_results -/

/-- **The functions `check_results` un-merges are the ones that fail its check, whatever the rank count.** The gathered list
`[i + imin for flagged i]`, chained over the ranks and mapped through `shufidx`, is the list of `shufidx` entries at the
flagged positions of the whole (shuffled) list, in order.  An offset other than the start of the rank's block
(`rank*len(block)`, the block start of another `split_idx` call …) makes `generated_checkResults_sound` and hence this fail. -/
theorem flagged_indices_global {α μ : Type} (bad : α → μ → Bool) (xs : List α) (ms : List μ) (shufidx : List Nat) (P : Nat)
    (hP : 1 ≤ P) (hms : ms.length = xs.length) (hsh : shufidx.length = xs.length) :
    flaggedIndices ESR.Gen.Gather.checkResults bad xs ms shufidx P
      = some (((xs.zip ms).zip shufidx).filterMap fun p => if bad p.1.1 p.1.2 then some p.2 else none) :=
  flaggedIndices_of_sound ESR.Gen.Gather.checkResults generated_checkResults_sound bad xs ms shufidx P hP hms hsh

theorem flagged_rank_count_irrelevant {α μ : Type} (bad : α → μ → Bool) (xs : List α) (ms : List μ) (shufidx : List Nat)
    (P Q : Nat) (hP : 1 ≤ P) (hQ : 1 ≤ Q) (hms : ms.length = xs.length) (hsh : shufidx.length = xs.length) :
    flaggedIndices ESR.Gen.Gather.checkResults bad xs ms shufidx P
      = flaggedIndices ESR.Gen.Gather.checkResults bad xs ms shufidx Q := by
  rw [flagged_indices_global bad xs ms shufidx P hP hms hsh, flagged_indices_global bad xs ms shufidx Q hQ hms hsh]

/-! ### non-vacuity: concrete runs of the models (5 functions on 3 ranks; 2 functions on 4 ranks; a wrong offset) -/

def demoLoc : List (Local String String) :=
  [⟨["g0", "f1"], ["t0", "u1"], [some "e0", none]⟩, ⟨["f2", "g3"], ["s2", "t3"], [none, none]⟩, ⟨["f4"], ["s4"], [none]⟩]

example : makeChanges ESR.Gen.Gather.makeChanges ["f0", "f1", "f2", "f3", "f4"] ["s0", "s1", "s2", "s3", "s4"]
    [none, some "d1", none, some "d3", none] demoLoc
    = some (["g0", "f1", "f2", "g3", "f4"], ["t0", "s1", "s2", "t3", "s4"], [some "e0", some "d1", none, none, none]) := by
  decide

example : BlockLengths 5 demoLoc := by
  intro r h
  have : r = 0 ∨ r = 1 ∨ r = 2 := by simp [demoLoc] at h; omega
  rcases this with rfl | rfl | rfl <;> simp [demoLoc, divPoint]

example : initialSympifyGather [["a"], [], ["b", "c"], []] = some [some "a", some "b", some "c"] := by decide
example : loadSubs (· + 100) [0, 1] 4 = [100, 101] := by decide
example : flaggedIndices ESR.Gen.Gather.checkResults (fun (a : Bool) (_ : Nat) => a)
    [false, true, false, false, true, true, false] [0, 1, 2, 3, 4, 5, 6] [6, 5, 4, 3, 2, 1, 0] 3 = some [5, 2, 1] := by decide
/-- the offset `rank * len(block)` reports other functions as soon as the blocks differ in size (7 items on 3 ranks: 3,2,2) -/
example : flaggedIndices { ESR.Gen.Gather.checkResults with offset := .mul .rank .localLen } (fun (a : Bool) (_ : Nat) => a)
    [false, true, false, false, true, true, false] [0, 1, 2, 3, 4, 5, 6] [6, 5, 4, 3, 2, 1, 0] 3 = some [5, 3, 2] := by decide

end ESR.C13b
