import ESRVerif.Proofs.ToListSelect
import ESRVerif.Props.C18
/-!
C18 (continued) — the choice among the four parse variants in `string_to_node`.

Model: `ESRVerif/Model/ToListSelect.lean`.  The candidate sympy trees are input (`none` where `string_to_expr` /
`.evalf()` raised — third-party behaviour, observed by the check, not modelled); the model is everything after that:
the four `try` blocks (`DecoratedNode`, `count_nodes`, NaN where they raise or where the block behind `if allow_eval:`
is not run), `check_operators`, the `check_ops and any(all_in_basis)` masking, `np.nanargmin`, and the returned triple.
The order and flags of the variants, the rule chain and number-class list of `check_operators`, the defaults of
`string_to_node` and the flags at its two call sites in `fit_single.py` are regenerated from the source
(`ESRVerif/Generated/ToList.lean`).  All theorems are for every basis, every flag setting and candidate trees of any size.
-/
namespace ESR.C18
open ESR.ToList ESR.Gen.ToList
open ESR.Labeling (Basis)

variable (B : Basis) (ae ck : Bool) (es : List (Option SymExpr))

/-- What a non-NaN entry `c[j] = w` (before the masking) means: variant `j` exists, its block was run (it is not the
`allow_eval` variant with `allow_eval` off), its parse did not raise, and `DecoratedNode(...).count_nodes(...)` returned
`w` — in particular `to_list` did not raise. -/
theorem count_entry_iff (j w : Nat) :
    (rawCounts B ae es)[j]? = some (some w) ↔
      ∃ v e, variants[j]? = some v ∧ es[j]? = some (some e) ∧ variantRuns ae v = true ∧
        countNodes B (build B none e) = some w := by
  constructor
  · intro h
    obtain ⟨v, oe, hv, he, hx⟩ := rawCounts_get B ae es j (some w) h
    obtain ⟨hr, e, hoe, hc⟩ := variantCount_some B ae hx.symm
    subst hoe
    exact ⟨v, e, hv, he, hr, hc⟩
  · rintro ⟨v, e, hv, he, hr, hc⟩
    unfold rawCounts
    rw [List.getElem?_map]
    have : (variants.zip es)[j]? = some (v, some e) := List.getElem?_zip_eq_some.mpr ⟨hv, he⟩
    simp [this, variantCount, hr, hc]

/-- **The returned variant has the minimum node count.**  Without `check_ops` (the default, and the setting of both
callers in `fit_single.py`), or with `check_ops` when no variant is fully in-basis, the reported complexity is the node
count of the returned variant, no variant that did not raise has fewer nodes, and every EARLIER variant that did not
raise has strictly more: the first index of the minimum (`np.nanargmin`). -/
theorem select_is_min (r : Selected) (h : select B ae ck es = some r)
    (hnomask : ck = false ∨ (allInBasis B ae ck es).any id = false) :
    (rawCounts B ae es)[r.idx]? = some (some r.complexity) ∧
      (∀ (j w : Nat), (rawCounts B ae es)[j]? = some (some w) → r.complexity ≤ w) ∧
      (∀ (j w : Nat), j < r.idx → (rawCounts B ae es)[j]? = some (some w) → r.complexity < w) := by
  have hm : maskedCounts B ae ck es = rawCounts B ae es := by
    rcases hnomask with h0 | h0
    · subst h0; exact maskedCounts_nocheck B ae es
    · exact maskedCounts_none_inBasis B ae ck es h0
  obtain ⟨hp, -, -⟩ := select_some B ae ck es r h
  rw [hm] at hp
  exact argminPair_spec _ _ _ hp

/-- **The reported complexity is the number of labels of the returned variant.**  The returned tree is the candidate at
the returned index, the returned node is its `DecoratedNode`, `to_list` on it does not raise, and the complexity
`int(c[i])` equals the length of that label list (= `count_nodes`, by `complexity_is_length`). -/
theorem select_reported_complexity (r : Selected) (h : select B ae ck es = some r) :
    es[r.idx]? = some (some r.expr) ∧ r.node = build B none r.expr ∧
      countNodes B r.node = some r.complexity ∧
      ∃ ls, r.labels B = some ls ∧ r.complexity = ls.length := by
  obtain ⟨hp, he, hn⟩ := select_some B ae ck es r h
  obtain ⟨h1, -, -⟩ := argminPair_spec _ _ _ hp
  obtain ⟨hraw, -⟩ := maskedCounts_get B ae ck es _ _ h1
  obtain ⟨v, e, -, he', -, hc⟩ := (count_entry_iff B ae es _ _).mp hraw
  rw [he] at he'
  have hee : r.expr = e := by simpa using he'
  subst hee
  have hcn : countNodes B r.node = some r.complexity := by rw [hn]; exact hc
  refine ⟨he, hn, hcn, ?_⟩
  have hl := complexity_is_length B r.node
  rw [hcn] at hl
  cases ht : toList B r.node with
  | none => rw [ht] at hl; simp at hl
  | some ls =>
    rw [ht] at hl
    exact ⟨ls, ht, by simpa using hl⟩

/-- **With `check_ops` on and some variant fully in-basis, the returned variant is in-basis**: it is one of the
variants for which `check_operators` returned True, every label of the returned list passes `check_operators`
(normalised as the code normalises it, it is a member of the flattened basis), and among the in-basis variants it has
the minimum node count, first such index. -/
theorem select_check_ops (r : Selected) (hany : ∃ j : Nat, (allInBasis B ae true es)[j]? = some true)
    (h : select B ae true es = some r) :
    (allInBasis B ae true es)[r.idx]? = some true ∧
      (∃ ls, r.labels B = some ls ∧ checkOperators B ls = true ∧ ∀ l ∈ ls, ckNorm B l ∈ flatBasis B) ∧
      (∀ (j w : Nat), (allInBasis B ae true es)[j]? = some true → (rawCounts B ae es)[j]? = some (some w) →
        r.complexity ≤ w) ∧
      (∀ (j w : Nat), j < r.idx → (allInBasis B ae true es)[j]? = some true →
        (rawCounts B ae es)[j]? = some (some w) → r.complexity < w) := by
  obtain ⟨j0, hj0⟩ := hany
  have hm : (true && (allInBasis B ae true es).any id) = true := by
    simp only [Bool.true_and, List.any_eq_true]
    exact ⟨true, List.mem_of_getElem? hj0, rfl⟩
  obtain ⟨hp, he, hn⟩ := select_some B ae true es r h
  obtain ⟨h1, h2, h3⟩ := argminPair_spec _ _ _ hp
  obtain ⟨-, hib⟩ := maskedCounts_get B ae true es _ _ h1
  have hib := hib hm
  refine ⟨hib, ?_, ?_, ?_⟩
  · obtain ⟨v, oe, -, he', hb⟩ := allInBasis_get B ae true es _ _ hib
    obtain ⟨-, -, e, ls, hoe, ht, hco, -⟩ := variantInBasis_true B ae true hb.symm
    subst hoe
    rw [he] at he'
    have hee : r.expr = e := by simpa using he'
    subst hee
    refine ⟨ls, by simpa [Selected.labels, hn] using ht, hco, ?_⟩
    intro l hl
    have := (List.all_eq_true.mp hco) l hl
    simpa [labelPasses] using this
  · intro j w hb hc
    exact h2 j w (maskedCounts_keep B ae true es j w hm hb hc)
  · intro j w hlt hb hc
    exact h3 j w hlt (maskedCounts_keep B ae true es j w hm hb hc)

/-- **`string_to_node` raises iff every variant raises** (or is not run): `np.nanargmin` raises ValueError exactly when
no entry of `c` is a number before the masking — the masking never empties `c`, because it only runs when some variant
is in-basis and that variant keeps its count. -/
theorem select_total :
    select B ae ck es = none ↔
      ∀ (j : Nat) (v : Variant) (oe : Option SymExpr), variants[j]? = some v → es[j]? = some oe →
        variantCount B ae v oe = none := by
  constructor
  · intro h j v oe hv he
    cases hc : variantCount B ae v oe with
    | none => rfl
    | some w =>
      exfalso
      have hraw : (rawCounts B ae es)[j]? = some (some w) := by
        unfold rawCounts
        rw [List.getElem?_map]
        have : (variants.zip es)[j]? = some (v, oe) := List.getElem?_zip_eq_some.mpr ⟨hv, he⟩
        simp [this, hc]
      -- some entry of the masked counts is a number
      have hex : ∃ (j' w' : Nat), (maskedCounts B ae ck es)[j']? = some (some w') := by
        by_cases hm : (ck && (allInBasis B ae ck es).any id) = true
        · have hany : (allInBasis B ae ck es).any id = true := by
            cases ck <;> simp_all
          obtain ⟨b, hbm, hbt⟩ := List.any_eq_true.mp hany
          have hbt : b = true := by simpa using hbt
          subst hbt
          obtain ⟨j', hj'⟩ := List.getElem?_of_mem hbm
          obtain ⟨w', hw'⟩ := inBasis_has_count B ae ck es j' hj'
          exact ⟨j', w', maskedCounts_keep B ae ck es j' w' hm hj' hw'⟩
        · refine ⟨j, w, ?_⟩
          unfold maskedCounts
          rw [if_neg hm]; exact hraw
      obtain ⟨j', w', hjw⟩ := hex
      cases hp : argminPair (maskedCounts B ae ck es) with
      | none =>
        have := (argminPair_none _).mp hp _ (List.mem_of_getElem? hjw)
        simp at this
      | some iv =>
        obtain ⟨i, n⟩ := iv
        obtain ⟨e, -, hs⟩ := select_of_argmin B ae ck es i n hp
        rw [h] at hs; simp at hs
  · intro hall
    have hraw : ∀ x ∈ rawCounts B ae es, x = none := by
      intro x hx
      obtain ⟨j, hj⟩ := List.getElem?_of_mem hx
      obtain ⟨v, oe, hv, he, hxe⟩ := rawCounts_get B ae es j x hj
      rw [hxe]; exact hall j v oe hv he
    cases hs : select B ae ck es with
    | none => rfl
    | some r =>
      exfalso
      obtain ⟨hp, -, -⟩ := select_some B ae ck es r hs
      obtain ⟨h1, -, -⟩ := argminPair_spec _ _ _ hp
      obtain ⟨hr, -⟩ := maskedCounts_get B ae ck es _ _ h1
      have := hraw _ (List.mem_of_getElem? hr)
      simp at this

/-- With `check_ops` on, an in-basis variant guarantees a result. -/
theorem select_check_ops_returns (hany : ∃ j : Nat, (allInBasis B ae true es)[j]? = some true) :
    ∃ r, select B ae true es = some r := by
  obtain ⟨j, hj⟩ := hany
  cases hs : select B ae true es with
  | some r => exact ⟨r, rfl⟩
  | none =>
    exfalso
    obtain ⟨v, oe, hv, he, hb⟩ := allInBasis_get B ae true es j true hj
    obtain ⟨-, -, -, ls, -, -, -, hc⟩ := variantInBasis_true B ae true hb.symm
    have := (select_total B ae true es).mp hs j v oe hv he
    rw [hc] at this; simp at this

/-! ### the regenerated skeleton against the documentation of `string_to_node` -/

/-- "Four parse variants": the arrays have four entries and every combination of `kern` / `evaluate` is tried. -/
theorem four_variants : variants.length = 4 ∧ ∀ k e : Bool, ∃ v ∈ variants, v.kern = k ∧ v.evaluate = e := by
  decide

/-- Docstring of `allow_eval`: "whether to run the (kernS=False and evaluate=True) option" — the block behind
`if allow_eval:` is that variant and no other. -/
theorem allow_eval_guards_evaluated_sympify :
    ∀ v ∈ variants, v.guarded = true ↔ (v.kern = false ∧ v.evaluate = true) := by
  decide

/-- with `allow_eval` every block is run -/
theorem all_variants_run_by_default : ∀ v ∈ variants, variantRuns true v = true := by
  decide

/-! ### non-vacuity, and known finding F12 inside the model -/

section examples

/-- base_e_maths -/
def baseE : Basis := ⟨["x", "a"], ["inv", "exp", "log_abs"], ["+", "*", "-", "/", "pow"]⟩

/-- `log_abs(x)` through `sympify` with ESR's symbol table (variants 0 and 1): `log(x)`, x declared positive -/
def eLogSympify : SymExpr := op1 "log" (sym "x")
/-- `log_abs(x)` through `kernS` (variants 2 and 3): an undefined function named `log_abs` -/
def eLogKern : SymExpr := op1 "log_abs" (sym "x")
def logCands : List (Option SymExpr) := [some eLogSympify, some eLogSympify, some eLogKern, some eLogKern]

/-- all four variants of `log_abs(x)` have two nodes; only the `kernS` ones are in-basis -/
example : rawCounts baseE true logCands = [some 2, some 2, some 2, some 2] ∧
    allInBasis baseE true true logCands = [false, false, true, true] := by decide

/-- **F12 in the model** — the contrapositive witness of `select_check_ops` for `check_ops = False` (the default, and
what `fit_from_string` / `string_to_aifeyn` pass): on the four-way tie the first index wins, which is the sympy-evaluated
variant; its label list `['log', 'x']` does NOT pass `check_operators`, although an in-basis variant of the same size
exists, and the relabelling pass of the string API then raises (`labels_to_shape`: ValueError). -/
example : (select baseE true false logCands).map (fun r => (r.idx, r.labels baseE, r.complexity)) =
      some (0, some ["log", "x"], 2) ∧
    checkOperators baseE ["log", "x"] = false ∧
    (allInBasis baseE true true logCands).any id = true ∧
    relabel baseE false 20 ["log", "x"] = none := by decide

/-- the same candidates with `check_ops = True`: the first in-basis variant is returned and the string API's
relabelling succeeds -/
example : (select baseE true true logCands).map (fun r => (r.idx, r.labels baseE, r.complexity)) =
      some (2, some ["log_abs", "x"], 2) ∧
    checkOperators baseE ["log_abs", "x"] = true ∧
    relabel baseE false 20 ["log_abs", "x"] = some ["log_abs", "x"] := by decide

/-- a strict minimum wins regardless of position; a variant whose parse raised (`none`) and one whose `to_list` raises
(a bare `Pow` atom) are skipped: `a0 + a1*x**3` (7 nodes) against `x` -/
example : (select core true false [some eLCDM, none, some (.atom ⟨"Pow", false, false, "", .none⟩), some (sym "x")]).map
      (fun r => (r.idx, r.labels core, r.complexity)) = some (3, some ["x"], 1) ∧
    rawCounts core true [some eLCDM, none, some (.atom ⟨"Pow", false, false, "", .none⟩), some (sym "x")] =
      [some 7, none, none, some 1] := by decide

/-- `allow_eval = False`: variant 0 is not run even though its tree would be the smallest -/
example : (select core false false [some (sym "x"), some eLCDM, some eLCDM, none]).map (fun r => (r.idx, r.complexity)) =
      some (1, 7) := by decide

/-- every variant raises: ValueError -/
example : select core true false [none, none, some (.atom ⟨"Pow", false, false, "", .none⟩), none] = none := by decide

/-- numbers, parameters and sympy number classes pass `check_operators`; a sympy function outside the basis does not -/
example : checkOperators core ["Add", "a0", "Mul", "2.50000000000000", "Pow", "x", "-1/2"] = true ∧
    checkOperators core ["Mul", "pi", "x12"] = true ∧ checkOperators core ["Abs", "x"] = false ∧
    checkOperators ⟨["x", "a"], ["inv"], ["+", "pow"]⟩ ["Mul", "x", "x"] = false := by decide

end examples

end ESR.C18
