import ESRVerif.Model.SPMD
import ESRVerif.Generated.SPMD
import ESRVerif.Model.Partition
import ESRVerif.Proofs.SPMD
import ESRVerif.Props.C14
/-!
C13 — the number of ranks changes neither what is enumerated nor its soundness.

Two layers:
* execution: a program whose ranks all run the same action list and talk only through collectives has
  ONE result whatever the interleaving of rank progress, and never deadlocks (`spmd_deterministic`,
  `spmd_no_deadlock`); whether ESR's generation code has that shape is decided from the source by
  `harness/extractors/spmd.py` (re-checked on every run) and by real multi-rank runs.
* data flow: splitting a list into `split_idx` blocks, mapping per item on each rank and gathering in
  rank order gives the same list for every P ≥ 1, including P > N (`gather_blocks`, `scatter_map_gather`).
-/
namespace ESR.C13
open ESR.SPMD ESR.Partition

variable {P : Nat} {σ : Type}

/-- **Relative speeds have no influence.** Whatever the interleaving, a run that has finished on every rank
ends in the lock-step state. -/
theorem spmd_deterministic (prog : List (Act P σ)) (s0 : Fin P → σ) (c : Config P σ)
    (hr : Reach prog s0 c) (ht : Terminal prog c) : c.st = run prog s0 := by
  have hi := inv_reach prog s0 c hr
  funext r
  rw [hi.st_eq r, ht r, List.take_length]

/-- Any two complete interleavings end in the same per-rank states. -/
theorem spmd_confluent (prog : List (Act P σ)) (s0 : Fin P → σ) (c₁ c₂ : Config P σ)
    (h₁ : Reach prog s0 c₁) (h₂ : Reach prog s0 c₂) (t₁ : Terminal prog c₁) (t₂ : Terminal prog c₂) :
    c₁.st = c₂.st := by
  rw [spmd_deterministic prog s0 c₁ h₁ t₁, spmd_deterministic prog s0 c₂ h₂ t₂]

theorem exists_min (f : Fin P → Nat) (r0 : Fin P) : ∃ r, ∀ q, f r ≤ f q := by
  generalize hn : f r0 = n
  induction n using Nat.strongRecOn generalizing r0 with
  | _ n ih =>
    by_cases h : ∀ q, f r0 ≤ f q
    · exact ⟨r0, h⟩
    · have ⟨q, hq⟩ : ∃ q, ¬ f r0 ≤ f q := Classical.not_forall.mp h
      exact ih (f q) (by omega) q rfl

/-- **Termination on all ranks (no hang).** A reachable configuration that has not finished can always move:
no interleaving deadlocks. -/
theorem spmd_no_deadlock (prog : List (Act P σ)) (s0 : Fin P → σ) (c : Config P σ)
    (hr : Reach prog s0 c) (hnt : ¬ Terminal prog c) : ∃ c', Step prog c c' := by
  have hi := inv_reach prog s0 c hr
  have ⟨r0, hr0⟩ : ∃ r, c.pc r ≠ prog.length := Classical.not_forall.mp hnt
  obtain ⟨r, hmin⟩ := exists_min c.pc r0
  have hlt : c.pc r < prog.length := by
    have h1 := hi.le_len r0
    have h2 := hmin r0
    omega
  have hget : prog[c.pc r]? = some prog[c.pc r] := List.getElem?_eq_getElem hlt
  cases ha : prog[c.pc r] with
  | loc f => exact ⟨_, Step.loc c r f (by rw [hget, ha])⟩
  | coll g =>
    have hall : ∀ q, c.pc q = c.pc r := by
      intro q
      have h1 := hmin q
      rcases Nat.lt_or_ge (c.pc r) (c.pc q) with h | h
      · obtain ⟨f, hf⟩ := hi.no_cross r q (c.pc r) (Nat.le_refl _) h
        rw [hget, ha] at hf
        simp at hf
      · omega
    exact ⟨_, Step.coll c (c.pc r) g hall (by rw [hget, ha])⟩

/-! ### data flow through blocks -/

/-- `shape_to_functions`: each rank rewrites the trees of its block and the extras are gathered in rank order —
the gathered list is the one a single rank would produce, for every P ≥ 1. -/
theorem gather_blocks {α β} (xs : List α) (f : α → List β) (P : Nat) (hP : 1 ≤ P) :
    (List.range P).flatMap (fun r => (blockSlice xs P r).flatMap f) = xs.flatMap f := by
  have h := congrArg (fun l => l.flatMap f) (ESR.C14.blocks_tile xs P hP)
  simp only [List.flatMap_assoc] at h
  exact h

/-- `initial_sympify` / `load_subs` / `check_results`: scatter blocks, map per item, gather in rank order. -/
theorem scatter_map_gather {α β} (xs : List α) (g : α → β) (P : Nat) (hP : 1 ≤ P) :
    (List.range P).flatMap (fun r => (blockSlice xs P r).map g) = xs.map g := by
  have h := congrArg (List.map g) (ESR.C14.blocks_tile xs P hP)
  rw [List.map_flatMap] at h
  exact h

/-- Consequently the gathered result does not depend on the number of ranks. -/
theorem rank_count_irrelevant {α β} (xs : List α) (g : α → β) (P Q : Nat) (hP : 1 ≤ P) (hQ : 1 ≤ Q) :
    (List.range P).flatMap (fun r => (blockSlice xs P r).map g)
      = (List.range Q).flatMap (fun r => (blockSlice xs Q r).map g) := by
  rw [scatter_map_gather xs g P hP, scatter_map_gather xs g Q hQ]

/-- An empty block is handed to every rank beyond the data (`P > N`): those ranks contribute nothing. -/
theorem surplus_ranks_empty (N P r : Nat) (hr : N ≤ r) (hP : r < P) : splitIdx N P r = none := by
  have hm := ESR.C14.split_matches_array_split N P r hP
  have hNP : N < P := by omega
  have hdiv : N / P = 0 := Nat.div_eq_of_lt hNP
  have hmod : N % P = N := Nat.mod_eq_of_lt hNP
  rw [hdiv, hmod] at hm
  have : ¬ r < N := by omega
  simp only [this, if_false] at hm
  have hmono := ESR.C14.divPoint_mono N P r
  unfold block at hm
  unfold splitIdx
  simp only []
  have : divPoint N P r ≥ divPoint N P (r + 1) := by simp at hm; omega
  simp [this]

/-! ### the skeleton regenerated from today's source -/

/-- Every collective of the generation modules (and every call of a function performing collectives) is reached
by all ranks in the same order: none sits under rank-dependent control or after a rank-dependent exit.
This is the hypothesis "all ranks run the same action list" of `spmd_deterministic`/`spmd_no_deadlock`. -/
theorem skeleton_collective_only :
    ESR.Gen.SPMD.sites.filter (fun s => !s.admissible) = [] := by decide +kernel

/-- No rank can raise between two collectives because it has no work: every use of `split_idx` handles the
empty result of a surplus rank (`surplus_ranks_empty`) before indexing or unpacking it. -/
theorem split_sites_handle_empty :
    ESR.Gen.SPMD.splitUses.filter (fun u => !u.handlesEmpty) = [] := by decide +kernel

/-! non-vacuity: a two-rank program with a gather-like collective, run under two different interleavings -/
def demoProg : List (Act 2 Nat) :=
  [.loc (fun r s => s + r.val + 1), .coll (fun st _ => st 0 + st 1), .loc (fun _ s => 2 * s)]
example : run demoProg (fun _ => 0) = fun _ => 6 := by funext r; simp [demoProg, run]
example : (List.range 5).map (fun r => splitIdx 3 5 r) = [some (0,0), some (1,1), some (2,2), none, none] := by decide

end ESR.C13
