import ESRVerif.Proofs.PrinterSem
import ESRVerif.Proofs.PrinterLex
import ESRVerif.Proofs.PrinterReal
import ESRVerif.Generated.SymTab
/-!
C12 — printing an expression and reading it back gives the same function; printing is a pure function.

Objects: `SExpr` (sympy trees, unbounded depth), `pr`/`print` (model of `ESRPrinter`), `Phrase` (Python's expression
grammar), `parse` (executable parser), `intended` (how the text is meant to be read), `evalS` (value of a tree),
`evalPy tbl` (value of a Python AST under a symbol table), `genTable`/`fitTable` (regenerated from the source),
`RealLike` (real-number operations with the laws used; `Proofs/PrinterReal.lean` proves every law for `ℝ` with
Mathlib's `Real.rpow`, `zpow`, `Real.sqrt/exp/log/sin`, `|·|` — the `…_real` theorems below have no law hypothesis
left), `tokenize`/`parseString` (characters → tokens → AST; `Proofs/PrinterLex.lean` proves the string ↔ token
bridge, so the `…_string` theorems speak about the printed STRING).  Hypotheses: `canonical e` (sympy's evaluated form, see
`Model/Printer.lean`) and `Adm tbl wrapLog ρ e` (symbols are not table functions; bases of non-integer powers are
non-negative at ρ; for a table whose `log` wraps `Abs`, arguments of `log` are non-negative at ρ) — the property's
"real-valued expression of the kind ESR produces"; for the string-level theorems also `lexical e` (symbol names
are identifiers, Float texts are Float literals `d+.d*[e[±]d+]` — what sympy prints).
-/
namespace ESR.C12
open ESR.Printer ESR.SymTerm ESR.Gen.SymTab

/-! ### syntax: print, grammar, parser -/

/-- (a) The tokens `ESRPrinter` emits for a canonical expression of any depth form a phrase of Python's expression
grammar, and the AST of that phrase is `intended e`: parentheses and signs are where the grammar needs them. -/
theorem print_is_phrase (e : SExpr) (he : canonical e = true) :
    Phrase .expr (dropSp (pr e)) (intended e) :=
  (phraseInfo_of_size (size e) e (Nat.le_refl _) he).expr

/-- (b) soundness of the executable parser: what it accepts is a phrase of the grammar with the AST it returns. -/
theorem parse_sound {ts : List Tok} {a : PyAst} (h : parse ts = some a) : Phrase .expr (dropSp ts) a :=
  parse_sound' h

/-- (b) completeness: the executable parser returns the AST of every expr-level phrase (blanks ignored). -/
theorem parse_complete {ts : List Tok} {a : PyAst} (h : Phrase .expr (dropSp ts) a) : parse ts = some a :=
  parse_complete_dropSp h

/-- (c) the grammar is unambiguous: a token list has at most one AST. -/
theorem phrase_deterministic {ts : List Tok} {a b : PyAst} (ha : Phrase .expr ts a) (hb : Phrase .expr ts b) : a = b := by
  have h1 := parse_complete' ha
  have h2 := parse_complete' hb
  rw [h1] at h2
  exact Option.some.inj h2

/-- print then parse: the parser reads the printed tokens of a canonical expression as `intended e`, and no other
reading exists. -/
theorem parse_print (e : SExpr) (he : canonical e = true) : parse (pr e) = some (intended e) :=
  parse_complete (print_is_phrase e he)

/-- printing is a function of the expression alone (`pr`/`print` are Lean `def`s without state; the tie to the code
is the same-process / fresh-process string comparison of the check). -/
theorem print_pure (e e' : SExpr) (h : e = e') : print e = print e' := by rw [h]

/-! ### the two symbol tables, as regenerated from the source -/

/-- generation table (`sympy_locs`): `pow` wraps `Abs`; `sqrt`, `log`, `exp`, `sin` are sympy's own, `Abs` is `sympy.Abs`. -/
theorem genTable_spec : TableSpec genTable false false := by
  constructor <;> intros <;> simp [applyFn, Table.find, genTable, builtin, evalL]

/-- fitting table (`Likelihood.run_sympify`): `pow`, `sqrt`, `log` wrap `Abs`; `Abs`, `exp`, `sin` are sympy's own. -/
theorem fitTable_spec : TableSpec fitTable true true := by
  constructor <;> intros <;> simp [applyFn, Table.find, fitTable, builtin, evalL]

/-- every other `run_sympify` in likelihood.py uses the same table as `Likelihood.run_sympify` -/
theorem fitTablesOther_agree : ∀ t ∈ fitTablesOther, t.2 = fitTable := by decide

/-- the two tables give `pow` the same meaning, and the names they share for `inv/square/cube` too -/
theorem tables_agree_on_shared :
    ∀ k ∈ ["pow", "inv", "square", "cube"], Table.find genTable k = Table.find fitTable k := by decide

/-- the variables of both stages are symbols in value position -/
theorem tables_symbols : symOK genTable "x" = true ∧ symOK genTable "a0" = true ∧ symOK genTable "a1" = true ∧
    symOK fitTable "x" = true ∧ symOK fitTable "a0" = true ∧ symOK fitTable "a1" = true ∧ symOK fitTable "a2" = true := by
  decide

/-! ### semantics -/

variable {α : Type} [RealLike α]

/-- the intended reading evaluates, under the generation table, to the value of the expression -/
theorem intended_sound_gen (ρ : String → α) (e : SExpr) (he : canonical e = true) (ha : Adm genTable false ρ e) :
    evalPy genTable ρ (intended e) = some (evalS ρ e) :=
  sound_of_size genTable_spec ρ (size e) e (Nat.le_refl _) he ha

/-- the intended reading evaluates, under the fitting table, to the value of the expression when also the arguments
of `log` are non-negative (that table reads `log(u)` as `log(Abs(u))`) -/
theorem intended_sound_fit (ρ : String → α) (e : SExpr) (he : canonical e = true) (ha : Adm fitTable true ρ e) :
    evalPy fitTable ρ (intended e) = some (evalS ρ e) :=
  sound_of_size fitTable_spec ρ (size e) e (Nat.le_refl _) he ha

/-- round trip, generation stage: parse the printed tokens and evaluate with `sympy_locs` -/
theorem print_roundtrip_gen (ρ : String → α) (e : SExpr) (he : canonical e = true) (ha : Adm genTable false ρ e) :
    (parse (pr e)).bind (evalPy genTable ρ) = some (evalS ρ e) := by
  rw [parse_print e he]; exact intended_sound_gen ρ e he ha

/-- round trip, fitting stage: parse the printed tokens and evaluate with `run_sympify`'s table -/
theorem print_roundtrip_fit (ρ : String → α) (e : SExpr) (he : canonical e = true) (ha : Adm fitTable true ρ e) :
    (parse (pr e)).bind (evalPy fitTable ρ) = some (evalS ρ e) := by
  rw [parse_print e he]; exact intended_sound_fit ρ e he ha

/-- both stages read the printed text as the same value -/
theorem stages_agree (ρ : String → α) (e : SExpr) (he : canonical e = true)
    (hg : Adm genTable false ρ e) (hf : Adm fitTable true ρ e) :
    (parse (pr e)).bind (evalPy genTable ρ) = (parse (pr e)).bind (evalPy fitTable ρ) := by
  rw [print_roundtrip_gen ρ e he hg, print_roundtrip_fit ρ e he hf]

/-! ### the string ↔ token bridge -/

/-- the tokenizer inverts `render` on every token list whose tokens are lexically well formed (`tokOK`: names are
identifiers, Float texts have the shape `d+ . d* [(e|E)[+-]d+]`, no error token) and in which no two adjacent tokens
would fuse (`noFuse`: no name/int/float directly followed by a name/int/float, no `*` directly followed by `*` or
`**`).  Any token list, not only printed ones. -/
theorem tokenize_render (ts : List Tok) (hok : ts.all tokOK = true) (hnf : noFuse ts = true) :
    tokenize (render ts) = some ts :=
  ESR.Printer.tokenize_render ts hok hnf

/-- the tokens of every phrase of the Python grammar are separated by operators or brackets: none fuse -/
theorem phrase_noFuse {l : Lvl} {ts : List Tok} {a : PyAst} (h : Phrase l ts a) : noFuse ts = true :=
  (phrase_sepOK h).nf

/-- what the printer emits for a canonical, lexical expression satisfies the well-formedness predicate of
`tokenize_render` -/
theorem print_tokens_wellformed (e : SExpr) (he : canonical e = true) (hl : lexical e = true) :
    (pr e).all tokOK = true ∧ noFuse (pr e) = true :=
  ⟨allOK_pr_of_size (size e) e (Nat.le_refl _) he hl, noFuse_pr e he⟩

/-- the tokenizer recovers the printer's tokens from the printed string -/
theorem tokenize_print (e : SExpr) (he : canonical e = true) (hl : lexical e = true) :
    tokenize (print e) = some (pr e) :=
  tokenize_print' e he hl

/-- print then parse, at the level of STRINGS: reading the printed string (characters → tokens → grammar) gives
`intended e` -/
theorem parseString_print (e : SExpr) (he : canonical e = true) (hl : lexical e = true) :
    parseString (print e) = some (intended e) := by
  simp only [parseString, tokenize_print e he hl, Option.bind_some]
  exact parse_print e he

/-- string-level round trip, generation stage (any structure satisfying the laws) -/
theorem print_roundtrip_gen_string (ρ : String → α) (e : SExpr) (he : canonical e = true) (hl : lexical e = true)
    (ha : Adm genTable false ρ e) : (parseString (print e)).bind (evalPy genTable ρ) = some (evalS ρ e) := by
  rw [parseString_print e he hl]; exact intended_sound_gen ρ e he ha

/-- string-level round trip, fitting stage (any structure satisfying the laws) -/
theorem print_roundtrip_fit_string (ρ : String → α) (e : SExpr) (he : canonical e = true) (hl : lexical e = true)
    (ha : Adm fitTable true ρ e) : (parseString (print e)).bind (evalPy fitTable ρ) = some (evalS ρ e) := by
  rw [parseString_print e he hl]; exact intended_sound_fit ρ e he ha

/-! ### over the real numbers: no abstract law left

`RealLike ℝ` is the instance `ESR.Printer.realLike` (`Proofs/PrinterReal.lean`): `rpow = Real.rpow`, `ipow = zpow`,
`sqrt = Real.sqrt`, `exp/log/sin = Real.exp/log/sin`, `abs = |·|`, `div/inv` the field operations with `x/0 = 0`,
`nonneg a ↔ 0 ≤ a`; all fifteen laws are proved there from Mathlib.  `evalS ρ e : ℝ` is then the real number the
expression denotes at `ρ` and `Adm` reads: symbols are not table functions, bases of non-integer powers are `≥ 0` at
`ρ`, (fitting table) arguments of `log` are `≥ 0` at `ρ`. -/

theorem intended_sound_gen_real (ρ : String → ℝ) (e : SExpr) (he : canonical e = true) (ha : Adm genTable false ρ e) :
    evalPy genTable ρ (intended e) = some (evalS ρ e) :=
  intended_sound_gen ρ e he ha

theorem intended_sound_fit_real (ρ : String → ℝ) (e : SExpr) (he : canonical e = true) (ha : Adm fitTable true ρ e) :
    evalPy fitTable ρ (intended e) = some (evalS ρ e) :=
  intended_sound_fit ρ e he ha

/-- round trip over `ℝ`, generation stage, tokens -/
theorem print_roundtrip_gen_real (ρ : String → ℝ) (e : SExpr) (he : canonical e = true) (ha : Adm genTable false ρ e) :
    (parse (pr e)).bind (evalPy genTable ρ) = some (evalS ρ e) :=
  print_roundtrip_gen ρ e he ha

/-- round trip over `ℝ`, fitting stage, tokens -/
theorem print_roundtrip_fit_real (ρ : String → ℝ) (e : SExpr) (he : canonical e = true) (ha : Adm fitTable true ρ e) :
    (parse (pr e)).bind (evalPy fitTable ρ) = some (evalS ρ e) :=
  print_roundtrip_fit ρ e he ha

/-- **round trip over `ℝ` at the level of strings, generation stage**: tokenize and parse the printed string, evaluate
with `sympy_locs`: the real number the expression denotes -/
theorem print_roundtrip_gen_string_real (ρ : String → ℝ) (e : SExpr) (he : canonical e = true) (hl : lexical e = true)
    (ha : Adm genTable false ρ e) : (parseString (print e)).bind (evalPy genTable ρ) = some (evalS ρ e) :=
  print_roundtrip_gen_string ρ e he hl ha

/-- **round trip over `ℝ` at the level of strings, fitting stage** -/
theorem print_roundtrip_fit_string_real (ρ : String → ℝ) (e : SExpr) (he : canonical e = true) (hl : lexical e = true)
    (ha : Adm fitTable true ρ e) : (parseString (print e)).bind (evalPy fitTable ρ) = some (evalS ρ e) :=
  print_roundtrip_fit_string ρ e he hl ha

/-- both stages read the printed string as the same real number -/
theorem stages_agree_string_real (ρ : String → ℝ) (e : SExpr) (he : canonical e = true) (hl : lexical e = true)
    (hg : Adm genTable false ρ e) (hf : Adm fitTable true ρ e) :
    (parseString (print e)).bind (evalPy genTable ρ) = (parseString (print e)).bind (evalPy fitTable ρ) := by
  rw [print_roundtrip_gen_string_real ρ e he hl hg, print_roundtrip_fit_string_real ρ e he hl hf]

/-- the side condition of the law `rpow_neg` (granted by `Adm`) cannot be dropped over `ℝ` -/
theorem rpow_neg_side_condition_needed : ((-1 : ℝ) ^ (-(1/3 : ℝ))) ≠ ((-1 : ℝ) ^ (1/3 : ℝ))⁻¹ :=
  rpow_neg_needs_nonneg

/-! ### non-vacuity -/

/-- `-x*(a0 + 1)/a1**2 + pow(Abs(a0),(-3/2)) - 1/2` -/
def ex1 : SExpr :=
  .add [ .mul (.int (-1)) [.sym "x", .add [.sym "a0", .num (.int 1)], .pow (.sym "a1") (.num (.int (-2)))],
         .pow (.fn .Abs (.sym "a0")) (.num (.rat (-3) 2)),
         .num (.rat (-1) 2) ]

/-- `2*sqrt(x)*log(x)/(3*pow(x,a0)*exp(a1))` -/
def ex2 : SExpr :=
  .mul (.rat 2 3) [.pow (.sym "x") (.num (.rat 1 2)), .fn .log (.sym "x"),
                   .pow (.sym "x") (.mul (.int (-1)) [.sym "a0"]), .pow (.fn .exp (.sym "a1")) (.num (.int (-1)))]

example : canonical ex1 = true := by decide
example : canonical ex2 = true := by decide
example : parse (pr ex1) = some (intended ex1) := parse_print ex1 (by decide)
example : Phrase .expr (dropSp (pr ex2)) (intended ex2) := print_is_phrase ex2 (by decide)

/-- the admissibility hypothesis of `ex2` is exactly: `x ≥ 0` (three times), under either table -/
example (ρ : String → α) (hx : RealLike.nonneg (ρ "x")) : Adm genTable false ρ ex2 := by
  simp [ex2, Adm, AdmL, symOK, Table.find, genTable, isIntegerLit, evalS, hx]
example (ρ : String → α) (hx : RealLike.nonneg (ρ "x")) : Adm fitTable true ρ ex2 := by
  simp [ex2, Adm, AdmL, symOK, Table.find, fitTable, isIntegerLit, evalS, hx]
example (ρ : String → α) (hx : RealLike.nonneg (ρ "x")) :
    (parse (pr ex2)).bind (evalPy fitTable ρ) = some (evalS ρ ex2) :=
  print_roundtrip_fit ρ ex2 (by decide) (by simp [ex2, Adm, AdmL, symOK, Table.find, fitTable, isIntegerLit, evalS, hx])
/-- the laws of `RealLike` have a model with distinct values (the field with three elements), and in it the round
trip of `ex2` under the fitting table holds at the point x = a0 = a1 = 1, with every hypothesis discharged -/
example : (parse (pr ex2)).bind (@evalPy (Fin 3) modelF3 fitTable (fun _ => 1)) = some (@evalS (Fin 3) modelF3 (fun _ => 1) ex2) :=
  @print_roundtrip_fit (Fin 3) modelF3 (fun _ => 1) ex2 (by decide)
    (by simp [ex2, Adm, AdmL, symOK, Table.find, fitTable, isIntegerLit, evalS, RealLike.nonneg])
/-- an expression outside the canonical form (a sum nested in a sum) is rejected by the hypothesis, not silently accepted -/
example : canonical (.add [.add [.sym "x", .sym "a0"], .sym "a1"]) = false := by decide

/-! #### strings and reals -/

/-- `2.5*x**2 - 1/2` -/
def ex3 : SExpr := .add [.mul (.flt false "2.5") [.pow (.sym "x") (.num (.int 2))], .num (.rat (-1) 2)]

example : lexical ex1 = true := by decide
example : lexical ex2 = true := by decide
example : canonical ex3 = true ∧ lexical ex3 = true := by decide
/-- a symbol that is not an identifier, a Float text that is not a literal: rejected by the hypothesis -/
example : lexical (.sym "a b") = false ∧ lexical (.num (.flt false "1e")) = false := by decide
example : tokenize (print ex1) = some (pr ex1) := tokenize_print ex1 (by decide) (by decide)
example : parseString (print ex2) = some (intended ex2) := parseString_print ex2 (by decide) (by decide)
/-- two names in a row fuse: the predicate of `tokenize_render` excludes them -/
example : noFuse [Tok.name "a", Tok.name "b"] = false ∧ noFuse [Tok.star, Tok.star] = false ∧
    noFuse [Tok.name "a", Tok.star, Tok.name "b", Tok.dstar, Tok.int 2] = true := by decide

/-- `ex1` is admissible at EVERY real point (its only non-integer power has base `|a0|`): the string-level round
trip over `ℝ` holds for all real values of `x, a0, a1`, with no hypothesis left -/
example (ρ : String → ℝ) : (parseString (print ex1)).bind (evalPy genTable ρ) = some (evalS ρ ex1) :=
  print_roundtrip_gen_string_real ρ ex1 (by decide) (by decide)
    (by simp [ex1, Adm, AdmL, symOK, Table.find, genTable, isIntegerLit, evalS, evalFn])

/-- a concrete valuation: x = 2, a0 = 3, a1 = 1/2 -/
noncomputable def ρ0 : String → ℝ := fun s => if s = "x" then 2 else if s = "a0" then 3 else 1 / 2

/-- `ex2 = 2*sqrt(x)*log(x)/(3*pow(x,a0)*exp(a1))` at `ρ0`, fitting table, from the printed string -/
example : (parseString (print ex2)).bind (evalPy fitTable ρ0) = some (evalS ρ0 ex2) :=
  print_roundtrip_fit_string_real ρ0 ex2 (by decide) (by decide)
    (by simp [ex2, Adm, AdmL, symOK, Table.find, fitTable, isIntegerLit, evalS, ρ0])

/-- and the value is the real number one expects: `2.5*x**2 - 1/2` at x = 2 is `19/2` -/
example : evalS ρ0 ex3 = 19 / 2 := by
  simp [ex3, evalS, evalSL, sumL, powS, evalNum, fltReal, digitsToNat, ρ0]
  norm_num
example : (parseString (print ex3)).bind (evalPy genTable ρ0) = some (19 / 2) := by
  rw [print_roundtrip_gen_string_real ρ0 ex3 (by decide) (by decide)
    (by simp [ex3, Adm, AdmL, symOK, Table.find, genTable, isIntegerLit])]
  simp [ex3, evalS, evalSL, sumL, powS, evalNum, fltReal, digitsToNat, ρ0]
  norm_num

end ESR.C12
