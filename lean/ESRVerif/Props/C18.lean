import ESRVerif.Proofs.ToList
import ESRVerif.Proofs.ToListReal
/-!
C18 — converting a formula string to a tree preserves the function.

Model: `ESRVerif/Model/ToList.lean` (`build` = `DecoratedNode.__init__`, `toListA`/`toList` = `to_list`, `countNodes`,
`relabel` = the relabelling pass of `fit_from_string` / `string_to_aifeyn`); the special-case table and every string
literal of `to_list` are regenerated from the source (`ESRVerif/Generated/ToList.lean`).

What is NOT proved here (level: partial): which sympy tree `sympify`/`kernS`/`evalf`/`powsimp`/`factor` produce for a
formula string and which of the four variants has the fewest nodes (third-party; the model is fed the tree the real
code chose and the property is sampled on the real code by an independent evaluator).
-/
namespace ESR.C18
open ESR.ToList ESR.Gen.ToList ESR.Shape
open ESR.Labeling (Basis)

/-- The reported complexity is the number of labels (`count_nodes` is `len(self.to_list(...))`), for every node,
every basis — including the nodes on which `to_list` raises (both sides `none`). -/
theorem complexity_is_length (B : Basis) (d : DNode) : countNodes B d = (toList B d).map List.length := rfl

/-- Well-formedness of the label list.  For a regular expression the conversion does not raise, the arity string of
the emitted labels is a valid tree shape (`ESR.Shape.validShape`, i.e. the prefix form of a unary-binary tree by
C01's `validShape_iff_tree`), and if the basis assigns each emitted label the arity it was emitted with then
`labels_to_shape` returns exactly that valid string.

PARTIAL — missing: `Regular` excludes (a) node shapes sympy never builds (a `Pow` with fewer than two arguments, more
than two arguments on a class without `as_two_terms`, a multi-argument node named `Square/Cube/Div/Abs`) and
(b) the two shapes `Mul(<op Pow>, NegativeOne)` / `Div(<op Pow>, NegativeOne)` on which `to_list` takes its
"* inv" / "/ inv" branch and returns `["Mul"] + one child`: there the list is NOT well formed (see
`mulInv_branch_malformed` below) — a defect of the code, reproduced on the real code by the check. -/
theorem toList_wellFormed_partial (B : Basis) (e : SymExpr) (p : Option String) (hreg : Regular B e) :
    ∃ l : ALabels, toListA B (build B p e) = some l ∧ toList B (build B p e) = some (l.map Prod.fst) ∧
      validShape (l.map Prod.snd) = true ∧
      ((∀ t ∈ l, labelArity B (canon t.1) = some t.2) →
        labelsToShape B ((l.map Prod.fst).map canon) = some (l.map Prod.snd)) := by
  obtain ⟨l, hl, ht, -⟩ := conv_build unitSem unitLaws (fun _ => ()) B False e.size e (Nat.le_refl _) p hreg
    (fun h => h.elim)
  exact ⟨l, hl, by simp [toList, hl], tr_valid ht, shape_of_agree B l⟩

/-- On the excluded "* inv" shape the model (and, by the correspondence and the oracle, the real code) emits a binary
label followed by a single operand: `pow(x,a0)*(-1)` over core_maths gives `["Mul", "-1"]`, complexity 2. -/
theorem mulInv_branch_malformed :
    let B : Basis := ⟨["x", "a"], ["inv"], ["+", "*", "-", "/", "pow"]⟩
    let sym (n : String) : SymExpr := .atom ⟨"Symbol", false, true, n, .none⟩
    let e : SymExpr := .app2 ⟨"Mul", false, false, "", .none⟩
      (.app2 ⟨"Pow", false, false, "", .none⟩ (sym "x") (sym "a0")) (.atom ⟨"NegativeOne", true, false, "-1", .rat (-1) 1⟩)
    toListA B (build B none e) = some [("Mul", 2), ("-1", 0)] ∧ validShape [2, 0] = false ∧
      countNodes B (build B none e) = some 2 := by
  decide

/-- Soundness.  Over any number structure satisfying `Laws` (the reals do: `realLaws`), if every power base of the sympy
tree is positive at `ρ`, the emitted label list — labels renamed as the string API renames them, operators with ESR's
meaning (`pow`, `sqrt`, `log` on absolute values) — evaluates to the value of the sympy tree.

PARTIAL — missing: `Regular` (as above) and `Faithful`: sympy's printing of leaves (`str(Integer/Float/Rational)`
denotes the number, a symbol prints as its name, only numbers print as numeric literals) and its class invariants
(`NegativeOne` is −1, `Half` is 1/2).  These are contracts of third-party code, assumed here and sampled by the check. -/
theorem toList_sound_partial {α : Type} (S : Sem α) (L : Laws S) (ρ : String → α) (B : Basis) (e : SymExpr)
    (p : Option String) (hreg : Regular B e) (hstr : Faithful S ρ e) (hpos : PowPos S L ρ e) :
    ∃ l : ALabels, toListA B (build B p e) = some l ∧ evalLabels S ρ l = some (evalSym S ρ e) := by
  obtain ⟨l, hl, -, hs⟩ := conv_build S L ρ B True e.size e (Nat.le_refl _) p hreg (fun _ => ⟨hstr, hpos⟩)
  exact ⟨l, hl, ev_evalLabels (hs trivial)⟩

/-- The same over ℝ with `Real.rpow`, `Real.sqrt`, `Real.log`, `|·|`, positivity `0 < ·`. -/
theorem toList_sound_real_partial (ρ : String → ℝ) (B : Basis) (e : SymExpr) (hreg : Regular B e)
    (hstr : Faithful realSem ρ e) (hpos : PowPos realSem realLaws ρ e) :
    ∃ l : ALabels, toListA B (build B none e) = some l ∧ evalLabels realSem ρ l = some (evalSym realSem ρ e) :=
  toList_sound_partial realSem realLaws ρ B e none hreg hstr hpos

/-- Float replacement (`fit_from_string` / `string_to_aifeyn`).  The pass raises only before the replacement step
(`assert len(param_idx) <= maxvar`; `labels_to_shape`: ValueError for a label the basis does not name; `check_tree` /
`labels[None]` on an arity string that is not a tree) — `relabel = none` models exactly those; the replacement step itself
is total (since /repo 1ed8506 the root, which has no parent, no longer raises).  Whenever it returns:
* the number of labels is unchanged;
* without `replace_floats` every label — numeric ones included — is returned as renamed by the API (`canon`), so numeric
  constants keep their value;
* with `replace_floats` a position is replaced iff it is a parameter, or a numeric literal whose PARENT label is not
  `pow` (the parent is read off the tree of the label list: `parentsOf`; the root has no parent and IS replaced);
  unreplaced positions keep their label — in particular every number that is a direct child of `pow`; the replaced
  positions read `a0, a1, …` in order. -/
theorem relabel_spec (B : Basis) (rf : Bool) (mv : Nat) (raw out : List String) (h : relabel B rf mv raw = some out) :
    out.length = raw.length ∧
    (rf = false → out = raw.map canon) ∧
    (rf = true → ∃ s parents mask,
        labelsToShape B (renumber 0 ((raw.map canon).zip ((raw.map canon).map fun l => isFloatLabel l || isParamLabel l))) = some s ∧
        parentsOf (raw.map canon) s = some parents ∧
        parents.length = raw.length ∧ mask.length = raw.length ∧
        (∀ (j : Nat) lab par m, (raw.map canon)[j]? = some lab → parents[j]? = some par → mask[j]? = some m →
           (m = true ↔ (isFloatLabel lab = true ∧ ¬ ∃ q, par = some q ∧ lower q = noReplaceParent) ∨ isParamLabel lab = true)) ∧
        (∀ (j : Nat) lab, (raw.map canon)[j]? = some lab → mask[j]? = some false → out[j]? = some lab) ∧
        ∃ n, masked out mask = (List.range n).map (fun i => "a" ++ toString i)) :=
  relabel_spec_aux B rf mv raw out h

/-- The replacement step never raises: once the tree of the label list has been read (`labels_to_shape`, `check_tree`),
`relabel` returns for either value of `replace_floats`. -/
theorem relabel_total_after_shape (B : Basis) (mv : Nat) (raw out : List String) (h : relabel B false mv raw = some out) :
    ∃ out', relabel B true mv raw = some out' := by
  unfold relabel at h ⊢
  simp only at h ⊢
  split at h
  · simp at h
  · rename_i hmv
    simp only [hmv, if_false]
    split at h
    · simp at h
    · split at h
      · simp at h
      · simp

/-- A numeric label directly under `pow` survives `replace_floats` (corollary of `relabel_spec`). -/
theorem relabel_keeps_pow_children (B : Basis) (mv : Nat) (raw out : List String) (h : relabel B true mv raw = some out) :
    ∃ parents : List (Option String), parents.length = raw.length ∧
      ∀ (j : Nat) lab q, (raw.map canon)[j]? = some lab → parents[j]? = some (some q) → lower q = noReplaceParent →
        isFloatLabel lab = true → isParamLabel lab = false → out[j]? = some lab := by
  obtain ⟨-, -, h3⟩ := relabel_spec B true mv raw out h
  obtain ⟨s, parents, mask, -, -, hp, hm, hiff, hkeep, -⟩ := h3 rfl
  refine ⟨parents, hp, fun j lab q hl hpar hq hf hnp => ?_⟩
  have hj : j < mask.length := by
    have := (List.getElem?_eq_some_iff.mp hl).1
    simp at this; omega
  have hmj : mask[j]? = some mask[j] := List.getElem?_eq_getElem hj
  have := hiff j lab (some q) mask[j] hl hpar hmj
  have hfalse : mask[j] = false := by
    cases hb : mask[j] with
    | false => rfl
    | true =>
      rw [hb] at this
      rcases this.mp rfl with ⟨-, hne⟩ | hpl
      · exact absurd ⟨q, rfl, hq⟩ hne
      · rw [hnp] at hpl; simp at hpl
  exact hkeep j lab hl (by rw [hmj, hfalse])

/-- A formula that converts to a single number: with `replace_floats` the number becomes `a0` (root: no parent). -/
theorem relabel_root_number (B : Basis) (mv : Nat) (hmv : 1 ≤ mv) (lab : String) (hf : isFloatLabel (canon lab) = true)
    (hb : labelArity B "a0" = some 0) : relabel B true mv [lab] = some ["a0"] := by
  have hmask : (isFloatLabel (canon lab) || isParamLabel (canon lab)) = true := by simp [hf]
  have hct : ESR.Shape.checkTree [0] = .ok true none [none] [none] [none] := by rfl
  have h0 : ("a" ++ Nat.repr 0) = "a0" := by decide
  have hmv' : ¬ 1 > mv := by omega
  simp [relabel, hmask, renumber, labelsToShape, List.mapM_cons, h0, hb, parentsOf, hct, replaceMask, hf, hmv']

/-! ### non-vacuity: the hypotheses hold on concrete, non-trivial cases -/

section examples

def core : Basis := ⟨["x", "a"], ["inv"], ["+", "*", "-", "/", "pow"]⟩
def keep : Basis := ⟨["x", "a"], ["square", "exp", "inv", "sqrt_abs", "log_abs"], ["+", "*", "-", "/", "pow"]⟩

/-- `a0 + a1*x**3` as sympy builds it -/
def eLCDM : SymExpr := op2 "Add" (sym "a0") (op2 "Mul" (sym "a1") (op2 "Pow" (sym "x") (int "Integer" 3 "3")))
/-- `a0 - x/(x + a1)**(1/2) + exp(x)**2 ` : `Add(a0, exp(x)**2, Mul(-1, x*(a1+x)**(-1/2)))` needs as_two_terms -/
def eBig : SymExpr :=
  .appN ⟨"Add", false, false, "", .none⟩ 3 (sym "a0")
    (op2 "Add" (op2 "Pow" (op1 "exp" (sym "x")) (int "Integer" 2 "2"))
      (op2 "Mul" (int "NegativeOne" (-1) "-1")
        (op2 "Mul" (sym "x") (op2 "Pow" (op2 "Pow" (op2 "Add" (sym "a1") (sym "x")) (.atom ⟨"Half", true, false, "1/2", .rat 1 2⟩))
          (int "NegativeOne" (-1) "-1")))))

example : convert core eLCDM = some ["Add", "a0", "Mul", "a1", "Pow", "x", "3"] := by decide
example : (convert core eLCDM).map (·.map canon) = some ["+", "a0", "*", "a1", "pow", "x", "3"] := by decide
example : convert keep eBig =
    some ["Add", "a0", "Sub", "pow", "exp", "x", "2", "Div", "x", "sqrt_abs", "Add", "a1", "x"] := by decide
example : countNodes keep (build keep none eBig) = some 13 := by decide
example : relabel core false 20 ["Add", "2.50000000000000", "Mul", "a1", "Pow", "x", "3"] =
    some ["+", "2.50000000000000", "*", "a1", "pow", "x", "3"] := by decide
example : relabel core true 20 ["Add", "2.50000000000000", "Mul", "a1", "Pow", "x", "3"] =
    some ["+", "a0", "*", "a1", "pow", "x", "3"] := by decide
/-- a number deeper inside an exponent IS replaced (the documented reading: only direct children of pow are kept) -/
example : relabel core true 20 ["Pow", "x", "Mul", "2.50000000000000", "a0"] = some ["pow", "x", "*", "a0", "a1"] := by decide
/-- a constant formula with `replace_floats`: the root number becomes `a0` -/
example : relabel core true 20 ["2.50000000000000"] = some ["a0"] := by decide
/-- an operator the basis does not name raises (`labels_to_shape`: ValueError) -/
example : relabel keep false 20 ["Sqrt", "x"] = none := by decide


/-- the hypotheses of `toList_wellFormed_partial` hold on both expressions -/
example : Regular core eLCDM := by
  simp [Regular, All, RegLoc, eLCDM, op2, sym, int, core, reservedOps, tl, powLike, initRules, classify, classifyWith,
    ruleFires, eqConst, basisOk, SymExpr.cls, SymExpr.head]
example : Regular keep eBig := by
  simp [Regular, All, RegLoc, eBig, op2, op1, sym, int, keep, reservedOps, tl, powLike, initRules, classify, classifyWith,
    ruleFires, eqConst, basisOk, twoTermClasses, SymExpr.cls, SymExpr.head, build, DNode.op, DNode.info?, mkInfo]

/-- an evaluation point: x = 2, a0 = 3, a1 = −1 -/
noncomputable def ρ0 : String → ℝ := fun s => if s = "x" then 2 else if s = "a0" then 3 else if s = "a1" then -1 else 0

/-- the hypotheses of `toList_sound_real_partial` hold for `a0 + a1*x**3` at that point … -/
example : Faithful realSem ρ0 eLCDM :=
  ⟨faith_op2 _ _ (by decide) (by decide) _ _, faith_sym _ "a0" (by decide) (by decide),
    faith_op2 _ _ (by decide) (by decide) _ _, faith_sym _ "a1" (by decide) (by decide),
    faith_op2 _ _ (by decide) (by decide) _ _, faith_sym _ "x" (by decide) (by decide), faith_three _⟩
example : PowPos realSem realLaws ρ0 eLCDM := by
  simp [PowPos, All, PowLoc, eLCDM, op2, sym, int, evalSym, ρ0, realLaws]
/-- … and its value there is 3 + (−1)·2³ -/
example : evalSym realSem ρ0 eLCDM = 3 + (-1) * (2 : ℝ) ^ (((3 : ℤ) : ℝ) / ((1 : ℕ) : ℝ)) := by
  simp [eLCDM, op2, sym, int, evalSym, symFn2, ρ0, realSem]

end examples

end ESR.C18
