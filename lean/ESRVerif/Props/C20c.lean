import ESRVerif.Proofs.SingleFit
import ESRVerif.Props.C10
/-!
C20 (third part) — the single-tree API evaluates every term of the description length at the maximum-likelihood point,
in EVERY option setting (`log_opt` × number of parameters).

`single_function = optimise_fun ; convert_params ; aifeyn_complexity ; sum` (Props/C20: `call_order`,
`single_DL_is_sum`).  The first arrow hides a change of variables: with `log_opt` and one or two parameters the
optimiser works on `log10|a_i|` on every sign branch, and `optimise_fun` has to hand back `±10**x`; in all other
settings it works on `a_i` itself and hands back `x`.  Which of the two happens is decided by `flag_three`, regenerated
per (arm, `log_opt`) into `ESRVerif/Generated/Optim.lean` (`Branch.flagThree`: initial value of the flag evaluated for
the arm, or-ed with the assignments on the arm's path).  Proved here over the model of C10 (`Model/Optim`) and the
composition `Model/SingleFit`:

* `flag_per_option_setting`, `findBranch_flag` — the regenerated flag is "linear" exactly outside (log_opt ∧ ≤ 2 params);
* `fisher_input_is_backtransformed` — for every row of the regenerated table and both back-transformations (normal
  exit, timeout handler) the vector handed on is `±10**x` exactly for the log-space rows and `x` exactly for the
  linear-space rows, and it is the point chi2_fcn evaluated the likelihood at;
* `single_terms_at_reported_point` — composition: the `(θ, chi2)` the Fisher/code-length routine receives inside
  `single_function` satisfy `nll(θ) = chi2` (under `MinimiserSpec`), and the three returned values are built from that
  one call; so likelihood term and parameter code length refer to the same point in every option setting;
* `backtransform_flag_needed` (+ `wrong_flag_reports_optimiser_vector`, `wrong_flag_row_rejected`) — with the flag
  wrong for (log_opt, two parameters) the reported parameters are `log10|a|`, and do not reproduce the reported value.
-/
namespace ESR.C20c
open ESR.Optim ESR.Gen.Optim ESR.SingleFit

variable {α : Type} [Num α] [LawfulNum α]

/-- the optimisation of an arm runs in log space: `log_opt` and at most two parameters -/
def logSpace (c : NClass) (lo : Bool) : Bool := lo && c != .many

/-- **The linear-vs-log flag per option setting (regenerated table).**  Every arm's `flag_three` is the negation of
    "runs in log space"; in the flattened table a row has `signs = None` exactly when the flag says linear. -/
theorem flag_per_option_setting :
    (∀ b ∈ branches, b.flagThree = !logSpace b.nclass b.logOpt) ∧
    (∀ t ∈ signTable, (t.flagThree = !logSpace t.nclass t.logOpt) ∧ (t.signs = none ↔ t.flagThree = true)) := by
  decide

/-- … and the arm `optimise_fun` takes for `nparam ≥ 1` parameters under `log_opt` carries that flag: linear unless
    (`log_opt` and `nparam ≤ 2`).  (All `nparam`, not a sample.) -/
theorem findBranch_flag (n : Nat) (lo : Bool) :
    (findBranch n lo).map (·.flagThree) = some (!(lo && decide (n ≤ 2))) := by
  unfold findBranch
  rcases Nat.lt_or_ge 2 n with h | h
  · have hc : classOf n = .many := by simp [classOf, h]
    have hd : decide (n ≤ 2) = false := by simp; omega
    rw [hc, hd]
    cases lo <;> decide
  · have hd : decide (n ≤ 2) = true := by simp; omega
    rw [hd]
    by_cases h2 : n = 2
    · have hc : classOf n = .two := by subst h2; decide
      rw [hc]
      cases lo <;> decide
    · have hc : classOf n = .one := by
        have h3 : ¬ n > 2 := by omega
        simp [classOf, h3, h2]
      rw [hc]
      cases lo <;> decide

/-- both back-transformations use base 10 -/
theorem back_base : finalBack.base = 10 ∧ timeoutBack.base = 10 := by decide

/-- **What `single_function` hands to the Fisher / code-length routine is the back-transformed vector.**  For every row
    of the regenerated table (arm × `log_opt` × sign branch taken), both back-transformations and every optimiser
    vector `x` of the arm's arity: the returned parameters, cut to the function's parameters, are
    `sign_i · 10**x_i` exactly when the arm ran in log space and `x` itself exactly when it ran in linear space, and in
    both cases they are the point at which chi2_fcn evaluated the likelihood in the minimize call that produced `x`. -/
theorem fisher_input_is_backtransformed (maxParam : Nat) :
    ∀ t ∈ signTable, ∀ B ∈ [finalBack, timeoutBack], ∀ (x : List α) (f : α) (s : Bool),
      arityOK t x.length → x.length ≤ maxParam →
      ∃ ps, backParams B t.flagThree maxParam ⟨t.row.resCall, ⟨x, f, s⟩, t.row.mult⟩ = some ps ∧
        chi2Params x t.signs = some (ps.take x.length) ∧
        (logSpace t.nclass t.logOpt = true →
          ∃ ss, t.signs = some ss ∧ ps.take x.length = List.zipWith (signed 10) ss x) ∧
        (logSpace t.nclass t.logOpt = false → t.signs = none ∧ ps.take x.length = x) := by
  intro t ht B hB x f s hk hmax
  have hrow := List.all_eq_true.mp C10.table_rows_ok t ht
  simp only [Bool.and_eq_true] at hrow
  obtain ⟨hflag, hsig⟩ := flag_per_option_setting.2 t ht
  have hbase : B.base = 10 := by
    simp only [List.mem_cons, List.mem_nil_iff, or_false] at hB
    rcases hB with rfl | rfl
    · exact back_base.1
    · exact back_base.2
  have hok : rowOK B t = true := by
    simp only [List.mem_cons, List.mem_nil_iff, or_false] at hB
    rcases hB with rfl | rfl
    · exact hrow.1
    · exact hrow.2
  obtain ⟨ps, hps, hchi, hexp⟩ := row_explicit B t hok maxParam x f s hk hmax
  rw [hbase] at hexp
  refine ⟨ps, hps, hchi, ?_, ?_⟩
  · intro hl
    have hft : t.flagThree = false := by rw [hflag, hl]; rfl
    cases hs : t.signs with
    | none => rw [hsig.mp hs] at hft; cases hft
    | some ss => exact ⟨ss, rfl, by simpa [expectedParams, hs] using hexp⟩
  · intro hl
    have hft : t.flagThree = true := by rw [hflag, hl]; rfl
    have hs := hsig.mpr hft
    exact ⟨hs, by simpa [expectedParams, hs] using hexp⟩

/-- **Composition: every term of the returned description length refers to one point.**  Whenever `single_function`
    returns, the Fisher routine was called once, with exactly the `(θ, chi2)` `optimise_fun` returned; the returned
    likelihood term, description length and parameters are that call's results (`DL = (nll + codelen) + aifeyn`); and,
    under `MinimiserSpec`, `θ` reproduces `chi2`: `nll(θ[:nparam]) = chi2` whenever `chi2` is below the 1e100 threshold —
    in every option setting (`log_opt`, `nparam ≥ 1`), so the parameter code length (a function of `θ` and of the
    curvature AT `θ`) and the likelihood term are evaluated at the same, maximum-likelihood, point. -/
theorem single_terms_at_reported_point (add : α → α → α) (convert : List α → α → Conv α) (aifeyn : α)
    (cfg : Config α) (script : Nat → Nat → Call α) (nllF : List α → α) (br : Branch) (niter nconv : Nat)
    (hpre : pre cfg = .go br niter nconv) (hm : MinimiserSpec nllF br cfg.nparam script)
    (h1 : 1 ≤ cfg.nparam) (hn : cfg.nparam ≤ cfg.maxParam)
    (nll dl : α) (ps : List α) (hret : singleFunction add convert aifeyn cfg script = .ret nll dl ps) :
    ∃ chi2 θ, handed cfg script = some (θ, chi2) ∧
      nll = (convert θ chi2).nll ∧
      dl = add (add (convert θ chi2).nll (convert θ chi2).codelen) aifeyn ∧
      ps = (convert θ chi2).params ∧
      (Num.lt chi2 (Num.const finalBack.big) = true → nllF (θ.take cfg.nparam) = chi2) := by
  unfold singleFunction at hret
  cases hres : optimiseFun cfg script with
  | mk r n =>
    rw [hres] at hret
    cases r with
    | ret chi2 θ =>
      simp only [Out.ret.injEq] at hret
      obtain ⟨h_nll, h_dl, h_ps⟩ := hret
      refine ⟨chi2, θ, ?_, h_nll.symm, h_dl.symm, h_ps.symm, ?_⟩
      · simp [handed, hres]
      · intro hlt
        exact C10.params_reproduce_nll cfg script nllF br niter nconv hpre hm h1 hn chi2 θ n hres hlt
    | valueError => cases hret
    | nameError => cases hret
    | missing => cases hret

omit [LawfulNum α] in
/-- **Why the flag matters (general form).**  With `flag_three` true the reported vector is the optimiser's own `x`,
    whatever space it lives in: for a log-space arm that is `log10|a|`, signs lost. -/
theorem wrong_flag_reports_optimiser_vector (B : BackSpec) (maxParam : Nat) (p : Picked α)
    (h : p.res.x.length ≤ maxParam) :
    ∃ ps, backParams B true maxParam p = some ps ∧ ps.take p.res.x.length = p.res.x := by
  have hnot : ¬ maxParam < p.res.x.length := by omega
  exact ⟨padTo maxParam p.res.x, by simp [backParams, hnot], take_padTo _ _⟩

/-- … and the consistency condition the theorems rest on rejects every log-space row whose flag says linear. -/
theorem wrong_flag_row_rejected :
    ∀ t ∈ signTable, t.flagThree = false → rowOK finalBack { t with flagThree := true } = false := by decide

/-! ### the counter-example: flag wrong for (log_opt, two parameters) -/

/-- the arm for two parameters under `log_opt` with `flag_three` wrongly true (what `(not log_opt) or nparam >= 2`
    computes) -/
def brWrong : Branch := { C10.brEx with flagThree := true }

/-- **`backtransform_flag_needed`.**  Two parameters, `log_opt`, the minimiser reports `x = (2, 1)` on every sign branch
    (so `log10|a| = (2, 1)`), the likelihood is NLL(a) = a₀: the (−,+) branch wins with chi2 = −100.  With the table's
    flag the parameters handed on are `(−10², +10¹) = (−100, 10)` and reproduce chi2; with the flag wrong they are
    `(2, 1) = log10|a|` with the same chi2 = −100, and NLL(2, 1) = 2 ≠ −100.  (`XH.fin n` denotes n/2.) -/
theorem backtransform_flag_needed :
    finish C10.brEx 4 (runLoop C10.cfgEx C10.brEx 2 1 C10.scriptSpec)
        = .ret (.fin (-200)) [.fin (-200), .fin 20, .fin 0, .fin 0] ∧
      C10.nllEx ([XH.fin (-200), .fin 20, .fin 0, .fin 0].take 2) = .fin (-200) ∧
    finish brWrong 4 (runLoop C10.cfgEx brWrong 2 1 C10.scriptSpec)
        = .ret (.fin (-200)) [.fin 4, .fin 2, .fin 0, .fin 0] ∧
      C10.nllEx ([XH.fin 4, .fin 2, .fin 0, .fin 0].take 2) ≠ .fin (-200) := by decide

/-! ### non-vacuity -/

/-- exact addition on the example numbers -/
def addXH : XH → XH → XH
  | .fin a, .fin b => .fin (a + b)
  | _, _ => .nan

/-- the mixed-sign log-space row of the table on a concrete vector: x = (2, 1) ↦ (−100, 10) -/
example : ∃ t ∈ signTable, logSpace t.nclass t.logOpt = true ∧ t.signs = some [.neg, .pos] ∧
    backParams finalBack t.flagThree 4 ⟨t.row.resCall, ⟨[XH.fin 4, .fin 2], .fin 0, true⟩, t.row.mult⟩
      = some [.fin (-200), .fin 20, .fin 0, .fin 0] := by decide

/-- a linear-space row (three parameters under `log_opt`): x is handed on unchanged -/
example : ∃ t ∈ signTable, t.nclass = .many ∧ t.logOpt = true ∧ logSpace t.nclass t.logOpt = false ∧
    backParams finalBack t.flagThree 4 ⟨t.row.resCall, ⟨[XH.fin (-4), .fin 2, .fin 6], .fin 0, true⟩, t.row.mult⟩
      = some [.fin (-4), .fin 2, .fin 6, .fin 0] := by decide

/-- the hypotheses of `single_terms_at_reported_point` hold on the instance of Props/C10 (`pre cfgEx = .go brEx 2 1`,
    `MinimiserSpec nllEx brEx 2 scriptSpec` are shown there); with a Fisher routine that returns what it is handed and a
    code length of 3, tree code length 5: returned (−100, (−100 + 3) + 5, (−100, 10, 0, 0)) -/
example : singleFunction addXH (fun θ chi2 => ⟨θ, chi2, .fin 6⟩) (.fin 10) C10.cfgEx C10.scriptSpec
    = .ret (.fin (-200)) (.fin (-184)) [.fin (-200), .fin 20, .fin 0, .fin 0] ∧
    handed C10.cfgEx C10.scriptSpec = some ([.fin (-200), .fin 20, .fin 0, .fin 0], .fin (-200)) := by decide

end ESR.C20c
