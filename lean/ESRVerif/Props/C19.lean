import ESRVerif.Proofs.Panth
/-!
C19 — the Pantheon distance-modulus prediction `PanthLikelihood.get_pred` (esr/fitting/likelihood.py:216-263).

Carrier: any linearly ordered field `α` (exact arithmetic; ℝ and ℚ are instances).  `sqrt`, `log10` and `int(ceil ·)` are
arbitrary functions of the configuration: nothing below depends on what they compute, so every statement holds for the real
ones.  `F` is the lambdified H² (`eq_numpy(·, *a)`), an arbitrary function; `G x = 1 / sqrt (F x)` is the integrand
(regenerated from l.249/251).

Proved: the integration grid contains every data point, is strictly increasing, starts at 1; the mask is correct for
unsorted samples with duplicates; the value selected for data point `i` is the composite trapezoid sum of `G` from the first
grid point up to that data point; `mu = 5 log10 (dL * zp1) + mu_const` with `mu_const = 5 log10 29979245800`
(= c / (1 km/s/Mpc) / 10 pc); a non-empty sample never raises; after `clear_data` the next call rebuilds grid and mask from
its own argument (and without it the cached ones are reused whatever the argument); the trapezoid sum telescopes to
`P (zp1 i) - P 1` whenever `P` is an antiderivative-like function matching every trapezoid — in particular exactly for an
affine integrand — which is what the analytic branch computes; over ℝ, for an integrand that is affine on every grid
interval, the selected value IS the integral `∫₁^{zp1 i} G` (no quadrature error).

The quadrature error bound `|trapezoid - ∫ G| ≤ Σ h³ max|G''| / 12` for a smooth integrand is in `Props/C19b.lean`.
NOT proved (partial): that `sympy.integrate` returns an antiderivative (tested on the real code against the numerical
path and `scipy.integrate.quad`), and floating-point rounding.
-/
namespace ESR.C19
open ESR.Panth ESR.Gen

set_option linter.unusedSectionVars false

variable {α : Type} [Field α] [LinearOrder α] [IsStrictOrderedRing α]

/-- The integrand on the grid, `1 / np.sqrt(eq_numpy(x, *a))` (regenerated: `Gen.Panth.integrand`). -/
theorem integrand_formula (sqrt F : α → α) (x : α) : Gen.Panth.integrand sqrt F x = 1 / sqrt (F x) := by
  simp [Gen.Panth.integrand]

/-! ### the grid -/

/-- Every data point is a grid point. -/
theorem grid_contains_data (c : Cfg α) (zp1 g : List α) (h : grid c zp1 = some g) : ∀ z ∈ zp1, z ∈ g := by
  obtain ⟨r, hr, rfl⟩ := grid_spec h
  obtain ⟨lo, hi, nx, _, _, rfl⟩ := rawGrid_spec hr
  intro z hz
  rw [mem_sortUnique]
  simp [hz]

/-- The grid is strictly increasing (in particular duplicate-free). -/
theorem grid_strictly_increasing (c : Cfg α) (zp1 g : List α) (h : grid c zp1 = some g) : g.Pairwise (· < ·) := by
  obtain ⟨r, _, rfl⟩ := grid_spec h
  exact pairwise_sortUnique r

/-- The grid has no points other than the two auxiliary linspaces and the data. -/
theorem grid_points (c : Cfg α) (zp1 g : List α) (h : grid c zp1 = some g) :
    ∃ lo hi nx, minL zp1 = some lo ∧ maxL zp1 = some hi ∧ c.ceilNat ((hi - lo) / c.deltaZ) = some nx ∧
      ∀ x, x ∈ g ↔ x ∈ linspace c.start lo c.minNz ∨ x ∈ linspace (lo + c.deltaZ) (hi + c.deltaZ) nx ∨ x ∈ zp1 := by
  obtain ⟨r, hr, rfl⟩ := grid_spec h
  unfold rawGrid at hr
  split at hr
  · rename_i lo hi hlo hhi
    split at hr
    · rename_i nx hnx
      refine ⟨lo, hi, nx, hlo, hhi, hnx, fun x => ?_⟩
      have : r = linspace c.start lo c.minNz ++ linspace (lo + c.deltaZ) (hi + c.deltaZ) nx ++ zp1 := by simpa using hr.symm
      rw [mem_sortUnique, this]
      simp
    · simp at hr
  · simp at hr

/-- The grid starts at the first linspace's start when no data point lies below it. -/
theorem grid_head (c : Cfg α) (zp1 g : List α) (h : grid c zp1 = some g)
    (hz : ∀ z ∈ zp1, c.start ≤ z) (hdz : 0 ≤ c.deltaZ) (hn : 1 ≤ c.minNz) : g.head? = some c.start := by
  have hs := grid_strictly_increasing c zp1 g h
  obtain ⟨lo, hi, nx, hlo, hhi, _, hmem⟩ := grid_points c zp1 g h
  obtain ⟨hlo1, hlo2⟩ := minL_spec hlo
  obtain ⟨hhi1, hhi2⟩ := maxL_spec hhi
  have hslo : c.start ≤ lo := hz lo hlo1
  have hlohi : lo ≤ hi := hlo2 hi hhi1
  apply head_of_pairwise_lt hs
  · exact (hmem _).mpr (Or.inl (start_mem_linspace _ _ _ hn))
  · intro x hx
    rcases (hmem x).mp hx with hx | hx | hx
    · exact linspace_ge _ _ _ hslo x hx
    · have h1 : lo + c.deltaZ ≤ hi + c.deltaZ := by linarith
      have h2 := linspace_ge _ _ _ h1 x hx
      linarith
    · exact hz x hx

/-- With the shipped constants (start literal 1, `delta_z = 0.02`, `min_nz = 10`) and `1 + z ≥ 1`, the grid starts at 1. -/
theorem grid_starts_at_one (ceilNat : α → Option Nat) (sq lg : α → α) (zp1 g : List α)
    (h : grid (Cfg.shipped ceilNat sq lg) zp1 = some g) (hz : ∀ z ∈ zp1, 1 ≤ z) : g.head? = some 1 := by
  have := grid_head (Cfg.shipped ceilNat sq lg) zp1 g h
    (by simpa [Cfg.shipped, Gen.Panth.gridStart] using hz)
    (by simp [Cfg.shipped, Gen.Panth.deltaZ, Gen.Panth.deltaZNum, Gen.Panth.deltaZDen])
    (by simp [Cfg.shipped, Gen.Panth.minNz])
  simpa [Cfg.shipped, Gen.Panth.gridStart] using this

/-- A non-empty sample has a grid whenever `int(ceil ·)` succeeds on the number of auxiliary points. -/
theorem grid_defined (c : Cfg α) (zp1 : List α) (hne : zp1 ≠ []) (hceil : ∀ x, (c.ceilNat x).isSome) :
    ∃ g, grid c zp1 = some g := by
  obtain ⟨lo, hlo⟩ := minL_isSome hne
  obtain ⟨hi, hhi⟩ := maxL_isSome hne
  obtain ⟨nx, hnx⟩ := Option.isSome_iff_exists.mp (hceil ((hi - lo) / c.deltaZ))
  simp [grid, rawGrid, hlo, hhi, hnx]

/-- An empty sample raises (numpy: zero-size array to reduction operation). -/
theorem grid_empty (c : Cfg α) : grid c [] = none := by
  simp [grid, rawGrid, minL]

/-! ### the mask -/

/-- `data_mask[i]` is an index of `zp1[i]` in the grid — for unsorted samples and samples with duplicates. -/
theorem mask_correct (c : Cfg α) (zp1 g : List α) (h : grid c zp1 = some g) :
    ∃ m, mask g zp1 = some m ∧ m.length = zp1.length ∧
      ∀ i (hi : i < zp1.length), ∃ k, m[i]? = some k ∧ g[k]? = some zp1[i] :=
  mask_spec g zp1 (grid_strictly_increasing c zp1 g h) (grid_contains_data c zp1 g h)

/-! ### the cumulative trapezoid at the data points -/

/-- The value selected for data point `i` is the sum of the trapezoids of `G = 1/sqrt(F)` over the grid intervals
below `zp1[i]`:  `Σ_{j < mask i} ½ (G (g j) + G (g (j+1))) (g (j+1) − g j)`. -/
theorem cumtrapz_at_mask (c : Cfg α) (zp1 g : List α) (m : List Nat) (F : α → α)
    (hg : grid c zp1 = some g) (hm : mask g zp1 = some m) :
    ∃ sel, dLNumeric c g m F = some sel ∧ sel.length = zp1.length ∧
      ∀ i (hi : i < zp1.length), ∃ k, m[i]? = some k ∧ g[k]? = some zp1[i] ∧
        sel[i]? = some (∑ j ∈ Finset.range k,
          1 / 2 * (1 / c.sqrt (F (g.getD j 0)) + 1 / c.sqrt (F (g.getD (j + 1) 0))) * (g.getD (j + 1) 0 - g.getD j 0)) := by
  obtain ⟨m', hm', hlen, hidx⟩ := mask_correct c zp1 g hg
  rw [hm] at hm'
  cases hm'
  -- every mask entry is a valid grid index
  have hvalid : ∀ k ∈ m, k < g.length := by
    intro k hk
    obtain ⟨i, hi, rfl⟩ := List.getElem_of_mem hk
    obtain ⟨k', hk1, hk2⟩ := hidx i (by omega)
    rw [List.getElem?_eq_getElem hi] at hk1
    cases hk1
    by_contra hc
    rw [List.getElem?_eq_none (by omega)] at hk2
    cases hk2
  have hlen2 : g.length = (g.map (Gen.Panth.integrand c.sqrt F)).length := by simp
  have hcl : ∀ k, k < g.length → k < (cumtrapz g (g.map (Gen.Panth.integrand c.sqrt F))).length := by
    intro k hk
    have := cumtrapz_getElem g _ hlen2 k hk
    by_contra hc
    rw [List.getElem?_eq_none (by omega)] at this
    cases this
  obtain ⟨sel, hs1, hs2, hs3⟩ := select_spec (cumtrapz g (g.map (Gen.Panth.integrand c.sqrt F))) m
    (fun k hk => hcl k (hvalid k hk))
  refine ⟨sel, hs1, by omega, ?_⟩
  intro i hi
  obtain ⟨k, hk1, hk2⟩ := hidx i hi
  refine ⟨k, hk1, hk2, ?_⟩
  have hkg : k < g.length := hvalid k (List.mem_of_getElem? hk1)
  rw [hs3 i k hk1, cumtrapz_getElem g _ hlen2 k hkg]
  congr 1
  apply Finset.sum_congr rfl
  intro j hj
  have hj' : j + 1 < g.length := by have := Finset.mem_range.mp hj; omega
  have hj0 : j < g.length := by omega
  simp only [trapTerm, List.getD_eq_getElem?_getD, List.getElem?_map, List.getElem?_eq_getElem hj',
    List.getElem?_eq_getElem hj0, Option.map_some, Option.getD_some, integrand_formula]
  ring

/-! ### the distance modulus -/

/-- The generated formula of l.260-261: `mu = 5 * log10(dL * zp1) + mu_const`. -/
theorem mu_formula (lg : α → α) (dL z muConst : α) :
    Gen.Panth.mu lg (Gen.Panth.scale dL z) muConst = 5 * lg (dL * z) + muConst := by
  simp [Gen.Panth.mu, Gen.Panth.scale]

/-- The constant of l.208-209: `5 log10 (c / (1 km/s/Mpc) / (10 pc))`, the argument being exactly 29979245800. -/
theorem mu_const_value (ceilNat : α → Option Nat) (sq lg : α → α) :
    (Cfg.shipped ceilNat sq lg).muConst = 5 * lg 29979245800 := by
  simp [Cfg.shipped, Gen.Panth.muConst, Gen.Panth.muConstCoeff, Gen.Panth.muConstArgNum, Gen.Panth.muConstArgDen]

/-- `get_pred` on an instance without cached grid, for a non-empty sample: it does not raise, caches the grid and the
mask of its argument, and returns `mu_i = 5 log10 (dL_i * zp1_i) + mu_const` with `dL` the trapezoid sums of
`cumtrapz_at_mask`. -/
theorem get_pred_spec (c : Cfg α) (zp1 : List α) (F : α → α) (hne : zp1 ≠ []) (hceil : ∀ x, (c.ceilNat x).isSome) :
    ∃ g m sel, grid c zp1 = some g ∧ mask g zp1 = some m ∧ dLNumeric c g m F = some sel ∧ sel.length = zp1.length ∧
      getPred c {} zp1 F =
        some (⟨some g, some m⟩, List.zipWith (fun d z => 5 * c.log10 (d * z) + c.muConst) sel zp1) := by
  obtain ⟨g, hg⟩ := grid_defined c zp1 hne hceil
  obtain ⟨m, hm, _, _⟩ := mask_correct c zp1 g hg
  obtain ⟨sel, hsel, hlen, _⟩ := cumtrapz_at_mask c zp1 g m F hg hm
  refine ⟨g, m, sel, hg, hm, hsel, hlen, ?_⟩
  simp only [getPred, ensureGrid, Option.isNone_none, Bool.or_self, if_true, hg, hm, hsel, scaleBroadcast, hlen]
  simp [List.map_zipWith, mu_formula]

/-- Analytic branch (l.237, 260-261): `mu_i = 5 log10 ((P zp1_i − P 1) zp1_i) + mu_const`, cache untouched. -/
theorem analytic_formula (c : Cfg α) (zp1 : List α) (P : α → α) :
    getPredIntegrated c zp1 P = zp1.map (fun z => 5 * c.log10 ((P z - P 1) * z) + c.muConst) := by
  simp [getPredIntegrated, Gen.Panth.analytic, mu_formula]

/-- Both branches integrate from the same lower limit (the literal `1` of l.237 and of l.242). -/
theorem same_lower_limit : Gen.Panth.intStart = Gen.Panth.gridStart := by decide

/-! ### the cache -/

/-- After `clear_data`, `get_pred` behaves as on an instance that never cached anything: whatever was cached before,
grid and mask are rebuilt from the argument of the call. -/
theorem cache_rebuilt (c : Cfg α) (s : State α) (zp1 : List α) (F : α → α) :
    getPred c (clearData s) zp1 F = getPred c {} zp1 F := by
  simp [getPred, ensureGrid, clearData, Gen.Panth.clearsDataX, Gen.Panth.clearsDataMask]

/-- … and the state it leaves is the grid and mask of that argument. -/
theorem cache_rebuilt_state (c : Cfg α) (s s' : State α) (zp1 mus : List α) (F : α → α)
    (h : getPred c (clearData s) zp1 F = some (s', mus)) :
    ∃ g m, grid c zp1 = some g ∧ mask g zp1 = some m ∧ s' = ⟨some g, some m⟩ := by
  rw [cache_rebuilt] at h
  simp only [getPred, ensureGrid, Option.isNone_none, Bool.or_self, if_true] at h
  cases hg : grid c zp1 with
  | none => simp [hg] at h
  | some g =>
    cases hm : mask g zp1 with
    | none => simp [hg, hm] at h
    | some m =>
      refine ⟨g, m, rfl, hm, ?_⟩
      simp only [hg, hm] at h
      split at h
      · simp at h
      · split at h
        · simp at h
        · simp only [Option.some.injEq, Prod.mk.injEq] at h
          exact h.1.symm

/-- Without `clear_data` a cached grid and mask are reused whatever the new argument is (why `clear_data` exists). -/
theorem cache_reused_without_clear (c : Cfg α) (g : List α) (m : List Nat) (zp1 : List α) :
    ensureGrid c ⟨some g, some m⟩ zp1 = some ⟨some g, some m⟩ := by
  simp [ensureGrid]

/-! ### exactness of the trapezoid rule (the part of the quadrature statement that is algebra) -/

/-- If `P` matches every trapezoid of the grid, `P (g (j+1)) − P (g j) = ½ (G (g j) + G (g (j+1))) (g (j+1) − g j)`
— which is the case when `G` is affine on each grid interval and `P` is its antiderivative — then the value selected
for data point `i` is exactly `P (zp1 i) − P (g 0)`: the numerical branch returns what the analytic branch computes
from `P`. -/
theorem trapezoid_exact_of_telescoping (c : Cfg α) (zp1 g : List α) (m : List Nat) (F P : α → α)
    (hg : grid c zp1 = some g) (hm : mask g zp1 = some m)
    (hP : ∀ j, j + 1 < g.length → P (g.getD (j + 1) 0) - P (g.getD j 0) =
      1 / 2 * (1 / c.sqrt (F (g.getD j 0)) + 1 / c.sqrt (F (g.getD (j + 1) 0))) * (g.getD (j + 1) 0 - g.getD j 0)) :
    ∃ sel, dLNumeric c g m F = some sel ∧ sel.length = zp1.length ∧
      ∀ i (hi : i < zp1.length), sel[i]? = some (P zp1[i] - P (g.getD 0 0)) := by
  obtain ⟨sel, h1, h2, h3⟩ := cumtrapz_at_mask c zp1 g m F hg hm
  refine ⟨sel, h1, h2, ?_⟩
  intro i hi
  obtain ⟨k, hk1, hk2, hk3⟩ := h3 i hi
  have hkg : k < g.length := by
    by_contra hc
    rw [List.getElem?_eq_none (by omega)] at hk2
    cases hk2
  rw [hk3]
  congr 1
  have : ∀ j ∈ Finset.range k, 1 / 2 * (1 / c.sqrt (F (g.getD j 0)) + 1 / c.sqrt (F (g.getD (j + 1) 0))) *
      (g.getD (j + 1) 0 - g.getD j 0) = P (g.getD (j + 1) 0) - P (g.getD j 0) := by
    intro j hj
    exact (hP j (by have := Finset.mem_range.mp hj; omega)).symm
  rw [Finset.sum_congr rfl this, Finset.sum_range_sub (fun j => P (g.getD j 0)) k]
  have : g.getD k 0 = zp1[i] := by
    rw [List.getD_eq_getElem?_getD, hk2, Option.getD_some]
  rw [this]

/-- The trapezoid rule is exact for an affine integrand `G x = a x + b`: the selected value is
`(a z²/2 + b z) − (a x₀²/2 + b x₀)` with `x₀` the first grid point. -/
theorem trapezoid_exact_affine (c : Cfg α) (zp1 g : List α) (m : List Nat) (F : α → α) (a b : α)
    (hg : grid c zp1 = some g) (hm : mask g zp1 = some m) (hG : ∀ x, 1 / c.sqrt (F x) = a * x + b) :
    ∃ sel, dLNumeric c g m F = some sel ∧ sel.length = zp1.length ∧
      ∀ i (hi : i < zp1.length),
        sel[i]? = some ((a * zp1[i] ^ 2 / 2 + b * zp1[i]) - (a * (g.getD 0 0) ^ 2 / 2 + b * g.getD 0 0)) := by
  apply trapezoid_exact_of_telescoping c zp1 g m F (fun x => a * x ^ 2 / 2 + b * x) hg hm
  intro j _
  rw [hG, hG]
  ring

/-- Over ℝ: if the integrand `G = 1/sqrt(F)` is affine on every grid interval (piecewise linear with breaks at grid
points), the value selected for data point `i` IS `∫_{g 0}^{zp1 i} G` — the trapezoid rule has no quadrature error. -/
theorem trapezoid_exact_piecewise_linear_real (c : Cfg ℝ) (zp1 g : List ℝ) (m : List Nat) (F : ℝ → ℝ)
    (hg : grid c zp1 = some g) (hm : mask g zp1 = some m)
    (hlin : ∀ j, j + 1 < g.length → ∃ a b, ∀ t ∈ Set.uIcc (g.getD j 0) (g.getD (j + 1) 0), 1 / c.sqrt (F t) = a * t + b) :
    ∃ sel, dLNumeric c g m F = some sel ∧ sel.length = zp1.length ∧
      ∀ i (hi : i < zp1.length), sel[i]? = some (∫ t in (g.getD 0 0)..zp1[i], 1 / c.sqrt (F t)) := by
  obtain ⟨sel, h1, h2, h3⟩ := cumtrapz_at_mask c zp1 g m F hg hm
  refine ⟨sel, h1, h2, ?_⟩
  intro i hi
  obtain ⟨k, hk1, hk2, hk3⟩ := h3 i hi
  have hkg : k < g.length := by
    by_contra hc
    rw [List.getElem?_eq_none (by omega)] at hk2
    cases hk2
  have hgk : g.getD k 0 = zp1[i] := by rw [List.getD_eq_getElem?_getD, hk2, Option.getD_some]
  rw [hk3, sum_trap_eq_integral (fun t => 1 / c.sqrt (F t)) (fun j => g.getD j 0) k
    (fun j hj => hlin j (by omega)), hgk]

/-- … and with the shipped constants and `1 + z ≥ 1` the lower limit is 1: `dL_i = ∫₁^{1+z_i} dx / sqrt(H²(x))`. -/
theorem dL_eq_integral_piecewise_linear_real (ceilNat : ℝ → Option Nat) (sq lg : ℝ → ℝ) (zp1 g : List ℝ) (m : List Nat)
    (F : ℝ → ℝ) (hg : grid (Cfg.shipped ceilNat sq lg) zp1 = some g) (hm : mask g zp1 = some m) (hz : ∀ z ∈ zp1, 1 ≤ z)
    (hlin : ∀ j, j + 1 < g.length → ∃ a b, ∀ t ∈ Set.uIcc (g.getD j 0) (g.getD (j + 1) 0), 1 / sq (F t) = a * t + b) :
    ∃ sel, dLNumeric (Cfg.shipped ceilNat sq lg) g m F = some sel ∧ sel.length = zp1.length ∧
      ∀ i (hi : i < zp1.length), sel[i]? = some (∫ t in (1 : ℝ)..zp1[i], 1 / sq (F t)) := by
  have h0 : g.getD 0 0 = 1 := by
    have := grid_starts_at_one ceilNat sq lg zp1 g hg hz
    cases g with
    | nil => simp at this
    | cons a t => simpa using this
  have := trapezoid_exact_piecewise_linear_real (Cfg.shipped ceilNat sq lg) zp1 g m F hg hm hlin
  rw [h0] at this
  exact this

/-! ### non-vacuity (ℚ; the shipped constants, `ceil` of ℚ, `sqrt`/`log10` replaced by the identity) -/

-- unsorted sample with a duplicate: 14-point grid starting at 1 containing 6/5 and 5/4 (nx = ⌈(1/20)/(1/50)⌉ = 3); mask = [12, 9, 12]
example : grid cQ [5/4, 6/5, 5/4] =
    some [1, 46/45, 47/45, 16/15, 49/45, 10/9, 17/15, 52/45, 53/45, 6/5, 61/50, 249/200, 5/4, 127/100] := by decide +kernel
example : (grid cQ [5/4, 6/5, 5/4]).bind (fun g => mask g [5/4, 6/5, 5/4]) = some [12, 9, 12] := by decide +kernel
-- a single data point: nx = 0, the grid is the first linspace
example : (grid cQ [11/10]).map List.length = some 10 := by decide +kernel
-- the cumulative trapezoid of x ↦ x on [1, 3/2, 2]: 0, 5/8, 3/2
example : cumtrapz [(1 : ℚ), 3/2, 2] [1, 3/2, 2] = [0, 5/8, 3/2] := by decide +kernel
-- get_pred runs, caches, and a stale cache is reused until cleared
example : (getPred cQ {} [5/4, 6/5, 5/4] (fun x => 1 / x)).map (fun r => (r.1.dataMask, r.2.length)) = some (some [12, 9, 12], 3) := by
  decide +kernel
example : ((getPred cQ {} [5/4, 6/5, 5/4] (fun x => 1 / x)).bind
    (fun r => getPred cQ (clearData r.1) [3/2] (fun x => 1 / x))).map (fun r => r.1.dataMask) = some (some [9]) := by decide +kernel
example : cQ.muConst = 5 * 29979245800 := by decide +kernel
-- hypotheses of `get_pred_spec`, `grid_starts_at_one` are satisfiable
example : ([5/4, 6/5, 5/4] : List ℚ) ≠ [] ∧ (∀ x, (cQ.ceilNat x).isSome) ∧ ∀ z ∈ ([5/4, 6/5, 5/4] : List ℚ), 1 ≤ z := by
  refine ⟨by simp, fun x => rfl, ?_⟩
  intro z hz
  simp only [List.mem_cons, List.not_mem_nil, or_false] at hz
  rcases hz with rfl | rfl | rfl <;> norm_num

-- exactness on a concrete case: `cQ.sqrt = id` and F x = 1/x give G x = x, and ∫₁^z x dx = (z² − 1)/2 = 9/32, 11/50 at 5/4, 6/5
example : (grid cQ [5/4, 6/5, 5/4]).bind (fun g => dLNumeric cQ g [12, 9, 12] (fun x => 1 / x)) = some [9/32, 11/50, 9/32] := by
  decide +kernel
-- the hypothesis of `trapezoid_exact_affine` is satisfiable
example : ∀ x : ℚ, 1 / cQ.sqrt ((fun x => 1 / (2 * x + 3)) x) = 2 * x + 3 := by
  intro x; simp [cQ, Cfg.shipped]

end ESR.C19
