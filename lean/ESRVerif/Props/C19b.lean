import ESRVerif.Props.C19
import ESRVerif.Proofs.PanthQuad
/-!
C19b — the quadrature error of the numerical branch of `PanthLikelihood.get_pred` for a SMOOTH integrand
(the gap named in `Props/C19.lean`: there only the piecewise-affine case, with error 0, is proved).

Over ℝ.  `G t = 1 / c.sqrt (F t)` is the integrand (`Gen.Panth.integrand`, l.249/251), `g` the grid the code builds
(`self.data_x`), `k_i` the position of data point `zp1 i` in it (`self.data_mask`), `sel i` what `dLNumeric` selects (the
value `dL[self.data_mask]` of l.258 before `dL *= zp1`).  With `G` twice continuously differentiable at every point of
`[g 0, b]`, `b ≥` every data point:

* `trapezoid_error_le_per_interval_real` — `|sel i − ∫_{g 0}^{zp1 i} G| ≤ Σ_{j<k_i} ζ j / 12 · |g (j+1) − g j|³`
  for any per-interval bounds `|G''| ≤ ζ j` on `[g j, g (j+1)]` (the sharpest form; the run-time oracle of
  `harness/props/c19.py` checks the real code against exactly this expression on the real `data_x`);
* `trapezoid_error_le_real` — one bound `|G''| ≤ ζ` on the hull: `≤ ζ / 12 · Σ_{j<k_i} |g (j+1) − g j|³`;
  `trapezoid_error_le_real_within` is the same under Mathlib's one-sided hypotheses (`ContDiffOn` on the closed hull and
  `iteratedDerivWithin 2`), as in `trapezoidal_error_le_of_c2`;
* `trapezoid_error_le_of_step_real` — grid steps `≤ h`: `≤ ζ h² (zp1 i − g 0) / 12`;
* `grid_step_le_shipped` — for the grid built from the shipped constants (`delta_z = 1/50`, `min_nz = 10`, start 1) every
  step up to the largest data point is `≤ max ((lo − 1)/9) (1/25)`, `lo` the smallest data point — PROVED from the
  `linspace` pieces, using of `int(np.ceil(·))` only `x ≤ ⌈x⌉`;
* `dL_error_le_shipped_real` — the two combined, lower limit 1;
* `dL_error_le_smooth_positive_real` — the same in the property's words: `sqrt` the real square root, `H² = F` C² and
  positive on `[1, hi]`;
* `mu_error_le` — what an error `E` of `dL` does to the distance modulus: `|Δμ| ≤ 5 E / (ln 10 · min(dL, ∫))`.

Nothing here is `_partial`: every hypothesis is either granted by the property (smooth positive `H²`, `1 + z ≥ 1`,
non-empty sample) or is the parameter the bound is stated in (`ζ`, a bound of `|G''|`).  Still not proved (and said so in
c19.py): floating-point rounding, and that `sympy.integrate` returns an antiderivative.
-/
namespace ESR.C19
open ESR.Panth ESR.Gen

/-- Sharpest form.  `G = 1/sqrt(F)` C² at every point of `[g 0, b]` (`b` above every data point), `|G''| ≤ ζ j` on the
`j`-th grid interval: the value selected for data point `i` differs from `∫_{g 0}^{zp1 i} G` by at most
`Σ_{j<k_i} ζ j / 12 · |g (j+1) − g j|³`, `k_i = data_mask[i]`. -/
theorem trapezoid_error_le_per_interval_real (c : Cfg ℝ) (zp1 g : List ℝ) (m : List Nat) (F : ℝ → ℝ) (b : ℝ) (ζ : ℕ → ℝ)
    (hg : grid c zp1 = some g) (hm : mask g zp1 = some m) (hb : ∀ z ∈ zp1, z ≤ b)
    (hC2 : ∀ t ∈ Set.Icc (g.getD 0 0) b, ContDiffAt ℝ 2 (fun t => 1 / c.sqrt (F t)) t)
    (hζ : ∀ j, j + 1 < g.length → ∀ t ∈ Set.Icc (g.getD j 0) (g.getD (j + 1) 0), t ≤ b →
      |deriv (deriv (fun t => 1 / c.sqrt (F t))) t| ≤ ζ j) :
    ∃ sel, dLNumeric c g m F = some sel ∧ sel.length = zp1.length ∧
      ∀ i (hi : i < zp1.length), ∃ k s, m[i]? = some k ∧ g[k]? = some zp1[i] ∧ sel[i]? = some s ∧
        |s - ∫ t in (g.getD 0 0)..zp1[i], 1 / c.sqrt (F t)| ≤
          ∑ j ∈ Finset.range k, ζ j / 12 * |g.getD (j + 1) 0 - g.getD j 0| ^ 3 := by
  obtain ⟨sel, h1, h2, h3⟩ := cumtrapz_at_mask c zp1 g m F hg hm
  have hs := grid_strictly_increasing c zp1 g hg
  refine ⟨sel, h1, h2, ?_⟩
  intro i hi
  obtain ⟨k, hk1, hk2, hk3⟩ := h3 i hi
  refine ⟨k, _, hk1, hk2, hk3, ?_⟩
  have hkg : k < g.length := by
    by_contra hc
    rw [List.getElem?_eq_none (by omega)] at hk2
    cases hk2
  have hgk : g.getD k 0 = zp1[i] := by rw [List.getD_eq_getElem?_getD, hk2, Option.getD_some]
  have hmono : ∀ j < k, g.getD j 0 ≤ g.getD (j + 1) 0 := fun j hj =>
    (pairwise_getD_lt hs (Nat.lt_succ_self j) (by omega)).le
  have hnm := nodes_mono (x := fun j => g.getD j 0) hmono
  have hkb : g.getD k 0 ≤ b := hgk ▸ hb _ (List.getElem_mem hi)
  have hin : ∀ j < k, ∀ t ∈ Set.Icc (g.getD j 0) (g.getD (j + 1) 0), t ∈ Set.Icc (g.getD 0 0) b := by
    intro j hj t ht
    exact ⟨(hnm 0 j (Nat.zero_le _) hj.le).trans ht.1, (ht.2.trans (hnm (j + 1) k hj le_rfl)).trans hkb⟩
  have key := sum_trap_error_le_deriv (fun t => 1 / c.sqrt (F t)) (fun j => g.getD j 0) k ζ hmono
    (fun j hj t ht => hC2 t (hin j hj t ht))
    (fun j hj t ht => hζ j (by omega) t ht (hin j hj t ht).2)
  rw [hgk] at key
  exact key

/-- One bound `ζ` of `|G''|` on `[g 0, b]`:  `|sel i − ∫_{g 0}^{zp1 i} G| ≤ ζ / 12 · Σ_{j<k_i} |g (j+1) − g j|³`. -/
theorem trapezoid_error_le_real (c : Cfg ℝ) (zp1 g : List ℝ) (m : List Nat) (F : ℝ → ℝ) (b ζ : ℝ)
    (hg : grid c zp1 = some g) (hm : mask g zp1 = some m) (hb : ∀ z ∈ zp1, z ≤ b)
    (hC2 : ∀ t ∈ Set.Icc (g.getD 0 0) b, ContDiffAt ℝ 2 (fun t => 1 / c.sqrt (F t)) t)
    (hζ : ∀ t ∈ Set.Icc (g.getD 0 0) b, |deriv (deriv (fun t => 1 / c.sqrt (F t))) t| ≤ ζ) :
    ∃ sel, dLNumeric c g m F = some sel ∧ sel.length = zp1.length ∧
      ∀ i (hi : i < zp1.length), ∃ k s, m[i]? = some k ∧ g[k]? = some zp1[i] ∧ sel[i]? = some s ∧
        |s - ∫ t in (g.getD 0 0)..zp1[i], 1 / c.sqrt (F t)| ≤
          ζ / 12 * ∑ j ∈ Finset.range k, |g.getD (j + 1) 0 - g.getD j 0| ^ 3 := by
  have hs := grid_strictly_increasing c zp1 g hg
  obtain ⟨sel, h1, h2, h3⟩ := trapezoid_error_le_per_interval_real c zp1 g m F b (fun _ => ζ) hg hm hb hC2 (by
    intro j hj t ht htb
    have h0 : g.getD 0 0 ≤ g.getD j 0 := by
      rcases Nat.eq_zero_or_pos j with rfl | hpos
      · exact le_rfl
      · exact (pairwise_getD_lt hs hpos (by omega)).le
    exact hζ t ⟨h0.trans ht.1, htb⟩)
  refine ⟨sel, h1, h2, fun i hi => ?_⟩
  obtain ⟨k, s, e1, e2, e3, e4⟩ := h3 i hi
  refine ⟨k, s, e1, e2, e3, e4.trans_eq ?_⟩
  rw [Finset.mul_sum]

/-- The same under the one-sided hypotheses of Mathlib's `trapezoidal_error_le_of_c2`: `G` of class C² ON the closed
interval `[g 0, b]` and `|iteratedDerivWithin 2 G [g 0, b]| ≤ ζ` there. -/
theorem trapezoid_error_le_real_within (c : Cfg ℝ) (zp1 g : List ℝ) (m : List Nat) (F : ℝ → ℝ) (b ζ : ℝ)
    (hg : grid c zp1 = some g) (hm : mask g zp1 = some m) (hb : ∀ z ∈ zp1, z ≤ b)
    (hC2 : ContDiffOn ℝ 2 (fun t => 1 / c.sqrt (F t)) (Set.Icc (g.getD 0 0) b))
    (hζ : ∀ t ∈ Set.Icc (g.getD 0 0) b,
      |iteratedDerivWithin 2 (fun t => 1 / c.sqrt (F t)) (Set.Icc (g.getD 0 0) b) t| ≤ ζ) :
    ∃ sel, dLNumeric c g m F = some sel ∧ sel.length = zp1.length ∧
      ∀ i (hi : i < zp1.length), ∃ k s, m[i]? = some k ∧ g[k]? = some zp1[i] ∧ sel[i]? = some s ∧
        |s - ∫ t in (g.getD 0 0)..zp1[i], 1 / c.sqrt (F t)| ≤
          ζ / 12 * ∑ j ∈ Finset.range k, |g.getD (j + 1) 0 - g.getD j 0| ^ 3 := by
  obtain ⟨sel, h1, h2, h3⟩ := cumtrapz_at_mask c zp1 g m F hg hm
  have hs := grid_strictly_increasing c zp1 g hg
  refine ⟨sel, h1, h2, ?_⟩
  intro i hi
  obtain ⟨k, hk1, hk2, hk3⟩ := h3 i hi
  refine ⟨k, _, hk1, hk2, hk3, ?_⟩
  have hkg : k < g.length := by
    by_contra hc
    rw [List.getElem?_eq_none (by omega)] at hk2
    cases hk2
  have hgk : g.getD k 0 = zp1[i] := by rw [List.getD_eq_getElem?_getD, hk2, Option.getD_some]
  have hmono : ∀ j < k, g.getD j 0 ≤ g.getD (j + 1) 0 := fun j hj =>
    (pairwise_getD_lt hs (Nat.lt_succ_self j) (by omega)).le
  have hkb : g.getD k 0 ≤ b := hgk ▸ hb _ (List.getElem_mem hi)
  have key := sum_trap_error_le_uniform (fun t => 1 / c.sqrt (F t)) (fun j => g.getD j 0) k (g.getD 0 0) b ζ hC2 hmono
    le_rfl hkb hζ
  rw [hgk] at key
  exact key

/-- Grid steps `≤ h` (up to `b`): `|sel i − ∫_{g 0}^{zp1 i} G| ≤ ζ h² (zp1 i − g 0) / 12`. -/
theorem trapezoid_error_le_of_step_real (c : Cfg ℝ) (zp1 g : List ℝ) (m : List Nat) (F : ℝ → ℝ) (b ζ h : ℝ)
    (hg : grid c zp1 = some g) (hm : mask g zp1 = some m) (hb : ∀ z ∈ zp1, z ≤ b)
    (hC2 : ∀ t ∈ Set.Icc (g.getD 0 0) b, ContDiffAt ℝ 2 (fun t => 1 / c.sqrt (F t)) t)
    (hζ : ∀ t ∈ Set.Icc (g.getD 0 0) b, |deriv (deriv (fun t => 1 / c.sqrt (F t))) t| ≤ ζ)
    (hstep : ∀ j, j + 1 < g.length → g.getD (j + 1) 0 ≤ b → g.getD (j + 1) 0 - g.getD j 0 ≤ h) :
    ∃ sel, dLNumeric c g m F = some sel ∧ sel.length = zp1.length ∧
      ∀ i (hi : i < zp1.length), ∃ s, sel[i]? = some s ∧
        |s - ∫ t in (g.getD 0 0)..zp1[i], 1 / c.sqrt (F t)| ≤ ζ * h ^ 2 * (zp1[i] - g.getD 0 0) / 12 := by
  have hs := grid_strictly_increasing c zp1 g hg
  obtain ⟨sel, h1, h2, h3⟩ := trapezoid_error_le_real c zp1 g m F b ζ hg hm hb hC2 hζ
  refine ⟨sel, h1, h2, fun i hi => ?_⟩
  obtain ⟨k, s, _, hk2, e3, e4⟩ := h3 i hi
  refine ⟨s, e3, e4.trans ?_⟩
  have hkg : k < g.length := by
    by_contra hc
    rw [List.getElem?_eq_none (by omega)] at hk2
    cases hk2
  have hgk : g.getD k 0 = zp1[i] := by rw [List.getD_eq_getElem?_getD, hk2, Option.getD_some]
  have hmono : ∀ j < k, g.getD j 0 ≤ g.getD (j + 1) 0 := fun j hj =>
    (pairwise_getD_lt hs (Nat.lt_succ_self j) (by omega)).le
  have hnm := nodes_mono (x := fun j => g.getD j 0) hmono
  have hkb : g.getD k 0 ≤ b := hgk ▸ hb _ (List.getElem_mem hi)
  have hsum := sum_cube_steps_le (fun j => g.getD j 0) k h hmono
    (fun j hj => hstep j (by omega) ((hnm (j + 1) k hj le_rfl).trans hkb))
  have hζ0 : 0 ≤ ζ := (abs_nonneg _).trans (hζ (g.getD 0 0) ⟨le_rfl, (hnm 0 k (Nat.zero_le _) le_rfl).trans hkb⟩)
  rw [hgk] at hsum
  calc ζ / 12 * ∑ j ∈ Finset.range k, |g.getD (j + 1) 0 - g.getD j 0| ^ 3
      ≤ ζ / 12 * (h ^ 2 * (zp1[i] - g.getD 0 0)) := mul_le_mul_of_nonneg_left hsum (by positivity)
    _ = ζ * h ^ 2 * (zp1[i] - g.getD 0 0) / 12 := by ring

/-! ### the shipped grid -/

/-- The grid built from the shipped constants: every step up to the largest data point `hi` is at most
`max ((lo − 1)/9) (1/25)` — the step of `linspace(1, lo, 10)`, and twice `delta_z` for `linspace(lo+dz, hi+dz, nx)`
(whose step `(hi − lo)/(nx − 1)` exceeds `delta_z` because `nx = ⌈(hi − lo)/dz⌉` counts points, not intervals). -/
theorem grid_step_le_shipped (ceilNat : ℝ → Option Nat) (sq lg : ℝ → ℝ) (zp1 g : List ℝ) (lo hi : ℝ)
    (hg : grid (Cfg.shipped ceilNat sq lg) zp1 = some g) (hlo : minL zp1 = some lo) (hhi : maxL zp1 = some hi)
    (hz : ∀ z ∈ zp1, 1 ≤ z) (hceil : ∀ x n, ceilNat x = some n → x ≤ n)
    (j : ℕ) (hj : j + 1 < g.length) (hle : g.getD (j + 1) 0 ≤ hi) :
    g.getD (j + 1) 0 - g.getD j 0 ≤ max ((lo - 1) / 9) (1 / 25) := by
  have := grid_step_le (Cfg.shipped ceilNat sq lg) zp1 g lo hi hg hlo hhi
    (by simpa [Cfg.shipped, Gen.Panth.gridStart] using hz)
    (by simp [Cfg.shipped, Gen.Panth.deltaZ, Gen.Panth.deltaZNum, Gen.Panth.deltaZDen])
    (by simp [Cfg.shipped, Gen.Panth.minNz]) hceil j hj hle
  have e : max ((lo - (Cfg.shipped ceilNat sq lg).start) / (((Cfg.shipped ceilNat sq lg).minNz - 1 : ℕ) : ℝ))
      (2 * (Cfg.shipped ceilNat sq lg).deltaZ) = max ((lo - 1) / 9) (1 / 25) := by
    simp only [Cfg.shipped, Gen.Panth.gridStart, Gen.Panth.minNz, Gen.Panth.deltaZ, Gen.Panth.deltaZNum,
      Gen.Panth.deltaZDen]
    norm_num
  rw [e] at this
  exact this

/-- Shipped configuration, `1 + z ≥ 1`: for `G = 1/sq(F)` C² at every point of `[1, hi]` with `|G''| ≤ ζ` there,
`|dL_i − ∫₁^{zp1 i} G| ≤ ζ h² (zp1 i − 1) / 12` with `h = max ((lo − 1)/9) (1/25)`
(`lo`, `hi` the smallest and largest data point; for the Pantheon sample `lo ≈ 1.01`, so `h = 0.04`). -/
theorem dL_error_le_shipped_real (ceilNat : ℝ → Option Nat) (sq lg : ℝ → ℝ) (zp1 g : List ℝ) (m : List Nat)
    (F : ℝ → ℝ) (lo hi ζ : ℝ)
    (hg : grid (Cfg.shipped ceilNat sq lg) zp1 = some g) (hm : mask g zp1 = some m)
    (hlo : minL zp1 = some lo) (hhi : maxL zp1 = some hi)
    (hz : ∀ z ∈ zp1, 1 ≤ z) (hceil : ∀ x n, ceilNat x = some n → x ≤ n)
    (hC2 : ∀ t ∈ Set.Icc (1 : ℝ) hi, ContDiffAt ℝ 2 (fun t => 1 / sq (F t)) t)
    (hζ : ∀ t ∈ Set.Icc (1 : ℝ) hi, |deriv (deriv (fun t => 1 / sq (F t))) t| ≤ ζ) :
    ∃ sel, dLNumeric (Cfg.shipped ceilNat sq lg) g m F = some sel ∧ sel.length = zp1.length ∧
      ∀ i (hi' : i < zp1.length), ∃ s, sel[i]? = some s ∧
        |s - ∫ t in (1 : ℝ)..zp1[i], 1 / sq (F t)| ≤ ζ * (max ((lo - 1) / 9) (1 / 25)) ^ 2 * (zp1[i] - 1) / 12 := by
  have h0 : g.getD 0 0 = 1 := by
    have := grid_starts_at_one ceilNat sq lg zp1 g hg hz
    cases g with
    | nil => simp at this
    | cons a t => simpa using this
  have key := trapezoid_error_le_of_step_real (Cfg.shipped ceilNat sq lg) zp1 g m F hi ζ (max ((lo - 1) / 9) (1 / 25))
    hg hm (maxL_spec hhi).2 (by rw [h0]; exact hC2) (by rw [h0]; exact hζ)
    (fun j hj hle => grid_step_le_shipped ceilNat sq lg zp1 g lo hi hg hlo hhi hz hceil j hj hle)
  rw [h0] at key
  exact key

/-- A twice continuously differentiable positive `H²` gives a twice continuously differentiable integrand
`1 / √(H²)` (real square root). -/
theorem integrand_contDiffAt (F : ℝ → ℝ) (t : ℝ) (hF : ContDiffAt ℝ 2 F t) (hpos : 0 < F t) :
    ContDiffAt ℝ 2 (fun t => 1 / Real.sqrt (F t)) t :=
  contDiffAt_const.div (hF.sqrt hpos.ne') (Real.sqrt_pos.mpr hpos).ne'

/-- In the property's words.  `H² = F` twice continuously differentiable and positive on `[1, 1 + z_max]`, `sqrt` the real
square root, any `int(np.ceil(·))` with `x ≤ ⌈x⌉`, a sample with `1 + z ≥ 1`, shipped constants: the value behind the
predicted distance modulus (`mu_i = 5 log10 (zp1_i · dL_i) + mu_const`, `get_pred_spec`/`mu_formula`) satisfies
`|dL_i − ∫₁^{1+z_i} dx/√(H²(x))| ≤ ζ h² z_i / 12`, `h = max ((lo − 1)/9) (1/25)`, `ζ ≥ |(1/√H²)''|` on `[1, 1 + z_max]`. -/
theorem dL_error_le_smooth_positive_real (ceilNat : ℝ → Option Nat) (lg : ℝ → ℝ) (zp1 g : List ℝ) (m : List Nat)
    (F : ℝ → ℝ) (lo hi ζ : ℝ)
    (hg : grid (Cfg.shipped ceilNat Real.sqrt lg) zp1 = some g) (hm : mask g zp1 = some m)
    (hlo : minL zp1 = some lo) (hhi : maxL zp1 = some hi)
    (hz : ∀ z ∈ zp1, 1 ≤ z) (hceil : ∀ x n, ceilNat x = some n → x ≤ n)
    (hF : ∀ t ∈ Set.Icc (1 : ℝ) hi, ContDiffAt ℝ 2 F t) (hpos : ∀ t ∈ Set.Icc (1 : ℝ) hi, 0 < F t)
    (hζ : ∀ t ∈ Set.Icc (1 : ℝ) hi, |deriv (deriv (fun t => 1 / Real.sqrt (F t))) t| ≤ ζ) :
    ∃ sel, dLNumeric (Cfg.shipped ceilNat Real.sqrt lg) g m F = some sel ∧ sel.length = zp1.length ∧
      ∀ i (hi' : i < zp1.length), ∃ s, sel[i]? = some s ∧
        |s - ∫ t in (1 : ℝ)..zp1[i], 1 / Real.sqrt (F t)| ≤
          ζ * (max ((lo - 1) / 9) (1 / 25)) ^ 2 * (zp1[i] - 1) / 12 :=
  dL_error_le_shipped_real ceilNat Real.sqrt lg zp1 g m F lo hi ζ hg hm hlo hhi hz hceil
    (fun t ht => integrand_contDiffAt F t (hF t ht) (hpos t ht)) hζ

/-! ### the induced error of the distance modulus -/

/-- `mu = 5 log10 (dL · zp1) + mu_const` with the real `log10`: replacing the integral `I` by a value `s` with
`|s − I| ≤ E` (both positive) changes `mu` by at most `5 E / (ln 10 · min s I)`. -/
theorem mu_error_le (s I z κ E : ℝ) (hs : 0 < s) (hI : 0 < I) (hz : 0 < z) (hE : |s - I| ≤ E) :
    |Gen.Panth.mu (fun x => Real.log x / Real.log 10) (Gen.Panth.scale s z) κ -
      Gen.Panth.mu (fun x => Real.log x / Real.log 10) (Gen.Panth.scale I z) κ| ≤
      5 * E / (Real.log 10 * min s I) := by
  have hl10 : 0 < Real.log 10 := Real.log_pos (by norm_num)
  have hmin : 0 < min s I := lt_min hs hI
  -- |log a − log b| ≤ |a − b| / min a b
  have hlog : ∀ a b : ℝ, 0 < a → 0 < b → Real.log a - Real.log b ≤ |a - b| / min a b := by
    intro a b ha hb
    have h1 : Real.log a - Real.log b = Real.log (a / b) := (Real.log_div ha.ne' hb.ne').symm
    have h2 := Real.log_le_sub_one_of_pos (div_pos ha hb)
    have h3 : a / b - 1 = (a - b) / b := by field_simp
    have h4 : (a - b) / b ≤ |a - b| / b := div_le_div_of_nonneg_right (le_abs_self _) hb.le
    have h5 : |a - b| / b ≤ |a - b| / min a b :=
      div_le_div_of_nonneg_left (abs_nonneg _) (lt_min ha hb) (min_le_right _ _)
    linarith
  have habs : |Real.log s - Real.log I| ≤ |s - I| / min s I := by
    rw [abs_le]
    constructor
    · have := hlog I s hI hs
      rw [abs_sub_comm, min_comm] at this
      linarith
    · exact hlog s I hs hI
  rw [mu_formula, mu_formula]
  have e : 5 * (Real.log (s * z) / Real.log 10) + κ - (5 * (Real.log (I * z) / Real.log 10) + κ) =
      5 / Real.log 10 * (Real.log s - Real.log I) := by
    rw [Real.log_mul hs.ne' hz.ne', Real.log_mul hI.ne' hz.ne']
    field_simp
    ring
  rw [e, abs_mul, abs_of_pos (div_pos (by norm_num) hl10)]
  calc 5 / Real.log 10 * |Real.log s - Real.log I|
      ≤ 5 / Real.log 10 * (E / min s I) :=
        mul_le_mul_of_nonneg_left (habs.trans (div_le_div_of_nonneg_right hE hmin.le)) (by positivity)
    _ = 5 * E / (Real.log 10 * min s I) := by field_simp

/-! ### non-vacuity -/

-- The hypotheses of `trapezoid_error_le_per_interval_real` / `trapezoid_error_le_real` / `…_of_step_real` hold together
-- on a concrete real case: shipped constants, real ceiling, sample [5/4, 6/5, 5/4] (unsorted, duplicate), `F t = t²`
-- and `sqrt := (1/·)`, i.e. integrand `G t = t²`, `b = 5/4`, `ζ = 2`, `h = 1/25`.
example : ∃ g m, grid cR [5/4, 6/5, 5/4] = some g ∧ mask g [5/4, 6/5, 5/4] = some m ∧
    (∀ z ∈ ([5/4, 6/5, 5/4] : List ℝ), z ≤ 5/4) ∧
    (∀ t ∈ Set.Icc (g.getD 0 0) (5/4 : ℝ), ContDiffAt ℝ 2 (fun t => 1 / cR.sqrt ((fun x => x ^ 2) t)) t) ∧
    (∀ t ∈ Set.Icc (g.getD 0 0) (5/4 : ℝ), |deriv (deriv (fun t => 1 / cR.sqrt ((fun x => x ^ 2) t))) t| ≤ 2) ∧
    (∀ j, j + 1 < g.length → g.getD (j + 1) 0 ≤ 5/4 → g.getD (j + 1) 0 - g.getD j 0 ≤ 1/25) := by
  have hz : ∀ z ∈ ([5/4, 6/5, 5/4] : List ℝ), (1 : ℝ) ≤ z := by
    intro z hz
    simp only [List.mem_cons, List.not_mem_nil, or_false] at hz
    rcases hz with rfl | rfl | rfl <;> norm_num
  have hlo : minL ([5/4, 6/5, 5/4] : List ℝ) = some (6/5) := by
    simp only [minL, List.foldl_cons, List.foldl_nil]; norm_num
  have hhi : maxL ([5/4, 6/5, 5/4] : List ℝ) = some (5/4) := by
    simp only [maxL, List.foldl_cons, List.foldl_nil]; norm_num
  obtain ⟨g, hg⟩ := grid_defined cR [5/4, 6/5, 5/4] (by simp) (fun x => rfl)
  obtain ⟨m, hm, _, _⟩ := mask_correct cR _ g hg
  refine ⟨g, m, hg, hm, ?_, ?_, ?_, ?_⟩
  · intro z hz'
    simp only [List.mem_cons, List.not_mem_nil, or_false] at hz'
    rcases hz' with rfl | rfl | rfl <;> norm_num
  · intro t _
    rw [cR_integrand]
    exact (contDiff_id.pow 2).contDiffAt
  · intro t _
    rw [cR_integrand, deriv_deriv_sq]
    norm_num
  · intro j hj hle
    have := grid_step_le_shipped ceilR (fun x => 1 / x) id _ g (6/5) (5/4) hg hlo hhi hz ceilR_ge j hj hle
    refine this.trans_eq ?_
    norm_num

-- … and the conclusion of `dL_error_le_shipped_real` for that case: every selected value is within
-- `2 · (1/25)² · (zp1 i − 1) / 12` of `∫₁^{zp1 i} t² dt`.
example : ∃ g m sel, grid cR [5/4, 6/5, 5/4] = some g ∧ mask g [5/4, 6/5, 5/4] = some m ∧
    dLNumeric cR g m (fun x => x ^ 2) = some sel ∧
    ∀ i (hi' : i < ([5/4, 6/5, 5/4] : List ℝ).length), ∃ s, sel[i]? = some s ∧
      |s - ∫ t in (1 : ℝ)..([5/4, 6/5, 5/4] : List ℝ)[i], t ^ 2| ≤
        2 * (1 / 25) ^ 2 * (([5/4, 6/5, 5/4] : List ℝ)[i] - 1) / 12 := by
  have hz : ∀ z ∈ ([5/4, 6/5, 5/4] : List ℝ), (1 : ℝ) ≤ z := by
    intro z hz
    simp only [List.mem_cons, List.not_mem_nil, or_false] at hz
    rcases hz with rfl | rfl | rfl <;> norm_num
  have hlo : minL ([5/4, 6/5, 5/4] : List ℝ) = some (6/5) := by
    simp only [minL, List.foldl_cons, List.foldl_nil]; norm_num
  have hhi : maxL ([5/4, 6/5, 5/4] : List ℝ) = some (5/4) := by
    simp only [maxL, List.foldl_cons, List.foldl_nil]; norm_num
  obtain ⟨g, hg⟩ := grid_defined cR [5/4, 6/5, 5/4] (by simp) (fun x => rfl)
  obtain ⟨m, hm, _, _⟩ := mask_correct cR _ g hg
  have hG : (fun t : ℝ => 1 / (fun x : ℝ => 1 / x) ((fun x => x ^ 2) t)) = fun t => t ^ 2 := cR_integrand
  obtain ⟨sel, h1, _, h3⟩ := dL_error_le_shipped_real ceilR (fun x => 1 / x) id _ g m (fun x => x ^ 2) (6/5) (5/4) 2
    hg hm hlo hhi hz ceilR_ge
    (by intro t _; rw [hG]; exact (contDiff_id.pow 2).contDiffAt)
    (by intro t _; rw [hG, deriv_deriv_sq]; norm_num)
  refine ⟨g, m, sel, hg, hm, h1, fun i hi' => ?_⟩
  obtain ⟨s, e1, e2⟩ := h3 i hi'
  refine ⟨s, e1, ?_⟩
  have e : max (((6 : ℝ) / 5 - 1) / 9) (1 / 25) = 1 / 25 := by norm_num
  rw [e] at e2
  simpa using e2

-- The bound is attained (ℚ, computed by the executable model on the 14-point grid of the examples of C19.lean):
-- `cQ.sqrt = id` and `F x = 1/x²` give `G x = x²`, `G'' = 2`; for the data points 5/4 (mask 12) and 6/5 (mask 9) the
-- selected value minus `∫₁^z x² dx = (z³ − 1)/3` EQUALS `2/12 · Σ_{j<k} (g (j+1) − g j)³`.
example : (grid cQ [5/4, 6/5, 5/4]).bind (fun g => dLNumeric cQ g [12, 9, 12] (fun x => 1 / x ^ 2)) =
    some [123532939/388800000, 14743/60750, 123532939/388800000] := by decide +kernel
example : (grid cQ [5/4, 6/5, 5/4]).map (fun g =>
    [12, 9].map (fun k => (2 : ℚ) / 12 * ((List.range k).map (fun j => |g.getD (j + 1) 0 - g.getD j 0| ^ 3)).sum)) =
    some [123532939/388800000 - ((5/4) ^ 3 - 1) / 3, 14743/60750 - ((6/5) ^ 3 - 1) / 3] := by decide +kernel
-- the shipped step bound on that grid: max ((6/5 − 1)/9) (1/25) = 1/25, and the largest step below 5/4 is 1/40
example : (grid cQ [5/4, 6/5, 5/4]).map (fun g =>
    ((List.range 12).map (fun j => g.getD (j + 1) 0 - g.getD j 0)).all (fun d => decide (d ≤ max ((6/5 - 1) / 9) (1/25)))) =
    some true := by decide +kernel
-- hypotheses of `mu_error_le`
example : (0 : ℝ) < 1/4 ∧ (0 : ℝ) < 61/192 ∧ (0 : ℝ) < 5/4 ∧ |(1/4 : ℝ) - 61/192| ≤ 1/10 := by
  refine ⟨by norm_num, by norm_num, by norm_num, ?_⟩
  rw [abs_le]; constructor <;> norm_num

end ESR.C19
