import ESRVerif.Model.Partition
/-!
C14 — work partitioning tiles the function list.

Property theorems only; everything is core Lean (`omega`, `simp`, induction).
-/
namespace ESR.C14
open ESR.Partition

/-! ### generic: consecutive cut points tile a list -/

theorem slices_concat {α} (xs : List α) (b : Nat → Nat) (P : Nat)
    (h0 : b 0 = 0) (hmono : ∀ r, r < P → b r ≤ b (r + 1)) (hN : xs.length ≤ b P) :
    (List.range P).flatMap (fun r => pySlice xs (b r) (b (r + 1))) = xs := by
  have key : ∀ k, k ≤ P → (List.range k).flatMap (fun r => pySlice xs (b r) (b (r + 1))) = xs.take (b k) := by
    intro k
    induction k with
    | zero => intro _; simp [h0]
    | succ k ih =>
      intro hk
      have hk' : k ≤ P := by omega
      rw [List.range_succ, List.flatMap_append, ih hk']
      simp only [List.flatMap_cons, List.flatMap_nil, List.append_nil, pySlice]
      have hle : b k ≤ b (k + 1) := hmono k (by omega)
      have : List.take (b k) xs = List.take (b k) (List.take (b (k + 1)) xs) := by
        rw [List.take_take]; congr 1; omega
      rw [this, List.take_append_drop]
  have := key P (Nat.le_refl P)
  rw [this, List.take_of_length_le hN]

/-! ### split_idx -/

theorem divPoint_zero (N P : Nat) : divPoint N P 0 = 0 := by
  simp [divPoint]

theorem divPoint_last (N P : Nat) (hP : 1 ≤ P) : divPoint N P P = N := by
  unfold divPoint
  have hlt : N % P < P := Nat.mod_lt _ (by omega)
  have hdm : P * (N / P) + N % P = N := Nat.div_add_mod N P
  simp only []
  split
  · omega
  · have hsub : N % P + (P - N % P) = P := by omega
    calc N % P * (N / P + 1) + (P - N % P) * (N / P)
        = (N % P + (P - N % P)) * (N / P) + N % P := by
          rw [Nat.add_mul, Nat.mul_add]; omega
      _ = N := by rw [hsub]; omega

theorem divPoint_mono (N P r : Nat) : divPoint N P r ≤ divPoint N P (r + 1) := by
  unfold divPoint
  simp only []
  split <;> split
  · rw [Nat.add_mul]; omega
  · have : r = N % P := by omega
    subst this
    simp
  · omega
  · have : r + 1 - N % P = (r - N % P) + 1 := by omega
    rw [this, Nat.add_mul]; omega

/-- Consecutive blocks are contiguous, start at 0, end at N, never reversed. -/
theorem split_tiles (N P : Nat) (hP : 1 ≤ P) :
    (block N P 0).1 = 0 ∧ (block N P (P - 1)).2 = N ∧
    (∀ r, (block N P r).2 = (block N P (r + 1)).1) ∧
    (∀ r, (block N P r).1 ≤ (block N P r).2) := by
  refine ⟨divPoint_zero N P, ?_, fun _ => rfl, fun r => divPoint_mono N P r⟩
  show divPoint N P (P - 1 + 1) = N
  rw [Nat.sub_add_cancel hP]; exact divPoint_last N P hP

/-- Block sizes are those of `numpy.array_split`: `N/P + 1` for the first `N % P` ranks, `N/P` after. -/
theorem split_matches_array_split (N P r : Nat) (hr : r < P) :
    (block N P r).2 - (block N P r).1 = if r < N % P then N / P + 1 else N / P := by
  unfold block divPoint
  simp only []
  rcases Nat.lt_trichotomy r (N % P) with h | h | h
  · have h1 : r ≤ N % P := by omega
    have h2 : r + 1 ≤ N % P := by omega
    simp only [h1, h2, h, if_true]
    rw [Nat.add_mul]; omega
  · subst h
    simp only [Nat.le_refl, if_true, Nat.lt_irrefl, if_false]
    have h2 : ¬ (N % P + 1 ≤ N % P) := by omega
    simp only [h2, if_false]
    have : N % P + 1 - N % P = 1 := by omega
    rw [this]; omega
  · have h1 : ¬ r ≤ N % P := by omega
    have h2 : ¬ r + 1 ≤ N % P := by omega
    have h3 : ¬ r < N % P := by omega
    simp only [h1, h2, h3, if_false]
    have : r + 1 - N % P = (r - N % P) + 1 := by omega
    rw [this, Nat.add_mul]; omega

/-- `split_idx` returns `[]` exactly for an empty block, else the closed range `[start, stop-1]`. -/
theorem split_empty_iff (N P r : Nat) :
    (splitIdx N P r = none ↔ (block N P r).1 = (block N P r).2) ∧
    (∀ a b, splitIdx N P r = some (a, b) → a = (block N P r).1 ∧ b + 1 = (block N P r).2 ∧ a ≤ b) := by
  have hm := divPoint_mono N P r
  unfold splitIdx block
  simp only []
  constructor
  · constructor
    · intro h; split at h
      · omega
      · simp at h
    · intro h; simp [h]
  · intro a b h
    split at h
    · simp at h
    · simp only [Option.some.injEq, Prod.mk.injEq] at h
      omega

/-- Concatenating the per-rank blocks in rank order gives the list back (any P ≥ 1, incl. P > N, N = 0). -/
theorem blocks_tile {α} (xs : List α) (P : Nat) (hP : 1 ≤ P) :
    (List.range P).flatMap (fun r => blockSlice xs P r) = xs := by
  unfold blockSlice block
  exact slices_concat xs (fun r => divPoint xs.length P r) P (divPoint_zero _ _)
    (fun r _ => divPoint_mono _ _ r) (by simp [divPoint_last _ _ hP])

/-! ### get_functions -/

theorem nLsLoop_le (N P k : Nat) : nLsLoop N P k ≤ k := by
  induction k with
  | zero => simp [nLsLoop]
  | succ k ih => unfold nLsLoop; split <;> omega

/-- The correction loop terminates (structural) and establishes `nLs * (P-1) ≤ N`. -/
theorem nLs_bound (N P : Nat) : nLs N P * (P - 1) ≤ N := by
  unfold nLs
  generalize (N + P - 1) / P = k
  induction k with
  | zero => simp [nLsLoop]
  | succ k ih => unfold nLsLoop; split <;> omega

theorem nLsLoop_ge (N P k m : Nat) (hm : m ≤ k) (hb : m * (P - 1) ≤ N) : m ≤ nLsLoop N P k := by
  induction k with
  | zero => omega
  | succ k ih =>
    unfold nLsLoop; split
    · have : m ≠ k + 1 := by intro h; subst h; omega
      exact ih (by omega)
    · exact hm

theorem getFunctions_bounds (N P : Nat) (hP : 1 ≤ P) :
    dataStart N P 0 = 0 ∧ dataEnd N P (P - 1) = N ∧
    (∀ r, r + 1 < P → dataEnd N P r = dataStart N P (r + 1)) ∧
    (∀ r, r < P → dataStart N P r ≤ dataEnd N P r) ∧
    (∀ r, r < P → dataEnd N P r ≤ N) := by
  have hb := nLs_bound N P
  refine ⟨by simp [dataStart], by simp [dataEnd], ?_, ?_, ?_⟩
  · intro r hr
    have : r ≠ P - 1 := by omega
    simp [dataEnd, dataStart, this]
  · intro r hr
    unfold dataStart dataEnd
    split
    · rename_i h; subst h; rw [Nat.mul_comm]; exact hb
    · rw [Nat.add_mul]; omega
  · intro r hr
    unfold dataEnd
    split
    · omega
    · rename_i h
      have : r + 1 ≤ P - 1 := by omega
      have h1 : (r + 1) * nLs N P ≤ (P - 1) * nLs N P := Nat.mul_le_mul_right _ this
      have h2 : (P - 1) * nLs N P = nLs N P * (P - 1) := Nat.mul_comm _ _
      omega

/-- Concatenating what `get_functions` hands to ranks `0..P-1` gives the file back, line for line. -/
theorem getFunctions_tiles {α} (xs : List α) (P : Nat) (hP : 1 ≤ P) :
    (List.range P).flatMap (fun r => getFunctionsSlice xs P r) = xs := by
  obtain ⟨h0, hlast, hcont, hle, _⟩ := getFunctions_bounds xs.length P hP
  -- cut points: b r = dataStart r for r < P, b P = N
  let b : Nat → Nat := fun r => if r < P then dataStart xs.length P r else xs.length
  have hb : ∀ r, r < P → getFunctionsSlice xs P r = pySlice xs (b r) (b (r + 1)) := by
    intro r hr
    unfold getFunctionsSlice
    have h1 : b r = dataStart xs.length P r := by simp [b, hr]
    have h2 : b (r + 1) = dataEnd xs.length P r := by
      by_cases h : r + 1 < P
      · simp [b, h, hcont r h]
      · have hr' : r = P - 1 := by omega
        have hb2 : b (r + 1) = xs.length := by simp [b, h]
        rw [hb2, hr', hlast]
    rw [h1, h2]
  have : (List.range P).flatMap (fun r => getFunctionsSlice xs P r)
       = (List.range P).flatMap (fun r => pySlice xs (b r) (b (r + 1))) := by
    have hgen : ∀ (l : List Nat), (∀ r ∈ l, r < P) →
        l.flatMap (fun r => getFunctionsSlice xs P r) = l.flatMap (fun r => pySlice xs (b r) (b (r + 1))) := by
      intro l
      induction l with
      | nil => intro _; rfl
      | cons a l ih =>
        intro hl
        simp only [List.flatMap_cons]
        rw [hb a (hl a (by simp)), ih (fun r hr => hl r (by simp [hr]))]
    exact hgen _ (fun r hr => List.mem_range.mp hr)
  rw [this]
  apply slices_concat
  · simp [b, dataStart]; omega
  · intro r hr
    have hle' := hle r hr
    by_cases h : r + 1 < P
    · have := hcont r h
      simp only [b, hr, h, if_true]; omega
    · have hr' : r = P - 1 := by omega
      have hle2 := hle r hr
      rw [hr', hlast] at hle2
      simp only [b, hr, h, if_true, if_false]
      rw [hr']; exact hle2
  · simp [b]

/-- Row `i` of the concatenated stage output is produced by exactly one rank, from function `i`:
if every rank maps its slice line by line, the concatenation is the line-by-line map of the file. -/
theorem stage_rows_aligned {α β} (xs : List α) (f : α → β) (P : Nat) (hP : 1 ≤ P) :
    (List.range P).flatMap (fun r => (getFunctionsSlice xs P r).map f) = xs.map f := by
  have := congrArg (List.map f) (getFunctions_tiles xs P hP)
  rw [List.map_flatMap] at this
  exact this

/-! ### non-vacuity -/
example : (List.range 4).map (fun r => block 10 4 r) = [(0,3),(3,6),(6,8),(8,10)] := by decide
example : (List.range 5).map (fun r => splitIdx 3 5 r) = [some (0,0), some (1,1), some (2,2), none, none] := by decide
example : (List.range 5).map (fun r => (dataStart 3 5 r, dataEnd 3 5 r)) = [(0,0),(0,0),(0,0),(0,0),(0,3)] := by decide
example : nLs 3 5 = 0 ∧ nLs 10 4 = 3 ∧ nLs 13 12 = 1 := by decide

end ESR.C14
