import ESRVerif.Model.Labeling
import ESRVerif.Props.C01
/-!
C01 — part 2: labelling.  `shape_to_functions` emits exactly the labellings of a shape, parameters renumbered
in order of appearance; counts match what `generate_equations` prints.
-/
namespace ESR.C01
open ESR.Shape ESR.Labeling

/-- `L0` labels the positions of `s` with operators of the right arity class. -/
def IsLabeling (b : Basis) : List Nat → List String → Prop
  | [], [] => True
  | a :: s, l :: L => l ∈ b.cls a ∧ IsLabeling b s L
  | _, _ => False

/-- Specification of the renumbering on a whole prefix-order label list: the k-th nullary `"a"` becomes `a{k}`. -/
def renumberNullary : Nat → List Nat → List String → List String
  | k, a :: s, l :: L =>
    if a = 0 ∧ l = "a" then ("a" ++ toString k) :: renumberNullary (k + 1) s L else l :: renumberNullary k s L
  | _, _, _ => []

/-- The labels sitting at the positions of arity `k`. -/
def rowOf (k : Nat) : List Nat → List String → List String
  | a :: s, l :: L => if a = k then l :: rowOf k s L else rowOf k s L
  | _, _ => []

theorem sum_replicate_nat (n a : Nat) : (List.replicate n a).sum = n * a := by
  induction n with
  | zero => simp
  | succ n ih => rw [List.replicate_succ, List.sum_cons, ih, Nat.succ_mul]; omega

theorem length_product {α} (al : List α) (n : Nat) : (product al n).length = al.length ^ n := by
  induction n with
  | zero => simp [product]
  | succ n ih =>
    simp only [product, List.length_flatMap, List.length_map, ih]
    rw [List.map_const', sum_replicate_nat, Nat.pow_succ, Nat.mul_comm]

theorem countArity_cons (a k : Nat) (s : List Nat) :
    countArity (a :: s) k = (if a = k then 1 else 0) + countArity s k := by
  unfold countArity
  by_cases h : a = k
  · simp [h]; omega
  · simp [h]

/-- Number of trees emitted for one shape. -/
theorem length_shapeToTrees (s : List Nat) (b : Basis) :
    (shapeToTrees s b).length =
      b.b0.length ^ countArity s 0 * b.b1.length ^ countArity s 1 * b.b2.length ^ countArity s 2 := by
  unfold shapeToTrees
  simp only [List.length_flatMap, List.length_map, List.map_const', sum_replicate_nat, length_product,
    Nat.mul_assoc]

/-- "Original number of trees" printed by `generate_equations` is the number of trees it emits. -/
theorem generate_length (n : Nat) (b : Basis) : (generate n b).length = nTrees n b := by
  unfold generate nTrees
  rw [List.length_flatMap]
  congr 1
  apply List.map_congr_left
  intro s _
  exact length_shapeToTrees s b

/-! #### `fill` and rows -/

theorem fill_rowOf (b : Basis) (s : List Nat) (L : List String) (hs : ∀ a ∈ s, a ≤ 2) (hL : IsLabeling b s L) :
    fill s (rowOf 0 s L) (rowOf 1 s L) (rowOf 2 s L) = L := by
  induction s generalizing L with
  | nil => cases L with
    | nil => rfl
    | cons _ _ => simp [IsLabeling] at hL
  | cons a s ih =>
    cases L with
    | nil => simp [IsLabeling] at hL
    | cons l L =>
      have ha : a ≤ 2 := hs a (by simp)
      have ih' := ih L (fun x hx => hs x (by simp [hx])) hL.2
      match a, ha with
      | 0, _ => simp [rowOf, fill, ih']
      | 1, _ => simp [rowOf, fill, ih']
      | 2, _ => simp [rowOf, fill, ih']

theorem rowOf_mem_product (b : Basis) (k : Nat) (s : List Nat) (L : List String) (hL : IsLabeling b s L) :
    rowOf k s L ∈ product (b.cls k) (countArity s k) := by
  induction s generalizing L with
  | nil => cases L with
    | nil => simp [rowOf, countArity, product]
    | cons _ _ => simp [IsLabeling] at hL
  | cons a s ih =>
    cases L with
    | nil => simp [IsLabeling] at hL
    | cons l L =>
      have ih' := ih L hL.2
      rw [countArity_cons]
      by_cases h : a = k
      · subst h
        simp only [rowOf, if_true]
        have : 1 + countArity s a = countArity s a + 1 := by omega
        rw [this]
        simp only [product, List.mem_flatMap, List.mem_map]
        exact ⟨l, hL.1, _, ih', rfl⟩
      · simp only [rowOf, h, if_false, Nat.zero_add]; exact ih'

/-- Filling rows drawn from the three products gives a labelling, whose rows are the given ones. -/
theorem fill_isLabeling (b : Basis) (s : List Nat) (r0 r1 r2 : List String) (hs : ∀ a ∈ s, a ≤ 2)
    (h0 : r0 ∈ product b.b0 (countArity s 0)) (h1 : r1 ∈ product b.b1 (countArity s 1))
    (h2 : r2 ∈ product b.b2 (countArity s 2)) :
    IsLabeling b s (fill s r0 r1 r2) := by
  induction s generalizing r0 r1 r2 with
  | nil => simp [fill, IsLabeling]
  | cons a s ih =>
    have ha : a ≤ 2 := hs a (by simp)
    have hs' : ∀ x ∈ s, x ≤ 2 := fun x hx => hs x (by simp [hx])
    rw [countArity_cons] at h0 h1 h2
    match a, ha with
    | 0, _ =>
      simp only [if_true] at h0
      have e : 1 + countArity s 0 = countArity s 0 + 1 := by omega
      rw [e] at h0
      simp only [product, List.mem_flatMap, List.mem_map] at h0
      obtain ⟨x, hx, t, ht, rfl⟩ := h0
      simp at h1 h2
      exact ⟨hx, ih t r1 r2 hs' ht h1 h2⟩
    | 1, _ =>
      simp only [if_true] at h1
      have e : 1 + countArity s 1 = countArity s 1 + 1 := by omega
      rw [e] at h1
      simp only [product, List.mem_flatMap, List.mem_map] at h1
      obtain ⟨x, hx, t, ht, rfl⟩ := h1
      simp at h0 h2
      exact ⟨hx, ih r0 t r2 hs' h0 ht h2⟩
    | 2, _ =>
      simp only [if_true] at h2
      have e : 1 + countArity s 2 = countArity s 2 + 1 := by omega
      rw [e] at h2
      simp only [product, List.mem_flatMap, List.mem_map] at h2
      obtain ⟨x, hx, t, ht, rfl⟩ := h2
      simp at h0 h1
      exact ⟨hx, ih r0 r1 t hs' h0 h1 ht⟩

/-- Renumbering the nullary row before filling = renumbering the nullary `"a"`s of the filled list in prefix order. -/
theorem fill_renumber (s : List Nat) (r0 r1 r2 : List String) (k : Nat) (hs : ∀ a ∈ s, a ≤ 2)
    (h0 : r0.length = countArity s 0) (h1 : r1.length = countArity s 1) (h2 : r2.length = countArity s 2) :
    fill s (renumberFrom k r0) r1 r2 = renumberNullary k s (fill s r0 r1 r2) := by
  induction s generalizing r0 r1 r2 k with
  | nil => simp [fill, renumberNullary]
  | cons a s ih =>
    have ha : a ≤ 2 := hs a (by simp)
    have hs' : ∀ x ∈ s, x ≤ 2 := fun x hx => hs x (by simp [hx])
    rw [countArity_cons] at h0 h1 h2
    match a, ha with
    | 0, _ =>
      cases r0 with
      | nil => simp at h0; omega
      | cons x r0 =>
        simp at h0 h1 h2
        by_cases hx : x = "a"
        · subst hx
          simp only [renumberFrom, if_true, fill, renumberNullary, and_self]
          rw [ih r0 r1 r2 (k + 1) hs' (by omega) h1 h2]
        · simp only [renumberFrom, hx, if_false, fill, renumberNullary, and_false]
          rw [ih r0 r1 r2 k hs' (by omega) h1 h2]
    | 1, _ =>
      cases r1 with
      | nil => simp at h1; omega
      | cons x r1 =>
        simp at h0 h1 h2
        simp only [fill, renumberNullary, Nat.add_one_ne_zero, false_and, if_false]
        rw [ih r0 r1 r2 k hs' h0 (by omega) h2]
    | 2, _ =>
      cases r2 with
      | nil => simp at h2; omega
      | cons x r2 =>
        simp at h0 h1 h2
        simp only [fill, renumberNullary, Nat.add_one_ne_zero, false_and, if_false]
        rw [ih r0 r1 r2 k hs' h0 h1 (by omega)]

/-- **Labelling.** For a shape `s` (arities ≤ 2), `shape_to_functions` emits exactly the labellings of `s` over the
basis — every one, and nothing else — with nullary `"a"` renamed `a0, a1, …` in order of appearance. -/
theorem mem_shapeToTrees (b : Basis) (s : List Nat) (hs : ∀ a ∈ s, a ≤ 2) (L : List String) :
    L ∈ shapeToTrees s b ↔ ∃ L0, IsLabeling b s L0 ∧ L = renumberNullary 0 s L0 := by
  unfold shapeToTrees
  simp only [List.mem_flatMap, List.mem_map]
  constructor
  · rintro ⟨r0', ⟨r0, hr0, rfl⟩, r1, hr1, r2, hr2, rfl⟩
    refine ⟨fill s r0 r1 r2, fill_isLabeling b s r0 r1 r2 hs hr0 hr1 hr2, ?_⟩
    exact fill_renumber s r0 r1 r2 0 hs ((mem_product _ _ _).mp hr0).1 ((mem_product _ _ _).mp hr1).1
      ((mem_product _ _ _).mp hr2).1
  · rintro ⟨L0, hL0, rfl⟩
    have m0 := rowOf_mem_product b 0 s L0 hL0
    have m1 := rowOf_mem_product b 1 s L0 hL0
    have m2 := rowOf_mem_product b 2 s L0 hL0
    refine ⟨renumberRow (rowOf 0 s L0), ⟨rowOf 0 s L0, m0, rfl⟩, rowOf 1 s L0, m1, rowOf 2 s L0, m2, ?_⟩
    unfold renumberRow
    rw [fill_renumber s _ _ _ 0 hs ((mem_product _ _ _).mp m0).1 ((mem_product _ _ _).mp m1).1
      ((mem_product _ _ _).mp m2).1, fill_rowOf b s L0 hs hL0]

/-- **Enumeration.** A label list is emitted at complexity `n` iff it is the renumbering of a labelling of a
tree shape with `n` nodes. -/
theorem mem_generate (n : Nat) (hn : 1 ≤ n) (b : Basis) (L : List String) :
    L ∈ generate n b ↔ ∃ (t : Tree) (L0 : List String), t.size = n ∧ IsLabeling b t.pre L0 ∧
      L = renumberNullary 0 t.pre L0 := by
  unfold generate
  simp only [List.mem_flatMap]
  constructor
  · rintro ⟨s, hs, hL⟩
    obtain ⟨hl, t, rfl⟩ := (mem_allowedShapes n hn s).mp hs
    obtain ⟨L0, h1, h2⟩ := (mem_shapeToTrees b _ (pre_le_two t) L).mp hL
    exact ⟨t, L0, by rw [← pre_length, hl], h1, h2⟩
  · rintro ⟨t, L0, hsz, h1, h2⟩
    refine ⟨t.pre, (mem_allowedShapes n hn _).mpr ⟨by rw [pre_length, hsz], t, rfl⟩, ?_⟩
    exact (mem_shapeToTrees b _ (pre_le_two t) L).mpr ⟨L0, h1, h2⟩

/-! #### which shapes contribute for a given basis

`generate_equations` loops over **all** shapes of `get_allowed_shapes(n)`, whatever the basis.  The theorems below say
exactly which shapes could be left out without losing a tree: those that use an arity whose class is empty — and
no other.  In particular the arities present in a basis need not be an initial segment of `0,1,2`: a basis without
unary operators still needs every shape built from binary nodes and leaves. -/

/-- every arity that occurs in `s` has at least one operator in `b` -/
def usable (b : Basis) (s : List Nat) : Bool :=
  (countArity s 0 == 0 || !b.b0.isEmpty) && (countArity s 1 == 0 || !b.b1.isEmpty) &&
  (countArity s 2 == 0 || !b.b2.isEmpty)

theorem pow_eq_zero_and (a n : Nat) : a ^ n = 0 ↔ a = 0 ∧ n ≠ 0 := by
  induction n with
  | zero => simp
  | succ n ih => rw [Nat.pow_succ, Nat.mul_eq_zero, ih]; omega

/-- A shape yields no tree iff it uses an arity whose class is empty. -/
theorem shapeToTrees_eq_nil_iff (s : List Nat) (b : Basis) : shapeToTrees s b = [] ↔ usable b s = false := by
  rw [← List.length_eq_zero_iff, length_shapeToTrees, Nat.mul_eq_zero, Nat.mul_eq_zero,
    pow_eq_zero_and, pow_eq_zero_and, pow_eq_zero_and]
  unfold usable
  simp only [List.length_eq_zero_iff, Bool.and_eq_false_iff, Bool.or_eq_false_iff, beq_eq_false_iff_ne,
    Bool.not_eq_false', List.isEmpty_iff, ne_eq]
  constructor
  · rintro ((⟨h, k⟩ | ⟨h, k⟩) | ⟨h, k⟩)
    · exact Or.inl (Or.inl ⟨k, h⟩)
    · exact Or.inl (Or.inr ⟨k, h⟩)
    · exact Or.inr ⟨k, h⟩
  · rintro ((⟨k, h⟩ | ⟨k, h⟩) | ⟨k, h⟩)
    · exact Or.inl (Or.inl ⟨h, k⟩)
    · exact Or.inl (Or.inr ⟨h, k⟩)
    · exact Or.inr ⟨h, k⟩

/-- Restricting the shape loop to the usable shapes changes nothing (same trees, same order) … -/
theorem generate_eq_usable (n : Nat) (b : Basis) :
    generate n b = ((allowedShapes n).filter (usable b)).flatMap fun s => shapeToTrees s b := by
  unfold generate
  induction allowedShapes n with
  | nil => rfl
  | cons s l ih =>
    by_cases h : usable b s = true
    · simp only [List.flatMap_cons, List.filter_cons_of_pos h, ih]
    · have h' : usable b s = false := by simpa using h
      simp only [List.flatMap_cons, List.filter_cons_of_neg h, ih, (shapeToTrees_eq_nil_iff s b).mpr h',
        List.nil_append]

/-- … and every usable shape is needed: leaving one out loses a tree of that shape. -/
theorem usable_shape_needed (n : Nat) (b : Basis) (s : List Nat) (hs : s ∈ allowedShapes n)
    (hu : usable b s = true) : ∃ L ∈ generate n b, L ∈ shapeToTrees s b := by
  have hne : shapeToTrees s b ≠ [] := fun h => by
    have := (shapeToTrees_eq_nil_iff s b).mp h; rw [hu] at this; cases this
  obtain ⟨L, hL⟩ := List.exists_mem_of_ne_nil _ hne
  exact ⟨L, List.mem_flatMap.mpr ⟨s, hs, hL⟩, hL⟩

/-- A shape without unary nodes is usable for every basis that has leaves and binary operators — whether or not it
has unary operators (the arities present need not be the lowest ones). -/
theorem usable_of_no_unary (b : Basis) (s : List Nat) (h1 : countArity s 1 = 0) (h0 : b.b0 ≠ []) (h2 : b.b2 ≠ []) :
    usable b s = true := by
  unfold usable
  simp [h1, h0, h2]

/-! non-vacuity -/
example : shapeToTrees [2, 1, 0, 0] ⟨["x", "a"], ["inv"], ["+"]⟩ =
    [["+","inv","x","x"], ["+","inv","x","a0"], ["+","inv","a0","x"], ["+","inv","a0","a1"]] := by decide
example : IsLabeling ⟨["x", "a"], ["inv"], ["+"]⟩ [2, 1, 0, 0] ["+", "inv", "a", "a"] := by
  simp [IsLabeling, Basis.cls]
example : (generate 3 ⟨["x", "a"], ["inv"], ["+", "*"]⟩).length = 10 := by decide
-- a basis with an empty unary class: the binary shapes carry all trees (8 at n = 3, 64 at n = 5, none at even n)
example : generate 3 ⟨["x"], [], ["+", "*"]⟩ = [["+", "x", "x"], ["*", "x", "x"]] := by decide
example : (generate 3 ⟨["x", "a"], [], ["+", "*"]⟩).length = 8 := by decide
example : (generate 5 ⟨["x", "a"], [], ["+", "*"]⟩).length = 64 ∧ (generate 4 ⟨["x", "a"], [], ["+", "*"]⟩).length = 0 := by
  rw [generate_length, generate_length]; decide
example : usable ⟨["x", "a"], [], ["+", "*"]⟩ [2, 0, 0] = true ∧ usable ⟨["x", "a"], [], ["+", "*"]⟩ [1, 1, 0] = false := by decide
example : (generate 4 ⟨["x", "a"], ["inv", "exp"], []⟩).length = 16 := by rw [generate_length]; decide

end ESR.C01
