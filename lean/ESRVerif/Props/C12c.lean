import ESRVerif.Model.Printer
import ESRVerif.Model.PrinterState
import ESRVerif.Generated.PrinterState
/-!
C12 (second sentence) — "Printing is a pure function of the expression: the same expression always prints to the same
string", for the printer OBJECT as ESR uses it: one `ESRPrinter` per simplifier stage, prints that can be abandoned by
the stage's time limit, and then more prints with the same object.

`C12.print_pure` holds because the model `print` is a Lean `def`.  Here the statelessness of the REAL printer is an
obligation about the regenerated table of state cells (`Generated/PrinterState.lean`, from
`harness/extractors/printerstate.py`):

* `printer_has_no_print_time_state` — `decide` over the whole table: no cell of custom_printer.py is written while
  printing, and the only cell sympy's `Printer` base class writes while printing is `_print_level`, bracketed by
  `+= 1` / `try … finally: -= 1`, i.e. restored on every way out of a print, an exception included (`_context`, the other
  cell sympy documents as "mutable during printing", is allowed on the same condition; today nothing writes it);
* `print_history_independent` — for a printer whose state is the content of the print-time cells: if there is no such
  cell, then after EVERY history of completed and interrupted prints a print of `e` returns what a fresh printer returns;
* `real_printer_history_independent` — the two together, for the cells of the current source and the model `print`;
* `stale_cache_needed` — the hypothesis cannot be dropped: the printer with a fill-in-place cache for sums (seed C12d)
  agrees with a fresh printer on every first print, and has a 2-step history (print of `a0*a1 + a0*x**2 + a1*x + x**3`
  interrupted after its first term, then a completed print of it) that returns `a0*a1`.

Tie to the code: the table is regenerated on every run; when the translator finds a print-time cell it refuses
(ExtractError) and the check falls back on the committed table + the HISTORY correspondence of `harness/props/c12.py`
(real long-lived printers, genuine `TimeoutException`s delivered at every statement site of custom_printer.py reached,
every completed print compared with a fresh printer, with the Lean `print`, and read back numerically).
-/
namespace ESR.C12c
open ESR.PrinterState ESR.Gen.PrinterState

/-- the cells sympy's own `Printer` base class may write while printing, provided it restores them in a `finally`:
`_print_level` (recursion depth: `self._print_level += 1; try: … finally: self._print_level -= 1` in `Printer._print`;
back to its value on every exit of `_print`, so 0 between two `doprint` calls) and `_context` (documented "mutable during
printing"; printers that use it save and restore it around a sub-print; `ESRPrinter` and the installed `Printer` never
write it). -/
def sympyOwned : List String := ["_print_level", "_context"]

/-- all cells: those of custom_printer.py and those of the base class -/
def allCells : List Cell := cells ++ baseCells

/-- **The real printer has no print-time state.**  Over the regenerated table: (1) no cell of custom_printer.py is
written by any method other than `__init__`; (2) a base-class cell written while printing is one of `sympyOwned` and is
restored in a `finally`; hence (3) no cell can differ after a print from what it was before. -/
theorem printer_has_no_print_time_state :
    (cells.all fun c => !c.writtenInPrint) = true ∧
    (baseCells.all fun c => !c.writtenInPrint || (sympyOwned.contains c.name && c.restoredInFinally)) = true ∧
    printTimeCells allCells = [] := by
  decide

/-- the table is not empty and the base class does write a cell while printing: (2) above is not vacuous -/
example : cells.length ≥ 3 ∧ (baseCells.filter (·.writtenInPrint)).map (·.name) = ["_print_level"] := by decide

/-- with no cell, all states are the same state -/
theorem store_unique {V : Type} {cs : List Cell} (h : cs = []) (s s' : Store cs V) : s = s' := by
  subst h
  funext c hc
  cases hc

/-- a printer without print-time cells is in its initial state after every history (induction over the history) -/
theorem run_fixed {ε V : Type} (cs : List Cell) (hcs : printTimeCells cs = [])
    (p : Printer ε V (printTimeCells cs)) (s0 : Store (printTimeCells cs) V) (h : List (Op ε)) :
    p.run s0 h = s0 := by
  induction h generalizing s0 with
  | nil => rfl
  | cons o os ih =>
    show p.run (p.step s0 o).1 os = s0
    rw [ih (p.step s0 o).1]
    exact store_unique hcs _ _

/-- **History independence.**  A printer whose state is the content of the print-time cells of `cs`, and which, fresh,
prints `e` as `pr e`: if `cs` has no print-time cell, then after every history — any length, any mixture of completed
prints and prints interrupted at any site — a print of `e` returns `pr e`. -/
theorem print_history_independent {ε V : Type} (cs : List Cell) (hcs : printTimeCells cs = [])
    (p : Printer ε V (printTimeCells cs)) (s0 : Store (printTimeCells cs) V) (pr : ε → String)
    (fresh : ∀ e, p.printAfter s0 [] e = some (pr e)) :
    ∀ (h : List (Op ε)) (e : ε), p.printAfter s0 h e = some (pr e) := by
  intro h e
  have := fresh e
  unfold Printer.printAfter at *
  rw [run_fixed cs hcs p s0 h]
  exact this

/-- the same for the cells of the current source and the model printer of `Model/Printer.lean`: whatever the real
printer does with its cells, as long as a fresh one prints `print e`, so does a used one -/
theorem real_printer_history_independent {V : Type}
    (p : Printer ESR.Printer.SExpr V (printTimeCells allCells)) (s0 : Store (printTimeCells allCells) V)
    (fresh : ∀ e, p.printAfter s0 [] e = some (ESR.Printer.print e)) (h : List (Op ESR.Printer.SExpr)) (e : ESR.Printer.SExpr) :
    p.printAfter s0 h e = some (ESR.Printer.print e) :=
  print_history_independent allCells printer_has_no_print_time_state.2.2 p s0 ESR.Printer.print fresh h e

/-- the hypotheses are satisfiable: the stateless printer that prints `print e` and returns nothing when interrupted,
after a history with an interruption -/
example : (⟨fun s o => (s, match o with | .print e => some (ESR.Printer.print e) | .interrupted _ _ => none)⟩ :
      Printer ESR.Printer.SExpr Unit (printTimeCells allCells)).printAfter (fun _ _ => ())
      [.interrupted (.sym "x") 3, .print (.sym "a0")] (.add [.sym "x", .sym "a0"]) =
    some (ESR.Printer.print (.add [.sym "x", .sym "a0"])) :=
  real_printer_history_independent _ _ (fun _ => rfl) _ _

/-- the sum of seed C12d's demonstration, as printed terms -/
def bigSum : List String := ["a0*a1", "a0*x**2", "a1*x", "x**3"]

/-- a fresh cache printer prints every sum in full -/
theorem cachePrinter_fresh (e : List String) : cachePrinter.printAfter emptyCache [] e = some (joinPlus e) := by
  simp [Printer.printAfter, Printer.run, cachePrinter, emptyCache, cachedAdd, Cache.find]

/-- **The no-print-time-cell hypothesis is needed.**  The printer with a fill-in-place cache for sums has exactly one
print-time cell (`_sums`), agrees with `joinPlus` whenever it is fresh, prints `bigSum` correctly any number of times
when never interrupted — and after the 2-step history "print of `bigSum` interrupted after one term; print of `bigSum`"
returns the truncated sum `a0*a1` (seed C12d). -/
theorem stale_cache_needed :
    printTimeCells [sumsCell] = [sumsCell] ∧
    (∀ e, cachePrinter.printAfter emptyCache [] e = some (joinPlus e)) ∧
    cachePrinter.printAfter emptyCache [.print bigSum, .print bigSum] bigSum = some "a0*a1 + a0*x**2 + a1*x + x**3" ∧
    cachePrinter.printAfter emptyCache [.interrupted bigSum 1] bigSum = some "a0*a1" ∧
    cachePrinter.printAfter emptyCache [.interrupted bigSum 1] bigSum ≠ some (joinPlus bigSum) := by
  refine ⟨by decide, cachePrinter_fresh, by decide, by decide, by decide⟩

end ESR.C12c
