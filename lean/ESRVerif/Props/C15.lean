import ESRVerif.Model.Fault
import ESRVerif.Generated.Fault
/-!
C15 — a timed-out simplification step is skipped cleanly.
-/
namespace ESR.C15
open ESR.Fault

variable {S Y C : Type}

/-- Wherever the timeout strikes, the handler leaves the function's string and sympy object as they were
when the block was entered. -/
theorem fault_restores (t : Tri S Y C) (effs : List (Eff S Y C)) (k : Nat) :
    (runBlock t effs (some k)).str = t.str ∧ (runBlock t effs (some k)).sym = t.sym := by
  simp [runBlock, handler]

/-- **Nothing is committed for an interrupted function.** If the function had no uncommitted change when the
block was entered (its string equals the committed one), then after a timeout at ANY point of the block
`make_changes` leaves the committed triple untouched — whatever the interrupted statements did to the pending chain. -/
theorem fault_commits_nothing [DecidableEq S] (glob t : Tri S Y C) (effs : List (Eff S Y C)) (k : Nat)
    (hclean : t.str = glob.str) : commit glob (runBlock t effs (some k)) = glob := by
  unfold commit
  have := (fault_restores t effs k).1
  simp [this, hclean]

/-- With an uncommitted change pending from an earlier block of the same call, a timeout commits the triple as it
was when the interrupted block was entered, except for the pending chain, which may carry the entries appended
before the interruption (the handlers do not restore it).  Named partial: soundness of that chain is not implied
by this theorem; in the code as it stands the only earlier block recording entries before the first `make_changes`
records the unrecoverable marker, for which soundness only needs "fewer parameters". -/
theorem fault_pending_commit_partial [DecidableEq S] (glob t : Tri S Y C) (effs : List (Eff S Y C)) (k : Nat)
    (hpend : t.str ≠ glob.str) :
    (commit glob (runBlock t effs (some k))).str = t.str ∧ (commit glob (runBlock t effs (some k))).sym = t.sym := by
  unfold commit
  have h := fault_restores t effs k
  simp [h.1, h.2, hpend]

/-- A block that is not interrupted commits exactly its result when the string changed, and nothing otherwise. -/
theorem nofault_commit [DecidableEq S] (glob t : Tri S Y C) (effs : List (Eff S Y C)) :
    commit glob (runBlock t effs none) =
      if (runPrefix t effs effs.length).str ≠ glob.str then runPrefix t effs effs.length else glob := rfl

/-- **Any schedule of faults preserves an invariant of the committed library.** For a sequence of blocks on one
function, each possibly interrupted, each followed by a commit, every committed triple is either the previous one or
the complete result of an uninterrupted prefix; so an invariant `Sound` that uninterrupted steps preserve is
preserved by every fault schedule, provided interrupted blocks start clean (true for every block that is followed
by a commit before the next block: see `fault_pending_commit_partial` for the remaining case). -/
theorem fault_schedule_sound [DecidableEq S] (Sound : Tri S Y C → Prop)
    (blocks : List (List (Eff S Y C) × Option Nat)) (glob : Tri S Y C) (hs : Sound glob)
    (hstep : ∀ g effs, Sound g → Sound (commit g (runBlock g effs none))) :
    Sound (blocks.foldl (fun g b => commit g (runBlock g b.1 b.2)) glob) := by
  induction blocks generalizing glob with
  | nil => exact hs
  | cons b bs ih =>
    apply ih
    cases hb : b.2 with
    | none => simpa [hb] using hstep glob b.1 hs
    | some k =>
      show Sound (commit glob (runBlock glob b.1 b.2))
      rw [hb, fault_commits_nothing glob glob b.1 k rfl]; exact hs

/-! ### shared result lists stay aligned -/

/-- Cutting the three lists back to their common length undoes a partly recorded triple: if the lists were aligned
before, then after an interruption between the appends they are again the lists before the record;
after a complete record they hold it. -/
theorem truncate_realigns {α β γ} (l1 : List α) (l2 : List β) (l3 : List γ) (a : α) (b : β) (c : γ)
    (h12 : l1.length = l2.length) (h23 : l2.length = l3.length) (k : Nat) :
    truncate3 (append3 l1 l2 l3 a b c k) =
      if k ≥ 3 then (l1 ++ [a], l2 ++ [b], l3 ++ [c]) else (l1, l2, l3) := by
  unfold truncate3 append3
  have t1 : l1.take l1.length = l1 := List.take_length
  have t2 : l2.take l1.length = l2 := by rw [h12]; exact List.take_length
  have t3 : l3.take l1.length = l3 := by rw [h12, h23]; exact List.take_length
  have a1 : (l1 ++ [a]).take l1.length = l1 := by simp
  have a2 : (l2 ++ [b]).take l1.length = l2 := by rw [h12]; simp
  have f1 : (l1 ++ [a]).take (l1.length + 1) = l1 ++ [a] := by
    have := List.take_length (l := l1 ++ [a]); simpa using this
  have f2 : (l2 ++ [b]).take (l1.length + 1) = l2 ++ [b] := by
    have := List.take_length (l := l2 ++ [b]); rw [h12]; simpa using this
  have f3 : (l3 ++ [c]).take (l1.length + 1) = l3 ++ [c] := by
    have := List.take_length (l := l3 ++ [c]); rw [h12, h23]; simpa using this
  rcases Nat.lt_or_ge k 1 with h | h
  · have c1 : ¬ k ≥ 1 := by omega
    have c2 : ¬ k ≥ 2 := by omega
    have c3 : ¬ k ≥ 3 := by omega
    simp only [c1, c2, c3, if_false]
    have hm : min l1.length (min l2.length l3.length) = l1.length := by omega
    rw [hm, t1, t2, t3]
  · rcases Nat.lt_or_ge k 2 with h2 | h2
    · have c2 : ¬ k ≥ 2 := by omega
      have c3 : ¬ k ≥ 3 := by omega
      simp only [h, c2, c3, if_true, if_false, List.length_append, List.length_singleton]
      have hm : min (l1.length + 1) (min l2.length l3.length) = l1.length := by omega
      rw [hm, a1, t2, t3]
    · rcases Nat.lt_or_ge k 3 with h3 | h3
      · have c3 : ¬ k ≥ 3 := by omega
        simp only [h, h2, c3, if_true, if_false, List.length_append, List.length_singleton]
        have hm : min (l1.length + 1) (min (l2.length + 1) l3.length) = l1.length := by omega
        rw [hm, a1, a2, t3]
      · simp only [h, h2, h3, if_true, List.length_append, List.length_singleton]
        have hm : min (l1.length + 1) (min (l2.length + 1) (l3.length + 1)) = l1.length + 1 := by omega
        rw [hm, f1, f2, f3]

/-! ### the blocks as regenerated from today's source -/
open ESR.Gen.Fault

/-- every time-limited block sits in a `try` whose handler takes the timeout -/
theorem every_block_catches_timeout : blocks.all (fun b => b.catchesTimeout) = true := by decide +kernel

/-- no handler between the raise and the restoring handler can intercept `TimeoutException` -/
theorem inner_handler_transparent : blocks.all (fun b => b.interceptors.isEmpty) = true := by decide +kernel

/-- the string and the sympy object are restored (from values saved right before the `try`) in every block that
assigns them — the hypothesis of `fault_restores` -/
theorem str_sym_restored :
    blocks.all (fun b => ["str_fun", "sym_fun"].all (fun v =>
      !b.mutates.contains v || (b.restores.contains v && b.savedBefore.contains v))) = true := by decide +kernel

/-- the only per-function state a handler leaves modified is the pending chain, which `commit` ignores unless the
string changed -/
theorem only_chain_unrestored :
    blocks.all (fun b => b.mutates.all (fun v => b.restores.contains v || v == "inv_subs_fun")) = true := by
  decide +kernel

/-- every list of every multi-list append group is cut back by the block's handler — the hypothesis of
`truncate_realigns` -/
theorem append_groups_truncated :
    blocks.all (fun b => b.appendGroups.all (fun g => g.all (fun l => b.truncates.contains l))) = true := by
  decide +kernel

/-- apart from putting back what it saved and cutting the shared lists back to their common length, no handler changes
(or may change, under some condition) the per-function state or a shared result list — the model's `handler` touches
only `str` and `sym`, and `truncate3` only shortens -/
theorem handler_changes_nothing_else : blocks.all (fun b => b.handlerMutates.isEmpty) = true := by decide +kernel

/-! ### non-vacuity -/
example : blocks.length = 7 := by decide
example : (runBlock (⟨"2*a0*x", 0, []⟩ : Tri String Nat (List String))
      [.setSym 1, .updInv (· ++ ["{a0: a0/2}"]), .setStr "a0*x"] (some 2)) = ⟨"2*a0*x", 0, ["{a0: a0/2}"]⟩ := by
  simp [runBlock, runPrefix, handler, applyEff]
example : commit (⟨"2*a0*x", 0, []⟩ : Tri String Nat (List String))
    (runBlock ⟨"2*a0*x", 0, []⟩ [.setSym 1, .updInv (· ++ ["{a0: a0/2}"]), .setStr "a0*x"] (some 2))
      = ⟨"2*a0*x", 0, []⟩ := fault_commits_nothing _ _ _ _ rfl
example : truncate3 (append3 [1, 2] ["a", "b"] [true, false] 3 "c" true 2) = ([1, 2], ["a", "b"], [true, false]) := by
  decide

end ESR.C15
