import ESRVerif.Model.Fault
import ESRVerif.Generated.Fault
/-!
C15 — a timed-out simplification step is skipped cleanly.
-/
namespace ESR.C15
open ESR.Fault

variable {S Y C : Type}

/-- Wherever the timeout strikes, the handler leaves the function's string and sympy object as they were
when the block was entered. -/
theorem fault_restores (t : Tri S Y C) (effs : List (Eff S Y C)) (k : Nat) :
    (runBlock t effs (some k)).str = t.str ∧ (runBlock t effs (some k)).sym = t.sym := by
  simp [runBlock, handler]

/-- **Nothing is committed for an interrupted function.** If the function had no uncommitted change when the
block was entered (its string equals the committed one), then after a timeout at ANY point of the block
`make_changes` leaves the committed triple untouched — whatever the interrupted statements did to the pending chain. -/
theorem fault_commits_nothing [DecidableEq S] (glob t : Tri S Y C) (effs : List (Eff S Y C)) (k : Nat)
    (hclean : t.str = glob.str) : commit glob (runBlock t effs (some k)) = glob := by
  unfold commit
  have := (fault_restores t effs k).1
  simp [this, hclean]

/-- With an uncommitted change pending from an earlier block of the same call, a timeout commits the triple as it
was when the interrupted block was entered, except for the pending chain, which may carry the entries appended
before the interruption (the handlers do not restore it).  Named partial: soundness of that chain is not implied
by this theorem; in the code as it stands the only earlier block recording entries before the first `make_changes`
records the unrecoverable marker, for which soundness only needs "fewer parameters". -/
theorem fault_pending_commit_partial [DecidableEq S] (glob t : Tri S Y C) (effs : List (Eff S Y C)) (k : Nat)
    (hpend : t.str ≠ glob.str) :
    (commit glob (runBlock t effs (some k))).str = t.str ∧ (commit glob (runBlock t effs (some k))).sym = t.sym := by
  unfold commit
  have h := fault_restores t effs k
  simp [h.1, h.2, hpend]

/-- A block that is not interrupted commits exactly its result when the string changed, and nothing otherwise. -/
theorem nofault_commit [DecidableEq S] (glob t : Tri S Y C) (effs : List (Eff S Y C)) :
    commit glob (runBlock t effs none) =
      if (runPrefix t effs effs.length).str ≠ glob.str then runPrefix t effs effs.length else glob := rfl

/-- **Any schedule of faults preserves an invariant of the committed library.** For a sequence of blocks on one
function, each possibly interrupted, each followed by a commit, every committed triple is either the previous one or
the complete result of an uninterrupted prefix; so an invariant `Sound` that uninterrupted steps preserve is
preserved by every fault schedule, provided interrupted blocks start clean (true for every block that is followed
by a commit before the next block: see `fault_pending_commit_partial` for the remaining case). -/
theorem fault_schedule_sound [DecidableEq S] (Sound : Tri S Y C → Prop)
    (blocks : List (List (Eff S Y C) × Option Nat)) (glob : Tri S Y C) (hs : Sound glob)
    (hstep : ∀ g effs, Sound g → Sound (commit g (runBlock g effs none))) :
    Sound (blocks.foldl (fun g b => commit g (runBlock g b.1 b.2)) glob) := by
  induction blocks generalizing glob with
  | nil => exact hs
  | cons b bs ih =>
    apply ih
    cases hb : b.2 with
    | none => simpa [hb] using hstep glob b.1 hs
    | some k =>
      show Sound (commit glob (runBlock glob b.1 b.2))
      rw [hb, fault_commits_nothing glob glob b.1 k rfl]; exact hs

/-! ### shared result lists stay aligned -/

/-- Cutting the three lists back to their common length undoes a partly recorded triple: if the lists were aligned
before, then after an interruption between the appends they are again the lists before the record;
after a complete record they hold it. -/
theorem truncate_realigns {α β γ} (l1 : List α) (l2 : List β) (l3 : List γ) (a : α) (b : β) (c : γ)
    (h12 : l1.length = l2.length) (h23 : l2.length = l3.length) (k : Nat) :
    truncate3 (append3 l1 l2 l3 a b c k) =
      if k ≥ 3 then (l1 ++ [a], l2 ++ [b], l3 ++ [c]) else (l1, l2, l3) := by
  unfold truncate3 append3
  have t1 : l1.take l1.length = l1 := List.take_length
  have t2 : l2.take l1.length = l2 := by rw [h12]; exact List.take_length
  have t3 : l3.take l1.length = l3 := by rw [h12, h23]; exact List.take_length
  have a1 : (l1 ++ [a]).take l1.length = l1 := by simp
  have a2 : (l2 ++ [b]).take l1.length = l2 := by rw [h12]; simp
  have f1 : (l1 ++ [a]).take (l1.length + 1) = l1 ++ [a] := by
    have := List.take_length (l := l1 ++ [a]); simpa using this
  have f2 : (l2 ++ [b]).take (l1.length + 1) = l2 ++ [b] := by
    have := List.take_length (l := l2 ++ [b]); rw [h12]; simpa using this
  have f3 : (l3 ++ [c]).take (l1.length + 1) = l3 ++ [c] := by
    have := List.take_length (l := l3 ++ [c]); rw [h12, h23]; simpa using this
  rcases Nat.lt_or_ge k 1 with h | h
  · have c1 : ¬ k ≥ 1 := by omega
    have c2 : ¬ k ≥ 2 := by omega
    have c3 : ¬ k ≥ 3 := by omega
    simp only [c1, c2, c3, if_false]
    have hm : min l1.length (min l2.length l3.length) = l1.length := by omega
    rw [hm, t1, t2, t3]
  · rcases Nat.lt_or_ge k 2 with h2 | h2
    · have c2 : ¬ k ≥ 2 := by omega
      have c3 : ¬ k ≥ 3 := by omega
      simp only [h, c2, c3, if_true, if_false, List.length_append, List.length_singleton]
      have hm : min (l1.length + 1) (min l2.length l3.length) = l1.length := by omega
      rw [hm, a1, t2, t3]
    · rcases Nat.lt_or_ge k 3 with h3 | h3
      · have c3 : ¬ k ≥ 3 := by omega
        simp only [h, h2, c3, if_true, if_false, List.length_append, List.length_singleton]
        have hm : min (l1.length + 1) (min (l2.length + 1) l3.length) = l1.length := by omega
        rw [hm, a1, a2, t3]
      · simp only [h, h2, h3, if_true, List.length_append, List.length_singleton]
        have hm : min (l1.length + 1) (min (l2.length + 1) (l3.length + 1)) = l1.length + 1 := by omega
        rw [hm, f1, f2, f3]

/-! ### the blocks as regenerated from today's source -/
open ESR.Gen.Fault

/-- every time-limited block sits in a `try` whose handler takes the timeout -/
theorem every_block_catches_timeout : blocks.all (fun b => b.catchesTimeout) = true := by decide +kernel

/-- no handler between the raise and the restoring handler can intercept `TimeoutException` -/
theorem inner_handler_transparent : blocks.all (fun b => b.interceptors.isEmpty) = true := by decide +kernel

/-- the string and the sympy object are restored (from values saved right before the `try`) in every block that
assigns them — the hypothesis of `fault_restores` -/
theorem str_sym_restored :
    blocks.all (fun b => ["str_fun", "sym_fun"].all (fun v =>
      !b.mutates.contains v || (b.restores.contains v && b.savedBefore.contains v))) = true := by decide +kernel

/-- the only per-function state a handler leaves modified is the pending chain, which `commit` ignores unless the
string changed -/
theorem only_chain_unrestored :
    blocks.all (fun b => b.mutates.all (fun v => b.restores.contains v || v == "inv_subs_fun")) = true := by
  decide +kernel

/-- every list of every multi-list append group is cut back by the block's handler — the hypothesis of
`truncate_realigns` -/
theorem append_groups_truncated :
    blocks.all (fun b => b.appendGroups.all (fun g => g.all (fun l => b.truncates.contains l))) = true := by
  decide +kernel

/-- apart from putting back what it saved and cutting the shared lists back to their common length, no handler changes
(or may change, under some condition) the per-function state or a shared result list — the model's `handler` touches
only `str` and `sym`, and `truncate3` only shortens -/
theorem handler_changes_nothing_else : blocks.all (fun b => b.handlerMutates.isEmpty) = true := by decide +kernel

/-- **`check_results` as read from today's source is the verifier the schedule theorem needs**: every recorded entry is parsed
inside the time-limited `try`, the handler that takes the parse error puts the function on `to_change`, and the only way a function
is not checked is the parameter-count test — in particular no skip on rows carrying the marker. -/
theorem check_results_shape :
    verifier = ⟨true, true, ["to_change"], ["all_nparam[i] != uniq_nparam[matches[i]]"]⟩ := by decide

/-- whether the regenerated `check_results` skips rows for any reason other than the parameter count -/
def skipOnNanToday : Bool := !(verifier.skips == ["all_nparam[i] != uniq_nparam[matches[i]]"] && verifier.parseInsideTry
  && verifier.handlerTakesParseError && verifier.handlerAppends == ["to_change"])

/-! ### stale records, later commits, and the verifier -/
section verifier
variable {M : Type}

/-- the stale-record state: a block interrupted after its in-place append leaves `chain₀ ++ [nan]` with the string and the
sympy object of the entry state -/
theorem fault_leaves_stale_record (t : Tri S Y (List (Ent M))) (y : Y) (s : S) :
    runBlock t [.setSym y, .updInv (· ++ [Ent.nan]), .setStr s] (some 2) = ⟨t.str, t.sym, t.inv ++ [Ent.nan]⟩ := by
  simp [runBlock, runPrefix, handler, applyEff]

/-- the model of `check_results` un-merges every row with an unjustified marker, provided it has no skip on the marker -/
theorem checkRow_covers (np : S → Nat) (n0 : Nat) (subsOk : Tri S Y (List (Ent M)) → Bool) (t : Tri S Y (List (Ent M)))
    (h : nanUnjustified np n0 t = true) : checkRow np n0 subsOk false t = true := by
  simp only [nanUnjustified, Bool.and_eq_true, beq_iff_eq] at h
  simp [checkRow, h.1, h.2]

/-- ... which is the case for `check_results` as regenerated from today's source -/
theorem checkRow_today_covers (np : S → Nat) (n0 : Nat) (subsOk : Tri S Y (List (Ent M)) → Bool) (t : Tri S Y (List (Ent M)))
    (h : nanUnjustified np n0 t = true) : checkRow np n0 subsOk skipOnNanToday t = true := by
  have : skipOnNanToday = false := by decide
  rw [this]; exact checkRow_covers np n0 subsOk t h

theorem flagged_commit [DecidableEq S] (np : S → Nat) (n0 : Nat) (Exact : Tri S Y (List (Ent M)) → Prop)
    (g l : Tri S Y (List (Ent M))) (hg : Flagged np n0 Exact g) (hl : Flagged np n0 Exact l) :
    Flagged np n0 Exact (commit g l) := by
  unfold commit; split <;> assumption

theorem flagged_runCall [DecidableEq S] (np : S → Nat) (n0 : Nat) (Exact : Tri S Y (List (Ent M)) → Prop)
    (Steps : List (Eff S Y (List (Ent M))) → Prop) (hs : StepSound np n0 Exact Steps)
    (g : Tri S Y (List (Ent M))) (bs : List (List (Eff S Y (List (Ent M))) × Option Nat))
    (hb : ∀ b ∈ bs, Steps b.1) (hg : Flagged np n0 Exact g) : Flagged np n0 Exact (runCall g bs) := by
  unfold runCall
  apply flagged_commit _ _ _ _ _ hg
  suffices h : ∀ (t : Tri S Y (List (Ent M))), Flagged np n0 Exact t →
      Flagged np n0 Exact (bs.foldl (fun t b => runBlock t b.1 b.2) t) from h g hg
  induction bs with
  | nil => intro t ht; exact ht
  | cons b bs ih =>
    intro t ht
    simp only [List.foldl_cons]
    apply ih (fun b' hb' => hb b' (List.mem_cons_of_mem _ hb'))
    have hS := hb b (List.mem_cons_self ..)
    cases hf : b.2 with
    | none => exact hs.complete t b.1 hS ht
    | some k => exact hs.interrupted t b.1 k hS ht

/-- **Any schedule of faults, with the verifier, ends in a sound row.**  For EVERY schedule — any number of calls, any number of
blocks per call, any of them interrupted at any point, in particular the same block at the same point in every round — if the CAS
steps are `StepSound` and the verifier un-merges at least the rows whose published chain carries a marker not justified by a
parameter loss (`nanUnjustified`, a decidable predicate of the published triple), then the final row satisfies the C03 invariant. -/
theorem fault_schedule_sound_with_verifier [DecidableEq S] (np : S → Nat) (n0 : Nat) (Exact : Tri S Y (List (Ent M)) → Prop)
    (Steps : List (Eff S Y (List (Ent M))) → Prop) (hs : StepSound np n0 Exact Steps)
    (V : Tri S Y (List (Ent M)) → Bool) (hV : ∀ t, nanUnjustified np n0 t = true → V t = true)
    (orig : Tri S Y (List (Ent M))) (hid : Exact ⟨orig.str, orig.sym, []⟩)
    (calls : List (List (List (Eff S Y (List (Ent M))) × Option Nat)))
    (hc : ∀ c ∈ calls, ∀ b ∈ c, Steps b.1) (glob : Tri S Y (List (Ent M))) (hg : Flagged np n0 Exact glob) :
    C03Row np n0 Exact (verify V orig (runSchedule glob calls)) := by
  have hfin : Flagged np n0 Exact (runSchedule glob calls) := by
    unfold runSchedule
    induction calls generalizing glob with
    | nil => exact hg
    | cons c cs ih =>
      simp only [List.foldl_cons]
      exact ih (fun c' hc' => hc c' (List.mem_cons_of_mem _ hc')) _
        (flagged_runCall np n0 Exact Steps hs glob c (hc c (List.mem_cons_self ..)) hg)
  generalize runSchedule glob calls = t at hfin
  unfold verify
  by_cases hv : V t = true
  · simp [hv, C03Row, hasNan, hid]
  · rw [if_neg hv]
    unfold C03Row
    by_cases hnan : hasNan t.inv = true
    · rw [if_pos hnan]
      have hne : ¬ np t.str = n0 := by
        intro he
        have : nanUnjustified np n0 t = true := by simp [nanUnjustified, hnan, he]
        exact hv (hV t this)
      have := hfin.1
      omega
    · rw [if_neg hnan]
      rcases hfin.2 with h | h
      · exact absurd h hnan
      · exact h

/-- the theorem instantiated with the model of today's `check_results` -/
theorem fault_schedule_sound_check_results [DecidableEq S] (np : S → Nat) (n0 : Nat) (Exact : Tri S Y (List (Ent M)) → Prop)
    (Steps : List (Eff S Y (List (Ent M))) → Prop) (hs : StepSound np n0 Exact Steps)
    (subsOk : Tri S Y (List (Ent M)) → Bool)
    (orig : Tri S Y (List (Ent M))) (hid : Exact ⟨orig.str, orig.sym, []⟩)
    (calls : List (List (List (Eff S Y (List (Ent M))) × Option Nat)))
    (hc : ∀ c ∈ calls, ∀ b ∈ c, Steps b.1) (glob : Tri S Y (List (Ent M))) (hg : Flagged np n0 Exact glob) :
    C03Row np n0 Exact (verify (checkRow np n0 subsOk skipOnNanToday) orig (runSchedule glob calls)) :=
  fault_schedule_sound_with_verifier np n0 Exact Steps hs _ (checkRow_today_covers np n0 subsOk) orig hid
    calls hc glob hg

end verifier

/-! the seed's schedule: 'a0 - a1' times out in the pair-substitution block after the marker was appended, the constant-multiple
block then rewrites it to 'a0 + a1' without losing a parameter -/
def np2 (s : String) : Nat := if s = "a0 - a1" ∨ s = "a0 + a1" then 2 else 1
def seedCall : List (List (Eff String Nat (List (Ent String))) × Option Nat) :=
  [([.setSym 1, .updInv (· ++ [Ent.nan]), .setStr "a0"], some 2),
   ([.setSym 2, .updInv (· ++ [Ent.map "{a1: -a1}"]), .setStr "a0 + a1"], none)]
def seedGlob : Tri String Nat (List (Ent String)) := ⟨"a0 - a1", 0, []⟩

theorem seed_publishes : runSchedule seedGlob [seedCall] = ⟨"a0 + a1", 2, [Ent.nan, Ent.map "{a1: -a1}"]⟩ := by
  simp [runSchedule, runCall, seedCall, seedGlob, runBlock, runPrefix, handler, applyEff, commit]

/-- **The verifier clause is needed.**  Without it (a verifier that un-merges nothing — or, like the model of a `check_results`
with a skip on the marker, nothing that carries the marker) there is a 2-step schedule whose steps are `StepSound` (even with
the most generous `Exact`), starting from a sound row, that ends in a published row violating the C03 invariant: the marker with a
match of the same number of parameters. -/
theorem verifier_needed :
    ∃ (calls : List (List (List (Eff String Nat (List (Ent String))) × Option Nat))) (Steps : _ → Prop),
      StepSound np2 2 (fun _ => True) Steps ∧ (∀ c ∈ calls, ∀ b ∈ c, Steps b.1) ∧ (calls.map List.length) = [2] ∧
      C03Row np2 2 (fun _ => True) seedGlob ∧ Flagged np2 2 (fun _ => True) seedGlob ∧
      ¬ C03Row np2 2 (fun _ => True) (verify (fun _ => false) seedGlob (runSchedule seedGlob calls)) ∧
      ¬ C03Row np2 2 (fun _ => True) (verify (checkRow np2 2 (fun _ => true) true) seedGlob (runSchedule seedGlob calls)) := by
  refine ⟨[seedCall], fun effs => ∀ t : Tri String Nat (List (Ent String)), ∀ o, np2 t.str ≤ 2 → np2 (runBlock t effs o).str ≤ 2,
    ⟨?_, ?_⟩, ?_, rfl, ?_, ?_, ?_, ?_⟩
  · intro t effs hS ht; exact ⟨hS t none ht.1, Or.inr trivial⟩
  · intro t effs k hS ht; exact ⟨hS t (some k) ht.1, Or.inr trivial⟩
  · intro c hc b hb t o _
    have : np2 (runBlock t b.1 o).str ≤ 2 := by unfold np2; split <;> omega
    exact this
  · simp [C03Row, hasNan, seedGlob]
  · exact ⟨by decide, Or.inr trivial⟩
  · rw [seed_publishes]; simp [verify, C03Row, hasNan, Ent.isNan]; decide
  · rw [seed_publishes]; simp [verify, checkRow, C03Row, hasNan, Ent.isNan]; decide

/-! ### non-vacuity -/
/-- steps that never add a parameter (with the most generous `Exact`, every such step is `StepSound`) -/
def SeedSteps (effs : List (Eff String Nat (List (Ent String)))) : Prop :=
  ∀ t : Tri String Nat (List (Ent String)), ∀ o, np2 t.str ≤ 2 → np2 (runBlock t effs o).str ≤ 2
theorem seed_stepSound : StepSound np2 2 (fun _ => True) SeedSteps :=
  ⟨fun t _ hS ht => ⟨hS t none ht.1, Or.inr trivial⟩, fun t _ k hS ht => ⟨hS t (some k) ht.1, Or.inr trivial⟩⟩
theorem seed_steps : ∀ c ∈ [seedCall], ∀ b ∈ c, SeedSteps b.1 := by
  intro c _ b _ t o _
  show np2 _ ≤ 2
  unfold np2; split <;> omega
/-- `fault_schedule_sound_with_verifier` applies to the seed's schedule with today's `check_results` -/
example : C03Row np2 2 (fun _ => True)
    (verify (checkRow np2 2 (fun _ => true) skipOnNanToday) seedGlob (runSchedule seedGlob [seedCall])) :=
  fault_schedule_sound_check_results np2 2 (fun _ => True) SeedSteps seed_stepSound (fun _ => true) seedGlob trivial
    [seedCall] seed_steps seedGlob ⟨by decide, Or.inr trivial⟩
example : runBlock seedGlob [.setSym 1, .updInv (· ++ [Ent.nan]), .setStr "a0"] (some 2) = ⟨"a0 - a1", 0, [Ent.nan]⟩ :=
  fault_leaves_stale_record seedGlob 1 "a0"
/-- the hypotheses of `fault_schedule_sound_with_verifier` are satisfiable on the seed's schedule, and with today's verifier the
row ends un-merged with the identity map -/
example : verify (checkRow np2 2 (fun _ => true) skipOnNanToday) seedGlob (runSchedule seedGlob [seedCall]) = ⟨"a0 - a1", 0, []⟩ := by
  rw [seed_publishes]
  have : skipOnNanToday = false := by decide
  simp [this, verify, checkRow, hasNan, Ent.isNan, np2, seedGlob]
example : blocks.length = 7 := by decide
example : (runBlock (⟨"2*a0*x", 0, []⟩ : Tri String Nat (List String))
      [.setSym 1, .updInv (· ++ ["{a0: a0/2}"]), .setStr "a0*x"] (some 2)) = ⟨"2*a0*x", 0, ["{a0: a0/2}"]⟩ := by
  simp [runBlock, runPrefix, handler, applyEff]
example : commit (⟨"2*a0*x", 0, []⟩ : Tri String Nat (List String))
    (runBlock ⟨"2*a0*x", 0, []⟩ [.setSym 1, .updInv (· ++ ["{a0: a0/2}"]), .setStr "a0*x"] (some 2))
      = ⟨"2*a0*x", 0, []⟩ := fault_commits_nothing _ _ _ _ rfl
example : truncate3 (append3 [1, 2] ["a", "b"] [true, false] 3 "c" true 2) = ([1, 2], ["a", "b"], [true, false]) := by
  decide

end ESR.C15
