import ESRVerif.Props.C05
import ESRVerif.Proofs.HessianTransform
import Mathlib.Analysis.Calculus.Deriv.Inv
import Mathlib.Analysis.SpecialFunctions.Pow.Deriv
import Mathlib.Analysis.SpecialFunctions.ExpDeriv
import Mathlib.Analysis.SpecialFunctions.Log.Deriv
/-!
# C05 (calculus part) — the transformed Fisher matrix `J⁻ᵀ F J⁻¹` IS the Hessian of the variant's negative log-likelihood

`simplifier.convert_params` reports, for a variant related to its unique function by `p = g(θ)`, the matrix
`F' = J⁻ᵀ F J⁻¹` (`J = ∂p/∂θ` at the maximum-likelihood point `θ̂`, `F` = Hessian of the negative log-likelihood `L` at `θ̂`), and
`match.py` reads its diagonal.  `Props/C05.lean` proves the algebra of that expression (`quadratic_form_transforms`,
`monomial_fisher_diag`).  This file proves the calculus: over ℝ, with Mathlib's Fréchet derivative, for every twice continuously
differentiable `g` with invertible Jacobian at `θ̂` and every `L'` with `L'(g θ) = L θ` near `θ̂` (the variant's negative
log-likelihood: the variant evaluated at `g θ` is the unique function evaluated at `θ`),

  `Hess L' (g θ̂) = J⁻ᵀ · Hess L (θ̂) · J⁻¹`            (`fisher_matrix_of_variant`)

basis-free first (`hessian_comp_general`, `hessian_comp_at_stationary`, `hessian_variant`), then as matrices, then the diagonal for
the recorded one-parameter-to-one-parameter templates (`fisher_diag_monomial`), then one parameter with explicit derivatives
(`fisher_sign_flip`, `fisher_reciprocal`, `fisher_rescale`, `fisher_power`, `fisher_exp`, `fisher_logabs`).  The stationarity of
`θ̂` is needed (`stationarity_needed`).  Nothing here is `_partial`.

What stays outside Lean: that the numbers in `derivs_comp<n>.dat` are the Hessian of `L` (numerical differentiation, C07), that
sympy's `jacobian`/`lambdify` return `∂g/∂θ` and `np.linalg.inv` inverts — sampled by the finite-difference oracle of
`harness/props/c05.py`.
-/
namespace ESR.C05
open ESR.HessianTransform Filter Topology Matrix

/-! ## basis-free -/
section basis_free
variable {E F G : Type*} [NormedAddCommGroup E] [NormedSpace ℝ E] [NormedAddCommGroup F] [NormedSpace ℝ F]
  [NormedAddCommGroup G] [NormedSpace ℝ G]

/-- **Second-order chain rule** (no stationarity): `D²(L∘h)(p)[u][v] = D²L(h p)[Dh(p) u][Dh(p) v] + DL(h p)[D²h(p)[u][v]]`. -/
theorem hessian_comp_general {L : F → G} {h : E → F} {p : E}
    (hL : ContDiffAt ℝ 2 L (h p)) (hh : ContDiffAt ℝ 2 h p) (u v : E) :
    fderiv ℝ (fderiv ℝ (L ∘ h)) p u v =
      fderiv ℝ (fderiv ℝ L) (h p) (fderiv ℝ h p u) (fderiv ℝ h p v) + fderiv ℝ L (h p) (fderiv ℝ (fderiv ℝ h) p u v) :=
  second_fderiv_comp_contDiffAt hL hh u v

/-- **At a stationary point `θ = h p` of `L`** the term `DL(θ) ∘ D²h(p)` vanishes:
`D²(L∘h)(p)[u][v] = D²L(θ)[Dh(p) u][Dh(p) v]`. -/
theorem hessian_comp_at_stationary {L : F → G} {h : E → F} {p : E} {θ : F} (hθ : h p = θ)
    (hL : ContDiffAt ℝ 2 L θ) (hh : ContDiffAt ℝ 2 h p) (hstat : fderiv ℝ L θ = 0) (u v : E) :
    fderiv ℝ (fderiv ℝ (L ∘ h)) p u v = fderiv ℝ (fderiv ℝ L) θ (fderiv ℝ h p u) (fderiv ℝ h p v) := by
  subst hθ
  exact second_fderiv_comp_stationary hL hh hstat u v

/-- the same with the hypothesis in the property's words: `θ` is a (local) minimum of the negative log-likelihood -/
theorem hessian_comp_at_min {L : F → ℝ} {h : E → F} {p : E} {θ : F} (hθ : h p = θ)
    (hL : ContDiffAt ℝ 2 L θ) (hh : ContDiffAt ℝ 2 h p) (hmin : IsLocalMin L θ) (u v : E) :
    fderiv ℝ (fderiv ℝ (L ∘ h)) p u v = fderiv ℝ (fderiv ℝ L) θ (fderiv ℝ h p u) (fderiv ℝ h p v) :=
  hessian_comp_at_stationary hθ hL hh hmin.fderiv_eq_zero u v

/-- **Stationarity is needed**: `L t = t`, `h t = t²`, `p = 1`: `(L∘h)'' = 2` but `L''(h p)·h'(p)² = 0`. -/
theorem stationarity_needed :
    ∃ (L h : ℝ → ℝ) (p : ℝ), ContDiff ℝ 2 L ∧ ContDiff ℝ 2 h ∧ fderiv ℝ L (h p) ≠ 0 ∧
      fderiv ℝ (fderiv ℝ (L ∘ h)) p 1 1 ≠ fderiv ℝ (fderiv ℝ L) (h p) (fderiv ℝ h p 1) (fderiv ℝ h p 1) := by
  refine ⟨id, fun t => t ^ 2, 1, contDiff_id, by fun_prop, ?_, ?_⟩
  · rw [fderiv_id]
    intro h0
    have := congrArg (fun A : ℝ →L[ℝ] ℝ => A 1) h0
    simp at this
  · have h2 : ContDiff ℝ 2 (fun t : ℝ => t ^ 2) := by fun_prop
    have e : (id ∘ fun t : ℝ => t ^ 2) = fun t : ℝ => t ^ 2 := rfl
    rw [e, fderiv_fderiv_one_one (contDiffAt_two_eventually h2.contDiffAt).2, sq_deriv2_at_one]
    have e2 : fderiv ℝ (id : ℝ → ℝ) = fun _ => ContinuousLinearMap.id ℝ ℝ := by funext x; exact fderiv_id
    rw [e2, fderiv_const_apply]
    simp

/-- **The derivative of a local inverse**: `g ∘ h = id` near `p` and `Dg(h p)` invertible ⇒ `Dh(p) = Dg(h p)⁻¹`
(chain rule on `g ∘ h = id`). -/
theorem fderiv_local_inverse {g : F → E} {h : E → F} {p : E} {J : F ≃L[ℝ] E}
    (hg : HasFDerivAt g (J : F →L[ℝ] E) (h p)) (hh : DifferentiableAt ℝ h p) (hinv : ∀ᶠ q in 𝓝 p, g (h q) = q) :
    (J : F →L[ℝ] E).comp (fderiv ℝ h p) = ContinuousLinearMap.id ℝ E ∧ fderiv ℝ h p = (J.symm : E →L[ℝ] F) :=
  ⟨fderiv_comp_of_right_inverse hg hh hinv, fderiv_of_right_inverse hg hh hinv⟩

/-- **The Hessian of the variant, basis-free.**  `g` twice continuously differentiable at `θ̂` with invertible derivative `J`;
`L` twice continuously differentiable and stationary at `θ̂`; `L'` ANY function with `L'(g x) = L x` near `θ̂`.  Then
`D²L'(g θ̂)[u][v] = D²L(θ̂)[J⁻¹u][J⁻¹v]`.  (No inverse of `g` has to be supplied: the inverse function theorem gives it, and
`L'` is `L ∘ g⁻¹` near `g θ̂`.) -/
theorem hessian_variant [CompleteSpace F] {g : F → E} {θ : F} {J : F ≃L[ℝ] E} {L : F → ℝ} {L' : E → ℝ}
    (hg : ContDiffAt ℝ 2 g θ) (hJ : HasFDerivAt g (J : F →L[ℝ] E) θ)
    (hL : ContDiffAt ℝ 2 L θ) (hstat : fderiv ℝ L θ = 0) (hL' : ∀ᶠ x in 𝓝 θ, L' (g x) = L x) (u v : E) :
    fderiv ℝ (fderiv ℝ L') (g θ) u v = fderiv ℝ (fderiv ℝ L) θ (J.symm u) (J.symm v) :=
  second_fderiv_variant hg hJ hL hstat hL' u v

end basis_free

/-! ## in coordinates -/
section coordinates
variable {n : Type} [Fintype n] [DecidableEq n]

/-- `Hess(L∘h)(p) = Jhᵀ · Hess L(θ) · Jh` at a stationary point `θ = h p` of `L` (`Jh` the Jacobian matrix of `h` at `p`) -/
theorem fisher_matrix_comp {L : (n → ℝ) → ℝ} {h : (n → ℝ) → (n → ℝ)} {p θ : n → ℝ} (hθ : h p = θ)
    (hL : ContDiffAt ℝ 2 L θ) (hh : ContDiffAt ℝ 2 h p) (hstat : fderiv ℝ L θ = 0) :
    hessMat (L ∘ h) p = (jacMat h p)ᵀ * hessMat L θ * jacMat h p := by
  subst hθ
  exact hessMat_comp_stationary hL hh hstat

/-- `g ∘ h = id` near `p` ⇒ `Jg(θ) · Jh(p) = 1` and `Jh(p) = Jg(θ)⁻¹` as matrices -/
theorem jacobian_of_local_inverse {g h : (n → ℝ) → (n → ℝ)} {p θ : n → ℝ} (hθ : h p = θ)
    (hg : DifferentiableAt ℝ g θ) (hh : DifferentiableAt ℝ h p) (hinv : ∀ᶠ q in 𝓝 p, g (h q) = q) :
    jacMat g θ * jacMat h p = 1 ∧ jacMat h p = (jacMat g θ)⁻¹ := by
  subst hθ
  exact jacMat_of_right_inverse hg hh hinv

/-- **`Hess(L ∘ g⁻¹)(p̂) = J⁻ᵀ · Hess L(θ̂) · J⁻¹`** for a given twice differentiable local inverse `h` of `g` (`h p̂ = θ̂`,
`g ∘ h = id` near `p̂`), `J` the Jacobian matrix of `g` at `θ̂`: the expression of `simplifier.convert_params`. -/
theorem fisher_matrix_transforms {L : (n → ℝ) → ℝ} {g h : (n → ℝ) → (n → ℝ)} {p θ : n → ℝ} (hθ : h p = θ)
    (hL : ContDiffAt ℝ 2 L θ) (hstat : fderiv ℝ L θ = 0) (hg : DifferentiableAt ℝ g θ)
    (hh : ContDiffAt ℝ 2 h p) (hinv : ∀ᶠ q in 𝓝 p, g (h q) = q) :
    hessMat (L ∘ h) p = (jacMat g θ)⁻¹ᵀ * hessMat L θ * (jacMat g θ)⁻¹ := by
  subst hθ
  exact hessMat_comp_right_inverse hL hh hstat hg hinv

/-- **The Fisher matrix of the variant.**  `g` twice continuously differentiable at `θ̂` with invertible Jacobian matrix `J`, `L`
twice continuously differentiable and stationary at `θ̂`, `L'` any function with `L'(g θ) = L θ` near `θ̂`:
`Hess L'(g θ̂) = J⁻ᵀ · Hess L(θ̂) · J⁻¹`. -/
theorem fisher_matrix_of_variant {L L' : (n → ℝ) → ℝ} {g : (n → ℝ) → (n → ℝ)} {θ : n → ℝ}
    (hg : ContDiffAt ℝ 2 g θ) (hJ : IsUnit (jacMat g θ).det)
    (hL : ContDiffAt ℝ 2 L θ) (hstat : fderiv ℝ L θ = 0) (hL' : ∀ᶠ x in 𝓝 θ, L' (g x) = L x) :
    hessMat L' (g θ) = (jacMat g θ)⁻¹ᵀ * hessMat L θ * (jacMat g θ)⁻¹ :=
  hessMat_variant hg hJ hL hstat hL'

/-- … with `θ̂` a local minimum of the negative log-likelihood (a maximum-likelihood point) -/
theorem fisher_matrix_of_variant_at_min {L L' : (n → ℝ) → ℝ} {g : (n → ℝ) → (n → ℝ)} {θ : n → ℝ}
    (hg : ContDiffAt ℝ 2 g θ) (hJ : IsUnit (jacMat g θ).det)
    (hL : ContDiffAt ℝ 2 L θ) (hmin : IsLocalMin L θ) (hL' : ∀ᶠ x in 𝓝 θ, L' (g x) = L x) :
    hessMat L' (g θ) = (jacMat g θ)⁻¹ᵀ * hessMat L θ * (jacMat g θ)⁻¹ :=
  hessMat_variant hg hJ hL hmin.fderiv_eq_zero hL'

/-- the precision quadratic form is the same in both parametrisations (`quadratic_form_transforms` applied to the true Hessians):
`(J δθ)ᵀ · Hess L'(p̂) · (J δθ) = δθᵀ · Hess L(θ̂) · δθ` -/
theorem fisher_quadratic_form_invariant {L L' : (n → ℝ) → ℝ} {g : (n → ℝ) → (n → ℝ)} {θ : n → ℝ}
    (hg : ContDiffAt ℝ 2 g θ) (hJ : IsUnit (jacMat g θ).det)
    (hL : ContDiffAt ℝ 2 L θ) (hstat : fderiv ℝ L θ = 0) (hL' : ∀ᶠ x in 𝓝 θ, L' (g x) = L x) (v : n → ℝ) :
    (jacMat g θ *ᵥ v) ⬝ᵥ (hessMat L' (g θ) *ᵥ (jacMat g θ *ᵥ v)) = v ⬝ᵥ (hessMat L θ *ᵥ v) := by
  rw [fisher_matrix_of_variant hg hJ hL hstat hL']
  exact quadratic_form_transforms _ _ hJ v

/-- **The diagonal `match.py` reads, for the recorded templates.**  Each maps ONE parameter to ONE parameter:
`pᵢ = gᵢ(θ_{σ i})` with `gᵢ` twice continuously differentiable at `θ̂_{σ i}` and `gᵢ'(θ̂_{σ i}) = dᵢ ≠ 0`.  Then the `i`-th diagonal
entry of the Hessian of the variant's negative log-likelihood at `p̂` is `Hess L(θ̂)_{σ i, σ i} / dᵢ²`. -/
theorem fisher_diag_monomial (σ : Equiv.Perm n) (gi : n → ℝ → ℝ) (d : n → ℝ) {L L' : (n → ℝ) → ℝ} {θ : n → ℝ}
    (hgi : ∀ i, ContDiffAt ℝ 2 (gi i) (θ (σ i))) (hd : ∀ i, HasDerivAt (gi i) (d i) (θ (σ i))) (hd0 : ∀ i, d i ≠ 0)
    (hL : ContDiffAt ℝ 2 L θ) (hstat : fderiv ℝ L θ = 0)
    (hL' : ∀ᶠ x in 𝓝 θ, L' (fun i => gi i (x (σ i))) = L x) (i : n) :
    hessMat L' (fun i => gi i (θ (σ i))) i i = hessMat L θ (σ i) (σ i) / (d i) ^ 2 := by
  have hJ := jacMat_monoMap σ gi θ d hd
  have hU : IsUnit (jacMat (monoMap σ gi) θ).det := by rw [hJ]; exact det_monoMap_isUnit σ d hd0
  have := fisher_matrix_of_variant (g := monoMap σ gi) (contDiffAt_monoMap σ gi θ hgi) hU hL hstat hL'
  have e : monoMap σ gi θ = fun i => gi i (θ (σ i)) := rfl
  rw [e, hJ] at this
  rw [this]
  exact monomial_fisher_diag σ d hd0 (hessMat L θ) i

/-- two parameters, chain "swap, then sign flip of the first and reciprocal of the second": `p₀ = −θ₁`, `p₁ = 1/θ₀`, with
`L θ = (θ₀−1)² + (θ₁−2)²` minimal at `θ̂ = (1, 2)`; the variant's objective is `L' p = (1/p₁ − 1)² + (−p₀ − 2)²`.  All hypotheses of
`fisher_diag_monomial` hold (the Jacobian `[[0, −1], [−1, 0]]` is not symmetric-diagonal), so the diagonal of the variant's
Hessian at `p̂ = (−2, 1)` is the permuted, rescaled diagonal of `Hess L(θ̂)`. -/
example :
    let L : (Fin 2 → ℝ) → ℝ := fun θ => (θ 0 - 1) ^ 2 + (θ 1 - 2) ^ 2
    let L' : (Fin 2 → ℝ) → ℝ := fun p => ((p 1)⁻¹ - 1) ^ 2 + (-(p 0) - 2) ^ 2
    hessMat L' ![-2, 1⁻¹] 0 0 = hessMat L ![1, 2] 1 1 / (-1) ^ 2 ∧
    hessMat L' ![-2, 1⁻¹] 1 1 = hessMat L ![1, 2] 0 0 / (-((1 : ℝ) ^ 2)⁻¹) ^ 2 := by
  intro L L'
  let σ : Equiv.Perm (Fin 2) := Equiv.swap 0 1
  let gi : Fin 2 → ℝ → ℝ := ![fun t => -t, fun t => t⁻¹]
  let d : Fin 2 → ℝ := ![-1, -((1 : ℝ) ^ 2)⁻¹]
  have hθ : ∀ i, (![1, 2] : Fin 2 → ℝ) (σ i) = ![2, 1] i := by intro i; fin_cases i <;> simp [σ]
  have hgi : ∀ i, ContDiffAt ℝ 2 (gi i) ((![1, 2] : Fin 2 → ℝ) (σ i)) := by
    intro i; rw [hθ]
    fin_cases i
    · exact contDiff_neg.contDiffAt
    · exact contDiffAt_inv ℝ (by norm_num)
  have hd : ∀ i, HasDerivAt (gi i) (d i) ((![1, 2] : Fin 2 → ℝ) (σ i)) := by
    intro i; rw [hθ]
    fin_cases i
    · exact (hasDerivAt_id (2 : ℝ)).neg
    · exact hasDerivAt_inv (by norm_num)
  have hd0 : ∀ i, d i ≠ 0 := by intro i; fin_cases i <;> simp [d]
  have hL : ContDiffAt ℝ 2 L ![1, 2] := by
    have : ContDiff ℝ 2 L := by unfold L; fun_prop
    exact this.contDiffAt
  have hmin : IsLocalMin L ![1, 2] := Eventually.of_forall fun x => by
    have : L ![1, 2] = 0 := by simp [L]
    rw [this]; positivity
  have hL' : ∀ᶠ x in 𝓝 (![1, 2] : Fin 2 → ℝ), L' (fun i => gi i (x (σ i))) = L x :=
    Eventually.of_forall fun x => by simp [L, L', gi, σ]
  have hp : (fun i => gi i ((![1, 2] : Fin 2 → ℝ) (σ i))) = ![-2, 1⁻¹] := by
    funext i; fin_cases i <;> simp [gi, σ]
  have h0 := fisher_diag_monomial σ gi d hgi hd hd0 hL hmin.fderiv_eq_zero hL' 0
  have h1 := fisher_diag_monomial σ gi d hgi hd hd0 hL hmin.fderiv_eq_zero hL' 1
  rw [hp] at h0 h1
  exact ⟨by simpa [σ, d] using h0, by simpa [σ, d] using h1⟩

end coordinates

/-! ## one parameter, in the property's words: `F' = F / g'(θ̂)²` -/
section one_parameter
variable {L L' : ℝ → ℝ} {θ : ℝ}

/-- one parameter, `p = g(θ)`: the curvature of the variant's negative log-likelihood at `p̂ = g(θ̂)` is `F / g'(θ̂)²` -/
theorem fisher_one_param {g : ℝ → ℝ} {d : ℝ} (hg : ContDiffAt ℝ 2 g θ) (hd : HasDerivAt g d θ) (hd0 : d ≠ 0)
    (hL : ContDiffAt ℝ 2 L θ) (hstat : deriv L θ = 0) (hL' : ∀ᶠ x in 𝓝 θ, L' (g x) = L x) :
    deriv (deriv L') (g θ) = deriv (deriv L) θ / d ^ 2 :=
  deriv2_variant hg hd hd0 hL hstat hL'

/-- sign flip `{a: -a}`: `g' = −1`, `F' = F` -/
theorem fisher_sign_flip (hL : ContDiffAt ℝ 2 L θ) (hstat : deriv L θ = 0) (hL' : ∀ᶠ x in 𝓝 θ, L' (-x) = L x) :
    deriv (deriv L') (-θ) = deriv (deriv L) θ := by
  have hd : HasDerivAt (fun x : ℝ => -x) (-1) θ := (hasDerivAt_id θ).neg
  have := fisher_one_param (g := fun x => -x) contDiff_neg.contDiffAt hd (by norm_num) hL hstat hL'
  simpa using this

/-- reciprocal `{a: 1/a}` at `θ̂ ≠ 0`: `g' = −1/θ̂²`, `F' = F / (1/θ̂²)² = F·θ̂⁴` -/
theorem fisher_reciprocal (hθ : θ ≠ 0) (hL : ContDiffAt ℝ 2 L θ) (hstat : deriv L θ = 0)
    (hL' : ∀ᶠ x in 𝓝 θ, L' x⁻¹ = L x) :
    deriv (deriv L') θ⁻¹ = deriv (deriv L) θ / (-(θ ^ 2)⁻¹) ^ 2 ∧ deriv (deriv L') θ⁻¹ = deriv (deriv L) θ * θ ^ 4 := by
  have hd : HasDerivAt (fun x : ℝ => x⁻¹) (-(θ ^ 2)⁻¹) θ := hasDerivAt_inv hθ
  have hd0 : -(θ ^ 2)⁻¹ ≠ 0 := by simp [hθ]
  have := fisher_one_param (g := fun x => x⁻¹) (contDiffAt_inv ℝ hθ) hd hd0 hL hstat hL'
  refine ⟨this, ?_⟩
  rw [this]; field_simp

/-- rescaling `{a: a/c}` (`c ≠ 0`; the table records integer `c`): `g' = 1/c`, `F' = c²·F` -/
theorem fisher_rescale (c : ℝ) (hc : c ≠ 0) (hL : ContDiffAt ℝ 2 L θ) (hstat : deriv L θ = 0)
    (hL' : ∀ᶠ x in 𝓝 θ, L' (x / c) = L x) :
    deriv (deriv L') (θ / c) = deriv (deriv L) θ / (1 / c) ^ 2 ∧ deriv (deriv L') (θ / c) = c ^ 2 * deriv (deriv L) θ := by
  have hd : HasDerivAt (fun x : ℝ => x / c) (1 / c) θ := (hasDerivAt_id θ).div_const c
  have hg : ContDiffAt ℝ 2 (fun x : ℝ => x / c) θ := by fun_prop
  have := fisher_one_param (g := fun x => x / c) hg hd (by simp [hc]) hL hstat hL'
  refine ⟨this, ?_⟩
  rw [this]; field_simp

/-- real power `{a: a**r}` at `θ̂ > 0` (`r ≠ 0`; roots `r = 1/k`, square `r = 2`): `g' = r·θ̂^(r−1)` -/
theorem fisher_power (r : ℝ) (hr : r ≠ 0) (hθ : 0 < θ) (hL : ContDiffAt ℝ 2 L θ) (hstat : deriv L θ = 0)
    (hL' : ∀ᶠ x in 𝓝 θ, L' (x ^ r) = L x) :
    deriv (deriv L') (θ ^ r) = deriv (deriv L) θ / (r * θ ^ (r - 1)) ^ 2 := by
  have hd : HasDerivAt (fun x : ℝ => x ^ r) (r * θ ^ (r - 1)) θ := Real.hasDerivAt_rpow_const (Or.inl hθ.ne')
  have hd0 : r * θ ^ (r - 1) ≠ 0 := mul_ne_zero hr (Real.rpow_pos_of_pos hθ _).ne'
  exact fisher_one_param (g := fun x => x ^ r) (Real.contDiffAt_rpow_const_of_ne hθ.ne') hd hd0 hL hstat hL'

/-- `{a: exp(a)}`: `g' = exp θ̂` -/
theorem fisher_exp (hL : ContDiffAt ℝ 2 L θ) (hstat : deriv L θ = 0) (hL' : ∀ᶠ x in 𝓝 θ, L' (Real.exp x) = L x) :
    deriv (deriv L') (Real.exp θ) = deriv (deriv L) θ / (Real.exp θ) ^ 2 :=
  fisher_one_param (g := Real.exp) Real.contDiff_exp.contDiffAt (Real.hasDerivAt_exp θ) (Real.exp_ne_zero θ) hL hstat hL'

/-- `{a: log(Abs(a))}` at `θ̂ ≠ 0` (Mathlib's `Real.log x` is `log |x|`): `g' = 1/θ̂`, `F' = θ̂²·F` -/
theorem fisher_logabs (hθ : θ ≠ 0) (hL : ContDiffAt ℝ 2 L θ) (hstat : deriv L θ = 0)
    (hL' : ∀ᶠ x in 𝓝 θ, L' (Real.log x) = L x) :
    deriv (deriv L') (Real.log θ) = deriv (deriv L) θ / (θ⁻¹) ^ 2 :=
  fisher_one_param (g := Real.log) (Real.contDiffAt_log.2 hθ) (Real.hasDerivAt_log hθ) (inv_ne_zero hθ) hL hstat hL'

/-! ### numbers (the hypotheses are satisfiable, the conclusions are not trivial) -/

/-- the F1 reproduction: `θ̂ = 2`, `F = 1400`, variant `{a0: −a0}`: `p̂ = −2`, `F' = 1400` -/
example : deriv (deriv fun s : ℝ => 700 * (-s - 2) ^ 2) (-2) = 1400 := by
  have := fisher_sign_flip (L := quadL 700 2) (L' := fun s => 700 * (-s - 2) ^ 2) (θ := 2)
    (quadL_contDiff 700 2).contDiffAt (quadL_stationary 700 2) (Eventually.of_forall fun x => by simp [quadL])
  rw [this, quadL_deriv2]; norm_num

/-- reciprocal: `L = (θ−2)²` (`F = 2`), variant in `p = 1/θ`: `p̂ = 1/2`, `F' = 2·2⁴ = 32` -/
example : deriv (deriv fun s : ℝ => (s⁻¹ - 2) ^ 2) (2 : ℝ)⁻¹ = 32 := by
  have := (fisher_reciprocal (L := quadL 1 2) (L' := fun s => (s⁻¹ - 2) ^ 2) (θ := 2) (by norm_num)
    (quadL_contDiff 1 2).contDiffAt (quadL_stationary 1 2) (Eventually.of_forall fun x => by simp [quadL])).2
  rw [this, quadL_deriv2]; norm_num

/-- rescaling by 2: `L = (θ−2)²`, `p = θ/2`: `p̂ = 1`, `F' = 4·2 = 8` -/
example : deriv (deriv fun s : ℝ => (2 * s - 2) ^ 2) (2 / 2 : ℝ) = 8 := by
  have := (fisher_rescale (L := quadL 1 2) (L' := fun s => (2 * s - 2) ^ 2) (θ := 2) 2 (by norm_num)
    (quadL_contDiff 1 2).contDiffAt (quadL_stationary 1 2)
    (Eventually.of_forall fun x => by simp only [quadL]; ring)).2
  rw [this, quadL_deriv2]; norm_num

end one_parameter
end ESR.C05
