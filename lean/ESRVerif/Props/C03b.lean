import ESRVerif.Props.C03
/-!
C03 (driver refinement) — the do_sympy DRIVER keeps every (function, unique, chain) triple sound.

`Model/Library.lean` models `simplifier.do_sympy` (both fixed-point loops, the per-parameter-count calls of
`sympy_simplify`, `add_inv_subs`, step (3), the round files) and the part of `duplicate_checker.main` around it (extra
trees inherit their original's string; the round files are re-read and concatenated per function) over abstract
strings, with the CAS step an oracle.  Proved here, for libraries of any size and ANY number of rounds:

* `doSympy_sound`, `reach_sound` — if every oracle call is sound (`OracleSound`: each returned string/chain is a
  `StepSound` rewrite of the string it was given and the chain was only appended to) then every function is `Sound`
  w.r.t. its final unique and the chain duplicate_checker assembles from the round files;
* `files_same_length`          — every per-function output has one entry per function;
* `round_files_recombine`      — re-reading `inv_idx_*`/`inv_subs_*` round by round and appending, as duplicate_checker
  does, reproduces for every function exactly what its successive uniques recorded, in order;
* `extras_inherit_original`    — an extra tree's row gets its original's string and therefore, whatever the oracle does,
  the same final string, the same unique and the same chain.

Termination of the loops is NOT claimed (the model has fuel and reports whether the exit condition was reached).
-/
namespace ESR.C03
open ESR.Library

variable {σ : Type} [DecidableEq σ] {μ Θ V : Type}

/-! ### the hypothesis on the CAS step -/

/-- `new` is `old` with `a` appended (`None` counts as the empty list; a list stays a list) -/
def Extends (old new : OChain μ) (a : List (Entry μ)) : Prop :=
  new.getD [] = old.getD [] ++ a ∧ (old.isSome → new.isSome)

/-- one call of sympy_simplify on strings `f` with chains `t` returned `f'`, `t'`: same lengths, chains only appended
to, and each rewrite is `StepSound` with what was appended -/
def OutOK (den : σ → Θ → V) (np : σ → Nat) (ap : μ → Θ → Θ) :
    List σ → List (OChain μ) → List σ → List (OChain μ) → Prop
  | [], [], [], [] => True
  | f :: fs, t :: ts, f' :: fs', t' :: ts' =>
      (∃ a, Extends t t' a ∧ StepSound den np ap f f' a) ∧ OutOK den np ap fs ts fs' ts'
  | _, _, _, _ => False

/-- The hypothesis on sympy (every call, whatever the flags and the parameter count). -/
def OracleSound (den : σ → Θ → V) (np : σ → Nat) (ap : μ → Θ → Θ) (simp : Oracle σ μ) : Prop :=
  ∀ e c i f t, f.length = t.length → OutOK den np ap f t (simp e c i f t).1 (simp e c i f t).2

omit [DecidableEq σ] in
/-- An oracle that rewrites string by string with sound steps satisfies the hypothesis (the scripted oracle of the
correspondence runs is of this form, so the runs exercise the theorem's hypothesis, not something weaker). -/
theorem pointwise_sound (den : σ → Θ → V) (np : σ → Nat) (ap : μ → Θ → Θ) (rw : Nat → σ → σ × OChain μ)
    (h : ∀ i s, StepSound den np ap s (rw i s).1 ((rw i s).2.getD [])) :
    OracleSound den np ap (pointwiseOracle rw) := by
  intro e c i f
  induction f with
  | nil => intro t ht; cases t <;> simp_all [pointwiseOracle, OutOK]
  | cons s fs ih =>
    intro t ht
    cases t with
    | nil => simp at ht
    | cons o ts =>
      simp only [List.length_cons, Nat.add_right_cancel_iff] at ht
      have := ih ts ht
      simp only [pointwiseOracle, List.map_cons, List.zipWith_cons_cons, OutOK] at this ⊢
      refine ⟨⟨(rw i s).2.getD [], ?_, h i s⟩, this⟩
      cases hr : (rw i s).2 with
      | none => simp [Extends]
      | some a => simp [Extends]

/-! ### list plumbing -/

omit [DecidableEq σ] in
theorem getD_set_eq {α : Type} (l : List α) (i m : Nat) (x d : α) :
    (l.set i x).getD m d = if i = m ∧ i < l.length then x else l.getD m d := by
  simp only [List.getD_eq_getElem?_getD, List.getElem?_set]
  by_cases h : i = m
  · subst h
    by_cases h2 : i < l.length
    · simp [h2]
    · simp [h2]
  · simp [h]

omit [DecidableEq σ] in
theorem cut_extends (old new : OChain μ) (a : List (Entry μ)) (h : Extends old new a) : (cut old new).getD [] = a := by
  obtain ⟨h1, _⟩ := h
  cases old with
  | none => simpa [cut] using h1
  | some o => simp only [Option.getD_some] at h1; simp [cut, h1]

omit [DecidableEq σ] in
theorem applyPart_length (uniqInv : List (OChain μ)) (j : List Nat) (f : List σ) (t : List (OChain μ))
    (u : List σ) (a : List (OChain μ)) :
    (applyPart uniqInv j f t (u, a)).1.length = u.length ∧ (applyPart uniqInv j f t (u, a)).2.length = a.length := by
  induction j generalizing f t u a with
  | nil => simp [applyPart]
  | cons jk j ih =>
    cases f with
    | nil => simp [applyPart]
    | cons fk f =>
      cases t with
      | nil => simp [applyPart]
      | cons tk t => simpa [applyPart] using ih f t (u.set jk fk) (a.set jk (cut (uniqInv.getD jk none) tk))

omit [DecidableEq σ] in
/-- the inner loop writes only at the indices of its partition -/
theorem applyPart_untouched (uniqInv : List (OChain μ)) (d : σ) (j : List Nat) (f : List σ) (t : List (OChain μ))
    (u : List σ) (a : List (OChain μ)) (m : Nat) (hm : m ∉ j) :
    (applyPart uniqInv j f t (u, a)).1.getD m d = u.getD m d ∧
    (applyPart uniqInv j f t (u, a)).2.getD m none = a.getD m none := by
  induction j generalizing f t u a with
  | nil => simp [applyPart]
  | cons jk j ih =>
    cases f with
    | nil => simp [applyPart]
    | cons fk f =>
      cases t with
      | nil => simp [applyPart]
      | cons tk t =>
        simp only [List.mem_cons, not_or] at hm
        have := ih f t (u.set jk fk) (a.set jk (cut (uniqInv.getD jk none) tk)) hm.2
        have hne : ¬ (jk = m ∧ jk < u.length) := fun h => hm.1 h.1.symm
        have hne' : ¬ (jk = m ∧ jk < a.length) := fun h => hm.1 h.1.symm
        rw [getD_set_eq, getD_set_eq, if_neg hne, if_neg hne'] at this
        simpa [applyPart] using this

section Sound
variable (den : σ → Θ → V) (np : σ → Nat) (ap : μ → Θ → Θ)

omit [DecidableEq σ] in
/-- **Step (2), inner loop.** If every unique `m` is soundly rewritten so far (`u0[m] ↦ u[m]` recording `a[m]`) and the
oracle's answer for the partition `j` is sound w.r.t. the ORIGINAL strings at `j`, the same holds after the writes. -/
theorem applyPart_sound (u0 : List σ) (uniqInv : List (OChain μ)) (d : σ) (j : List Nat) (f' : List σ)
    (t' : List (OChain μ)) (u : List σ) (a : List (OChain μ)) (hlen : u.length = a.length)
    (hout : OutOK den np ap (j.map (fun m => u0.getD m d)) (j.map (fun m => uniqInv.getD m none)) f' t')
    (hQ : ∀ m, m < u.length → Sound den np ap (u0.getD m d) (u.getD m d) ((a.getD m none).getD [])) :
    ∀ m, m < u.length → Sound den np ap (u0.getD m d) ((applyPart uniqInv j f' t' (u, a)).1.getD m d)
      (((applyPart uniqInv j f' t' (u, a)).2.getD m none).getD []) := by
  induction j generalizing f' t' u a with
  | nil => cases f' <;> cases t' <;> simp_all [applyPart, OutOK]
  | cons jk j ih =>
    cases f' with
    | nil => cases t' <;> simp [OutOK] at hout
    | cons fk fs =>
      cases t' with
      | nil => simp [OutOK] at hout
      | cons tk ts =>
        simp only [List.map_cons, OutOK] at hout
        obtain ⟨⟨a0, hext, hstep⟩, hrest⟩ := hout
        have hcut := cut_extends _ _ _ hext
        simp only [applyPart]
        have hlen' : (u.set jk fk).length = (a.set jk (cut (uniqInv.getD jk none) tk)).length := by simpa using hlen
        have := ih fs ts (u.set jk fk) (a.set jk (cut (uniqInv.getD jk none) tk)) hlen' hrest (by
          intro m hm
          simp only [List.length_set] at hm
          rw [getD_set_eq, getD_set_eq]
          by_cases h : jk = m ∧ jk < u.length
          · have h' : jk = m ∧ jk < a.length := ⟨h.1, hlen ▸ h.2⟩
            rw [if_pos h, if_pos h', hcut, ← h.1]
            exact hstep
          · have h' : ¬ (jk = m ∧ jk < a.length) := fun hh => h ⟨hh.1, hlen ▸ hh.2⟩
            rw [if_neg h, if_neg h']
            exact hQ m hm)
        intro m hm
        exact this m (by simpa using hm)

/-- invariant of the `for i in range(max_param+1)` loop with partitions `is` still to do -/
def PartInv (u0 : List σ) (np0 : List Nat) (d : σ) (is : List Nat) (acc : List σ × List (OChain μ)) : Prop :=
  acc.1.length = u0.length ∧ acc.2.length = u0.length ∧
  (∀ m, m < u0.length → Sound den np ap (u0.getD m d) (acc.1.getD m d) ((acc.2.getD m none).getD [])) ∧
  (∀ m, m < u0.length → np0.getD m 0 ∈ is → acc.1.getD m d = u0.getD m d)

omit [DecidableEq σ] in
theorem mem_partIdx (np0 : List Nat) (i m : Nat) : m ∈ partIdx np0 i ↔ m < np0.length ∧ np0.getD m 0 = i := by
  simp [partIdx]

omit [DecidableEq σ] in
theorem simplifyPart_inv (simp : Oracle σ μ) (hs : OracleSound den np ap simp) (e c : Bool) (d : σ) (u0 : List σ)
    (np0 : List Nat) (uniqInv : List (OChain μ)) (i : Nat) (is : List Nat) (hnd : (i :: is).Nodup)
    (acc acc' : List σ × List (OChain μ)) (hinv : PartInv den np ap u0 np0 d (i :: is) acc)
    (h : simplifyPart simp e c d np0 uniqInv acc i = some acc') : PartInv den np ap u0 np0 d is acc' := by
  obtain ⟨hl1, hl2, hQ, hunt⟩ := hinv
  obtain ⟨u, a⟩ := acc
  simp only at hl1 hl2 hQ hunt
  unfold simplifyPart at h
  simp only at h
  split at h
  · injection h with h
    subst h
    -- the strings handed to the oracle are the original ones
    have hf : (partIdx np0 i).map (fun m => u.getD m d) = (partIdx np0 i).map (fun m => u0.getD m d) := by
      apply List.map_congr_left
      intro m hm
      have hm' := (mem_partIdx np0 i m).mp hm
      by_cases hlt : m < u0.length
      · exact hunt m hlt (by rw [hm'.2]; exact List.mem_cons_self)
      · simp [List.getD_eq_getElem?_getD, List.getElem?_eq_none (Nat.le_of_not_lt hlt),
          List.getElem?_eq_none (hl1 ▸ Nat.le_of_not_lt hlt)]
    have hout := hs e c i ((partIdx np0 i).map (fun m => u.getD m d)) ((partIdx np0 i).map (fun m => uniqInv.getD m none))
      (by simp)
    generalize simp e c i ((partIdx np0 i).map (fun m => u.getD m d))
      ((partIdx np0 i).map (fun m => uniqInv.getD m none)) = out at hout ⊢
    rw [hf] at hout
    have hlen := applyPart_length uniqInv (partIdx np0 i) out.1 out.2 u a
    refine ⟨by rw [hlen.1, hl1], by rw [hlen.2, hl2], ?_, ?_⟩
    · intro m hm
      exact applyPart_sound den np ap u0 uniqInv d (partIdx np0 i) out.1 out.2 u a (by rw [hl1, hl2]) hout
        (fun m hm => hQ m (hl1 ▸ hm)) m (hl1 ▸ hm)
    · intro m hm hin
      have hnot : m ∉ partIdx np0 i := by
        intro hmem
        have := ((mem_partIdx np0 i m).mp hmem).2
        rw [this] at hin
        exact (List.nodup_cons.mp hnd).1 hin
      rw [(applyPart_untouched uniqInv d (partIdx np0 i) out.1 out.2 u a m hnot).1]
      exact hunt m hm (List.mem_cons_of_mem _ hin)
  · exact absurd h (by simp)

omit [DecidableEq σ] in
theorem simplifyAll_inv (simp : Oracle σ μ) (hs : OracleSound den np ap simp) (e c : Bool) (d : σ) (u0 : List σ)
    (np0 : List Nat) (uniqInv : List (OChain μ)) (is : List Nat) (hnd : is.Nodup)
    (acc acc' : List σ × List (OChain μ)) (hinv : PartInv den np ap u0 np0 d is acc)
    (h : simplifyAll simp e c d np0 uniqInv is acc = some acc') : PartInv den np ap u0 np0 d [] acc' := by
  induction is generalizing acc with
  | nil => simp only [simplifyAll, Option.some.injEq] at h; exact h ▸ hinv
  | cons i is ih =>
    simp only [simplifyAll] at h
    split at h
    · exact absurd h (by simp)
    · rename_i acc1 h1
      exact ih (List.nodup_cons.mp hnd).2 acc1
        (simplifyPart_inv den np ap simp hs e c d u0 np0 uniqInv i is hnd acc acc1 hinv h1) h

omit [DecidableEq σ] in
/-- **Step (2).** After all partitions every unique is a sound rewrite of itself with what it added this round. -/
theorem step2_sound (simp : Oracle σ μ) (hs : OracleSound den np ap simp) (e c : Bool) (d : σ) (u0 : List σ)
    (np0 : List Nat) (uniqInv : List (OChain μ)) (k : Nat) (uniq' : List σ) (add : List (OChain μ))
    (h : simplifyAll simp e c d np0 uniqInv (List.range k) (u0, List.replicate u0.length none) = some (uniq', add)) :
    ∀ m, m < u0.length → Sound den np ap (u0.getD m d) (uniq'.getD m d) ((add.getD m none).getD []) := by
  have hinit : PartInv den np ap u0 np0 d (List.range k) (u0, List.replicate u0.length none) := by
    refine ⟨rfl, by simp, ?_, fun _ _ _ => rfl⟩
    intro m hm
    simp only [List.getD_eq_getElem?_getD, List.getElem?_replicate, hm, if_true, Option.getD_some]
    exact sound_refl den np ap _
  exact (simplifyAll_inv den np ap simp hs e c d u0 np0 uniqInv (List.range k) List.nodup_range _ _ hinit h).2.2.1

end Sound

/-! ### step (3) and one round -/

omit [DecidableEq σ] in
/-- what function `i` recorded in the rounds so far, in order -/
def chainOf (rounds : List (RoundOut μ)) (i : Nat) : List (Entry μ) :=
  (rounds.map (fun r => (r.allInv.getD i none).getD [])).flatten

omit [DecidableEq σ] in
theorem chainOf_append (rounds : List (RoundOut μ)) (r : RoundOut μ) (i : Nat) :
    chainOf (rounds ++ [r]) i = chainOf rounds i ++ (r.allInv.getD i none).getD [] := by
  simp [chainOf]

theorem step3_spec (uniq0 uniq' : List σ) (add : List (OChain μ)) (d : σ) (allFun : List σ) (i : Nat)
    (hi : i < allFun.length) :
    (step3 uniq0 uniq' add d allFun (List.replicate allFun.length none)).1.getD i d
        = uniq'.getD (firstIndex uniq0 (allFun.getD i d)) d ∧
    ((step3 uniq0 uniq' add d allFun (List.replicate allFun.length none)).2.getD i none).getD []
        = (add.getD (firstIndex uniq0 (allFun.getD i d)) none).getD [] := by
  have hg : allFun.getD i d = allFun[i] := by simp [List.getD_eq_getElem?_getD, hi]
  constructor
  · simp [step3, List.getD_eq_getElem?_getD, hi]
  · simp [step3, List.getD_eq_getElem?_getD, hi]
    generalize add[firstIndex uniq0 allFun[i]]?.getD none = o
    cases o with
    | none => simp
    | some l => cases l <;> simp

theorem step3_length (uniq0 uniq' : List σ) (add : List (OChain μ)) (d : σ) (allFun : List σ) :
    (step3 uniq0 uniq' add d allFun (List.replicate allFun.length none)).1.length = allFun.length ∧
    (step3 uniq0 uniq' add d allFun (List.replicate allFun.length none)).2.length = allFun.length := by
  simp [step3]

/-- what a successful round produced, field by field -/
theorem round_some (simps : Nat → Oracle σ μ) (npc : σ → Nat) (maxParam : Nat) (d : σ) (e : Bool) (st st' : St σ μ)
    (h : round simps npc maxParam d e st = some st') :
    ∃ uniqInv uniq' add,
      simplifyAll (simps st.rounds.length) e (!e && st.count != 0) d ((uniqueKeys st.allFun).map npc) uniqInv
        (List.range (maxParam + 1)) (uniqueKeys st.allFun, List.replicate (uniqueKeys st.allFun).length none)
          = some (uniq', add) ∧
      st'.allFun = (step3 (uniqueKeys st.allFun) uniq' add d st.allFun (List.replicate st.allFun.length none)).1 ∧
      st'.rounds = st.rounds ++ [⟨e, (!e && st.count != 0),
        (step3 (uniqueKeys st.allFun) uniq' add d st.allFun (List.replicate st.allFun.length none)).2⟩] := by
  unfold round at h
  simp only at h
  split at h
  · split at h
    · exact absurd h (by simp)
    · rename_i uniq' add hsa
      injection h with h
      subst h
      exact ⟨_, uniq', add, hsa, rfl, rfl⟩
  · exact absurd h (by simp)

/-- per-function outputs keep one entry per function -/
def LenInv (n : Nat) (st : St σ μ) : Prop := st.allFun.length = n ∧ ∀ r ∈ st.rounds, r.allInv.length = n

theorem round_len (simps : Nat → Oracle σ μ) (npc : σ → Nat) (maxParam : Nat) (d : σ) (e : Bool) (n : Nat)
    (st st' : St σ μ) (hinv : LenInv n st) (h : round simps npc maxParam d e st = some st') : LenInv n st' := by
  obtain ⟨_, uniq', add, _, hf, hr⟩ := round_some simps npc maxParam d e st st' h
  have hl := step3_length (uniqueKeys st.allFun) uniq' add d st.allFun
  refine ⟨by rw [hf, hl.1, hinv.1], ?_⟩
  intro r hr'
  rw [hr] at hr'
  simp only [List.mem_append, List.mem_singleton] at hr'
  rcases hr' with h1 | h1
  · exact hinv.2 r h1
  · rw [h1]; simp only; rw [hl.2, hinv.1]

section Sound
variable (den : σ → Θ → V) (np : σ → Nat) (ap : μ → Θ → Θ)

/-- every function is soundly merged into its current string with everything recorded for it so far -/
def SoundInv (orig : List σ) (d : σ) (st : St σ μ) : Prop :=
  ∀ i, i < orig.length → Sound den np ap (orig.getD i d) (st.allFun.getD i d) (chainOf st.rounds i)

/-- **One round preserves soundness** (get_unique_indexes, the partition loop, `add_inv_subs`, step (3)). -/
theorem round_preserves (simps : Nat → Oracle σ μ) (hs : ∀ g, OracleSound den np ap (simps g)) (npc : σ → Nat)
    (maxParam : Nat) (d : σ) (e : Bool) (orig : List σ) (st st' : St σ μ) (hlen : LenInv orig.length st)
    (hinv : SoundInv den np ap orig d st) (h : round simps npc maxParam d e st = some st') :
    SoundInv den np ap orig d st' := by
  obtain ⟨uniqInv, uniq', add, hsa, hf, hr⟩ := round_some simps npc maxParam d e st st' h
  intro i hi
  have hi' : i < st.allFun.length := hlen.1 ▸ hi
  obtain ⟨h1, h2⟩ := step3_spec (uniqueKeys st.allFun) uniq' add d st.allFun i hi'
  have hmem : st.allFun.getD i d ∈ st.allFun := by
    simp only [List.getD_eq_getElem?_getD, List.getElem?_eq_getElem hi', Option.getD_some]
    exact List.getElem_mem hi'
  obtain ⟨hlt, hget⟩ := match_total st.allFun (st.allFun.getD i d) hmem d
  have hstep := step2_sound den np ap (simps st.rounds.length) (hs _) e (!e && st.count != 0) d (uniqueKeys st.allFun)
    _ uniqInv (maxParam + 1) uniq' add hsa _ hlt
  rw [hget] at hstep
  rw [hr, chainOf_append, hf, h1]
  simp only
  rw [h2]
  exact propagate_sound den np ap _ _ _ _ _ (hinv i hi) hstep

end Sound

/-! ### any number of rounds -/

/-- states reachable from `st` by any number of rounds of either loop (and the counter resets between the loops) -/
inductive Reach (simps : Nat → Oracle σ μ) (npc : σ → Nat) (maxParam : Nat) (d : σ) : St σ μ → St σ μ → Prop
  | refl (st) : Reach simps npc maxParam d st st
  | step {st st' st''} (e : Bool) : Reach simps npc maxParam d st st' → round simps npc maxParam d e st' = some st'' →
      Reach simps npc maxParam d st st''
  | reset {st st'} (c o : Nat) : Reach simps npc maxParam d st st' →
      Reach simps npc maxParam d st { st' with count := c, oldN := o }

theorem reach_len (simps : Nat → Oracle σ μ) (npc : σ → Nat) (maxParam : Nat) (d : σ) (n : Nat) (st st' : St σ μ)
    (h0 : LenInv n st) (hr : Reach simps npc maxParam d st st') : LenInv n st' := by
  induction hr with
  | refl => exact h0
  | step e _ hround ih => exact round_len simps npc maxParam d e n _ _ ih hround
  | reset c o _ ih => exact ih

/-- **Any number of rounds.** If every oracle call is sound, a state in which every function is soundly merged stays
so through any number of rounds of either loop. -/
theorem reach_sound (den : σ → Θ → V) (np : σ → Nat) (ap : μ → Θ → Θ) (simps : Nat → Oracle σ μ)
    (hs : ∀ g, OracleSound den np ap (simps g)) (npc : σ → Nat) (maxParam : Nat) (d : σ) (orig : List σ)
    (st st' : St σ μ) (hl : LenInv orig.length st) (h0 : SoundInv den np ap orig d st)
    (hr : Reach simps npc maxParam d st st') : SoundInv den np ap orig d st' := by
  induction hr with
  | refl => exact h0
  | step e hreach hround ih =>
    exact round_preserves den np ap simps hs npc maxParam d e orig _ _
      (reach_len simps npc maxParam d _ _ _ hl hreach) ih hround
  | reset c o _ ih => exact ih

theorem loop_reach (simps : Nat → Oracle σ μ) (npc : σ → Nat) (maxParam : Nat) (d : σ) (e : Bool) (fuel : Nat)
    (st st' : St σ μ) (b : Bool) (h : loop simps npc maxParam d e fuel st = some (st', b)) :
    Reach simps npc maxParam d st st' := by
  induction fuel generalizing st with
  | zero =>
    simp only [loop, Option.some.injEq, Prod.mk.injEq] at h
    exact h.1 ▸ Reach.refl st
  | succ fuel ih =>
    simp only [loop] at h
    split at h
    · simp only [Option.some.injEq, Prod.mk.injEq] at h
      exact h.1 ▸ Reach.refl st
    · split at h
      · exact absurd h (by simp)
      · rename_i st1 h1
        have h2 := ih st1 h
        clear ih h
        induction h2 with
        | refl => exact Reach.step e (Reach.refl st) h1
        | step e' _ hr ih' => exact Reach.step e' ih' hr
        | reset c o _ ih' => exact Reach.reset c o ih'

theorem reach_trans (simps : Nat → Oracle σ μ) (npc : σ → Nat) (maxParam : Nat) (d : σ) (a b c : St σ μ)
    (h1 : Reach simps npc maxParam d a b) (h2 : Reach simps npc maxParam d b c) : Reach simps npc maxParam d a c := by
  induction h2 with
  | refl => exact h1
  | step e _ hr ih => exact Reach.step e ih hr
  | reset c o _ ih => exact Reach.reset c o ih

/-- the initial state of do_sympy -/
def st0 (allFun symKeys : List σ) : St σ μ :=
  { allFun := allFun, symKeys := symKeys, oldN := 0, newN := allFun.length, count := 0, rounds := [] }

/-- do_sympy's result is the state after some number of rounds -/
theorem doSympy_reach (simps : Nat → Oracle σ μ) (npc : σ → Nat) (maxParam : Nat) (d : σ) (fuel : Nat)
    (allFun symKeys : List σ) (res : Result σ μ) (h : doSympy simps npc maxParam d fuel allFun symKeys = some res) :
    ∃ st, Reach simps npc maxParam d (st0 allFun symKeys) st ∧ res.allFun = st.allFun ∧ res.rounds = st.rounds := by
  unfold doSympy at h
  simp only at h
  split at h
  · exact absurd h (by simp)
  · rename_i st1 d1 h1
    split at h
    · exact absurd h (by simp)
    · rename_i st2 d2 h2
      injection h with h
      subst h
      refine ⟨st2, ?_, rfl, rfl⟩
      have r1 := loop_reach simps npc maxParam d false fuel _ st1 d1 h1
      have r2 := loop_reach simps npc maxParam d true fuel _ st2 d2 h2
      exact reach_trans simps npc maxParam d _ _ _ (Reach.reset 0 0 r1) r2

/-! ### the round files and their recombination in duplicate_checker -/

/-- everything the rows attribute to function `i`, in file order -/
def collect : List (Nat × List (Entry μ)) → Nat → List (Entry μ)
  | [], _ => []
  | (j, c) :: rest, i => (if j = i then c else []) ++ collect rest i

omit [DecidableEq σ] in
theorem applyRows_spec (rows : List (Nat × List (Entry μ))) (cur : List (List (Entry μ)))
    (hk : ∀ p ∈ rows, p.1 < cur.length) :
    ∃ cur', applyRows cur (rows.map (·.1)) (rows.map (·.2)) = some cur' ∧ cur'.length = cur.length ∧
      ∀ i, cur'.getD i [] = cur.getD i [] ++ collect rows i := by
  induction rows generalizing cur with
  | nil => exact ⟨cur, by simp [applyRows, collect]⟩
  | cons p rest ih =>
    obtain ⟨j, c⟩ := p
    have hj : j < cur.length := hk (j, c) (by simp)
    obtain ⟨cur', h1, h2, h3⟩ := ih (cur.set j (cur.getD j [] ++ c)) (by
      intro p hp
      simpa using hk p (List.mem_cons_of_mem _ hp))
    refine ⟨cur', by simpa [applyRows, hj] using h1, by simpa using h2, ?_⟩
    intro i
    rw [h3 i, getD_set_eq]
    by_cases h : j = i
    · subst h; simp [collect, hj]
    · simp [collect, h]

omit [DecidableEq σ] in
theorem rowsFrom_keys (l : List (OChain μ)) (k : Nat) : ∀ p ∈ rowsFrom k l, p.1 < k + l.length := by
  induction l generalizing k with
  | nil => simp [rowsFrom]
  | cons o rest ih =>
    intro p hp
    cases o with
    | none =>
      have := ih (k + 1) p (by simpa [rowsFrom] using hp)
      simp only [List.length_cons]; omega
    | some c =>
      simp only [rowsFrom, List.mem_cons] at hp
      rcases hp with h | h
      · subst h; simp only [List.length_cons]; omega
      · have := ih (k + 1) p h
        simp only [List.length_cons]; omega

omit [DecidableEq σ] in
theorem collect_rowsFrom_lt (l : List (OChain μ)) (k i : Nat) (h : i < k) : collect (rowsFrom k l) i = [] := by
  induction l generalizing k with
  | nil => simp [rowsFrom, collect]
  | cons o rest ih =>
    cases o with
    | none => simpa [rowsFrom] using ih (k + 1) (by omega)
    | some c =>
      have hne : ¬ k = i := by omega
      simp [rowsFrom, collect, hne, ih (k + 1) (by omega)]

omit [DecidableEq σ] in
/-- the rows of a round file attribute to function `k + i` exactly its own chain of that round -/
theorem collect_rowsFrom (l : List (OChain μ)) (k i : Nat) :
    collect (rowsFrom k l) (k + i) = (l.getD i none).getD [] := by
  induction l generalizing k i with
  | nil => simp [rowsFrom, collect]
  | cons o rest ih =>
    cases i with
    | zero =>
      cases o with
      | none => simpa [rowsFrom] using collect_rowsFrom_lt rest (k + 1) k (by omega)
      | some c => simp [rowsFrom, collect, collect_rowsFrom_lt rest (k + 1) k (by omega)]
    | succ i =>
      have he : k + (i + 1) = (k + 1) + i := by omega
      cases o with
      | none => rw [he]; simpa [rowsFrom] using ih (k + 1) i
      | some c =>
        have hne : ¬ k = k + 1 + i := by omega
        rw [he]
        simp [rowsFrom, collect, hne, ih (k + 1) i]

omit [DecidableEq σ] in
/-- `if len(inv) != 0: idx = loadtxt(...) else: idx = []` changes nothing: the two files have the same number of lines -/
theorem idx_quirk {α : Type} (rows : List (Nat × α)) :
    (if (rows.map (·.2)).isEmpty then [] else rows.map (·.1)) = rows.map (·.1) := by
  cases rows <;> simp

omit [DecidableEq σ] in
theorem combineFrom_spec (n : Nat) (rounds : List (RoundOut μ)) (hl : ∀ r ∈ rounds, r.allInv.length = n)
    (cur : List (List (Entry μ))) (hc : cur.length = n) :
    ∃ chains, combineFrom cur (rounds.map (fun r => (r.idx, r.subs))) = some chains ∧ chains.length = n ∧
      ∀ i, i < n → chains.getD i [] = cur.getD i [] ++ chainOf rounds i := by
  induction rounds generalizing cur with
  | nil => exact ⟨cur, by simp [combineFrom, chainOf, hc]⟩
  | cons r rest ih =>
    have hr := hl r (by simp)
    obtain ⟨cur', h1, h2, h3⟩ := applyRows_spec (rowsFrom 0 r.allInv) cur (by
      intro p hp
      have := rowsFrom_keys r.allInv 0 p hp
      omega)
    obtain ⟨chains, g1, g2, g3⟩ := ih (fun r' hr' => hl r' (List.mem_cons_of_mem _ hr')) cur' (h2.trans hc)
    have hidx : (if r.subs.isEmpty then [] else r.idx) = r.idx := idx_quirk _
    refine ⟨chains, ?_, g2, ?_⟩
    · simp only [List.map_cons, combineFrom, hidx]
      simp only [RoundOut.subs, RoundOut.idx, h1]
      exact g1
    · intro i hi
      rw [g3 i hi, h3 i]
      have := collect_rowsFrom r.allInv 0 i
      simp only [Nat.zero_add] at this
      rw [this]
      simp [chainOf, List.append_assoc]

omit [DecidableEq σ] in
/-- **Recombination.** Re-reading the round files in order and appending row `k` of round `r` to function
`inv_idx[k]`, as duplicate_checker.main does, succeeds and gives every function exactly the concatenation, over the
rounds in order, of what was recorded for it. -/
theorem round_files_recombine (n : Nat) (rounds : List (RoundOut μ)) (hl : ∀ r ∈ rounds, r.allInv.length = n) :
    ∃ chains, combine n (rounds.map (fun r => (r.idx, r.subs))) = some chains ∧ chains.length = n ∧
      ∀ i, i < n → chains.getD i [] = chainOf rounds i := by
  obtain ⟨chains, h1, h2, h3⟩ := combineFrom_spec n rounds hl (List.replicate n []) (by simp)
  refine ⟨chains, h1, h2, ?_⟩
  intro i hi
  rw [h3 i hi]
  simp [List.getD_eq_getElem?_getD, hi]

/-! ### the property for do_sympy + recombination -/

/-- **All per-function outputs have one entry per function** (the list of strings do_sympy returns, `all_inv_subs` of
every round, the chains assembled from the round files, and the match indices after the shuffle). -/
theorem files_same_length (simps : Nat → Oracle σ μ) (npc : σ → Nat) (maxParam : Nat) (d : σ) (fuel : Nat)
    (allFun symKeys : List σ) (res : Result σ μ) (h : doSympy simps npc maxParam d fuel allFun symKeys = some res) :
    res.allFun.length = allFun.length ∧ (∀ r ∈ res.rounds, r.allInv.length = allFun.length) ∧
    (∃ chains, combine allFun.length (res.rounds.map (fun r => (r.idx, r.subs))) = some chains ∧
      chains.length = allFun.length) ∧
    ∀ perm, (shuffleRemap perm (uniqueKeys res.allFun) (res.allFun.map (firstIndex (uniqueKeys res.allFun))) d).2.length
      = allFun.length := by
  obtain ⟨st, hr, hf, hro⟩ := doSympy_reach simps npc maxParam d fuel allFun symKeys res h
  have hl := reach_len simps npc maxParam d allFun.length _ st ⟨rfl, by simp [st0]⟩ hr
  rw [hf, hro]
  obtain ⟨chains, c1, c2, _⟩ := round_files_recombine allFun.length st.rounds hl.2
  exact ⟨hl.1, hl.2, ⟨chains, c1, c2⟩, by simp [shuffleRemap, hl.1]⟩

/-- **do_sympy is sound.** If every call of the CAS step is sound then, however many rounds the two loops make, the
round files recombine (as duplicate_checker does it) to one chain per function, and every function `i` is `Sound`
w.r.t. the string it ends with — which is the unique its match index points at — and that chain: the parameter count
never rises, a chain holding the nan marker goes with strictly fewer parameters, and otherwise substituting the chain
into the original function gives the unique pointwise. -/
theorem doSympy_sound (den : σ → Θ → V) (np : σ → Nat) (ap : μ → Θ → Θ) (simps : Nat → Oracle σ μ)
    (hs : ∀ g, OracleSound den np ap (simps g)) (npc : σ → Nat) (maxParam : Nat) (d : σ) (fuel : Nat)
    (allFun symKeys : List σ) (res : Result σ μ) (h : doSympy simps npc maxParam d fuel allFun symKeys = some res) :
    ∃ chains, combine allFun.length (res.rounds.map (fun r => (r.idx, r.subs))) = some chains ∧
      chains.length = allFun.length ∧ res.allFun.length = allFun.length ∧
      ∀ i, i < allFun.length →
        (uniqueKeys res.allFun).getD (firstIndex (uniqueKeys res.allFun) (res.allFun.getD i d)) d = res.allFun.getD i d ∧
        Sound den np ap (allFun.getD i d) (res.allFun.getD i d) (chains.getD i []) := by
  obtain ⟨st, hr, hf, hro⟩ := doSympy_reach simps npc maxParam d fuel allFun symKeys res h
  have hl0 : LenInv allFun.length (st0 (μ := μ) allFun symKeys) := ⟨rfl, by simp [st0]⟩
  have hl := reach_len simps npc maxParam d allFun.length _ st hl0 hr
  have hsound := reach_sound den np ap simps hs npc maxParam d allFun _ st hl0 (by
    intro i _
    simpa [st0, chainOf] using sound_refl den np ap (allFun.getD i d)) hr
  obtain ⟨chains, c1, c2, c3⟩ := round_files_recombine allFun.length st.rounds hl.2
  rw [hf, hro]
  refine ⟨chains, c1, c2, hl.1, ?_⟩
  intro i hi
  have hi' : i < st.allFun.length := hl.1 ▸ hi
  have hmem : st.allFun.getD i d ∈ st.allFun := by
    simp only [List.getD_eq_getElem?_getD, List.getElem?_eq_getElem hi', Option.getD_some]
    exact List.getElem_mem hi'
  exact ⟨(match_total st.allFun _ hmem d).2, c3 i hi ▸ hsound i hi⟩

/-! ### extra trees -/

omit [DecidableEq σ] in
theorem mapM_getElem_spec {α : Type} (l : List α) (ex : List Nat) (new : List α) (h : ex.mapM (fun f => l[f]?) = some new) :
    new.length = ex.length ∧ ∀ k, k < ex.length → new[k]? = l[ex.getD k 0]? := by
  induction ex generalizing new with
  | nil => simp at h; simp [h]
  | cons e ex ih =>
    simp only [List.mapM_cons, Option.bind_eq_bind, Option.bind_eq_some_iff, Option.pure_def, Option.some.injEq] at h
    obtain ⟨x, hx, rest, hrest, hnew⟩ := h
    subst hnew
    obtain ⟨i1, i2⟩ := ih rest hrest
    refine ⟨by simp [i1], ?_⟩
    intro k hk
    cases k with
    | zero => simp [hx]
    | succ k => simpa using i2 k (by simpa using hk)

omit [DecidableEq σ] in
/-- `all_fun[-nextra:] = [all_fun[f] for f in extra_orig]`: same number of rows; the row of extra tree `k` now holds the
string of row `extra_orig[k]`; rows before the extras are unchanged. -/
theorem inherit_spec (allFun : List σ) (ex : List Nat) (l : List σ) (d : σ) (hne : ex.length ≤ allFun.length)
    (h : inherit allFun ex = some l) :
    l.length = allFun.length ∧
    (∀ k, k < ex.length → l.getD (allFun.length - ex.length + k) d = allFun.getD (ex.getD k 0) d) ∧
    (∀ m, m < allFun.length - ex.length → l.getD m d = allFun.getD m d) := by
  unfold inherit at h
  split at h
  · rename_i hemp
    injection h with h
    subst h
    have : ex = [] := by simpa using hemp
    subst this
    exact ⟨rfl, by simp, fun _ _ => rfl⟩
  · split at h
    · exact absurd h (by simp)
    · rename_i new hnew
      injection h with h
      subst h
      obtain ⟨n1, n2⟩ := mapM_getElem_spec allFun ex new hnew
      refine ⟨by simp [n1]; omega, ?_, ?_⟩
      · intro k hk
        have hlen : (allFun.take (allFun.length - ex.length)).length = allFun.length - ex.length := by simp
        simp only [List.getD_eq_getElem?_getD]
        rw [List.getElem?_append_right (by omega)]
        simp only [hlen, Nat.add_sub_cancel_left]
        rw [n2 k hk]
        simp [List.getD_eq_getElem?_getD]
      · intro m hm
        simp only [List.getD_eq_getElem?_getD]
        rw [List.getElem?_append_left (by simp; omega)]
        have hm2 : m < allFun.length := by omega
        simp [hm, hm2]

/-- within a round, what happens to a function depends only on its string -/
theorem round_same_string (simps : Nat → Oracle σ μ) (npc : σ → Nat) (maxParam : Nat) (d : σ) (e : Bool) (st st' : St σ μ)
    (h : round simps npc maxParam d e st = some st') (i j : Nat) (hi : i < st.allFun.length) (hj : j < st.allFun.length)
    (hs : st.allFun.getD i d = st.allFun.getD j d) :
    st'.allFun.getD i d = st'.allFun.getD j d ∧
    ∀ r, st'.rounds = st.rounds ++ [r] → (r.allInv.getD i none).getD [] = (r.allInv.getD j none).getD [] := by
  obtain ⟨_, uniq', add, _, hf, hr⟩ := round_some simps npc maxParam d e st st' h
  obtain ⟨a1, a2⟩ := step3_spec (uniqueKeys st.allFun) uniq' add d st.allFun i hi
  obtain ⟨b1, b2⟩ := step3_spec (uniqueKeys st.allFun) uniq' add d st.allFun j hj
  refine ⟨by rw [hf, a1, b1, hs], ?_⟩
  intro r hr'
  rw [hr] at hr'
  have := List.append_cancel_left hr'
  simp only [List.cons.injEq, and_true] at this
  rw [← this]
  simp only
  rw [a2, b2, hs]

theorem reach_same_string (simps : Nat → Oracle σ μ) (npc : σ → Nat) (maxParam : Nat) (d : σ) (n : Nat) (st st' : St σ μ)
    (hl : LenInv n st) (hr : Reach simps npc maxParam d st st') (i j : Nat) (hi : i < n) (hj : j < n)
    (hs : st.allFun.getD i d = st.allFun.getD j d) (hc : chainOf st.rounds i = chainOf st.rounds j) :
    st'.allFun.getD i d = st'.allFun.getD j d ∧ chainOf st'.rounds i = chainOf st'.rounds j := by
  induction hr with
  | refl => exact ⟨hs, hc⟩
  | step e hreach hround ih =>
    rename_i sta stb
    have hla := reach_len simps npc maxParam d n _ _ hl hreach
    obtain ⟨r1, r2⟩ := round_same_string simps npc maxParam d e sta stb hround i j (hla.1 ▸ hi) (hla.1 ▸ hj) ih.1
    obtain ⟨_, _, _, _, _, hro⟩ := round_some simps npc maxParam d e sta stb hround
    refine ⟨r1, ?_⟩
    have := r2 _ hro
    rw [hro, chainOf_append, chainOf_append, ih.2, this]
  | reset c o _ ih => exact ih

/-- **Extra trees inherit their original.** After `all_fun[-nextra:] = [all_fun[f] for f in extra_orig]`, the row of
extra tree `k` (index `norig + k`) and the row `extra_orig[k]` of its original (an original row, `< norig`) go through
do_sympy together, whatever the CAS does: same final string — hence the same unique and match index — and the same
chain in `inv_subs_<n>.txt`. -/
theorem extras_inherit_original (simps : Nat → Oracle σ μ) (npc : σ → Nat) (maxParam : Nat) (d : σ) (fuel : Nat)
    (gen symKeys : List σ) (ex : List Nat) (hex : ex.length ≤ gen.length) (l : List σ) (hin : inherit gen ex = some l)
    (res : Result σ μ) (h : doSympy simps npc maxParam d fuel l symKeys = some res) (k : Nat) (hk : k < ex.length)
    (horig : ex.getD k 0 < gen.length - ex.length) :
    l.getD (gen.length - ex.length + k) d = gen.getD (ex.getD k 0) d ∧
    res.allFun.getD (gen.length - ex.length + k) d = res.allFun.getD (ex.getD k 0) d ∧
    firstIndex (uniqueKeys res.allFun) (res.allFun.getD (gen.length - ex.length + k) d)
      = firstIndex (uniqueKeys res.allFun) (res.allFun.getD (ex.getD k 0) d) ∧
    ∃ chains, combine l.length (res.rounds.map (fun r => (r.idx, r.subs))) = some chains ∧
      chains.getD (gen.length - ex.length + k) [] = chains.getD (ex.getD k 0) [] := by
  obtain ⟨i1, i2, i3⟩ := inherit_spec gen ex l d hex hin
  obtain ⟨st, hr, hf, hro⟩ := doSympy_reach simps npc maxParam d fuel l symKeys res h
  have hl0 : LenInv l.length (st0 (μ := μ) l symKeys) := ⟨rfl, by simp [st0]⟩
  have hl := reach_len simps npc maxParam d l.length _ st hl0 hr
  have hA : gen.length - ex.length + k < l.length := by omega
  have hB : ex.getD k 0 < l.length := by omega
  have hsame : l.getD (gen.length - ex.length + k) d = l.getD (ex.getD k 0) d := by rw [i2 k hk, i3 _ horig]
  obtain ⟨s1, s2⟩ := reach_same_string simps npc maxParam d l.length _ st hl0 hr _ _ hA hB
    (by simpa [st0] using hsame) (by simp [st0, chainOf])
  obtain ⟨chains, c1, _, c3⟩ := round_files_recombine l.length st.rounds hl.2
  rw [hf, hro]
  exact ⟨i2 k hk, s1, by rw [s1], chains, c1, by rw [c3 _ hA, c3 _ hB, s2]⟩

/-! ### non-vacuity: a tiny concrete CAS -/

section Example
/-- a tiny CAS: in round 0 `-a0` is rewritten to `a0` recording the sign flip; in round 1 the two-parameter `a0*a1` is
merged into the one-parameter `a0` with the nan marker; nothing else ever changes -/
def exRw : Nat → Nat → String → String × OChain Unit
  | 0, _, "-a0" => ("a0", some [.map ()])
  | 1, _, "a0*a1" => ("a0", some [.nan])
  | _, _, s => (s, none)

def exSimps (g : Nat) : Oracle String Unit := pointwiseOracle (exRw g)
def exNp (s : String) : Nat := if s = "x" then 0 else if s = "a0*a1" then 2 else 1
def exDen (s : String) (θ : Int) : Int := if s = "-a0" then -θ else if s = "x" then 0 else θ

/-- the concrete oracle satisfies the hypothesis of `doSympy_sound` -/
example : ∀ g, OracleSound exDen exNp (fun (_ : Unit) θ => -θ) (exSimps g) := by
  intro g
  apply pointwise_sound
  intro i s
  unfold exRw
  split
  · simp [Sound, hasNan, chainMap, exNp, exDen]
  · simp [Sound, hasNan, exNp]
  · exact sound_refl _ _ _ _

def exRun := doSympy exSimps exNp 2 "?" 10 ["-a0", "a0", "x", "a0*a1", "-a0"] ["-a0", "a0", "x", "a0*a1"]

example : exRun.map (·.allFun) = some ["a0", "a0", "x", "a0", "a0"] := by decide
example : exRun.map (fun r => (r.nround, r.finished)) = some (4, true) := by decide
example : exRun.map (fun r => r.rounds.map (fun o => (o.expandFun, o.checkPerm, o.idx))) =
    some [(false, false, [0, 4]), (false, true, [3]), (false, true, []), (true, false, [])] := by decide
example : exRun.bind (fun r => combine 5 (r.rounds.map (fun o => (o.idx, o.subs)))) =
    some [[.map ()], [], [], [.nan], [.map ()]] := by decide
/-- a KeyError (a unique that is not a key of the sympy dict) is an error of the model, not a silent default -/
example : (doSympy exSimps exNp 2 "?" 10 ["-a0", "x"] ["x"]).isNone = true := by decide
example : inherit ["a0", "x", "q", "r"] [1, 0] = some ["a0", "x", "x", "a0"] := by decide
example : inherit ["a0", "x"] [5] = none := by decide
example : combine (μ := Unit) 2 [([0, 1], [[.nan]])] = none := by decide
end Example

end ESR.C03
