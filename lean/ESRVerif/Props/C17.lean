import ESRVerif.Model.Subs
import ESRVerif.Generated.Subs
import ESRVerif.Proofs.Subs
import ESRVerif.Props.C14
/-!
C17 — parameter-map bookkeeping: file round trip and inverse-pair cancellation.

Property theorems only (helper lemmas: `ESRVerif/Proofs/Subs.lean`; model: `ESRVerif/Model/Subs.lean`;
source-derived tables: `ESRVerif/Generated/Subs.lean`).  Core Lean only.
-/
namespace ESR.C17
open ESR.Subs

/-! ### T: the source-derived tables are the ones the model and the theorems below are about -/

/-- The `.replace` sequence, nan literal, csv delimiters, rank-block expression and `all_dup` construction extracted
from the current source are exactly those of the model (`Model/Subs.lean`).  `combOrder` is what the translator's
symbolic evaluation of `comb` found: 2-combinations of the parameter indices in descending order (whichever of
`np.flip(np.arange(n))`, `np.arange(n)[::-1]`, `range(n-1, -1, -1)`, … the source spells it with) = `Subs.comb`. -/
theorem generated_matches_model :
    ESR.Gen.Subs.replaceSeq = replaceSeq ∧
    ESR.Gen.Subs.nanLiteral = nanCell ∧
    (ESR.Gen.Subs.sliceLo, ESR.Gen.Subs.sliceHi) = (0, 1) ∧
    ESR.Gen.Subs.readerDelimiter = ';' ∧
    (∀ d ∈ ESR.Gen.Subs.writerDelimiters, d = ';') ∧
    ESR.Gen.Subs.combOrder = "descending" ∧
    (∀ k, genAllDup k = allDup k) := by
  refine ⟨by decide, by decide, by decide, by decide, by decide, rfl, ?_⟩
  intro k
  simp [genAllDup, ESR.Gen.Subs.allDupStmts, genDupOf, ofU, sel, allDup, negT, invT, one]

/-- Every inverse-substitution template of `sympy_simplify`, and every expression it appends to a chain, belongs to a
family of the model (`Subs.family`); nothing is `unknown`. -/
theorem templates_recognised :
    ESR.Gen.Subs.templates.map (fun t => (t.1, t.2.1)) =
      [("scale", "numbers"), ("evenroot", "even"), ("oddroot", "odd"), ("evenroot1", "even"), ("oddroot1", "odd"),
       ("sqrtabs", "-"), ("cuberoot", "-"), ("sqrtabs", "-"), ("cuberootabs", "-"), ("square", "-"), ("exp", "-"),
       ("logabs", "-")] ∧
    ESR.Gen.Subs.recordSites.map (fun t => t.1) =
      ["template", "nan", "rename", "perm", "neg", "pair-keep", "pair-keep"] := by
  constructor <;> rfl

/-! ### the text format -/

/-- The printed form of any term contains none of the characters the text transformation, `literal_eval` or the
csv layer treats specially: `{ } , : space ' ; " \r \n \`  (hence none of `", "`, `": "`). -/
theorem no_separator_inside (t : PTerm) : ∀ c ∈ toChars t, c ∉ sepChars :=
  toChars_safe t

/-- `sympify(str(t)) = t` in the model on the whole template table (4 parameters, |n| ≤ 6, rationals with
denominator ≤ 4) and on the parameters themselves: by kernel evaluation of the model parser on every entry. -/
theorem parse_print_templates :
    (∀ j, j < 4 → ∀ t ∈ unaryValues 6 j, parseTerm (toChars t) = some t) ∧
    (∀ i, i < 4 → parseTerm (toChars (.param i)) = some (.param i)) :=
  ⟨rt_templates, rt_params⟩

/-- Reading back what was written gives the same mapping, for every map of the template language; the unrecoverable
marker stays the unrecoverable marker. -/
theorem load_dump (m : PMap) (hm : TemplateMap m) :
    loadCell (dumpEntry (.map m)) = some (.map m) ∧ loadCell (dumpEntry .nan) = some .nan :=
  ⟨loadCell_dump _ (templateMap_good m hm), loadCell_dump .nan trivial⟩

/-- The same for *any* map whose printed keys and values parse back (no bound on parameters or integers): the quote
insertion by four `str.replace` calls is lossless because of `no_separator_inside`. -/
theorem load_dump_of_parse (e : Entry) (h : GoodEntry e) : loadCell (dumpEntry e) = some e :=
  loadCell_dump e h

/-! ### the file, any number of ranks -/

/-- `load_subs` on `P ≥ 1` ranks returns the rows that were written: row `i` stays row `i`, empty rows stay empty
(csv read, `np.array_split` blocks, scatter, per-cell transform, gather, chain).  Uses C14's tiling theorem. -/
theorem rows_preserved (rows : List (List Entry)) (P : Nat) (hP : 1 ≤ P)
    (h : ∀ row ∈ rows, ∀ e ∈ row, TemplateEntry e) :
    loadFile P (dumpFile rows) = some rows := by
  apply loadFile_dumpFile_of_tile rows P (fun row hr e he => templateEntry_good e (h row hr e he))
  have := ESR.C14.blocks_tile rows P hP
  simpa [rankSlice_eq_blockSlice] using this

/-! ### self-inverse maps and cancellation -/

/-- Every element of `all_dup` (as the current source builds it) is its own inverse as a function on parameter
vectors, away from zeros (needed only by the reciprocals) — over any carrier satisfying `-(-x) = x` and
`1/(1/x) = x` for `x ≠ 0`. -/
theorem dup_involutive {α : Type} (o : Ops α) (zero : α) (laws : InvolLaws o zero) (k : Nat) (d : PMap)
    (hd : d ∈ genAllDup k) (θ : Nat → α) (hθ : ∀ j, j < k → θ j ≠ zero) :
    applyMap o d (applyMap o d θ) = θ := by
  rw [generated_matches_model.2.2.2.2.2.2 k] at hd
  exact allDup_involutive o zero laws k d hd θ hθ

/-- The index loop of `simplify_inv_subs` (with its `del_idx` bookkeeping and `None` for an empty result) removes
exactly the leftmost non-overlapping adjacent equal pairs whose element is in `all_dup`. -/
theorem simplify_is_cancel {β : Type} [DecidableEq β] (dup xs : List β) :
    (simplifyInvSubs dup (some xs)).getD [] = cancel dup xs := by
  rw [simplifyInvSubs_eq]
  by_cases h : xs = []
  · subst h; simp [cancel]
  · simp only [h, if_false]
    by_cases h2 : cancel dup xs = []
    · simp [h2]
    · simp [h2]

/-- Cancellation never changes the composition of a chain (any length), on every θ whose intermediate parameter
vectors have no zero among the first `k` components. -/
theorem cancel_preserves {α : Type} (o : Ops α) (zero : α) (laws : InvolLaws o zero) (k : Nat) (c : Chain)
    (θ : Nat → α) (hreg : Regular o zero k c θ) :
    denote o ((simplifyInvSubs (allDupEntries k) (some c)).getD []) θ = denote o c θ := by
  rw [simplify_is_cancel]
  exact cancel_denote o zero laws k θ c.length c (Nat.le_refl _) hreg

/-- Cancellation never removes (or adds) an unrecoverable marker; a chain is unrecoverable before iff after. -/
theorem cancel_keeps_nan {α : Type} (o : Ops α) (k : Nat) (c : Chain) (θ : Nat → α) :
    ((simplifyInvSubs (allDupEntries k) (some c)).getD []).count .nan = c.count .nan ∧
    (denote o ((simplifyInvSubs (allDupEntries k) (some c)).getD []) θ = none ↔ denote o c θ = none) := by
  rw [simplify_is_cancel]
  have hc := cancel_count (allDupEntries k) Entry.nan (nan_not_mem_allDupEntries k) c.length c (Nat.le_refl _)
  refine ⟨hc, ?_⟩
  rw [denote_none_iff, denote_none_iff, ← List.count_pos_iff, ← List.count_pos_iff, hc]

/-! ### non-vacuity -/

/-- ℚ (core `Rat`) as a carrier: the laws are satisfiable. -/
def ratOps : Ops Rat where
  ofNat n := (n : Rat)
  ofDec i _ := (i : Rat)
  nan := 0
  neg x := -x
  mul x y := x * y
  div x y := x / y
  pow x _ := x
  abs x := if x < 0 then -x else x
  sqrt x := x
  sign x := if x < 0 then -1 else if x = 0 then 0 else 1
  exp x := x
  log x := x

example : InvolLaws ratOps 0 :=
  ⟨fun x => Rat.neg_neg x, fun x _ => by simp [ratOps, Rat.div_def, Rat.inv_inv]⟩

-- the chain of DESIGN §4: [{a0: 1/a0}, {a0: 1/a0}, {a0: -a0}, nan] keeps its nan; without it the pair cancels
example : (simplifyInvSubs (allDupEntries 2)
      (some [.map [(0, invT 0)], .map [(0, invT 0)], .map [(0, negT 0)], .nan])).getD []
    = [.map [(0, negT 0)], .nan] := by decide
example : simplifyInvSubs (allDupEntries 1) (some [.map [(0, negT 0)], .map [(0, negT 0)]]) = none := by decide
-- adjacent but not in all_dup: kept;  A B B A collapses only once (single pass)
example : (simplifyInvSubs (allDupEntries 1) (some [.map [(0, scaleT 0 2 1)], .map [(0, scaleT 0 2 1)]])).getD []
    = [.map [(0, scaleT 0 2 1)], .map [(0, scaleT 0 2 1)]] := by decide
example : (simplifyInvSubs (allDupEntries 1)
      (some [.map [(0, negT 0)], .map [(0, invT 0)], .map [(0, invT 0)], .map [(0, negT 0)]])).getD []
    = [.map [(0, negT 0)], .map [(0, negT 0)]] := by decide
-- the round trip on a concrete file over 3 ranks, with an empty row and a two-key map
example : loadFile 3 (dumpFile [[.map [(0, scaleT 0 (-3) 2)], .nan], [], [.map [(1, .param 0), (0, .param 1)]]])
    = some [[.map [(0, scaleT 0 (-3) 2)], .nan], [], [.map [(1, .param 0), (0, .param 1)]]] := by decide +kernel
example : TemplateMap [(1, .param 0), (0, .param 1)] :=
  Or.inr ⟨by simp, by decide, by decide⟩
example : TemplateMap [(2, oddRoot1T 2 (-5))] := Or.inl ⟨2, by decide, _, by decide +kernel, rfl⟩
example : String.ofList (dumpMap [(2, oddRoot1T 2 (-5))]) = "{a2: sign(a2)/Abs(a2)**(1/4)}" := by decide +kernel
example : (allDup 2).map (fun m => String.ofList (dumpMap m))
    = ["{a0: -a0}", "{a1: -a1}", "{a0: 1/a0}", "{a1: 1/a1}", "{a1: a0, a0: a1}", "{a0: a1, a1: a0}"] := by decide +kernel
-- a vector regular for the chain [{a0: 1/a0}, {a0: 1/a0}] over ℚ
example : denote ratOps [.map [(0, invT 0)], .map [(0, invT 0)]] (fun _ => 2) = some (fun _ => 2) := by
  simp only [denote]
  congr 1
  exact allDup_involutive ratOps 0 ⟨fun x => Rat.neg_neg x, fun x _ => by simp [ratOps, Rat.div_def, Rat.inv_inv]⟩
    1 [(0, invT 0)] (by decide) (fun _ => 2) (fun _ _ => by decide)

end ESR.C17
