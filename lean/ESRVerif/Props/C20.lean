import ESRVerif.Generated.Single
import ESRVerif.Props.C08
/-!
C20 — fitting a single tree agrees with the library pipeline and the closed form.

The single-tree API is a composition of the very routines the pipeline stages run; which routines, in which order,
and how the result is assembled is regenerated from the source.  Proved here: the assembly (the returned description
length is the sum, in source order, of the likelihood term returned by the Fisher routine, the parameter code length
returned by the same call, and the tree code length) and that each term comes from the pipeline's own routine, so that
C10 (optimiser), C07 (code length and snapping), C08 (tree code length; `single_function_agrees`) apply verbatim.
NOT proved: that two independent optimiser runs (single API vs pipeline) land on the same optimum — `MinimiserSpec`,
sampled on every run against the pipeline rows and the closed form.
-/
namespace ESR.C20
open ESR.Gen.Single

/-! The table names a value by where it comes from, never by the local variable that holds it (normal form of
`harness/extractors/single.py`): `<module>.<routine>[i]` is the i-th element of the result of the only call of that
routine on the path.  The theorems therefore hold for every source that computes the same values. -/

/-- the Fisher routine of the pipeline's Fisher stage -/
def fisher : String := "esr.fitting.test_all_Fisher.convert_params"
/-- the tree code length routine of the generator -/
def treeLen : String := "esr.generation.generator.aifeyn_complexity"
/-- the optimiser of the pipeline's fitting stage -/
def optimiser : String := "esr.fitting.test_all.optimise_fun"

/-- the returned description length is `negloglike + codelen + aifeyn`, in that order: the (re-evaluated) likelihood
term and the parameter code length are elements 1 and 3 of the result of ONE call of the Fisher routine
(`return params, negloglike, deriv, codelen`), the tree code length is the result of `aifeyn_complexity` -/
theorem single_DL_is_sum : dlTerms = [fisher ++ "[1]", fisher ++ "[3]", treeLen ++ "()"] := by decide

/-- the likelihood term and the parameter code length are the two results of ONE call of the Fisher routine, the tree
code length is `aifeyn_complexity` -/
theorem terms_from_pipeline_routines :
    termSource = [(fisher, "1"), (fisher, "3"), (treeLen, "all")] := by
  decide

/-- those routines are the pipeline's own: `optimise_fun` of the fitting stage, `convert_params` of the Fisher stage,
`aifeyn_complexity` of the generator (`run_sympify` is the likelihood object's own parser, as in the Fisher stage) -/
theorem routines_are_the_pipelines :
    routineModule = [("optimise_fun", "esr.fitting.test_all"), ("run_sympify", "likelihood"),
      ("convert_params", "esr.fitting.test_all_Fisher"), ("aifeyn_complexity", "esr.generation.generator")] := by decide

/-- fit, then parse, then Fisher/code length, then tree code length -/
theorem call_order : callOrder = [optimiser, "likelihood.run_sympify", fisher, treeLen] := by
  decide

/-- what is returned first, on every path with a description length (with and without `return_params`, whatever
`verbose`), is the (possibly re-evaluated) likelihood term of the Fisher routine, and second that sum.  (Further
elements of the tuple - the parameters - are not part of the property.) -/
theorem returns_nll_and_DL :
    returns.map (fun p => (p.1, p.2.take 2)) =
      [("mse=0,params=0", [fisher ++ "[1]", fisher ++ "[1] + " ++ fisher ++ "[3] + " ++ treeLen ++ "()"]),
       ("mse=0,params=1", [fisher ++ "[1]", fisher ++ "[1] + " ++ fisher ++ "[3] + " ++ treeLen ++ "()"])] := by decide

/-- the second returned value is the sum of `dlTerms`, and its first term is the first returned value -/
theorem returned_DL_is_dlTerms :
    ∀ p ∈ returns, p.2[1]? = some (" + ".intercalate dlTerms) ∧ p.2[0]? = dlTerms.head? := by decide +kernel

/-- The sum as a function: with exact arithmetic the returned description length minus the returned likelihood term is
the parameter code length plus the tree code length. -/
theorem DL_minus_nll (nll codelen aifeyn : Int) :
    (nll + codelen + aifeyn) - nll = codelen + aifeyn := by omega

end ESR.C20
