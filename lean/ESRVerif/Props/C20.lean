import ESRVerif.Generated.Single
import ESRVerif.Props.C08
/-!
C20 — fitting a single tree agrees with the library pipeline and the closed form.

The single-tree API is a composition of the very routines the pipeline stages run; which routines, in which order,
and how the result is assembled is regenerated from the source.  Proved here: the assembly (the returned description
length is the sum, in source order, of the likelihood term returned by the Fisher routine, the parameter code length
returned by the same call, and the tree code length) and that each term comes from the pipeline's own routine, so that
C10 (optimiser), C07 (code length and snapping), C08 (tree code length; `single_function_agrees`) apply verbatim.
NOT proved: that two independent optimiser runs (single API vs pipeline) land on the same optimum — `MinimiserSpec`,
sampled on every run against the pipeline rows and the closed form.
-/
namespace ESR.C20
open ESR.Gen.Single

/-- the returned description length is `negloglike + codelen + aifeyn`, in that order -/
theorem single_DL_is_sum : dlTerms = ["negloglike", "codelen", "aifeyn"] := by decide

/-- the likelihood term and the parameter code length are the two results of ONE call of the Fisher routine, the tree
code length is `aifeyn_complexity` -/
theorem terms_from_pipeline_routines :
    termSource = [("negloglike", "convert_params"), ("codelen", "convert_params"), ("aifeyn", "generator.aifeyn_complexity")] := by
  decide

/-- those routines are the pipeline's own: `optimise_fun` of the fitting stage, `convert_params` of the Fisher stage,
`aifeyn_complexity` of the generator -/
theorem routines_are_the_pipelines :
    routineModule = [("optimise_fun", "esr.fitting.test_all"), ("convert_params", "esr.fitting.test_all_Fisher"),
      ("generator", "esr.generation.generator")] := by decide

/-- fit, then parse, then Fisher/code length, then tree code length -/
theorem call_order : callOrder = ["optimise_fun", "likelihood.run_sympify", "convert_params", "generator.aifeyn_complexity"] := by
  decide

/-- what is returned is the (possibly re-evaluated) likelihood term and that sum -/
theorem returns_nll_and_DL : returns = ["(negloglike, DL)", "(negloglike, DL, params)"] := by decide

/-- The sum as a function: with exact arithmetic the returned description length minus the returned likelihood term is
the parameter code length plus the tree code length. -/
theorem DL_minus_nll (nll codelen aifeyn : Int) :
    (nll + codelen + aifeyn) - nll = codelen + aifeyn := by omega

end ESR.C20
