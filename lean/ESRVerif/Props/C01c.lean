import ESRVerif.Props.C01b
import ESRVerif.Proofs.Shape
import ESRVerif.Proofs.ShapePtr
/-!
C01 — part 3: the labelled output is duplicate-free ("every such tree once"), and the headline statement that
combines it with `mem_generate`; and the pointer-level model of `check_tree` (parent-pointer climb, as the
Python is written) equals the stack model the other C01 theorems are about.
-/
namespace ESR.C01
open ESR.Shape ESR.Labeling ESR.ShapeProofs

/-! ### duplicate-freeness of the labelled output -/

theorem row0_length (b : Basis) (s : List Nat) (r : List String)
    (hr : r ∈ (product b.b0 (countArity s 0)).map renumberRow) : r.length = countArity s 0 := by
  rw [List.mem_map] at hr
  obtain ⟨r0, h0, rfl⟩ := hr
  unfold renumberRow
  rw [length_renumberFrom]
  exact ((mem_product _ _ _).mp h0).1

/-- The renumbered nullary rows are pairwise different (renumbering is injective on rows over a well-formed
nullary class). -/
theorem rows0_nodup (b : Basis) (hb : b.WellFormed) (n : Nat) :
    ((product b.b0 n).map renumberRow).Nodup := by
  obtain ⟨n0, _, _, _, _, _, _, hp⟩ := hb
  apply nodup_map_of _ _ (product_nodup _ n0 n)
  intro r hr r' hr' h
  have hm := ((mem_product _ _ _).mp hr).2
  have hm' := ((mem_product _ _ _).mp hr').2
  exact renumberFrom_inj 0 r r' (fun x hx => hp x (by simp [hm x hx])) (fun x hx => hp x (by simp [hm' x hx])) h

/-- With disjoint classes the arity string is recoverable from an emitted label list — also after
renumbering, because `a<k>` is not a unary or binary label. -/
theorem shapeToTrees_arity (b : Basis) (hb : b.WellFormed) (s : List Nat) (hs : ∀ a ∈ s, a ≤ 2)
    (L : List String) (hL : L ∈ shapeToTrees s b) : L.map (arityOf b) = s := by
  obtain ⟨_, _, _, d0, d1, _, _, hp⟩ := hb
  unfold shapeToTrees at hL
  simp only [List.mem_flatMap, List.mem_map] at hL
  obtain ⟨r0', ⟨r0, hr0, rfl⟩, r1, hr1, r2, hr2, rfl⟩ := hL
  obtain ⟨l0, m0⟩ := (mem_product _ _ _).mp hr0
  obtain ⟨l1, m1⟩ := (mem_product _ _ _).mp hr1
  obtain ⟨l2, m2⟩ := (mem_product _ _ _).mp hr2
  apply fill_map_arity (arityOf b) s hs _ _ _ (by unfold renumberRow; rw [length_renumberFrom]; exact l0) l1 l2
  · intro x hx
    unfold arityOf
    rcases mem_renumberFrom 0 r0 x hx with h | h
    · have := d0 x (m0 x h)
      simp [this.1, this.2]
    · have h1 : x ∉ b.b1 := fun hm => by
        have := hp x (by simp [hm]); rw [h] at this; exact absurd this (by simp)
      have h2 : x ∉ b.b2 := fun hm => by
        have := hp x (by simp [hm]); rw [h] at this; exact absurd this (by simp)
      simp [h1, h2]
  · intro x hx
    unfold arityOf
    simp [m1 x hx]
  · intro x hx
    unfold arityOf
    have : x ∉ b.b1 := fun hm => d1 x hm (m2 x hx)
    simp [this, m2 x hx]

/-- One shape never yields the same label list twice. -/
theorem shapeToTrees_nodup (b : Basis) (hb : b.WellFormed) (s : List Nat) (hs : ∀ a ∈ s, a ≤ 2) :
    (shapeToTrees s b).Nodup := by
  have hb' := hb
  obtain ⟨_, n1, n2, _⟩ := hb'
  unfold shapeToTrees
  simp only []
  apply nodup_flatMap_of _ _ (rows0_nodup b hb _)
  · intro r0 hr0
    have l0 := row0_length b s r0 hr0
    apply nodup_flatMap_of _ _ (product_nodup _ n1 _)
    · intro r1 hr1
      have l1 := ((mem_product _ _ _).mp hr1).1
      apply nodup_map_of _ _ (product_nodup _ n2 _)
      intro r2 hr2 r2' hr2' h
      exact (fill_inj s hs r0 r1 r2 r0 r1 r2' l0 l1 ((mem_product _ _ _).mp hr2).1 l0 l1
        ((mem_product _ _ _).mp hr2').1 h).2.2
    · intro r1 hr1 r1' hr1' z hz hz'
      rw [List.mem_map] at hz hz'
      obtain ⟨r2, hr2, rfl⟩ := hz
      obtain ⟨r2', hr2', h⟩ := hz'
      exact (fill_inj s hs r0 r1' r2' r0 r1 r2 l0 ((mem_product _ _ _).mp hr1').1 ((mem_product _ _ _).mp hr2').1
        l0 ((mem_product _ _ _).mp hr1).1 ((mem_product _ _ _).mp hr2).1 h).2.1.symm
  · intro r0 hr0 r0' hr0' z hz hz'
    simp only [List.mem_flatMap, List.mem_map] at hz hz'
    obtain ⟨r1, hr1, r2, hr2, rfl⟩ := hz
    obtain ⟨r1', hr1', r2', hr2', h⟩ := hz'
    exact (fill_inj s hs r0' r1' r2' r0 r1 r2 (row0_length b s r0' hr0') ((mem_product _ _ _).mp hr1').1
      ((mem_product _ _ _).mp hr2').1 (row0_length b s r0 hr0) ((mem_product _ _ _).mp hr1).1
      ((mem_product _ _ _).mp hr2).1 h).1.symm

/-- Two different shapes never yield the same label list. -/
theorem shapeToTrees_disjoint (b : Basis) (hb : b.WellFormed) (s s' : List Nat) (hs : ∀ a ∈ s, a ≤ 2)
    (hs' : ∀ a ∈ s', a ≤ 2) (L : List String) (h : L ∈ shapeToTrees s b) (h' : L ∈ shapeToTrees s' b) :
    s = s' := by
  rw [← shapeToTrees_arity b hb s hs L h, shapeToTrees_arity b hb s' hs' L h']

theorem allowedShapes_zero : allowedShapes 0 = [[]] := by decide

/-- **Once.** For a well-formed basis no label list is emitted twice, at any complexity. -/
theorem generate_nodup (n : Nat) (b : Basis) (hb : b.WellFormed) : (generate n b).Nodup := by
  unfold generate
  rcases Nat.eq_zero_or_pos n with h0 | hn
  · subst h0
    rw [allowedShapes_zero]
    simp only [List.flatMap_cons, List.flatMap_nil, List.append_nil]
    exact shapeToTrees_nodup b hb [] (by simp)
  · have hle : ∀ s ∈ allowedShapes n, ∀ a ∈ s, a ≤ 2 := by
      intro s hs
      obtain ⟨_, t, rfl⟩ := (mem_allowedShapes n hn s).mp hs
      exact pre_le_two t
    apply nodup_flatMap_of _ _ (allowedShapes_nodup n hn)
    · intro s hs
      exact shapeToTrees_nodup b hb s (hle s hs)
    · intro s hs s' hs' L hL hL'
      exact shapeToTrees_disjoint b hb s s' (hle s hs) (hle s' hs') L hL hL'

/-- **Headline (labelled trees).** For every complexity `n ≥ 1` and every well-formed basis, the emitted list is
a duplicate-free enumeration of exactly the renumbered labellings of the tree shapes with `n` nodes: a label
list occurs once if it is `renumberNullary 0 t.pre L0` for a tree `t` with `n` nodes and a labelling `L0` of its
positions by operators of the right arity class, and does not occur otherwise. -/
theorem generate_enumerates (n : Nat) (hn : 1 ≤ n) (b : Basis) (hb : b.WellFormed) (L : List String) :
    ((∃ (t : Tree) (L0 : List String), t.size = n ∧ IsLabeling b t.pre L0 ∧ L = renumberNullary 0 t.pre L0) →
      (generate n b).count L = 1) ∧
    ((¬ ∃ (t : Tree) (L0 : List String), t.size = n ∧ IsLabeling b t.pre L0 ∧ L = renumberNullary 0 t.pre L0) →
      (generate n b).count L = 0) := by
  rw [(generate_nodup n b hb).count, ← mem_generate n hn b L]
  constructor
  · intro h; simp [h]
  · intro h; simp [h]

/-- Same statement in the two-part form: no duplicates, and membership is exactly "renumbered labelling of a
tree with `n` nodes". -/
theorem generate_nodup_and_exact (n : Nat) (hn : 1 ≤ n) (b : Basis) (hb : b.WellFormed) :
    (generate n b).Nodup ∧
    ∀ L, L ∈ generate n b ↔ ∃ (t : Tree) (L0 : List String), t.size = n ∧ IsLabeling b t.pre L0 ∧
      L = renumberNullary 0 t.pre L0 :=
  ⟨generate_nodup n b hb, mem_generate n hn b⟩

/-! ### pointer-level `check_tree` = stack-level `checkTree` -/

theorem checkTreePtr_short (s : List Nat) (h : s.length ≤ 1) : checkTreePtr s = some (checkTree s) := by
  match s, h with
  | [], _ => rfl
  | [_], _ => rfl

/-- First node neither unary nor binary and more nodes follow: the Python evaluates `tree[None]` and raises. -/
theorem checkTreePtr_raise (s : List Nat) (h : ¬ s.length ≤ 1) (hhead : ¬ (s[0]? = some 1 ∨ s[0]? = some 2)) :
    checkTreePtr s = some (checkTree s) := by
  match s, h with
  | [], h => exact absurd (by simp) h
  | [_], h => exact absurd (by simp) h
  | a :: b :: rest, _ =>
    have ha : ¬ (a = 2 ∨ a = 1) := by
      intro h; apply hhead; rcases h with rfl | rfl <;> simp
    have hstep : stepPtr (a :: b :: rest) 0
        ⟨List.replicate (rest.length + 2) none, List.replicate (rest.length + 2) none,
         List.replicate (rest.length + 2) none⟩ = .raise := by
      unfold stepPtr
      simp [ha, climb]
    have hct : checkTree (a :: b :: rest) = .error := by
      unfold checkTree
      have h1 : ¬ (a = 1) := fun h => ha (Or.inr h)
      have h2 : ¬ (a = 2) := fun h => ha (Or.inl h)
      simp [h1, h2]
    rw [hct]
    unfold checkTreePtr
    simp only [List.length_cons, Nat.add_sub_cancel, loopPtr, hstep]

theorem checkTreePtr_main (s : List Nat) (h : ¬ s.length ≤ 1) (hhead : s[0]? = some 1 ∨ s[0]? = some 2) :
    checkTreePtr s = some (checkTree s) := by
  have hn : 0 < s.length := by omega
  obtain ⟨hloop, hfin⟩ := loopPtr_eq s hhead s.dropLast 0 (initSt s.length) (inv_init s hn) (by simp)
  rw [List.length_dropLast] at hloop
  have hhead' : ¬ (s.head? ≠ some 1 ∧ s.head? ≠ some 2) := by
    rw [List.head?_eq_getElem?]
    rcases hhead with hh | hh <;> simp [hh]
  have hgt : s.length > 1 := by omega
  have hinit : (⟨List.replicate s.length none, List.replicate s.length none, List.replicate s.length none⟩ : PSt)
      = toP (initSt s.length) := rfl
  cases hl : loop s.dropLast 0 (initSt s.length) with
  | mk st brk =>
    rw [hl] at hloop hfin
    simp only [toP] at hloop hfin
    unfold checkTree checkTreeMain
    rw [if_neg h, if_neg hhead', hl]
    unfold checkTreePtr
    simp only [hinit, toP, hloop, if_pos hgt]
    cases brk with
    | some i => simp
    | none =>
      have hinv := hfin rfl
      have hL := lefts_check s st hinv
      have e : s.length - 2 + 2 = s.length := by omega
      simp only [Option.isNone_none, Option.getD_none, if_true, e, List.take_length, hL]
      by_cases h12 : s.getLast?.getD 0 = 1 ∨ s.getLast?.getD 0 = 2
      · simp [h12]
      · have hlast : s.getLast?.getD 0 ≠ 2 := fun h => h12 (Or.inr h)
        have hR := rights_check s st hinv hlast
        simp only [hR, h12, decide_false, Bool.false_eq_true, if_false, if_true]
        cases st.stack.isEmpty <;> simp

/-- **The pointer-level model is the stack model.**  For every arity string (over any naturals, in particular
over {0,1,2}) the statement-by-statement model of the Python `check_tree` — parent-pointer climb with fuel
`len(s)`, post-loop `None in lefts` / `None in rights` computed from the arrays — never runs out of fuel and
returns the same `success`, `part_considered` and `parent`/`left`/`right` arrays as `checkTree`, and raises
exactly where `checkTree` reports `error`. -/
theorem checkTreePtr_eq (s : List Nat) : checkTreePtr s = some (checkTree s) := by
  by_cases h : s.length ≤ 1
  · exact checkTreePtr_short s h
  · by_cases hhead : s[0]? = some 1 ∨ s[0]? = some 2
    · exact checkTreePtr_main s h hhead
    · exact checkTreePtr_raise s h hhead

/-- Consequence: the pointer-level `check_tree` succeeds exactly on the prefix forms of trees. -/
theorem checkTreePtr_success (s : List Nat) (h : ∀ a ∈ s, a ≤ 2) (hlen : 2 ≤ s.length)
    (hhead : s.head? = some 1 ∨ s.head? = some 2) :
    (checkTreePtr s).map Result.success = some (validShape s) := by
  rw [checkTreePtr_eq, Option.map_some, checkTree_success s h hlen hhead]

example : checkTreePtr [2, 1, 0, 2, 0, 0] = some (.ok true (some [2, 1, 0, 2, 0, 0])
    [none, some 0, some 1, some 0, some 3, some 3] [some 1, some 2, none, some 4, none, none]
    [some 3, none, none, some 5, none, none]) := by rfl
example : checkTreePtr [1, 0, 0, 0] = some (.ok false (some [1, 0, 0]) [none, some 0, none, none]
    [some 1, none, none, none] [none, none, none, none]) := by rfl
example : checkTreePtr [0, 1] = some .error := by rfl

/-! non-vacuity: every generated (shipped) basis is well-formed -/
def ofGen (g : ESR.Gen.Shape.Basis) : Basis := ⟨g.nullary, g.unary, g.binary⟩

/-- every basis in the table regenerated from today's `duplicate_checker.main` (six on the unchanged tree) -/
example : ESR.Gen.Shape.bases ≠ [] ∧ ∀ g ∈ ESR.Gen.Shape.bases, (ofGen g).WellFormed := by decide
example : ∀ n, ∀ g ∈ ESR.Gen.Shape.bases, (generate n (ofGen g)).Nodup :=
  fun n g hg => generate_nodup n _ ((by decide : ∀ g ∈ ESR.Gen.Shape.bases, (ofGen g).WellFormed) g hg)
/-- the side condition is not trivially true: a basis with a label of the form `a<digits>` is rejected … -/
example : ¬ (Basis.mk ["x", "a", "a0"] ["inv"] ["+"]).WellFormed := by decide
/-- … and without it the output does contain a duplicate (`a0` from the basis vs the renumbered `a`). -/
example : ¬ (generate 1 ⟨["x", "a", "a0"], ["inv"], ["+"]⟩).Nodup := by decide
example : ¬ (Basis.mk ["x", "a"] ["inv"] ["+", "inv"]).WellFormed := by decide

end ESR.C01
