import ESRVerif.Model.Rewrite
import ESRVerif.Model.Shape
import ESRVerif.Proofs.Rewrite
/-!
C11 — rewritten (extra) trees are well formed and equal to the tree they came from.

Layer 1 (verified validator).  `certEquiv a b B = true` (computed by the executable model for every
(original, extra) pair the real `find_additional_trees` emits) implies, for ALL real evaluation points:
the rewritten list `b` is the prefix form of a tree over basis ∪ {x, a_k, integers} with a valid arity string,
and both trees denote the same real function — in the total semantics `LExpr.eval` at every point, hence in
ESR's partial semantics `LExpr.evalP` at every point where both sides are defined.
The per-step soundness lemmas are in `ESRVerif/Proofs/Rewrite.lean` (`insert_eval`, `addS_eval`, `scaleS_eval`,
`mkMul_eval`, `mkDiv_eval`, `mkIntPow_eval`, `mkSqrtAbs_eval`, `mkLog_eval`, `mkPowAbs_eval`, `norm_eval`).
-/
namespace ESR.C11
open ESR.Rewrite ESR.Shape

/-- the shipped `keep_duplicates` basis (used by the examples) -/
def kd : Basis := ⟨["square", "exp", "inv", "sqrt_abs", "log_abs"], ["+", "*", "-", "/", "pow"]⟩

/-- A successful parse returns a tree whose prefix label list is the input and whose operator labels are all
basis members: parsing certifies well-formedness. -/
theorem parse_wellFormed (ls : List String) (B : Basis) (e : LExpr) (h : parsePrefix ls B = some e) :
    e.toPrefix = ls ∧ e.inBasis B = true ∧ WellFormed ls B := by
  have := parsePrefix_sound ls B e h
  exact ⟨this.1, this.2, e, this.1, this.2⟩

/-- The arity string of a parsed list is a valid shape in the sense of C01 (`validShape`, the specification
`check_tree` is proved against), one arity per label. -/
theorem parse_validShape (ls : List String) (B : Basis) (e : LExpr) (h : parsePrefix ls B = some e) :
    validShape e.arities = true ∧ e.arities.length = ls.length := by
  refine ⟨?_, ?_⟩
  · have := slots_arities e [] 0
    simp only [List.append_nil] at this
    simp [validShape, this, slots]
  · rw [arities_length, (parsePrefix_sound ls B e h).1]

/-- Each normalisation step preserves the denoted real function at every environment (composition of the
step lemmas of `Proofs/Rewrite.lean`). -/
theorem norm_sound (ρ : Env) (e : LExpr) : (norm e).eval ρ = e.eval ρ := norm_eval ρ e

/-- **Soundness of the validator.**  If `certEquiv a b B` holds then `b` is well formed over `B` and the two
label lists denote trees with the same value at every real environment (total semantics: Mathlib's conventions
`u/0 = 0`, `log 0 = 0` at singular points). -/
theorem certEquiv_sound (a b : List String) (B : Basis) (h : certEquiv a b B = true) :
    WellFormed b B ∧ ∃ ea eb, parsePrefix a B = some ea ∧ parsePrefix b B = some eb ∧
      validShape eb.arities = true ∧ ∀ ρ : Env, eb.eval ρ = ea.eval ρ := by
  unfold certEquiv at h
  split at h
  · rename_i ea eb ha hb
    have hn : norm ea = norm eb := by simpa using h
    refine ⟨(parse_wellFormed b B eb hb).2.2, ea, eb, ha, hb, (parse_validShape b B eb hb).1, ?_⟩
    intro ρ
    rw [← norm_eval ρ eb, ← norm_eval ρ ea, hn]
  · cases h

/-- **Soundness in ESR's partial semantics.**  At every point where both the original and the rewritten tree
are defined (no division by zero, no `inv 0`, no `log|0|`, no `|0|^negative`), they have the same value. -/
theorem certEquiv_sound_defined (a b : List String) (B : Basis) (h : certEquiv a b B = true) :
    ∃ ea eb, parsePrefix a B = some ea ∧ parsePrefix b B = some eb ∧
      ∀ (ρ : Env) (va vb : ℝ), ea.evalP ρ = some va → eb.evalP ρ = some vb → vb = va := by
  obtain ⟨_, ea, eb, ha, hb, _, heq⟩ := certEquiv_sound a b B h
  refine ⟨ea, eb, ha, hb, ?_⟩
  intro ρ va vb hva hvb
  rw [← evalP_eq_eval ρ ea va hva, ← evalP_eq_eval ρ eb vb hvb]
  exact heq ρ

/-- The `pow_num` table regenerated from `update_tree` agrees with the multipliers built into the normaliser
(decided over the whole generated table). -/
theorem tables_agree : tablesAgree = true := by decide +kernel

/-- The multipliers denote what ESR's operators compute: an integer multiplier `k` is the power `u^k`
(square, cube, inv); `sqrt_abs` is `|u|^(1/2)`. -/
theorem powQ_semantics (o : UOp) (q : Rat) (h : o.powQ = some q) (u : ℝ) :
    (q.den = 1 → o.eval u = u ^ q.num) ∧ (q.den ≠ 1 → o.eval u = |u| ^ (q : ℝ)) := by
  cases o <;> simp only [UOp.powQ, Option.some.injEq, reduceCtorEq] at h
  · subst h; exact ⟨fun _ => by simp [UOp.eval], fun hd => absurd rfl hd⟩
  · subst h; exact ⟨fun _ => by simp [UOp.eval], fun hd => absurd rfl hd⟩
  · subst h; exact ⟨fun _ => by simp [UOp.eval], fun hd => absurd rfl hd⟩
  · subst h
    refine ⟨fun hd => absurd hd (by decide +kernel), fun _ => ?_⟩
    simp only [UOp.eval, half_cast, Real.sqrt_eq_rpow]

/-! ### non-vacuity: real rewrites emitted by `find_additional_trees` are certified -/

example : certEquiv ["square", "exp", "x"] ["exp", "*", "x", "2"] kd = true := by decide +kernel
example : certEquiv ["log_abs", "sqrt_abs", "inv", "x"] ["/", "log_abs", "x", "-2"] kd = true := by decide +kernel
example : certEquiv ["inv", "sqrt_abs", "exp", "a0"] ["exp", "/", "a0", "-2"] kd = true := by decide +kernel
example : certEquiv ["log_abs", "square", "sqrt_abs", "a0"] ["log_abs", "a0"] kd = true := by decide +kernel
example : certEquiv ["+", "x", "log_abs", "inv", "a0"] ["-", "x", "log_abs", "a0"] kd = true := by decide +kernel
example : certEquiv ["-", "+", "x", "a0", "x"] ["a0"] kd = true := by decide +kernel
example : certEquiv ["+", "x", "+", "x", "x"] ["*", "3", "x"] kd = true := by decide +kernel
-- a wrong rewrite (sign of the multiplier lost) and a malformed list are rejected
example : certEquiv ["inv", "exp", "x"] ["exp", "*", "x", "1"] kd = false := by decide +kernel
example : certEquiv ["+", "x", "x"] ["*", "2"] kd = false := by decide +kernel
example : certEquiv ["+", "x", "x"] ["*", "2", "sin"] kd = false := by decide +kernel

/-! ### Layers 2 and 3: the model of `update_tree` and termination of phase 1 -/

open ESR.Rewrite.UT in
/-- **Termination measure (phase 1).**  For a label list whose pow-set labels and `log_abs` sit on unary nodes
of the shape, every candidate the model of `update_tree` returns — any `try_idx`, any basis, all output
splices — has strictly fewer pow-set labels (square, cube, sqrt_abs, inv as regenerated from the source).
The model is tied to the real function by correspondence on every call the real driver makes. -/
theorem updateTree_decreases (L : List String) (S : List Nat) (k : Nat) (B : Basis) (hc : Consistent L S) :
    ∀ c ∈ (updateTree L S k B).cands, powCount c.1 < powCount L :=
  ESR.Rewrite.UT.updateTree_decreases L S k B hc

open ESR.Rewrite.UT in
/-- **The model of `update_tree` returns valid shapes** — so `check_tree(new_shape)` rebuilds a proper tree for the
new label list.  Hypotheses: the input shape is valid, pow-set labels / `log_abs` / `exp` sit on unary nodes and
`+`/`-` on binary nodes (`WF`, checked on every real call), and the basis contains both `+` and `-`.
`_partial`: the property only grants `+` and `*`; without `-` in the basis the fallback branch (generator.py
l.868-912) drops the left operand of a right-hand `log_abs` and returns a nested list — the finding reported by
the check (`raises:TypeError:update_tree:…`). -/
theorem updateTree_validShape_partial (L : List String) (S : List Nat) (k : Nat) (B : Basis) (hw : WF L S)
    (hB : inB2 B "+" = true ∧ inB2 B "-" = true) :
    ∀ c ∈ (updateTree L S k B).cands, validShape c.2 = true :=
  ESR.Rewrite.UT.updateTree_validShape L S k B hw hB

open ESR.Rewrite.UT in
/-- one phase-1 rewrite: `b` is a candidate returned by `update_tree` on the consistent labelled tree `a` -/
def Step (a b : List String × List Nat) : Prop :=
  Consistent a.1 a.2 ∧ ∃ k B, b ∈ (updateTree a.1 a.2 k B).cands

open ESR.Rewrite.UT in
/-- **Phase 1 of `find_additional_trees` cannot rewrite forever**: any sequence of successive `update_tree`
rewrites starting from a tree `t 0` has at most `powCount (t 0)` steps (so the set of trees reachable from one
original is finite: at most `len` special indices per tree, depth at most the number of pow-set labels). -/
theorem driver_phase1_bounded (t : Nat → List String × List Nat) (n : Nat)
    (h : ∀ m, m < n → Step (t m) (t (m + 1))) : n ≤ powCount (t 0).1 := by
  have key : ∀ m, m ≤ n → powCount (t m).1 + m ≤ powCount (t 0).1 := by
    intro m
    induction m with
    | zero => intro _; omega
    | succ m ih =>
      intro hm
      obtain ⟨hc, k, B, hmem⟩ := h m (by omega)
      have := ESR.Rewrite.UT.updateTree_decreases (t m).1 (t m).2 k B hc _ hmem
      have := ih (by omega)
      omega
  have := key n (Nat.le_refl n)
  omega

open ESR.Rewrite.UT in
/-- the hypotheses of `updateTree_decreases` are satisfiable and the rewrite fires: `log_abs(sqrt_abs(inv x))`
is rewritten to `(log_abs x) / -2`, dropping two pow-set labels -/
example : Consistent ["log_abs", "sqrt_abs", "inv", "x"] [1, 1, 1, 0] ∧
    (updateTree ["log_abs", "sqrt_abs", "inv", "x"] [1, 1, 1, 0] 0 kd).cands
      = [(["/", "log_abs", "x", "-2"], [2, 1, 0, 0])] := by
  refine ⟨⟨rfl, ?_⟩, by decide +kernel⟩
  intro m hm _
  have : m = 0 ∨ m = 1 ∨ m = 2 ∨ m = 3 := by simp at hm; omega
  rcases this with rfl | rfl | rfl | rfl <;> simp_all [inPow, expOrd, ESR.Gen.Rewrite.pow_set, ESR.Gen.Rewrite.exp_ord]

end ESR.C11
