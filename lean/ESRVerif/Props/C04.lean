import ESRVerif.Props.C06
/-!
C04 — exhaustive search is never beaten by a function it enumerated (MDL optimality): the machine-checked glue.

What ESR itself contributes to the guarantee is bookkeeping: every tree has a line (C01), every line a match and a
sound map (C03), the fitted unique's values are transferred exactly (C05) with the MDL code length (C07), and the final
table takes the minimum over all variants and sorts (C06).  This file composes the C06 theorems into "the top row is
below every variant row" and states the end-to-end inequality with the numerical facts as named hypotheses.
-/
namespace ESR.C04
open ESR.Rank ESR.Rank.XR ESR.C06

variable {K : Type} [Field K] [LinearOrder K] [IsStrictOrderedRing K] (E : K → K)

/-- Every row of the final table whose description length is not `+∞` reports a description length that is exactly
the sum of its three reported terms (same operations, same order as `combine_DL`). -/
theorem final_row_sum (t : Table (XR K)) (P : Nat) (hP : 1 ≤ P) (out : List (FinalRow (XR K)))
    (h : main (ops E) t P = some out) (r : FinalRow (XR K)) (hr : r ∈ out) (hfin : r.dl ≠ pinf) :
    r.dl = (ops E).add ((ops E).add r.nll r.codelen) r.aifeyn := by
  obtain ⟨_, _, _, h4⟩ := row_is_min E t P hP out h r hr
  obtain ⟨k, v, _, hdl, _, hn, hc, ha, _, _⟩ := h4 hfin
  rw [← hdl, hn, hc, ha]; rfl

/-- **The top row is never beaten by any variant row.** For the first row `r0` of the final table and ANY variant `v`
of ANY unique function whose description length is a number: `DL(v) ≥ DL(r0)`. -/
theorem top_le_every_variant (t : Table (XR K)) (P : Nat) (hP : 1 ≤ P) (out : List (FinalRow (XR K)))
    (h : main (ops E) t P = some out) (r0 : FinalRow (XR K)) (rest : List (FinalRow (XR K)))
    (hout : out = r0 :: rest) (u : Nat) (hu : u < t.nUniq) (v : Row (XR K)) (hv : v ∈ variants t u)
    (hnum : isNaN (dl (ops E) v) = false) : lt (dl (ops E) v) r0.dl = false := by
  obtain ⟨_, hmem⟩ := appears_once E t P hP out h
  have hu' : u ∈ out.map (·.u) := (hmem u).mpr ⟨hu, v, hv, hnum⟩
  obtain ⟨r, hr, hru⟩ := List.mem_map.mp hu'
  obtain ⟨hrnan, _, hmin, _⟩ := row_is_min E t P hP out h r hr
  have h1 : lt (dl (ops E) v) r.dl = false := hmin v (hru ▸ hv) hnum
  have h2 : lt r.dl r0.dl = false := by
    obtain ⟨hpw, _⟩ := sorted E t P hP out h
    rw [hout] at hpw hr
    rcases List.mem_cons.mp hr with rfl | hr'
    · exact lt_irrefl _
    · exact ((List.pairwise_cons.mp hpw).1 r hr').1
  exact le_trans' hrnan h2 h1

/-- **MDL optimality, with the numerical facts as hypotheses.** Let `DLindep τ` be the independently computed
description length of a tree `τ` of the complexity being run.  If every tree has a line in the full list whose match
is a unique function (`hEnum`: C01 + C03), and that line's pipeline description length is a number not above the
independent one (`hFaithful`: C10 optimiser reach, C07 code length, C05 exact transfer — NOT proved here, sampled by
the end-to-end runs of this check), then no enumerated tree beats the top-ranked row. -/
theorem mdl_optimal_partial {τ : Type} (t : Table (XR K)) (P : Nat) (hP : 1 ≤ P) (out : List (FinalRow (XR K)))
    (h : main (ops E) t P = some out) (r0 : FinalRow (XR K)) (rest : List (FinalRow (XR K)))
    (hout : out = r0 :: rest) (DLindep : τ → XR K) (line : τ → Row (XR K))
    (hEnum : ∀ x, (line x).idx < t.nUniq ∧ line x ∈ t.rows)
    (hFaithful : ∀ x, isNaN (dl (ops E) (line x)) = false ∧ lt (DLindep x) (dl (ops E) (line x)) = false) :
    ∀ x, lt (DLindep x) r0.dl = false := by
  intro x
  obtain ⟨hidx, hrow⟩ := hEnum x
  obtain ⟨hnum, hle⟩ := hFaithful x
  have hv : line x ∈ variants t (line x).idx := by
    unfold variants; simp [List.mem_filter, hrow]
  have h1 := top_le_every_variant E t P hP out h r0 rest hout (line x).idx hidx (line x) hv hnum
  exact le_trans' hnum h1 hle

/-! ### non-vacuity: the hypotheses are met by the concrete table of C06 (ties, +inf, NaN, 2 ranks) -/

/-- the table has a first row with description length 6, so `top_le_every_variant` applies … -/
example : (main (ops ESR.C06.exE) ESR.C06.exT 2).isSome = true ∧
    (((main (ops ESR.C06.exE) ESR.C06.exT 2).getD []).head?.map (·.dl)) = some (fin 6) := by
  constructor <;> decide +kernel

/-- … and its conclusion holds on it: no variant with a numeric description length is below the top row's 6 -/
example : ESR.C06.exT.rows.all (fun v => isNaN (dl (ops ESR.C06.exE) v) || !lt (dl (ops ESR.C06.exE) v) (fin 6)) = true := by
  decide +kernel

end ESR.C04
