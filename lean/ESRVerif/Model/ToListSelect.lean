/-
Model of the choice among the four parse variants in `string_to_node` (esr/generation/generator.py l.494-573) and of
`check_operators` (l.450-491), property C18.

The four candidate sympy trees are INPUT (`Option SymExpr` each: `none` where `string_to_expr` / `.evalf()` raised);
which tree `sympify` / `kernS` / `powsimp` / `factor` / `evalf` produce is third-party behaviour and not modelled.
Everything after that is:

* `variantCount`   — one `try:` block: `nodes[i] = DecoratedNode(expr[i], basis); c[i] = nodes[i].count_nodes(basis)`,
                     `c[i] = nan` (`none`) where the block raised or — variant behind `if allow_eval:` — was not run.
                     The order of the variants, their `kern` / `evaluate` flags and which one is guarded are regenerated
                     from the source (`ESR.Gen.ToList.variants`).
* `ckNorm`, `labelPasses`, `checkOperators` — `check_operators`: the `if/elif` chain of the normalisation loop
                     (`ESR.Gen.ToList.ckRules`, in source order: `'Add'`→`'+'` only if `'+'` is a binary operator of the
                     basis, …, sympy number class names (`sympyNumericsRaw`, lower-cased as the code does) or `is_float`
                     → `'a'`, `a<digits>` → `'a'`, `x<digits>` → `'x'`, otherwise `.lower()`), then membership in the
                     flattened basis.
* `variantInBasis` — `all_in_basis[i]` (stays `False` when `check_ops` is off, when the block raised or was skipped).
* `maskedCounts`   — `if check_ops and any(all_in_basis): c[i] = nan for every i with not all_in_basis[i]`.
* `nanargmin`      — `np.nanargmin(c)`: index of the FIRST minimal non-NaN entry, `none` = ValueError (all NaN).
* `select`         — `return expr[i], nodes[i], int(c[i])`.

`is_float` is the model of `generator.is_float` of `Model/ToList.lean` (numeric literals only, see there).
`check_operators` cannot raise once `count_nodes` returned (it repeats the same `to_list` call).
-/
import ESRVerif.Model.ToList
namespace ESR.ToList
open ESR.Gen.ToList
open ESR.Labeling (Basis)

/-! ### check_operators -/

/-- `sympy_numerics = [s.lower() for s in sympy_numerics]` -/
def sympyNumerics : List String := sympyNumericsRaw.map lower

/-- `labels[i].startswith(p) and labels[i][1:].isdigit()` for a one-character prefix. -/
def prefixDigits (p : Char) (l : String) : Bool :=
  match l.toList with
  | c :: r => c == p && !r.isEmpty && r.all Char.isDigit
  | [] => false

/-- Does the rule fire on label `l`?  `some new` = the value assigned to `labels[i]`. -/
def ckFires (B : Basis) (l : String) : CkRule → Option String
  | .rename lab op new => if l = lab ∧ op ∈ B.b2 then some new else none
  | .numeric new => if lower l ∈ sympyNumerics ∨ isFloatLabel l = true then some new else none
  | .pfx p new => if prefixDigits p l then some new else none

def ckNormWith (B : Basis) (l : String) : List CkRule → String
  | [] => lower l
  | r :: rs => match ckFires B l r with
    | some s => s
    | none => ckNormWith B l rs

/-- The normalised label of `check_operators`. -/
def ckNorm (B : Basis) (l : String) : String := ckNormWith B l ckRules

/-- `flat_basis = [item for sublist in basis_functions for item in sublist]` -/
def flatBasis (B : Basis) : List String := B.b0 ++ B.b1 ++ B.b2

/-- one label passes `check_operators` -/
def labelPasses (B : Basis) (l : String) : Bool := decide (ckNorm B l ∈ flatBasis B)

/-- `check_operators(nodes, basis_functions)` on `labels = nodes.to_list(basis_functions)` -/
def checkOperators (B : Basis) (labels : List String) : Bool := labels.all (labelPasses B)

/-! ### the four try blocks -/

/-- Is the block of this variant executed? -/
def variantRuns (allowEval : Bool) (v : Variant) : Bool := !v.guarded || allowEval

/-- `c[i]` after the `try` block (`none` = NaN). -/
def variantCount (B : Basis) (allowEval : Bool) (v : Variant) (e : Option SymExpr) : Option Nat :=
  if variantRuns allowEval v then e.bind fun e => countNodes B (build B none e) else none

/-- `all_in_basis[i]` after the `try` block (the list exists only under `check_ops`; `false` stands for "not set"). -/
def variantInBasis (B : Basis) (allowEval checkOps : Bool) (v : Variant) (e : Option SymExpr) : Bool :=
  checkOps && variantRuns allowEval v &&
    (match e with
     | none => false
     | some e => match toList B (build B none e) with
       | none => false
       | some ls => checkOperators B ls)

/-- `c` before the masking. -/
def rawCounts (B : Basis) (allowEval : Bool) (es : List (Option SymExpr)) : List (Option Nat) :=
  (variants.zip es).map fun ve => variantCount B allowEval ve.1 ve.2

/-- `all_in_basis` -/
def allInBasis (B : Basis) (allowEval checkOps : Bool) (es : List (Option SymExpr)) : List Bool :=
  (variants.zip es).map fun ve => variantInBasis B allowEval checkOps ve.1 ve.2

/-- `if not all_in_basis[i]: c[i] = np.nan` -/
def maskOne (cb : Option Nat × Bool) : Option Nat := if cb.2 then cb.1 else none

/-- `c` after `if check_ops and any(all_in_basis): …`. -/
def maskedCounts (B : Basis) (allowEval checkOps : Bool) (es : List (Option SymExpr)) : List (Option Nat) :=
  if checkOps && (allInBasis B allowEval checkOps es).any id then
    ((rawCounts B allowEval es).zip (allInBasis B allowEval checkOps es)).map maskOne
  else rawCounts B allowEval es

/-! ### np.nanargmin -/

/-- (index, value) of the first minimal non-NaN entry. -/
def argminPair : List (Option Nat) → Option (Nat × Nat)
  | [] => none
  | none :: xs => (argminPair xs).map fun jw => (jw.1 + 1, jw.2)
  | some v :: xs =>
    match argminPair xs with
    | none => some (0, v)
    | some jw => if v ≤ jw.2 then some (0, v) else some (jw.1 + 1, jw.2)

/-- `np.nanargmin(c)`; `none` = `ValueError: All-NaN slice encountered`. -/
def nanargmin (c : List (Option Nat)) : Option Nat := (argminPair c).map Prod.fst

/-! ### string_to_node -/

/-- `(i, expr[i], nodes[i], int(c[i]))` -/
structure Selected where
  idx : Nat
  expr : SymExpr
  node : DNode
  complexity : Nat
  deriving Repr

/-- `string_to_node(s, basis, evalf=…, allow_eval, check_ops)` given the candidate trees (after `.evalf()` if
requested); `none` = ValueError from `np.nanargmin`. -/
def select (B : Basis) (allowEval checkOps : Bool) (es : List (Option SymExpr)) : Option Selected :=
  match argminPair (maskedCounts B allowEval checkOps es) with
  | none => none
  | some (i, n) =>
    match es[i]? with
    | some (some e) => some ⟨i, e, build B none e, n⟩
    | _ => none          -- unreachable: a non-NaN count belongs to a variant whose tree exists (`select_total`)

/-- the labels `nodes.to_list(basis_functions)` the callers read off the returned node -/
def Selected.labels (B : Basis) (r : Selected) : Option (List String) := toList B r.node

end ESR.ToList
