import ESRVerif.Model.Optim
/-!
Model of the composition inside `esr/fitting/fit_single.py:single_function` (lines 61-98), for a likelihood with a
description length (`likelihood.is_mse` false).  No Mathlib.

* step (2), lines 61-70: `chi2, params = optimise_fun(fstr, likelihood, …, log_opt=log_opt)` — the model of C10
  (`ESR.Optim.optimiseFun`: sign branches, selection loop, and the BACK-TRANSFORMATION of the best iterate governed by
  `flag_three`, lines 273-279 of test_all.py), the minimiser being an oracle `script`;
* step (3), lines 78-82: `params, negloglike, deriv, codelen = convert_params(fcn, eq, integrated, params, likelihood,
  chi2, max_param=max_param)` — the Fisher routine is a parameter `convert : θ → chi2 → Conv` here (its model is C07's);
  what matters for this file is WHICH (θ, chi2) it is handed: `handed`;
* step (4), line 90: `aifeyn = generator.aifeyn_complexity(labels, param_list)` — a value here (model: C08);
* step (5), line 95: `DL = negloglike + codelen + aifeyn` (left-nested, `add` is the number type's addition);
* lines 99-102: `return negloglike, DL[, params]`.

`signed` / `expectedParams` spell out the parameter vector chi2_fcn evaluates the likelihood at, per entry of the
`signs` list of a minimize call: `x` itself (signs None), `+10**x`, `-10**x`.
Exceptions of optimise_fun (ValueError for bad Niter/Nconv, NameError) propagate: `Out.valueError`, `Out.nameError`.
-/
namespace ESR.SingleFit
open ESR.Optim ESR.Gen.Optim

/-- the part of `convert_params`' result single_function uses: `(params, negloglike, _, codelen)` -/
structure Conv (α : Type) where
  params : List α
  nll : α
  codelen : α
  deriving Repr, DecidableEq

inductive Out (α : Type) where
  | ret (nll dl : α) (params : List α)
  | valueError
  | nameError
  | missing
  deriving Repr, DecidableEq

section
variable {α : Type} [Num α]

/-- the `(theta_ML, negloglike)` arguments of the one call of the Fisher routine: exactly what `optimise_fun` returned -/
def handed (cfg : Config α) (script : Nat → Nat → Call α) : Option (List α × α) :=
  match (optimiseFun cfg script).1 with
  | .ret chi2 params => some (params, chi2)
  | _ => none

/-- `single_function`, steps (2)–(5) and the return statement -/
def singleFunction (add : α → α → α) (convert : List α → α → Conv α) (aifeyn : α) (cfg : Config α)
    (script : Nat → Nat → Call α) : Out α :=
  match (optimiseFun cfg script).1 with
  | .ret chi2 params =>
    let c := convert params chi2
    .ret c.nll (add (add c.nll c.codelen) aifeyn) c.params
  | .valueError => .valueError
  | .nameError => .nameError
  | .missing => .missing

/-- one parameter as the likelihood sees it during the optimisation: `x` (linear space), `+base**x`, `-base**x` -/
def signed (base : Nat) : Sign → α → α
  | .lin, x => x
  | .pos, x => Num.powNat base x
  | .neg, x => Num.neg (Num.powNat base x)

/-- the point of parameter space the objective was evaluated at for the optimiser's vector `x` -/
def expectedParams (base : Nat) : Option (List Sign) → List α → List α
  | none, x => x
  | some ss, x => List.zipWith (signed base) ss x

end

end ESR.SingleFit
