import ESRVerif.Model.Stages
import ESRVerif.Generated.FisherAlias
/-!
The per-function loop of `test_all_Fisher.main` (lines 274-304) WITH the in-place write of `convert_params` (C07c).

`main` hands `convert_params` the VIEW `theta_ML = params_proc[i,:]` of the rank's slice of the stage-1 table; `convert_params` re-slices it
(`theta_ML = theta_ML[:nparam]`, line 105, still a view) and snaps it IN PLACE (`theta_ML[Nsteps<1] = 0.`, line 193) before it re-evaluates the
likelihood.  So a call of the routine is not a pure function of the row: it returns its result (or raises) AND leaves the row's slot of the
stage-1 table changed (`Attempt.slot`).  Two readers could see that:

* a LATER ROW — if the written array were not the row's own slot (regenerated: `ESR.Gen.FisherAlias.fisherWritesRowLocal`,
  `slotReadByOtherRows`); `fisherLoop false` threads the table through the iterations with an arbitrary `spill`;
* the RETRY of the same row inside `except NameError:` (line 295), which is handed the SAME object (`ESR.Gen.FisherAlias.retryReadsSlot`): the second
  attempt starts from the vector as the first attempt left it.  This is what the code does today and it is modelled as such (`rowStep`).

`Model/Stages.fisherRow` is the same iteration over abstract outcomes `o1 o2`; `o1Of`/`o2Of` say which outcomes the loop as written feeds it.
No Mathlib.
-/
namespace ESR.FisherLoop
open ESR.Stages ESR.Partition

/-- one `run_sympify` + `convert_params` call as `main` sees it: what it returned / raised, and the contents of the row's stage-1 slot
`params_proc[i,:]` after it -/
structure Attempt (α : Type) where
  out : Out (Conv α)
  slot : List α

/-- a per-function routine: function, stage-1 likelihood `negloglike[i]`, contents of the slot when called -/
abbrev Routine (α φ : Type) := φ → α → List α → Attempt α

variable {α φ : Type}

/-- what the second attempt is handed: the slot as the first attempt left it (`retryReads`), or the stage-1 values -/
def retryInput (retryReads : Bool) (r1 : Routine α φ) (f : φ) (row : α × List α) : List α :=
  if retryReads then (r1 f row.1 row.2).slot else row.2

/-- One iteration (lines 278-304) when nothing escapes: the output row and the slot afterwards. -/
def rowStep (nan zero : α) (isBad : α → Bool) (mp : Nat) (tryInt retryReads : Bool) (r1 r2 : Routine α φ)
    (f : φ) (row : α × List α) : Conv α × List α :=
  if isBad row.1 then (flatRow zero mp row.1 nan, row.2)            -- `codelen[i] = np.nan; continue`: the routine is not called
  else
    let a1 := r1 f row.1 row.2
    match a1.out with
    | .ok v => (v, a1.slot)
    | .nameError =>
        if tryInt then
          let a2 := r2 f row.1 (retryInput retryReads r1 f row)
          (match a2.out with | .ok v => v | _ => flatRow zero mp row.1 zero, a2.slot)
        else (flatRow zero mp row.1 zero, a1.slot)
    | .raises => (flatRow zero mp row.1 zero, a1.slot)

/-- the outcomes `Model/Stages.fisherRow` is fed by the loop as written -/
def o1Of (r1 : Routine α φ) : φ → α × List α → Out (Conv α) := fun f row => (r1 f row.1 row.2).out

def o2Of (retryReads : Bool) (r1 r2 : Routine α φ) : φ → α × List α → Out (Conv α) :=
  fun f row => (r2 f row.1 (retryInput retryReads r1 f row)).out

/-- The loop as written over one rank's slice: `T` is `(negloglike, params_proc)` of the rank, threaded through the iterations.
`rowLocal = true`: the only in-place write lands in row `i` itself (`T.set i`); `false`: `spill` (anything).  Stops where the Python
raises `IndexError` (`Model/Stages.fisherRank` answers `none` there). -/
def fisherLoop (rowLocal : Bool) (spill : List (α × List α) → Nat → List α → List (α × List α))
    (nan zero : α) (isBad : α → Bool) (mp : Nat) (tryInt retryReads : Bool) (r1 r2 : Routine α φ) :
    Nat → List (α × List α) → List φ → List (Conv α)
  | _, _, [] => []
  | i, T, f :: fs =>
    match T[i]? with
    | none => []
    | some row =>
      let s := rowStep nan zero isBad mp tryInt retryReads r1 r2 f row
      s.1 :: fisherLoop rowLocal spill nan zero isBad mp tryInt retryReads r1 r2 (i + 1)
                (if rowLocal then T.set i (row.1, s.2) else spill T i s.2) fs

/-- the loop with the alias facts regenerated from the current source -/
def fisherStage (spill : List (α × List α) → Nat → List α → List (α × List α))
    (nan zero : α) (isBad : α → Bool) (mp : Nat) (tryInt : Bool) (r1 r2 : Routine α φ)
    (T : List (α × List α)) (fs : List φ) : List (Conv α) :=
  fisherLoop (ESR.Gen.FisherAlias.fisherWritesRowLocal && !ESR.Gen.FisherAlias.slotReadByOtherRows) spill
    nan zero isBad mp tryInt ESR.Gen.FisherAlias.retryReadsSlot r1 r2 0 T fs

/-- a write that is NOT row-local, for the `…_needed` example: the snapped vector lands in the NEXT row of the table (what a hoisted
buffer / an off-by-one view would do) -/
def spillNext (T : List (α × List α)) (i : Nat) (slot : List α) : List (α × List α) :=
  match T[i + 1]? with
  | some r => T.set (i + 1) (r.1, slot)
  | none => T

end ESR.FisherLoop
