import ESRVerif.Model.AifeynSyntax
import ESRVerif.Generated.Aifeyn
/-
Executable model of the tree code length ("AIFeyn term") of ESR.

* `pyLstrip`, `isDigitStr`, `stripIsDigit`, `isIntLabel`, `pyInt`
      Python `str.lstrip(chars)`, `str.isdigit()` (ASCII digits only: labels are assumed ASCII),
      `tt.lstrip("-").isdigit()` and `int(tt)` as used in generator.py:1630-1631.
      `"-"` alone is *not* an integer (it is the minus operator); `"--5"` passes the test and then
      `int` raises `ValueError` (`pyInt = none`).
* `evalPred`, `mkEnv`, `evalN`, `evalI`, `evalRA`, `evalR`, `aifeyn`
      generator.py:1617-1634 `aifeyn_complexity(tree, param_list)`: the interpreters of the expression
      language of `AifeynSyntax.lean`, applied to the *generated* `ESR.Gen.Aifeyn.opFilter / intFilter /
      fixups / ret` (so the formula proved about is the one in the source).  The result is polymorphic
      in `LnOps α` (abstract `ln`): `Float` for the driver, anything for the theorems.
      Integers are exact (`Int`); numpy's fixed width (|c| ≥ 2^63) is not modelled.
* `CodeLen`, `CodeLen.eval`, `codeLenOf`
      the symbolic value `k·ln n + Σ ln c_j` as a triple `(k, n, [c_j])` of naturals, and the direct
      functional reading of the property's formula (independent of the generated expression).
* `hasSubL`, `pyIn`, `pname`, `paramList`, `gmpLoop`, `getMaxParam`, `countParams`
      simplifier.py:48-71 `get_max_param` (the `while` loop on `with_ai`, substring test `'a%i'%j in f`),
      simplifier.py:74-94 `count_params`, and `['a%i'%j for j in range(max_param)]`.
* `Basis`, `arityOf`, `validPrefix`, `isParamLike`, `treeToAifeyn`
      fit_single.py:211-240 `tree_to_aifeyn` as fixed in /repo bda8ceb:
      `param_list = [l for l in labels if l.startswith('a') and l[1:].isdigit()]` (the parameter labels are
      taken from the tree itself: `a` followed by at least one ASCII decimal digit), then
      `aifeyn_complexity(labels, param_list)`.  Before that `labels_to_shape` (generator.py:1588-1614) runs
      and can raise for labels that are not basis members, `a<digits>` or integer literals that `eval`
      accepts.  The still-present call `get_max_param([fstr])` has no observable effect (its result is unused
      and it cannot raise) and is not part of the model.
      Anything outside (labels needing Python's `eval`, shapes that are not one complete prefix tree,
      where `check_tree`/`node_to_string` misbehave) is the explicit outcome `notModelled`.
* `labelsMaxParam`, `singleFunctionAifeyn`
      fit_single.py:80-83 and 121-122, steps (1) and (4) of `single_function`, which is unchanged:
      `max_param = get_max_param([node_to_string(0, tree, labels)])`, `param_list = ['a%i'%j for j in
      range(max_param)]`, `aifeyn_complexity(labels, param_list)`.  `get_max_param` of the printed function is
      computed label-wise (every label occurs in `node_to_string`'s output delimited by `(`, `)`, `,`; the
      pattern `a<j>` contains none of these).  This is also the rule `tree_to_aifeyn` used before the fix.
* `Shape`, `shapeParamList`, `fileAfter`, `catFile`, `taggedTrees`
      generator.py:1674-1733, the writer loop of `generate_equations` on rank 0 and the two `cat`s,
      interpreting the generated effect summary `ESR.Gen.Aifeyn.writes / cats`.
-/
namespace ESR.Aifeyn


/-! ### Python string tests -/

/-- `s.lstrip(chars)` on character lists. -/
def pyLstrip (chars : List Char) (cs : List Char) : List Char := cs.dropWhile (fun c => chars.contains c)

/-- `s.isdigit()` for ASCII strings: non-empty and all decimal digits. -/
def isDigitStr (cs : List Char) : Bool := !cs.isEmpty && cs.all Char.isDigit

/-- `tt.lstrip(chars).isdigit()`. -/
def stripIsDigit (chars : String) (s : String) : Bool := isDigitStr (pyLstrip chars.toList s.toList)

/-- `tt.lstrip("-").isdigit()`: the test by which `aifeyn_complexity` recognises integer labels. -/
def isIntLabel (s : String) : Bool := stripIsDigit "-" s

/-- value of a string of decimal digits -/
def digitsVal (cs : List Char) : Nat := cs.foldl (fun a c => 10 * a + (c.toNat - 48)) 0

/-- Python `int(s)` for `s` = optional single sign followed by ASCII digits; `none` = `ValueError`.
(Python also accepts surrounding whitespace and `_` separators; such strings never pass an `isdigit` filter.) -/
def pyInt (s : String) : Option Int :=
  match s.toList with
  | '-' :: ds => if isDigitStr ds then some (-(digitsVal ds : Int)) else none
  | '+' :: ds => if isDigitStr ds then some (digitsVal ds : Int) else none
  | ds => if isDigitStr ds then some (digitsVal ds : Int) else none

/-! ### abstract logarithm -/

/-- The operations the return expression uses.  No laws: theorems hold for every instance,
i.e. they are equalities of expression trees. -/
structure LnOps (α : Type) where
  ofNat : Nat → α
  ofInt : Int → α
  add : α → α → α
  mul : α → α → α
  log : α → α
  zero : α

/-- `np.sum` of a real array (left fold from 0; numpy's pairwise blocking is rounding only). -/
def LnOps.sum {α} (o : LnOps α) (xs : List α) : α := xs.foldl o.add o.zero

def floatOps : LnOps Float :=
  { ofNat := fun n => n.toFloat, ofInt := Float.ofInt, add := (· + ·), mul := (· * ·), log := Float.log, zero := 0.0 }

/-- Free expression trees: the initial instance (used for `decide`-able examples). -/
inductive Sym where
  | nat (n : Nat)
  | int (i : Int)
  | add (a b : Sym)
  | mul (a b : Sym)
  | log (a : Sym)
  | zero
  deriving Repr, DecidableEq

def symOps : LnOps Sym :=
  { ofNat := .nat, ofInt := .int, add := .add, mul := .mul, log := .log, zero := .zero }

/-! ### `aifeyn_complexity` -/

inductive Err where
  /-- Python raises `ValueError` (`int("--5")`, unknown label in `labels_to_shape`) -/
  | valueError
  /-- outside the modelled domain (see header) -/
  | notModelled
  /-- the fuel of the `get_max_param` loop ran out (cannot happen: fuel exceeds the string lengths) -/
  | fuel
  deriving Repr, DecidableEq

/-- decidable equality of results (kept local to this namespace) -/
instance decEqResult {β} [DecidableEq β] : DecidableEq (Except Err β)
  | .ok a, .ok b => if h : a = b then isTrue (by rw [h]) else isFalse (by intro h'; cases h'; exact h rfl)
  | .error a, .error b => if h : a = b then isTrue (by rw [h]) else isFalse (by intro h'; cases h'; exact h rfl)
  | .ok _, .error _ => isFalse (by intro h; cases h)
  | .error _, .ok _ => isFalse (by intro h; cases h)

/-- Python's `len(set(t))` is the length of this duplicate-free list. -/
def distinct : List String → List String
  | [] => []
  | x :: xs => if x ∈ xs then distinct xs else x :: distinct xs

def evalPred (params : List String) : LPred → String → Bool
  | .inParams, s => params.contains s
  | .stripIsDigit chars, s => stripIsDigit chars s
  | .not p, s => !(evalPred params p s)
  | .and p q, s => evalPred params p s && evalPred params q s
  | .or p q, s => evalPred params p s || evalPred params q s

structure Env where
  tree : List String
  ops : List String
  ints : List Int

def applyFixups (fx : List (Int × Int)) (v : Int) : Int :=
  fx.foldl (fun v ab => if v = ab.1 then ab.2 else v) v

/-- the three comprehension / fix-up statements -/
def mkEnv (tree params : List String) : Except Err Env :=
  match (tree.filter (evalPred params Gen.Aifeyn.intFilter)).mapM pyInt with
  | none => .error .valueError
  | some ints =>
    .ok { tree := tree,
          ops := tree.filter (evalPred params Gen.Aifeyn.opFilter),
          ints := ints.map (applyFixups Gen.Aifeyn.fixups) }

def Env.lvar (e : Env) : LVar → List String
  | .tree => e.tree
  | .ops => e.ops

def evalN (e : Env) : NExp → Nat
  | .len v => (e.lvar v).length
  | .lenSet v => (distinct (e.lvar v)).length
  | .lit n => n
  | .add a b => evalN e a + evalN e b
  | .mul a b => evalN e a * evalN e b
  | .neInd a b => (evalN e a != evalN e b).toNat

def evalI (e : Env) : IArr → List Int
  | .ints => e.ints
  | .abs a => (evalI e a).map (fun v => (v.natAbs : Int))

def evalRA {α} (o : LnOps α) (e : Env) : RArr → List α
  | .log a => (evalI e a).map (fun v => o.log (o.ofInt v))

def evalR {α} (o : LnOps α) (e : Env) : RExp → α
  | .nat n => o.ofNat (evalN e n)
  | .log x => o.log (evalR o e x)
  | .add a b => o.add (evalR o e a) (evalR o e b)
  | .mul a b => o.mul (evalR o e a) (evalR o e b)
  | .sum a => o.sum (evalRA o e a)

/-- `aifeyn_complexity(tree, param_list)`. -/
def aifeyn {α} (o : LnOps α) (tree params : List String) : Except Err α :=
  (mkEnv tree params).map (fun e => evalR o e Gen.Aifeyn.ret)

/-! ### the property's formula, read directly -/

/-- `k·ln n + Σ_j ln c_j` with exact counting part. -/
structure CodeLen where
  k : Nat
  n : Nat
  cs : List Nat
  deriving Repr, DecidableEq

def CodeLen.eval {α} (o : LnOps α) (c : CodeLen) : α :=
  o.add (o.mul (o.ofNat c.k) (o.log (o.ofNat c.n))) (o.sum (c.cs.map (fun (v : Nat) => o.log (o.ofInt (v : Int)))))

/-- `|c|` with 0 counted as 1 -/
def absOne (c : Int) : Nat := if c = 0 then 1 else c.natAbs

/-- Direct reading of the property: `k` nodes; `n` = distinct labels that are neither listed
parameters nor integers, plus one if some label is a listed parameter or an integer; `c_j` the integers. -/
def codeLenOf (tree params : List String) : Option CodeLen :=
  ((tree.filter isIntLabel).mapM pyInt).map fun ints =>
    { k := tree.length,
      n := (distinct (tree.filter (fun l => !params.contains l && !isIntLabel l))).length
           + (tree.any (fun l => params.contains l || isIntLabel l)).toNat,
      cs := ints.map absOne }

/-! ### parameter names, `get_max_param`, `count_params` -/

/-- Python `pat in s` on character lists. -/
def hasSubL (pat : List Char) : List Char → Bool
  | [] => pat.isPrefixOf []
  | c :: cs => pat.isPrefixOf (c :: cs) || hasSubL pat cs

/-- Python `pat in s` for strings. -/
def pyIn (pat s : String) : Bool := hasSubL pat.toList s.toList

/-- `'a%i' % j` -/
def pname (j : Nat) : String := "a" ++ toString j

/-- `['a%i'%j for j in range(m)]` -/
def paramList (m : Nat) : List String := (List.range m).map pname

/-- The `while len(with_ai) > 0` loop; `j` is `max_param + 1` on entry to the loop test. -/
def gmpLoop : Nat → Nat → List String → Option Nat
  | _, j, [] => some j
  | 0, _, _ :: _ => none
  | fuel + 1, j, w :: ws => gmpLoop fuel (j + 1) ((w :: ws).filter (pyIn (pname j)))

/-- `get_max_param(all_fun)`; `none` only if the fuel ran out. -/
def getMaxParam (funs : List String) : Option Nat :=
  (gmpLoop ((funs.map String.length).sum + 2) 0 funs).map (fun j => j - 1)

/-- `count_params(all_fun, max_param)` -/
def countParams (funs : List String) (maxParam : Nat) : List Nat :=
  funs.map fun f =>
    match (List.range maxParam).reverse.find? (fun j => pyIn (pname j) f) with
    | some j => j + 1
    | none => 0

/-! ### `tree_to_aifeyn` -/

structure Basis where
  nullary : List String
  unary : List String
  binary : List String

/-- `t.startswith('a') and t[1:].isdigit()` -/
def isParamLike (s : String) : Bool :=
  match s.toList with
  | 'a' :: ds => isDigitStr ds
  | _ => false

/-- integer literals on which `is_float` (`float(eval(s))`) succeeds: any number of leading `-`,
then digits without a leading zero unless all digits are zero (Python rejects `007`). -/
def evalsAsInt (s : String) : Bool :=
  let ds := pyLstrip ['-'] s.toList
  isDigitStr ds && (ds.head? != some '0' || ds.all (· == '0'))

/-- `labels_to_shape` for one label: the dictionary is filled arity 0, then 1, then 2 (later wins). -/
def arityOf (b : Basis) (s : String) : Except Err Nat :=
  if b.binary.contains s then .ok 2
  else if b.unary.contains s then .ok 1
  else if b.nullary.contains s then .ok 0
  else if isParamLike s then .ok 0
  else if evalsAsInt s then .ok 0
  else if isIntLabel s then .error .valueError      -- `007`: eval is a SyntaxError, so ValueError
  else .error .notModelled                          -- would need Python's `eval`

/-- the arity string is exactly one complete prefix tree; `need` = number of open slots -/
def validPrefix : Nat → List Nat → Bool
  | need, [] => need == 0
  | 0, _ :: _ => false
  | need + 1, a :: as => validPrefix (need + a) as

/-- first `j ≥ start` with `has j = false`, searching at most `fuel` candidates -/
def firstMissing (has : Nat → Bool) : Nat → Nat → Option Nat
  | 0, _ => none
  | fuel + 1, j => if has j then firstMissing has fuel (j + 1) else some j

/-- `get_max_param([node_to_string(0, tree, labels)])`, label-wise. -/
def labelsMaxParam (labels : List String) : Option Nat :=
  firstMissing (fun j => labels.any (pyIn (pname j))) ((labels.map String.length).sum + 2) 0

/-- `labels_to_shape` + `check_tree` succeed on a complete prefix tree: shared front end of both
single-tree entry points -/
def frontEnd (b : Basis) (labels : List String) : Except Err Unit :=
  match labels.mapM (arityOf b) with
  | .error e => .error e
  | .ok ar => if !validPrefix 1 ar then .error .notModelled else .ok ()

/-- `tree_to_aifeyn(labels, basis_functions)` (fixed version): the code length; the second component of the
Python result is `labels.length`.  `param_list` is the sub-list of parameter-like labels of the tree. -/
def treeToAifeyn {α} (o : LnOps α) (b : Basis) (labels : List String) : Except Err α :=
  match frontEnd b labels with
  | .error e => .error e
  | .ok () => aifeyn o labels (labels.filter isParamLike)

/-- steps (1) and (4) of `single_function(labels, basis_functions, ...)`: the functional complexity it adds
to the description length; `param_list` comes from `get_max_param` of the printed function.
(The rule `tree_to_aifeyn` used before /repo bda8ceb.) -/
def singleFunctionAifeyn {α} (o : LnOps α) (b : Basis) (labels : List String) : Except Err α :=
  match frontEnd b labels with
  | .error e => .error e
  | .ok () =>
    match labelsMaxParam labels with
    | none => .error .fuel
    | some m => aifeyn o labels (paramList m)

/-! ### the writer loop of `generate_equations` -/

/-- What `shape_to_functions` hands to rank 0 for one shape: all function strings of the shape, the
original label arrays, and the gathered extra label lists (one chunk per rank, in rank order). -/
structure Shape where
  allFun : List String
  allTree : List (List String)
  extraByRank : List (List (List String))

def Shape.extraTree (s : Shape) : List (List String) := s.extraByRank.flatten

/-- `param_list` of a shape (rule taken from the generated effect summary). -/
def shapeParamList (s : Shape) : Option (List String) :=
  match Gen.Aifeyn.paramRule with
  | .maxParamOfShapeFuns => (getMaxParam s.allFun).map paramList

/-- one line of an output file -/
inductive Line (α : Type) where
  | tree (labels : List String)
  | code (v : Except Err α)
  | noParamList
  deriving DecidableEq

def Shape.src (s : Shape) : Src → List (List String)
  | .allTree => s.allTree
  | .extraTree => s.extraTree

/-- lines one `with` block appends for one shape -/
def blockLines {α} (o : LnOps α) (s : Shape) (w : Write) : List (Line α) :=
  (s.src w.src).map fun t =>
    match w.payload with
    | .treeStr => .tree t
    | .aifeyn => match shapeParamList s with
      | some pl => .code (aifeyn o t pl)
      | none => .noParamList

/-- content of `<file>_<compl>.txt` after the loop (files are truncated first, then opened in append mode
once per shape and block). -/
def fileAfter {α} (o : LnOps α) (shapes : List Shape) (file : String) : List (Line α) :=
  shapes.flatMap fun s => (Gen.Aifeyn.writes.filter (fun w => w.file == file)).flatMap (blockLines o s)

/-- content of the target of a `cat` command -/
def catFile {α} (o : LnOps α) (shapes : List Shape) (target : String) : List (Line α) :=
  match Gen.Aifeyn.cats.lookup target with
  | some parts => parts.flatMap (fileAfter o shapes)
  | none => []

/-- the tree list of the library with the `param_list` in force for each tree: originals of every shape,
then extras of every shape -/
def taggedTrees (shapes : List Shape) : List (List String × Option (List String)) :=
  shapes.flatMap (fun s => s.allTree.map (fun t => (t, shapeParamList s)))
  ++ shapes.flatMap (fun s => s.extraTree.map (fun t => (t, shapeParamList s)))

end ESR.Aifeyn
