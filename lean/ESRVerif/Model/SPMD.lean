/-
Execution model for ESR's use of MPI (single program, multiple data; collectives only).

All ranks run the same action list (this is what `harness/extractors/spmd.py` establishes from the source:
every `comm.*` call is reached by every rank in the same order — no collective under rank-dependent control).
A local action transforms the rank's own state; a collective computes every rank's new state from all
ranks' states and can only fire when every rank has arrived at it (gather/bcast/scatter/Barrier semantics).
-/
namespace ESR.SPMD

inductive Act (P : Nat) (σ : Type) where
  | loc (f : Fin P → σ → σ)
  | coll (g : (Fin P → σ) → Fin P → σ)

structure Config (P : Nat) (σ : Type) where
  pc : Fin P → Nat
  st : Fin P → σ

def upd {P : Nat} {α : Type} (f : Fin P → α) (r : Fin P) (v : α) : Fin P → α :=
  fun q => if q = r then v else f q

/-- Lock-step reference execution. -/
def run {P : Nat} {σ : Type} : List (Act P σ) → (Fin P → σ) → (Fin P → σ)
  | [], s => s
  | .loc f :: as, s => run as (fun r => f r (s r))
  | .coll g :: as, s => run as (g s)

/-- Asynchronous small-step semantics: any rank may take its next local step at any time;
a collective fires only when all ranks stand at it. -/
inductive Step {P : Nat} {σ : Type} (prog : List (Act P σ)) : Config P σ → Config P σ → Prop where
  | loc (c : Config P σ) (r : Fin P) (f : Fin P → σ → σ) (h : prog[c.pc r]? = some (.loc f)) :
      Step prog c ⟨upd c.pc r (c.pc r + 1), upd c.st r (f r (c.st r))⟩
  | coll (c : Config P σ) (k : Nat) (g : (Fin P → σ) → Fin P → σ) (hall : ∀ r, c.pc r = k)
      (h : prog[k]? = some (.coll g)) :
      Step prog c ⟨fun _ => k + 1, g c.st⟩

inductive Reach {P : Nat} {σ : Type} (prog : List (Act P σ)) (s0 : Fin P → σ) : Config P σ → Prop where
  | init : Reach prog s0 ⟨fun _ => 0, s0⟩
  | step (c c' : Config P σ) : Reach prog s0 c → Step prog c c' → Reach prog s0 c'

def Terminal {P : Nat} {σ : Type} (prog : List (Act P σ)) (c : Config P σ) : Prop := ∀ r, c.pc r = prog.length

end ESR.SPMD
