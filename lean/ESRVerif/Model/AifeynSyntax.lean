/-
Syntax of the small expression language into which `harness/extractors/aifeyn.py` translates

* the body of `aifeyn_complexity` (esr/generation/generator.py:1617-1634): the two list-comprehension
  filters, the `n[n==a] = b` fix-ups and the (inlined) return expression;
* the file-writing effects of `generate_equations` (generator.py:1674-1733): which `with open(..., 'a')`
  block prints what from which list, which files are cleared first, and the two `cat` commands.

`ESRVerif/Generated/Aifeyn.lean` contains only *values* of these types; their meaning is given by the
interpreters in `ESRVerif/Model/Aifeyn.lean`.  No imports (linked into `esrmodel`).
-/
namespace ESR.Aifeyn

/-- Condition on the loop variable `tt` of a comprehension `[... for tt in tree if <cond>]`. -/
inductive LPred where
  /-- `tt in param_list` -/
  | inParams
  /-- `tt.lstrip(chars).isdigit()` -/
  | stripIsDigit (chars : String)
  | not (p : LPred)
  | and (p q : LPred)
  | or (p q : LPred)
  deriving Repr, DecidableEq, Inhabited

/-- The label lists in scope: the argument `tree` and the filtered list (`t` in the source). -/
inductive LVar where
  | tree
  | ops
  deriving Repr, DecidableEq, Inhabited

/-- Python `int`-valued expressions (all non-negative here). -/
inductive NExp where
  | len (v : LVar)
  /-- `len(set(v))` -/
  | lenSet (v : LVar)
  | lit (n : Nat)
  | add (a b : NExp)
  | mul (a b : NExp)
  /-- `int(a != b)` -/
  | neInd (a b : NExp)
  deriving Repr, DecidableEq, Inhabited

/-- Integer numpy arrays: `n` (after the fix-ups) and `np.abs` of one. -/
inductive IArr where
  | ints
  | abs (a : IArr)
  deriving Repr, DecidableEq, Inhabited

/-- Real numpy arrays. -/
inductive RArr where
  | log (a : IArr)
  deriving Repr, DecidableEq, Inhabited

/-- Real scalar expressions. -/
inductive RExp where
  | nat (e : NExp)
  | log (e : RExp)
  | add (a b : RExp)
  | mul (a b : RExp)
  /-- `np.sum(arr)` -/
  | sum (a : RArr)
  deriving Repr, DecidableEq, Inhabited

/-! ### effect summary of the writer loop of `generate_equations` -/

/-- Which list of the current shape a `with` block iterates over. -/
inductive Src where
  | allTree
  | extraTree
  deriving Repr, DecidableEq, Inhabited

/-- What is printed per element. -/
inductive Payload where
  /-- `pp.pprint(str(t))` -/
  | treeStr
  /-- `print(aifeyn_complexity(tree, param_list), file=f)` -/
  | aifeyn
  deriving Repr, DecidableEq, Inhabited

/-- One `with open(dirname + '/<file>_%i.txt'%compl, 'a')` block inside the loop over shapes. -/
structure Write where
  file : String
  src : Src
  payload : Payload
  deriving Repr, DecidableEq, Inhabited

/-- How `param_list` of a shape is obtained. -/
inductive ParamRule where
  /-- `['a%i'%j for j in range(simplifier.get_max_param(all_fun[i], verbose=False))]` -/
  | maxParamOfShapeFuns
  deriving Repr, DecidableEq, Inhabited

end ESR.Aifeyn
