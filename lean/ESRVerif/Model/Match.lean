import ESRVerif.Generated.Match
/-!
# Model of the matching stage (C05)

Mirrors, statement by statement, for ONE row `i` of `esr/fitting/match.py:main` (lines 64-229, with
`try_integration=False`, the default) and the list-level part of `esr/generation/simplifier.py:convert_params`
(lines 1175-1225) and the triangular `flatten` of `esr/fitting/test_all_Fisher.py:convert_params` (lines 116-118).

* `Num α`            : the numeric operations used (two instances: `Float` here, extended reals in `Proofs/Match.lean`)
* `guardFires`       : match.py:90, evaluated from the *extracted* boolean AST `ESR.Gen.Match.guard`
* `convertParams`    : simplifier.py:1190-1193 (`np.nan in inv_subs` — an identity test) then the calculus, which is an input
* `compose`/`applyChain` : simplifier.py:1205-1207 `for i: p = p.subs(inv_subs[i], simultaneous=True)` as a fold, over an
                       abstract term semantics (`Sem`), and the concrete template language `Term`
* `rowStart`,`flatten`,`unflatten` : test_all_Fisher.py:116-118 and simplifier.py:1195-1198
* `matchRow`         : match.py:76-227.  `none` = the Python raises an uncaught exception.

What is an input rather than modelled: sympy's `subs`/`jacobian`/`lambdify`, `np.linalg.inv` (the record `Conv`), the
likelihood re-evaluation at snapped parameters (`reval`), `run_sympify`/`lambdify` success (`symOk`).
-/
namespace ESR.Match
open ESR.Gen.Match

/-! ## numbers -/

class Num (α : Type) where
  ofNat : Nat → α
  add : α → α → α
  mul : α → α → α
  div : α → α → α
  neg : α → α
  abs : α → α
  sqrt : α → α
  log : α → α
  /-- IEEE `<` (false when an operand is NaN) -/
  lt : α → α → Bool
  /-- IEEE `<=` -/
  le : α → α → Bool
  /-- IEEE `!=` (true when an operand is NaN) -/
  ne : α → α → Bool
  isNaN : α → Bool
  isFinite : α → Bool
  nan : α
  inf : α

namespace Num
variable {α : Type} [Num α]
def zero : α := ofNat 0
def one : α := ofNat 1
/-- exact value of a Python float literal extracted as (numerator, denominator) -/
def ofRat (q : Nat × Nat) : α := if q.2 = 1 then ofNat q.1 else div (ofNat q.1) (ofNat q.2)
/-- `np.isinf` -/
def isInf (x : α) : Bool := !isFinite x && !isNaN x
/-- `np.sum` of a 1-d array (left fold from 0; the pairwise order of numpy is not modelled) -/
def sum (xs : List α) : α := xs.foldl add zero
end Num

instance : Num Float where
  ofNat n := n.toFloat
  add := (· + ·)
  mul := (· * ·)
  div := (· / ·)
  neg x := -x
  abs := Float.abs
  sqrt := Float.sqrt
  log := Float.log
  lt a b := decide (a < b)
  le a b := decide (a ≤ b)
  ne a b := a != b
  isNaN := Float.isNaN
  isFinite := Float.isFinite
  nan := 0.0 / 0.0
  inf := 1.0 / 0.0

/-! ## chains and the guard (match.py:90) -/

/-- one element of a loaded row of `inv_subs_<n>.txt`: `np.nan` or a dict (simplifier.py:1149-1157) -/
inductive Entry (τ : Type) where
  | nan
  | map (m : τ)
  deriving Repr

def Entry.isNan {τ} : Entry τ → Bool
  | .nan => true
  | .map _ => false

abbrev Chain (τ : Type) := List (Entry τ)

def Chain.hasNan {τ} (c : Chain τ) : Bool := c.any Entry.isNan

/-- the maps of a chain without a nan marker -/
def Chain.maps {τ} : Chain τ → List τ
  | [] => []
  | .nan :: c => Chain.maps c
  | .map m :: c => m :: Chain.maps c

/-- truth values of the guard's atoms for a loaded chain.  `chainIsDict` is `false`: `load_subs` returns a list of rows
and every row is a Python *list* (csv row), never a dict (simplifier.py:1116-1118, 1141-1157). -/
def atomVal {τ} (c : Chain τ) : Atom → Bool
  | .lenPos => decide (0 < c.length)
  | .chainIsDict => false
  | .anyEntryNotDict => c.any Entry.isNan
  | .anyEntryDict => c.any (fun e => !e.isNan)

def evalB (v : Atom → Bool) : BExp → Bool
  | .atom a => v a
  | .not b => !evalB v b
  | .and a b => evalB v a && evalB v b
  | .or a b => evalB v a || evalB v b
  | .tt => true
  | .ff => false

/-- match.py:90 with the test as extracted from the current source -/
def guardFires {τ} (c : Chain τ) : Bool := evalB (atomVal c) guard

/-! ## composition of the substitutions (simplifier.py:1205-1207) -/

/-- an abstract term language with simultaneous substitution -/
structure Sem (α : Type) where
  T : Type
  /-- value of a term at a parameter vector -/
  eval : T → (Nat → α) → α
  /-- the term `a_i` -/
  var : Nat → T
  /-- simultaneous substitution of `a_i ↦ m i` -/
  subst : (Nat → T) → T → T

/-- `p = Array([a0..a(k-1)]); for c in chain: p = p.subs(c, simultaneous=True)` -/
def compose {α} (S : Sem α) (k : Nat) (chain : List (Nat → S.T)) : List S.T :=
  chain.foldl (fun p m => p.map (S.subst m)) ((List.range k).map S.var)

/-- the parameter transformation denoted by one map -/
def denote {α} (S : Sem α) (m : Nat → S.T) (θ : Nat → α) : Nat → α := fun i => S.eval (m i) θ

/-- `⟦c₀⟧ (⟦c₁⟧ (… ⟦c_m⟧ θ))` : the LAST recorded map is applied to θ first -/
def applyChain {α} (S : Sem α) : List (Nat → S.T) → (Nat → α) → (Nat → α)
  | [], θ => θ
  | m :: rest, θ => denote S m (applyChain S rest θ)

/-- the template language of the recorded substitutions (simplifier.py:304-331, 402-418, 520-540, 600-607, 655-670) -/
inductive Term where
  | var (i : Nat)
  | neg (t : Term)
  | inv (t : Term)                    -- 1/t
  | divn (t : Term) (n : Nat)         -- t/n
  | muln (t : Term) (n : Nat)         -- n*t
  | rpow (t : Term) (num den : Nat)   -- t**(num/den)  (numpy real power)
  | abs (t : Term)
  | sign (t : Term)
  | mul (a b : Term)
  deriving Repr, Inhabited, DecidableEq

def Term.subst (m : Nat → Term) : Term → Term
  | .var i => m i
  | .neg t => .neg (t.subst m)
  | .inv t => .inv (t.subst m)
  | .divn t n => .divn (t.subst m) n
  | .muln t n => .muln (t.subst m) n
  | .rpow t a b => .rpow (t.subst m) a b
  | .abs t => .abs (t.subst m)
  | .sign t => .sign (t.subst m)
  | .mul a b => .mul (a.subst m) (b.subst m)

/-- a finite map `{a_i: t, …}`; unlisted parameters are left alone -/
def mapOf (kv : List (Nat × Term)) : Nat → Term := fun i =>
  match kv.find? (fun p => p.1 == i) with
  | some p => p.2
  | none => .var i

def Term.evalF (θ : Nat → Float) : Term → Float
  | .var i => θ i
  | .neg t => -(t.evalF θ)
  | .inv t => 1.0 / t.evalF θ
  | .divn t n => t.evalF θ / n.toFloat
  | .muln t n => n.toFloat * t.evalF θ
  | .rpow t a b => Float.pow (t.evalF θ) (a.toFloat / b.toFloat)
  | .abs t => Float.abs (t.evalF θ)
  | .sign t => let v := t.evalF θ; if v > 0.0 then 1.0 else if v < 0.0 then -1.0 else v
  | .mul a b => a.evalF θ * b.evalF θ

def floatSem : Sem Float := { T := Term, eval := fun t θ => t.evalF θ, var := .var, subst := Term.subst }

/-! ## triangular storage of the Hessian -/

/-- position of entry (i,i) in `np.triu_indices(n)` order: rows 0..i-1 contribute n, n-1, … entries -/
def rowStart (n : Nat) : Nat → Nat
  | 0 => 0
  | i + 1 => rowStart n i + (n - i)

/-- test_all_Fisher.py:117  `start = int(i * max_param - (i - 1) * i / 2)` -/
def startPy (n i : Nat) : Nat := i * n - (i - 1) * i / 2

def writeSlice {α} (l : List α) (start : Nat) (vals : List α) : List α :=
  l.take start ++ vals ++ l.drop (start + vals.length)

/-- test_all_Fisher.py:80,116-118: `deriv = full(n(n+1)/2, nan); for i<k: deriv[start:start+k-i] = H[i,i:]` -/
def flatten {α} (nanv : α) (n k : Nat) (H : Nat → Nat → α) : List α :=
  (List.range k).foldl (fun d i => writeSlice d (startPy n i) ((List.range (k - i)).map (fun t => H i (i + t))))
    (List.replicate (n * (n + 1) / 2) nanv)

/-- simplifier.py:1195-1198: `fish = zeros((n,n)); fish[triu_indices(n)] = row; fish = where(fish, fish, fish.T); fish[:k,:k]`.
Entry (i,j) of the result: for i ≤ j the stored value (a stored 0 is replaced by the 0 below the diagonal), for i > j the
stored value of (j,i).  `none` = numpy raises (row length ≠ n(n+1)/2). -/
def unflatten {α} (zero : α) (n k : Nat) (row : List α) : Option (Nat → Nat → α) :=
  if row.length ≠ n * (n + 1) / 2 then none
  else some (fun i j => if i < k ∧ j < k then
      (let a := min i j; let b := max i j; row.getD (rowStart n a + (b - a)) zero) else zero)

/-! ## simplifier.convert_params: list-level logic -/

/-- outcome of `simplifier.convert_params` followed by match.py:96-98 -/
inductive Conv (α : Type) where
  | raised                      -- any exception (sympy, LinAlgError, shape error): match.py:99-102
  | ok (p fish : List α)        -- transformed parameters and diagonal of J⁻ᵀ F J⁻¹
  deriving Repr

/-- simplifier.py:1190-1193: `if np.nan in inv_subs: return [nan]*k, [nan]*k` — `in` tests *identity* first and nan ≠ nan,
so it fires only when the marker is the very object `np.nan` (`sameObj`; false after any pickling, i.e. always in the
pipeline, where the chain went through scatter/gather/bcast).  Otherwise the calculus (`calcRes`, an input). -/
def convertParams {α τ} [Num α] (k : Nat) (chain : Chain τ) (sameObj : Bool) (calcRes : Conv α) : Conv α :=
  if chain.hasNan && sameObj then .ok (List.replicate k Num.nan) (List.replicate k Num.nan) else calcRes

/-! ## one row of match.main -/

inductive Branch where
  | nllBad | noParams | guard | convRaised | fishNonPos | shapeRaised | noSnap | snapAll | kZero | snapSubset
  | infNll | nanNll
  deriving Repr, DecidableEq

structure RowIn (α τ : Type) where
  /-- `negloglike[index]` of the unique function -/
  nllU : α
  /-- `count_params([fcn_i], max_param)[0]` of the variant -/
  nparams : Nat
  maxParam : Nat
  chain : Chain τ
  /-- result of the `try: convert_params …` block, consulted only when the guard does not fire -/
  conv : Conv α
  /-- `run_sympify` and `lambdify` (match.py:132-139) do not raise -/
  symOk : Bool
  /-- `f1(p)`/`fop(p)` at the transformed parameters with the masked (true) entries set to 0 -/
  reval : List Bool → α

structure RowOut (α : Type) where
  nll : α
  codelen : α
  params : List α
  branch : Branch

section row
variable {α : Type} [Num α]
open Num

/-- `np.pad(p, (0, max_param-len(p)))` -/
def pad (maxParam : Nat) (p : List α) : List α := p ++ List.replicate (maxParam - p.length) zero

def zeroWhere (mask : List Bool) (p : List α) : List α := List.zipWith (fun b x => if b then zero else x) mask p

def keep {β} (mask : List Bool) (xs : List β) : List β := (List.zip mask xs).filterMap (fun q => if q.1 then some q.2 else none)

/-- match.py:109-112 -/
def deltaOf (fish : List α) : List α :=
  fish.map (fun f => if ne f zero then sqrt (div (ofRat deltaNum) f) else inf)

/-- match.py:113-116 -/
def nstepsOf (p delta : List α) : List α :=
  List.zipWith (fun x d => if ne d zero then div (abs x) d else nan) p delta

/-- `Nsteps < 1` -/
def snapMask (p fish : List α) : List Bool := (nstepsOf p (deltaOf fish)).map (fun s => lt s (ofRat snapThreshold))

/-- match.py:183/211: `-k/2.*math.log(3.) + np.sum(0.5*np.log(fish) + np.log(abs(np.array(p))))` -/
def codelenFormula (k : Nat) (fish p : List α) : α :=
  add (mul (div (neg (ofNat k)) (ofRat codelenDiv)) (log (ofRat codelenLogArg)))
      (sum (List.zipWith (fun f x => add (mul (ofRat fisherWeight) (log f)) (log (abs x))) fish p))

/-- `itertools.combinations(xs, r)` -/
def combos {β} : List β → Nat → List (List β)
  | _, 0 => [[]]
  | [], _ + 1 => []
  | x :: xs, r + 1 => (combos xs r).map (x :: ·) ++ combos xs (r + 1)

def maskOf (n : Nat) (idx : List Nat) : List Bool := (List.range n).map (fun i => idx.contains i)

/-- state of match.py:165-175 : the last tried index tuple (`idx`, unbound = none), the last likelihood, the current `p` -/
structure LoopSt (α : Type) where
  idx : Option (List Nat)
  nll : α
  p : List α

/-- inner loop `for idx in combinations(try_idx, r)` with its `break`; `none` = uncaught exception (eq_numpy unbound) -/
def innerLoop (ptrue : List α) (symOk : Bool) (reval : List Bool → α) : List (List Nat) → LoopSt α → Option (LoopSt α)
  | [], st => some st
  | idx :: rest, _ =>
    if !symOk then none
    else
      let m := maskOf ptrue.length idx
      let v := reval m
      let st' : LoopSt α := ⟨some idx, v, zeroWhere m ptrue⟩
      if isFinite v then some st' else innerLoop ptrue symOk reval rest st'

/-- outer loop `for r in reversed(range(1, len(try_idx)))` — the `break` leaves only the inner loop -/
def outerLoop (ptrue : List α) (symOk : Bool) (reval : List Bool → α) (tryIdx : List Nat) :
    List Nat → LoopSt α → Option (LoopSt α)
  | [], st => some st
  | r :: rs, st =>
    match innerLoop ptrue symOk reval (combos tryIdx r) st with
    | none => none
    | some st' => outerLoop ptrue symOk reval tryIdx rs st'

/-- match.py:203-227 after the snapping decision: `kept`, the remaining `k`, the `p` used in the formula -/
def finish {τ : Type} (r : RowIn α τ) (ptrue fish : List α) (nll : α) (k : Nat) (kept : List Bool) (pcur : List α) (b : Branch) : RowOut α :=
  if k = 0 then ⟨nll, zero, List.replicate r.maxParam zero, .kZero⟩
  else ⟨nll, codelenFormula k (keep kept fish) (keep kept pcur), pad r.maxParam (zeroWhere (kept.map not) ptrue), b⟩

/-- match.py:76-227 for one row.  `none` = Python raises an uncaught exception. -/
def matchRow {τ : Type} (r : RowIn α τ) : Option (RowOut α) :=
  let zeros := List.replicate r.maxParam (zero : α)
  if isNaN r.nllU || isInf r.nllU then some ⟨r.nllU, nan, zeros, .nllBad⟩            -- 78-80
  else if r.nparams = 0 then some ⟨r.nllU, zero, zeros, .noParams⟩                    -- 82-83
  else if guardFires r.chain then some ⟨r.nllU, inf, zeros, .guard⟩                    -- 90-92
  else match r.conv with
  | .raised => some ⟨r.nllU, inf, zeros, .convRaised⟩                                  -- 99-102
  | .ok p fish =>
    if fish.any (fun f => le f zero) then some ⟨r.nllU, inf, zeros, .fishNonPos⟩      -- 104-106
    else if p.length ≠ fish.length then some ⟨r.nllU, inf, zeros, .shapeRaised⟩       -- 117-120 (boolean index of wrong length)
    else
      let snap := snapMask p fish
      if !snap.any id then                                                              -- 206-227
        some ⟨r.nllU, codelenFormula r.nparams fish p, pad r.maxParam p, .noSnap⟩
      else
        let p0 := zeroWhere snap p                                                      -- 127
        let nll1 := if r.symOk then r.reval snap else nan                               -- 131-157
        if isFinite nll1 then                                                           -- 159-161
          some (finish r p fish nll1 (r.nparams - snap.count true) (snap.map not) p0 .snapAll)
        else
          let tryIdx := (List.range p.length).filter (fun i => snap.getD i false)       -- 164
          let rs := (List.range (tryIdx.length - 1)).reverse.map (· + 1)                -- reversed(range(1, len(try_idx)))
          match outerLoop p r.symOk r.reval tryIdx rs ⟨none, nll1, p0⟩ with
          | none => none
          | some st =>
            if isFinite st.nll then                                                     -- 177-179
              match st.idx with
              | none => none       -- unreachable: `idx` unbound only if no evaluation happened, then st.nll = nll1 is not finite
              | some idx =>
                let kept := (maskOf p.length idx).map not
                some (finish r p fish st.nll (r.nparams - idx.length) kept st.p .snapSubset)
            else if !isNaN st.nll then                                                  -- 180-195 infinite nll
              let fish' := List.zipWith (fun b (fx : α × α) => if b then div (ofRat infNllNum) (mul fx.2 fx.2) else fx.1)
                              snap (List.zip fish p)
              some ⟨r.nllU, codelenFormula r.nparams fish' p, pad r.maxParam p, .infNll⟩
            else                                                                        -- nan: falls through to 197-227
              some (finish r p fish st.nll r.nparams (List.replicate p.length true) st.p .nanNll)

end row


/-! ## the whole stage: the rows of one rank's slice and the tables they read (match.py:49-62, 64-229)

`matchFile` is the stage as a map over the rows (what the property needs: row `i` is a function of its own line of
all_equations / matches / inv_subs and of ONE row of the unique functions' tables).  `matchLoop` is the loop as written: the tables
(`negloglike`, `params_meas`, `all_fish`) are threaded through the iterations, and whether an iteration can change them is the
regenerated alias fact `ESR.Gen.Match.snapTargetsFresh` (every array written in place inside the loop body is a fresh, row-local
array on every path).  When it is false the snapped parameters of a row land in the tables (`spill`, a parameter: whatever the
write does) and later rows of the same rank read them. -/

/-- row `index` of negloglike_comp<n>.dat (likelihood, parameters) and of derivs_comp<n>.dat -/
structure URow (α : Type) where
  nll : α
  params : List α
  fish : List α
  deriving Repr

/-- one line of all_equations_<n>.txt with its line of matches_<n>.txt and inv_subs_<n>.txt (`φ` = the function string) -/
structure FnIn (τ φ : Type) where
  fn : φ
  index : Nat
  nparams : Nat
  chain : Chain τ

/-- what the model takes as inputs, as pure functions of the row's own data: `simplifier.convert_params(measured, fish_measured,
chain)` followed by match.py:96-98, `run_sympify`/`lambdify` success, and the likelihood of the variant at given parameters -/
structure Calc (α τ φ : Type) where
  conv : List α → List α → Chain τ → Conv α
  symOk : φ → Bool
  nllAt : φ → List α → α

section stage
variable {α τ φ : Type} [Num α]

/-- match.py:68-88,95: what row `f` reads.  `none` = `matches_proc[i]` is not a row of the tables (IndexError). -/
def rowIn (C : Calc α τ φ) (maxParam : Nat) (U : List (URow α)) (f : FnIn τ φ) : Option (RowIn α τ) :=
  match U[f.index]? with
  | none => none
  | some u =>
    let conv := C.conv (u.params.take f.nparams) u.fish f.chain
    some { nllU := u.nll, nparams := f.nparams, maxParam := maxParam, chain := f.chain, conv := conv, symOk := C.symOk f.fn,
           reval := fun m => match conv with
             | .ok p _ => C.nllAt f.fn (zeroWhere m p)
             | .raised => Num.nan }

/-- one row of the stage as a function of the tables and the row's own line -/
def matchOne (C : Calc α τ φ) (maxParam : Nat) (U : List (URow α)) (f : FnIn τ φ) : Option (RowOut α) :=
  (rowIn C maxParam U f).bind matchRow

/-- the stage as a map over the rows -/
def matchFile (C : Calc α τ φ) (maxParam : Nat) (U : List (URow α)) (fs : List (FnIn τ φ)) : List (Option (RowOut α)) :=
  fs.map (matchOne C maxParam U)

/-- the loop as written: tables threaded through the iterations; `fresh = false` lets a row write into them -/
def matchLoop (fresh : Bool) (spill : List (URow α) → FnIn τ φ → Option (RowOut α) → List (URow α))
    (C : Calc α τ φ) (maxParam : Nat) : List (URow α) → List (FnIn τ φ) → List (Option (RowOut α))
  | _, [] => []
  | U, f :: fs =>
    let o := matchOne C maxParam U f
    o :: matchLoop fresh spill C maxParam (if fresh then U else spill U f o) fs

/-- the stage with the alias fact regenerated from the current source -/
def matchStage (spill : List (URow α) → FnIn τ φ → Option (RowOut α) → List (URow α))
    (C : Calc α τ φ) (maxParam : Nat) (U : List (URow α)) (fs : List (FnIn τ φ)) : List (Option (RowOut α)) :=
  matchLoop ESR.Gen.Match.snapTargetsFresh spill C maxParam U fs

/-- what C05d's view does: `p[Nsteps<1] = 0.` through `p = params_meas[index,:nparams]` leaves the row's reported (snapped)
parameters in the unique function's row of `params_meas` -/
def spillSnapped (U : List (URow α)) (f : FnIn τ φ) (o : Option (RowOut α)) : List (URow α) :=
  match o, U[f.index]? with
  | some out, some u =>
    if f.chain.isEmpty then U.set f.index { u with params := out.params.take f.nparams ++ u.params.drop f.nparams } else U
  | _, _ => U

end stage

end ESR.Match
