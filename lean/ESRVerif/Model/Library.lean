/-
Bookkeeping of duplicate merging (esr/generation/utils.py, simplifier.do_sympy, duplicate_checker.main,
simplifier.check_results), over abstract function strings.

* `uniqueKeys`, `firstIndex`  — `get_unique_indexes`: uniques in order of first occurrence; `match[v]` = position of
                                 `v` in that list
* `matchIndexes`              — `get_match_indexes(a, b)`: first index in `a` of every item of `b`
* `propagate`                 — do_sympy step (3): every function takes the rewritten string of its unique and appends
                                 that unique's new substitutions to its own chain
* `shuffleRemap`              — duplicate_checker.main: uniques permuted by `i`, matches remapped by the inverse
* `unmergeMatch`              — check_results: a function whose map cannot be verified becomes (a variant of) a new
                                 unique appended after the old ones, with an empty chain
-/
namespace ESR.Library

variable {σ : Type} [DecidableEq σ]

/-- keys of the OrderedDict built by `get_unique_indexes` -/
def uniqueKeys : List σ → List σ
  | [] => []
  | x :: xs => x :: (uniqueKeys xs).filter (· ≠ x)

/-- position of `v` among the uniques (`match[v]`) -/
def firstIndex (us : List σ) (v : σ) : Nat := us.findIdx (· = v)

/-- `get_match_indexes(a, b)`: for every `f` in `b`, the first `i` with `a[i] = f`. -/
def matchIndexes (a b : List σ) : List Nat := b.map (fun f => a.findIdx (· = f))

/-- a chain entry: a recorded parameter map or the unrecoverable marker -/
inductive Entry (μ : Type) where
  | map (m : μ)
  | nan

/-- do_sympy step (3): new string = rewritten unique of the function's match; chain extended by that unique's
additional substitutions. -/
def propagate {μ} (uniq' : List σ) (add : List (List (Entry μ))) (dflt : σ)
    (ms : List Nat) (chains : List (List (Entry μ))) : List σ × List (List (Entry μ)) :=
  (ms.map (fun m => uniq'.getD m dflt), List.zipWith (fun c m => c ++ add.getD m []) chains ms)

/-- shuffle uniques by `perm` (new position j holds old unique perm[j]); matches remapped by the inverse -/
def shuffleRemap (perm : List Nat) (uniq : List σ) (ms : List Nat) (dflt : σ) : List σ × List Nat :=
  (perm.map (fun p => uniq.getD p dflt), ms.map (fun m => perm.findIdx (· = m)))

/-- check_results: new match of function `i` (string `f`) when it is un-merged: index after the old uniques of the
first occurrence of its string among the un-merged strings -/
def unmergeMatch (nuniq : Nat) (newFuns : List σ) (f : σ) : Nat := nuniq + firstIndex (uniqueKeys newFuns) f

end ESR.Library
