import ESRVerif.Model.Gather
/-
Bookkeeping of duplicate merging (esr/generation/utils.py, simplifier.do_sympy, duplicate_checker.main,
simplifier.check_results), over abstract function strings.

* `uniqueKeys`, `firstIndex`  — `get_unique_indexes`: uniques in order of first occurrence; `match[v]` = position of
                                 `v` in that list
* `matchIndexes`              — `get_match_indexes(a, b)`: first index in `a` of every item of `b`
* `propagate`                 — do_sympy step (3): every function takes the rewritten string of its unique and appends
                                 that unique's new substitutions to its own chain
* `shuffleRemap`              — duplicate_checker.main: uniques permuted by `i`, matches remapped by the inverse
* `unmergeMatch`              — check_results: a function whose map cannot be verified becomes (a variant of) a new
                                 unique appended after the old ones, with an empty chain

The do_sympy DRIVER (simplifier.do_sympy 754-1044) and the part of duplicate_checker.main around it (139-264), over
abstract strings, parameterised by an oracle for the CAS step (`sympy_simplify`; `expand_or_factor` only changes dict
VALUES, never keys, so it is the identity on what is modelled here):
* `getMaxParam`, `countParams` — get_max_param 48-71 / count_params 74-94 on an abstract `has s j` (`'a%i'%j in s`)
* `partIdx`                   — `np.atleast_1d(np.squeeze(np.argwhere(nparam == i)))`
* `cut`                       — `add_inv_subs[j[k]] = t[k]` if the unique had no chain, else `t[k][len(old):]` (843-846)
* `applyPart`                 — the `for k in range(len(t))` loop 839-846 (in-place writes to `uniq_fun`, `add_inv_subs`)
* `simplifyPart`, `simplifyAll` — one / all iterations of `for i in range(max_param+1)` 826-846 (= 961-981)
* `step3`                     — step (3) 852-860 (= 987-995)
* `rowsFrom`, `RoundOut.idx/subs` — the two round files 880-889 (= 1015-1024)
* `round`                     — one iteration of either `while old_nuniq != new_nuniq` loop (783-898, 919-1033)
* `loop`, `doSympy`           — the two loops, `round1_count`, the returned round count
* `inherit`                   — duplicate_checker 141-142 `all_fun[-nextra:] = [all_fun[f] for f in extra_orig]`
* `applyRows`, `combine`      — duplicate_checker 221-243 `all_inv_subs[j] = all_inv_subs[j] + inv[i]` over the rounds in order
Where Python raises (KeyError on a unique that is not a key of the sympy dict, IndexError on a row index past the
function count or a missing row, TypeError on slicing `None`) the model returns `none`.  An oracle that breaks the
length contract of sympy_simplify (it returns its three argument lists, updated) also gives `none`: Python would raise
IndexError if the lists grew and silently process a prefix if they shrank; the real sympy_simplify never does either.

The same driver on P RANKS (section `Ranks`, strings are `String` there because `Model/Gather.makeChanges` is reused):
* `rankBlock`                 — sympy_simplify 290-298 (= 500-508): `i = split_idx(len(all_inv_subs), rank, size)`, then
                                 `str_fun = all_fun[i[0]:i[-1]+1]`, `inv_subs_fun = all_inv_subs[i[0]:i[-1]+1]`, or `[]`s
* `casCallRanks`              — one call of sympy_simplify on P ranks: every rank runs the CAS (`cas`, the work between the
                                 slicing and make_changes) on ITS block, then `make_changes` (693-694, `Model/Gather.makeChanges`
                                 with the index arithmetic `d` read from the source) splices the per-rank lists back: all ranks
                                 end with the same broadcast lists.  A rank beyond the data has an empty block, passes `[]`s.
* `seqCall`                   — what that call is on ONE rank written without ranks: the CAS on the whole lists, and
                                 (make_changes!) a chain is taken over only where the STRING changed
* `simplifyPartRanks` … `doSympyRanks`, `dupMainRanks` — the driver above with `casCallRanks d P` for the oracle call;
                                 everything else in do_sympy / main is computed redundantly by every rank from the broadcast
                                 lists (`new_nuniq` is broadcast from rank 0, the files are written by rank 0).
NOT modelled inside one call: sympy_simplify calls make_changes twice (497, 693) with two gathered "is the ± / permuted
form already in all_fun" passes in between (555-573, 624-642) that look `all_fun` up as a whole; the model has ONE
block-wise CAS pass followed by ONE make_changes (`PerItem` in Props/C03c is the hypothesis that makes that adequate).
The early returns 274-278 (`max_param == 0`, empty list) are part of `cas`.
-/
namespace ESR.Library

variable {σ : Type} [DecidableEq σ]

/-- keys of the OrderedDict built by `get_unique_indexes` -/
def uniqueKeys : List σ → List σ
  | [] => []
  | x :: xs => x :: (uniqueKeys xs).filter (· ≠ x)

/-- position of `v` among the uniques (`match[v]`) -/
def firstIndex (us : List σ) (v : σ) : Nat := us.findIdx (· = v)

/-- `get_match_indexes(a, b)`: for every `f` in `b`, the first `i` with `a[i] = f`. -/
def matchIndexes (a b : List σ) : List Nat := b.map (fun f => a.findIdx (· = f))

/-- a chain entry: a recorded parameter map or the unrecoverable marker -/
inductive Entry (μ : Type) where
  | map (m : μ)
  | nan
  deriving DecidableEq, Repr

/-- do_sympy step (3): new string = rewritten unique of the function's match; chain extended by that unique's
additional substitutions. -/
def propagate {μ} (uniq' : List σ) (add : List (List (Entry μ))) (dflt : σ)
    (ms : List Nat) (chains : List (List (Entry μ))) : List σ × List (List (Entry μ)) :=
  (ms.map (fun m => uniq'.getD m dflt), List.zipWith (fun c m => c ++ add.getD m []) chains ms)

/-- shuffle uniques by `perm` (new position j holds old unique perm[j]); matches remapped by the inverse -/
def shuffleRemap (perm : List Nat) (uniq : List σ) (ms : List Nat) (dflt : σ) : List σ × List Nat :=
  (perm.map (fun p => uniq.getD p dflt), ms.map (fun m => perm.findIdx (· = m)))

/-- check_results: new match of function `i` (string `f`) when it is un-merged: index after the old uniques of the
first occurrence of its string among the un-merged strings -/
def unmergeMatch (nuniq : Nat) (newFuns : List σ) (f : σ) : Nat := nuniq + firstIndex (uniqueKeys newFuns) f

/-! ## the do_sympy driver -/

section DoSympy
variable {μ : Type}

/-- a Python chain variable: `None` or a list of entries -/
abbrev OChain (μ : Type) := Option (List (Entry μ))

/-- `sympy_simplify(f, e, t, i, expand_fun, tmax, check_perm)` as seen by the driver: from the strings of the uniques
with `i` parameters and their current chains to new strings and new chains (the sympy objects `e` travel with the
strings and are not modelled). -/
abbrev Oracle (σ μ : Type) := (expandFun checkPerm : Bool) → (nparam : Nat) → List σ → List (OChain μ) → List σ × List (OChain μ)

/-- an oracle that rewrites string by string: `rw i s` = (new string, what is appended to the chain; `none` leaves the
chain variable as it is, `None` included) -/
def pointwiseOracle (rw : Nat → σ → σ × OChain μ) : Oracle σ μ := fun _ _ i f t =>
  (f.map (fun s => (rw i s).1),
   List.zipWith (fun s o => match (rw i s).2 with
                            | none => o
                            | some a => some (o.getD [] ++ a)) f t)

/-- count_params for one string: `for j in range(max_param-1, -1, -1): if 'a%i'%j in s: nparam = j+1; break` -/
def countParams (has : σ → Nat → Bool) (maxParam : Nat) (s : σ) : Nat :=
  match (List.range maxParam).reverse.find? (has s) with
  | some j => j + 1
  | none => 0

/-- get_max_param: `k` is `max_param + 1`; the `while len(with_ai) > 0` loop needs fuel for an abstract `has`. -/
def getMaxParamAux (has : σ → Nat → Bool) : Nat → List σ → Nat → Option Nat
  | 0, _, _ => none
  | fuel + 1, withAi, k =>
    if withAi.isEmpty then some (k - 1) else getMaxParamAux has fuel (withAi.filter (fun f => has f k)) (k + 1)

def getMaxParam (has : σ → Nat → Bool) (fuel : Nat) (allFun : List σ) : Option Nat := getMaxParamAux has fuel allFun 0

/-- indices of the uniques with `i` parameters, ascending -/
def partIdx (np0 : List Nat) (i : Nat) : List Nat := (List.range np0.length).filter (fun m => np0.getD m 0 == i)

/-- what a unique adds this round: the whole returned chain if it had none, else the tail after the old length -/
def cut (old new : OChain μ) : OChain μ :=
  match old with
  | none => new
  | some o => some ((new.getD []).drop o.length)

/-- the oracle kept sympy_simplify's contract: three lists of the length it was given, and a chain that was a list is
still a list (else `t[k][len(...):]` is a TypeError) -/
def wfOut (t : List (OChain μ)) (f' : List σ) (t' : List (OChain μ)) : Bool :=
  f'.length == t.length && t'.length == t.length && (List.zipWith (fun o n => o.isNone || n.isSome) t t').all id

/-- `for k in range(len(t)): uniq_fun[j[k]] = f[k]; add_inv_subs[j[k]] = …` -/
def applyPart (uniqInv : List (OChain μ)) :
    List Nat → List σ → List (OChain μ) → List σ × List (OChain μ) → List σ × List (OChain μ)
  | jk :: j, fk :: f, tk :: t, (u, a) =>
      applyPart uniqInv j f t (u.set jk fk, a.set jk (cut (uniqInv.getD jk none) tk))
  | _, _, _, acc => acc

/-- one iteration of `for i in range(max_param+1)`; `acc` = (`uniq_fun`, `add_inv_subs`) so far -/
def simplifyPart (simp : Oracle σ μ) (expandFun checkPerm : Bool) (dflt : σ) (np0 : List Nat)
    (uniqInv : List (OChain μ)) (acc : List σ × List (OChain μ)) (i : Nat) : Option (List σ × List (OChain μ)) :=
  let j := partIdx np0 i
  let f := j.map (fun m => acc.1.getD m dflt)
  let t := j.map (fun m => uniqInv.getD m none)
  let out := simp expandFun checkPerm i f t
  if wfOut t out.1 out.2 then some (applyPart uniqInv j out.1 out.2 acc) else none

def simplifyAll (simp : Oracle σ μ) (expandFun checkPerm : Bool) (dflt : σ) (np0 : List Nat)
    (uniqInv : List (OChain μ)) : List Nat → List σ × List (OChain μ) → Option (List σ × List (OChain μ))
  | [], acc => some acc
  | i :: is, acc =>
    match simplifyPart simp expandFun checkPerm dflt np0 uniqInv acc i with
    | none => none
    | some acc' => simplifyAll simp expandFun checkPerm dflt np0 uniqInv is acc'

/-- step (3): every function takes the string of its unique; a non-empty addition is appended to its chain -/
def step3 (uniq0 uniq' : List σ) (add : List (OChain μ)) (dflt : σ) (allFun : List σ) (allInv : List (OChain μ)) :
    List σ × List (OChain μ) :=
  let ms := allFun.map (firstIndex uniq0)
  (ms.map (fun m => uniq'.getD m dflt),
   List.zipWith (fun c m => match add.getD m none with
                            | some (x :: xs) => some (c.getD [] ++ x :: xs)
                            | _ => c) allInv ms)

/-- what one round leaves behind: the flags it passed to sympy_simplify and `all_inv_subs` (one entry per function) -/
structure RoundOut (μ : Type) where
  expandFun : Bool
  checkPerm : Bool
  allInv : List (OChain μ)

/-- (index, chain) for every function whose chain is not `None`, `k` = index of the head -/
def rowsFrom : Nat → List (OChain μ) → List (Nat × List (Entry μ))
  | _, [] => []
  | k, none :: rest => rowsFrom (k + 1) rest
  | k, some c :: rest => (k, c) :: rowsFrom (k + 1) rest

/-- lines of `inv_idx_<n>_round_<r>.txt` -/
def RoundOut.idx (r : RoundOut μ) : List Nat := (rowsFrom 0 r.allInv).map (·.1)
/-- rows of `inv_subs_<n>_round_<r>.txt` -/
def RoundOut.subs (r : RoundOut μ) : List (List (Entry μ)) := (rowsFrom 0 r.allInv).map (·.2)

structure St (σ μ : Type) where
  allFun : List σ
  /-- keys of the `all_sym` dict, in insertion order -/
  symKeys : List σ
  oldN : Nat
  newN : Nat
  /-- `count` of the running loop -/
  count : Nat
  /-- the round files written so far; position = `round1_count + count` of the file name -/
  rounds : List (RoundOut μ)

/-- One iteration of a `while old_nuniq != new_nuniq` body.  `simps g` is the CAS at global round `g`. -/
def round (simps : Nat → Oracle σ μ) (np : σ → Nat) (maxParam : Nat) (dflt : σ) (expandFun : Bool) (st : St σ μ) :
    Option (St σ μ) :=
  let allInv0 : List (OChain μ) := List.replicate st.allFun.length none       -- all_inv_subs = [None] * len(all_fun)
  let uniq0 := uniqueKeys st.allFun                                            -- (1)
  if uniq0.all (fun u => decide (u ∈ st.symKeys)) then                          -- all_sym = [all_sym[u] for u in uniq_fun]
    let uniqInv := uniq0.map (fun u => allInv0.getD (st.allFun.findIdx (· = u)) none)
    let np0 := uniq0.map np                                                    -- (2)
    let checkPerm := !expandFun && st.count != 0
    match simplifyAll (simps st.rounds.length) expandFun checkPerm dflt np0 uniqInv (List.range (maxParam + 1))
            (uniq0, List.replicate uniq0.length none) with
    | none => none
    | some (uniq', add) =>
      let r := step3 uniq0 uniq' add dflt st.allFun allInv0                    -- (3)
      some { allFun := r.1
             symKeys := uniqueKeys uniq'                                       -- dict(zip(uniq_fun, all_sym))
             oldN := st.newN
             newN := (uniqueKeys r.1).length                                   -- len(set(all_fun))
             count := st.count + 1
             rounds := st.rounds ++ [{ expandFun := expandFun, checkPerm := checkPerm, allInv := r.2 }] }
  else none

/-- `all_sym = [all_sym[u] for u in uniq_fun]` does not raise KeyError (the condition of `round`, named for `roundRanks`) -/
def keysKnown (uniq0 symKeys : List σ) : Bool := uniq0.all (fun u => decide (u ∈ symKeys))

/-- `while old_nuniq != new_nuniq` with at most `fuel` iterations; the flag says whether the loop condition is false at
the end (termination is not claimed: the flag is part of the output). -/
def loop (simps : Nat → Oracle σ μ) (np : σ → Nat) (maxParam : Nat) (dflt : σ) (expandFun : Bool) :
    Nat → St σ μ → Option (St σ μ × Bool)
  | 0, st => some (st, st.oldN == st.newN)
  | fuel + 1, st =>
    if st.oldN = st.newN then some (st, true)
    else match round simps np maxParam dflt expandFun st with
      | none => none
      | some st' => loop simps np maxParam dflt expandFun fuel st'

structure Result (σ μ : Type) where
  allFun : List σ
  /-- dict keys when expand_or_factor(method='expand') / (method='factor') is called -/
  keysExpand : List σ
  keysFactor : List σ
  nround : Nat
  rounds : List (RoundOut μ)
  /-- both loops reached their exit condition within the fuel -/
  finished : Bool

def doSympy (simps : Nat → Oracle σ μ) (np : σ → Nat) (maxParam : Nat) (dflt : σ) (fuel : Nat)
    (allFun symKeys : List σ) : Option (Result σ μ) :=
  let st0 : St σ μ := { allFun := allFun, symKeys := symKeys, oldN := 0, newN := allFun.length, count := 0, rounds := [] }
  match loop simps np maxParam dflt false fuel st0 with
  | none => none
  | some (st1, d1) =>
    let round1 := st1.count
    match loop simps np maxParam dflt true fuel { st1 with count := 0, oldN := 0 } with
    | none => none
    | some (st2, d2) =>
      some { allFun := st2.allFun, keysExpand := st1.symKeys, keysFactor := st2.symKeys, nround := round1 + st2.count,
             rounds := st2.rounds, finished := d1 && d2 }

/-! ### duplicate_checker.main around do_sympy -/

/-- `all_fun[-nextra:] = [all_fun[f] for f in extra_orig]` for `nextra > 0` (IndexError → `none`) -/
def inherit (allFun : List σ) (extraIdx : List Nat) : Option (List σ) :=
  if extraIdx.isEmpty then some allFun
  else match extraIdx.mapM (fun f => allFun[f]?) with
    | none => none
    | some new => some (allFun.take (allFun.length - extraIdx.length) ++ new)

/-- `for i, j in enumerate(idx): all_inv_subs[j] = all_inv_subs[j] + inv[i]` -/
def applyRows : List (List (Entry μ)) → List Nat → List (List (Entry μ)) → Option (List (List (Entry μ)))
  | cur, [], _ => some cur
  | _, _ :: _, [] => none
  | cur, j :: idx, c :: subs => if j < cur.length then applyRows (cur.set j (cur.getD j [] ++ c)) idx subs else none

/-- the `for r in range(nround)` loop; a file is (`inv_idx` lines, `inv_subs` rows); `idx = []` when there are no rows -/
def combineFrom : List (List (Entry μ)) → List (List Nat × List (List (Entry μ))) → Option (List (List (Entry μ)))
  | cur, [] => some cur
  | cur, (idx, subs) :: rest =>
    match applyRows cur (if subs.isEmpty then [] else idx) subs with
    | none => none
    | some cur' => combineFrom cur' rest

/-- `all_inv_subs = [[]] * ntot` then the rounds in order -/
def combine (ntot : Nat) (files : List (List Nat × List (List (Entry μ)))) : Option (List (List (Entry μ))) :=
  combineFrom (List.replicate ntot []) files

/-- what duplicate_checker.main leaves on disk (besides the round files in `res`) -/
structure MainOut (σ μ : Type) where
  /-- `get_max_param` of the generated strings (used for `load_subs` / `get_all_dup`) -/
  maxParam : Nat
  /-- all_equations_<n>.txt -/
  allEq : List σ
  res : Result σ μ
  /-- unique_equations_<n>.txt (shuffled) -/
  uniq : List σ
  /-- matches_<n>.txt -/
  matchIdx : List Nat
  /-- inv_subs_<n>.txt -/
  invSubs : List (List (Entry μ))

/-- duplicate_checker.main 82-264 with the generator's output (`gen` = strings of the original trees followed by those
of the extra trees, `exOrig` = string of each extra tree's original) as input; `symp` stands for initial_sympify
(string by string), `cancel mp` for `simplify_inv_subs(·, get_all_dup(mp))`, `perm` for the shuffled index array. -/
def dupMain (has : σ → Nat → Bool) (symp : σ → σ) (simps : Nat → Oracle σ μ)
    (cancel : Nat → Option (List (Entry μ)) → Option (List (Entry μ))) (dflt : σ) (fuelMP fuel : Nat)
    (gen exOrig : List σ) (perm : List Nat) : Except String (MainOut σ μ) :=
  match getMaxParam has fuelMP gen with                                        -- 88
  | none => .error "get_max_param-fuel"
  | some mp =>
  if exOrig.any (fun f => !gen.contains f) then .error "KeyError-get_match_indexes" else
  let exIdx := matchIndexes gen exOrig                                       -- 105
  let nextra := exOrig.length
  let allEq := gen.map symp                                                  -- 107-122 (string by string)
  let symKeys := uniqueKeys ((gen.take (gen.length - nextra)).map symp)      -- keys of all_sym: originals only
  match inherit allEq exIdx with                                             -- 141-142
  | none => .error "IndexError-extra_orig"
  | some allFun =>
  match getMaxParam has fuelMP allFun with                                   -- do_sympy 775
  | none => .error "get_max_param-fuel"
  | some mp2 =>
  match doSympy simps (countParams has mp2) mp2 dflt fuel allFun symKeys with
  | none => .error "do_sympy-raised"
  | some res =>
  if res.nround ≠ res.rounds.length then .error "nround" else
  let uniq := uniqueKeys res.allFun                                          -- 159-160
  let ms := res.allFun.map (firstIndex uniq)
  if perm.length ≠ uniq.length then .error "perm-length" else
  let sh := shuffleRemap perm uniq ms dflt                                   -- 167-172
  match combine allFun.length (res.rounds.map (fun r => (r.idx, r.subs))) with   -- 221-243
  | none => .error "IndexError-combine"
  | some chains =>
  .ok { maxParam := mp, allEq := allEq, res := res, uniq := sh.1, matchIdx := sh.2,
        invSubs := chains.map (fun c => (cancel mp (some c)).getD []) }     -- 254-261

end DoSympy

/-! ## the driver on P ranks -/

section Ranks
open ESR.Partition ESR.Gather
variable {μ : Type}

/-- rank `r`'s `str_fun`, `inv_subs_fun`: the `split_idx(len(all_inv_subs), rank, size)` block of both lists -/
def rankBlock (P r : Nat) (f : List String) (t : List (OChain μ)) : List String × List (OChain μ) :=
  match splitIdx t.length P r with
  | none => ([], [])
  | some (lo, hi) => (pySlice f lo (hi + 1), pySlice t lo (hi + 1))

/-- what rank `r` hands to make_changes (`sym_fun` travels with the strings) -/
def rankLocal (P : Nat) (cas : Oracle String μ) (e c : Bool) (i : Nat) (f : List String) (t : List (OChain μ))
    (r : Nat) : Local String (List (Entry μ)) :=
  let b := rankBlock P r f t
  let o := cas e c i b.1 b.2
  { str := o.1, sym := o.1, inv := o.2 }

/-- one sympy_simplify call on `P` ranks; `none` = make_changes raises -/
def casCallRanks (d : MakeChangesDesc) (P : Nat) (cas : Oracle String μ) (e c : Bool) (i : Nat) (f : List String)
    (t : List (OChain μ)) : Option (List String × List (OChain μ)) :=
  (makeChanges d f f t ((List.range P).map (rankLocal P cas e c i f t))).map (fun r => (r.1, r.2.2))

/-- the same call without ranks -/
def seqCall (cas : Oracle String μ) : Oracle String μ := fun e c i f t =>
  ((cas e c i f t).1, mergeChanged f (cas e c i f t).1 t (cas e c i f t).2)

def simplifyPartRanks (d : MakeChangesDesc) (P : Nat) (cas : Oracle String μ) (expandFun checkPerm : Bool) (dflt : String)
    (np0 : List Nat) (uniqInv : List (OChain μ)) (acc : List String × List (OChain μ)) (i : Nat) :
    Option (List String × List (OChain μ)) :=
  let j := partIdx np0 i
  let f := j.map (fun m => acc.1.getD m dflt)
  let t := j.map (fun m => uniqInv.getD m none)
  match casCallRanks d P cas expandFun checkPerm i f t with
  | none => none
  | some out => if wfOut t out.1 out.2 then some (applyPart uniqInv j out.1 out.2 acc) else none

def simplifyAllRanks (d : MakeChangesDesc) (P : Nat) (cas : Oracle String μ) (expandFun checkPerm : Bool) (dflt : String)
    (np0 : List Nat) (uniqInv : List (OChain μ)) :
    List Nat → List String × List (OChain μ) → Option (List String × List (OChain μ))
  | [], acc => some acc
  | i :: is, acc =>
    match simplifyPartRanks d P cas expandFun checkPerm dflt np0 uniqInv acc i with
    | none => none
    | some acc' => simplifyAllRanks d P cas expandFun checkPerm dflt np0 uniqInv is acc'

/-- `round` with every sympy_simplify call made on `P` ranks -/
def roundRanks (d : MakeChangesDesc) (P : Nat) (simps : Nat → Oracle String μ) (np : String → Nat) (maxParam : Nat)
    (dflt : String) (expandFun : Bool) (st : St String μ) : Option (St String μ) :=
  let allInv0 : List (OChain μ) := List.replicate st.allFun.length none
  let uniq0 := uniqueKeys st.allFun
  if keysKnown uniq0 st.symKeys then
    let uniqInv := uniq0.map (fun u => allInv0.getD (st.allFun.findIdx (· = u)) none)
    let np0 := uniq0.map np
    let checkPerm := !expandFun && st.count != 0
    match simplifyAllRanks d P (simps st.rounds.length) expandFun checkPerm dflt np0 uniqInv (List.range (maxParam + 1))
            (uniq0, List.replicate uniq0.length none) with
    | none => none
    | some (uniq', add) =>
      let r := step3 uniq0 uniq' add dflt st.allFun allInv0
      some { allFun := r.1
             symKeys := uniqueKeys uniq'
             oldN := st.newN
             newN := (uniqueKeys r.1).length                                   -- rank 0's value, broadcast
             count := st.count + 1
             rounds := st.rounds ++ [{ expandFun := expandFun, checkPerm := checkPerm, allInv := r.2 }] }
  else none

def loopRanks (d : MakeChangesDesc) (P : Nat) (simps : Nat → Oracle String μ) (np : String → Nat) (maxParam : Nat)
    (dflt : String) (expandFun : Bool) : Nat → St String μ → Option (St String μ × Bool)
  | 0, st => some (st, st.oldN == st.newN)
  | fuel + 1, st =>
    if st.oldN = st.newN then some (st, true)
    else match roundRanks d P simps np maxParam dflt expandFun st with
      | none => none
      | some st' => loopRanks d P simps np maxParam dflt expandFun fuel st'

def doSympyRanks (d : MakeChangesDesc) (P : Nat) (simps : Nat → Oracle String μ) (np : String → Nat) (maxParam : Nat)
    (dflt : String) (fuel : Nat) (allFun symKeys : List String) : Option (Result String μ) :=
  let st0 : St String μ := { allFun := allFun, symKeys := symKeys, oldN := 0, newN := allFun.length, count := 0, rounds := [] }
  match loopRanks d P simps np maxParam dflt false fuel st0 with
  | none => none
  | some (st1, d1) =>
    let round1 := st1.count
    match loopRanks d P simps np maxParam dflt true fuel { st1 with count := 0, oldN := 0 } with
    | none => none
    | some (st2, d2) =>
      some { allFun := st2.allFun, keysExpand := st1.symKeys, keysFactor := st2.symKeys, nround := round1 + st2.count,
             rounds := st2.rounds, finished := d1 && d2 }

/-- `dupMain` with do_sympy on `P` ranks (the generator, initial_sympify and load_subs sides of the rank count are C13's
`initialSympify_rank_count_irrelevant` / `loadSubs_scatter_gather`; here they are the rank-free `symp` / `cancel`). -/
def dupMainRanks (d : MakeChangesDesc) (P : Nat) (has : String → Nat → Bool) (symp : String → String)
    (simps : Nat → Oracle String μ) (cancel : Nat → Option (List (Entry μ)) → Option (List (Entry μ))) (dflt : String)
    (fuelMP fuel : Nat) (gen exOrig : List String) (perm : List Nat) : Except String (MainOut String μ) :=
  match getMaxParam has fuelMP gen with
  | none => .error "get_max_param-fuel"
  | some mp =>
  if exOrig.any (fun f => !gen.contains f) then .error "KeyError-get_match_indexes" else
  let exIdx := matchIndexes gen exOrig
  let nextra := exOrig.length
  let allEq := gen.map symp
  let symKeys := uniqueKeys ((gen.take (gen.length - nextra)).map symp)
  match inherit allEq exIdx with
  | none => .error "IndexError-extra_orig"
  | some allFun =>
  match getMaxParam has fuelMP allFun with
  | none => .error "get_max_param-fuel"
  | some mp2 =>
  match doSympyRanks d P simps (countParams has mp2) mp2 dflt fuel allFun symKeys with
  | none => .error "do_sympy-raised"
  | some res =>
  if res.nround ≠ res.rounds.length then .error "nround" else
  let uniq := uniqueKeys res.allFun
  let ms := res.allFun.map (firstIndex uniq)
  if perm.length ≠ uniq.length then .error "perm-length" else
  let sh := shuffleRemap perm uniq ms dflt
  match combine allFun.length (res.rounds.map (fun r => (r.idx, r.subs))) with
  | none => .error "IndexError-combine"
  | some chains =>
  .ok { maxParam := mp, allEq := allEq, res := res, uniq := sh.1, matchIdx := sh.2,
        invSubs := chains.map (fun c => (cancel mp (some c)).getD []) }

end Ranks

end ESR.Library
