/-
Model of ESR's parameter-map bookkeeping (shared by C17, C05, C03).  No imports: linked into `esrmodel`.

Mirrors (esr/generation/simplifier.py unless said otherwise):
* `PTerm`, `toChars`       — the *printed form* of the right-hand sides the simplifier records with
                             `str({all_a[j]: <expr>})` (sympy_simplify 420-431, 540, 607, 660) — a hand model of sympy's
                             `str()` on these monomials, validated against sympy by the C17 correspondence.
* template constructors    — `scaleT … invT`: one per entry of `all_expr` in sympy_simplify 420-431 (+ sign flip 607,
                             permutation 524/540, rename 660, `all_dup` 1053-1058).
* `dumpEntry`, `dumpRow`, `dumpFile` — `csv.writer(f, delimiter=';').writerows(...)` of `str(dict)` / `'nan'` cells
                             (simplifier 875-877, 1010-1012; duplicate_checker 258-260).
* `replaceAll`, `quoteWith`, `replaceSeq` — the four `.replace` calls of load_subs 1145-1148, in order.
* `parseDict`              — stands for `ast.literal_eval` on the quoted text (dict of single-quoted strings only).
* `parseTerm`              — stands for `sympy.sympify(..., locals=locs)` on the template language only; `none`
                             outside it (never totalised silently).
* `loadCell`, `readCsv`, `rankSlice`, `loadFile` — load_subs 1114-1172 (csv read, np.array_split blocks
                             `subs[ii[0]:ii[-1]+1]`, per-cell transform, gather + chain).
* `pairsOf`, `comb`, `allDup` — get_all_dup 1046-1060.
* `delLoop`, `simplifyInvSubs` — simplify_inv_subs 1075-1097 (index loop, `del_idx`, `None` for an empty result);
                             `cancel` is the structural function it is proved equal to.
* `eval`, `applyMap`, `denote` — composition semantics of a chain as `convert_params` 1205-1207 applies it:
                             `p = p.subs(inv_subs[i], simultaneous=True)` for i = 0,1,…  ⇒  ⟦c⟧θ = ⟦c₀⟧(⟦c₁⟧(…θ)).
-/
namespace ESR.Subs

/-! ## terms, maps, chains -/

/-- Printed-form syntax tree of a recorded right-hand side (also the parse tree of `parseTerm`). -/
inductive PTerm
  | param (k : Nat)                 -- a<k>
  | nan                             -- sympy `nan` as a *value* (`{a0: nan}`), not the chain entry 'nan'
  | nat (n : Nat)
  | dec (i : Nat) (frac : List Nat) -- decimal literal i.frac (digits), e.g. 0.333333333333333
  | neg (t : PTerm)
  | mul (s t : PTerm)
  | div (s t : PTerm)
  | pow (b e : PTerm)
  | abs (t : PTerm)
  | sqrt (t : PTerm)
  | sign (t : PTerm)
  | exp (t : PTerm)
  | log (t : PTerm)
  deriving DecidableEq, Repr, Inhabited

/-- `{a_k: term, …}` in insertion order. -/
abbrev PMap := List (Nat × PTerm)

/-- One step of a chain: a substitution or the unrecoverable marker `str(np.nan)`. -/
inductive Entry
  | map (m : PMap)
  | nan
  deriving DecidableEq, Repr, Inhabited

abbrev Chain := List Entry

/-! ## printing (sympy `str`) -/

def digitChar : Nat → Char
  | 0 => '0' | 1 => '1' | 2 => '2' | 3 => '3' | 4 => '4'
  | 5 => '5' | 6 => '6' | 7 => '7' | 8 => '8' | 9 => '9' | _ => '0'

def natCharsAux : Nat → Nat → List Char → List Char
  | 0, _, acc => acc
  | f + 1, n, acc =>
    if n < 10 then digitChar n :: acc else natCharsAux f (n / 10) (digitChar (n % 10) :: acc)

def natChars (n : Nat) : List Char := natCharsAux (n + 1) n []

/-- sympy printer precedence classes that matter here: atom/function 100, Pow 60, Mul 50, negated 40. -/
def prec : PTerm → Nat
  | .neg _ => 40
  | .mul _ _ => 50
  | .div _ _ => 50
  | .pow _ _ => 60
  | _ => 100

def paren (need p : Nat) (s : List Char) : List Char :=
  if p < need then '(' :: (s ++ [')']) else s

def toChars : PTerm → List Char
  | .param k => 'a' :: natChars k
  | .nan => ['n', 'a', 'n']
  | .nat n => natChars n
  | .dec i fs => natChars i ++ '.' :: fs.map digitChar
  | .neg t => '-' :: paren 50 (prec t) (toChars t)
  | .mul s t => paren 50 (prec s) (toChars s) ++ '*' :: paren 51 (prec t) (toChars t)
  | .div s t => paren 50 (prec s) (toChars s) ++ '/' :: paren 51 (prec t) (toChars t)
  | .pow b e => paren 100 (prec b) (toChars b) ++ '*' :: '*' :: paren 100 (prec e) (toChars e)
  | .abs t => 'A' :: 'b' :: 's' :: '(' :: (toChars t ++ [')'])
  | .sqrt t => 's' :: 'q' :: 'r' :: 't' :: '(' :: (toChars t ++ [')'])
  | .sign t => 's' :: 'i' :: 'g' :: 'n' :: '(' :: (toChars t ++ [')'])
  | .exp t => 'e' :: 'x' :: 'p' :: '(' :: (toChars t ++ [')'])
  | .log t => 'l' :: 'o' :: 'g' :: '(' :: (toChars t ++ [')'])

def toStr (t : PTerm) : String := String.ofList (toChars t)

/-! ## the templates sympy_simplify / get_all_dup can record (printed forms chosen as sympy prints them) -/

def one : PTerm := .nat 1

/-- `base ** (1/m)` as sympy prints the stand-alone power (`1/0 = zoo` gives `nan`). -/
def rootT (base : PTerm) (m : Int) : PTerm :=
  if m = 0 then .nan
  else if m = 1 then base
  else if m = -1 then .div one base
  else if m = 2 then .sqrt base
  else if m = -2 then .div one (.sqrt base)
  else if m > 0 then .pow base (.div one (.nat m.natAbs))
  else .pow base (.neg (.div one (.nat m.natAbs)))

/-- `{a_j: a_j/n}` for the rational `n = p/q` in lowest terms, `p ≠ 0`, `q ≥ 1` (line 420). -/
def scaleT (j : Nat) (p : Int) (q : Nat) : PTerm :=
  let num := q
  let den := p.natAbs
  let a := PTerm.param j
  let t1 := if num = 1 then a else .mul (.nat num) a
  let t2 := if den = 1 then t1 else .div t1 (.nat den)
  if p < 0 then .neg t2 else t2

/-- `pow_abs(a_j, 1/n)`, `n` even (line 421). -/
def evenRootT (j : Nat) (n : Int) : PTerm := rootT (.abs (.param j)) n
/-- `a_j ** (1/n)`, `n` odd (line 422). -/
def oddRootT (j : Nat) (n : Int) : PTerm := rootT (.param j) n
/-- `pow_abs(a_j, 1/(n+1))`, `n` even (line 423). -/
def evenRoot1T (j : Nat) (n : Int) : PTerm := rootT (.abs (.param j)) (n + 1)
/-- `pow_abs(a_j, 1/(n+1)) * sign(a_j)`, `n` odd (line 424). -/
def oddRoot1T (j : Nat) (n : Int) : PTerm :=
  let m := n + 1
  let a := PTerm.param j
  if m = 0 then .nan
  else if m > 0 then .mul (rootT (.abs a) m) (.sign a)
  else .div (.sign a) (rootT (.abs a) (-m))

/-- the literal `1/3` of lines 426/428 is a Python float; sympy prints 15 significant digits -/
def third : PTerm := .dec 0 [3,3,3,3,3,3,3,3,3,3,3,3,3,3,3]

def sqrtAbsT (j : Nat) : PTerm := .sqrt (.abs (.param j))          -- 425, 427
def cubeRootT (j : Nat) : PTerm := .pow (.param j) third           -- 426
def cubeRootAbsT (j : Nat) : PTerm := .pow (.abs (.param j)) third -- 428
def squareT (j : Nat) : PTerm := .pow (.param j) (.nat 2)          -- 429
def expT (j : Nat) : PTerm := .exp (.param j)                      -- 430
def logAbsT (j : Nat) : PTerm := .log (.abs (.param j))            -- 431
def negT (j : Nat) : PTerm := .neg (.param j)                      -- 607, 1053
def invT (j : Nat) : PTerm := .div one (.param j)                  -- 1054

/-- Template families by name (used by the driver and the generated family list). -/
def family (name : String) (j : Nat) (p : Int) (q : Nat) : Option PTerm :=
  match name with
  | "scale" => if p = 0 ∨ q = 0 then none else some (scaleT j p q)
  | "evenroot" => some (evenRootT j p)
  | "oddroot" => some (oddRootT j p)
  | "evenroot1" => some (evenRoot1T j p)
  | "oddroot1" => some (oddRoot1T j p)
  | "sqrtabs" => some (sqrtAbsT j)
  | "cuberoot" => some (cubeRootT j)
  | "cuberootabs" => some (cubeRootAbsT j)
  | "square" => some (squareT j)
  | "exp" => some (expT j)
  | "logabs" => some (logAbsT j)
  | "neg" => some (negT j)
  | "inv" => some (invT j)
  | _ => none

/-- integers `-N … N` -/
def intRange (N : Nat) : List Int :=
  (List.range (2 * N + 1)).map (fun (i : Nat) => Int.ofNat i - Int.ofNat N)

/-- rationals `p/q` in lowest terms with `2 ≤ q ≤ 4`, `0 < |p| ≤ N` (the non-integer `numbers` atoms) -/
def ratRange (N : Nat) : List (Int × Nat) :=
  [2, 3, 4].flatMap (fun q => ((intRange N).filter (fun p => p ≠ 0 ∧ Nat.gcd p.natAbs q = 1)).map (fun p => (p, q)))

/-- Every right-hand side `sympy_simplify` can record for parameter `j` with integers `|n| ≤ N`
(plus the small rationals), and the two `all_dup` forms. -/
def unaryValues (N j : Nat) : List PTerm :=
  ((intRange N).flatMap (fun n =>
      (if n = 0 then [] else [scaleT j n 1]) ++
      (if n % 2 = 0 then [evenRootT j n, evenRoot1T j n] else [oddRootT j n, oddRoot1T j n]))) ++
  ((ratRange N).map (fun pq => scaleT j pq.1 pq.2)) ++
  [sqrtAbsT j, cubeRootT j, cubeRootAbsT j, squareT j, expT j, logAbsT j, negT j, invT j]

/-! ## writing: `str(dict)` cells, `;`-separated rows, csv line terminator -/

def kvChars (kv : Nat × PTerm) : List Char × List Char := (toChars (.param kv.1), toChars kv.2)

def joinItems (sepItem sepKV : List Char) : List (List Char × List Char) → List Char
  | [] => []
  | [kv] => kv.1 ++ sepKV ++ kv.2
  | kv :: rest => kv.1 ++ sepKV ++ kv.2 ++ sepItem ++ joinItems sepItem sepKV rest

def render (op sepItem sepKV cl : List Char) (kvs : List (List Char × List Char)) : List Char :=
  op ++ joinItems sepItem sepKV kvs ++ cl

def nanCell : List Char := ['n', 'a', 'n']

def dumpMap (m : PMap) : List Char := render ['{'] [',', ' '] [':', ' '] ['}'] (m.map kvChars)

/-- the csv cell text -/
def dumpEntry : Entry → List Char
  | .nan => nanCell
  | .map m => dumpMap m

def joinCells : List (List Char) → List Char
  | [] => []
  | [c] => c
  | c :: rest => c ++ ';' :: joinCells rest

/-- one `writer.writerow`: cells joined by `;`, terminator `\r\n` (an empty row writes just the terminator). -/
def dumpRow (row : List Entry) : List Char := joinCells (row.map dumpEntry) ++ ['\r', '\n']

def dumpFile (rows : List (List Entry)) : List Char := rows.flatMap dumpRow

/-! ## reading: Python `str.replace`, the quote-insertion sequence of load_subs -/

/-- `pat` is a prefix of `s` -/
def startsWith : List Char → List Char → Bool
  | [], _ => true
  | _ :: _, [] => false
  | a :: p, b :: s => a == b && startsWith p s

def replaceGo (pat rep : List Char) : Nat → List Char → List Char
  | _, [] => []
  | skip + 1, _ :: cs => replaceGo pat rep skip cs
  | 0, c :: cs =>
    if startsWith pat (c :: cs) then rep ++ replaceGo pat rep (pat.length - 1) cs
    else c :: replaceGo pat rep 0 cs

/-- Python `s.replace(pat, rep)`: leftmost non-overlapping occurrences. -/
def replaceAll (pat rep s : List Char) : List Char :=
  match pat with
  | [] => rep ++ s.flatMap (fun c => c :: rep)
  | _ :: _ => replaceGo pat rep 0 s

/-- lines 1145-1148, in order -/
def replaceSeq : List (List Char × List Char) :=
  [ (['{'], ['{', '\'']),
    (['}'], ['\'', '}']),
    ([',', ' '], ['\'', ',', ' ', '\'']),
    ([':', ' '], ['\'', ':', ' ', '\'']) ]

def quoteWith (seq : List (List Char × List Char)) (s : List Char) : List Char :=
  seq.foldl (fun acc pr => replaceAll pr.1 pr.2 acc) s

def quote (s : List Char) : List Char := quoteWith replaceSeq s

/-! ### `ast.literal_eval` on a dict of single-quoted strings: a character automaton -/

inductive DState
  | start                                                            -- expect `{`
  | openQ (done : List (List Char × List Char))                      -- expect `'` opening a key
  | inKey (done : List (List Char × List Char)) (acc : List Char)
  | colon (done : List (List Char × List Char)) (key : List Char)    -- expect `:`
  | space (done : List (List Char × List Char)) (key : List Char)    -- expect ` `
  | openV (done : List (List Char × List Char)) (key : List Char)    -- expect `'` opening the value
  | inVal (done : List (List Char × List Char)) (key acc : List Char)
  | after (done : List (List Char × List Char))                      -- expect `,` or `}`
  | space2 (done : List (List Char × List Char))                     -- expect ` ` after `,`
  | fin (done : List (List Char × List Char))

def dstep : DState → Char → Option DState
  | .start, c => if c = '{' then some (.openQ []) else none
  | .openQ d, c => if c = '\'' then some (.inKey d []) else none
  | .inKey d acc, c =>
    if c = '\'' then some (.colon d acc) else if c = '\\' ∨ c = '\n' then none else some (.inKey d (acc ++ [c]))
  | .colon d k, c => if c = ':' then some (.space d k) else none
  | .space d k, c => if c = ' ' then some (.openV d k) else none
  | .openV d k, c => if c = '\'' then some (.inVal d k []) else none
  | .inVal d k acc, c =>
    if c = '\'' then some (.after (d ++ [(k, acc)])) else if c = '\\' ∨ c = '\n' then none else some (.inVal d k (acc ++ [c]))
  | .after d, c => if c = ',' then some (.space2 d) else if c = '}' then some (.fin d) else none
  | .space2 d, c => if c = ' ' then some (.openQ d) else none
  | .fin _, _ => none

def drun : DState → List Char → Option DState
  | s, [] => some s
  | s, c :: cs => match dstep s c with
    | none => none
    | some s' => drun s' cs

/-- `none` = literal_eval raises, or the text is outside the modelled literal language. -/
def parseDict (s : List Char) : Option (List (List Char × List Char)) :=
  match drun .start s with
  | some (.fin d) => some d
  | _ => none

/-! ### `sympify` on the template language: a small recursive-descent parser (fuel = structural) -/

def isDigit (c : Char) : Bool := '0' ≤ c ∧ c ≤ '9'
def isAlpha (c : Char) : Bool := ('a' ≤ c ∧ c ≤ 'z') ∨ ('A' ≤ c ∧ c ≤ 'Z')

def digitVal (c : Char) : Nat := c.toNat - 48

def digitsVal (ds : List Char) : Nat := ds.foldl (fun acc c => acc * 10 + digitVal c) 0

def fnOf (w : List Char) : Option (PTerm → PTerm) :=
  if w = ['A', 'b', 's'] then some .abs
  else if w = ['s', 'q', 'r', 't'] then some .sqrt
  else if w = ['s', 'i', 'g', 'n'] then some .sign
  else if w = ['e', 'x', 'p'] then some .exp
  else if w = ['l', 'o', 'g'] then some .log
  else none

mutual
  def pExpr : Nat → List Char → Option (PTerm × List Char)
    | 0, _ => none
    | f + 1, cs =>
      match cs with
      | '-' :: cs' => match pProd f cs' with
        | some (t, r) => some (.neg t, r)
        | none => none
      | _ => pProd f cs
  def pProd : Nat → List Char → Option (PTerm × List Char)
    | 0, _ => none
    | f + 1, cs => match pPow f cs with
      | some (t, r) => pLoop f t r
      | none => none
  def pLoop : Nat → PTerm → List Char → Option (PTerm × List Char)
    | 0, _, _ => none
    | f + 1, acc, cs =>
      match cs with
      | '*' :: cs' => match pPow f cs' with
        | some (t, r) => pLoop f (.mul acc t) r
        | none => none
      | '/' :: cs' => match pPow f cs' with
        | some (t, r) => pLoop f (.div acc t) r
        | none => none
      | _ => some (acc, cs)
  def pPow : Nat → List Char → Option (PTerm × List Char)
    | 0, _ => none
    | f + 1, cs => match pAtom f cs with
      | some (b, r) =>
        match r with
        | '*' :: '*' :: r' => match pAtom f r' with
          | some (e, r'') => some (.pow b e, r'')
          | none => none
        | _ => some (b, r)
      | none => none
  def pAtom : Nat → List Char → Option (PTerm × List Char)
    | 0, _ => none
    | f + 1, cs =>
      match cs with
      | '(' :: cs' => match pExpr f cs' with
        | some (t, ')' :: r) => some (t, r)
        | _ => none
      | _ =>
        let ds := cs.span isDigit
        if ds.1 ≠ [] then
          match ds.2 with
          | '.' :: r2 =>
            let fs := r2.span isDigit
            if fs.1 = [] then none else some (.dec (digitsVal ds.1) (fs.1.map digitVal), fs.2)
          | _ => some (.nat (digitsVal ds.1), ds.2)
        else
          let w := cs.span isAlpha
          if w.1 = ['a'] then
            let ks := w.2.span isDigit
            if ks.1 = [] then none else some (.param (digitsVal ks.1), ks.2)
          else if w.1 = ['n', 'a', 'n'] then some (.nan, w.2)
          else match fnOf w.1, w.2 with
            | some mk, '(' :: r' => match pExpr f r' with
              | some (t, ')' :: r2) => some (mk t, r2)
              | _ => none
            | _, _ => none
end

/-- `none` = outside the modelled template language (sympify itself accepts far more). -/
def parseTerm (s : List Char) : Option PTerm :=
  match pExpr (4 * s.length + 8) s with
  | some (t, []) => some t
  | _ => none

/-! ### one cell (load_subs 1145-1157) -/

def optMap {α β} (f : α → Option β) : List α → Option (List β)
  | [] => some []
  | a :: as => match f a, optMap f as with
    | some b, some bs => some (b :: bs)
    | _, _ => none

/-- `dict(zip(k, v))`: a repeated key keeps its first position and takes the last value. -/
def dictInsert (m : PMap) (k : Nat) (v : PTerm) : PMap :=
  if m.any (fun kv => kv.1 = k) then m.map (fun kv => if kv.1 = k then (k, v) else kv) else m ++ [(k, v)]

def parseKV (kv : List Char × List Char) : Option (Nat × PTerm) :=
  match parseTerm kv.1, parseTerm kv.2 with
  | some (.param k), some v => some (k, v)
  | _, _ => none            -- a non-parameter key is outside the modelled language

def loadCellWith (seq : List (List Char × List Char)) (s : List Char) : Option Entry :=
  let q := quoteWith seq s
  if q = nanCell then some .nan
  else match parseDict q with
    | none => none
    | some kvs => match optMap parseKV kvs with
      | none => none
      | some ps => some (.map (ps.foldl (fun m kv => dictInsert m kv.1 kv.2) []))

def loadCell (s : List Char) : Option Entry := loadCellWith replaceSeq s

/-- DESIGN.md names: `dump` / `load` of one chain entry (one csv cell) -/
abbrev dump : Entry → List Char := dumpEntry
abbrev load : List Char → Option Entry := loadCell

/-! ### the file: csv reader, array_split blocks, gather + chain (load_subs 1114-1128, 1162-1165) -/

/-- text-mode lines with universal newlines (`\r\n`, `\r`, `\n` all end a line); `cr` = previous char was `\r` -/
def linesGo : Bool → List Char → List Char → List (List Char)
  | _, acc, [] => if acc = [] then [] else [acc]
  | cr, acc, c :: cs =>
    if c = '\n' then (if cr then linesGo false [] cs else acc :: linesGo false [] cs)
    else if c = '\r' then acc :: linesGo true [] cs
    else linesGo false (acc ++ [c]) cs

def cellsGo : List Char → List Char → List (List Char)
  | acc, [] => [acc]
  | acc, c :: cs => if c = ';' then acc :: cellsGo [] cs else cellsGo (acc ++ [c]) cs

/-- `csv.reader(f, delimiter=';')`; a `"` would start csv quoting, which is not modelled (`none`). -/
def readCsv (text : List Char) : Option (List (List (List Char))) :=
  optMap (fun l => if '"' ∈ l then none else some (if l = [] then [] else cellsGo [] l)) (linesGo false [] text)

/-- section boundaries of `np.array_split(np.arange(N), P)` (same arithmetic as `Partition.divPoint`) -/
def splitPoint (N P r : Nat) : Nat :=
  let each := N / P
  let extras := N % P
  if r ≤ extras then r * (each + 1) else extras * (each + 1) + (r - extras) * each

/-- `subs[ii[0]+lo : ii[-1]+hi]`, or `[]` for an empty section; the source has `lo = 0`, `hi = 1`. -/
def rankSliceWith {α} (lo hi : Nat) (xs : List α) (P r : Nat) : List α :=
  let a := splitPoint xs.length P r
  let b := splitPoint xs.length P (r + 1)
  if a ≥ b then [] else (xs.take (b - 1 + hi)).drop (a + lo)

def rankSlice {α} (xs : List α) (P r : Nat) : List α := rankSliceWith 0 1 xs P r

def loadRow (cells : List (List Char)) : Option (List Entry) := optMap loadCell cells

/-- what `load_subs(fname, k)` returns on every rank (`none` = some rank raises). -/
def loadFile (P : Nat) (text : List Char) : Option (List (List Entry)) :=
  match readCsv text with
  | none => none
  | some rows =>
    match optMap (fun r => optMap loadRow (rankSlice rows P r)) (List.range P) with
    | none => none
    | some perRank => some perRank.flatten

/-! ## get_all_dup -/

/-- `itertools.combinations(l, 2)` -/
def pairsOf : List Nat → List (Nat × Nat)
  | [] => []
  | x :: xs => xs.map (fun y => (x, y)) ++ pairsOf xs

/-- `combinations(np.flip(np.arange(k)), 2)` -/
def comb (k : Nat) : List (Nat × Nat) := pairsOf (List.range k).reverse

def allDup (k : Nat) : List PMap :=
  (List.range k).map (fun j => [(j, negT j)]) ++
  (List.range k).map (fun j => [(j, invT j)]) ++
  (comb k).map (fun c => [(c.1, .param c.2), (c.2, .param c.1)]) ++
  (comb k).map (fun c => [(c.2, .param c.1), (c.1, .param c.2)])

def allDupEntries (k : Nat) : List Entry := (allDup k).map .map

/-! ## simplify_inv_subs -/

/-- the `while i < len(inv_subs) - 1` loop; returns `del_idx`. -/
def delLoop {β} [DecidableEq β] (dup xs : List β) : Nat → Nat → List Nat → List Nat
  | 0, _, del => del
  | fuel + 1, i, del =>
    if i + 1 < xs.length then
      match xs[i]?, xs[i + 1]? with
      | some a, some b =>
        if a ∈ dup then
          if b = a then delLoop dup xs fuel (i + 2) (del ++ [i, i + 1])
          else delLoop dup xs fuel (i + 1) del
        else delLoop dup xs fuel (i + 1) del
      | _, _ => del
    else del

/-- `[inv_subs[i] for i in range(len(inv_subs)) if i not in del_idx]` (index carried along the list) -/
def keepIdx {β} (del : List Nat) : Nat → List β → List β
  | _, [] => []
  | i, x :: xs => if i ∈ del then keepIdx del (i + 1) xs else x :: keepIdx del (i + 1) xs

def keepNot {β} (xs : List β) (del : List Nat) : List β := keepIdx del 0 xs

/-- `none` is Python's `None`. -/
def simplifyInvSubs {β} [DecidableEq β] (dup : List β) : Option (List β) → Option (List β)
  | none => none
  | some [] => some []
  | some xs =>
    let new := keepNot xs (delLoop dup xs xs.length 0 [])
    if new.isEmpty then none else some new

/-- the structural function the loop computes -/
def cancel {β} [DecidableEq β] (dup : List β) : List β → List β
  | a :: b :: rest => if a ∈ dup ∧ b = a then cancel dup rest else a :: cancel dup (b :: rest)
  | l => l

/-! ## semantics -/

structure Ops (α : Type) where
  ofNat : Nat → α
  ofDec : Nat → List Nat → α
  nan : α
  neg : α → α
  mul : α → α → α
  div : α → α → α
  pow : α → α → α
  abs : α → α
  sqrt : α → α
  sign : α → α
  exp : α → α
  log : α → α

def eval {α} (o : Ops α) (θ : Nat → α) : PTerm → α
  | .param k => θ k
  | .nan => o.nan
  | .nat n => o.ofNat n
  | .dec i fs => o.ofDec i fs
  | .neg t => o.neg (eval o θ t)
  | .mul s t => o.mul (eval o θ s) (eval o θ t)
  | .div s t => o.div (eval o θ s) (eval o θ t)
  | .pow b e => o.pow (eval o θ b) (eval o θ e)
  | .abs t => o.abs (eval o θ t)
  | .sqrt t => o.sqrt (eval o θ t)
  | .sign t => o.sign (eval o θ t)
  | .exp t => o.exp (eval o θ t)
  | .log t => o.log (eval o θ t)

def lookup (k : Nat) : PMap → Option PTerm
  | [] => none
  | (k', t) :: rest => if k' = k then some t else lookup k rest

/-- simultaneous substitution `p.subs(m, simultaneous=True)` read as a function on parameter vectors -/
def applyMap {α} (o : Ops α) (m : PMap) (θ : Nat → α) : Nat → α :=
  fun k => match lookup k m with
    | some t => eval o θ t
    | none => θ k

/-- ⟦c⟧θ; `none` iff the chain contains the unrecoverable marker. -/
def denote {α} (o : Ops α) : Chain → (Nat → α) → Option (Nat → α)
  | [], θ => some θ
  | .nan :: _, _ => none
  | .map m :: c, θ => match denote o c θ with
    | some v => some (applyMap o m v)
    | none => none

/-- symbolic simultaneous substitution (for C05: `compose`) -/
def subst (m : PMap) : PTerm → PTerm
  | .param k => match lookup k m with
    | some t => t
    | none => .param k
  | .nan => .nan
  | .nat n => .nat n
  | .dec i fs => .dec i fs
  | .neg t => .neg (subst m t)
  | .mul s t => .mul (subst m s) (subst m t)
  | .div s t => .div (subst m s) (subst m t)
  | .pow b e => .pow (subst m b) (subst m e)
  | .abs t => .abs (subst m t)
  | .sqrt t => .sqrt (subst m t)
  | .sign t => .sign (subst m t)
  | .exp t => .exp (subst m t)
  | .log t => .log (subst m t)

/-- `p` after `for s in chain: p = p.subs(s, simultaneous=True)` started from `(a_0 … a_{k-1})`; `none` on nan. -/
def compose (k : Nat) (c : Chain) : Option (List PTerm) :=
  c.foldl (fun acc e => match acc, e with
    | some p, .map m => some (p.map (subst m))
    | _, _ => none) (some ((List.range k).map .param))

/-- executable instance for the driver (floats exchanged as bit patterns) -/
def floatOps : Ops Float where
  ofNat n := n.toFloat
  ofDec i fs := i.toFloat + (fs.foldr (fun d acc => (d.toFloat + acc) / 10.0) 0.0)
  nan := 0.0 / 0.0
  neg x := -x
  mul x y := x * y
  div x y := x / y
  pow x y := Float.pow x y
  abs x := Float.abs x
  sqrt x := Float.sqrt x
  sign x := if x > 0.0 then 1.0 else if x < 0.0 then -1.0 else x
  exp x := Float.exp x
  log x := Float.log x

end ESR.Subs
