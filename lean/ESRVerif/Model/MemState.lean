/-
In-memory state that survives between two ESR calls in one Python process (C16, the part that is not files).

A *cell* is anything a later call can still see: a module-level name (esr/fitting/sympy_symbols.py:26 `sympy_locs`,
esr/fitting/test_all_Fisher.py:18 `use_relative_dx`, `comm`/`rank`/`size` of every module), a default-argument object
(esr/fitting/test_all.py:105,314 `Niter_params=[40,60]`), a class attribute (esr/generation/custom_printer.py:22,32), a
function attribute, an lru_cache, and the process-wide settings ESR touches (numpy's global RNG:
duplicate_checker.py:167-169, simplifier.py:1274-1276, test_all.py:194-243; the SIGALRM handler and timer:
simplifier.py:41-46; the recursion limit: test_all.py:70, test_all_Fisher.py:264; sympy's printer settings:
simplifier.py:190; warnings filters; os.environ: duplicate_checker.py:57-60).

A *call* (arguments and file contents fixed) is a deterministic computation that can do nothing with memory but read a
cell and write a cell, and continue depending on what it read: an interaction tree `Prog`.  `Acc` is what the table
regenerated from the source (Generated/MemState.lean, harness/extractors/memstate.py) says an entry point does to a cell.
-/
namespace ESR.MemState

abbrev Val := Nat
abbrev Cell := String
abbrev Mem := Cell → Val

/-- how one entry point touches one cell
* `none`  not at all
* `ro`    reads it, never writes it
* `idem`  writes only the literal constant it already holds since import (e.g. `sympy.init_printing(use_unicode=True)`)
* `reset` writes it, and every use is dominated by a complete re-initialisation in this same call
          (`np.random.seed(1234); np.random.shuffle(..)`, `signal.signal(..); signal.alarm(..)`)
* `rmw`   writes it and may use what an earlier call left (a memo dict, `rng.shuffle` on a default-argument generator,
          `np.random.uniform` without a seed, a conditional `sys.setrecursionlimit`) -/
inductive Acc where | none | ro | idem | reset | rmw
  deriving Repr, DecidableEq

/-- the call's behaviour may depend on the value the cell has when the call starts -/
def Acc.exposes : Acc → Bool
  | .ro | .idem | .rmw => true
  | _ => false

/-- the call may leave a value different from the one at import -/
def Acc.mutates : Acc → Bool
  | .reset | .rmw => true
  | _ => false

/-- a call, as a computation over memory cells (arguments and files are fixed inside `k`/`v`/`out`) -/
inductive Prog where
  | ret (out : Val) : Prog
  | rd (c : Cell) (k : Val → Prog) : Prog
  | wr (c : Cell) (v : Val) (k : Prog) : Prog

def upd (m : Mem) (c : Cell) (v : Val) : Mem := fun d => if d = c then v else m d

/-- result (everything the call returns and writes to files, as one value) and the memory it leaves -/
def run : Prog → Mem → Val × Mem
  | .ret o, m => (o, m)
  | .rd c k, m => run (k (m c)) m
  | .wr c v k, m => run k (upd m c v)

/-- a call as a function of (arguments, files, memory cells) -/
abbrev Call (A F : Type) := A → F → Prog

/-- memory after a sequence of calls -/
def runHist : List Prog → Mem → Mem
  | [], m => m
  | p :: ps, m => runHist ps (run p m).2

/-- `p` touches cells only as the row `row` of its entry point allows; `fresh` = cells this call has re-initialised so far;
`init` = memory of a fresh process after import -/
inductive Conforms (init : Mem) (row : Cell → Acc) : List Cell → Prog → Prop where
  | ret {fresh : List Cell} {o : Val} : Conforms init row fresh (.ret o)
  | rd {fresh : List Cell} {c : Cell} {k : Val → Prog} :
      (c ∈ fresh ∨ (row c).exposes = true) → (∀ v, Conforms init row fresh (k v)) → Conforms init row fresh (.rd c k)
  | wrReset {fresh : List Cell} {c : Cell} {v : Val} {k : Prog} :
      (row c).mutates = true → Conforms init row (c :: fresh) k → Conforms init row fresh (.wr c v k)
  | wrIdem {fresh : List Cell} {c : Cell} {v : Val} {k : Prog} :
      row c = .idem → v = init c → Conforms init row fresh k → Conforms init row fresh (.wr c v k)

/-! ### the regenerated table -/

structure Row where
  cell : String
  /-- module | default | class | funcattr | memo | process -/
  kind : String
  /-- the object bound at import can be changed in place -/
  mutable : Bool
  /-- one entry per column of `entries` -/
  acc : List Acc
  deriving Repr, DecidableEq

structure Site where
  cell : String
  fn : String
  line : Nat
  what : String
  deriving Repr, DecidableEq

def Row.at (r : Row) (e : Nat) : Acc := r.acc.getD e .none

/-- some entry point of `es` lets its result depend on what the cell holds at the start of the call -/
def Row.exposed (r : Row) (es : List Nat) : Bool := es.any fun e => (r.at e).exposes
/-- some entry point of `es` can change the cell -/
def Row.mutated (r : Row) (es : List Nat) : Bool := es.any fun e => (r.at e).mutates

/-- cells through which a call of `es` can see what an earlier call of `es` did -/
def carried (rows : List Row) (es : List Nat) : List String :=
  (rows.filter fun r => r.exposed es && r.mutated es).map (·.cell)

/-- the (cell, entry) pairs of kind (c): the entry may look at a cell that some entry of `es` can change -/
def carriedPairs (rows : List Row) (es : List Nat) : List (String × Nat) :=
  (rows.filter fun r => r.mutated es).flatMap fun r => (es.filter fun e => (r.at e).exposes).map fun e => (r.cell, e)

/-- what the table says entry `e` does to cell `c` (cells outside the table are not touched) -/
def accOf (rows : List Row) (e : Nat) (c : Cell) : Acc :=
  match rows.find? (fun r => r.cell == c) with
  | some r => r.at e
  | none => .none

/-- (a) never written after import by any entry point of `es`, (b) written but entry `e` never looks at what was left,
(c) carried over into entry `e` -/
inductive Kind where | a | b | c
  deriving Repr, DecidableEq

def kindOf (r : Row) (es : List Nat) (e : Nat) : Kind :=
  if !r.mutated es then .a else if (r.at e).exposes then .c else .b

def countKind (rows : List Row) (es : List Nat) (k : Kind) : Nat :=
  (rows.map fun r => (es.filter fun e => kindOf r es e == k).length).sum

def wellFormed (rows : List Row) (ncol : Nat) : Bool :=
  rows.all (fun r => r.acc.length == ncol) && (rows.map (·.cell)).Nodup

end ESR.MemState
