import ESRVerif.Generated.Optim
/-!
Model of `esr/fitting/test_all.py`: `chi2_fcn` (19-46) and `optimise_fun` (105-311).  No Mathlib.

What is modelled, line by line:

* `chi2Params` / `chi2Fcn`  — chi2_fcn 33-46: `p = x` for `signs is None`, otherwise `p[i]` from the GENERATED
  table `Gen.reparam` (`x[i]`, `+base**x[i]`, `-base**x[i]`); `none` where Python raises (IndexError/ValueError).
* `polyEval`, `iterCounts`  — 147-150 (`int(np.sum(nparam ** arange(len P) * P))`, ValueError guard).
* `pre`                     — 139-189: previous-equation skip, run_sympify outcome, the parameter-free path
  (`"a0" not in fcn_i`), the NaN-on-data test `bad_fun`, choice of the arm of the nparam/log_opt chain.
* `npArgmin`                — numpy's argmin on float64 (first NaN wins, else first minimum).
* `pick`                    — 193-244: which minimize result becomes `res` and what `mult_arr` is, driven by the
  GENERATED selector of the arm (`single` / `argmin`+`choose` chain / guard chain).
* `nextInfCount`, `nextCount`, `step`, `loopFrom` — 246-271: test_success skip, inf counting and the 50×inf exit, count reset, window
  counting, keeping the best, convergence exit; operators/constants from the GENERATED `loopSpec`.
* `rowsOfSel`, `signTable`, `rowOK`, `argminOK` — the flattened sign table and the decidable per-row / per-selector
  conditions the theorems are proved from (checked over the whole generated table by `decide`).
* `backParams`, `finish`    — 273-284 and the TimeoutException handler 291-305; `except Exception` 307-309,
  `except NameError` 286-289.

The minimiser is NOT modelled: it is an oracle `script : Nat → Nat → Call α` (iteration, call within iteration)
giving for each `minimize` call either a result `(x, fun, success)` or an exception.

Quirks kept: `inf_count` counts −inf too; the 50×inf exit happens before the keep test; the first finite result
does not count towards convergence; a best value that is finite but ≥ 1e100 is returned with zero parameters;
`best` unbound under a `chi2_min < big` that holds raises (Unbound)NameError, re-raised by the NameError handler.

Not modelled: int64 overflow in Niter/Nconv; exceptions raised by lambdify / the NaN-on-data evaluation;
`max_param < 2` (a `mult_arr[1]` assignment would raise IndexError) — the driver refuses such inputs.
-/
namespace ESR.Optim
open ESR.Gen.Optim

/-- numeric operations the modelled code uses (IEEE semantics for `Float`) -/
class Num (α : Type) where
  lt : α → α → Bool
  le : α → α → Bool
  eq : α → α → Bool
  sub : α → α → α
  abs : α → α
  neg : α → α
  mul : α → α → α
  /-- `b ** x` for a literal natural base -/
  powNat : Nat → α → α
  isInf : α → Bool
  isNaN : α → Bool
  zero : α
  posInf : α
  nan : α
  ofInt : Int → α
  const : Const → α

/-- the laws the theorems need (all true of IEEE doubles; nothing about rounding) -/
class LawfulNum (α : Type) [Num α] : Prop where
  lt_irrefl : ∀ a : α, Num.lt a a = false
  lt_trans : ∀ a b c : α, Num.lt a b = true → Num.lt b c = true → Num.lt a c = true
  lt_cotrans : ∀ a b c : α, Num.lt a c = true → Num.isNaN b = false → Num.lt a b = true ∨ Num.lt b c = true
  posInf_not_lt : ∀ a : α, Num.lt Num.posInf a = false
  nan_not_lt : ∀ a : α, Num.lt Num.nan a = false
  mul_one : ∀ a : α, Num.mul a (Num.ofInt 1) = a
  mul_negOne : ∀ a : α, Num.mul a (Num.ofInt (-1)) = Num.neg a

section
variable {α : Type} [Num α]

def evalCmp : Cmp → α → α → Bool
  | .lt, a, b => Num.lt a b
  | .gt, a, b => Num.lt b a
  | .le, a, b => Num.le a b
  | .ge, a, b => Num.le b a
  | .eq, a, b => Num.eq a b
  | .ne, a, b => !Num.eq a b

def evalCmpNat : Cmp → Nat → Nat → Bool
  | .lt, a, b => a < b
  | .gt, a, b => b < a
  | .le, a, b => a ≤ b
  | .ge, a, b => b ≤ a
  | .eq, a, b => a == b
  | .ne, a, b => a != b

/-! ### chi2_fcn -/

/-- `p[i]` for one entry of `signs` (generated table); `none` = `raise ValueError` -/
def reparamOne (tbl : List Reparam) (s : Sign) (xi : α) : Option α :=
  match tbl.find? (fun r => r.label == s) with
  | none => none
  | some r =>
    some (if r.pow then (if r.negated then Num.neg (Num.powNat r.base xi) else Num.powNat r.base xi) else xi)

/-- `for i in range(len(signs)): p[i] = …x[i]…` ; `none` = IndexError (x shorter than signs) or ValueError -/
def reparamList (tbl : List Reparam) : List Sign → List α → Option (List α)
  | [], _ => some []
  | _ :: _, [] => none
  | s :: ss, xi :: xs =>
    match reparamOne tbl s xi, reparamList tbl ss xs with
    | some p, some ps => some (p :: ps)
    | _, _ => none

def chi2Params (x : List α) : Option (List Sign) → Option (List α)
  | none => some x
  | some signs => reparamList reparam signs x

/-- chi2_fcn with the likelihood abstracted to `nll : parameters → value` -/
def chi2Fcn (nll : List α → α) (x : List α) (signs : Option (List Sign)) : Option α :=
  (chi2Params x signs).map nll

/-! ### minimiser oracle and per-iteration selection -/

/-- outcome of one `minimize` call -/
inductive Call (α : Type) where
  | ok (x : List α) (f : α) (success : Bool)
  | timeout        -- simplifier.TimeoutException
  | nameError      -- NameError
  | other          -- any other Exception
  | missing        -- the scripted oracle has no entry (harness error, never Python)

structure Res (α : Type) where
  x : List α
  f : α
  success : Bool

/-- the result assigned to `res`, the index of the minimize call it came from, and `mult_arr[0..1]` -/
structure Picked (α : Type) where
  call : Nat
  res : Res α
  mult : List Int

inductive Exit where
  | done | conv | infLimit | timeout | nameError | other | missing
  deriving Repr, DecidableEq

def Call.res? : Call α → Option (Res α)
  | .ok x f s => some ⟨x, f, s⟩
  | _ => none

def Call.exit? : Call α → Option Exit
  | .ok _ _ _ => none
  | .timeout => some .timeout
  | .nameError => some .nameError
  | .other => some .other
  | .missing => some .missing

/-- first exception among the calls `c, c+1, …, c+n-1` of one iteration: (kind, calls consumed so far) -/
def firstExc (calls : Nat → Call α) : Nat → Nat → Option (Exit × Nat)
  | _, 0 => none
  | c, n + 1 =>
    match (calls c).exit? with
    | some e => some (e, c + 1)
    | none => firstExc calls (c + 1) n

/-- numpy argmin on doubles: `mp = ip[0]; if isnan(mp) return 0; for i: if (!(ip[i] >= mp)) { mp = ip[i]; idx = i;
    if isnan(mp) break }`.  With `mp` not NaN, `!(v >= mp)` is `v < mp ∨ isnan v`. -/
def npArgminAux : Nat → α → Nat → List α → Nat
  | best, _, _, [] => best
  | best, mp, i, v :: vs =>
    if Num.isNaN v then i
    else if Num.lt v mp then npArgminAux i v (i + 1) vs
    else npArgminAux best mp (i + 1) vs

/-- `none` = ValueError (empty sequence) -/
def npArgmin : List α → Option Nat
  | [] => none
  | v :: vs => if Num.isNaN v then some 0 else some (npArgminAux 0 v 1 vs)

def pickRow (get : Nat → Option (Res α)) (row : Row) : Option (Picked α) :=
  (get row.resCall).map (fun r => ⟨row.resCall, r, row.mult⟩)

def pickGuards (get : Nat → Option (Res α)) : List Guard → Row → Option (Picked α)
  | [], els => pickRow get els
  | g :: gs, els =>
    match get g.lhs, get g.rhs with
    | some a, some b => if evalCmp g.op a.f b.f then pickRow get g.row else pickGuards get gs els
    | _, _ => none

def funsOf (get : Nat → Option (Res α)) : List Nat → Option (List α)
  | [] => some []
  | c :: cs =>
    match get c, funsOf get cs with
    | some r, some fs => some (r.f :: fs)
    | _, _ => none

/-- lines 193-244; `none` = a Python exception other than the three modelled kinds (treated as `other`) -/
def pick (get : Nat → Option (Res α)) : Selector → Option (Picked α)
  | .single => pickRow get ⟨0, 0, [1, 1]⟩
  | .argmin order cases fb =>
    match funsOf get order with
    | none => none
    | some fs =>
      match npArgmin fs with
      | none => none
      | some k => pickRow get ((cases.find? (fun r => r.choose == k)).getD fb)
  | .guards gs els => pickGuards get gs els

/-! ### the selection loop -/

structure St (α : Type) where
  chi2Min : α
  best : Option (Picked α)
  countLowest : Nat
  infCount : Nat

def St.init : St α := ⟨Num.posInf, none, 0, 0⟩

inductive StepExit where
  | skip      -- `continue` (test_success)
  | next      -- fell through all seven statements
  | brkInf    -- break at the 50×inf test (before the keep test)
  | brkConv   -- break at the convergence test (after the keep test)
  deriving Repr, DecidableEq

/-- lines 249-250 -/
def nextInfCount (st : St α) (f : α) : Nat := if Num.isInf f then st.infCount + 1 else st.infCount

/-- lines 257-262: reset, then window counting, both against the best value BEFORE this iterate is kept -/
def nextCount (L : LoopSpec) (st : St α) (f : α) : Nat :=
  let d := Num.sub f st.chi2Min
  let cl := if evalCmp L.resetCmp d (Num.const L.resetThr) then L.resetTo else st.countLowest
  if evalCmp L.windowCmp (Num.abs d) (Num.const L.window) then cl + 1 else cl

/-- lines 246-271 for one selected result -/
def step (L : LoopSpec) (testSuccess : Bool) (nconv : Nat) (st : St α) (p : Picked α) : St α × StepExit :=
  if testSuccess && !p.res.success then (st, .skip)
  else if evalCmpNat L.infCmp (nextInfCount st p.res.f) L.infLimit && Num.isInf st.chi2Min then
    ({ st with infCount := nextInfCount st p.res.f }, .brkInf)
  else
    let keep := evalCmp L.keepCmp p.res.f st.chi2Min
    (⟨if keep then p.res.f else st.chi2Min, if keep then some p else st.best, nextCount L st p.res.f,
       nextInfCount st p.res.f⟩,
     if evalCmpNat L.convCmp (nextCount L st p.res.f) nconv then .brkConv else .next)

structure LoopOut (α : Type) where
  st : St α
  exit : Exit
  /-- number of minimize calls made -/
  consumed : Nat
  /-- the selected results that reached the keep test (line 264), in order -/
  seen : List (Picked α)

def LoopOut.bump (m : Nat) (s : Option (Picked α)) (o : LoopOut α) : LoopOut α :=
  { o with consumed := o.consumed + m, seen := (match s with | some p => p :: o.seen | none => o.seen) }

/-- `for j in range(Niter)` from iteration `j` with `fuel` iterations left -/
def loopFrom (L : LoopSpec) (br : Branch) (testSuccess : Bool) (nconv : Nat) (script : Nat → Nat → Call α) :
    Nat → Nat → St α → LoopOut α
  | 0, _, st => ⟨st, .done, 0, []⟩
  | fuel + 1, j, st =>
    let m := br.calls.length
    match firstExc (script j) 0 m with
    | some (e, k) => ⟨st, e, k, []⟩
    | none =>
      match pick (fun c => if c < m then (script j c).res? else none) br.sel with
      | none => ⟨st, .other, m, []⟩
      | some p =>
        match step L testSuccess nconv st p with
        | (st', .skip) => (loopFrom L br testSuccess nconv script fuel (j + 1) st').bump m none
        | (st', .next) => (loopFrom L br testSuccess nconv script fuel (j + 1) st').bump m (some p)
        | (st', .brkInf) => ⟨st', .infLimit, m, []⟩
        | (st', .brkConv) => ⟨st', .conv, m, [p]⟩

/-! ### back-transformation and results -/

def padTo (n : Nat) (l : List α) : List α := l ++ List.replicate (n - l.length) Num.zero

/-- `v * mult_arr_best` where mult_arr is ones except the listed leading entries -/
def applyMult : List Int → List α → List α
  | _, [] => []
  | [], a :: as => Num.mul a (Num.ofInt 1) :: applyMult [] as
  | m :: ms, a :: as => Num.mul a (Num.ofInt m) :: applyMult ms as

/-- lines 275-279 (and 295-298); `none` = np.pad with a negative width raises ValueError -/
def backParams (B : BackSpec) (flagThree : Bool) (maxParam : Nat) (p : Picked α) : Option (List α) :=
  if maxParam < p.res.x.length then none
  else if flagThree then some (padTo maxParam p.res.x)
  else
    let v := padTo maxParam (p.res.x.map (Num.powNat B.base))
    some (if B.usesMult then applyMult p.mult v else v)

inductive Result (α : Type) where
  | ret (chi2 : α) (params : List α)
  | valueError
  | nameError
  | missing
  deriving Repr, DecidableEq

def zeros (n : Nat) : List α := List.replicate n Num.zero

/-- what optimise_fun returns after the loop ended with `o` -/
def finish (br : Branch) (maxParam : Nat) (o : LoopOut α) : Result α :=
  match o.exit with
  | .missing => .missing
  | .nameError => .nameError
  | .other => .ret Num.nan (zeros maxParam)
  | .timeout =>
    -- handler 291-305: any exception inside → (nan, 0)
    if evalCmp timeoutBack.cmp o.st.chi2Min (Num.const timeoutBack.big) then
      match o.st.best with
      | none => .ret Num.nan (zeros maxParam)
      | some p =>
        match backParams timeoutBack br.flagThree maxParam p with
        | none => .ret Num.nan (zeros maxParam)
        | some ps => .ret o.st.chi2Min ps
    else .ret Num.nan (zeros maxParam)
  | _ =>
    if evalCmp finalBack.cmp o.st.chi2Min (Num.const finalBack.big) then
      match o.st.best with
      | none => .nameError                      -- UnboundLocalError ⊂ NameError → handler re-raises NameError
      | some p =>
        match backParams finalBack br.flagThree maxParam p with
        | none => .ret Num.nan (zeros maxParam)  -- ValueError → generic handler
        | some ps => .ret o.st.chi2Min ps
    else .ret o.st.chi2Min (zeros maxParam)

/-! ### the flattened sign table (what the theorems quantify over) -/

def rowsOfSel : Selector → List Row
  | .single => [⟨0, 0, [1, 1]⟩]
  | .argmin _ cases fb => cases ++ [fb]
  | .guards gs els => gs.map (·.row) ++ [els]

/-- one way an iteration can end: the arm, the `signs` list that was passed to chi2_fcn in the minimize call whose
    result is taken, and the row (result taken, `mult_arr`) -/
structure TRow where
  nclass : NClass
  logOpt : Bool
  flagThree : Bool
  signs : Option (List Sign)
  row : Row
  deriving Repr, DecidableEq

def tableOf (b : Branch) : List TRow :=
  (rowsOfSel b.sel).map (fun r => ⟨b.nclass, b.logOpt, b.flagThree, b.calls.getD r.resCall none, r⟩)

def signTable : List TRow := branches.flatMap tableOf

/-- `mult_arr[i]` is +1 where `signs[i]` is '+', −1 where it is '-' (and no `None` entry) -/
def compat : List Sign → List Int → Bool
  | [], _ => true
  | .pos :: ss, m :: ms => m == 1 && compat ss ms
  | .neg :: ss, m :: ms => m == -1 && compat ss ms
  | _, _ => false

/-- decidable per-row condition that makes the back-transformation `B` the inverse bookkeeping of chi2_fcn -/
def rowOK (B : BackSpec) (t : TRow) : Bool :=
  if t.flagThree then t.signs == none
  else
    match t.signs with
    | none => false
    | some ss =>
      B.usesMult && compat ss t.row.mult
        && (match t.nclass with | .one => ss.length == 1 | .two => ss.length == 2 | .many => false)
        && reparam.find? (fun r => r.label == .pos) == some ⟨.pos, true, B.base, false⟩
        && reparam.find? (fun r => r.label == .neg) == some ⟨.neg, true, B.base, true⟩

/-- decidable condition on an `argmin` selector over `m` calls: every call is compared, and `choose == k` takes the
    result that stands at position `k` of the compared list -/
def argminOK (m : Nat) (order : List Nat) (cases : List Row) (fb : Row) : Bool :=
  (List.range m).all (fun c => order.contains c)
    && (List.range order.length).all (fun k =>
          ((cases.find? (fun r => r.choose == k)).getD fb).resCall == order.getD k m)

/-! ### everything before the loop -/

inductive Sympify where
  | ok | timeout | nameError | other
  deriving Repr, DecidableEq

structure Config (α : Type) where
  maxParam : Nat
  /-- `simplifier.count_params([fcn_i], max_param)[0]` -/
  nparam : Nat
  logOpt : Bool
  testSuccess : Bool
  niterParams : List Int
  nconvParams : List Int
  /-- `comp > 1 and ignore_previous_eqns and fcn_i in previous_fns` -/
  prevSeen : Bool
  /-- outcome of `likelihood.run_sympify` -/
  sympify : Sympify
  /-- `"a0" in fcn_i` -/
  hasA0 : Bool
  /-- `likelihood.negloglike([], eq_numpy)` of a parameter-free function -/
  directNLL : α
  /-- `getattr(likelihood, 'xvar', None) is not None` -/
  xvarPresent : Bool
  /-- for each `p in itertools.product([1,-1], repeat=nparam)`: does `eq_numpy(xvar, *p)` contain a NaN -/
  nanOnData : List Bool

/-- `P[0] + P[1]*n + P[2]*n^2 + …` -/
def polyEval (n : Int) : List Int → Int
  | [] => 0
  | c :: cs => c + n * polyEval n cs

/-- lines 147-150: `(Niter, Nconv)` or `none` = ValueError -/
def iterCounts (nparam : Nat) (niterP nconvP : List Int) : Option (Nat × Nat) :=
  let niter := polyEval nparam niterP
  let nconv := polyEval nparam nconvP
  if nconv ≤ 0 ∨ niter ≤ 0 ∨ nconv > niter then none else some (niter.toNat, nconv.toNat)

def classOf (nparam : Nat) : NClass :=
  if nparam > 2 then .many else if nparam == 2 then .two else .one

def findBranch (nparam : Nat) (logOpt : Bool) : Option Branch :=
  branches.find? (fun b => b.nclass == classOf nparam && b.logOpt == logOpt)

inductive Pre (α : Type) where
  | early (r : Result α)
  | go (br : Branch) (niter nconv : Nat)
  deriving Repr, DecidableEq

def pre (cfg : Config α) : Pre α :=
  if cfg.prevSeen then .early (.ret Num.posInf (zeros cfg.maxParam))
  else
    match iterCounts cfg.nparam cfg.niterParams cfg.nconvParams with
    | none => .early .valueError
    | some (niter, nconv) =>
      match cfg.sympify with
      | .timeout => .early (.ret Num.nan (zeros cfg.maxParam))    -- chi2_min unbound in the handler → (nan, 0)
      | .nameError => .early .nameError
      | .other => .early (.ret Num.nan (zeros cfg.maxParam))
      | .ok =>
        if !cfg.hasA0 then .early (.ret cfg.directNLL (zeros cfg.maxParam))
        else if !cfg.xvarPresent || cfg.nanOnData.all id then .early (.ret Num.posInf (zeros cfg.maxParam))
        else
          match findBranch cfg.nparam cfg.logOpt with
          | none => .early .missing
          | some br => .go br niter nconv

def runLoop (cfg : Config α) (br : Branch) (niter nconv : Nat) (script : Nat → Nat → Call α) : LoopOut α :=
  loopFrom loopSpec br cfg.testSuccess nconv script niter 0 St.init

/-- `optimise_fun`: the result and the number of minimize calls made -/
def optimiseFun (cfg : Config α) (script : Nat → Nat → Call α) : Result α × Nat :=
  match pre cfg with
  | .early r => (r, 0)
  | .go br niter nconv =>
    let o := runLoop cfg br niter nconv script
    (finish br cfg.maxParam o, o.consumed)

end

/-! ### instance for the driver: IEEE doubles -/

instance : Num Float where
  lt a b := decide (a < b)
  le a b := decide (a ≤ b)
  eq a b := a == b
  sub a b := a - b
  abs a := a.abs
  neg a := -a
  mul a b := a * b
  powNat b x := Float.pow (Float.ofNat b) x
  isInf a := a.isInf
  isNaN a := a.isNaN
  zero := 0.0
  posInf := Float.ofBits 0x7FF0000000000000
  nan := Float.ofBits 0x7FF8000000000000
  ofInt i := Float.ofInt i
  const c := Float.ofBits c.bits

/-! ### a small exact instance for `example`s: half-integers with ±∞ and NaN -/

/-- `fin n` denotes `n/2` -/
inductive XH where
  | fin (n : Int) | pinf | ninf | nan
  deriving Repr, DecidableEq

namespace XH

def lt : XH → XH → Bool
  | .nan, _ => false
  | _, .nan => false
  | .fin a, .fin b => a < b
  | .fin _, .pinf => true
  | .ninf, .fin _ => true
  | .ninf, .pinf => true
  | _, _ => false

def le (a b : XH) : Bool := lt a b || (a == b && a != .nan)

def neg : XH → XH
  | .fin n => .fin (-n) | .pinf => .ninf | .ninf => .pinf | .nan => .nan

def sub : XH → XH → XH
  | .nan, _ => .nan
  | _, .nan => .nan
  | .fin a, .fin b => .fin (a - b)
  | .fin _, .pinf => .ninf
  | .fin _, .ninf => .pinf
  | .pinf, .pinf => .nan
  | .ninf, .ninf => .nan
  | .pinf, _ => .pinf
  | .ninf, _ => .ninf

def abs : XH → XH
  | .fin n => .fin n.natAbs | .pinf => .pinf | .ninf => .pinf | .nan => .nan

/-- multiplication by ±1 only is meaningful here (that is all the modelled code does) -/
def mul : XH → XH → XH
  | a, .fin n => if n = 2 then a else if n = -2 then neg a else .nan
  | _, _ => .nan

/-- `b ** x` on whole non-negative `x` (exact), 0 elsewhere; enough for examples -/
def powNat (b : Nat) : XH → XH
  | .fin n => if n ≥ 0 ∧ n % 2 = 0 then .fin (2 * (b ^ (n / 2).toNat : Nat)) else .fin 0
  | .pinf => .pinf | .ninf => .fin 0 | .nan => .nan

instance : Num XH where
  lt := lt
  le := le
  eq a b := a == b && a != .nan
  sub := sub
  abs := abs
  neg := neg
  mul := mul
  powNat := powNat
  isInf a := a == .pinf || a == .ninf
  isNaN a := a == .nan
  zero := .fin 0
  posInf := .pinf
  nan := .nan
  ofInt i := .fin (2 * i)
  const c := .fin (2 * c.num / c.den)

end XH

end ESR.Optim
