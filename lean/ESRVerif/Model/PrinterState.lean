/-!
# State cells of the printer, and printers as state machines (C12, purity under histories)

`Model/Printer.lean` models `ESRPrinter().doprint(e)` as a function `print : SExpr → String`.  The real printer is an
OBJECT which ESR keeps for a whole simplifier stage (`esrp = ESRPrinter()` in `simplifier.sympy_simplify`,
`expand_or_factor`, `initial_sympify`, …) and whose prints can be cut short by the stage's time limit
(`simplifier.time_limit`: SIGALRM → `TimeoutException`, caught by the stage, which carries on with the same printer).
This file holds what is needed to state that this makes no difference:

* `Cell` — one place where state could live in `esr/generation/custom_printer.py` (module global, class attribute,
  instance attribute, mutable default argument, memo decorator, function attribute) or in sympy's `Printer` base class,
  with how the code treats it.  The table of all cells is REGENERATED from the source by
  `harness/extractors/printerstate.py` (`Generated/PrinterState.lean`).
* `Printer ε V cs` — a printer as a state machine whose state is exactly the content of the cells `cs`
  (`Store cs V`): operations `print e` and `interrupted e site` (a print of `e` abandoned at the `site`-th statement).
* `cachedAdd`/`cachePrinter` — the model of a printer with a fill-in-place cache for sums (seed C12d): mirrors
  `L = self._sums.setdefault(key, []); if not L: for term in terms: … L.extend([sign, t])`.

No Mathlib.  Theorems are in `Props/C12c.lean`.
-/
namespace ESR.PrinterState

/-- one state cell and how the source treats it -/
structure Cell where
  /-- `module` | `class` | `instance` | `default` | `memo` | `funcattr` | `base` (instance cell of sympy's `Printer`) -/
  kind : String
  name : String
  /-- initialised with a mutable display / constructor call -/
  mutableValue : Bool
  /-- read by a method of custom_printer.py other than `__init__` -/
  readInPrint : Bool
  /-- written at import time / in the class body / in `__init__` -/
  writtenAtInit : Bool
  /-- assigned, augmented, subscript-stored, deleted or mutated in place by any method other than `__init__`
  (every such method is reachable from `doprint`) -/
  writtenInPrint : Bool
  /-- every print-time write is the `self.X += c` directly in front of a `try:` whose `finally:` does `self.X -= c` -/
  restoredInFinally : Bool
  sites : String
deriving Repr, DecidableEq

/-- the cell can hold, after a print (completed or abandoned), something else than before it -/
def Cell.printTime (c : Cell) : Bool := c.writtenInPrint && !c.restoredInFinally

def printTimeCells (cs : List Cell) : List Cell := cs.filter Cell.printTime

/-- operations on a long-lived printer -/
inductive Op (ε : Type) where
  /-- `p.doprint(e)` runs to completion -/
  | print (e : ε)
  /-- `p.doprint(e)` is abandoned by an exception raised at its `site`-th statement -/
  | interrupted (e : ε) (site : Nat)

/-- content of the cells `cs` (values of an arbitrary type `V`) -/
abbrev Store (cs : List Cell) (V : Type) := (c : Cell) → c ∈ cs → V

/-- a printer whose whole state is the content of the cells `cs`: one operation gives the new content and, for a
completed print, the string returned -/
structure Printer (ε V : Type) (cs : List Cell) where
  step : Store cs V → Op ε → Store cs V × Option String

/-- state after a history of operations -/
def Printer.run {ε V : Type} {cs : List Cell} (p : Printer ε V cs) (s : Store cs V) : List (Op ε) → Store cs V
  | [] => s
  | o :: os => p.run (p.step s o).1 os

/-- the string a completed print of `e` returns after the history `h` -/
def Printer.printAfter {ε V : Type} {cs : List Cell} (p : Printer ε V cs) (s0 : Store cs V) (h : List (Op ε)) (e : ε) :
    Option String :=
  (p.step (p.run s0 h) (.print e)).2

/-! ## a printer with a fill-in-place cache for sums (the mechanism of seed C12d) -/

/-- `self._sums`: key = the sum (its already printed terms), value = the pieces appended so far -/
abbrev Cache := List (List String × List String)

def Cache.find (c : Cache) (k : List String) : List String :=
  match c with
  | [] => []
  | (k', v) :: r => if k' = k then v else Cache.find r k

def Cache.set (c : Cache) (k v : List String) : Cache := (k, v) :: c

def joinPlus : List String → String
  | [] => ""
  | [t] => t
  | t :: ts => t ++ " + " ++ joinPlus ts

/-- `_print_Add` of seed C12d on a sum with printed terms `terms`: `L = self._sums.setdefault(key, [])`; a non-empty `L`
is taken as finished; otherwise the terms are appended to `L` IN PLACE one by one — an exception at site `n` leaves the
first `n` of them in the cache and nothing is returned. -/
def cachedAdd (c : Cache) (terms : List String) (stop : Option Nat) : Cache × Option String :=
  match Cache.find c terms with
  | [] =>
    match stop with
    | none => (c.set terms terms, some (joinPlus terms))
    | some n => (c.set terms (terms.take n), none)
  | L => (c, some (joinPlus L))

/-- the one print-time cell of that printer -/
def sumsCell : Cell :=
  { kind := "instance", name := "_sums", mutableValue := true, readInPrint := true, writtenAtInit := true,
    writtenInPrint := true, restoredInFinally := false, sites := "ESRPrinter._print_Add (seed C12d)" }

def cachePrinter : Printer (List String) Cache [sumsCell] where
  step s o :=
    let c := s sumsCell (List.Mem.head _)
    let r := match o with
      | .print e => cachedAdd c e none
      | .interrupted e n => cachedAdd c e (some n)
    (fun _ _ => r.1, r.2)

/-- the fresh state of `cachePrinter` -/
def emptyCache : Store [sumsCell] Cache := fun _ _ => []

end ESR.PrinterState
