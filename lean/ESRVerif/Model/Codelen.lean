import ESRVerif.Generated.Codelen
/-!
# Model of `esr/fitting/test_all_Fisher.py : convert_params`, post-Hessian part (no Mathlib)

Mirrors lines 110-239 of `convert_params`:

* `needsFallback`           line 121 (decision to enter the step-size fallback; the tests are `Gen.fallbackTests`)
* `convertParams`           lines 121-178 with the *outcome* of the fallback (numdifftools over `d_list` x `method_list`,
                            `.3e`/`.1e` rounding, `scipy.stats.mode`) given as an input `Fallback`:
                            `notConsistent` = lines 166-168 (`codelen = np.nan; return`), `reselected F` = lines 148-157 / 169-177
* `postHessian`             lines 180-239: bad-curvature NaN return (180-182), `Nsteps` (113-114 / 153-154 / 173-174, the
                            expression is `Gen.nstepsExpr`), snapping test (189, `Gen.snapTest`), snap-all attempt (193-199),
                            subset search (201-218, `outer`/`inner`: the `break` leaves the inner loop only), `k<0` quit (220-222),
                            `k==0` return (223-225), masking (227-230), the code length (232, `Gen.codelenExpr` interpreted by
                            `evalS`/`evalV`), the reported parameters (235-237)
* `flattenUpper`            lines 80, 116-118 (upper-triangular flattening of the Hessian into `deriv`)

Quirks kept as written:
* early returns (bad curvature, fallback failure, `k==0`) report `params = zeros(max_param)`;
* `kept_mask = Nsteps>=1` is not the complement of `Nsteps<1` when `Nsteps` is NaN;
* the subset search does not leave the outer loop on success, so the last pass (subsets of size 1) decides; an `idx` of
  another length would make `kept_mask[idx] = 0` an IndexError (tuple index) -> `Res.error`;
* with a single snappable parameter the search loop is empty and everything is restored;
* `idx` unbound with a finite likelihood would be a NameError -> `Res.error` (shown unreachable in Props/C07).

Numbers: everything is written over `NumOps α`.  `floatOps` (IEEE doubles) drives the executable correspondence;
`xrOps ro` over `XR R = fin r | +inf | -inf | nan` carries the proofs (`R := ℝ` in Proofs/Codelen.lean).
Not modelled: rounding, overflow of finite operands, signed zeros (x/0 uses +0).
-/
namespace ESR.Codelen
open ESR.Gen.Codelen (E Cmp Test)

/-- the operations of numpy/math that `convert_params` applies to numbers -/
structure NumOps (α : Type) where
  ofRat : Int → Nat → α
  nan : α
  add : α → α → α
  sub : α → α → α
  mul : α → α → α
  div : α → α → α
  neg : α → α
  abs : α → α
  log : α → α
  sqrt : α → α
  lt : α → α → Bool
  le : α → α → Bool
  isNaN : α → Bool
  isInf : α → Bool

namespace NumOps
variable {α : Type}
def zero (ops : NumOps α) : α := ops.ofRat 0 1
def ofNat (ops : NumOps α) (n : Nat) : α := ops.ofRat (Int.ofNat n) 1
/-- `np.isfinite` -/
def isFinite (ops : NumOps α) (x : α) : Bool := !ops.isNaN x && !ops.isInf x
end NumOps

/-- IEEE doubles (executable instance) -/
def floatOps : NumOps Float where
  ofRat n d := Float.ofInt n / Float.ofNat d
  nan := 0.0 / 0.0
  add a b := a + b
  sub a b := a - b
  mul a b := a * b
  div a b := a / b
  neg a := -a
  abs := Float.abs
  log := Float.log
  sqrt := Float.sqrt
  lt a b := a < b
  le a b := a ≤ b
  isNaN := Float.isNaN
  isInf := Float.isInf

/-! ## extended reals with IEEE-style special values -/

inductive XR (R : Type) where
  | fin (r : R)
  | pinf
  | ninf
  | nan

/-- operations of the underlying ordered field (instantiated for ℝ in Proofs/Codelen.lean) -/
structure RealOps (R : Type) where
  ofRat : Int → Nat → R
  zero : R
  add : R → R → R
  sub : R → R → R
  mul : R → R → R
  div : R → R → R
  neg : R → R
  abs : R → R
  log : R → R
  sqrt : R → R
  lt : R → R → Bool
  le : R → R → Bool

namespace XR
variable {R : Type} (ro : RealOps R)

/-- (±∞)·r for finite r: sign rule, 0·∞ = NaN -/
def infTimes (pos : Bool) (r : R) : XR R :=
  if ro.lt ro.zero r then (if pos then pinf else ninf)
  else if ro.lt r ro.zero then (if pos then ninf else pinf)
  else nan

def add : XR R → XR R → XR R
  | fin a, fin b => fin (ro.add a b)
  | nan, _ => nan
  | _, nan => nan
  | pinf, ninf => nan
  | ninf, pinf => nan
  | pinf, _ => pinf
  | _, pinf => pinf
  | ninf, _ => ninf
  | _, ninf => ninf

def neg : XR R → XR R
  | fin a => fin (ro.neg a)
  | pinf => ninf
  | ninf => pinf
  | nan => nan

def sub (a b : XR R) : XR R := add ro a (neg ro b)

def mul : XR R → XR R → XR R
  | fin a, fin b => fin (ro.mul a b)
  | nan, _ => nan
  | _, nan => nan
  | fin a, pinf => infTimes ro true a
  | fin a, ninf => infTimes ro false a
  | pinf, fin b => infTimes ro true b
  | ninf, fin b => infTimes ro false b
  | pinf, pinf => pinf
  | ninf, ninf => pinf
  | pinf, ninf => ninf
  | ninf, pinf => ninf

/-- division; a finite divisor equal to zero is treated as +0 -/
def div : XR R → XR R → XR R
  | fin a, fin b => if ro.lt ro.zero b || ro.lt b ro.zero then fin (ro.div a b) else infTimes ro true a
  | nan, _ => nan
  | _, nan => nan
  | fin _, pinf => fin ro.zero
  | fin _, ninf => fin ro.zero
  | pinf, fin b => if ro.lt b ro.zero then ninf else pinf
  | ninf, fin b => if ro.lt b ro.zero then pinf else ninf
  | pinf, pinf => nan
  | pinf, ninf => nan
  | ninf, pinf => nan
  | ninf, ninf => nan

def abs : XR R → XR R
  | fin a => fin (ro.abs a)
  | pinf => pinf
  | ninf => pinf
  | nan => nan

/-- `np.log`: NaN below zero, -inf at zero -/
def log : XR R → XR R
  | fin a => if ro.lt a ro.zero then nan else if ro.lt ro.zero a then fin (ro.log a) else ninf
  | pinf => pinf
  | ninf => nan
  | nan => nan

/-- `np.sqrt`: NaN below zero -/
def sqrt : XR R → XR R
  | fin a => if ro.lt a ro.zero then nan else fin (ro.sqrt a)
  | pinf => pinf
  | ninf => nan
  | nan => nan

def lt : XR R → XR R → Bool
  | fin a, fin b => ro.lt a b
  | nan, _ => false
  | _, nan => false
  | ninf, ninf => false
  | ninf, _ => true
  | pinf, _ => false
  | fin _, pinf => true
  | fin _, ninf => false

def le : XR R → XR R → Bool
  | fin a, fin b => ro.le a b
  | nan, _ => false
  | _, nan => false
  | ninf, _ => true
  | pinf, pinf => true
  | pinf, _ => false
  | fin _, pinf => true
  | fin _, ninf => false

def isNaN : XR R → Bool
  | nan => true
  | _ => false

def isInf : XR R → Bool
  | pinf => true
  | ninf => true
  | _ => false

end XR

/-- the proof instance -/
def xrOps {R : Type} (ro : RealOps R) : NumOps (XR R) where
  ofRat n d := .fin (ro.ofRat n d)
  nan := .nan
  add := XR.add ro
  sub := XR.sub ro
  mul := XR.mul ro
  div := XR.div ro
  neg := XR.neg ro
  abs := XR.abs ro
  log := XR.log ro
  sqrt := XR.sqrt ro
  lt := XR.lt ro
  le := XR.le ro
  isNaN := XR.isNaN
  isInf := XR.isInf

/-! ## interpretation of the generated expressions and tests -/

section
variable {α : Type} (ops : NumOps α)

/-- one element test (`Fisher_diag <= 0.`, `Nsteps<1`, `np.isnan(..)`, ...) -/
def testElem (t : Test) (v : α) : Bool :=
  match t with
  | .cmp .lt n d => ops.lt v (ops.ofRat n d)
  | .cmp .le n d => ops.le v (ops.ofRat n d)
  | .cmp .gt n d => ops.lt (ops.ofRat n d) v
  | .cmp .ge n d => ops.le (ops.ofRat n d) v
  | .isnan => ops.isNaN v
  | .isinf => ops.isInf v

/-- element-wise value for one parameter (θᵢ, Fᵢᵢ); `sum` has no element-wise meaning (excluded by `isElementwise`) -/
def evalV (k θ F : α) : E → α
  | .lit n d => ops.ofRat n d
  | .k => k
  | .theta => θ
  | .fisher => F
  | .neg a => ops.neg (evalV k θ F a)
  | .abs a => ops.abs (evalV k θ F a)
  | .log a => ops.log (evalV k θ F a)
  | .sqrt a => ops.sqrt (evalV k θ F a)
  | .add a b => ops.add (evalV k θ F a) (evalV k θ F b)
  | .sub a b => ops.sub (evalV k θ F a) (evalV k θ F b)
  | .mul a b => ops.mul (evalV k θ F a) (evalV k θ F b)
  | .div a b => ops.div (evalV k θ F a) (evalV k θ F b)
  | .sum _ => ops.nan

/-- scalar value; `np.sum` adds the element values left to right starting from 0; a bare array has no scalar
    meaning (excluded by `isScalar`) -/
def evalS (k : α) (rows : List (α × α)) : E → α
  | .lit n d => ops.ofRat n d
  | .k => k
  | .theta => ops.nan
  | .fisher => ops.nan
  | .neg a => ops.neg (evalS k rows a)
  | .abs a => ops.abs (evalS k rows a)
  | .log a => ops.log (evalS k rows a)
  | .sqrt a => ops.sqrt (evalS k rows a)
  | .add a b => ops.add (evalS k rows a) (evalS k rows b)
  | .sub a b => ops.sub (evalS k rows a) (evalS k rows b)
  | .mul a b => ops.mul (evalS k rows a) (evalS k rows b)
  | .div a b => ops.div (evalS k rows a) (evalS k rows b)
  | .sum a => rows.foldl (fun acc r => ops.add acc (evalV ops k r.1 r.2 a)) ops.zero

end

/-- no `np.sum` inside: legal element-wise -/
def isElementwise : E → Bool
  | .sum _ => false
  | .neg a | .abs a | .log a | .sqrt a => isElementwise a
  | .add a b | .sub a b | .mul a b | .div a b => isElementwise a && isElementwise b
  | _ => true

/-- arrays only below `np.sum`: legal as a scalar -/
def isScalar : E → Bool
  | .theta | .fisher => false
  | .sum a => isElementwise a
  | .neg a | .abs a | .log a | .sqrt a => isScalar a
  | .add a b | .sub a b | .mul a b | .div a b => isScalar a && isScalar b
  | _ => true

/-! ## list helpers (masks as `List Bool`) -/

section
variable {α : Type} (ops : NumOps α)

/-- `theta[mask] = 0.` -/
def zeroWhere : List Bool → List α → List α
  | m :: ms, x :: xs => (if m then ops.zero else x) :: zeroWhere ms xs
  | _, _ => []

/-- `arr[mask]` -/
def select {β : Type} : List Bool → List β → List β
  | m :: ms, x :: xs => if m then x :: select ms xs else select ms xs
  | _, _ => []

/-- `np.arange(n)[mask]` -/
def indicesFrom (i : Nat) : List Bool → List Nat
  | [] => []
  | m :: ms => if m then i :: indicesFrom (i + 1) ms else indicesFrom (i + 1) ms

def indicesOf (mask : List Bool) : List Nat := indicesFrom 0 mask

/-- mask of length n that is true exactly at the listed indices -/
def maskOfIdx (n : Nat) (idx : List Nat) : List Bool := (List.range n).map (fun i => idx.contains i)

/-- copy of θ with the listed coordinates set to 0 (lines 205-207) -/
def zeroAt (θ : List α) (idx : List Nat) : List α := zeroWhere ops (maskOfIdx θ.length idx) θ

/-- `np.ones(n, bool)` then `kept_mask[idx] = 0` (lines 211, 214) -/
def keptOfIdx (n : Nat) (idx : List Nat) : List Bool := (maskOfIdx n idx).map not

/-- `itertools.combinations(xs, r)` in its order -/
def combs : List Nat → Nat → List (List Nat)
  | _, 0 => [[]]
  | [], _ + 1 => []
  | x :: xs, r + 1 => (combs xs r).map (x :: ·) ++ combs xs (r + 1)

/-- `reversed(range(lo, m))` (line 203; `lo`, direction from the source) -/
def searchSizes (m : Nat) : List Nat :=
  let l := (List.range m).filter (fun r => decide (ESR.Gen.Codelen.searchLo ≤ r))
  if ESR.Gen.Codelen.searchReversed then l.reverse else l

/-- `np.pad(theta, (0, max_param-len(theta)))` -/
def pad (maxParam : Nat) (xs : List α) : List α := xs ++ List.replicate (maxParam - xs.length) ops.zero

end

/-! ## outputs -/

inductive Branch where
  | fallbackNan     -- lines 166-168
  | badCurvature    -- lines 180-182
  | noSnap          -- line 230
  | snapAll         -- lines 197-199, k > 0
  | kZero           -- lines 223-225
  | searchSingle    -- lines 201-218 with one snappable parameter: loop empty, restored
  | searchFound     -- lines 212-214
  | searchNone      -- lines 215-218 after a non-empty loop
  deriving Repr, DecidableEq

structure Out (α : Type) where
  /-- `params` (length max_param) -/
  params : List α
  /-- returned `negloglike` -/
  nll : α
  codelen : α
  /-- `kept_mask` (internal; `[]` where Python never assigns it) -/
  kept : List Bool
  /-- `k` (internal) -/
  k : Nat
  branch : Branch
  /-- index sets zeroed at the successive calls of `fop` after the Hessian (lines 194, 208) -/
  evals : List (List Nat)

inductive Res (α : Type) where
  | ok (o : Out α)
  /-- Python raises / quits -/
  | error (what : String)

/-! ## the subset search (lines 203-210) -/

structure SearchSt (α : Type) where
  /-- loop variable `idx` (`none` = unbound) -/
  idx : Option (List Nat)
  θ : List α
  nll : α
  evals : List (List Nat)

section
variable {α : Type} (ops : NumOps α) (fop : List α → α) (θorig : List α)

/-- the inner `for idx in itertools.combinations(try_idx, r)` with its `break` -/
def inner : List (List Nat) → SearchSt α → SearchSt α
  | [], st => st
  | idx :: rest, st =>
    let θ' := zeroAt ops θorig idx
    let v := fop θ'
    let st' : SearchSt α := { idx := some idx, θ := θ', nll := v, evals := st.evals ++ [idx] }
    if ops.isFinite v then st' else inner rest st'

/-- the outer `for r in reversed(range(1, len(try_idx)))`: never left early -/
def outer (tryIdx : List Nat) : List Nat → SearchSt α → SearchSt α
  | [], st => st
  | r :: rs, st => outer tryIdx rs (inner ops fop θorig (combs tryIdx r) st)

end

/-! ## lines 180-239 -/

section
variable {α : Type} (ops : NumOps α)

/-- lines 227-239 -/
def finish (maxParam : Nat) (θorig θcur F : List α) (nll : α) (kept : List Bool) (k : Nat) (br : Branch)
    (evals : List (List Nat)) : Res α :=
  if maxParam < θorig.length then .error "ValueError: np.pad negative width"
  else
    let rows := (select kept θcur).zip (select kept F)
    .ok { params := pad ops maxParam (zeroWhere ops (kept.map not) θorig)
          nll := nll
          codelen := evalS ops (ops.ofNat k) rows ESR.Gen.Codelen.codelenExpr
          kept := kept, k := k, branch := br, evals := evals }

/-- lines 220-228 -/
def afterSnap (maxParam : Nat) (θorig θcur F : List α) (nll : α) (kept : List Bool) (k : Int) (br : Branch)
    (evals : List (List Nat)) : Res α :=
  if k < 0 then .error "quit(): k < 0"
  else if k == 0 then
    .ok { params := List.replicate maxParam ops.zero, nll := nll
          codelen := evalS ops ops.zero [] ESR.Gen.Codelen.kZeroCodelen
          kept := kept, k := 0, branch := .kZero, evals := evals }
  else finish ops maxParam θorig θcur F nll kept k.toNat br evals

/-- any-of test over an array (`np.sum(test(arr)) > 0`) -/
def anyTest (ts : List Test) (xs : List α) : Bool := xs.any (fun x => ts.any (fun t => testElem ops t x))

/-- `Nsteps` -/
def nsteps (θ F : List α) : List α := List.zipWith (fun t f => evalV ops ops.zero t f ESR.Gen.Codelen.nstepsExpr) θ F

/-- lines 180-239; θ is `theta_ML[:nparam]`, F the (possibly re-selected) `Fisher_diag`, `nllIn` the argument
    `negloglike`, `fop` the likelihood closure -/
def postHessian (maxParam : Nat) (θ F : List α) (nllIn : α) (fop : List α → α) : Res α :=
  let n := θ.length
  if F.length ≠ n then .error "shape mismatch"
  else if anyTest ops ESR.Gen.Codelen.badTests F then
    .ok { params := List.replicate maxParam ops.zero, nll := nllIn, codelen := ops.nan, kept := [], k := n
          branch := .badCurvature, evals := [] }
  else
    let ns := nsteps ops θ F
    let snap := ns.map (testElem ops ESR.Gen.Codelen.snapTest)
    let ones := List.replicate n true
    if snap.any id then
      let θ1 := zeroWhere ops snap θ
      let nll1 := fop θ1
      let tryIdx := indicesOf snap
      if ops.isFinite nll1 then
        afterSnap ops maxParam θ θ1 F nll1 (ns.map (testElem ops ESR.Gen.Codelen.keptTest))
          ((n : Int) - (snap.count true : Nat)) .snapAll [tryIdx]
      else
        let s := outer ops fop θ tryIdx (searchSizes tryIdx.length) ⟨none, θ1, nll1, [tryIdx]⟩
        if ops.isFinite s.nll then
          match s.idx with
          | none => .error "NameError: idx"
          | some idx =>
            if idx.length ≠ 1 then .error "IndexError: kept_mask[idx] with a tuple of length != 1"
            else afterSnap ops maxParam θ s.θ F s.nll (keptOfIdx n idx) ((n : Int) - (idx.length : Nat)) .searchFound s.evals
        else
          afterSnap ops maxParam θ θ F nllIn ones (n : Int)
            (if tryIdx.length ≤ 1 then .searchSingle else .searchNone) s.evals
    else
      finish ops maxParam θ θ F nllIn ones n .noSnap []

/-- line 121 -/
def needsFallback (F : List α) : Bool := anyTest ops ESR.Gen.Codelen.fallbackTests F

/-- what lines 122-177 produce (numdifftools + mode selection are not modelled) -/
inductive Fallback (α : Type) where
  | notConsistent
  | reselected (F : List α)

/-- lines 110-239 given the first Hessian diagonal `F0` and the outcome `fb` of the fallback (consulted only when
    line 121 fires) -/
def convertParams (maxParam : Nat) (θ F0 : List α) (fb : Fallback α) (nllIn : α) (fop : List α → α) : Res α :=
  if needsFallback ops F0 then
    match fb with
    | .notConsistent =>
      .ok { params := List.replicate maxParam ops.zero, nll := nllIn, codelen := ops.nan, kept := [], k := θ.length
            branch := .fallbackNan, evals := [] }
    | .reselected F => postHessian ops maxParam θ F nllIn fop
  else postHessian ops maxParam θ F0 nllIn fop

/-! ## lines 80, 116-118: `deriv` -/

/-- `xs[start:start+len(vals)] = vals` (error if it does not fit) -/
def writeAt (xs : List α) (start : Nat) (vals : List α) : Option (List α) :=
  if start + vals.length ≤ xs.length then some (xs.take start ++ vals ++ xs.drop (start + vals.length)) else none

/-- `start = int(i * max_param - (i - 1) * i / 2)` -/
def rowStart (maxParam i : Nat) : Nat := i * maxParam - (i * (i - 1)) / 2

def flattenRows (maxParam : Nat) : Nat → List (List α) → List α → Option (List α)
  | _, [], d => some d
  | i, row :: rest, d =>
    match writeAt d (rowStart maxParam i) (row.drop i) with
    | none => none
    | some d' => flattenRows maxParam (i + 1) rest d'

/-- `deriv` for the Hessian rows `H` -/
def flattenUpper (maxParam : Nat) (H : List (List α)) : Option (List α) :=
  flattenRows maxParam 0 H (List.replicate (maxParam * (maxParam + 1) / 2) ops.nan)

end

end ESR.Codelen
