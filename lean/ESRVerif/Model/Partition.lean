/-
Model of the work-partitioning arithmetic of ESR.

* `splitIdx`      — esr/generation/utils.py `split_idx` (scalar branch), which mirrors
                    `numpy.array_split`: `extras` sections of `each+1`, then `each`.
                    `none` is Python's `[]` (empty slice).
* `nLs`, `getFunctionsSlice` — esr/fitting/test_all.py `get_functions`:
                    `nLs = ceil(N/P)`, `while nLs*(P-1) > N: nLs -= 1`,
                    rank r takes `[r*nLs, (r+1)*nLs)`, the last rank `[r*nLs, N)`,
                    with Python slice clamping.
No imports: this file is also linked into the `esrmodel` executable.
-/
namespace ESR.Partition

/-- `div_points[r]` of `split_idx` for scalar `indices_or_sections = P`. -/
def divPoint (N P r : Nat) : Nat :=
  let each := N / P
  let extras := N % P
  if r ≤ extras then r * (each + 1) else extras * (each + 1) + (r - extras) * each

/-- `split_idx(N, r, P)`: `some (imin, imax-1)` or `none` for Python's `[]`. -/
def splitIdx (N P r : Nat) : Option (Nat × Nat) :=
  let imin := divPoint N P r
  let imax := divPoint N P (r + 1)
  if imin ≥ imax then none else some (imin, imax - 1)

/-- The half-open block `[start, stop)` every use site derives from `split_idx`
(`all_fun[i[0]:i[-1]+1]`, or nothing when the result is `[]`). -/
def block (N P r : Nat) : Nat × Nat := (divPoint N P r, divPoint N P (r + 1))

/-- The `while nLs*(size-1) > len(fcn_list): nLs -= 1` loop, started at `k`. -/
def nLsLoop (N P : Nat) : Nat → Nat
  | 0 => 0
  | k + 1 => if (k + 1) * (P - 1) > N then nLsLoop N P k else k + 1

/-- `int(np.ceil(N / float(P)))` followed by the correction loop. -/
def nLs (N P : Nat) : Nat := nLsLoop N P ((N + P - 1) / P)

/-- `data_start`, `data_end` as returned by `get_functions` (unclamped). -/
def dataStart (N P r : Nat) : Nat := r * nLs N P
def dataEnd (N P r : Nat) : Nat := if r = P - 1 then N else (r + 1) * nLs N P

/-- Python `xs[a:b]` for non-negative `a`, `b`. -/
def pySlice {α} (xs : List α) (a b : Nat) : List α := (xs.take b).drop a

/-- The list of functions rank `r` receives from `get_functions`. -/
def getFunctionsSlice {α} (xs : List α) (P r : Nat) : List α :=
  pySlice xs (dataStart xs.length P r) (dataEnd xs.length P r)

/-- The items of `xs` in rank `r`'s `split_idx` block. -/
def blockSlice {α} (xs : List α) (P r : Nat) : List α :=
  pySlice xs (block xs.length P r).1 (block xs.length P r).2

end ESR.Partition
