import ESRVerif.Model.Partition
import ESRVerif.Model.GatherSyntax
/-
List-level executable models of the scatter/gather steps of esr/generation/simplifier.py, written the way the code
does them (per rank, with the index arithmetic read from the source: `ESR.Gen.Gather`).  `none` = Python raises
(IndexError) or leaves the modelled fragment (negative index).

* `makeChanges`            — `make_changes` (simplifier.py 97-155): per rank `imin`/count from `split_idx`,
                             `chidx = [i for i in range(len(str_fun)) if str_fun[i] != all_fun[imin+i]]`, the
                             change lists, gathered `start_idx` (rank 0: `[0] + …`, `np.cumsum`), then for ranks in order
                             `all_*[chidx[i][k] + start_idx[i]] = *_changes[i][k]` (`None` / `.copy()` are values here).
                             All ranks hold the same `all_*` lists on entry and run the same update loop on broadcast
                             data, so one triple is computed.  The three lists are updated independently of each other;
                             the model runs the same sequence of writes on each.
* `initialSympifyGather`   — `initial_sympify` (simplifier.py 226-238): `start_idx = cumsum([0] + gathered len(str_fun))`,
                             `all_fun = [None] * start_idx[-1]`, `all_fun[start_idx[r]:start_idx[r+1]] = bcast(str_fun, root=r)`.
* `loadSubs`               — `load_subs` (simplifier.py 1114-1172): `np.array_split(np.arange(len(subs)), size)`,
                             `subs[ii[0]:ii[-1]+1]` (or `[]`), scatter, per-row transform, gather, `itertools.chain`.
* `flaggedIndices`         — `check_results` (simplifier.py 1286-1303, 1321-1323, 1336-1393): blocks
                             `all_fun[imin[i]:imax[i]]` scattered, `matches` through `np.array_split`, per rank
                             `[i + imin for flagged i]`, gathered, chained, `r[0] = shufidx[r[0]]`.
No Mathlib: linked into `esrmodel`.
-/
namespace ESR.Gather
open ESR.Partition

/-- `[f(x) for x in xs]` where an element may raise. -/
def allSome {α} : List (Option α) → Option (List α)
  | [] => some []
  | none :: _ => none
  | some a :: t => (allSome t).map (a :: ·)

/-- Sequential `xs[i] = v` for the `(i, v)` in order; `none` = IndexError. -/
def setMany {α} (xs : List α) : List (Nat × α) → Option (List α)
  | [] => some xs
  | (i, v) :: rest => if i < xs.length then setMany (xs.set i v) rest else none

/-! ### make_changes -/

/-- what one rank passes to `make_changes`: `str_fun`, `sym_fun`, `inv_subs_fun` -/
structure Local (σ ι : Type) where
  str : List String
  sym : List σ
  inv : List (Option ι)

/-- `[i for i in range(len(str_fun)) if str_fun[i] != all_fun[imin+i]]`, counting from `i`. -/
def chidxFrom (allFun : List String) (imin : Nat) : List String → Nat → Option (List Nat)
  | [], _ => some []
  | s :: rest, i =>
    match allFun[imin + i]?, chidxFrom allFun imin rest (i + 1) with
    | some a, some tl => some (if s != a then i :: tl else tl)
    | _, _ => none

/-- `chidx`, `str_changes`, `sym_changes`, `inv_changes` of rank `r` (zipped). -/
def rankChanges {σ ι} (d : MakeChangesDesc) (allFun : List String) (P r : Nat) (l : Local σ ι) :
    Option (List (Nat × String × σ × Option ι)) := do
  let imin ← (d.cmpBase.eval ⟨allFun.length, r, P, l.str.length⟩).bind natOf
  let ch ← chidxFrom allFun imin l.str 0
  allSome (ch.map fun c => do
    let s ← l.str[c]?
    let y ← l.sym[c]?
    let v ← l.inv[c]?
    pure (c, s, y, v))

/-- the broadcast `start_idx` -/
def startIdx {σ ι} (d : MakeChangesDesc) (N : Nat) (loc : List (Local σ ι)) : Option (List Nat) :=
  (allSome ((List.range loc.length).map fun r => do
    let l ← loc[r]?
    (d.count.eval ⟨N, r, loc.length, l.str.length⟩).bind natOf)).map (applySteps d.steps)

/-- the writes `(j[k], str_changes[i][k], sym_changes[i][k], inv_changes[i][k])` for `i in range(size)`, `k` in order -/
def updates {σ ι} (d : MakeChangesDesc) (allFun : List String) (loc : List (Local σ ι)) :
    Option (List (Nat × String × σ × Option ι)) := do
  let start ← startIdx d allFun.length loc
  let per ← allSome ((List.range loc.length).map fun r => do
    let l ← loc[r]?
    let ch ← rankChanges d allFun loc.length r l
    let st ← start[r + d.useShift]?
    pure (ch.map fun c => (c.1 + st, c.2)))
  pure per.flatten

def makeChanges {σ ι} (d : MakeChangesDesc) (allFun : List String) (allSym : List σ) (allInv : List (Option ι))
    (loc : List (Local σ ι)) : Option (List String × List σ × List (Option ι)) := do
  let ups ← updates d allFun loc
  let f ← setMany allFun (ups.map fun u => (u.1, u.2.1))
  let y ← setMany allSym (ups.map fun u => (u.1, u.2.2.1))
  let v ← setMany allInv (ups.map fun u => (u.1, u.2.2.2))
  pure (f, y, v)

/-- Position by position: the new entry where the function string changed, the old one elsewhere. -/
def mergeChanged {β} (oldF newF : List String) (old new : List β) : List β :=
  List.zipWith (fun (p : String × String) (q : β × β) => if p.2 != p.1 then q.2 else q.1) (oldF.zip newF) (old.zip new)

/-! ### initial_sympify -/

/-- Python `xs[a:b] = ys` for `0 ≤ a, b`. -/
def sliceAssign {α} (xs : List α) (a b : Nat) (ys : List α) : List α :=
  xs.take a ++ ys ++ xs.drop (max a b)

/-- `for r in range(size): all_fun[start_idx[r]:start_idx[r+1]] = comm.bcast(str_fun, root=r)` from rank `r` on. -/
def gatherLoop {α} (start : List Nat) : List (List α) → Nat → List (Option α) → Option (List (Option α))
  | [], _, acc => some acc
  | l :: rest, r, acc =>
    match start[r]?, start[r + 1]? with
    | some a, some b => gatherLoop start rest (r + 1) (sliceAssign acc a b (l.map some))
    | _, _ => none

/-- The gathered list (`None` = `none` entries); `loc[r]` is rank `r`'s `str_fun`. -/
def initialSympifyGather {α} (loc : List (List α)) : Option (List (Option α)) := do
  let start := cumsum (0 :: loc.map List.length)
  let total ← start.getLast?
  gatherLoop start loc 0 (List.replicate total none)

/-! ### load_subs -/

/-- rank 0: `all_subs[r]` from `i = np.array_split(np.arange(len(subs)), size)` -/
def loadSubsBlock {α} (subs : List α) (P r : Nat) : List α :=
  let ii := blockSlice (List.range subs.length) P r
  match ii.head?, ii.getLast? with
  | some lo, some hi => pySlice subs lo (hi + 1)
  | _, _ => []

/-- scatter, per-row transform on every rank, gather, chain -/
def loadSubs {α β} (t : α → β) (subs : List α) (P : Nat) : List β :=
  ((List.range P).map fun r => (loadSubsBlock subs P r).map t).flatten

/-! ### check_results -/

/-- `for i in range(len(all_fun)): if <check fails on all_fun[i], inv_subs[i], matches[i]>: to_change.append(i+imin)`,
counting from `i`; `none` = IndexError on `matches[i]`. -/
def flaggedLocal {α μ} (bad : α → μ → Bool) (ms : List μ) (off : Nat) : List α → Nat → Option (List Nat)
  | [], _ => some []
  | a :: rest, i =>
    match ms[i]?, flaggedLocal bad ms off rest (i + 1) with
    | some m, some tl => some (if bad a m then (i + off) :: tl else tl)
    | _, _ => none

/-- rank `r`'s `to_change` indices -/
def flaggedRank {α μ} (d : CheckResultsDesc) (bad : α → μ → Bool) (xs : List α) (ms : List μ) (P r : Nat) :
    Option (List Nat) := do
  let e0 : Env := ⟨xs.length, r, P, 0⟩
  let lo ← (d.sliceLo.eval e0).bind natOf
  let hi ← (d.sliceHi.eval e0).bind natOf
  let blk := pySlice xs lo hi                         -- rank 0: `all_fun[imin[i]:imax[i]]`, scattered
  let mblk := blockSlice ms P r                       -- `np.array_split(matches, size)`, scattered
  let off ← (d.offset.eval ⟨xs.length, r, P, blk.length⟩).bind natOf
  flaggedLocal bad mblk off blk 0

/-- gather, chain, `r[0] = shufidx[r[0]]`.  `xs` are the (shuffled) functions with their inverse-subs rows,
`ms` the (shuffled) matches, `shufidx` the shuffled original indices. -/
def flaggedIndices {α μ} (d : CheckResultsDesc) (bad : α → μ → Bool) (xs : List α) (ms : List μ) (shufidx : List Nat)
    (P : Nat) : Option (List Nat) := do
  let per ← allSome ((List.range P).map fun r => flaggedRank d bad xs ms P r)
  allSome (per.flatten.map fun g => shufidx[g]?)

/-- positions (counted from `i`) of the flagged items of a list -/
def flagPos {α μ} (bad : α → μ → Bool) : List (α × μ) → Nat → List Nat
  | [], _ => []
  | (a, m) :: t, i => if bad a m then i :: flagPos bad t (i + 1) else flagPos bad t (i + 1)

end ESR.Gather
