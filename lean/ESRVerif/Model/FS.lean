/-
Directory-creation protocols of the fitting stages (esr/fitting/likelihood.py `Likelihood.__init__`,
esr/fitting/test_all.py `get_functions`).

A rank's program is a list of directory operations.  `check d` is `os.path.isdir(d)` (the answer is remembered),
`mkdirIf d` is the `os.mkdir(d)` guarded by the remembered answer (`if not isdir: mkdir`), which raises
FileExistsError when the directory has appeared in between; `makedirs d` is `os.makedirs(d, exist_ok=True)`.
Barriers only remove interleavings, so they are not needed for the no-raise theorems and are left out.
-/
namespace ESR.FS

inductive Op where
  | check (d : Nat)
  | mkdirIf (d : Nat)
  | makedirs (d : Nat)
  deriving Repr, DecidableEq

structure Rank where
  todo : List Op
  sawDir : Bool := false      -- answer of the last `check`
  failed : Bool := false
  deriving Repr, DecidableEq

structure St where
  fs : List Nat               -- existing directories
  ranks : List Rank
  deriving Repr, DecidableEq

/-- one operation of one rank against the shared file system -/
def stepRank (fs : List Nat) (r : Rank) : List Nat × Rank :=
  match r.todo with
  | [] => (fs, r)
  | .check d :: rest => (fs, { r with todo := rest, sawDir := fs.contains d })
  | .mkdirIf d :: rest =>
      if r.sawDir then (fs, { r with todo := rest })
      else if fs.contains d then (fs, { r with todo := [], failed := true })     -- FileExistsError
      else (d :: fs, { r with todo := rest })
  | .makedirs d :: rest => (if fs.contains d then fs else d :: fs, { r with todo := rest })

/-- rank `i` takes its next step -/
def step (s : St) (i : Nat) : St :=
  match s.ranks[i]? with
  | none => s
  | some r =>
    let (fs', r') := stepRank s.fs r
    { fs := fs', ranks := s.ranks.set i r' }

/-- run a schedule (sequence of rank indices) -/
def runSched (s : St) (sched : List Nat) : St := sched.foldl step s

def anyFailed (s : St) : Bool := s.ranks.any (·.failed)

/-- all `P` ranks run the same program from a fresh directory tree -/
def initAll (P : Nat) (prog : List Op) : St := { fs := [], ranks := List.replicate P { todo := prog } }

/-- only rank 0 runs the creating program (the `if rank == 0:` + barrier pattern) -/
def initRank0 (P : Nat) (prog : List Op) : St :=
  { fs := [], ranks := { todo := prog } :: List.replicate (P - 1) { todo := [] } }

def Op.isSafe : Op → Bool
  | .mkdirIf _ => false
  | _ => true

end ESR.FS
