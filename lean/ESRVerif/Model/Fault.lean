/-
Fault model of ESR's time-limited simplification steps (esr/generation/simplifier.py).

On the owning rank a function is the local triple (string, sympy object, pending chain of substitutions),
a copy of the committed (global) triple taken at the start of `sympy_simplify` and after each `make_changes`.
A time-limited block performs a sequence of effects on the local triple.  A `TimeoutException` may strike
before any effect; the block's handler then puts back the string and the sympy object saved before the `try`
(which fields it restores is regenerated from the source: `ESR.Gen.Fault.blocks`).  `make_changes` commits a
local triple iff its string differs from the committed string (`chidx = [i for i .. if str_fun[i] != all_fun[imin+i]]`).
Shared result lists (`change_indices`, `ref_indices`, `new_inv_subs`; `change_idx`, `change_vals`) are appended
to one after the other; the handlers cut them back to their common length.
-/
namespace ESR.Fault

structure Tri (S Y C : Type) where
  str : S
  sym : Y
  inv : C
  deriving Repr

inductive Eff (S Y C : Type) where
  | setStr (s : S)
  | setSym (y : Y)
  | updInv (f : C → C)        -- rebinding or in-place append of the pending chain

def applyEff {S Y C} (t : Tri S Y C) : Eff S Y C → Tri S Y C
  | .setStr s => { t with str := s }
  | .setSym y => { t with sym := y }
  | .updInv f => { t with inv := f t.inv }

/-- the block body interrupted before effect number `k` (`k ≥ length`: ran to completion) -/
def runPrefix {S Y C} (t : Tri S Y C) (effs : List (Eff S Y C)) (k : Nat) : Tri S Y C :=
  (effs.take k).foldl applyEff t

/-- `except TimeoutException: str_fun[i] = orig_fun; sym_fun[i] = orig_sym` -/
def handler {S Y C} (saved t : Tri S Y C) : Tri S Y C := { t with str := saved.str, sym := saved.sym }

/-- A block with a fault point: `none` = no timeout. -/
def runBlock {S Y C} (t : Tri S Y C) (effs : List (Eff S Y C)) : Option Nat → Tri S Y C
  | none => runPrefix t effs effs.length
  | some k => handler t (runPrefix t effs k)

/-- `make_changes` for one function: the local triple is committed iff its string changed. -/
def commit {S Y C} [DecidableEq S] (glob loc : Tri S Y C) : Tri S Y C :=
  if loc.str ≠ glob.str then loc else glob

/-! shared result lists -/

/-- appending one record to three parallel lists, interrupted after `k` of the three appends -/
def append3 {α β γ} (l1 : List α) (l2 : List β) (l3 : List γ) (a : α) (b : β) (c : γ) (k : Nat) :
    List α × List β × List γ :=
  (if k ≥ 1 then l1 ++ [a] else l1, if k ≥ 2 then l2 ++ [b] else l2, if k ≥ 3 then l3 ++ [c] else l3)

/-- `nrec = min(len..); del l1[nrec:], l2[nrec:], l3[nrec:]` -/
def truncate3 {α β γ} (p : List α × List β × List γ) : List α × List β × List γ :=
  let n := min p.1.length (min p.2.1.length p.2.2.length)
  (p.1.take n, p.2.1.take n, p.2.2.take n)

end ESR.Fault
