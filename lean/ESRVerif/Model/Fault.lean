/-
Fault model of ESR's time-limited simplification steps (esr/generation/simplifier.py).

On the owning rank a function is the local triple (string, sympy object, pending chain of substitutions),
a copy of the committed (global) triple taken at the start of `sympy_simplify` and after each `make_changes`.
A time-limited block performs a sequence of effects on the local triple.  A `TimeoutException` may strike
before any effect; the block's handler then puts back the string and the sympy object saved before the `try`
(which fields it restores is regenerated from the source: `ESR.Gen.Fault.blocks`).  `make_changes` commits a
local triple iff its string differs from the committed string (`chidx = [i for i .. if str_fun[i] != all_fun[imin+i]]`).
Shared result lists (`change_indices`, `ref_indices`, `new_inv_subs`; `change_idx`, `change_vals`) are appended
to one after the other; the handlers cut them back to their common length.
-/
namespace ESR.Fault

structure Tri (S Y C : Type) where
  str : S
  sym : Y
  inv : C
  deriving Repr

inductive Eff (S Y C : Type) where
  | setStr (s : S)
  | setSym (y : Y)
  | updInv (f : C → C)        -- rebinding or in-place append of the pending chain

def applyEff {S Y C} (t : Tri S Y C) : Eff S Y C → Tri S Y C
  | .setStr s => { t with str := s }
  | .setSym y => { t with sym := y }
  | .updInv f => { t with inv := f t.inv }

/-- the block body interrupted before effect number `k` (`k ≥ length`: ran to completion) -/
def runPrefix {S Y C} (t : Tri S Y C) (effs : List (Eff S Y C)) (k : Nat) : Tri S Y C :=
  (effs.take k).foldl applyEff t

/-- `except TimeoutException: str_fun[i] = orig_fun; sym_fun[i] = orig_sym` -/
def handler {S Y C} (saved t : Tri S Y C) : Tri S Y C := { t with str := saved.str, sym := saved.sym }

/-- A block with a fault point: `none` = no timeout. -/
def runBlock {S Y C} (t : Tri S Y C) (effs : List (Eff S Y C)) : Option Nat → Tri S Y C
  | none => runPrefix t effs effs.length
  | some k => handler t (runPrefix t effs k)

/-- `make_changes` for one function: the local triple is committed iff its string changed. -/
def commit {S Y C} [DecidableEq S] (glob loc : Tri S Y C) : Tri S Y C :=
  if loc.str ≠ glob.str then loc else glob

/-! shared result lists -/

/-- appending one record to three parallel lists, interrupted after `k` of the three appends -/
def append3 {α β γ} (l1 : List α) (l2 : List β) (l3 : List γ) (a : α) (b : β) (c : γ) (k : Nat) :
    List α × List β × List γ :=
  (if k ≥ 1 then l1 ++ [a] else l1, if k ≥ 2 then l2 ++ [b] else l2, if k ≥ 3 then l3 ++ [c] else l3)

/-- `nrec = min(len..); del l1[nrec:], l2[nrec:], l3[nrec:]` -/
def truncate3 {α β γ} (p : List α × List β × List γ) : List α × List β × List γ :=
  let n := min p.1.length (min p.2.1.length p.2.2.length)
  (p.1.take n, p.2.1.take n, p.2.2.take n)

/-! ## stale records, later commits, and `check_results` as the verifier

The handlers restore the string and the sympy object but not the pending chain (`ESR.Gen.Fault.blocks`: `inv_subs_fun ∈ mutates`,
`∉ restores`, `handlerMutates = []`).  A block interrupted after its `inv_subs_fun[i].append(..)` therefore leaves
`chain = chain₀ ++ [entry]` behind (`runBlock` with `updInv (· ++ [entry])` before the fault point — nothing new to model).
The blocks of one call of `sympy_simplify` up to the next `make_changes` run one after the other on the SAME local triple
(simplifier.py:338-490 then `make_changes` at 493; 529-674 then `make_changes` at 684), so a later block that rewrites the string
makes `make_changes` publish the stale entry together with its own: `runCall`.  `check_results` (simplifier.py:1332-1370) then
re-reads every published row: rows whose match has a different number of parameters are skipped; for the others every chain entry
is parsed with `literal_eval` inside the `try` — the marker `nan` does not parse — and the substitution check is made; any
exception puts the function on `to_change`, i.e. it is re-registered as its own unique function with the empty (identity) chain. -/

/-- a chain entry: a recorded parameter map or the unrecoverable marker `str(np.nan)` -/
inductive Ent (M : Type) where
  | map (m : M)
  | nan
  deriving Repr, DecidableEq

def Ent.isNan {M} : Ent M → Bool
  | .nan => true
  | .map _ => false

def hasNan {M} (c : List (Ent M)) : Bool := c.any Ent.isNan

/-- the blocks between two `make_changes` run in sequence on the local triple, each possibly interrupted; then the commit -/
def runCall {S Y C} [DecidableEq S] (glob : Tri S Y C) (bs : List (List (Eff S Y C) × Option Nat)) : Tri S Y C :=
  commit glob (bs.foldl (fun t b => runBlock t b.1 b.2) glob)

/-- a whole generation for one function: calls of `sympy_simplify` (every round of both `do_sympy` loops), each a `runCall` -/
def runSchedule {S Y C} [DecidableEq S] (glob : Tri S Y C) (calls : List (List (List (Eff S Y C) × Option Nat))) : Tri S Y C :=
  calls.foldl runCall glob

/-- **a nan not justified by a parameter loss**: the published chain holds the marker although the match (`t.str`) has as many
parameters as the function itself (`n0`).  Decidable predicate of the published triple. -/
def nanUnjustified {S Y M} (np : S → Nat) (n0 : Nat) (t : Tri S Y (List (Ent M))) : Bool :=
  hasNan t.inv && np t.str == n0

/-- `check_results` on one published row: `true` = the function is put on `to_change` (un-merged).
`skipOnNan` is the only thing the model takes from outside the unchanged code's shape: it is `false` iff the regenerated table
`ESR.Gen.Fault.verifier.skips` lists nothing but the parameter-count test (theorem `C15.check_results_shape`). -/
def checkRow {S Y M} (np : S → Nat) (n0 : Nat) (subsOk : Tri S Y (List (Ent M)) → Bool) (skipOnNan : Bool)
    (t : Tri S Y (List (Ent M))) : Bool :=
  if np t.str != n0 then false              -- `if all_nparam[i] != uniq_nparam[matches[i]]: continue`
  else if skipOnNan && hasNan t.inv then false
  else if hasNan t.inv then true            -- `literal_eval('nan')` raises inside the try
  else !subsOk t                            -- `raise ValueError` when the substituted function is not the match

/-- un-merging: the function becomes its own unique function with the identity map -/
def verify {S Y M} (V : Tri S Y (List (Ent M)) → Bool) (orig t : Tri S Y (List (Ent M))) : Tri S Y (List (Ent M)) :=
  if V t then ⟨orig.str, orig.sym, []⟩ else t

/-- the C03 invariant of one published row of a function with `n0` parameters: a row carrying the marker has a match with
strictly fewer parameters; any other row transfers exactly (`Exact`, C03's own oracle) -/
def C03Row {S Y M} (np : S → Nat) (n0 : Nat) (Exact : Tri S Y (List (Ent M)) → Prop) (t : Tri S Y (List (Ent M))) : Prop :=
  if hasNan t.inv then np t.str < n0 else Exact t

/-- what generation alone guarantees of a local/published triple under faults: rewriting never adds parameters, and the chain
is exact unless it is flagged by the marker -/
def Flagged {S Y M} (np : S → Nat) (n0 : Nat) (Exact : Tri S Y (List (Ent M)) → Prop) (t : Tri S Y (List (Ent M))) : Prop :=
  np t.str ≤ n0 ∧ (hasNan t.inv = true ∨ Exact t)

/-- **StepSound** for the CAS steps: a completed step keeps "no more parameters; exact or flagged", and so does what an
interrupted step leaves behind (its stale record is harmless for exactness or is the marker). -/
structure StepSound {S Y M} (np : S → Nat) (n0 : Nat) (Exact : Tri S Y (List (Ent M)) → Prop)
    (Steps : List (Eff S Y (List (Ent M))) → Prop) : Prop where
  complete : ∀ (t : Tri S Y (List (Ent M))) effs, Steps effs → Flagged np n0 Exact t → Flagged np n0 Exact (runBlock t effs none)
  interrupted : ∀ (t : Tri S Y (List (Ent M))) effs k, Steps effs → Flagged np n0 Exact t →
    Flagged np n0 Exact (runBlock t effs (some k))

end ESR.Fault
