/-
Persistent-state effects of a stage (files in the library / output directories).

A stage is a sequence of file effects interleaved with pure computation.  What is written may depend on
everything read so far (and on the stage's inputs, which are fixed); nothing else survives between stages.
`w` = open(..., 'w') / shell `> file` / np.savetxt (truncate then write), `a` = open(..., 'a'),
`r` = open(..., 'r') / np.loadtxt / `cat file`, `rm` = os.remove / `rm` / source of `mv`.
-/
namespace ESR.Effects

inductive Acc where | w | a | r | rm
  deriving Repr, DecidableEq

structure Eff where
  fn : String
  line : Nat
  file : String
  acc : Acc
  deriving Repr, DecidableEq

/-- every read or append is of a file this same run has already (over)written or removed -/
def safe : List String → List Eff → Bool
  | _, [] => true
  | fresh, e :: rest =>
    match e.acc with
    | .w | .rm => safe (e.file :: fresh) rest
    | .a | .r => fresh.contains e.file && safe fresh rest

abbrev Val := Nat
abbrev Store := String → List Val

/-- a statement: the effect and, for writes/appends, the content as a function of everything read so far -/
structure Stmt where
  eff : Eff
  content : List (List Val) → List Val

def upd (s : Store) (f : String) (v : List Val) : Store := fun g => if g = f then v else s g

def exec : List Stmt → Store → List (List Val) → Store × List (List Val)
  | [], s, env => (s, env)
  | st :: rest, s, env =>
    match st.eff.acc with
    | .w => exec rest (upd s st.eff.file (st.content env)) env
    | .a => exec rest (upd s st.eff.file (s st.eff.file ++ st.content env)) env
    | .r => exec rest s (env ++ [s st.eff.file])
    | .rm => exec rest (upd s st.eff.file []) env

/-! ### every execution of the stage: conditional open modes and loops

`generate_equations` appends to `orig_trees_<n>.txt`, … inside its loop over tree topologies.  Whether those appends start from
an empty file depends on which truncating open is executed before them ON THE PATH TAKEN: an open whose mode is chosen at run
time (`'w' if i == 0 else 'a'`) truncates only when its condition holds, and a loop body runs once per visited index — possibly
never, possibly without ever visiting index 0.  The structured summary keeps that information. -/

/-- when does an open perform its first-listed mode -/
inductive Cond where
  | always            -- literal mode
  | firstIteration    -- `X if v == 0 else Y` on the variable of the innermost enclosing loop: `X` exactly when the index is 0
  | conditional       -- any other run-time choice between two modes
  deriving Repr, DecidableEq

/-- an effect whose access kind may be chosen at run time: `eff.acc` when the condition holds, `alt` otherwise -/
structure GEff where
  eff : Eff
  cond : Cond
  alt : Acc
  deriving Repr, DecidableEq

/-- straight-line code, or the body of a loop over a run-time collection.  `skips = false`: the loop visits the indices
0, 1, 2, … in order (`for v in range(e)`); `skips = true`: any index may be missing (`for v in <array>`, `while`). -/
inductive Block where
  | straight (ops : List GEff)
  | loop (skips : Bool) (ops : List GEff)
  deriving Repr, DecidableEq

abbrev Prog := List Block

/-- the choices of one pass over a list of operations: is the loop index 0 (`first`), and the outcome of every `conditional`
test in order (`picks`; a missing entry counts as `true`) -/
structure IterChoice where
  first : Bool
  picks : List Bool
  deriving Repr, DecidableEq

def GEff.resolve (first pick : Bool) (g : GEff) : Eff :=
  match g.cond with
  | .always => g.eff
  | .firstIteration => if first then g.eff else { g.eff with acc := g.alt }
  | .conditional => if pick then g.eff else { g.eff with acc := g.alt }

/-- one pass over the operations.  Outside a loop there is no index: `firstIteration` is then an ordinary run-time choice and
the caller passes it through `picks` as well (see `traceBlock`). -/
def resolveOps (first : Bool) : List Bool → List GEff → List Eff
  | _, [] => []
  | [], g :: rest => g.resolve first true :: resolveOps first [] rest
  | p :: ps, g :: rest => g.resolve first p :: resolveOps first ps rest

/-- the iterations of a loop.  Without skipping, the first executed iteration has index 0 and no later one has; with skipping
each iteration says itself whether its index is 0 (none of them may). -/
def traceLoop (skips : Bool) (ops : List GEff) : Bool → List IterChoice → List Eff
  | _, [] => []
  | head, it :: rest => resolveOps (if skips then it.first else head) it.picks ops ++ traceLoop skips ops false rest

/-- a straight block is passed once (the head of the choice list, default choices if there is none; its `first` flag stands for
the outcome of a stray `firstIteration` test); a loop block once per element of the choice list -/
def traceBlock : Block → List IterChoice → List Eff
  | .straight ops, [] => resolveOps true [] ops
  | .straight ops, it :: _ => resolveOps it.first it.picks ops
  | .loop skips ops, its => traceLoop skips ops true its

/-- an execution of the stage: one choice list per block (missing lists are empty: loops run zero times) -/
def trace : Prog → List (List IterChoice) → List Eff
  | [], _ => []
  | b :: rest, [] => traceBlock b [] ++ trace rest []
  | b :: rest, r :: rs => traceBlock b r ++ trace rest rs

def Acc.isWrite : Acc → Bool
  | .w | .rm => true
  | .a | .r => false

/-- the least any resolution of the operation guarantees: a truncation only if every possible mode truncates.
`first = some b`: the `firstIteration` test is known to be `b`; `none`: not known. -/
def GEff.weak (first : Option Bool) (g : GEff) : Eff :=
  let both := if g.eff.acc.isWrite then (if g.alt.isWrite then g.eff else { g.eff with acc := g.alt }) else g.eff
  match g.cond, first with
  | .always, _ => g.eff
  | .firstIteration, some true => g.eff
  | .firstIteration, some false => { g.eff with acc := g.alt }
  | .firstIteration, none => both
  | .conditional, _ => both

def writes : List Eff → List String
  | [] => []
  | e :: rest => if e.acc.isWrite then e.file :: writes rest else writes rest

/-- truncation dominates every read/append of the block on every path through it -/
def safeBlock (fresh : List String) : Block → Bool
  | .straight ops => safe fresh (ops.map (GEff.weak none))
  | .loop true ops => safe fresh (ops.map (GEff.weak none))
  | .loop false ops =>
      safe fresh (ops.map (GEff.weak (some true))) &&
      safe (writes (ops.map (GEff.weak (some true))) ++ fresh) (ops.map (GEff.weak (some false)))

/-- what is certainly (over)written once the block is behind us: nothing for a loop (it may not run at all) -/
def freshAfter (fresh : List String) : Block → List String
  | .straight ops => writes (ops.map (GEff.weak none)) ++ fresh
  | .loop _ _ => fresh

/-- `safe` on EVERY execution (decidable on the summary; soundness: `ESR.C16.truncation_dominates_every_execution`) -/
def safeAll : List String → Prog → Bool
  | _, [] => true
  | fresh, b :: rest => safeBlock fresh b && safeAll (freshAfter fresh b) rest

end ESR.Effects
