/-
Persistent-state effects of a stage (files in the library / output directories).

A stage is a sequence of file effects interleaved with pure computation.  What is written may depend on
everything read so far (and on the stage's inputs, which are fixed); nothing else survives between stages.
`w` = open(..., 'w') / shell `> file` / np.savetxt (truncate then write), `a` = open(..., 'a'),
`r` = open(..., 'r') / np.loadtxt / `cat file`, `rm` = os.remove / `rm` / source of `mv`.
-/
namespace ESR.Effects

inductive Acc where | w | a | r | rm
  deriving Repr, DecidableEq

structure Eff where
  fn : String
  line : Nat
  file : String
  acc : Acc
  deriving Repr, DecidableEq

/-- every read or append is of a file this same run has already (over)written or removed -/
def safe : List String → List Eff → Bool
  | _, [] => true
  | fresh, e :: rest =>
    match e.acc with
    | .w | .rm => safe (e.file :: fresh) rest
    | .a | .r => fresh.contains e.file && safe fresh rest

abbrev Val := Nat
abbrev Store := String → List Val

/-- a statement: the effect and, for writes/appends, the content as a function of everything read so far -/
structure Stmt where
  eff : Eff
  content : List (List Val) → List Val

def upd (s : Store) (f : String) (v : List Val) : Store := fun g => if g = f then v else s g

def exec : List Stmt → Store → List (List Val) → Store × List (List Val)
  | [], s, env => (s, env)
  | st :: rest, s, env =>
    match st.eff.acc with
    | .w => exec rest (upd s st.eff.file (st.content env)) env
    | .a => exec rest (upd s st.eff.file (s st.eff.file ++ st.content env)) env
    | .r => exec rest s (env ++ [s st.eff.file])
    | .rm => exec rest (upd s st.eff.file []) env

end ESR.Effects
