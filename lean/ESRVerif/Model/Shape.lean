/-
Model of tree-shape enumeration in esr/generation/generator.py.

* `checkTree`      — `check_tree` (l.271-336): left-to-right placement of prefix arities.  The Python climbs
                     parent pointers from a leaf to the nearest binary ancestor with a free right slot; the
                     model keeps those ancestors on a stack (nearest first).  It yields the same observables:
                     `success`, `part_considered` (`s[:i+2]`, `none` for a single node) and the three pointer
                     arrays; `error` where Python raises (`s[0]` nullary with `len(s) > 1`: `tree[None]`).
* `allowedShapes`  — `get_allowed_shapes` (l.339-384): lexicographic `product('012')`, the pre-filter rules
                     (regenerated from the source into `ESR.Gen.Shape.prefilters`), then a pass that checks
                     EVERY candidate (`if not msk[i]: pass` skips nothing) and masks all candidates sharing
                     the failing prefix.
* `slots`/`validShape` — the specification: prefix arity strings of unary-binary trees.
No imports besides the generated table.
-/
import ESRVerif.Generated.Shape
namespace ESR.Shape

/-- Unlabelled unary-binary trees. -/
inductive Tree where
  | leaf : Tree
  | un : Tree → Tree
  | bin : Tree → Tree → Tree
  deriving Repr, DecidableEq

/-- Arities in prefix (pre-order) order. -/
def Tree.pre : Tree → List Nat
  | .leaf => [0]
  | .un c => 1 :: c.pre
  | .bin l r => 2 :: (l.pre ++ r.pre)

def Tree.size : Tree → Nat
  | .leaf => 1
  | .un c => 1 + c.size
  | .bin l r => 1 + l.size + r.size

/-- Slot counter: `k` subtrees are still wanted; `none` if the string goes on after the tree is complete. -/
def slots : List Nat → Nat → Option Nat
  | [], k => some k
  | a :: as, k => if k = 0 then none else slots as (k - 1 + a)

/-- Specification of a valid shape string. -/
def validShape (s : List Nat) : Bool := slots s 1 == some 0

/-! ### check_tree -/

structure St where
  stack : List Nat                 -- binary ancestors with a free right slot, nearest first
  parent : List (Option Nat)
  left : List (Option Nat)
  right : List (Option Nat)
  deriving Repr

/-- One iteration of the `for i in range(len(s)-1)` loop: attach node `i+1`. `none` = `break` with success False. -/
def stepNode (a i : Nat) (st : St) : Option St :=
  if a = 1 ∨ a = 2 then
    some { st with left := st.left.set i (some (i + 1)), parent := st.parent.set (i + 1) (some i),
                   stack := if a = 2 then i :: st.stack else st.stack }
  else match st.stack with
    | [] => none
    | j :: rest => some { st with right := st.right.set j (some (i + 1)), parent := st.parent.set (i + 1) (some j),
                                  stack := rest }

/-- The loop over nodes `i, i+1, …` with arities `as`; returns the final state and the `break` index. -/
def loop : List Nat → Nat → St → St × Option Nat
  | [], _, st => (st, none)
  | a :: as, i, st =>
    match stepNode a i st with
    | none => (st, some i)
    | some st' => loop as (i + 1) st'

inductive Result where
  | error                                                   -- Python raises
  | ok (success : Bool) (part : Option (List Nat)) (parent left right : List (Option Nat))
  deriving Repr

def Result.success : Result → Bool
  | .ok s _ _ _ _ => s
  | .error => false

def Result.part : Result → Option (List Nat)
  | .ok _ p _ _ _ => p
  | .error => none

def initSt (n : Nat) : St :=
  { stack := [], parent := List.replicate n none, left := List.replicate n none, right := List.replicate n none }

/-- The body of `check_tree` for `len(s) > 1` and a unary/binary first node. -/
def checkTreeMain (s : List Nat) : Result :=
  match loop s.dropLast 0 (initSt s.length) with
  | (st, some i) => .ok false (some (s.take (i + 2))) st.parent st.left st.right
  | (st, none) =>
    -- `None in lefts` ⇔ last node is unary/binary; `None in rights` ⇔ a binary is still open or last is binary
    .ok (!(s.getLast?.getD 0 = 1 ∨ s.getLast?.getD 0 = 2) && st.stack.isEmpty) (some s) st.parent st.left st.right

def checkTree (s : List Nat) : Result :=
  if s.length ≤ 1 then
    .ok true none (List.replicate s.length none) (List.replicate s.length none) (List.replicate s.length none)
  else if s.head? ≠ some 1 ∧ s.head? ≠ some 2 then .error
  else checkTreeMain s

/-! ### get_allowed_shapes -/

/-- `itertools.product(alphabet, repeat=n)` — lexicographic, last position fastest. -/
def product {α} (alphabet : List α) : Nat → List (List α)
  | 0 => [[]]
  | n + 1 => alphabet.flatMap (fun a => (product alphabet n).map (fun t => a :: t))

open ESR.Gen.Shape in
/-- One extracted pre-filter rule `cand = cand[cand[:,col] REL const]` under its guard. -/
def Prefilter.holds (r : Prefilter) (s : List Nat) : Bool :=
  if s.length > r.minLenExcl then
    let v := match r.col with
      | .first => s.head?
      | .last => s.reverse.head?          -- cand[:,-1]
      | .penult => s.reverse.tail.head?   -- cand[:,-2]
    match v with
    | none => false
    | some v => if r.ne then v != r.const else v == r.const
  else true

def prefiltered (n : Nat) : List (List Nat) :=
  (product [0, 1, 2] n).filter (fun s => ESR.Gen.Shape.prefilters.all (fun r => Prefilter.holds r s))

/-- The failing prefixes reported by `check_tree` over all candidates (every candidate is checked). -/
def failedParts (cands : List (List Nat)) : List (List Nat) :=
  cands.filterMap (fun s => match checkTree s with
    | .ok false (some p) _ _ _ => some p
    | _ => none)

/-- A candidate survives iff no failing prefix is a prefix of it. -/
def allowedShapes (n : Nat) : List (List Nat) :=
  let cands := prefiltered n
  let bad := failedParts cands
  cands.filter (fun s => !(bad.any (fun p => p.isPrefixOf s)))

end ESR.Shape
