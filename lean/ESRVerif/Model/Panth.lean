import ESRVerif.Generated.Panth
/-!
Model of `PanthLikelihood.get_pred` / `clear_data` (esr/fitting/likelihood.py:216-263).

Everything is polymorphic in a carrier `α` with `+ - * /`, a cast from `Nat`, a decidable `<` and a boolean `==`
(instances: `Float` in the driver, any linearly ordered field in the theorems).  `sqrt`, `log10` and
`int(np.ceil(.))` are passed in `Cfg` as plain functions: no theorem depends on what they compute.

* `linspace`      — `numpy.linspace(start, stop, num)` (endpoint=True): `arange(num) * ((stop-start)/(num-1)) + start`,
                    last element overwritten by `stop`; `num = 1` gives `[0*(stop-start) + start]`, `num = 0` gives `[]`.
                    (numpy's `step == 0` special case computes `i/div*delta`, which is the same value `0`.)
* `minL`/`maxL`   — `zp1.min()`, `zp1.max()`; `none` is numpy's ValueError on an empty array.  NaN is not modelled.
* `sortUnique`    — `np.sort(np.unique(.))` (l.245): the strictly increasing list of the distinct values.  Written as
                    repeated ordered insertion that drops an element already present; numpy sorts and then drops elements
                    equal to their predecessor, and the second `np.sort` is the identity — same list for NaN-free input.
* `grid`          — l.240-245: `nx = int(ceil((max-min)/delta_z))`,
                    `concatenate((linspace(K, min, min_nz), linspace(min+dz, max+dz, nx), zp1))`, unique, sort.
                    `none` where Python raises (empty sample, `int()` of inf/nan, negative `num`).
* `whereEq`, `mask` — l.246: `np.squeeze(np.array([np.where(data_x == d)[0] for d in zp1]))`.  `none` when some row is
                    not exactly one index (numpy then builds a ragged/empty 2-d array and the later indexing does not
                    produce one value per data point).
* `cumtrapz`      — `scipy.integrate.cumulative_trapezoid(y, x=x, initial=0)`:
                    `concat([0], cumsum(diff(x) * (y[1:] + y[:-1]) / 2.0))`; without `initial` the leading 0 is absent
                    (`Gen.cumInitialZero`, regenerated from the call site).
* `select`        — `dL[self.data_mask]`; `none` is IndexError.
* `scaleBroadcast`— `dL *= zp1` (l.260) with numpy's shape rules for the cases that can occur with a stale cache:
                    a mask built from ONE data point is 0-d after `squeeze`, so `dL` is a scalar and `dL *= zp1` rebinds it
                    to an array of `zp1`'s shape; otherwise shapes must agree or `zp1` has length 1; else ValueError = `none`.
* `State`, `clearData`, `ensureGrid`, `getPred`, `getPredIntegrated` — the cache logic of l.216-219, 239-246 and the
                    two branches of `get_pred`.  An error result (`none`) does not model the state Python leaves behind.

Pointwise assumption: `eq_numpy(data_x, *a)` is modelled as `F` applied to every grid point (true for lambdified numpy
functions; a scalar result is broadcast by l.254-255, which is the pointwise constant function).
-/
namespace ESR.Panth


section
variable {α : Type} [Add α] [Sub α] [Mul α] [Div α] [NatCast α] [LT α] [DecidableLT α] [BEq α]

/-- `numpy.linspace(start, stop, num)`. -/
def linspace (start stop : α) : Nat → List α
  | 0 => []
  | 1 => [((0 : Nat) : α) * (stop - start) + start]
  | n + 2 =>
    (List.range (n + 1)).map (fun i => ((i : Nat) : α) * ((stop - start) / ((n + 1 : Nat) : α)) + start) ++ [stop]

/-- `zp1.min()`; `none` on the empty array. -/
def minL : List α → Option α
  | [] => none
  | a :: l => some (l.foldl (fun m x => if x < m then x else m) a)

/-- `zp1.max()`; `none` on the empty array. -/
def maxL : List α → Option α
  | [] => none
  | a :: l => some (l.foldl (fun m x => if m < x then x else m) a)

/-- Ordered insertion into a strictly increasing list; an element already present is dropped. -/
def insertU (x : α) : List α → List α
  | [] => [x]
  | y :: ys => if x < y then x :: y :: ys else if x == y then y :: ys else y :: insertU x ys

/-- `np.sort(np.unique(l))`. -/
def sortUnique (l : List α) : List α := l.foldr insertU []

/-- Numeric environment of one likelihood instance. -/
structure Cfg (α : Type) where
  deltaZ : α
  minNz : Nat
  start : α
  muConst : α
  /-- `int(np.ceil(x))`; `none` where Python raises or `linspace` rejects the count. -/
  ceilNat : α → Option Nat
  sqrt : α → α
  log10 : α → α

/-- The instance attributes as the constructor sets them (regenerated constants). -/
def Cfg.shipped (ceilNat : α → Option Nat) (sqrt log10 : α → α) : Cfg α :=
  { deltaZ := Gen.Panth.deltaZ, minNz := Gen.Panth.minNz, start := ((Gen.Panth.gridStart : Nat) : α),
    muConst := Gen.Panth.muConst log10, ceilNat := ceilNat, sqrt := sqrt, log10 := log10 }

/-- The array handed to `np.unique` (l.240-244). -/
def rawGrid (c : Cfg α) (zp1 : List α) : Option (List α) :=
  match minL zp1, maxL zp1 with
  | some lo, some hi =>
    match c.ceilNat ((hi - lo) / c.deltaZ) with
    | some nx => some (linspace c.start lo c.minNz ++ linspace (lo + c.deltaZ) (hi + c.deltaZ) nx ++ zp1)
    | none => none
  | _, _ => none

/-- `self.data_x` after l.245. -/
def grid (c : Cfg α) (zp1 : List α) : Option (List α) := (rawGrid c zp1).map sortUnique

/-- `np.where(g == d)[0]`, indices counted from `k`. -/
def whereEqFrom (d : α) : Nat → List α → List Nat
  | _, [] => []
  | k, y :: ys => if y == d then k :: whereEqFrom d (k + 1) ys else whereEqFrom d (k + 1) ys

def whereEq (g : List α) (d : α) : List Nat := whereEqFrom d 0 g

/-- `self.data_mask` (l.246) as a vector of indices, one per data point. -/
def mask (g zp1 : List α) : Option (List Nat) :=
  zp1.mapM (fun d => match whereEq g d with | [k] => some k | _ => none)

/-- `np.diff(x)`. -/
def diffs : List α → List α
  | a :: b :: t => (b - a) :: diffs (b :: t)
  | _ => []

/-- `y[1:] + y[:-1]`. -/
def pairSums : List α → List α
  | a :: b :: t => (b + a) :: pairSums (b :: t)
  | _ => []

/-- `d * (y[1:] + y[:-1]) / 2.0`. -/
def trapTerms (xs ys : List α) : List α :=
  List.zipWith (fun d s => d * s / ((2 : Nat) : α)) (diffs xs) (pairSums ys)

def cumsumFrom (acc : α) : List α → List α
  | [] => []
  | t :: ts => (acc + t) :: cumsumFrom (acc + t) ts

/-- `np.cumsum`. -/
def cumsum : List α → List α
  | [] => []
  | t :: ts => t :: cumsumFrom t ts

/-- `scipy.integrate.cumulative_trapezoid(ys, x=xs, initial=0)` (or without `initial`, as the call site says). -/
def cumtrapz (xs ys : List α) : List α :=
  if Gen.Panth.cumInitialZero then ((0 : Nat) : α) :: cumsum (trapTerms xs ys) else cumsum (trapTerms xs ys)

/-- `v[m]` for an index vector; `none` is IndexError. -/
def select (v : List α) (m : List Nat) : Option (List α) := m.mapM (fun k => v[k]?)

/-- `dL *= zp1`. -/
def scaleBroadcast (sel zp1 : List α) : Option (List α) :=
  if sel.length = zp1.length then some (List.zipWith Gen.Panth.scale sel zp1)
  else match sel, zp1 with
    | [d], _ => some (zp1.map (fun z => Gen.Panth.scale d z))
    | _, [z] => some (sel.map (fun d => Gen.Panth.scale d z))
    | _, _ => none

/-- The cached attributes. -/
structure State (α : Type) where
  dataX : Option (List α) := none
  dataMask : Option (List Nat) := none

/-- `clear_data` (which attributes it resets is regenerated from the source). -/
def clearData (s : State α) : State α :=
  { dataX := if Gen.Panth.clearsDataX then none else s.dataX,
    dataMask := if Gen.Panth.clearsDataMask then none else s.dataMask }

/-- l.239-246: build grid and mask from `zp1` iff one of them is `None`. -/
def ensureGrid (c : Cfg α) (s : State α) (zp1 : List α) : Option (State α) :=
  if s.dataX.isNone || s.dataMask.isNone then
    match grid c zp1 with
    | none => none
    | some g =>
      match mask g zp1 with
      | none => none
      | some m => some { dataX := some g, dataMask := some m }
  else some s

/-- The cumulative integral at the data points before `dL *= zp1` (l.248-258). -/
def dLNumeric (c : Cfg α) (g : List α) (m : List Nat) (F : α → α) : Option (List α) :=
  select (cumtrapz g (g.map (Gen.Panth.integrand c.sqrt F))) m

/-- `get_pred(zp1, a, eq_numpy, integrated=False)`: new state and `mu`. -/
def getPred (c : Cfg α) (s : State α) (zp1 : List α) (F : α → α) : Option (State α × List α) :=
  match ensureGrid c s zp1 with
  | some ⟨some g, some m⟩ =>
    match dLNumeric c g m F with
    | none => none
    | some sel =>
      match scaleBroadcast sel zp1 with
      | none => none
      | some v => some (⟨some g, some m⟩, v.map (fun d => Gen.Panth.mu c.log10 d c.muConst))
  | _ => none

/-- `get_pred(zp1, a, eq_numpy, integrated=True)`: the cache is neither read nor written. -/
def getPredIntegrated (c : Cfg α) (zp1 : List α) (F : α → α) : List α :=
  zp1.map (fun z => Gen.Panth.mu c.log10 (Gen.Panth.scale (Gen.Panth.analytic F z) z) c.muConst)

end
end ESR.Panth
