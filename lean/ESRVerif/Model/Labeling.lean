/-
Model of the labelling stage of esr/generation/generator.py `shape_to_functions` (l.1491-1585) and of the
order in which `generate_equations` (l.1637-1745) emits original trees.

* `rows`            — `itertools.product(basis_functions[k], repeat=n_k)`
* `renumberRow`     — "Rename parameters so appear in order": the j-th 'a' of a nullary row becomes 'a{j}'
* `fill`            — `labels[m0] = t0[i,:]; labels[m1] = t1[j,:]; labels[m2] = t2[k,:]` (prefix order)
* `shapeToTrees`    — loop nest i (nullary rows) → j (unary rows) → k (binary rows): the order of `all_tree`
* `generate`        — shapes in `get_allowed_shapes` order, trees of each shape in that order
* `Basis.WellFormed` — decidable side condition under which the output is duplicate-free (Props/C01c.lean)
-/
import ESRVerif.Model.Shape
namespace ESR.Labeling
open ESR.Shape

/-- `np.sum(s == k)` -/
def countArity (s : List Nat) (k : Nat) : Nat := (s.filter (· == k)).length

/-- Rename the occurrences of `"a"` to `a0, a1, …` in order; `k` is the next free index. -/
def renumberFrom : Nat → List String → List String
  | _, [] => []
  | k, l :: ls => if l = "a" then ("a" ++ toString k) :: renumberFrom (k + 1) ls else l :: renumberFrom k ls

def renumberRow (row : List String) : List String := renumberFrom 0 row

/-- Distribute the three rows over the positions of `s` by arity (a position of any other arity keeps numpy's
`'None'`; such shapes never reach this function). -/
def fill : List Nat → List String → List String → List String → List String
  | [], _, _, _ => []
  | 0 :: s, x :: r0, r1, r2 => x :: fill s r0 r1 r2
  | 1 :: s, r0, x :: r1, r2 => x :: fill s r0 r1 r2
  | 2 :: s, r0, r1, x :: r2 => x :: fill s r0 r1 r2
  | _ :: s, r0, r1, r2 => "None" :: fill s r0 r1 r2

structure Basis where
  b0 : List String
  b1 : List String
  b2 : List String
  deriving Repr

def Basis.cls (b : Basis) : Nat → List String
  | 0 => b.b0
  | 1 => b.b1
  | 2 => b.b2
  | _ => []

/-- `all_tree` of `shape_to_functions(s, basis)`, in order of `pos`. -/
def shapeToTrees (s : List Nat) (b : Basis) : List (List String) :=
  let t0 := (product b.b0 (countArity s 0)).map renumberRow
  let t1 := product b.b1 (countArity s 1)
  let t2 := product b.b2 (countArity s 2)
  t0.flatMap fun r0 => t1.flatMap fun r1 => t2.map fun r2 => fill s r0 r1 r2

/-- Original trees of complexity `n`, in the order of `orig_trees_<n>.txt`. -/
def generate (n : Nat) (b : Basis) : List (List String) :=
  (allowedShapes n).flatMap fun s => shapeToTrees s b

/-- "Original number of trees" as printed by `generate_equations`. -/
def nTrees (n : Nat) (b : Basis) : Nat :=
  ((allowedShapes n).map fun s =>
    b.b0.length ^ countArity s 0 * b.b1.length ^ countArity s 1 * b.b2.length ^ countArity s 2).sum

/-! ### side condition on a basis (not part of the Python; hypothesis of `ESR.C01.generate_nodup`) -/

/-- `l` is `"a"` followed by at least one character, all of them decimal digits: the form of a renumbered
parameter `a0, a1, …`. -/
def isParamName (l : String) : Bool :=
  match l.toList with
  | 'a' :: d :: ds => (d :: ds).all Char.isDigit
  | _ => false

/-- Side condition on a basis under which the labelled output is duplicate-free (decidable; every shipped basis
satisfies it, see `Props/C01c.lean`):
the three classes are duplicate-free and pairwise disjoint, `"a"` occurs in no class other than the nullary
one, and no label has the form `a<digits>` (so `a ↦ a0, a1, …` cannot collide with a basis label). -/
def Basis.WellFormed (b : Basis) : Prop :=
  b.b0.Nodup ∧ b.b1.Nodup ∧ b.b2.Nodup ∧
  (∀ x ∈ b.b0, x ∉ b.b1 ∧ x ∉ b.b2) ∧ (∀ x ∈ b.b1, x ∉ b.b2) ∧
  "a" ∉ b.b1 ∧ "a" ∉ b.b2 ∧
  (∀ x ∈ b.b0 ++ b.b1 ++ b.b2, isParamName x = false)

instance (b : Basis) : Decidable b.WellFormed := by unfold Basis.WellFormed; infer_instance

end ESR.Labeling
