/-
Deep embedding of the numpy fragment used by the likelihood classes of
esr/fitting/likelihood.py, and ONE interpreter for it, polymorphic in the number operations.

What is embedded (the embedded terms themselves are *regenerated from the source* on every run
by harness/extractors/nll.py into ESRVerif/Generated/NLL.lean):

* `Expr`/`BExpr`/`Cond`/`Stmt`  — the bodies of `CCLikelihood.negloglike` (l.144-162),
  `MockLikelihood.negloglike` (l.376-393), `MSE.negloglike` (l.422-442),
  `GaussLikelihood.negloglike` (l.463-482), `PoissonLikelihood.negloglike` (l.503-522):
  assignments, `if <cond>: return <e>`, `return <e>`; numpy calls `np.sum/mean/log/sqrt/isreal/
  isnan/all/any`, `+ - * /`, `** 2`, literals, `np.pi`, `np.inf`, `self.yvar/yerr/inv_cov`.
* `Wrap` — the class's `get_pred`: `Likelihood.get_pred` (l.57-72) is `try: return eq_numpy(x,*a)
  except Exception: return np.inf`; `CCLikelihood/MockLikelihood.get_pred` (l.129-141, 361-373) are
  `return np.sqrt(eq_numpy(zp1,*a))` with NO handler.
* the call `eq_numpy(x, *a)` itself is a black box: `Env.call` says whether it raised or which
  array/scalar it returned.  Model function and parameter vector enter only through it.

Interpreter quirks that are modelled on purpose:
* numpy broadcasting: scalar against vector, and a length-1 vector against any vector; other
  length mismatches raise (`none`);
* `np.sum(scalar) = scalar`, `np.mean([]) = 0/0 = NaN`, `np.sum([]) = 0`;
* `if <array>:` raises for an array whose size is not 1;
* Python's `or`/`and` short-circuit;
* a Python exception anywhere is `none` (never totalised silently).

Two instances of `NumOps`:
* `CF`  — executable: IEEE doubles with an imaginary part and a complex-dtype flag (numpy's
  float64 / complex128); used only by the driver for correspondence.
* `Val R` — the proof instance: `real r | +inf | -inf | NaN | cplx` over any carrier `R` with the
  operations of `RealLike` (instantiated with ℝ in Proofs/NLL.lean).  IEEE special-value
  propagation; finite operands are exact (no rounding, no overflow, no signed zero).
  `cplx` is a *marker*: "this element has a non-zero imaginary part", which is precisely what
  `np.isreal` tests (`imag == 0`).  A complex-dtype number with zero imaginary part is not
  distinguished from a float by `Val` (it is by `CF`).  Arithmetic on `cplx` yields `cplx`; this is
  a coarse over-approximation (numpy can cancel an imaginary part, e.g. `(1+1j)*0`), harmless for
  the theorems because they show every class returns before doing arithmetic on a `cplx` operand
  (only `np.sqrt`, which maps non-real to non-real, is applied first).
No imports: this file is linked into the `esrmodel` executable.
-/
namespace ESR.NLL

/-! ### syntax -/

inductive Data where
  | yvar | yerr | invCov
  deriving DecidableEq, Repr

inductive Cmp where
  | lt | le | gt | ge
  deriving DecidableEq, Repr

inductive Expr where
  | call                        -- `eq_numpy(x, *a)`; meaningful only inside a `get_pred` wrapper
  | getPred                     -- `self.get_pred(self.xvar, np.atleast_1d(a), eq_numpy)`
  | loc (i : Nat)               -- i-th local variable (numbered by first assignment)
  | data (d : Data)             -- `self.yvar`, `self.yerr`, `self.inv_cov`
  | num (n : Int) (d : Nat)     -- numeric literal n/d
  | pi                          -- `np.pi`
  | inf                         -- `np.inf`
  | add (a b : Expr)
  | sub (a b : Expr)
  | mul (a b : Expr)
  | div (a b : Expr)
  | neg (a : Expr)
  | sq (a : Expr)               -- `a ** 2`
  | log (a : Expr)
  | sqrt (a : Expr)
  | sum (a : Expr)
  | mean (a : Expr)
  deriving DecidableEq, Repr

inductive BExpr where
  | isreal (e : Expr)
  | isnan (e : Expr)
  | cmp (op : Cmp) (a b : Expr)
  deriving DecidableEq, Repr

inductive Cond where
  | all (b : BExpr)             -- `np.all(b)` / `b.all()`
  | any (b : BExpr)             -- `np.any(b)` / `b.any()`
  | truth (b : BExpr)           -- `if b:` (Python truth value of a numpy bool / bool array)
  | not (c : Cond)
  | or (a b : Cond)
  | and (a b : Cond)
  deriving DecidableEq, Repr

inductive Stmt where
  | assign (i : Nat) (e : Expr)
  | ifRet (c : Cond) (e : Expr)   -- `if c: return e`
  | ret (e : Expr)
  deriving DecidableEq, Repr

/-- A `get_pred` method: `body` (with `.call` for the model function) and the expression
returned by `except Exception:` if there is a handler. -/
structure Wrap where
  body : Expr
  onExc : Option Expr
  deriving DecidableEq, Repr

structure Cls where
  pred : Wrap
  body : List Stmt
  deriving DecidableEq, Repr

/-! ### values -/

class NumOps (α : Type) where
  ofRat : Int → Nat → α
  ofNat : Nat → α
  pi : α
  inf : α
  add : α → α → α
  sub : α → α → α
  mul : α → α → α
  div : α → α → α
  neg : α → α
  sq : α → α
  log : α → α
  sqrt : α → α
  isReal : α → Bool
  isNaN : α → Bool
  lt : α → α → Bool
  le : α → α → Bool

inductive Arr (α : Type) where
  | scalar (a : α)
  | vec (xs : List α)
  deriving Repr

namespace Arr

def map₁ {α β} (f : α → β) : Arr α → Arr β
  | scalar a => scalar (f a)
  | vec xs => vec (xs.map f)

/-- numpy broadcasting of a binary ufunc; `none` = "operands could not be broadcast together". -/
def map₂ {α β γ} (f : α → β → γ) : Arr α → Arr β → Option (Arr γ)
  | scalar a, scalar b => some (scalar (f a b))
  | scalar a, vec ys => some (vec (ys.map (f a)))
  | vec xs, scalar b => some (vec (xs.map (fun x => f x b)))
  | vec xs, vec ys =>
    if xs.length = ys.length then some (vec (List.zipWith f xs ys))
    else match xs, ys with
      | [a], ys => some (vec (ys.map (f a)))
      | xs, [b] => some (vec (xs.map (fun x => f x b)))
      | _, _ => none

def all : Arr Bool → Bool
  | scalar b => b
  | vec bs => bs.all id

def any : Arr Bool → Bool
  | scalar b => b
  | vec bs => bs.any id

/-- `bool(arr)`: defined for scalars and size-1 arrays only. -/
def truth : Arr Bool → Option Bool
  | scalar b => some b
  | vec [b] => some b
  | vec _ => none

/-- the elements, whatever the shape -/
def elems {α} : Arr α → List α
  | scalar a => [a]
  | vec xs => xs

def hasNaN {α} [NumOps α] : Arr α → Bool
  | scalar a => NumOps.isNaN a
  | vec xs => xs.any NumOps.isNaN

end Arr

variable {α : Type} [NumOps α]

def sumList (xs : List α) : α := xs.foldl NumOps.add (NumOps.ofRat 0 1)

def Arr.sum : Arr α → α
  | .scalar a => a
  | .vec xs => sumList xs

def Arr.mean : Arr α → α
  | .scalar a => a
  | .vec xs => NumOps.div (sumList xs) (NumOps.ofNat xs.length)

inductive Pred (α : Type) where
  | raises
  | val (v : Arr α)

structure Env (α : Type) where
  yvar : List α
  yerr : List α
  invCov : List α
  call : Pred α

def Env.data (env : Env α) : Data → List α
  | .yvar => env.yvar
  | .yerr => env.yerr
  | .invCov => env.invCov

/-! ### the interpreter -/

/-- `callV`: value of `eq_numpy(x,*a)` (or `none` where it is not in scope / raised);
`predV`: value of `self.get_pred(...)` (or `none`). -/
def evalExpr (env : Env α) (callV predV : Option (Arr α)) (locs : List (Arr α)) : Expr → Option (Arr α)
  | .call => callV
  | .getPred => predV
  | .loc i => locs[i]?
  | .data d => some (.vec (env.data d))
  | .num n d => some (.scalar (NumOps.ofRat n d))
  | .pi => some (.scalar NumOps.pi)
  | .inf => some (.scalar NumOps.inf)
  | .add a b => do Arr.map₂ NumOps.add (← evalExpr env callV predV locs a) (← evalExpr env callV predV locs b)
  | .sub a b => do Arr.map₂ NumOps.sub (← evalExpr env callV predV locs a) (← evalExpr env callV predV locs b)
  | .mul a b => do Arr.map₂ NumOps.mul (← evalExpr env callV predV locs a) (← evalExpr env callV predV locs b)
  | .div a b => do Arr.map₂ NumOps.div (← evalExpr env callV predV locs a) (← evalExpr env callV predV locs b)
  | .neg a => do some (Arr.map₁ NumOps.neg (← evalExpr env callV predV locs a))
  | .sq a => do some (Arr.map₁ NumOps.sq (← evalExpr env callV predV locs a))
  | .log a => do some (Arr.map₁ NumOps.log (← evalExpr env callV predV locs a))
  | .sqrt a => do some (Arr.map₁ NumOps.sqrt (← evalExpr env callV predV locs a))
  | .sum a => do some (.scalar (Arr.sum (← evalExpr env callV predV locs a)))
  | .mean a => do some (.scalar (Arr.mean (← evalExpr env callV predV locs a)))

def cmpOp (op : Cmp) (a b : α) : Bool :=
  match op with
  | .lt => NumOps.lt a b
  | .le => NumOps.le a b
  | .gt => NumOps.lt b a
  | .ge => NumOps.le b a

def evalB (env : Env α) (predV : Option (Arr α)) (locs : List (Arr α)) : BExpr → Option (Arr Bool)
  | .isreal e => do some (Arr.map₁ NumOps.isReal (← evalExpr env none predV locs e))
  | .isnan e => do some (Arr.map₁ NumOps.isNaN (← evalExpr env none predV locs e))
  | .cmp op a b => do Arr.map₂ (cmpOp op) (← evalExpr env none predV locs a) (← evalExpr env none predV locs b)

def evalCond (env : Env α) (predV : Option (Arr α)) (locs : List (Arr α)) : Cond → Option Bool
  | .all b => do some (Arr.all (← evalB env predV locs b))
  | .any b => do some (Arr.any (← evalB env predV locs b))
  | .truth b => do Arr.truth (← evalB env predV locs b)
  | .not c => do some (!(← evalCond env predV locs c))
  | .or a b => do if (← evalCond env predV locs a) then some true else evalCond env predV locs b
  | .and a b => do if (← evalCond env predV locs a) then evalCond env predV locs b else some false

/-- `locs[i] = v`; locals are numbered by first assignment, so a new one has `i = locs.length`. -/
def setLoc (locs : List (Arr α)) (i : Nat) (v : Arr α) : List (Arr α) :=
  if i < locs.length then locs.set i v else locs ++ [v]

/-- Statement list → returned value; `none` = an exception escaped (or fell off the end). -/
def runStmts (env : Env α) (predV : Option (Arr α)) : List (Arr α) → List Stmt → Option (Arr α)
  | _, [] => none
  | locs, .assign i e :: rest =>
    match evalExpr env none predV locs e with
    | none => none
    | some v => runStmts env predV (setLoc locs i v) rest
  | locs, .ifRet c e :: rest =>
    match evalCond env predV locs c with
    | none => none
    | some true => evalExpr env none predV locs e
    | some false => runStmts env predV locs rest
  | locs, .ret e :: _ => evalExpr env none predV locs e

def Pred.toOption : Pred α → Option (Arr α)
  | .raises => none
  | .val v => some v

/-- Value of `self.get_pred(self.xvar, np.atleast_1d(a), eq_numpy)`. -/
def predValue (w : Wrap) (env : Env α) : Option (Arr α) :=
  match evalExpr env env.call.toOption none [] w.body with
  | some v => some v
  | none => match w.onExc with
    | none => none
    | some e => evalExpr env none none [] e

/-- `cls.negloglike(a, eq_numpy)`; `none` = raises. -/
def run (cls : Cls) (env : Env α) : Option (Arr α) :=
  runStmts env (predValue cls.pred env) [] cls.body

/-- `self.inv_cov` as `__init__` computes it from `self.yerr` (expression `e` over `.data .yerr`). -/
def invCovOf (e : Expr) (yerr : List α) : List α :=
  match evalExpr { yvar := [], yerr := yerr, invCov := [], call := .raises } none none [] e with
  | some (.vec xs) => xs
  | _ => []

/-- Syntactic check used by `nll_never_nan`: every value a statement list can return is `np.inf`
or a local that was tested with `if np.isnan(<it>): return np.inf` immediately before. -/
def safeRet : List Stmt → Bool
  | [] => true
  | .assign _ _ :: rest => safeRet rest
  | .ifRet c e :: rest =>
    e == .inf && (safeRet rest ||
      match rest with
      | .ret (.loc k) :: _ => c == .truth (.isnan (.loc k))
      | _ => false)
  | .ret e :: _ => e == .inf

/-! ### proof instance: extended reals with NaN and a complex marker -/

/-- Operations on the carrier of finite reals (laws are supplied for ℝ in Proofs/NLL.lean). -/
class RealLike (R : Type) where
  zero : R
  ofRat : Int → Nat → R
  ofNat : Nat → R
  pi : R
  add : R → R → R
  sub : R → R → R
  mul : R → R → R
  div : R → R → R
  neg : R → R
  log : R → R
  sqrt : R → R
  lt : R → R → Bool

inductive Val (R : Type) where
  | real (r : R)
  | pinf
  | ninf
  | nan
  | cplx
  deriving Repr

namespace Val
variable {R : Type} [RealLike R]
open RealLike

inductive Sign where
  | pos | zero | neg
  deriving DecidableEq

def sign (a : R) : Sign :=
  if lt RealLike.zero a then .pos else if lt a RealLike.zero then .neg else .zero

def vneg : Val R → Val R
  | real a => real (RealLike.neg a)
  | pinf => ninf
  | ninf => pinf
  | nan => nan
  | cplx => cplx

def vadd : Val R → Val R → Val R
  | cplx, _ => cplx
  | _, cplx => cplx
  | nan, _ => nan
  | _, nan => nan
  | real a, real b => real (RealLike.add a b)
  | real _, pinf => pinf
  | real _, ninf => ninf
  | pinf, real _ => pinf
  | ninf, real _ => ninf
  | pinf, pinf => pinf
  | ninf, ninf => ninf
  | pinf, ninf => nan
  | ninf, pinf => nan

def vsub : Val R → Val R → Val R
  | cplx, _ => cplx
  | _, cplx => cplx
  | nan, _ => nan
  | _, nan => nan
  | real a, real b => real (RealLike.sub a b)
  | real _, pinf => ninf
  | real _, ninf => pinf
  | pinf, real _ => pinf
  | ninf, real _ => ninf
  | pinf, ninf => pinf
  | ninf, pinf => ninf
  | pinf, pinf => nan
  | ninf, ninf => nan

/-- `±inf` times a finite `a`. -/
def infTimes (positive : Bool) (a : R) : Val R :=
  match sign a with
  | .pos => if positive then pinf else ninf
  | .neg => if positive then ninf else pinf
  | .zero => nan

def vmul : Val R → Val R → Val R
  | cplx, _ => cplx
  | _, cplx => cplx
  | nan, _ => nan
  | _, nan => nan
  | real a, real b => real (RealLike.mul a b)
  | real a, pinf => infTimes true a
  | real a, ninf => infTimes false a
  | pinf, real b => infTimes true b
  | ninf, real b => infTimes false b
  | pinf, pinf => pinf
  | ninf, ninf => pinf
  | pinf, ninf => ninf
  | ninf, pinf => ninf

/-- finite / finite.  The model has no signed zero: `x/0` takes the sign of `x`, `0/0 = NaN`. -/
def divFin (a b : R) : Val R :=
  match sign b with
  | .zero => (match sign a with | .pos => pinf | .neg => ninf | .zero => nan)
  | _ => real (RealLike.div a b)

/-- `±inf / finite` (`inf/0 = inf`, again no signed zero). -/
def infOver (positive : Bool) (b : R) : Val R :=
  match sign b with
  | .neg => if positive then ninf else pinf
  | _ => if positive then pinf else ninf

/-- IEEE division. -/
def vdiv : Val R → Val R → Val R
  | cplx, _ => cplx
  | _, cplx => cplx
  | nan, _ => nan
  | _, nan => nan
  | real a, real b => divFin a b
  | real _, pinf => real RealLike.zero
  | real _, ninf => real RealLike.zero
  | pinf, real b => infOver true b
  | ninf, real b => infOver false b
  | pinf, pinf => nan
  | ninf, ninf => nan
  | pinf, ninf => nan
  | ninf, pinf => nan

def vsq : Val R → Val R
  | real a => real (RealLike.mul a a)
  | pinf => pinf
  | ninf => pinf
  | nan => nan
  | cplx => cplx

/-- `np.log` of a finite float64: `log 0 = -inf`, `log (negative) = NaN`. -/
def logFin (a : R) : Val R :=
  match sign a with
  | .pos => real (RealLike.log a)
  | .zero => ninf
  | .neg => nan

def vlog : Val R → Val R
  | real a => logFin a
  | pinf => pinf
  | ninf => nan
  | nan => nan
  | cplx => cplx

/-- `np.sqrt` of a finite float64 (`sqrt (negative) = NaN`). -/
def sqrtFin (a : R) : Val R :=
  match sign a with
  | .neg => nan
  | _ => real (RealLike.sqrt a)

/-- `np.sqrt`; on a non-real complex number the result stays non-real. -/
def vsqrt : Val R → Val R
  | real a => sqrtFin a
  | pinf => pinf
  | ninf => nan
  | nan => nan
  | cplx => cplx

def visReal : Val R → Bool
  | cplx => false
  | _ => true

def visNaN : Val R → Bool
  | nan => true
  | _ => false

/-- IEEE `<` (false on NaN); on `cplx` the model says false (numpy orders complex numbers
lexicographically; no class compares before testing `isreal`). -/
def vlt : Val R → Val R → Bool
  | real a, real b => RealLike.lt a b
  | real _, pinf => true
  | ninf, real _ => true
  | ninf, pinf => true
  | _, _ => false

def vle : Val R → Val R → Bool
  | real a, real b => !(RealLike.lt b a)
  | real _, pinf => true
  | ninf, real _ => true
  | ninf, pinf => true
  | pinf, pinf => true
  | ninf, ninf => true
  | _, _ => false

instance : NumOps (Val R) where
  ofRat n d := real (RealLike.ofRat n d)
  ofNat n := real (RealLike.ofNat n)
  pi := real RealLike.pi
  inf := pinf
  add := vadd
  sub := vsub
  mul := vmul
  div := vdiv
  neg := vneg
  sq := vsq
  log := vlog
  sqrt := vsqrt
  isReal := visReal
  isNaN := visNaN
  lt := vlt
  le := vle

end Val

/-! ### executable instance: float64 / complex128 -/

/-- A numpy element: `c = false` float64 (`im` unused, 0), `c = true` complex128. -/
structure CF where
  re : Float
  im : Float
  c : Bool

namespace CF

def ofFloat (x : Float) : CF := ⟨x, 0.0, false⟩
def fnan : Float := 0.0 / 0.0
def finf : Float := 1.0 / 0.0

def signbit (x : Float) : Bool := (x.toBits >>> 63) == 1
def copysign (x s : Float) : Float := if signbit s then -(x.abs) else x.abs

def hypot (a b : Float) : Float :=
  let a := a.abs
  let b := b.abs
  if a.isInf || b.isInf then finf
  else if a.isNaN || b.isNaN then fnan
  else
    let m := if a < b then b else a
    if m == 0.0 then 0.0 else
      let x := a / m
      let y := b / m
      m * Float.sqrt (x * x + y * y)

def add (a b : CF) : CF :=
  if !a.c && !b.c then ofFloat (a.re + b.re) else ⟨a.re + b.re, a.im + b.im, true⟩
def sub (a b : CF) : CF :=
  if !a.c && !b.c then ofFloat (a.re - b.re) else ⟨a.re - b.re, a.im - b.im, true⟩
def mul (a b : CF) : CF :=
  if !a.c && !b.c then ofFloat (a.re * b.re)
  else ⟨a.re * b.re - a.im * b.im, a.re * b.im + a.im * b.re, true⟩

/-- numpy's complex division (Smith's algorithm, `nc_quot`/loops). -/
def div (a b : CF) : CF :=
  if !a.c && !b.c then ofFloat (a.re / b.re)
  else
    let br := b.re; let bi := b.im
    if br.abs >= bi.abs then
      if br == 0.0 && bi == 0.0 then ⟨a.re / br.abs, a.im / bi.abs, true⟩
      else
        let rat := bi / br
        let scl := 1.0 / (br + bi * rat)
        ⟨(a.re + a.im * rat) * scl, (a.im - a.re * rat) * scl, true⟩
    else
      let rat := br / bi
      let scl := 1.0 / (bi + br * rat)
      ⟨(a.re * rat + a.im) * scl, (a.im * rat - a.re) * scl, true⟩

def neg (a : CF) : CF := if a.c then ⟨-a.re, -a.im, true⟩ else ofFloat (-a.re)

def sq (a : CF) : CF :=
  if a.c then ⟨a.re * a.re - a.im * a.im, a.re * a.im + a.im * a.re, true⟩ else ofFloat (a.re * a.re)

def log (a : CF) : CF :=
  if a.c then ⟨Float.log (hypot a.re a.im), Float.atan2 a.im a.re, true⟩ else ofFloat (Float.log a.re)

/-- C99 `csqrt` (the msun algorithm numpy ships), without the overflow rescaling. -/
def csqrt (a b : Float) : Float × Float :=
  if a == 0.0 && b == 0.0 then (0.0, b)
  else if b.isInf then (finf, b)
  else if a.isNaN then (a, fnan)
  else if a.isInf then
    if signbit a then ((b - b).abs, copysign a b) else (a, copysign (b - b) b)
  else if b.isNaN then (fnan, fnan)
  else if a >= 0.0 then
    let t := Float.sqrt ((a + hypot a b) * 0.5)
    (t, b / (2.0 * t))
  else
    let t := Float.sqrt ((-a + hypot a b) * 0.5)
    (b.abs / (2.0 * t), copysign t b)

def sqrt (a : CF) : CF :=
  if a.c then let (r, i) := csqrt a.re a.im; ⟨r, i, true⟩ else ofFloat (Float.sqrt a.re)

def isReal (a : CF) : Bool := if a.c then a.im == 0.0 else true
def isNaN (a : CF) : Bool := a.re.isNaN || (a.c && a.im.isNaN)

/-- numpy compares complex numbers lexicographically (false if any part is NaN). -/
def lt (a b : CF) : Bool :=
  if !a.c && !b.c then decide (a.re < b.re)
  else if a.re.isNaN || b.re.isNaN || a.im.isNaN || b.im.isNaN then false
  else decide (a.re < b.re) || (a.re == b.re && decide (a.im < b.im))
def le (a b : CF) : Bool :=
  if !a.c && !b.c then decide (a.re ≤ b.re)
  else if a.re.isNaN || b.re.isNaN || a.im.isNaN || b.im.isNaN then false
  else decide (a.re < b.re) || (a.re == b.re && decide (a.im ≤ b.im))

instance : NumOps CF where
  ofRat n d := ofFloat (Float.ofInt n / Float.ofNat d)
  ofNat n := ofFloat (Float.ofNat n)
  pi := ofFloat 3.141592653589793
  inf := ofFloat finf
  add := add
  sub := sub
  mul := mul
  div := div
  neg := neg
  sq := sq
  log := log
  sqrt := sqrt
  isReal := isReal
  isNaN := isNaN
  lt := lt
  le := le

end CF

end ESR.NLL
