/-
Pointer-level model of `check_tree` (esr/generation/generator.py l.271-336), statement by statement.

`Model/Shape.lean` `checkTree` keeps the open binary ancestors on a stack.  The Python has no such stack: it
climbs `parent` pointers.  This file mirrors the Python as written; `Props/C01c.lean` proves the two models
equal (`checkTreePtr_eq`), so the stack identification no longer rests on correspondence alone.

    tree = [Node(t) for t in s]                              -- three arrays of `None`, `s` itself is `.type`
    for i in range(len(s)-1):                                -- `loopPtr`, one `stepPtr` per iteration
        success = False
        if (tree[i].type == 2) or (tree[i].type == 1):
            tree[i].left = i+1; tree[i+1].parent = i; success = True
        else:
            j = tree[i].parent
            while not success:                               -- `climb`, fuel = len(s)
                if (tree[j].type == 2) and (tree[j].right is None):
                    tree[j].right = i+1; tree[i+1].parent = j; success = True
                elif (tree[j].parent is None):
                    break
                j = tree[j].parent
        if not success: break
    if len(s) > 1:
        if success: lefts = [t.left for t in tree if t.type == 1 or t.type == 2];  if None in lefts: success = False
        if success: rights = [t.right for t in tree if t.type == 2];               if None in rights: success = False
        part_considered = s[:i+2]
    else: success = True; part_considered = None

Python exceptions (`tree[None]` → TypeError, index out of range → IndexError) are `Outcome.raise`; running out
of fuel in the `while` loop is the separate `Outcome.fuel` (proved never to happen).
-/
import ESRVerif.Model.Shape
namespace ESR.Shape

inductive Outcome (α : Type) where
  | raise                     -- Python raises
  | fuel                      -- the `while` loop did not finish within `len(s)` iterations
  | val (a : α)
  deriving Repr

/-- The arrays `[t.parent for t in tree]`, `[t.left …]`, `[t.right …]`. -/
structure PSt where
  parent : List (Option Nat)
  left : List (Option Nat)
  right : List (Option Nat)
  deriving Repr

/-- The `while not success:` loop entered with `j`.  `val (some j)`: node `i+1` goes to the right of `j`
(`success = True`); `val none`: `break` at the root (`success` stays False). -/
def climb (s : List Nat) (parent right : List (Option Nat)) : Nat → Option Nat → Outcome (Option Nat)
  | _, none => .raise                                     -- `tree[None]`
  | 0, some _ => .fuel
  | fuel + 1, some j =>
    match s[j]?, right[j]?, parent[j]? with
    | some t, some r, some p =>
      if t = 2 ∧ r = none then .val (some j)              -- if (tree[j].type == 2) and (tree[j].right is None)
      else if p = none then .val none                     -- elif (tree[j].parent is None): break
      else climb s parent right fuel p                    -- j = tree[j].parent
    | _, _, _ => .raise                                   -- index out of range

/-- Body of the `for` loop for index `i`.  `val none`: `success` is False after the body (the loop breaks). -/
def stepPtr (s : List Nat) (i : Nat) (st : PSt) : Outcome (Option PSt) :=
  match s[i]? with
  | none => .raise
  | some t =>
    if t = 2 ∨ t = 1 then
      .val (some { st with left := st.left.set i (some (i + 1)), parent := st.parent.set (i + 1) (some i) })
    else
      match st.parent[i]? with
      | none => .raise
      | some j0 =>                                        -- j = tree[i].parent
        match climb s st.parent st.right s.length j0 with
        | .raise => .raise
        | .fuel => .fuel
        | .val none => .val none
        | .val (some j) =>
          .val (some { st with right := st.right.set j (some (i + 1)), parent := st.parent.set (i + 1) (some j) })

/-- `for i in range(…)` with `m` iterations left, starting at `i`; returns the arrays and the index at which the
loop broke (`none`: ran to the end). -/
def loopPtr (s : List Nat) : Nat → Nat → PSt → Outcome (PSt × Option Nat)
  | 0, _, st => .val (st, none)
  | m + 1, i, st =>
    match stepPtr s i st with
    | .raise => .raise
    | .fuel => .fuel
    | .val none => .val (st, some i)
    | .val (some st') => loopPtr s m (i + 1) st'

/-- `[t.<field> for t in tree if p t.type]` -/
def fieldsWhere (s : List Nat) (arr : List (Option Nat)) (p : Nat → Bool) : List (Option Nat) :=
  ((s.zip arr).filter (fun x => p x.1)).map (·.2)

/-- `check_tree`.  `none`: the climb ran out of fuel; `some .error`: Python raises. -/
def checkTreePtr (s : List Nat) : Option Result :=
  let n := s.length
  let init : PSt := ⟨List.replicate n none, List.replicate n none, List.replicate n none⟩
  match loopPtr s (n - 1) 0 init with
  | .raise => some .error
  | .fuel => none
  | .val (st, brk) =>
    if n > 1 then
      let success := brk.isNone                            -- `success` when the loop is left
      let i := brk.getD (n - 2)                            -- `i` when the loop is left
      let success := if success then
          (if (fieldsWhere s st.left (fun t => t == 1 || t == 2)).contains none then false else success)
        else success
      let success := if success then
          (if (fieldsWhere s st.right (fun t => t == 2)).contains none then false else success)
        else success
      some (.ok success (some (s.take (i + 2))) st.parent st.left st.right)
    else
      some (.ok true none st.parent st.left st.right)

end ESR.Shape
