import ESRVerif.Model.Subs
import ESRVerif.Generated.Subs
/-
Model of the per-row conversion loop of `load_subs` (esr/generation/simplifier.py, the `for i in range(len(all_subs))` /
`for j in range(len(all_subs[i]))` loops) with an optional fault point, in the style of `Model/Fault.lean`.

A row is a list of cells.  The per-cell statements rewrite the cell IN PLACE (`all_subs[i][j] = …`): the regenerated table
`ESR.Gen.Subs.loadSubsRows.inPlace` lists these writes in source order (`.replace n`: the next `n` `.replace` calls of
`replaceSeq` applied to the text; `.convert`: the remaining replaces, the nan test, `literal_eval`, `sympify`, `dict(zip(..))`;
`.stringify`: `if not use_sympy: cell = str(cell)` — the model's `Entry` stands for the dict and for its `str`, as in `loadCell`).
If the table says the conversion runs inside `with time_limit(..)`, a `TimeoutException` may strike before any in-place write of
any cell; the handler (if any) then puts the row back from what the table says: a SNAPSHOT taken before the first write, or an
ALIAS of the very list being rewritten (which restores nothing).  Without a handler the exception leaves `load_subs`.
Where Python raises something else (a text that does not parse, `.replace` on a dict) the model returns `none` / `.error`.
-/
namespace ESR.SubsRows
open ESR.Subs
open ESR.Gen.Subs (RowStmt RowConversion Restore)

/-- one cell of a row while it is being converted -/
inductive Cell
  | text (done : Nat) (s : List Char)    -- still text; the first `done` replaces of `replaceSeq` already applied in place
  | val (e : Entry)                      -- converted (np.nan / dict / its str)
  deriving DecidableEq, Repr

/-- the tail of `loadCellWith` after the quote insertion: nan test, `literal_eval`, `sympify` of keys and values, `dict(zip)` -/
def convertQuoted (q : List Char) : Option Entry :=
  if q = nanCell then some .nan
  else match parseDict q with
    | none => none
    | some kvs => match optMap parseKV kvs with
      | none => none
      | some ps => some (.map (ps.foldl (fun m kv => dictInsert m kv.1 kv.2) []))

/-- one in-place write; `none` = Python raises (not a timeout) -/
def step : Cell → RowStmt → Option Cell
  | .text d s, .replace n => some (.text (d + n) (quoteWith ((replaceSeq.drop d).take n) s))
  | .text d s, .convert => (convertQuoted (quoteWith (replaceSeq.drop d) s)).map .val
  | .val e, .stringify => some (.val e)
  | _, _ => none

def runStmts : List RowStmt → Cell → Option Cell
  | [], c => some c
  | s :: ss, c => match step c s with
    | none => none
    | some c' => runStmts ss c'

/-- the rows as `csv.reader` hands them over -/
def rawRow (cells : List (List Char)) : List Cell := cells.map (.text 0)

/-- the loop run to completion -/
def runRowFull (stmts : List RowStmt) (row : List Cell) : Option (List Cell) := optMap (runStmts stmts) row

/-- the loop interrupted in cell `j` before its in-place write number `k`: the cells before `j` are converted, cell `j` has had
its first `k` writes, the cells after `j` are untouched.  `none`: something else raised before that point was reached. -/
def runRowPrefix (stmts : List RowStmt) (row : List Cell) (j k : Nat) : Option (List Cell) :=
  match optMap (runStmts stmts) (row.take j) with
  | none => none
  | some done => match row.drop j with
    | [] => some done
    | c :: rest => match runStmts (stmts.take k) c with
      | none => none
      | some c' => some (done ++ c' :: rest)

inductive Outcome
  | row (r : List Cell)     -- what `all_subs[i]` is after the row's turn
  | raised                  -- the TimeoutException leaves load_subs: nothing is read back
  | error                   -- another exception leaves load_subs
  deriving DecidableEq, Repr

/-- One row's turn under the exception structure `rc`, with an optional fault point `(j, k)`. -/
def runRow (rc : RowConversion) (cells : List (List Char)) (fault : Option (Nat × Nat)) : Outcome :=
  let full := match runRowFull rc.inPlace (rawRow cells) with
    | some r => Outcome.row r
    | none => Outcome.error
  match fault with
  | none => full
  | some (j, k) =>
    if rc.timeLimited = false then full           -- no alarm is ever pending: nothing can interrupt the loop
    else match runRowPrefix rc.inPlace (rawRow cells) j k with
      | none => full                              -- the other exception came first
      | some cur => match rc.restoresFrom with
        | .none => .raised
        | .snapshot => .row (rawRow cells)        -- `all_subs[i] = saved copy`
        | .alias => .row cur                      -- `all_subs[i] = orig_subs`, the list the loop has been rewriting

/-- shape of the in-place write sequence the model understands: replaces, then the conversion, then possibly the `str` -/
def wf : List RowStmt → Bool
  | [.convert] => true
  | [.convert, .stringify] => true
  | .replace _ :: rest => wf rest
  | _ => false

end ESR.SubsRows
