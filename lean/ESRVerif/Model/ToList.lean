/-
Model of the formula-string → label-list conversion of ESR (property C18).

* `SymExpr`        — the sympy expression as `DecoratedNode.__init__` (esr/generation/generator.py l.71-112) sees it:
                     class name (`fun.__class__.__name__`), `fun.is_number`, `fun.is_symbol`, `str(fun)` / `fun.name`,
                     the exact value of an atomic number, and the ordered arguments.  A node with more than two
                     arguments is stored as `appN h n a rest`, `(a, rest) = fun.as_two_terms()` (sympy: first argument
                     and the SAME class applied to the remaining ones), `n = len(fun.args)`.
* `classify`/`build` — `DecoratedNode.__init__`: the special cases `Square, Cube, Sqrt, Div, Inv` in the order written
                     (the table `ESR.Gen.ToList.initRules` is regenerated from the source), then `as_two_terms` for
                     more than two arguments, else one child per argument.  `bad` where Python raises.
* `n1Chain`/`n2Chain`/`toListA`/`toList` — `DecoratedNode.to_list` (l.157-212), the fifteen branches in the order written,
                     with the string literals regenerated from the source (`ESR.Gen.ToList.tl`, including `"sqaure"`).
                     The chains are the (non-recursive) decision logic for a node that kept one / two children, fed the
                     children's lists; `toListA` is the recursion.  It also records, next to each label, the arity the
                     label is emitted with (bookkeeping only; `toList` drops it).  `none` where Python raises
                     (`IndexError`, `AttributeError` on `self.parent`, the `pass` branch returning `None`).
* `countNodes`     — `count_nodes` (l.148-152) = `len(self.to_list(...))`.
* `relabel`        — the relabelling / float-replacement pass shared by `fit_single.fit_from_string` (l.153-187) and
                     `fit_single.string_to_aifeyn` (l.265-300), using `labels_to_shape` (generator.py l.1588-1614) and the
                     `check_tree` model of `ESR.Shape`.
* `Sem`, `evalLabels`, `evalSym` — ESR operator semantics of prefix label lists (pow, sqrt, log on absolute values) and
                     the ordinary meaning of the sympy tree, over an abstract structure of number operations.

Quirks kept: `degree` is `len(fun.args)` even when a special case keeps ONE child; `fun.args[1] == 1/2` compares with the
Python float 0.5 (sympy ≥ 1.13: true for `Float(0.5)` only, false for `Rational(1,2)`); `"sqaure" not in basis` is
always true for a real basis; the `Abs` branch sits behind `degree == 1` and the `pass` branch compares a
DecoratedNode with the int 1 (no `__eq__`: always False); `"* inv"` / `"/ inv"` branches return `["Mul"] + one child`.
Not modelled: Python `eval` of arbitrary text in `is_float` (only numeric literals `[-]d[.d][e±d]` and `[-]d/d`, with the
OverflowError of `float(<int>)` beyond the double range),
non-ASCII `str.lower`, numpy `U100` truncation.
-/
import ESRVerif.Generated.ToList
import ESRVerif.Model.Shape
import ESRVerif.Model.Labeling
namespace ESR.ToList
open ESR.Gen.ToList
open ESR.Labeling (Basis)

/-! ### sympy expressions -/

/-- Exact value of an atomic sympy number. -/
inductive NumVal where
  | none                                   -- not an atomic number
  | rat (p : Int) (q : Nat)                -- Integer / Rational (incl. Zero, One, NegativeOne, Half), lowest terms
  | flt (p : Int) (q : Nat) (prec : Nat)   -- Float: exact dyadic value p/q (lowest terms) and binary precision
  | other                                  -- pi, E, oo, zoo, nan, I …
  deriving Repr, DecidableEq

structure Head where
  cls : String        -- fun.__class__.__name__
  isNumber : Bool     -- fun.is_number
  isSymbol : Bool     -- fun.is_symbol
  str : String        -- str(fun) if is_number, else fun.name if is_symbol, else ""
  num : NumVal
  deriving Repr, DecidableEq

inductive SymExpr where
  | atom (h : Head)
  | app1 (h : Head) (a : SymExpr)
  | app2 (h : Head) (a b : SymExpr)
  | appN (h : Head) (n : Nat) (a rest : SymExpr)
  deriving Repr

def SymExpr.head : SymExpr → Head
  | .atom h => h | .app1 h _ => h | .app2 h _ _ => h | .appN h _ _ _ => h

def SymExpr.cls (e : SymExpr) : String := e.head.cls

def SymExpr.size : SymExpr → Nat
  | .atom _ => 1
  | .app1 _ a => 1 + a.size
  | .app2 _ a b => 1 + a.size + b.size
  | .appN _ _ a r => 1 + a.size + r.size

/-- sympy `e == c` for a Python number `c` (sympy 1.14: an `int` equals only the exact Integer; a Python `float` is
wrapped as `Float(c)` (53 bits) and equals only a Float with the same value and precision). -/
def eqConst (e : SymExpr) : Const → Bool
  | .int k => match e with
      | .atom h => h.num == .rat k 1
      | _ => false
  | .pyfloat p q => match e with
      | .atom h => h.num == .flt p q 53
      | _ => false

/-- `self.val`: `str(fun)` for a constant, `fun.name` for a symbol, else `None`. -/
def valOf (h : Head) : Option String :=
  if h.isNumber then some h.str else if h.isSymbol then some h.str else none

/-! ### DecoratedNode -/

structure Info where
  op : String                 -- self.op (after the special cases)
  typ : String                -- type(fun), by name
  val : Option String         -- self.val
  degree : Nat                -- len(fun.args)
  parentOp : Option String    -- self.parent.op (`none`: self.parent is None)
  deriving Repr, DecidableEq

inductive DNode where
  | bad                                   -- __init__ raised
  | n0 (i : Info)
  | n1 (i : Info) (c : DNode)
  | n2 (i : Info) (c0 c1 : DNode)
  deriving Repr

def DNode.info? : DNode → Option Info
  | .bad => none | .n0 i => some i | .n1 i _ => some i | .n2 i _ _ => some i

def DNode.op (d : DNode) : String := match d.info? with | some i => i.op | none => ""
def DNode.typ (d : DNode) : String := match d.info? with | some i => i.typ | none => ""
def DNode.val (d : DNode) : Option String := match d.info? with | some i => i.val | none => none

def DNode.kid0 : DNode → Option DNode
  | .n1 _ c => some c | .n2 _ c _ => some c | _ => none
def DNode.kid1 : DNode → Option DNode
  | .n2 _ _ c => some c | _ => none

inductive Kind where
  | plain
  | unary (op : String)     -- Square, Cube, Sqrt, Inv: one child `fun.args[0]`
  | div (op : String)       -- Div: children `fun.args[0]`, `fun.args[1].args[0]`
  deriving Repr, DecidableEq

def basisOk (B : Basis) (names : List String) : Bool :=
  names.isEmpty || names.any (fun s => decide (s ∈ B.b1))

/-- Does the rule fire on a two-argument node with head `h` and arguments `a`, `b`? -/
def ruleFires (B : Basis) (h : Head) (b : SymExpr) (r : InitRule) : Bool :=
  decide (h.cls = r.cls) &&
  (if r.div then
    decide (b.cls = r.argCls) && (match b with | .app2 _ _ b1 => eqConst b1 r.const | _ => false)
   else eqConst b r.const) &&
  basisOk B r.basisAny

def classifyWith (B : Basis) (h : Head) (b : SymExpr) : List InitRule → Kind
  | [] => .plain
  | r :: rs => if ruleFires B h b r then (if r.div then .div r.newOp else .unary r.newOp) else classifyWith B h b rs

/-- Which `if/elif` of `__init__` a two-argument node takes. -/
def classify (B : Basis) (h : Head) (b : SymExpr) : Kind := classifyWith B h b initRules

/-- The classes on which sympy defines `as_two_terms`. -/
def twoTermClasses : List String := ["Add", "Mul"]

/-- Any class tested by a rule (`Pow`, `Mul`): a node of such a class with fewer than two arguments would make
`fun.args[1]` raise for `Pow`; sympy never builds one. -/
def powLike (cls : String) : Bool := initRules.any (fun r => !r.div && r.cls == cls)

def mkInfo (h : Head) (op : String) (deg : Nat) (p : Option String) : Info :=
  { op := op, typ := h.cls, val := valOf h, degree := deg, parentOp := p }

/-- `DecoratedNode(fun, basis_functions, parent_op, parent)`. -/
def build (B : Basis) : Option String → SymExpr → DNode
  | p, .atom h => if powLike h.cls then .bad else .n0 (mkInfo h h.cls 0 p)
  | p, .app1 h a => if powLike h.cls then .bad else .n1 (mkInfo h h.cls 1 p) (build B (some h.cls) a)
  | p, .app2 h a b =>
    match classify B h b with
    | .unary op => .n1 (mkInfo h op 2 p) (build B (some op) a)
    | .div op =>
      match b with
      | .app2 _ b0 _ => .n2 (mkInfo h op 2 p) (build B (some op) a) (build B (some op) b0)
      | _ => .bad
    | .plain => .n2 (mkInfo h h.cls 2 p) (build B (some h.cls) a) (build B (some h.cls) b)
  | p, .appN h n a rest =>
    if powLike h.cls then .bad
    else if h.cls ∈ twoTermClasses then
      .n2 (mkInfo h h.cls n p) (build B (some h.cls) a) (build B (some h.cls) rest)
    else .bad

/-! ### Python `float(...)` / `generator.is_float` on label text -/

def natOfDigits (ds : List Char) : Nat := ds.foldl (fun n c => 10 * n + (c.toNat - '0'.toNat)) 0

/-- `digits [. digits] [(e|E) [+-] digits]` (at least one digit in the mantissa): mantissa, decimal exponent, rest. -/
def parseUnsigned (cs : List Char) : Option (Nat × Int × List Char) :=
  let ip := cs.takeWhile Char.isDigit
  let r1 := cs.dropWhile Char.isDigit
  let fp := match r1 with | '.' :: r => r.takeWhile Char.isDigit | _ => []
  let r2 := match r1 with | '.' :: r => r.dropWhile Char.isDigit | _ => r1
  if ip.isEmpty && fp.isEmpty then none else
  let mant := natOfDigits (ip ++ fp)
  let e0 : Int := - (fp.length : Int)
  match r2 with
  | c :: r =>
    if c = 'e' ∨ c = 'E' then
      let neg := match r with | '-' :: _ => true | _ => false
      let r' := match r with | '-' :: t => t | '+' :: t => t | _ => r
      let ed := r'.takeWhile Char.isDigit
      if ed.isEmpty then none
      else some (mant, e0 + (if neg then - (natOfDigits ed : Int) else (natOfDigits ed : Int)), r'.dropWhile Char.isDigit)
    else some (mant, e0, r2)
  | [] => some (mant, e0, [])

def stripSign : List Char → Bool × List Char
  | '-' :: r => (true, r)
  | '+' :: r => (false, r)
  | r => (false, r)

def isOneVal (m : Nat) (e : Int) : Bool :=
  if e ≥ 0 then m * 10 ^ e.toNat == 1 else m == 10 ^ (-e).toNat

/-- `float(s) == float(1)` succeeds and is true (decimal text; exact comparison). -/
def pyFloatIsOne (s : String) : Bool :=
  match stripSign s.toList with
  | (neg, r) => match parseUnsigned r with
    | some (m, e, []) => !neg && isOneVal m e
    | _ => false

/-- Python `float(n)` of an `int` `n` raises OverflowError from `2^1024 − 2^970` on (the first integer that rounds to
`2^1024`); a `float` literal beyond the range evaluates to `inf` and does not raise. -/
def floatOverflowBound : Nat :=
  179769313486231580793728971405303415079934132710037826936173778980444968292764750946649017977587207096330286416692887910946555547851940402630657488671505820681908902000708383676273854845817711531764475730270069855571366959622842914819860834936475292719074168444365510704342711559699508093042880177904174497792

/-- the text is a Python `int` literal: digits only (no `.`, no exponent) -/
def isIntLit (cs : List Char) : Bool := !cs.isEmpty && cs.all Char.isDigit

/-- `float(eval(text))` raises OverflowError: an `int` literal too large for a double -/
def intLitOverflows (cs : List Char) : Bool := isIntLit cs && decide (floatOverflowBound ≤ natOfDigits cs)

/-- `int / int` (true division, correctly rounded) raises OverflowError ("integer division result too large for a
float"); `num` is the text up to the `/`. -/
def intQuotOverflows (num den : List Char) : Bool :=
  isIntLit num && isIntLit den && decide (natOfDigits den * floatOverflowBound ≤ natOfDigits num)

/-- `generator.is_float(s)`: `float(eval(s))` does not raise — numeric literals `[-]d[.d][e±d]` and quotients
`[-]d/d` with a non-zero denominator (what sympy prints for Integer, Float, Rational), except an integer (or a quotient
of integers) beyond the range of a double: `float(10**400)` raises OverflowError, so a 400-digit Integer label is NOT
a float for ESR (whereas the Float `1.0e+400` is: it evaluates to `inf`). -/
def isFloatChars (cs : List Char) : Bool :=
  match parseUnsigned (stripSign cs).2 with
  | some (_, _, []) => !intLitOverflows (stripSign cs).2
  | some (_, _, '/' :: r) => (match parseUnsigned (stripSign r).2 with
      | some (m, _, []) => m != 0 && !intQuotOverflows ((stripSign cs).2.takeWhile Char.isDigit) (stripSign r).2
      | _ => false)
  | _ => false

def isFloatLabel (s : String) : Bool := isFloatChars s.toList

/-- `lab.startswith('a') and is_float(lab[1:])` -/
def isParamLabel (s : String) : Bool :=
  match s.toList with
  | 'a' :: r => isFloatChars r
  | _ => false

/-- `self.is_unity()` (`float(None)` raises TypeError → False). -/
def isUnity (d : DNode) : Bool :=
  match d.val with
  | some s => pyFloatIsOne s
  | none => false

/-! ### to_list -/

/-- `str(self.val)` -/
def valStr (i : Info) : String := match i.val with | some s => s | none => "None"

abbrev ALabels := List (String × Nat)

/-- `self.parent.op in names` (for a node that has a parent) -/
def parentIn (p : Option String) (names : List String) : Bool :=
  match p with
  | some po => decide (po ∈ names)
  | none => false

/-- The chain of `to_list` for a node that kept ONE child (`r` = the child's list).  Below `degree == 1`, a test that
reads `self.children[1]` raises IndexError as soon as its `self.op == …` part passes. -/
def n1Chain (B : Basis) (i : Info) (c : DNode) (r : Option ALabels) : Option ALabels :=
  if i.degree = 0 then some [(valStr i, 0)]
  else if i.degree = 1 then r.map ((i.op, 1) :: ·)
  else if i.op = tl.sqrtOp then none
  else if i.op = tl.squareOp then none
  else if i.op = tl.unsquareOp ∧ tl.unsquareBasis ∉ B.b1 then
    r.map (fun l => (tl.unsquareLabel, 2) :: l ++ [(tl.unsquareExp, 0)])
  else if i.op = tl.cubeOp then none
  else if i.op = tl.uncubeOp ∧ tl.uncubeBasis ∉ B.b1 then
    r.map (fun l => (tl.uncubeLabel, 2) :: l ++ [(tl.uncubeExp, 0)])
  else if i.op = tl.invOp then none
  else if i.op = tl.mulInvOp ∧ c.op = tl.mulInvKidOp then none
  else if i.op = tl.divInvOp ∧ c.op = tl.divInvKidOp then none
  else if i.op = tl.unitOp then none
  else if i.op = tl.absOp ∧ i.parentOp = none then none           -- AttributeError: self.parent is None
  else if i.op = tl.absOp ∧ parentIn i.parentOp tl.absParents then r
  else if i.op = tl.passOp then none
  else if i.op = tl.subOp then none
  else r.map ((i.op, 1) :: ·)

/-- The chain of `to_list` for a node with two children; `r0`, `r1` = the children's lists, `rg` = the lists of the
children of `children[1]` (if it has two). -/
def n2Chain (B : Basis) (i : Info) (c0 c1 : DNode) (r0 r1 : Option ALabels)
    (g : Option (String × String)) (rg : Option ((Unit → Option ALabels) × (Unit → Option ALabels))) : Option ALabels :=
  let plain := r0.bind fun l0 => r1.map fun l1 => (i.op, 2) :: l0 ++ l1
  if i.degree = 0 then some [(valStr i, 0)]
  else if i.degree = 1 then r0.map ((i.op, 1) :: ·)
  -- Sqrt(x) instead of pow(x, 1/2)
  else if i.op = tl.sqrtOp ∧ c1.typ = tl.sqrtTyp ∧ (tl.sqrtBasisA ∈ B.b1 ∨ tl.sqrtBasisB ∈ B.b1) then
    r0.map ((if tl.sqrtTestA ∈ B.b1 then tl.sqrtLabelA else tl.sqrtLabelB, 1) :: ·)
  -- Square(x) instead of pow(x, 2) if possible
  else if i.op = tl.squareOp ∧ c1.val = some tl.squareExp ∧ tl.squareBasis ∈ B.b1 then
    r0.map ((tl.squareLabel, 1) :: ·)
  -- pow(x,2) instead of Square(x) "if necessary" (the test reads "sqaure")
  else if i.op = tl.unsquareOp ∧ tl.unsquareBasis ∉ B.b1 then
    r0.map (fun l => (tl.unsquareLabel, 2) :: l ++ [(tl.unsquareExp, 0)])
  else if i.op = tl.cubeOp ∧ c1.val = some tl.cubeExp ∧ tl.cubeBasis ∈ B.b1 then
    r0.map ((tl.cubeLabel, 1) :: ·)
  else if i.op = tl.uncubeOp ∧ tl.uncubeBasis ∉ B.b1 then
    r0.map (fun l => (tl.uncubeLabel, 2) :: l ++ [(tl.uncubeExp, 0)])
  -- Inv(x) instead of pow(x, -1)
  else if i.op = tl.invOp ∧ c1.typ = tl.invTyp ∧ tl.invBasis ∈ B.b1 then
    r0.map ((tl.invLabel, 1) :: ·)
  -- "Deal with * inv = /": returns ["Mul"] + ONE child
  else if i.op = tl.mulInvOp ∧ c0.op = tl.mulInvKidOp ∧ c1.typ = tl.mulInvTyp ∧ tl.mulInvBasis ∈ B.b2 then
    r1.map ((tl.mulInvLabel, 2) :: ·)
  -- "Deal with / inv = *": returns ["Mul"] + ONE child
  else if i.op = tl.divInvOp ∧ c0.op = tl.divInvKidOp ∧ c1.typ = tl.divInvTyp ∧ tl.divInvBasis ∈ B.b2 then
    r1.map ((tl.divInvLabel, 2) :: ·)
  -- Multiply by one doesn't do anything
  else if i.op = tl.unitOp ∧ (isUnity c0 ∨ isUnity c1) then
    (if isUnity c0 then r1 else r0)
  -- Don't keep abs after pow or sqrt
  else if i.op = tl.absOp ∧ i.parentOp = none then none          -- AttributeError: self.parent is None
  else if i.op = tl.absOp ∧ parentIn i.parentOp tl.absParents then r0
  -- `self.op == "Div" and (self.children[0] == 1 or self.children[1] == 1)`: a DecoratedNode never equals 1
  else if i.op = tl.passOp ∧ False then none
  else if i.op = tl.subOp ∧ c1.op = tl.subKidOp then
    (match g, rg with
     | some (g0op, g1op), some (rg0, rg1) =>
       if g0op = tl.subNegA ∨ g1op = tl.subNegB then
         (if g0op = tl.subNegC then
           r0.bind fun l0 => (rg1 ()).map fun l1 => (tl.subLabelA, 2) :: l0 ++ l1
          else
           r0.bind fun l0 => (rg0 ()).map fun l1 => (tl.subLabelB, 2) :: l0 ++ l1)
       else plain
     | _, _ => none)                                      -- IndexError on self.children[1].children[…]
  else plain

/-- ops of the two children of a node (if it has two) -/
def DNode.kidOps : DNode → Option (String × String)
  | .n2 _ g0 g1 => some (g0.op, g1.op)
  | _ => none

/-- `DecoratedNode.to_list(basis_functions)`, each label paired with the arity it is emitted with. -/
def toListA (B : Basis) : DNode → Option ALabels
  | .bad => none
  | .n0 i =>
    if i.degree = 0 then some [(valStr i, 0)]
    else none                                            -- any later branch indexes self.children[0]/[1]
  | .n1 i c => n1Chain B i c (toListA B c)
  | .n2 i c0 (.n2 j g0 g1) =>
    n2Chain B i c0 (.n2 j g0 g1) (toListA B c0) (toListA B (.n2 j g0 g1)) (some (g0.op, g1.op))
      (some (fun _ => toListA B g0, fun _ => toListA B g1))
  | .n2 i c0 c1 => n2Chain B i c0 c1 (toListA B c0) (toListA B c1) none none

/-- `self.to_list(basis_functions)` -/
def toList (B : Basis) (d : DNode) : Option (List String) := (toListA B d).map (·.map Prod.fst)

/-- `self.count_nodes(basis_functions)` = `len(self.to_list(basis_functions))` -/
def countNodes (B : Basis) (d : DNode) : Option Nat := (toList B d).map List.length

/-- `nodes = DecoratedNode(expr, basis); labels = nodes.to_list(basis)` -/
def convert (B : Basis) (e : SymExpr) : Option (List String) := toList B (build B none e)

/-! ### relabelling and float replacement (fit_from_string / string_to_aifeyn) -/

/-- `str.lower()` (ASCII letters) -/
def lower (s : String) : String := String.ofList (s.toList.map Char.toLower)

/-- `'*'` for `'Mul'` …, otherwise `lab.lower()`. -/
def canon (lab : String) : String :=
  match renameTable.lookup lab with
  | some s => s
  | none => lower lab

/-- `labels[j] = f'a{k}'` for the k-th masked position. -/
def renumber : Nat → List (String × Bool) → List String
  | _, [] => []
  | k, (l, m) :: rest => if m then ("a" ++ toString k) :: renumber (k + 1) rest else l :: renumber k rest

/-- `t[1:].isdigit()` on `t = 'a…'` -/
def isParamName (s : String) : Bool :=
  match s.toList with
  | 'a' :: r => !r.isEmpty && r.all Char.isDigit
  | _ => false

/-- `labels_to_shape`: later basis classes override earlier ones (dict assignment); `none` = ValueError. -/
def labelArity (B : Basis) (t : String) : Option Nat :=
  if t ∈ B.b2 then some 2 else if t ∈ B.b1 then some 1 else if t ∈ B.b0 then some 0
  else if isParamName t || isFloatLabel t then some 0 else none

def labelsToShape (B : Basis) (ls : List String) : Option (List Nat) := ls.mapM (labelArity B)

/-- `parents = [None] + [labels[p.parent] for p in tree[1:]]`; `none` = TypeError (`labels[None]`) or check_tree raised. -/
def parentsOf (labels : List String) (s : List Nat) : Option (List (Option String)) :=
  match ESR.Shape.checkTree s with
  | .error => none
  | .ok _ _ parent _ _ =>
    match parent with
    | [] => some []
    | _ :: ps => (ps.mapM fun (p : Option Nat) => p.bind fun k => labels[k]?).map fun l => none :: l.map some

/-- `(is_float(lab) and not (parents[j] is not None and parents[j].lower() == 'pow')) or
(lab.startswith('a') and is_float(lab[1:]))` — the root (`parents[0] is None`) counts as "parent is not pow". -/
def replaceMask (lab : String) (parent : Option String) : Bool :=
  if isFloatLabel lab then
    !(match parent with
      | none => false
      | some p => lower p == noReplaceParent) || isParamLabel lab
  else isParamLabel lab

/-- The label list handed to `single_function` / `tree_to_aifeyn`. -/
def relabel (B : Basis) (replaceFloats : Bool) (maxvar : Nat) (raw : List String) : Option (List String) :=
  let labels := raw.map canon
  let mask1 := labels.map fun l => isFloatLabel l || isParamLabel l
  if (mask1.filter id).length > maxvar then none else                 -- assert
  let newLabels := renumber 0 (labels.zip mask1)
  match labelsToShape B newLabels with
  | none => none                                                      -- ValueError
  | some s =>
    match parentsOf labels s with
    | none => none
    | some parents =>
      if replaceFloats then
        some (renumber 0 (labels.zip ((labels.zip parents).map fun lp => replaceMask lp.1 lp.2)))
      else some labels

/-! ### semantics -/

/-- Number operations; `pow` is the plain real power (no absolute value). -/
structure Sem (α : Type) where
  add : α → α → α
  mul : α → α → α
  sub : α → α → α
  div : α → α → α
  pow : α → α → α
  abs : α → α
  sqrt : α → α
  log : α → α
  inv : α → α
  fn1 : String → α → α            -- any other unary function, by lower-case name (exp, sin, tenexp …)
  fn2 : String → α → α → α
  ofRat : Int → Nat → α
  lit : String → α                -- the number a numeric label denotes (`float(eval(label))`)
  const : String → α              -- named constants (pi, E …)

variable {α : Type}

/-- ESR meaning of a unary operator label (canonical name). -/
def opSem1 (S : Sem α) (name : String) (a : α) : α :=
  if name = "inv" then S.inv a
  else if name = "square" then S.mul a a
  else if name = "cube" then S.mul (S.mul a a) a
  else if name = "sqrt" ∨ name = "sqrt_abs" then S.sqrt (S.abs a)
  else if name = "log" ∨ name = "log_abs" then S.log (S.abs a)
  else if name = "abs" then S.abs a
  else S.fn1 name a

/-- ESR meaning of a binary operator label (canonical name). -/
def opSem2 (S : Sem α) (name : String) (a b : α) : α :=
  if name = "+" then S.add a b
  else if name = "*" then S.mul a b
  else if name = "-" then S.sub a b
  else if name = "/" then S.div a b
  else if name = "pow" ∨ name = "pow_abs" then S.pow (S.abs a) b
  else S.fn2 name a b

/-- A nullary label: a numeric literal or a variable / parameter. -/
def leafSem (S : Sem α) (ρ : String → α) (s : String) : α :=
  if isFloatLabel s then S.lit s else ρ s

/-- One step of right-to-left evaluation of a prefix list on a value stack. -/
def evalStep (S : Sem α) (ρ : String → α) (t : String × Nat) (stk : Option (List α)) : Option (List α) :=
  match stk with
  | none => none
  | some st =>
    match t.2, st with
    | 0, st => some (leafSem S ρ (canon t.1) :: st)
    | 1, a :: st => some (opSem1 S (canon t.1) a :: st)
    | 2, a :: b :: st => some (opSem2 S (canon t.1) a b :: st)
    | _, _ => none

def runLabels (S : Sem α) (ρ : String → α) (l : ALabels) (stk : List α) : Option (List α) :=
  l.foldr (evalStep S ρ) (some stk)

/-- Value of a prefix label list (labels renamed by `canon`, then ESR operator semantics); `none` if ill-formed. -/
def evalLabels (S : Sem α) (ρ : String → α) (l : ALabels) : Option α :=
  match runLabels S ρ l [] with
  | some [v] => some v
  | _ => none

/-- Meaning of a one-argument sympy node: `log` is the real logarithm, `Abs` the absolute value, an undefined
function carrying an ESR operator name (kernS parses) has the ESR meaning. -/
def symFn1 (S : Sem α) (cls : String) (a : α) : α :=
  if cls = "log" then S.log a else opSem1 S (canon cls) a

def symFn2 (S : Sem α) (cls : String) (a b : α) : α :=
  if cls = "Add" then S.add a b
  else if cls = "Mul" then S.mul a b
  else if cls = "Pow" then S.pow a b
  else opSem2 S (canon cls) a b

/-- The function denoted by the sympy tree. -/
def evalSym (S : Sem α) (ρ : String → α) : SymExpr → α
  | .atom h =>
    match h.num with
    | .rat p q => S.ofRat p q
    | .flt p q _ => S.ofRat p q
    | _ => if h.isSymbol then ρ h.str else S.const h.str
  | .app1 h a => symFn1 S h.cls (evalSym S ρ a)
  | .app2 h a b => symFn2 S h.cls (evalSym S ρ a) (evalSym S ρ b)
  | .appN h _ a r => symFn2 S h.cls (evalSym S ρ a) (evalSym S ρ r)

end ESR.ToList
