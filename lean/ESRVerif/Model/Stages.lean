import ESRVerif.Model.Partition
/-!
Driver-level model of the first two fitting stages (the loops around the per-function routines).

* `fitRow`, `fitRank`, `fitFile`   — esr/fitting/test_all.py `main` (lines 337-421): `max_param`, the per-function
  `try / with time_limit / try … except NameError … / except Exception` nest around `optimise_fun`, the row
  `[chi2, params…]`, one temp file per rank, `cat … | sort -V` (numeric rank order).
* `fisherRow`, `fisherRank`, `fisherFile` — esr/fitting/test_all_Fisher.py `load_loglike` + `main` (lines 22-44, 240-329):
  the rank's slice of the stage-1 table, the `isnan/isinf` skip, the `try … except NameError … except Exception` nest
  around `run_sympify` + `convert_params`, the rows `[codelen, negloglike, params…]` and `[deriv…]`.

The per-function routines are oracles (`Out`): what they return or which class of exception they raise.  Values are an
abstract type `α` (`nan`, `zero` and the `isnan or isinf` test are parameters), so the same definitions are run over
text tokens by the driver and reasoned about for any value type.  Where the Python lets an exception escape `main`
(the second attempt inside the `except NameError` handler of the Fisher stage; a stage-1 table with too few rows) the
model returns `none` for that rank.  No Mathlib: this file is linked into the `esrmodel` executable.
-/
namespace ESR.Stages
open ESR.Partition

/-- Outcome of one call of a per-function routine as the handlers around it see it. -/
inductive Out (β : Type) where
  | ok (v : β)
  | nameError            -- `NameError` (function not implemented in numpy)
  | raises               -- any other `Exception` (incl. `TimeoutException`)
deriving Repr, DecidableEq

/-- `max_param = int(max(4, np.floor((comp - 1) / 2)))` (test_all.py:360). -/
def maxParam (comp : Nat) : Nat := max 4 ((comp - 1) / 2)

/-! ### stage 1: test_all.main -/

/-- the row the `except Exception` handler leaves: `chi2[i] = np.nan; params[i,:] = 0.` -/
def badFit {α} (nan zero : α) (mp : Nat) : α × List α := (nan, List.replicate mp zero)

/-- `chi2[i], params[i,:] = <returned pair>`: numpy accepts a parameter vector of the row's width or of width 1
(broadcast); any other width raises `ValueError` inside the `try`, after which the handler resets the row. -/
def storeFit {α} (nan zero : α) (mp : Nat) (v : α × List α) : α × List α :=
  if v.2.length = mp then v
  else match v.2 with
    | [p] => (v.1, List.replicate mp p)
    | _ => badFit nan zero mp

/-- One iteration of the loop of `test_all.main` (lines 364-401): `o1` is the outcome of `optimise_fun` with the caller's
`try_integration`, `o2` that of the retry with `try_integration=False` (only looked at after a `NameError`). -/
def fitRow {α} (nan zero : α) (mp : Nat) (tryInt : Bool) (o1 o2 : Out (α × List α)) : α × List α :=
  match o1 with
  | .ok v => storeFit nan zero mp v
  | .nameError =>
      if tryInt then
        match o2 with
        | .ok v => storeFit nan zero mp v
        | _ => badFit nan zero mp
      else badFit nan zero mp          -- `raise NameError` → outer handler
  | .raises => badFit nan zero mp

/-- rows of the temp file `chi2_comp<c>weights_<rank>.dat` of rank `r` -/
def fitRank {α φ} (nan zero : α) (mp : Nat) (tryInt : Bool) (o1 o2 : φ → Out (α × List α))
    (fs : List φ) (P r : Nat) : List (α × List α) :=
  (getFunctionsSlice fs P r).map (fun f => fitRow nan zero mp tryInt (o1 f) (o2 f))

/-- `negloglike_comp<c>.dat`: the per-rank files concatenated in numeric rank order. -/
def fitFile {α φ} (nan zero : α) (mp : Nat) (tryInt : Bool) (o1 o2 : φ → Out (α × List α))
    (fs : List φ) (P : Nat) : List (α × List α) :=
  (List.range P).flatMap (fitRank nan zero mp tryInt o1 o2 fs P)

/-! ### stage 2: test_all_Fisher.main -/

/-- what `convert_params` returns: `params, negloglike, deriv, codelen` -/
structure Conv (α : Type) where
  params : List α
  nll : α
  deriv : List α
  codelen : α
deriving Repr, DecidableEq

/-- width of a `derivs` row: `int(max_param * (max_param+1) / 2)` -/
def derivWidth (mp : Nat) : Nat := mp * (mp + 1) / 2

/-- the row left by `codelen[i] = np.nan; continue`, by the plain handlers (`codelen[i] = 0`): parameters and
derivatives keep/are set to zero, `negloglike[i]` keeps the stage-1 value. -/
def flatRow {α} (zero : α) (mp : Nat) (nll cl : α) : Conv α :=
  ⟨List.replicate mp zero, nll, List.replicate (derivWidth mp) zero, cl⟩

/-- Does iteration `i` let an exception escape `main`?  Only the retry inside `except NameError:` is unprotected
(an exception raised in a handler is not caught by a sibling `except`). -/
def fisherCrashes {α} (isBad : α → Bool) (tryInt : Bool) (nll : α) (o1 o2 : Out (Conv α)) : Bool :=
  if isBad nll then false else
  match o1 with
  | .nameError => tryInt && (match o2 with | .ok _ => false | _ => true)
  | _ => false

/-- One iteration of the loop of `test_all_Fisher.main` (lines 271-303) when nothing escapes. `nll` is the stage-1
value of the rank's slice, `o1`/`o2` the outcomes of `run_sympify` + `convert_params` (with the stage-1 parameters of
the same row) for the caller's `try_integration` and for the retry. -/
def fisherRow {α} (nan zero : α) (isBad : α → Bool) (mp : Nat) (tryInt : Bool) (nll : α) (o1 o2 : Out (Conv α)) : Conv α :=
  if isBad nll then flatRow zero mp nll nan
  else match o1 with
    | .ok v => v
    | .nameError =>
        if tryInt then (match o2 with | .ok v => v | _ => flatRow zero mp nll zero)
        else flatRow zero mp nll zero
    | .raises => flatRow zero mp nll zero

/-- rank `r`: `fcn_list_proc` and the slice `[data_start:data_end]` of the stage-1 table, row by row; `none` where the
Python raises (an EMPTY stage-1 table → `IndexError` in `load_loglike` on every rank, i.e. N = 0, known finding F18; too few
table rows → `IndexError` at `negloglike[i]`; an escaping retry; a table with fewer than 4 parameter
columns, which `test_all.main` never writes). -/
def fisherRank {α φ} (nan zero : α) (isBad : α → Bool) (mp : Nat) (tryInt : Bool)
    (o1 o2 : φ → α × List α → Out (Conv α)) (fs : List φ) (table : List (α × List α)) (P r : Nat) : Option (List (Conv α)) :=
  let f := getFunctionsSlice fs P r
  let t := pySlice table (dataStart fs.length P r) (dataEnd fs.length P r)
  -- line 308 builds (and discards) an array from `deriv[:,0] … deriv[:,9]` on every rank: IndexError for fewer than 10 columns
  if table.isEmpty then none              -- `load_loglike`: `data[:,0]` on `atleast_2d` of an EMPTY stage-1 file (shape (1,0)): F18
  else if derivWidth mp < 10 then none
  else if t.length < f.length then none
  else if (List.zip f t).any (fun p => fisherCrashes isBad tryInt p.2.1 (o1 p.1 p.2) (o2 p.1 p.2)) then none
  else some ((List.zip f t).map (fun p => fisherRow nan zero isBad mp tryInt p.2.1 (o1 p.1 p.2) (o2 p.1 p.2)))

/-- `codelen_comp<c>_deriv.dat` / `derivs_comp<c>.dat` (same rows, different columns): all ranks must complete. -/
def fisherFile {α φ} (nan zero : α) (isBad : α → Bool) (mp : Nat) (tryInt : Bool)
    (o1 o2 : φ → α × List α → Out (Conv α)) (fs : List φ) (table : List (α × List α)) (P : Nat) : Option (List (Conv α)) :=
  ((List.range P).mapM (fisherRank nan zero isBad mp tryInt o1 o2 fs table P)).map List.flatten

/-- the columns written to `codelen_comp<c>_deriv.dat`: `[codelen, negloglike] + params` -/
def codelenCols {α} (c : Conv α) : List α := c.codelen :: c.nll :: c.params

end ESR.Stages
