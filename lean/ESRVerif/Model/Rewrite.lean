/-
C11, layer 1: a validator for the rewrites of esr/generation/generator.py
(`update_tree` l.576-980, `update_sums` l.983-1395, driven by `find_additional_trees` l.1398-1488).

The validator does NOT re-run ESR's index arithmetic.  It parses the original and the rewritten prefix label
lists into expression trees and normalises both by steps that are each proved sound over ℝ
(`ESRVerif/Proofs/Rewrite.lean`); two lists are certified when the normal forms coincide.

* `classify` / `parsePrefix` — prefix label list → `LExpr`.  A label is admitted iff it is `x`, a parameter
  `a<k>`, an integer literal (canonical decimal, as Python's `str(int)` prints it), or a known unary/binary
  operator name that is a member of the run's basis (`basis_functions[1]`, `basis_functions[2]`).  `none` on
  anything else and on arity-inconsistent lists.
* `NF` — normal forms.  A *sum* is a `cons c atom rest` spine ending in `nil` (rational weights, atoms sorted by
  `NF.cmp`, equal atoms merged, zero weights dropped): this identifies `x+x` with `2*x`, `a-(b-c)` with `a-b+c`,
  `x-0`, `0+x`, `1*x`, `(u)/2` with `(1/2)*u`.  Atoms: `one`, `var`, `par k`, `exp s`, `logabs s` (log|s|),
  `ipow k s` (s^k, k ∈ ℤ: chains of square/cube/inv), `apow q s` (|s|^q, q ∈ ℚ: chains through sqrt_abs),
  `powabs b e` (|b|^e: ESR's `pow`/`pow_abs`), `app o s` (sin, cos, tenexp, log10_abs), `mul`, `div`.
* `norm` — the normaliser; the smart constructors `mkPowOp`, `mkLog`, `mkPowAbs`, `mkMul`, `mkDiv` are the
  rewrite rules ESR uses (`pow_num`: square *2, cube *3, sqrt_abs /2, inv *-1):
    P(exp w) = exp(q·w);  P(|b|^e) = |b|^(q·e);  P(P' s) collapses to one exponent;
    log|exp w| = w;  log|s^k| = k·log|s|;  log||s|^q| = q·log|s|;  log||b|^e| = e·log|b|;
    |s^k|^e = |s|^(k·e);  |exp w|^e = exp(w·e);  ||b|^e'|^e = |b|^(e'·e);
    c·s (integer literal factor), s/c (non-zero integer literal divisor).
* `certEquiv a b B` — both lists parse over `B` and have equal normal forms.
No Mathlib; everything is a total structural function.
-/
import ESRVerif.Generated.Rewrite
namespace ESR.Rewrite

/-! ### vocabulary -/

inductive UOp where
  | inv | square | cube | sqrt_abs | exp | log_abs | sin | cos | tenexp | log10_abs
  deriving Repr, DecidableEq

inductive BOp where
  | add | mul | sub | div | pow | pow_abs
  deriving Repr, DecidableEq

def UOp.name : UOp → String
  | .inv => "inv" | .square => "square" | .cube => "cube" | .sqrt_abs => "sqrt_abs" | .exp => "exp"
  | .log_abs => "log_abs" | .sin => "sin" | .cos => "cos" | .tenexp => "tenexp" | .log10_abs => "log10_abs"

def BOp.name : BOp → String
  | .add => "+" | .mul => "*" | .sub => "-" | .div => "/" | .pow => "pow" | .pow_abs => "pow_abs"

def UOp.all : List UOp := [.inv, .square, .cube, .sqrt_abs, .exp, .log_abs, .sin, .cos, .tenexp, .log10_abs]
def BOp.all : List BOp := [.add, .mul, .sub, .div, .pow, .pow_abs]

def UOp.ofName? (s : String) : Option UOp := UOp.all.find? (fun o => o.name == s)
def BOp.ofName? (s : String) : Option BOp := BOp.all.find? (fun o => o.name == s)

/-- Labelled expression trees over ESR's operator vocabulary. -/
inductive LExpr where
  | x : LExpr
  | par (k : Nat) : LExpr
  | lit (z : Int) : LExpr
  | un (o : UOp) (e : LExpr) : LExpr
  | bin (o : BOp) (l r : LExpr) : LExpr
  deriving Repr, DecidableEq

/-- `basis_functions[1]`, `basis_functions[2]` (the nullary class is fixed by the property: x, a_k, integers). -/
structure Basis where
  unary : List String
  binary : List String
  deriving Repr

def parLabel (k : Nat) : String := "a" ++ toString k
def litLabel (z : Int) : String := toString z

/-- Prefix (pre-order) label list of a tree. -/
def LExpr.toPrefix : LExpr → List String
  | .x => ["x"]
  | .par k => [parLabel k]
  | .lit z => [litLabel z]
  | .un o e => o.name :: e.toPrefix
  | .bin o l r => o.name :: (l.toPrefix ++ r.toPrefix)

/-- Arities in prefix order (the shape string of `check_tree`). -/
def LExpr.arities : LExpr → List Nat
  | .x | .par _ | .lit _ => [0]
  | .un _ e => 1 :: e.arities
  | .bin _ l r => 2 :: (l.arities ++ r.arities)

/-- every operator label of the tree belongs to the basis -/
def LExpr.inBasis (B : Basis) : LExpr → Bool
  | .x | .par _ | .lit _ => true
  | .un o e => B.unary.contains o.name && e.inBasis B
  | .bin o l r => B.binary.contains o.name && l.inBasis B && r.inBasis B

/-! ### labels -/

def digitVal (c : Char) : Option Nat := if c.isDigit then some (c.toNat - '0'.toNat) else none

/-- decimal value of a non-empty all-digit character list -/
def natOfDigits : List Char → Option Nat
  | [] => none
  | cs => cs.foldlM (fun acc c => (digitVal c).map (fun d => 10 * acc + d)) 0

inductive Tok where
  | leaf (e : LExpr) | un (o : UOp) | bin (o : BOp)
  deriving Repr

/-- A parameter label `a<k>`: accepted only in the canonical spelling. -/
def parOfLabel? (s : String) : Option Nat :=
  match s.toList with
  | 'a' :: ds => (natOfDigits ds).bind (fun k => if parLabel k = s then some k else none)
  | _ => none

/-- An integer literal (`str(int)` spelling: optional '-', no leading zeros, no "-0"). -/
def litOfLabel? (s : String) : Option Int :=
  let z? : Option Int := match s.toList with
    | '-' :: ds => (natOfDigits ds).map (fun n => - (n : Int))
    | ds => (natOfDigits ds).map (fun n => (n : Int))
  z?.bind (fun z => if litLabel z = s then some z else none)

def classify (B : Basis) (s : String) : Option Tok :=
  if s = "x" then some (.leaf .x)
  else match parOfLabel? s with
    | some k => some (.leaf (.par k))
    | none => match litOfLabel? s with
      | some z => some (.leaf (.lit z))
      | none => match UOp.ofName? s with
        | some o => if B.unary.contains s then some (.un o) else none
        | none => match BOp.ofName? s with
          | some o => if B.binary.contains s then some (.bin o) else none
          | none => none

/-! ### parser (right-to-left over the prefix list, stack of completed subtrees) -/

def pushTok : Tok → List LExpr → Option (List LExpr)
  | .leaf e, st => some (e :: st)
  | .un o, e :: st => some (.un o e :: st)
  | .bin o, l :: r :: st => some (.bin o l r :: st)
  | _, _ => none

def parseStack (B : Basis) : List String → Option (List LExpr)
  | [] => some []
  | s :: rest =>
    match parseStack B rest with
    | none => none
    | some st => match classify B s with
      | none => none
      | some t => pushTok t st

/-- prefix label list → tree; `none` on malformed lists and on labels outside basis ∪ {x, a_k, integers}. -/
def parsePrefix (ls : List String) (B : Basis) : Option LExpr :=
  match parseStack B ls with
  | some [e] => some e
  | _ => none

/-! ### normal forms -/

inductive NF where
  | nil : NF
  | cons (c : Rat) (a : NF) (rest : NF) : NF
  | one : NF
  | var : NF
  | par (k : Nat) : NF
  | exp (u : NF) : NF
  | logabs (u : NF) : NF
  | ipow (k : Int) (u : NF) : NF
  | apow (q : Rat) (u : NF) : NF
  | powabs (b e : NF) : NF
  | app (o : UOp) (u : NF) : NF
  | mul (a b : NF) : NF
  | div (a b : NF) : NF
  deriving Repr, DecidableEq

def NF.rank : NF → Nat
  | .nil => 0 | .cons .. => 1 | .one => 2 | .var => 3 | .par _ => 4 | .exp _ => 5 | .logabs _ => 6
  | .ipow .. => 7 | .apow .. => 8 | .powabs .. => 9 | .app .. => 10 | .mul .. => 11 | .div .. => 12

def cmpRat (a b : Rat) : Ordering := if a < b then .lt else if a = b then .eq else .gt

def UOp.idx : UOp → Nat
  | .inv => 0 | .square => 1 | .cube => 2 | .sqrt_abs => 3 | .exp => 4 | .log_abs => 5 | .sin => 6 | .cos => 7
  | .tenexp => 8 | .log10_abs => 9

/-- A structural order used only to canonicalise sums (soundness never depends on its properties). -/
def NF.cmp : NF → NF → Ordering
  | .cons c a r, .cons c' a' r' => (NF.cmp a a').then ((cmpRat c c').then (NF.cmp r r'))
  | .par k, .par k' => compare k k'
  | .exp u, .exp u' => NF.cmp u u'
  | .logabs u, .logabs u' => NF.cmp u u'
  | .ipow k u, .ipow k' u' => (NF.cmp u u').then (compare k k')
  | .apow q u, .apow q' u' => (NF.cmp u u').then (cmpRat q q')
  | .powabs b e, .powabs b' e' => (NF.cmp b b').then (NF.cmp e e')
  | .app o u, .app o' u' => (compare o.idx o'.idx).then (NF.cmp u u')
  | .mul a b, .mul a' b' => (NF.cmp a a').then (NF.cmp b b')
  | .div a b, .div a' b' => (NF.cmp a a').then (NF.cmp b b')
  | a, b => compare a.rank b.rank

/-- `c·a + s`, keeping the spine sorted and merged. -/
def insert (c : Rat) (a : NF) : NF → NF
  | .cons c' a' r =>
    if a = a' then (if c + c' = 0 then r else .cons (c + c') a' r)
    else match NF.cmp a a' with
      | .lt => .cons c a (.cons c' a' r)
      | _ => .cons c' a' (insert c a r)
  | .nil => .cons c a .nil
  | t => .cons c a (.cons 1 t .nil)

/-- `s + acc` -/
def addS : NF → NF → NF
  | .cons c a r, acc => addS r (if c = 0 then acc else insert c a acc)
  | .nil, acc => acc
  | t, acc => insert 1 t acc

def scale (k : Rat) : NF → NF
  | .cons c a r => .cons (k * c) a (scale k r)
  | .nil => .nil
  | t => .cons k t .nil

/-- `k·s` -/
def scaleS (k : Rat) (s : NF) : NF := if k = 0 then .nil else scale k s

def atom (a : NF) : NF := .cons 1 a .nil

/-- the rational a sum denotes, if it is a constant -/
def isConst : NF → Option Rat
  | .nil => some 0
  | .cons c .one .nil => some c
  | _ => none

/-- the atom of a sum of the form `1·a` -/
def single? : NF → Option NF
  | .cons c a .nil => if c = 1 then some a else none
  | _ => none

/-- `s = c·s'` with the leading weight of `s'` equal to 1 (so `2a+2b` and `a+b` share their primitive part) -/
def splitCoeff : NF → Rat × NF
  | .cons c a .nil => (c, .cons 1 a .nil)
  | .cons c a r => if c = 0 then (1, .cons c a r) else (c, scale c⁻¹ (.cons c a r))
  | t => (1, t)

def mkMul (a b : NF) : NF :=
  match isConst a with
  | some k => scaleS k b
  | none => match isConst b with
    | some k => scaleS k a
    | none =>
      let ca := splitCoeff a
      let cb := splitCoeff b
      scaleS (ca.1 * cb.1) (atom (.mul ca.2 cb.2))

def mkDiv (a b : NF) : NF :=
  match isConst b with
  | some k => if k = 0 then atom (.div a b) else scaleS k⁻¹ a
  | none =>
    let ca := splitCoeff a
    scaleS ca.1 (atom (.div ca.2 b))

/-- `pow_num` of update_tree as integer multipliers; `sqrt_abs` (`/2`) is handled apart. -/
def UOp.intMult : UOp → Option Int
  | .square => some 2
  | .cube => some 3
  | .inv => some (-1)
  | _ => none

/-- square / cube / inv with multiplier `m` applied to a sum -/
def mkIntPow (m : Int) (a : NF) : NF :=
  match single? a with
  | some (.exp w) => atom (.exp (scaleS m w))
  | some (.powabs b e) => atom (.powabs b (scaleS m e))
  | some (.ipow k b) => atom (.ipow (k * m) b)
  | some (.apow q b) => atom (.apow (q * m) b)
  | _ => atom (.ipow m a)

def half : Rat := 1 / 2

/-- sqrt_abs applied to a sum -/
def mkSqrtAbs (a : NF) : NF :=
  match single? a with
  | some (.exp w) => atom (.exp (scaleS half w))
  | some (.powabs b e) => atom (.powabs b (scaleS half e))
  | some (.ipow k b) => atom (.apow (k * half) b)
  | some (.apow q b) => atom (.apow (q * half) b)
  | _ => atom (.apow half a)

/-- log_abs applied to a sum -/
def mkLog (a : NF) : NF :=
  match single? a with
  | some (.exp w) => w
  | some (.ipow k b) => scaleS k (atom (.logabs b))
  | some (.apow q b) => scaleS q (atom (.logabs b))
  | some (.powabs b e) => mkMul e (atom (.logabs b))
  | _ => atom (.logabs a)

/-- pow / pow_abs applied to two sums -/
def mkPowAbs (b e : NF) : NF :=
  match single? b with
  | some (.ipow k s) => atom (.powabs s (scaleS k e))
  | some (.apow q s) => atom (.powabs s (scaleS q e))
  | some (.exp w) => atom (.exp (mkMul w e))
  | some (.powabs s e') => atom (.powabs s (mkMul e' e))
  | _ => atom (.powabs b e)

def normUn (o : UOp) (a : NF) : NF :=
  match o with
  | .square => mkIntPow 2 a
  | .cube => mkIntPow 3 a
  | .inv => mkIntPow (-1) a
  | .sqrt_abs => mkSqrtAbs a
  | .exp => atom (.exp a)
  | .log_abs => mkLog a
  | o => atom (.app o a)

def normBin (o : BOp) (a b : NF) : NF :=
  match o with
  | .add => addS a b
  | .sub => addS a (scaleS (-1) b)
  | .mul => mkMul a b
  | .div => mkDiv a b
  | .pow => mkPowAbs a b
  | .pow_abs => mkPowAbs a b

def norm : LExpr → NF
  | .x => atom .var
  | .par k => atom (.par k)
  | .lit z => if z = 0 then .nil else .cons z .one .nil
  | .un o e => normUn o (norm e)
  | .bin o l r => normBin o (norm l) (norm r)

/-- The validator: both label lists parse over the basis and normalise to the same form. -/
def certEquiv (a b : List String) (B : Basis) : Bool :=
  match parsePrefix a B, parsePrefix b B with
  | some ea, some eb => decide (norm ea = norm eb)
  | _, _ => false

/-! ### tie to the regenerated `pow_num` table of update_tree -/

/-- exponent multiplier the normaliser applies for a pow-set operator -/
def UOp.powQ : UOp → Option Rat
  | .square => some 2
  | .cube => some 3
  | .inv => some (-1)
  | .sqrt_abs => some half
  | _ => none

/-- exponent multiplier a `pow_num` entry denotes (`'*n'` ↦ n, `'/n'` ↦ 1/n) -/
def powNumQ (e : ESR.Gen.Rewrite.PowNum) : Option Rat :=
  if e.op = "*" then some e.n else if e.op = "/" then some (1 / (e.n : Rat)) else none

def sameSet {α} [BEq α] (xs ys : List α) : Bool := xs.all (ys.contains ·) && ys.all (xs.contains ·)

/-- every regenerated `pow_num` entry names a known operator whose multiplier in the normaliser is the entry's,
`pow_set` is the key set of `pow_num`, and exp_set / exp_ord are the ones the normaliser has rules for
(order-insensitive) -/
def tablesAgree : Bool :=
  (ESR.Gen.Rewrite.pow_num.all fun e =>
    match UOp.ofName? e.label with
    | some o => decide (o.powQ = powNumQ e) && o.powQ.isSome
    | none => false)
  && ESR.Gen.Rewrite.pow_set.all (fun l => ESR.Gen.Rewrite.pow_num.any (fun e => e.label == l))
  && ESR.Gen.Rewrite.pow_num.all (fun e => ESR.Gen.Rewrite.pow_set.contains e.label)
  && sameSet ESR.Gen.Rewrite.exp_set ["log_abs", "exp", "pow_abs"]
  && sameSet ESR.Gen.Rewrite.exp_ord [("log_abs", 1), ("exp", 2), ("pow_abs", 3)]

/-- Well-formedness of a prefix label list over a basis (specification side): it is the prefix form of a
tree all of whose operator labels are basis members (leaves: x, a_k, integers). -/
def WellFormed (ls : List String) (B : Basis) : Prop :=
  ∃ e : LExpr, e.toPrefix = ls ∧ e.inBasis B = true

/-! ## Layer 2: list-level model of `update_tree` (generator.py l.576-980)

`updateTree labels shape tryIdx B` mirrors the Python on (labels, [t.type for t in tree], try_idx, basis):
* l.598-675 detection: `specials` — for every index carrying an exp-set label, the maximal chain of pow-set
  labels after it (log_abs, pow_abs: `scan` forwards) / before it (exp, pow_abs: `scan` backwards over the
  reversed prefix) whose running product stays an integer or a unit fraction (sympy `is_integer` tests), as
  (d, '*n' | '/n').  The tables are the regenerated `ESR.Gen.Rewrite.pow_set/pow_num/exp_set/exp_ord`.
* l.681-978 the output splices, one `Out` per Python branch, label list and shape list spelled separately exactly
  as the Python spells them.
Tree pointers: Python reads `parent`/`right` of the Node list produced by `check_tree(shape)`; the model uses
`subEnd` (end of the subtree starting at an index, by the slot counter), `parentIdx`, `rightChild` — equal on valid
shapes (checked by correspondence on every real call).  `error` where Python raises (KeyError on a label missing
from a table, IndexError, int('2/3')).
-/
namespace UT
open ESR.Gen.Rewrite

def inPow (l : String) : Bool := pow_set.contains l
def inExp (l : String) : Bool := exp_set.contains l
def expOrd (l : String) : Option Nat := (exp_ord.find? (fun e => e.1 == l)).map (·.2)
def powEntry (l : String) : Option PowNum := pow_num.find? (fun e => e.label == l)

/-- `'*k'` or `'/k'` -/
structure Num where
  op : String
  k : Int
  deriving Repr, DecidableEq

def applyEntry (q : Rat) (e : PowNum) : Rat := if e.op == "*" then q * (e.n : Rat) else q / (e.n : Rat)

/-- `n.is_integer or (1/n).is_integer` -/
def okRat (q : Rat) : Bool := q.den == 1 || q.num.natAbs == 1

/-- `'*' + str(n)` if n is an integer else `'/' + str(1/n)`; `none` when 1/n is not an integer either
(Python then fails in `int(n[1:])`). -/
def numOf (q : Rat) : Option Num :=
  if q.den == 1 then some ⟨"*", q.num⟩
  else if q.num.natAbs == 1 then some ⟨"/", (1 / q).num⟩ else none

/-- the `while not success` loops: number of accepted chain labels and the running product -/
def scan : List String → Rat → Option (Nat × Rat)
  | [], q => some (0, q)
  | l :: rest, q =>
    if inPow l then
      match powEntry l with
      | none => none
      | some e =>
        let q' := applyEntry q e
        if okRat q' then (scan rest q').map (fun r => (r.1 + 1, r.2)) else some (0, q)
    else some (0, q)

structure Special where
  i : Nat
  d1 : Nat
  d2 : Nat
  n1 : Option Num
  n2 : Option Num
  deriving Repr, DecidableEq

def scanNum (ls : List String) : Option (Nat × Num) :=
  match scan ls 1 with
  | none => none
  | some (d, q) => (numOf q).map (fun n => (d, n))

/-- l.609-675 for one index; outer `none` = Python raises -/
def detectAt (L : List String) (i : Nat) : Option (Option Special) :=
  let l := L.getD i ""
  if !inExp l then some none
  else match expOrd l with
    | none => none
    | some o =>
      let fwd : Option (Option (Nat × Num)) :=
        if (o == 1 || o == 3) && decide (i + 1 < L.length) && inPow (L.getD (i + 1) "") then
          (scanNum (L.drop (i + 1))).map some
        else some none
      let bwd : Option (Option (Nat × Num)) :=
        if (o == 2 || o == 3) && decide (0 < i) && inPow (L.getD (i - 1) "") then
          (scanNum (L.take i).reverse).map some
        else some none
      match fwd, bwd with
      | some none, some none => some none
      | some f, some b =>
        some (some ⟨i, (f.map (·.1)).getD 0, (b.map (·.1)).getD 0, f.map (·.2), b.map (·.2)⟩)
      | _, _ => none

def specialsFrom (L : List String) : List Nat → Option (List Special)
  | [] => some []
  | i :: is =>
    match detectAt L i with
    | none => none
    | some r =>
      match specialsFrom L is with
      | none => none
      | some rest => some (match r with | some sp => sp :: rest | none => rest)

/-- `special_idx` with its parallel arrays, in index order -/
def specials (L : List String) : Option (List Special) := specialsFrom L (List.range L.length)

/-! tree pointers from the shape -/

/-- number of positions covered by `need` consecutive subtrees starting at the head (clipped at the end) -/
def spanLen : List Nat → Nat → Nat
  | [], _ => 0
  | a :: rest, need => if need = 0 then 0 else 1 + spanLen rest (need - 1 + a)

/-- one past the last index of the subtree rooted at `i` -/
def subEnd (shape : List Nat) (i : Nat) : Nat := i + spanLen (shape.drop i) 1

/-- the nearest `p < n` (searching downwards from `n - 1`) whose subtree contains `i` -/
def parentFrom (shape : List Nat) (i : Nat) : Nat → Option Nat
  | 0 => none
  | p + 1 => if i < subEnd shape p then some p else parentFrom shape i p

def parentIdx (shape : List Nat) (i : Nat) : Option Nat := parentFrom shape i i

def rightChild (shape : List Nat) (p : Nat) : Option Nat :=
  if shape.getD p 0 = 2 then some (subEnd shape (p + 1)) else none

/-- Python slice `xs[a:b]` for 0 ≤ a, b -/
def sl {α} (xs : List α) (a b : Nat) : List α := (xs.drop a).take (b - a)

inductive Out where
  | none                                               -- (None, None, 0)
  | one (labels : List String) (shape : List Nat)      -- nadded = 1, flat lists
  | many (cands : List (List String × List Nat))       -- lists of candidates (nadded = their number)
  | error                                              -- Python raises
  deriving Repr, DecidableEq

def istr (k : Int) : String := toString k

def inB2 (B : Basis) (op : String) : Bool := B.binary.contains op

/-- `n is None or n[0] in basis_functions[2]` -/
def numOk (B : Basis) (n : Option Num) : Bool :=
  match n with
  | none => true
  | some n => inB2 B n.op

/-- the rational a `'*k'` / `'/k'` string denotes (`None` ↦ 1) -/
def numVal (n : Option Num) : Rat :=
  match n with
  | none => 1
  | some n => if n.op == "*" then (n.k : Rat) else 1 / (n.k : Rat)

/-- l.696-764: the pow_abs node `i` with chains on either side -/
def outOrd3 (L : List String) (S : List Nat) (B : Basis) (sp : Special) : Out :=
  let i := sp.i
  if !(numOk B sp.n1 && numOk B sp.n2) then .none
  else
    match numOf (numVal sp.n1 * numVal sp.n2) with
    | none => .error
    | some n =>
      match rightChild S i with
      | none => .error
      | some j =>
        if decide (L.length < j + 1) then .error else
        let k := if i = 0 then L.length else subEnd S i
        let li := L.getD i ""
        let si := S.getD i 0
        if n.k = 1 then
          .one (L.take (i - sp.d2) ++ [li] ++ L.drop (i + sp.d1 + 1))
               (S.take (i - sp.d2) ++ [si] ++ S.drop (i + sp.d1 + 1))
        else
          .one (L.take (i - sp.d2) ++ [li] ++ sl L (i + sp.d1 + 1) j ++ [n.op] ++ sl L j k ++ [istr n.k] ++ L.drop k)
               (S.take (i - sp.d2) ++ [si] ++ sl S (i + sp.d1 + 1) j ++ [2] ++ sl S j k ++ [0] ++ S.drop k)

/-- l.766-978: log_abs (`ord = 1`, chain after it) or exp (`ord = 2`, chain before it) -/
def outOrd12 (L : List String) (S : List Nat) (B : Basis) (ord : Nat) (i d : Nat) (n : Num) : Out :=
  if !inB2 B n.op then .none
  else
    let li := L.getD i ""
    let si := S.getD i 0
    let j := if 0 < i then subEnd S i else L.length
    let underSum : Option (Nat × String) :=
      if 0 < i then
        match parentIdx S i with
        | none => none
        | some p => let lp := L.getD p ""; if lp == "+" || lp == "-" then some (p, lp) else none
      else none
    match underSum with
    | some (p, lp) =>
      if n.op == "*" && decide (n.k < 0) && ord == 1 then
        let invOp := if lp == "+" then "-" else "+"
        let m := istr (-n.k)                                    -- n[2:]
        if rightChild S p == some i && inB2 B invOp then
          if n.k = -1 then
            .one (L.take p ++ [invOp] ++ sl L (p + 1) i ++ [li] ++ L.drop (i + d + 1))
                 (S.take i ++ [si] ++ sl S (i + d + 1) j ++ S.drop j)
          else
            .one (L.take p ++ [invOp] ++ sl L (p + 1) i ++ [n.op] ++ [li] ++ sl L (i + d + 1) j ++ [m] ++ L.drop j)
                 (S.take p ++ [2] ++ sl S (p + 1) i ++ [2] ++ [si] ++ sl S (i + d + 1) j ++ [0] ++ S.drop j)
        else if lp == "+" && inB2 B invOp then
          match rightChild S p with
          | none => .error
          | some r =>
            let k := subEnd S p
            if n.k = -1 then
              .one (L.take p ++ [invOp] ++ sl L r k ++ sl L (p + 1) (i + 1) ++ sl L (i + d + 1) r ++ L.drop k)
                   (S.take p ++ [2] ++ sl S r k ++ sl S (p + 1) (i + 1) ++ sl S (i + d + 1) r ++ S.drop k)
            else
              .one (L.take p ++ [invOp] ++ sl L r k ++ [n.op] ++ sl L (p + 1) (i + 1) ++ sl L (i + d + 1) r ++ [m] ++ L.drop k)
                   (S.take p ++ [2] ++ sl S r k ++ [2] ++ sl S (p + 1) (i + 1) ++ sl S (i + d + 1) r ++ [0] ++ S.drop k)
        else
          let c1 : List (List String × List Nat) :=
            if inB2 B invOp then
              [(L.take p ++ ["*", "-1", invOp] ++ [n.op, m] ++ [li] ++ L.drop (i + d + 1),
                S.take p ++ [2, 0, 2] ++ [2, 0] ++ [si] ++ S.drop (i + d + 1))]
            else []
          .many (c1 ++ [(L.take (p + 1) ++ [n.op, istr n.k] ++ [li] ++ L.drop (i + d + 1),
                         S.take (p + 1) ++ [2, 0] ++ [si] ++ S.drop (i + d + 1))])
      else outPlain L S ord i d n li si j
    | none => outPlain L S ord i d n li si j
where
  /-- l.914-978 -/
  outPlain (L : List String) (S : List Nat) (ord i d : Nat) (n : Num) (li : String) (si j : Nat) : Out :=
    if ord == 1 then
      if n.k = 1 then .one (L.take (i + 1) ++ L.drop (i + d + 1)) (S.take (i + 1) ++ S.drop (i + d + 1))
      else .one (L.take i ++ [n.op] ++ [li] ++ sl L (i + d + 1) j ++ [istr n.k] ++ L.drop j)
                (S.take i ++ [2] ++ [si] ++ sl S (i + d + 1) j ++ [0] ++ S.drop j)
    else
      if n.k = 1 then .one (L.take (i - d) ++ L.drop i) (S.take (i - d) ++ S.drop i)
      else .one (L.take (i - d) ++ [li] ++ [n.op] ++ sl L (i + 1) j ++ [istr n.k] ++ L.drop j)
                (S.take (i - d) ++ [si] ++ [2] ++ sl S (i + 1) j ++ [0] ++ S.drop j)

/-- `update_tree(tree, labels, try_idx, basis_functions)` with `shape = [t.type for t in tree]` -/
def updateTree (L : List String) (S : List Nat) (tryIdx : Nat) (B : Basis) : Out :=
  match specials L with
  | none => .error
  | some sps =>
    match sps[tryIdx]? with
    | none => .none
    | some sp =>
      match expOrd (L.getD sp.i "") with
      | some 1 => (match sp.n1 with | some n => outOrd12 L S B 1 sp.i sp.d1 n | none => .error)
      | some 2 => (match sp.n2 with | some n => outOrd12 L S B 2 sp.i sp.d2 n | none => .error)
      | some 3 => outOrd3 L S B sp
      | _ => .error

/-- l.683-978 for ONE candidate record: the selection of `n`/`d` by `exp_ord[labels[i]]` and the output splices.
`updateTree L S k B` is `outOf` applied to the `k`-th record (`updateTree_candidate_local`). -/
def outOf (L : List String) (S : List Nat) (B : Basis) (sp : Special) : Out :=
  match expOrd (L.getD sp.i "") with
  | some 1 => (match sp.n1 with | some n => outOrd12 L S B 1 sp.i sp.d1 n | none => .error)
  | some 2 => (match sp.n2 with | some n => outOrd12 L S B 2 sp.i sp.d2 n | none => .error)
  | some 3 => outOrd3 L S B sp
  | _ => .error

/-- selection of a candidate out of ANY candidate list (l.681-683: `if len(special_idx) > try_idx`) -/
def selectOut (L : List String) (S : List Nat) (B : Basis) (sps : List Special) (k : Nat) : Out :=
  match sps[k]? with
  | none => .none
  | some sp => outOf L S B sp

/-! ### the candidate table AS THE PYTHON HAS IT: five parallel lists (l.601-675)

`special_idx`, `diff1_idx`, `diff2_idx`, `num1`, `num2` are appended to / overwritten statement by statement;
`try_idx` indexes all five.  `detectPar` mirrors those statements (including `if i not in special_idx`,
`if len(diff2_idx) != len(special_idx)`, `diff2_idx[-1] = …`); `Props/C11c.lean` proves that the five lists are the
columns of the record list `specials` (the alignment invariant) and that selecting row `k` of the five lists and
splicing is `updateTree`. -/

structure Par where
  special : List Nat
  diff1 : List Nat
  diff2 : List Nat
  num1 : List (Option Num)
  num2 : List (Option Num)
  deriving Repr, DecidableEq

def Par.empty : Par := ⟨[], [], [], [], []⟩

/-- the columns of a record list -/
def Par.ofRecords (sps : List Special) : Par :=
  ⟨sps.map (·.i), sps.map (·.d1), sps.map (·.d2), sps.map (·.n1), sps.map (·.n2)⟩

/-- row `k` of the five lists (`none` = Python's IndexError on a list that is too short) -/
def Par.row (P : Par) (k : Nat) : Option Special :=
  match P.special[k]?, P.diff1[k]?, P.diff2[k]?, P.num1[k]?, P.num2[k]? with
  | some i, some d1, some d2, some n1, some n2 => some ⟨i, d1, d2, n1, n2⟩
  | _, _, _, _, _ => none

/-- `xs[-1] = v` (`none`: IndexError on the empty list) -/
def setLast {α} (xs : List α) (v : α) : Option (List α) :=
  if xs.isEmpty then none else some (xs.dropLast ++ [v])

/-- the forward `while not success` loop of l.613-639 at index `i` (exp_ord 1 or 3); outer `none` = Python raises -/
def fwdAt (L : List String) (i o : Nat) : Option (Option (Nat × Num)) :=
  if (o == 1 || o == 3) && decide (i + 1 < L.length) && inPow (L.getD (i + 1) "") then
    (scanNum (L.drop (i + 1))).map some
  else some none

/-- the backward loop of l.643-675 at index `i` (exp_ord 2 or 3) -/
def bwdAt (L : List String) (i o : Nat) : Option (Option (Nat × Num)) :=
  if (o == 2 || o == 3) && decide (0 < i) && inPow (L.getD (i - 1) "") then
    (scanNum (L.take i).reverse).map some
  else some none

/-- l.614-639: the five appends of the forward block -/
def Par.pushFwd (P : Par) (i : Nat) (f : Option (Nat × Num)) : Par :=
  match f with
  | some (d, n) => ⟨P.special ++ [i], P.diff1 ++ [d], P.diff2 ++ [0], P.num1 ++ [some n], P.num2 ++ [none]⟩
  | none => P

/-- l.644-675: the conditional append / overwrite of the backward block -/
def Par.pushBwd (P : Par) (i : Nat) (b : Option (Nat × Num)) : Option Par :=
  match b with
  | none => some P
  | some (d, n) =>
    let sp := if P.special.contains i then P.special else P.special ++ [i]
    let dd : Option (List Nat × List Nat) :=
      if P.diff2.length != sp.length then some (P.diff1 ++ [0], P.diff2 ++ [d])
      else (setLast P.diff2 d).map (fun d2 => (P.diff1, d2))
    let nn : Option (List (Option Num) × List (Option Num)) :=
      if P.num2.length != sp.length then some (P.num1 ++ [none], P.num2 ++ [some n])
      else (setLast P.num2 (some n)).map (fun n2 => (P.num1, n2))
    match dd, nn with
    | some (d1, d2), some (n1, n2) => some ⟨sp, d1, d2, n1, n2⟩
    | _, _ => none

/-- the body of `for i in range(len(labels))` (l.609-675) on the five lists -/
def stepPar (L : List String) (P : Par) (i : Nat) : Option Par :=
  let l := L.getD i ""
  if !inExp l then some P
  else match expOrd l with
    | none => none
    | some o =>
      match fwdAt L i o, bwdAt L i o with
      | some f, some b => (P.pushFwd i f).pushBwd i b
      | _, _ => none

def foldPar (L : List String) : List Nat → Par → Option Par
  | [], P => some P
  | i :: is, P =>
    match stepPar L P i with
    | none => none
    | some P' => foldPar L is P'

/-- the five lists after the detection loop -/
def detectPar (L : List String) : Option Par := foldPar L (List.range L.length) Par.empty

/-- `update_tree` spelled over the five parallel lists, each indexed by `try_idx` (l.681-694) -/
def updateTreePar (L : List String) (S : List Nat) (tryIdx : Nat) (B : Basis) : Out :=
  match detectPar L with
  | none => .error
  | some P =>
    if tryIdx < P.special.length then
      match P.row tryIdx with
      | some sp => outOf L S B sp
      | none => .error
    else .none

/-- number of pow-set labels: the termination measure of phase 1 of `find_additional_trees` -/
def powCount (L : List String) : Nat := (L.filter inPow).length

end UT

end ESR.Rewrite
